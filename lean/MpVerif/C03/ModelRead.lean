import MpVerif.C03.ModelWrite
/-!
# C03 — the NL reader (`TextReader::ReadHeader` in src/nl-reader.cc, `NLReader<Reader,Handler>` in nl-reader.h)

A transcription of `NLReader::Read(Reader*)` with `flags = 0` and of every function it calls, over the token
stream.  The reader is generic in its `Reader` in the C++ too; here the token list plays that role.
`Codec.rd x` is what `Reader::ReadDouble` returns for a double the writer printed with `%g`
(text: `strtod(g_fmt(x))`, binary: the same 8 bytes); `Codec.vb x` the same for the header's `%.17g` (libc).
Recursion is bounded by fuel (one unit per nesting level / per segment); `readTokens` supplies the input length.
-/
namespace MpVerif.C03
open MpVerif.Gen.OpcodesW

structure Codec where
  rd : Dbl → Dbl
  vb : Dbl → Dbl

/-- handler notifications, in call order (expression callbacks are folded into the `HE` trees) -/
inductive Ev
  | header (h : Hdr)
  | func (i type : Nat) (nargs : Int) (name : String)
  | isuf (kind n : Nat) (name : String)
  | dsuf (kind n : Nat) (name : String)
  | svalI (i : Nat) (v : Int)
  | svalD (i : Nat) (x : Dbl)
  | vb (i : Nat) (l u : Dbl)
  | cb (i : Nat) (l u : Dbl)
  | compl (i v info : Nat)
  | x0 (i : Nat) (x : Dbl)
  | d0 (i : Nat) (x : Dbl)
  | cbeg (i n : Nat)
  | cterm (v : Nat) (x : Dbl)
  | cend (i pos : Nat) (e : HE)
  | acon (i : Nat) (e : HE)
  | lcon (i : Nat) (e : HE)
  | obj (i type : Nat) (e : HE)
  | csz
  | cadd (s : Nat)
  | jbeg (i n : Nat)
  | jterm (v : Nat) (x : Dbl)
  | gbeg (i n : Nat)
  | gterm (v : Nat) (x : Dbl)
  | endInput
deriving Repr, Inhabited

/-! ## `Reader` primitives -/

/-- `ReadTillEndOfLine` (body of the file: the writer puts nothing but an optional comment before `\n`) -/
def readEol : List Tok → Except Err (List Tok)
  | .eol :: ts => .ok ts
  | .cmt _ :: .eol :: ts => .ok ts
  | _ => .error .expectedNewline

/-- `TextReader::ReadTillEndOfLine` on a header line: skips whatever is left on the line -/
def skipLine : List Tok → Except Err (List Tok)
  | [] => .error .expectedNewline
  | .eol :: ts => .ok ts
  | _ :: ts => skipLine ts

/-- `Reader::ReadUInt` -/
def readUInt : List Tok → R Nat
  | .int i :: ts => if 0 ≤ i then .ok (i.toNat, ts) else .error .expectedUInt
  | _ => .error .expectedUInt

/-- `Reader::ReadInt<int>` -/
def readInt : List Tok → R Int
  | .int i :: ts => .ok (i, ts)
  | _ => .error .expectedInt

/-- `NLReader::ReadUInt(ub)`: nonnegative and `< ub` -/
def readUIntLt (ub : Nat) (ts : List Tok) : R Nat :=
  match readUInt ts with
  | .ok (v, ts) => if v < ub then .ok (v, ts) else .error .outOfBounds
  | .error e => .error e

/-- `TextReader::ReadOptionalUInt` (header only) -/
def readOptUInt : List Tok → Option Nat × List Tok
  | .int i :: ts => if 0 ≤ i then (some i.toNat, ts) else (none, .int i :: ts)
  | ts => (none, ts)

/-- `Reader::ReadDouble` -/
def readDouble (cd : Codec) : List Tok → R Dbl
  | .dbl x :: ts => .ok (cd.rd x, ts)
  | _ => .error .expectedDouble

/-- `Reader::ReadName` -/
def readName : List Tok → R String
  | .name s :: ts => .ok (s, ts)
  | _ => .error .expectedName

/-- `NLReader::ReadConstant(char code)` after the code character -/
def readConstant (cd : Codec) (t : Tag) (ts : List Tok) : R Dbl :=
  match t, ts with
  | .exN, .dbl x :: ts => (readEol ts).map fun r => (cd.rd x, r)
  | .exS, .sh v :: ts => (readEol ts).map fun r => (Dbl.ofInt v, r)
  | .exL, .lg v :: ts => (readEol ts).map fun r => (Dbl.ofInt v, r)
  | _, _ => .error .expectedConstant

/-- `NLReader::ReadConstant()` = `ReadConstant(reader_.ReadChar())` -/
def readConstantC (cd : Codec) : List Tok → R Dbl
  | .ch t :: ts => readConstant cd t ts
  | _ => .error .expectedConstant

/-! ## expressions -/

inductive Mode | num | log | sym
deriving DecidableEq, Repr

def readArgsWith (rdE : List Tok → R HE) : Nat → List Tok → R (List HE)
  | 0, ts => .ok ([], ts)
  | n + 1, ts =>
    match rdE ts with
    | .error e => .error e
    | .ok (a, ts) =>
      match readArgsWith rdE n ts with
      | .error e => .error e
      | .ok (as, ts) => .ok (a :: as, ts)

/-- the breakpoints/slopes loop of `case expr::PLTERM`: `n` pairs (slope, breakpoint) -/
def readPLPairs (cd : Codec) : Nat → List Tok → R (List Dbl)
  | 0, ts => .ok ([], ts)
  | n + 1, ts =>
    match readConstantC cd ts with
    | .error e => .error e
    | .ok (s, ts) =>
      match readConstantC cd ts with
      | .error e => .error e
      | .ok (b, ts) =>
        match readPLPairs cd n ts with
        | .error e => .error e
        | .ok (l, ts) => .ok (s :: b :: l, ts)

/-- `DoReadReference` -/
def readRef (nv nve : Nat) (ts : List Tok) : R HE :=
  match readUIntLt nve ts with
  | .error e => .error e
  | .ok (i, ts) =>
    match readEol ts with
    | .error e => .error e
    | .ok ts => .ok (if i < nv then .node "v" [i] [] "" [] else .node "ce" [i - nv] [] "" [], ts)

/-- `ReadOpCode` (after the `o`) -/
def readOpCode (ts : List Tok) : R Nat :=
  match readUInt ts with
  | .error e => .error e
  | .ok (oc, ts) =>
    if oc > maxOpcode then .error .invalidOpcode
    else match readEol ts with
      | .error e => .error e
      | .ok ts => .ok (oc, ts)

/-- `ReadNumArgs(min_args)` -/
def readNumArgs (minArgs : Nat) (ts : List Tok) : R Nat :=
  match readUInt ts with
  | .error e => .error e
  | .ok (n, ts) => if n < minArgs then .error .tooFewArgs else .ok (n, ts)

/-- `ReadCountExpr` given the reader for logical arguments -/
def readCountWith (rdLog : List Tok → R HE) (ts : List Tok) : R HE :=
  match readNumArgs 1 ts with
  | .error e => .error e
  | .ok (n, ts) =>
    match readEol ts with
    | .error e => .error e
    | .ok ts =>
      match readArgsWith rdLog n ts with
      | .error e => .error e
      | .ok (as, ts) => .ok (.node "cnt" [n] [] "" as, ts)

/-- iterated operators: `ReadNumArgs(min)`, `ReadArgs` -/
def readIterWith (tag : String) (ks : List Nat) (minArgs : Nat) (rdA : List Tok → R HE) (ts : List Tok) : R HE :=
  match readNumArgs minArgs ts with
  | .error e => .error e
  | .ok (n, ts) =>
    match readEol ts with
    | .error e => .error e
    | .ok ts =>
      match readArgsWith rdA n ts with
      | .error e => .error e
      | .ok (as, ts) => .ok (.node tag (ks ++ [n]) [] "" as, ts)

/-- numberof / symbolic numberof: first argument is read before `Begin…` -/
def readNumberOfWith (tag : String) (rdA : List Tok → R HE) (ts : List Tok) : R HE :=
  match readNumArgs 1 ts with
  | .error e => .error e
  | .ok (n, ts) =>
    match readEol ts with
    | .error e => .error e
    | .ok ts =>
      match rdA ts with
      | .error e => .error e
      | .ok (a0, ts) =>
        match readArgsWith rdA (n - 1) ts with
        | .error e => .error e
        | .ok (as, ts) => .ok (.node tag [n] [] "" (a0 :: as), ts)

def read2 (tag : String) (ks : List Nat) (r1 r2 : List Tok → R HE) (ts : List Tok) : R HE :=
  match r1 ts with
  | .error e => .error e
  | .ok (a, ts) =>
    match r2 ts with
    | .error e => .error e
    | .ok (b, ts) => .ok (.node tag ks [] "" [a, b], ts)

def read3 (tag : String) (r1 r2 r3 : List Tok → R HE) (ts : List Tok) : R HE :=
  match r1 ts with
  | .error e => .error e
  | .ok (a, ts) =>
    match r2 ts with
    | .error e => .error e
    | .ok (b, ts) =>
      match r3 ts with
      | .error e => .error e
      | .ok (c, ts) => .ok (.node tag [] [] "" [a, b, c], ts)

/-- context of the expression readers: header counts they check against -/
structure RCtx where
  cd : Codec
  nv : Nat        -- header_.num_vars
  nve : Nat       -- num_vars_and_exprs_
  nf : Nat        -- header_.num_funcs

/-- `ReadNumericExpr(int opcode)` -/
def readNumOp (c : RCtx) (rd : Mode → List Tok → R HE) (oc : Nat) (ts : List Tok) : R HE :=
  match readerInfo oc with
  | none => .error .invalidOpcode
  | some (k, cls) =>
    match cls with
    | .unary =>
      match rd .num ts with
      | .error e => .error e
      | .ok (a, ts) => .ok (.node "u" [k] [] "" [a], ts)
    | .binary => read2 "bin" [k] (rd .num) (rd .num) ts
    | .ifE => read3 "if" (rd .log) (rd .num) (rd .num) ts
    | .plterm =>
      match readUInt ts with
      | .error e => .error e
      | .ok (ns, ts) =>
        if ns ≤ 1 then .error .tooFewSlopes
        else match readEol ts with
          | .error e => .error e
          | .ok ts =>
            match readPLPairs c.cd (ns - 1) ts with
            | .error e => .error e
            | .ok (l, ts) =>
              match readConstantC c.cd ts with
              | .error e => .error e
              | .ok (s, ts) =>
                match ts with
                | .ch .exV :: ts =>
                  match readRef c.nv c.nve ts with
                  | .error e => .error e
                  | .ok (r, ts) => .ok (.node "pl" [ns - 1] (l ++ [s]) "" [r], ts)
                | _ => .error .expectedReference
    | .vararg => readIterWith "va" [k] 1 (rd .num) ts
    | .sum => readIterWith "sum" [] 3 (rd .num) ts
    | .count => readCountWith (rd .log) ts
    | .numberof => readNumberOfWith "nof" (rd .num) ts
    | .numberofSym => readNumberOfWith "nofs" (rd .sym) ts
    | _ => .error .expectedNumericOpcode

/-- `ReadLogicalExpr(int opcode)` -/
def readLogOp (rd : Mode → List Tok → R HE) (oc : Nat) (ts : List Tok) : R HE :=
  match readerInfo oc with
  | none => .error .invalidOpcode
  | some (k, cls) =>
    match cls with
    | .notE =>
      match rd .log ts with
      | .error e => .error e
      | .ok (a, ts) => .ok (.node "not" [] [] "" [a], ts)
    | .binLogical => read2 "bl" [k] (rd .log) (rd .log) ts
    | .relational => read2 "rel" [k] (rd .num) (rd .num) ts
    | .logicalCount =>
      match rd .num ts with
      | .error e => .error e
      | .ok (lhs, ts) =>
        match ts with
        | .ch .exO :: ts =>
          match readOpCode ts with
          | .error e => .error e
          | .ok (oc2, ts) =>
            if (readerInfo oc2).map (·.1) = some kv_COUNT then
              match readCountWith (rd .log) ts with
              | .error e => .error e
              | .ok (cnt, ts) => .ok (.node "lc" [k] [] "" [lhs, cnt], ts)
            else .error .expectedCount
        | _ => .error .expectedCount
    | .implication => read3 "impl" (rd .log) (rd .log) (rd .log) ts
    | .iterLogical => readIterWith "il" [k] 3 (rd .log) ts
    | .pairwise => readIterWith "pw" [k] 1 (rd .num) ts
    | _ => .error .expectedLogicalOpcode

/-- `ReadNumericExpr(char code, false)` after the code character has been read -/
def readNumCode (c : RCtx) (rd : Mode → List Tok → R HE) (t : Tag) (ts : List Tok) : R HE :=
  match t with
  | .exF =>
    match readUIntLt c.nf ts with
    | .error e => .error e
    | .ok (fi, ts) =>
      match readUInt ts with
      | .error e => .error e
      | .ok (n, ts) =>
        match readEol ts with
        | .error e => .error e
        | .ok ts =>
          match readArgsWith (rd .sym) n ts with
          | .error e => .error e
          | .ok (as, ts) => .ok (.node "call" [fi, n] [] "" as, ts)
  | .exN | .exL | .exS =>
    match readConstant c.cd t ts with
    | .error e => .error e
    | .ok (x, ts) => .ok (.node "n" [] [x] "" [], ts)
  | .exO =>
    match readOpCode ts with
    | .error e => .error e
    | .ok (oc, ts) => readNumOp c rd oc ts
  | .exV => readRef c.nv c.nve ts
  | _ => .error .expectedExpr

/-- `ReadNumericExpr()`, `ReadLogicalExpr()`, `ReadSymbolicExpr()` -/
def readE (c : RCtx) : Nat → Mode → List Tok → R HE
  | 0, _, _ => .error .fuel
  | f + 1, .num, ts =>
    match ts with
    | .ch t :: ts => readNumCode c (readE c f) t ts
    | _ => .error .expectedExpr
  | f + 1, .log, ts =>
    match ts with
    | .ch .exO :: ts =>
      match readOpCode ts with
      | .error e => .error e
      | .ok (oc, ts) => readLogOp (readE c f) oc ts
    | .ch t :: ts =>
      if t = .exN ∨ t = .exL ∨ t = .exS then
        match readConstant c.cd t ts with
        | .error e => .error e
        | .ok (x, ts) => .ok (.node "b" [if x.neZero then 1 else 0] [] "" [], ts)
      else .error .expectedLogical
    | _ => .error .expectedLogical
  | f + 1, .sym, ts =>
    match ts with
    | .ch .exH :: .holl s :: .eol :: ts => .ok (.node "s" [] [] s [], ts)
    | .ch .exH :: _ => .error .expectedString
    | .ch .exO :: ts =>
      match readOpCode ts with
      | .error e => .error e
      | .ok (oc, ts) =>
        if (oc : Int) ≠ ifsymOpcode then readNumOp c (readE c f) oc ts
        else read3 "ifs" (readE c f .log) (readE c f .sym) (readE c f .sym) ts
    | .ch t :: ts => readNumCode c (readE c f) t ts
    | _ => .error .expectedExpr

/-- `ReadNumericExpr(ignore_zero = true)`: a constant equal to zero is dropped (`NumericExpr()` is passed on) -/
def readTopNum (c : RCtx) (f : Nat) (ts : List Tok) : R HE :=
  match ts with
  | .ch t :: ts' =>
    if t = .exN ∨ t = .exL ∨ t = .exS then
      match readConstant c.cd t ts' with
      | .error e => .error e
      | .ok (x, r) => .ok (if x.isZero then .null else .node "n" [] [x] "" [], r)
    else readE c (f + 1) .num ts
  | _ => .error .expectedExpr

/-! ## header: `TextReader::ReadHeader` -/

def readOpts (cd : Codec) : Nat → List Tok → List Int × List Tok
  | 0, ts => ([], ts)
  | n + 1, .int v :: ts => let (l, r) := readOpts cd n ts; (v :: l, r)
  | _ + 1, ts => ([], ts)

/-- the header the reader starts from: `NLHeader()` (nl-header.h: `NLInfo()` sets 3 options {1,1,0}, flags = 1,
    arith_kind = IEEE little endian, everything else 0) -/
def hdr0 : Hdr := {}

def readUInts : Nat → List Tok → R (List Nat)
  | 0, ts => .ok ([], ts)
  | n + 1, ts =>
    match readUInt ts with
    | .error e => .error e
    | .ok (v, ts) =>
      match readUInts n ts with
      | .error e => .error e
      | .ok (l, ts) => .ok (v :: l, ts)

/-- format letter, options, vbtol -/
def readH1 (cd : Codec) (ts : List Tok) : R Hdr :=
  match ts with
  | .ch t :: ts =>
    if t ≠ .fmtG ∧ t ≠ .fmtB then .error .badFormat else
    let on := readOptUInt ts
    let nopts := on.1.getD hdr0.nopts
    if nopts > 9 then .error .tooManyOptions else
    let ol := readOpts cd nopts on.2
    let optsR := ol.1 ++ hdr0.opts.drop ol.1.length
    let vb : Dbl × List Tok :=
      if optsR[1]? = some (3 : Int) then
        (match ol.2 with
         | .vbt x :: ts => (cd.vb x, ts)
         | ts => (hdr0.vbtol, ts))
      else (hdr0.vbtol, ol.2)
    match skipLine vb.2 with
    | .error e => .error e
    | .ok ts => .ok ({ hdr0 with format := if t = .fmtB then 1 else 0, nopts := nopts, opts := optsR, vbtol := vb.1 }, ts)
  | _ => .error .badFormat

/-- problem dimensions -/
def readH2 (h : Hdr) (ts : List Tok) : R Hdr :=
  match readUInts 3 ts with
  | .ok ([nv, nac, no], ts) =>
    let o1 := readOptUInt ts
    let o2 := if o1.1.isSome then readOptUInt o1.2 else (none, o1.2)
    let o3 := if o1.1.isSome ∧ o2.1.isSome then readOptUInt o2.2 else (none, o2.2)
    match skipLine o3.2 with
    | .error e => .error e
    | .ok ts => .ok ({ h with nv := nv, nac := nac, no := no, nr := o1.1.getD 0, ne := o2.1.getD 0, nlc := o3.1.getD 0 }, ts)
  | .ok _ => .error .expectedUInt
  | .error e => .error e

/-- nonlinear and complementarity information -/
def readH3 (h : Hdr) (ts : List Tok) : R Hdr :=
  match readUInts 2 ts with
  | .ok ([nnlc, nnlo], ts) =>
    let c1 := readOptUInt ts
    let c2 := if c1.1.isSome then readOptUInt c1.2 else (none, c1.2)
    let c3 := if c1.1.isSome ∧ c2.1.isSome then readOptUInt c2.2 else (none, c2.2)
    let c4 := if c1.1.isSome ∧ c2.1.isSome ∧ c3.1.isSome then readOptUInt c3.2 else (none, c3.2)
    match skipLine c4.2 with
    | .error e => .error e
    | .ok ts => .ok ({ h with nnlc := nnlc, nnlo := nnlo, ncc := c1.1.getD 0 + c2.1.getD 0, nnlcc := c2.1.getD 0,
                              ncdi := c3.1.getD 0, ncnz := c4.1.getD 0 }, ts)
  | .ok _ => .error .expectedUInt
  | .error e => .error e

/-- network constraints -/
def readH4 (h : Hdr) (ts : List Tok) : R Hdr :=
  match readUInts 2 ts with
  | .ok ([nnnc, nlnc], ts) =>
    match skipLine ts with
    | .error e => .error e
    | .ok ts => .ok ({ h with nnnc := nnnc, nlnc := nlnc }, ts)
  | .ok _ => .error .expectedUInt
  | .error e => .error e

/-- nonlinear variables; returns also whether num_nl_vars_in_both was present -/
def readH5 (h : Hdr) (ts : List Tok) : R (Hdr × Bool) :=
  match readUInts 2 ts with
  | .ok ([nlvc, nlvo], ts) =>
    let b := readOptUInt ts
    match skipLine b.2 with
    | .error e => .error e
    | .ok ts => .ok (({ h with nlvc := nlvc, nlvo := nlvo, nlvb := b.1.getD 0 }, b.1.isSome), ts)
  | .ok _ => .error .expectedUInt
  | .error e => .error e

/-- linear network variables, functions, arith kind, flags -/
def readH6 (h : Hdr) (ts : List Tok) : R Hdr :=
  match readUInts 2 ts with
  | .ok ([nlnv, nf], ts) =>
    let ak := readOptUInt ts
    if ak.1.getD 0 > 5 then .error .badArith else
    let fl := if ak.1.isSome then readOptUInt ak.2 else (none, ak.2)
    match skipLine fl.2 with
    | .error e => .error e
    | .ok ts => .ok ({ h with nlnv := nlnv, nf := nf, arith := ak.1.getD h.arith, flags := fl.1.getD h.flags }, ts)
  | .ok _ => .error .expectedUInt
  | .error e => .error e

/-- discrete variables (three more numbers only if num_nl_vars_in_both was present) -/
def readH7 (h : Hdr) (both : Bool) (ts : List Tok) : R Hdr :=
  match readUInts (if both then 5 else 2) ts with
  | .ok (nlbv :: nliv :: r, ts) =>
    match skipLine ts with
    | .error e => .error e
    | .ok ts => .ok ({ h with nlbv := nlbv, nliv := nliv, nnlib := r.getD 0 0, nnlic := r.getD 1 0, nnlio := r.getD 2 0 }, ts)
  | .ok _ => .error .expectedUInt
  | .error e => .error e

def readH8 (h : Hdr) (ts : List Tok) : R Hdr :=
  match readUInts 2 ts with
  | .ok ([nzc, nzo], ts) =>
    match skipLine ts with
    | .error e => .error e
    | .ok ts => .ok ({ h with nzc := nzc, nzo := nzo }, ts)
  | .ok _ => .error .expectedUInt
  | .error e => .error e

def readH9 (h : Hdr) (ts : List Tok) : R Hdr :=
  match readUInts 2 ts with
  | .ok ([mcl, mvl], ts) =>
    match skipLine ts with
    | .error e => .error e
    | .ok ts => .ok ({ h with mcl := mcl, mvl := mvl }, ts)
  | .ok _ => .error .expectedUInt
  | .error e => .error e

/-- common expressions, accumulating with the int overflow test of `ReadUInt(int &accumulator)` -/
def readH10 (h : Hdr) (ts : List Tok) : R Hdr :=
  match readUInts 5 ts with
  | .ok ([a, b, c, d, e], ts) =>
    if h.nv + a + b + c + d + e > 2147483647 then .error .overflow else
    match skipLine ts with
    | .error e => .error e
    | .ok ts => .ok ({ h with ceb := a, cec := b, ceo := c, cesc := d, ceso := e }, ts)
  | .ok _ => .error .expectedUInt
  | .error e => .error e

def readHeader (cd : Codec) (ts : List Tok) : R Hdr :=
  match readH1 cd ts with
  | .error e => .error e
  | .ok (h, ts) =>
  match readH2 h ts with
  | .error e => .error e
  | .ok (h, ts) =>
  match readH3 h ts with
  | .error e => .error e
  | .ok (h, ts) =>
  match readH4 h ts with
  | .error e => .error e
  | .ok (h, ts) =>
  match readH5 h ts with
  | .error e => .error e
  | .ok ((h, both), ts) =>
  match readH6 h ts with
  | .error e => .error e
  | .ok (h, ts) =>
  match readH7 h both ts with
  | .error e => .error e
  | .ok (h, ts) =>
  match readH8 h ts with
  | .error e => .error e
  | .ok (h, ts) =>
  match readH9 h ts with
  | .error e => .error e
  | .ok (h, ts) => readH10 h ts

/-! ## segments -/

/-- `ReadLinearExpr(num_terms, handler)` -/
def readLinTerms (cd : Codec) (nv : Nat) (mk : Nat → Dbl → Ev) : Nat → List Tok → R (List Ev)
  | 0, ts => .ok ([], ts)
  | n + 1, ts =>
    match readUIntLt nv ts with
    | .error e => .error e
    | .ok (v, ts) =>
      match readDouble cd ts with
      | .error e => .error e
      | .ok (x, ts) =>
        match readEol ts with
        | .error e => .error e
        | .ok ts =>
          match readLinTerms cd nv mk n ts with
          | .error e => .error e
          | .ok (l, ts) => .ok (mk v x :: l, ts)

/-- `ReadLinearExpr<LinearHandler>()` for `J` and `G` -/
def readLinSeg (cd : Codec) (h : Hdr) (nitems : Nat) (beg : Nat → Nat → Ev) (mk : Nat → Dbl → Ev) (ts : List Tok) : R (List Ev) :=
  match readUIntLt nitems ts with
  | .error e => .error e
  | .ok (i, ts) =>
    match readUInt ts with
    | .error e => .error e
    | .ok (n, ts) =>
      if n < 1 ∨ n ≥ h.nv + 1 then .error .outOfBounds
      else match readEol ts with
        | .error e => .error e
        | .ok ts =>
          match readLinTerms cd h.nv mk n ts with
          | .error e => .error e
          | .ok (l, ts) => .ok (beg i n :: l, ts)

/-- `ReadBounds<BoundHandler>` items -/
def readBndItems (cd : Codec) (h : Hdr) (isCon : Bool) : Nat → Nat → List Tok → R (List Ev)
  | _, 0, ts => .ok ([], ts)
  | i, n + 1, ts =>
    let mk := fun (l u : Dbl) => if isCon then Ev.cb i l u else Ev.vb i l u
    let cont := fun (ev : Ev) (ts : List Tok) =>
      match readBndItems cd h isCon (i + 1) n ts with
      | .error e => .error e
      | .ok (l, ts) => (.ok (ev :: l, ts) : R (List Ev))
    match ts with
    | .bt 0 :: ts =>
      match readDouble cd ts with
      | .error e => .error e
      | .ok (l, ts) =>
        match readDouble cd ts with
        | .error e => .error e
        | .ok (u, ts) =>
          match readEol ts with
          | .error e => .error e
          | .ok ts => cont (mk l u) ts
    | .bt 1 :: ts =>
      match readDouble cd ts with
      | .error e => .error e
      | .ok (u, ts) =>
        match readEol ts with
        | .error e => .error e
        | .ok ts => cont (mk Dbl.negInf u) ts
    | .bt 2 :: ts =>
      match readDouble cd ts with
      | .error e => .error e
      | .ok (l, ts) =>
        match readEol ts with
        | .error e => .error e
        | .ok ts => cont (mk l Dbl.posInf) ts
    | .bt 3 :: ts =>
      match readEol ts with
      | .error e => .error e
      | .ok ts => cont (mk Dbl.negInf Dbl.posInf) ts
    | .bt 4 :: ts =>
      match readDouble cd ts with
      | .error e => .error e
      | .ok (l, ts) =>
        match readEol ts with
        | .error e => .error e
        | .ok ts => cont (mk l l) ts
    | .bt 5 :: ts =>
      if isCon then
        match readInt ts with
        | .error e => .error e
        | .ok (fl, ts) =>
          match readUInt ts with
          | .error e => .error e
          | .ok (v, ts) =>
            if v = 0 ∨ v > h.nv then .error .outOfBounds
            else match readEol ts with
              | .error e => .error e
              | .ok ts => cont (Ev.compl i (v - 1) (fl % 4).toNat) ts
      else .error .complForVar
    | _ => .error .expectedBound

/-- `ReadInitialValues<ValueHandler>` -/
def readInitItems (cd : Codec) (nitems : Nat) (mk : Nat → Dbl → Ev) : Nat → List Tok → R (List Ev)
  | 0, ts => .ok ([], ts)
  | n + 1, ts =>
    match readUIntLt nitems ts with
    | .error e => .error e
    | .ok (i, ts) =>
      match readDouble cd ts with
      | .error e => .error e
      | .ok (x, ts) =>
        match readEol ts with
        | .error e => .error e
        | .ok ts =>
          match readInitItems cd nitems mk n ts with
          | .error e => .error e
          | .ok (l, ts) => .ok (mk i x :: l, ts)

def readInit (cd : Codec) (nitems : Nat) (mk : Nat → Dbl → Ev) (ts : List Tok) : R (List Ev) :=
  match readUInt ts with
  | .error e => .error e
  | .ok (n, ts) =>
    if n > nitems then .error .tooManyInitial
    else match readEol ts with
      | .error e => .error e
      | .ok ts => readInitItems cd nitems mk n ts

/-- `ReadSuffixValues<IntReader|DoubleReader>` -/
def readSufI (nitems : Nat) : Nat → List Tok → R (List Ev)
  | 0, ts => .ok ([], ts)
  | n + 1, ts =>
    match readUIntLt nitems ts with
    | .error e => .error e
    | .ok (i, ts) =>
      match readInt ts with
      | .error e => .error e
      | .ok (v, ts) =>
        match readEol ts with
        | .error e => .error e
        | .ok ts =>
          match readSufI nitems n ts with
          | .error e => .error e
          | .ok (l, ts) => .ok (Ev.svalI i v :: l, ts)
def readSufD (cd : Codec) (nitems : Nat) : Nat → List Tok → R (List Ev)
  | 0, ts => .ok ([], ts)
  | n + 1, ts =>
    match readUIntLt nitems ts with
    | .error e => .error e
    | .ok (i, ts) =>
      match readDouble cd ts with
      | .error e => .error e
      | .ok (x, ts) =>
        match readEol ts with
        | .error e => .error e
        | .ok ts =>
          match readSufD cd nitems n ts with
          | .error e => .error e
          | .ok (l, ts) => .ok (Ev.svalD i x :: l, ts)

def sufItems (h : Hdr) (kind : Nat) : Nat :=
  if kind % 4 = 0 then h.nv else if kind % 4 = 1 then h.nac + h.nlc else if kind % 4 = 2 then h.no else 1

/-- `case 'S'` + `ReadSuffix<ItemInfo>(info)` -/
def readSuffix (cd : Codec) (h : Hdr) (ts : List Tok) : R (List Ev) :=
  match readUInt ts with
  | .error e => .error e
  | .ok (info, ts) =>
    if info > 7 then .error .invalidSuffixKind else
    let items := sufItems h info
    match readUInt ts with
    | .error e => .error e
    | .ok (n, ts) =>
      if n < 1 ∨ n ≥ items + 1 then .error .outOfBounds else
      match readName ts with
      | .error e => .error e
      | .ok (nm, ts) =>
        match readEol ts with
        | .error e => .error e
        | .ok ts =>
          if info / 4 % 2 = 1 then
            match readSufD cd items n ts with
            | .error e => .error e
            | .ok (l, ts) => .ok (Ev.dsuf (info % 4) n nm :: l, ts)
          else
            match readSufI items n ts with
            | .error e => .error e
            | .ok (l, ts) => .ok (Ev.isuf (info % 4) n nm :: l, ts)

/-- `ReadColumnSizes<CUMULATIVE>` items -/
def readColItems (cum : Bool) : Nat → Nat → List Tok → R (List Ev)
  | _, 0, ts => .ok ([], ts)
  | prev, n + 1, ts =>
    match readUInt ts with
    | .error e => .error e
    | .ok (s, ts) =>
      if cum ∧ s < prev then .error .invalidColOffset else
      let size := if cum then s - prev else s
      match readEol ts with
      | .error e => .error e
      | .ok ts =>
        match readColItems cum (if cum then prev + size else prev) n ts with
        | .error e => .error e
        | .ok (l, ts) => .ok (Ev.cadd size :: l, ts)

def readColSizes (h : Hdr) (cum : Bool) (ts : List Tok) : R (List Ev) :=
  match readUInt ts with
  | .error e => .error e
  | .ok (n, ts) =>
    if (n : Int) ≠ (h.nv : Int) - 1 then .error .expectedColCount
    else match readEol ts with
      | .error e => .error e
      | .ok ts =>
        match readColItems cum 0 n ts with
        | .error e => .error e
        | .ok (l, ts) => .ok (Ev.csz :: l, ts)

def rctx (cd : Codec) (h : Hdr) : RCtx := ⟨cd, h.nv, h.nv + h.nce, h.nf⟩

/-- one segment after its letter (expression readers get the number of remaining tokens as fuel) -/
def readSeg (cd : Codec) (h : Hdr) (t : Tag) (ts : List Tok) : R (List Ev) :=
  match t with
  | .segC =>
    match readUIntLt h.nac ts with
    | .error e => .error e
    | .ok (i, ts) =>
      match readEol ts with
      | .error e => .error e
      | .ok ts =>
        match readTopNum (rctx cd h) ts.length ts with
        | .error e => .error e
        | .ok (e, ts) => .ok ([Ev.acon i e], ts)
  | .segL =>
    match readUIntLt h.nlc ts with
    | .error e => .error e
    | .ok (i, ts) =>
      match readEol ts with
      | .error e => .error e
      | .ok ts =>
        match readE (rctx cd h) (ts.length + 1) .log ts with
        | .error e => .error e
        | .ok (e, ts) => .ok ([Ev.lcon i e], ts)
  | .segO =>
    match readUIntLt h.no ts with
    | .error e => .error e
    | .ok (i, ts) =>
      match readUInt ts with
      | .error e => .error e
      | .ok (ty, ts) =>
        match readEol ts with
        | .error e => .error e
        | .ok ts =>
          match readTopNum (rctx cd h) ts.length ts with
          | .error e => .error e
          | .ok (e, ts) => .ok ([Ev.obj i (if ty ≠ 0 then 1 else 0) e], ts)
  | .segV =>
    match readUInt ts with
    | .error e => .error e
    | .ok (idx, ts) =>
      if idx < h.nv ∨ idx ≥ h.nv + h.nce then .error .outOfBounds else
      match readUInt ts with
      | .error e => .error e
      | .ok (nl, ts) =>
        match readUInt ts with
        | .error e => .error e
        | .ok (pos, ts) =>
          match readEol ts with
          | .error e => .error e
          | .ok ts =>
            match readLinTerms cd h.nv Ev.cterm nl ts with
            | .error e => .error e
            | .ok (l, ts) =>
              match readE (rctx cd h) (ts.length + 1) .num ts with
              | .error e => .error e
              | .ok (e, ts) => .ok (Ev.cbeg (idx - h.nv) nl :: l ++ [Ev.cend (idx - h.nv) pos e], ts)
  | .segF =>
    match readUIntLt h.nf ts with
    | .error e => .error e
    | .ok (i, ts) =>
      match readUInt ts with
      | .error e => .error e
      | .ok (ty, ts) =>
        if ty ≠ 0 ∧ ty ≠ 1 then .error .invalidFuncType else
        match readInt ts with
        | .error e => .error e
        | .ok (na, ts) =>
          match readName ts with
          | .error e => .error e
          | .ok (nm, ts) =>
            match readEol ts with
            | .error e => .error e
            | .ok ts => .ok ([Ev.func i ty na nm], ts)
  | .segG => readLinSeg cd h h.no Ev.gbeg Ev.gterm ts
  | .segJ => readLinSeg cd h h.nac Ev.jbeg Ev.jterm ts
  | .segS => readSuffix cd h ts
  | .segr =>
    match readEol ts with
    | .error e => .error e
    | .ok ts => readBndItems cd h true 0 h.nac ts
  | .segK => readColSizes h false ts
  | .segk => readColSizes h true ts
  | .segx => readInit cd h.nv Ev.x0 ts
  | .segd => readInit cd h.nac Ev.d0 ts
  | _ => .error .invalidSegment

/-- the `for (;;)` loop of `NLReader::Read(0)`; `needB` = `read_bounds` -/
def readSegs (cd : Codec) (h : Hdr) : Nat → Bool → List Tok → Except Err (List Ev)
  | 0, _, _ => .error .fuel
  | _ + 1, needB, [] => if needB then .error .missingB else .ok [Ev.endInput]
  | f + 1, needB, .ch .segb :: ts =>
    if needB then
      match readEol ts with
      | .error e => .error e
      | .ok ts =>
        match readBndItems cd h false 0 h.nv ts with
        | .error e => .error e
        | .ok (l, ts) =>
          match readSegs cd h f false ts with
          | .error e => .error e
          | .ok r => .ok (l ++ r)
    else .error .duplicateB
  | f + 1, needB, .ch t :: ts =>
    match readSeg cd h t ts with
    | .error e => .error e
    | .ok (l, ts) =>
      match readSegs cd h f needB ts with
      | .error e => .error e
      | .ok r => .ok (l ++ r)
  | _ + 1, _, _ => .error .invalidSegment

/-- `ReadNLString` with `flags = 0`: header, `OnHeader`, body.  (For the binary format the header's arith kind must
    be the machine's, little endian IEEE here; anything else is "unsupported floating-point arithmetic" or a byte swap.) -/
def readTokens (cd : Codec) (ts : List Tok) : Except Err (List Ev) :=
  match readHeader cd ts with
  | .error e => .error e
  | .ok (h, r) =>
    if h.format = 1 ∧ h.arith ≠ 1 then .error .unsupportedArith else
    match readSegs cd h (ts.length + 1) true r with
    | .error e => .error e
    | .ok evs => .ok (Ev.header h :: evs)

end MpVerif.C03

namespace MpVerif.C03

/-! ## `READ_BOUNDS_FIRST`: the two passes of `NLReader::Read()` -/

/-- first pass: a `VarBoundHandler` that forwards only `OnVarBounds`; returns right after the `b` segment -/
def readUntilB (cd : Codec) (h : Hdr) : Nat → List Tok → R (List Ev)
  | 0, _ => .error .fuel
  | _ + 1, [] => .error .missingB
  | _ + 1, .ch .segb :: ts =>
    match readEol ts with
    | .error e => .error e
    | .ok ts => readBndItems cd h false 0 h.nv ts
  | f + 1, .ch t :: ts =>
    match readSeg cd h t ts with
    | .error e => .error e
    | .ok (_, ts) => readUntilB cd h f ts
  | _ + 1, _ => .error .invalidSegment

/-- second pass: `Read(&bound_reader)`; at `b` the reader jumps to where the first pass stopped -/
def readSkipB (cd : Codec) (h : Hdr) : Nat → Option (List Tok) → List Tok → Except Err (List Ev)
  | 0, _, _ => .error .fuel
  | _ + 1, _, [] => .ok [Ev.endInput]
  | f + 1, afterB, .ch .segb :: _ =>
    match afterB with
    | some r => readSkipB cd h f none r
    | none => .error .duplicateB
  | f + 1, afterB, .ch t :: ts =>
    match readSeg cd h t ts with
    | .error e => .error e
    | .ok (l, ts) =>
      match readSkipB cd h f afterB ts with
      | .error e => .error e
      | .ok r => .ok (l ++ r)
  | _ + 1, _, _ => .error .invalidSegment

/-- `ReadNLString` with `flags = READ_BOUNDS_FIRST` -/
def readTokensBF (cd : Codec) (ts : List Tok) : Except Err (List Ev) :=
  match readHeader cd ts with
  | .error e => .error e
  | .ok (h, r) =>
    if h.format = 1 ∧ h.arith ≠ 1 then .error .unsupportedArith else
    match readUntilB cd h (ts.length + 1) r with
    | .error e => .error e
    | .ok (bnds, afterB) =>
      match readSkipB cd h (ts.length + 2) (some afterB) r with
      | .error e => .error e
      | .ok evs => .ok (Ev.header h :: bnds ++ evs)

end MpVerif.C03

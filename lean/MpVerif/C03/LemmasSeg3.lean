import MpVerif.C03.LemmasSeg2
/-! # C03 — lemmas: constraints, objectives, column sizes, linear parts -/
namespace MpVerif.C03
open MpVerif.Gen.OpcodesW

section
variable (cd : Codec) (o : Opts) {h h' : Hdr} (sc : SameCounts h h')
include sc

theorem rctx_eq : rctx cd h' = ⟨cd, h.nv, h.nv + h.nce, h.nf⟩ := by simp [rctx, sc.nv, sc.nce, sc.nf]

theorem reads_acons : ∀ (l : List (List DefVar × Con)) (i : Nat) (nb : Bool), aconsOk h l = true → i + l.length ≤ h.nac →
    ∃ n, Reads cd h' n nb nb (wACons o i l) (evACons cd o h.nv i l)
  | [], i, nb, _, _ => ⟨0, by simpa [wACons, evACons] using Reads.nil cd h' nb⟩
  | (dvs, c) :: l, i, nb, hok, hi => by
    simp [aconsOk] at hok
    obtain ⟨⟨⟨hdv, hwf⟩, _⟩, hrest⟩ := hok
    obtain ⟨n, ih⟩ := reads_acons l (i + 1) nb hrest (by simp at hi; omega)
    have hi' : i < h'.nac := by rw [sc.nac]; simp at hi; omega
    have r1 := reads_defVars cd o sc (i + 1) dvs nb hdv
    have r2 : Reads cd h' 1 nb nb (.ch .segC :: (.int (i : Int) :: (cmtEol o c.descr ++ wE o c.e))) [Ev.acon i (hTop cd o h.nv c.e)] := by
      refine Reads.seg (by simp) (fun rest => ?_) nb
      have ht := readTopNum_wE o ⟨cd, h.nv, h.nv + h.nce, h.nf⟩ c.e rest hwf
      simp only [List.length_append] at ht
      try simp only [List.append_assoc, List.cons_append]
      simp [readSeg, readUIntLt, hi', rctx_eq cd sc, ht]
    exact ⟨(n + 1) + dvs.length, by simpa [wACons, evACons] using Reads.append r1 (Reads.append r2 ih)⟩

theorem reads_lcons (nac : Nat) : ∀ (l : List (List DefVar × Con)) (j : Nat) (nb : Bool), lconsOk h l = true →
    j + l.length ≤ h.nlc →
    ∃ n, Reads cd h' n nb nb (wLCons o nac j l) (evLCons cd o h.nv nac j l)
  | [], j, nb, _, _ => ⟨0, by simpa [wLCons, evLCons] using Reads.nil cd h' nb⟩
  | (dvs, c) :: l, j, nb, hok, hj => by
    simp [lconsOk] at hok
    obtain ⟨⟨hdv, hwf⟩, hrest⟩ := hok
    obtain ⟨n, ih⟩ := reads_lcons nac l (j + 1) nb hrest (by simp at hj; omega)
    have hj' : j < h'.nlc := by rw [sc.nlc]; simp at hj; omega
    have r1 := reads_defVars cd o sc (nac + j + 1) dvs nb hdv
    have r2 : Reads cd h' 1 nb nb (.ch .segL :: (.int (j : Int) :: (cmtEol o c.descr ++ wE o c.e))) [Ev.lcon j (hE cd o h.nv .log c.e)] := by
      refine Reads.seg (by simp) (fun rest => ?_) nb
      have he := readE_wE ⟨cd, h.nv, h.nv + h.nce, h.nf⟩ o c.e .log ((wE o c.e ++ rest).length + 1) rest hwf
        (by have := esize_le_length o c.e; simp; omega)
      simp only [List.length_append] at he
      try simp only [List.append_assoc, List.cons_append]
      simp [readSeg, readUIntLt, hj', rctx_eq cd sc, he]
    exact ⟨(n + 1) + dvs.length, by simpa [wLCons, evLCons] using Reads.append r1 (Reads.append r2 ih)⟩

theorem reads_objs (ncon : Nat) : ∀ (l : List (List DefVar × Obj)) (i : Nat) (nb : Bool), objsOk h l = true →
    i + l.length ≤ h.no →
    ∃ n, Reads cd h' n nb nb (wObjs o ncon i l) (evObjs cd o h.nv ncon i l)
  | [], i, nb, _, _ => ⟨0, by simpa [wObjs, evObjs] using Reads.nil cd h' nb⟩
  | (dvs, ob) :: l, i, nb, hok, hi => by
    simp [objsOk] at hok
    obtain ⟨⟨⟨⟨hdv, hwf⟩, _⟩, hty⟩, hrest⟩ := hok
    obtain ⟨n, ih⟩ := reads_objs ncon l (i + 1) nb hrest (by simp at hi; omega)
    have hi' : i < h'.no := by rw [sc.no]; simp at hi; omega
    have r1 := reads_defVars cd o sc (ncon + i + 1) dvs nb hdv
    have r2 : Reads cd h' 1 nb nb (.ch .segO :: (.int (i : Int) :: .int (ob.type : Int) :: (cmtEol o ob.descr ++ wE o ob.e)))
        [Ev.obj i (if ob.type ≠ 0 then 1 else 0) (hTop cd o h.nv ob.e)] := by
      refine Reads.seg (by simp) (fun rest => ?_) nb
      have ht := readTopNum_wE o ⟨cd, h.nv, h.nv + h.nce, h.nf⟩ ob.e rest hwf
      simp only [List.length_append] at ht
      try simp only [List.append_assoc, List.cons_append]
      simp [readSeg, readUIntLt, hi', rctx_eq cd sc, ht]
    exact ⟨(n + 1) + dvs.length, by simpa [wObjs, evObjs] using Reads.append r1 (Reads.append r2 ih)⟩

/-! ## linear parts -/
theorem reads_lin (t : Tag) (nitems : Nat) (beg : Nat → Nat → Ev) (mk : Nat → Dbl → Ev) (nb : Bool)
    (hseg : ∀ ts, readSeg cd h' t ts = readLinSeg cd h' nitems beg mk ts) (ht : t ≠ .segb)
    (i : Nat) (hi : i < nitems) (l : List (Nat × Dbl)) (hok : linOk h l = true) :
    Reads cd h' 1 nb nb (wLin t i l) (evLin cd beg mk i l) := by
  unfold wLin evLin
  by_cases hl : l.length = 0
  · rw [if_pos hl, if_pos hl]; exact Reads.weaken 1 (Reads.nil cd h' nb)
  · rw [if_neg hl, if_neg hl]
    simp [linOk] at hok
    refine Reads.seg ht (fun rest => ?_) nb
    have hn : ¬ (l.length < 1 ∨ l.length ≥ h'.nv + 1) := by rw [sc.nv]; omega
    have hr := readLinTerms_wSparseD cd h'.nv mk l rest (by rw [sc.nv]; exact hok.2)
    try simp only [List.append_assoc, List.cons_append]
    simp [hseg, readLinSeg, readUIntLt, hi, hr]
    exact ⟨fun e => hl (by simp [e]), by omega⟩

theorem reads_J : ∀ (l : List (List DefVar × Con)) (i : Nat) (nb : Bool), aconsOk h l = true → i + l.length ≤ h.nac →
    Reads cd h' l.length nb nb (wJ i l) (evJ cd i l)
  | [], i, nb, _, _ => by simpa [wJ, evJ] using Reads.nil cd h' nb
  | (dvs, c) :: l, i, nb, hok, hi => by
    simp [aconsOk] at hok
    have ih := reads_J l (i + 1) nb hok.2 (by simp at hi; omega)
    have r1 := reads_lin cd sc .segJ h'.nac Ev.jbeg Ev.jterm nb (fun ts => by simp [readSeg]) (by simp) i
      (by rw [sc.nac]; simp at hi; omega) c.lin hok.1.2
    have := Reads.append r1 ih
    simpa [wJ, evJ] using this

theorem reads_G : ∀ (l : List (List DefVar × Obj)) (i : Nat) (nb : Bool), objsOk h l = true → i + l.length ≤ h.no →
    Reads cd h' l.length nb nb (wG i l) (evG cd i l)
  | [], i, nb, _, _ => by simpa [wG, evG] using Reads.nil cd h' nb
  | (dvs, ob) :: l, i, nb, hok, hi => by
    simp [objsOk] at hok
    have ih := reads_G l (i + 1) nb hok.2 (by simp at hi; omega)
    have r1 := reads_lin cd sc .segG h'.no Ev.gbeg Ev.gterm nb (fun ts => by simp [readSeg]) (by simp) i
      (by rw [sc.no]; simp at hi; omega) ob.lin hok.1.1.2
    have := Reads.append r1 ih
    simpa [wG, evG] using this

/-! ## column sizes -/
omit sc in
theorem readCol_cum : ∀ (l : List Nat) (acc : Nat) (rest : List Tok),
    readColItems true acc l.length (wColItemsCum acc l ++ rest) = .ok (l.map Ev.cadd, rest)
  | [], acc, rest => by simp [readColItems, wColItemsCum]
  | s :: l, acc, rest => by
    have ih := readCol_cum l (acc + s) rest
    have e : ∀ ts, readUInt (Tok.int ((acc : Int) + (s : Int)) :: ts) = .ok (acc + s, ts) := by
      intro ts
      have : (0 : Int) ≤ (acc : Int) + (s : Int) := by omega
      simp [readUInt, this]
      omega
    have h1 : ¬ (acc + s < acc) := by omega
    simp only [wColItemsCum, List.length_cons, List.cons_append, List.nil_append, List.append_assoc, readColItems, e]
    simp [h1, ih]

omit sc in
theorem readCol_plain : ∀ (l : List Nat) (rest : List Tok),
    readColItems false 0 l.length (wColItemsPlain l ++ rest) = .ok (l.map Ev.cadd, rest)
  | [], rest => by simp [readColItems, wColItemsPlain]
  | s :: l, rest => by
    have ih := readCol_plain l rest
    simp [wColItemsPlain, readColItems, ih]

theorem reads_colSizes (m : Model) (nb : Bool) (hh : m.hdr = h) (hr : h.nrandv = 0) (hlen : m.colsz.length + 1 = h.nv)
    (ho : o.colSizes ≤ 2) :
    Reads cd h' 1 nb nb (wColSizes m o) (evColSizes m o) := by
  unfold wColSizes evColSizes
  have hcast : ((m.hdr.nv : Int) + (m.hdr.nrandv : Int) - 1) = ((m.colsz.length : Nat) : Int) := by
    rw [hh, hr, ← hlen]; simp
  have hcnt : ¬ ((m.colsz.length : Int) ≠ (h'.nv : Int) - 1) := by rw [sc.nv, ← hlen]; simp
  by_cases h1 : o.colSizes = 1
  · simp only [h1, if_true, true_or]
    rw [hcast]
    refine Reads.seg (by simp) (fun rest => ?_) nb
    have := readCol_cum m.colsz 0 rest
    try simp only [List.append_assoc, List.cons_append]
    simp [readSeg, readColSizes, hcnt, this]
  · by_cases h2 : o.colSizes = 2
    · simp only [h2, if_true, or_true]
      rw [hcast]
      refine Reads.seg (by simp) (fun rest => ?_) nb
      have := readCol_plain m.colsz rest
      try simp only [List.append_assoc, List.cons_append]
      simp [readSeg, readColSizes, hcnt, this]
    · simp only [h1, h2, if_false, or_self]
      exact Reads.weaken 1 (Reads.nil cd h' nb)

end
end MpVerif.C03

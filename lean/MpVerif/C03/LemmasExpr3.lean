import MpVerif.C03.LemmasExpr2
/-! # C03 — the expression round trip theorem (mutual induction over `Expr` / `List Expr`) -/
namespace MpVerif.C03
open MpVerif.Gen.OpcodesW

section
variable (c : RCtx) (o : Opts)

theorem readE_num_const {md : Mode} (f : Nat) (x : Dbl) (rest : List Tok) :
    readE c (f + 1) md (wNum o x ++ rest) = .ok (hE c.cd o c.nv md (.num x), rest) := by
  obtain ⟨t, ts, h1, h2, h3⟩ := wNum_shape c.cd o x rest
  rw [h1]
  cases md with
  | num => rcases h2 with rfl | rfl | rfl <;> simp [readE, readNumCode, h3, hE]
  | log => rcases h2 with rfl | rfl | rfl <;> simp [readE, h3, hE]
  | sym => rcases h2 with rfl | rfl | rfl <;> simp [readE, readNumCode, h3, hE]

mutual
theorem readE_wE : (e : Expr) → ∀ (md : Mode) (f : Nat) (rest : List Tok),
    wfE ⟨c.nve, c.nf⟩ md e = true → esize e ≤ f →
    readE c f md (wE o e ++ rest) = .ok (hE c.cd o c.nv md e, rest)
  | .num x => by
    intro md f rest _ hf
    obtain ⟨f', rfl⟩ : ∃ f', f = f' + 1 := ⟨f - 1, by simp [esize] at hf; omega⟩
    simpa [wE] using readE_num_const c o f' x rest
  | .var i d => by
    intro md f rest hwf hf
    obtain ⟨f', rfl⟩ : ∃ f', f = f' + 1 := ⟨f - 1, by simp [esize] at hf; omega⟩
    simp [wfE] at hwf
    have hr := readRef_ok (nv := c.nv) hwf.2 o d rest
    cases md with
    | log => simp at hwf
    | num => simp [wE, readE, readNumCode, hr, hE]
    | sym => simp [wE, readE, readNumCode, hr, hE]
  | .str s => by
    intro md f rest hwf hf
    obtain ⟨f', rfl⟩ : ∃ f', f = f' + 1 := ⟨f - 1, by simp [esize] at hf; omega⟩
    simp [wfE] at hwf
    subst hwf
    simp [wE, readE, hE]
  | .call fi d args => by
    intro md f rest hwf hf
    obtain ⟨f', rfl⟩ : ∃ f', f = f' + 1 := ⟨f - 1, by simp [esize] at hf; omega⟩
    simp [wfE] at hwf
    obtain ⟨⟨hmd, hfi⟩, hargs⟩ := hwf
    have ih := readEs_wEs args .sym f' rest hargs (by simp [esize] at hf; omega)
    cases md with
    | log => simp at hmd
    | num => simp [wE, readE, readNumCode, readUIntLt, hfi, ih, hE]
    | sym => simp [wE, readE, readNumCode, readUIntLt, hfi, ih, hE]
  | .op1 oc d a => by
    intro md f rest hwf hf
    obtain ⟨f', rfl⟩ : ∃ f', f = f' + 1 := ⟨f - 1, by simp [esize] at hf; omega⟩
    have hfa : esize a ≤ f' := by simp [esize] at hf; omega
    cases hw : writerInfo oc with
    | none => simp [wfE, hw] at hwf
    | some p =>
      obtain ⟨k, cls⟩ := p
      have hok := opOK_of_writerInfo hw
      cases cls <;> simp [wfE, hw] at hwf
      case unary =>
        have ih := readE_wE a .num f' rest hwf.2 hfa
        simp only [wE, List.append_assoc, List.cons_append, List.nil_append]
        rw [readE_op_numeric c o hok hwf.1 (by simp)]
        simp [readNumOp, hok.rinfo, ih, hE, hw]
      case notE =>
        obtain ⟨rfl, hwa⟩ := hwf
        have ih := readE_wE a .log f' rest hwa hfa
        simp only [wE, List.append_assoc, List.cons_append, List.nil_append]
        rw [readE_op_logical c o hok]
        simp [readLogOp, hok.rinfo, ih, hE, hw]
  | .op2 oc d a b => by
    intro md f rest hwf hf
    obtain ⟨f', rfl⟩ : ∃ f', f = f' + 1 := ⟨f - 1, by simp [esize] at hf; omega⟩
    have hfa : esize a ≤ f' := by simp [esize] at hf; omega
    have hfb : esize b ≤ f' := by simp [esize] at hf; omega
    cases hw : writerInfo oc with
    | none => simp [wfE, hw] at hwf
    | some p =>
      obtain ⟨k, cls⟩ := p
      have hok := opOK_of_writerInfo hw
      cases cls <;> simp [wfE, hw] at hwf
      case binary =>
        have iha := readE_wE a .num f' (wE o b ++ rest) hwf.1.2 hfa
        have ihb := readE_wE b .num f' rest hwf.2 hfb
        simp only [wE, List.append_assoc, List.cons_append, List.nil_append]
        rw [readE_op_numeric c o hok hwf.1.1 (by simp)]
        simp [readNumOp, hok.rinfo, read2_ok iha ihb, hE, hw]
      case binLogical =>
        obtain ⟨⟨rfl, hwa⟩, hwb⟩ := hwf
        have iha := readE_wE a .log f' (wE o b ++ rest) hwa hfa
        have ihb := readE_wE b .log f' rest hwb hfb
        simp only [wE, List.append_assoc, List.cons_append, List.nil_append]
        rw [readE_op_logical c o hok]
        simp [readLogOp, hok.rinfo, read2_ok iha ihb, hE, hw]
      case relational =>
        obtain ⟨⟨rfl, hwa⟩, hwb⟩ := hwf
        have iha := readE_wE a .num f' (wE o b ++ rest) hwa hfa
        have ihb := readE_wE b .num f' rest hwb hfb
        simp only [wE, List.append_assoc, List.cons_append, List.nil_append]
        rw [readE_op_logical c o hok]
        simp [readLogOp, hok.rinfo, read2_ok iha ihb, hE, hw]
      case logicalCount =>
        obtain ⟨⟨⟨rfl, hwa⟩, hwb⟩, hcnt⟩ := hwf
        have iha := readE_wE a .num f' (wE o b ++ rest) hwa hfa
        match b, hwb, hcnt, hfb, iha with
        | .opN oc2 d2 args2, hwb, hcnt, hfb, iha =>
          cases hw2 : writerInfo oc2 with
          | none => simp [hw2] at hcnt
          | some p2 =>
            obtain ⟨k2, cls2⟩ := p2
            simp [hw2] at hcnt
            subst hcnt
            have hok2 := opOK_of_writerInfo hw2
            simp [wfE, hw2] at hwb
            have hk2 : k2 = kv_COUNT := hok2.cnt rfl
            have ihs := readEs_wEs args2 .log f' rest hwb.2 (by simp [esize] at hfb; omega)
            have hne : ¬ oc2 = 64 := hwb.1.1
            have hcw := readCountWith_ok (rdA := readE c f' .log) hwb.1.2 ihs
            simp only [wE, List.append_assoc, List.cons_append, List.nil_append, hne, if_false] at iha ⊢
            rw [readE_op_logical c o hok]
            simp [readLogOp, hok.rinfo, iha, readOpCode_ok hok2.le, hok2.rinfo, hk2, hne, hcw, hE, hw, hw2]
  | .op3 oc d a b e3 => by
    intro md f rest hwf hf
    obtain ⟨f', rfl⟩ : ∃ f', f = f' + 1 := ⟨f - 1, by simp [esize] at hf; omega⟩
    have hfa : esize a ≤ f' := by simp [esize] at hf; omega
    have hfb : esize b ≤ f' := by simp [esize] at hf; omega
    have hfc : esize e3 ≤ f' := by simp [esize] at hf; omega
    cases hw : writerInfo oc with
    | none => simp [wfE, hw] at hwf
    | some p =>
      obtain ⟨k, cls⟩ := p
      have hok := opOK_of_writerInfo hw
      cases cls <;> simp [wfE, hw] at hwf
      case ifE =>
        obtain ⟨⟨⟨hmd, hwa⟩, hwb⟩, hwc⟩ := hwf
        have iha := readE_wE a .log f' (wE o b ++ (wE o e3 ++ rest)) hwa hfa
        have ihb := readE_wE b .num f' (wE o e3 ++ rest) hwb hfb
        have ihc := readE_wE e3 .num f' rest hwc hfc
        simp only [wE, List.append_assoc, List.cons_append, List.nil_append]
        rw [readE_op_numeric c o hok hmd (by simp)]
        simp [readNumOp, hok.rinfo, read3_ok iha ihb ihc, hE, hw]
      case implication =>
        obtain ⟨⟨⟨rfl, hwa⟩, hwb⟩, hwc⟩ := hwf
        have iha := readE_wE a .log f' (wE o b ++ (wE o e3 ++ rest)) hwa hfa
        have ihb := readE_wE b .log f' (wE o e3 ++ rest) hwb hfb
        have ihc := readE_wE e3 .log f' rest hwc hfc
        simp only [wE, List.append_assoc, List.cons_append, List.nil_append]
        rw [readE_op_logical c o hok]
        simp [readLogOp, hok.rinfo, read3_ok iha ihb ihc, hE, hw]
      case ifSym =>
        obtain ⟨⟨⟨rfl, hwa⟩, hwb⟩, hwc⟩ := hwf
        have iha := readE_wE a .log f' (wE o b ++ (wE o e3 ++ rest)) hwa hfa
        have ihb := readE_wE b .sym f' (wE o e3 ++ rest) hwb hfb
        have ihc := readE_wE e3 .sym f' rest hwc hfc
        simp only [wE, List.append_assoc, List.cons_append, List.nil_append]
        rw [readE_op_ifsym c o hok]
        simp [read3_ok iha ihb ihc, hE, hw]
  | .opN oc d args => by
    intro md f rest hwf hf
    obtain ⟨f', rfl⟩ : ∃ f', f = f' + 1 := ⟨f - 1, by simp [esize] at hf; omega⟩
    have hfs : esizes args ≤ f' := by simp [esize] at hf; omega
    cases hw : writerInfo oc with
    | none => simp [wfE, hw] at hwf
    | some p =>
      obtain ⟨k, cls⟩ := p
      have hok := opOK_of_writerInfo hw
      cases cls <;> simp [wfE, hw] at hwf
      case vararg =>
        obtain ⟨⟨⟨hmd, hne⟩, hlen⟩, hwa⟩ := hwf
        have ihs := readEs_wEs args .num f' rest hwa hfs
        simp only [wE, List.append_assoc, List.cons_append, List.nil_append, hne, if_false]
        rw [readE_op_numeric c o hok hmd (by simp)]
        simp [readNumOp, hok.rinfo, readIterWith_ok (tag := "va") (ks := [k]) hlen ihs, hE, hw]
      case sum =>
        obtain ⟨⟨⟨hmd, hne⟩, hlen⟩, hwa⟩ := hwf
        have ihs := readEs_wEs args .num f' rest hwa hfs
        simp only [wE, List.append_assoc, List.cons_append, List.nil_append, hne, if_false]
        rw [readE_op_numeric c o hok hmd (by simp)]
        simp [readNumOp, hok.rinfo, readIterWith_ok (tag := "sum") (ks := []) hlen ihs, hE, hw]
      case count =>
        obtain ⟨⟨⟨hmd, hne⟩, hlen⟩, hwa⟩ := hwf
        have ihs := readEs_wEs args .log f' rest hwa hfs
        simp only [wE, List.append_assoc, List.cons_append, List.nil_append, hne, if_false]
        rw [readE_op_numeric c o hok hmd (by simp)]
        simp [readNumOp, hok.rinfo, readCountWith_ok hlen ihs, hE, hw]
      case numberof =>
        obtain ⟨⟨⟨hmd, hne⟩, hlen⟩, hwa⟩ := hwf
        match args, hlen, hwa, hfs with
        | a0 :: as, _, hwa, hfs =>
          simp [wfEs] at hwa
          have ih0 := readE_wE a0 .num f' (wEs o as ++ rest) hwa.1 (by simp [esizes] at hfs; omega)
          have ihs := readEs_wEs as .num f' rest hwa.2 (by simp [esizes] at hfs; omega)
          simp only [wE, wEs, List.append_assoc, List.cons_append, List.nil_append, hne, if_false, List.length_cons]
          rw [readE_op_numeric c o hok hmd (by simp)]
          simp [readNumOp, hok.rinfo, readNumberOfWith_ok (tag := "nof") ih0 ihs, hE, hEs, hw]
      case numberofSym =>
        obtain ⟨⟨⟨hmd, hne⟩, hlen⟩, hwa⟩ := hwf
        match args, hlen, hwa, hfs with
        | a0 :: as, _, hwa, hfs =>
          simp [wfEs] at hwa
          have ih0 := readE_wE a0 .sym f' (wEs o as ++ rest) hwa.1 (by simp [esizes] at hfs; omega)
          have ihs := readEs_wEs as .sym f' rest hwa.2 (by simp [esizes] at hfs; omega)
          simp only [wE, wEs, List.append_assoc, List.cons_append, List.nil_append, hne, if_false, List.length_cons]
          rw [readE_op_numeric c o hok hmd (by simp)]
          simp [readNumOp, hok.rinfo, readNumberOfWith_ok (tag := "nofs") ih0 ihs, hE, hEs, hw]
      case iterLogical =>
        obtain ⟨⟨⟨rfl, hne⟩, hlen⟩, hwa⟩ := hwf
        have ihs := readEs_wEs args .log f' rest hwa hfs
        simp only [wE, List.append_assoc, List.cons_append, List.nil_append, hne, if_false]
        rw [readE_op_logical c o hok]
        simp [readLogOp, hok.rinfo, readIterWith_ok (tag := "il") (ks := [k]) hlen ihs, hE, hw]
      case pairwise =>
        obtain ⟨⟨⟨rfl, hne⟩, hlen⟩, hwa⟩ := hwf
        have ihs := readEs_wEs args .num f' rest hwa hfs
        simp only [wE, List.append_assoc, List.cons_append, List.nil_append, hne, if_false]
        rw [readE_op_logical c o hok]
        simp [readLogOp, hok.rinfo, readIterWith_ok (tag := "pw") (ks := [k]) hlen ihs, hE, hw]
      case plterm =>
        obtain ⟨⟨⟨⟨⟨hmd, h64⟩, hlen⟩, heven⟩, hnum⟩, hlast⟩ := hwf
        subst h64
        cases hgl : args.getLast? with
        | none => simp [hgl] at hlast
        | some lastE =>
          cases lastE with
          | var i dv =>
            simp [hgl] at hlast
            obtain ⟨ys, rfl⟩ := List.getLast?_eq_some_iff.mp hgl
            simp only [List.dropLast_concat] at hnum
            have hdl : ys.length = 2 * ((ys ++ [Expr.var i dv]).length / 2 - 1) + 1 := by
              simp at hlen heven ⊢; omega
            obtain ⟨ps, s, mid, h1, h2, h3⟩ :=
              plLoop o c.cd ((ys ++ [Expr.var i dv]).length / 2 - 1) ys hnum hdl
                (wE o (.var i dv) ++ rest)
            have hr := readRef_ok (nv := c.nv) hlast o dv rest
            have hns : ¬ ((ys ++ [Expr.var i dv]).length / 2 ≤ 1) := by simp at hlen heven ⊢; omega
            simp only [wE, wEs_append, wEs, List.append_assoc, List.cons_append, List.nil_append, if_true,
              List.append_nil] at h1 h2 ⊢
            rw [readE_op_numeric c o hok hmd (by simp)]
            have hcast : (((ys ++ [Expr.var i dv]).length : Int) / 2) = (((ys ++ [Expr.var i dv]).length / 2 : Nat) : Int) := by
              simp
            rw [hcast]
            simp only [hE, hw, hgl, List.dropLast_concat]
            generalize (ys ++ [Expr.var i dv]).length / 2 = N at h1 hns ⊢
            simp [readNumOp, hok.rinfo, hns, h1, h2, hr, h3]
          | _ => simp [hgl] at hlast
theorem readEs_wEs : (es : List Expr) → ∀ (md : Mode) (f : Nat) (rest : List Tok),
    wfEs ⟨c.nve, c.nf⟩ md es = true → esizes es ≤ f →
    readArgsWith (readE c f md) es.length (wEs o es ++ rest) = .ok (hEs c.cd o c.nv md es, rest)
  | [] => by intro md f rest _ _; simp [readArgsWith, wEs, hEs]
  | e :: es => by
    intro md f rest hwf hf
    simp [wfEs] at hwf
    have ih1 := readE_wE e md f (wEs o es ++ rest) hwf.1 (by simp [esizes] at hf; omega)
    have ih2 := readEs_wEs es md f rest hwf.2 (by simp [esizes] at hf; omega)
    simp [readArgsWith, wEs, hEs, ih1, ih2]
end

end
end MpVerif.C03

import MpVerif.C03.ModelRead
/-!
# C03 — what a fed model means, the feeder contract, canonical printing

* `events cd m o`   : the notifications the reader is *proved* to deliver for `writeNL m o` (Props: `C03_roundtrip`);
  it is computed from the model alone and keeps the quirks of the code (±DBL_MAX bounds become ±∞,
  a text header without flags and arith kind reads back the defaults; `ampl_vbtol` goes through `cd.vb` = `%.17g`/strtod).
* `intended m o`    : the same without the quirks: every item and number as fed.
* `WellFormed m`    : the feeder contract, as a decidable predicate.
* `Ev.toLine` etc.  : the canonical text form shared with the C++ harness.
-/
namespace MpVerif.C03
open MpVerif.Gen.OpcodesW

/-- the value `ReadConstant` yields for a number written by `nput` -/
def numVal (cd : Codec) (o : Opts) (x : Dbl) : Dbl :=
  if o.binary then
    match x.toInt? with
    | some v => if -2147483648 ≤ v ∧ v ≤ 2147483647 then Dbl.ofInt v else cd.rd x
    | none => cd.rd x
  else cd.rd x

def plVals (cd : Codec) (o : Opts) : List Expr → List Dbl
  | [] => []
  | .num x :: r => numVal cd o x :: plVals cd o r
  | _ :: r => plVals cd o r

def refHE (nv i : Nat) : HE := if i < nv then .node "v" [i] [] "" [] else .node "ce" [i - nv] [] "" []

/-! ## the handler tree a fed expression stands for -/
mutual
def hE (cd : Codec) (o : Opts) (nv : Nat) : Mode → Expr → HE
  | md, .num x =>
    if md = .log then .node "b" [if (numVal cd o x).neZero then 1 else 0] [] "" []
    else .node "n" [] [numVal cd o x] "" []
  | _, .var i _ => refHE nv i
  | _, .str s => .node "s" [] [] s []
  | _, .call f _ args => .node "call" [f, args.length] [] "" (hEs cd o nv .sym args)
  | _, .op1 oc _ a =>
    match writerInfo oc with
    | some (k, .unary) => .node "u" [k] [] "" [hE cd o nv .num a]
    | some (_, .notE) => .node "not" [] [] "" [hE cd o nv .log a]
    | _ => .null
  | _, .op2 oc _ a b =>
    match writerInfo oc with
    | some (k, .binary) => .node "bin" [k] [] "" [hE cd o nv .num a, hE cd o nv .num b]
    | some (k, .binLogical) => .node "bl" [k] [] "" [hE cd o nv .log a, hE cd o nv .log b]
    | some (k, .relational) => .node "rel" [k] [] "" [hE cd o nv .num a, hE cd o nv .num b]
    | some (k, .logicalCount) => .node "lc" [k] [] "" [hE cd o nv .num a, hE cd o nv .num b]
    | _ => .null
  | _, .op3 oc _ a b c =>
    match writerInfo oc with
    | some (_, .ifE) => .node "if" [] [] "" [hE cd o nv .log a, hE cd o nv .num b, hE cd o nv .num c]
    | some (_, .implication) => .node "impl" [] [] "" [hE cd o nv .log a, hE cd o nv .log b, hE cd o nv .log c]
    | some (_, .ifSym) => .node "ifs" [] [] "" [hE cd o nv .log a, hE cd o nv .sym b, hE cd o nv .sym c]
    | _ => .null
  | _, .opN oc _ args =>
    match writerInfo oc with
    | some (k, .vararg) => .node "va" [k, args.length] [] "" (hEs cd o nv .num args)
    | some (_, .sum) => .node "sum" [args.length] [] "" (hEs cd o nv .num args)
    | some (_, .count) => .node "cnt" [args.length] [] "" (hEs cd o nv .log args)
    | some (_, .numberof) => .node "nof" [args.length] [] "" (hEs cd o nv .num args)
    | some (_, .numberofSym) => .node "nofs" [args.length] [] "" (hEs cd o nv .sym args)
    | some (k, .iterLogical) => .node "il" [k, args.length] [] "" (hEs cd o nv .log args)
    | some (k, .pairwise) => .node "pw" [k, args.length] [] "" (hEs cd o nv .num args)
    | some (_, .plterm) =>
      .node "pl" [args.length / 2 - 1] (plVals cd o args.dropLast) ""
        [match args.getLast? with | some (.var i _) => refHE nv i | _ => .null]
    | _ => .null
def hEs (cd : Codec) (o : Opts) (nv : Nat) : Mode → List Expr → List HE
  | _, [] => []
  | md, e :: es => hE cd o nv md e :: hEs cd o nv md es
end

/-- top of a `C`/`O` segment: a zero constant is "no nonlinear part" -/
def hTop (cd : Codec) (o : Opts) (nv : Nat) : Expr → HE
  | .num x => if (numVal cd o x).isZero then .null else .node "n" [] [numVal cd o x] "" []
  | e => hE cd o nv .num e

/-! ## the NL expression grammar (feeder contract for expressions) -/
def isNum : Expr → Bool
  | .num _ => true
  | _ => false
def allNum : List Expr → Bool
  | [] => true
  | e :: r => isNum e && allNum r

structure GCtx where
  nve : Nat       -- variables + defined variables that may be referenced
  nf : Nat        -- functions

mutual
def wfE (g : GCtx) : Mode → Expr → Bool
  | _, .num _ => true
  | md, .var i _ => md != .log && decide (i < g.nve)
  | md, .str _ => md == .sym
  | md, .call f _ args => md != .log && decide (f < g.nf) && wfEs g .sym args
  | md, .op1 oc _ a =>
    match writerInfo oc with
    | some (_, .unary) => md != .log && wfE g .num a
    | some (_, .notE) => md == .log && wfE g .log a
    | _ => false
  | md, .op2 oc _ a b =>
    match writerInfo oc with
    | some (_, .binary) => md != .log && wfE g .num a && wfE g .num b
    | some (_, .binLogical) => md == .log && wfE g .log a && wfE g .log b
    | some (_, .relational) => md == .log && wfE g .num a && wfE g .num b
    | some (_, .logicalCount) =>
      md == .log && wfE g .num a && wfE g .num b &&
        (match b with
         | .opN oc2 _ _ => (writerInfo oc2).map (·.2) == some OpClass.count
         | _ => false)
    | _ => false
  | md, .op3 oc _ a b c =>
    match writerInfo oc with
    | some (_, .ifE) => md != .log && wfE g .log a && wfE g .num b && wfE g .num c
    | some (_, .implication) => md == .log && wfE g .log a && wfE g .log b && wfE g .log c
    | some (_, .ifSym) => md == .sym && wfE g .log a && wfE g .sym b && wfE g .sym c
    | _ => false
  | md, .opN oc _ args =>
    match writerInfo oc with
    | some (_, .vararg) => md != .log && oc != 64 && decide (1 ≤ args.length) && wfEs g .num args
    | some (_, .sum) => md != .log && oc != 64 && decide (3 ≤ args.length) && wfEs g .num args
    | some (_, .count) => md != .log && oc != 64 && decide (1 ≤ args.length) && wfEs g .log args
    | some (_, .numberof) => md != .log && oc != 64 && decide (1 ≤ args.length) && wfEs g .num args
    | some (_, .numberofSym) => md != .log && oc != 64 && decide (1 ≤ args.length) && wfEs g .sym args
    | some (_, .iterLogical) => md == .log && oc != 64 && decide (3 ≤ args.length) && wfEs g .log args
    | some (_, .pairwise) => md == .log && oc != 64 && decide (1 ≤ args.length) && wfEs g .num args
    | some (_, .plterm) =>
      -- N ≥ 2 slopes: slope, breakpoint, …, slope, variable (2N arguments)
      md != .log && oc == 64 && decide (4 ≤ args.length) && decide (args.length % 2 = 0) && allNum args.dropLast &&
        (match args.getLast? with
         | some (.var i _) => decide (i < g.nve)
         | _ => false)
    | _ => false
def wfEs (g : GCtx) : Mode → List Expr → Bool
  | _, [] => true
  | md, e :: es => wfE g md e && wfEs g md es
end

/-! ## events -/

/-- the header as `ReadHeader` rebuilds it from what `WriteNLHeader` printed -/
def readBackHdr (cd : Codec) (h : Hdr) (o : Opts) : Hdr :=
  let optsR := h.opts.take h.nopts ++ hdr0.opts.drop (h.opts.take h.nopts).length
  let ext := decide (h.flags ≠ 0 ∨ h.arith ≠ 0)
  { h with
    format := if o.binary then 1 else 0
    opts := optsR
    vbtol := if optsR[1]? = some (3 : Int) ∧ h.opts[1]? = some (3 : Int) then cd.vb h.vbtol else Dbl.zero
    probName := hdr0.probName
    arith := if ext then (if o.binary then h.arith else 0) else hdr0.arith
    flags := if ext then h.flags else hdr0.flags
    nrandv := 0, nrandce := 0, nrandc := 0, nrando := 0, nrandcalls := 0, nstages := 0 }

def evFuncs (i : Nat) : List Func → List Ev
  | [] => []
  | f :: fs => Ev.func i f.type f.nargs f.name :: evFuncs (i + 1) fs

def evSparseD (cd : Codec) (mk : Nat → Dbl → Ev) : List (Nat × Dbl) → List Ev
  | [] => []
  | (i, x) :: l => mk i (cd.rd x) :: evSparseD cd mk l
def evSparseI : List (Nat × Int) → List Ev
  | [] => []
  | (i, v) :: l => Ev.svalI i v :: evSparseI l

def evSuffix (cd : Codec) (s : Suffix) : List Ev :=
  match s.vals with
  | .ints l => if l.length = 0 then [] else Ev.isuf (s.kind % 4) l.length s.name :: evSparseI l
  | .dbls l => if l.length = 0 then [] else Ev.dsuf (s.kind % 4) l.length s.name :: evSparseD cd Ev.svalD l
def evSuffixes (cd : Codec) : List Suffix → List Ev
  | [] => []
  | s :: ss => evSuffix cd s ++ evSuffixes cd ss

/-- what comes back for one `WriteBndRangeOrCompl` line -/
def evBnd (cd : Codec) (isCon : Bool) (i : Nat) (L U : Dbl) (k cvar : Nat) : Ev :=
  let mk := fun (l u : Dbl) => if isCon then Ev.cb i l u else Ev.vb i l u
  if k = 0 then
    if L.leNegMax then (if U.geMax then mk Dbl.negInf Dbl.posInf else mk Dbl.negInf (cd.rd U))
    else if U.geMax then mk (cd.rd L) Dbl.posInf
    else if L.ieeeEq U then mk (cd.rd L) (cd.rd L)
    else mk (cd.rd L) (cd.rd U)
  else Ev.compl i cvar (k % 4)

def evVarBnds (cd : Codec) (i : Nat) : List (Dbl × Dbl) → List Ev
  | [] => []
  | (l, u) :: r => evBnd cd false i l u 0 0 :: evVarBnds cd (i + 1) r
def evConBnds (cd : Codec) (i : Nat) : List ConBnd → List Ev
  | [] => []
  | b :: r => evBnd cd true i b.L b.U b.k b.cvar :: evConBnds cd (i + 1) r

def evInit (cd : Codec) (mk : Nat → Dbl → Ev) : Option (List (Nat × Dbl)) → List Ev
  | none => []
  | some l => evSparseD cd mk l

def evDefVar (cd : Codec) (o : Opts) (nv pos : Nat) (d : DefVar) : List Ev :=
  Ev.cbeg (d.index - nv) d.lin.length :: evSparseD cd Ev.cterm d.lin ++ [Ev.cend (d.index - nv) pos (hE cd o nv .num d.e)]
def evDefVars (cd : Codec) (o : Opts) (nv pos : Nat) : List DefVar → List Ev
  | [] => []
  | d :: ds => evDefVar cd o nv pos d ++ evDefVars cd o nv pos ds

def evACons (cd : Codec) (o : Opts) (nv i : Nat) : List (List DefVar × Con) → List Ev
  | [] => []
  | (dvs, c) :: r => evDefVars cd o nv (i + 1) dvs ++ (Ev.acon i (hTop cd o nv c.e) :: evACons cd o nv (i + 1) r)
def evLCons (cd : Codec) (o : Opts) (nv nac j : Nat) : List (List DefVar × Con) → List Ev
  | [] => []
  | (dvs, c) :: r => evDefVars cd o nv (nac + j + 1) dvs ++ (Ev.lcon j (hE cd o nv .log c.e) :: evLCons cd o nv nac (j + 1) r)
def evObjs (cd : Codec) (o : Opts) (nv ncon i : Nat) : List (List DefVar × Obj) → List Ev
  | [] => []
  | (dvs, ob) :: r =>
    evDefVars cd o nv (ncon + i + 1) dvs ++ (Ev.obj i (if ob.type ≠ 0 then 1 else 0) (hTop cd o nv ob.e) :: evObjs cd o nv ncon (i + 1) r)

def evColSizes (m : Model) (o : Opts) : List Ev :=
  if o.colSizes = 1 ∨ o.colSizes = 2 then Ev.csz :: m.colsz.map Ev.cadd else []

def evLin (cd : Codec) (beg : Nat → Nat → Ev) (mk : Nat → Dbl → Ev) (i : Nat) (l : List (Nat × Dbl)) : List Ev :=
  if l.length = 0 then [] else beg i l.length :: evSparseD cd mk l
def evJ (cd : Codec) (i : Nat) : List (List DefVar × Con) → List Ev
  | [] => []
  | (_, c) :: r => evLin cd Ev.jbeg Ev.jterm i c.lin ++ evJ cd (i + 1) r
def evG (cd : Codec) (i : Nat) : List (List DefVar × Obj) → List Ev
  | [] => []
  | (_, ob) :: r => evLin cd Ev.gbeg Ev.gterm i ob.lin ++ evG cd (i + 1) r

def evBody (cd : Codec) (m : Model) (o : Opts) : List Ev :=
  let nv := m.hdr.nv
  evFuncs 0 m.funcs ++
  (evSuffixes cd m.sufs ++
  (evSuffixes cd (plsosSuffixes m) ++
  ((if o.boundsFirst then
      evVarBnds cd 0 m.vb ++ (evInit cd Ev.x0 m.x0 ++ ((if m.hdr.nac ≠ 0 then evConBnds cd 0 m.cb else []) ++ evInit cd Ev.d0 m.d0))
    else []) ++
  (evDefVars cd o nv 0 m.dv0 ++
  (evACons cd o nv 0 m.cons ++
  (evLCons cd o nv m.hdr.nac 0 m.lcons ++
  (evObjs cd o nv (m.hdr.nac + m.hdr.nlc) 0 m.objs ++
  ((if !o.boundsFirst then
      evInit cd Ev.d0 m.d0 ++ (evInit cd Ev.x0 m.x0 ++ ((if m.hdr.nac ≠ 0 then evConBnds cd 0 m.cb else []) ++ evVarBnds cd 0 m.vb))
    else []) ++
  (evColSizes m o ++
  (evJ cd 0 m.cons ++
  (evG cd 0 m.objs ++ [Ev.endInput])))))))))))

/-- the notifications the reader delivers for `writeNL m o` -/
def events (cd : Codec) (m : Model) (o : Opts) : List Ev :=
  Ev.header (readBackHdr cd (effHdr m) o) :: evBody cd m o

/-! ## the feeder contract -/

def sparseOk (ub : Nat) : List (Nat × α) → Bool
  | [] => true
  | (i, _) :: l => decide (i < ub) && sparseOk ub l

def sufOk (h : Hdr) (_o : Opts) (s : Suffix) : Bool :=
  match s.vals with
  | .ints l => decide (s.kind < 4) && decide (l.length ≤ sufItems h s.kind) && sparseOk (sufItems h s.kind) l
  | .dbls l => decide (4 ≤ s.kind ∧ s.kind < 8) && decide (l.length ≤ sufItems h s.kind) && sparseOk (sufItems h s.kind) l
def sufsOk (h : Hdr) (o : Opts) : List Suffix → Bool
  | [] => true
  | s :: r => sufOk h o s && sufsOk h o r

def cbOk (nv : Nat) : List ConBnd → Bool
  | [] => true
  | b :: r => (b.k == 0 || decide (b.k ≤ 3 ∧ b.cvar < nv)) && cbOk nv r

def defVarOk (h : Hdr) (d : DefVar) : Bool :=
  decide (h.nv ≤ d.index ∧ d.index < h.nv + h.nce) && sparseOk h.nv d.lin && wfE ⟨h.nv + h.nce, h.nf⟩ .num d.e
def defVarsOk (h : Hdr) : List DefVar → Bool
  | [] => true
  | d :: r => defVarOk h d && defVarsOk h r

def linOk (h : Hdr) (l : List (Nat × Dbl)) : Bool := decide (l.length ≤ h.nv) && sparseOk h.nv l

def aconsOk (h : Hdr) : List (List DefVar × Con) → Bool
  | [] => true
  | (dvs, c) :: r => defVarsOk h dvs && wfE ⟨h.nv + h.nce, h.nf⟩ .num c.e && linOk h c.lin && aconsOk h r
def lconsOk (h : Hdr) : List (List DefVar × Con) → Bool
  | [] => true
  | (dvs, c) :: r => defVarsOk h dvs && wfE ⟨h.nv + h.nce, h.nf⟩ .log c.e && lconsOk h r
def objsOk (h : Hdr) : List (List DefVar × Obj) → Bool
  | [] => true
  | (dvs, ob) :: r => defVarsOk h dvs && wfE ⟨h.nv + h.nce, h.nf⟩ .num ob.e && linOk h ob.lin && decide (ob.type ≤ 1) && objsOk h r

def funcsOk : List Func → Bool
  | [] => true
  | f :: r => decide (f.type ≤ 1) && funcsOk r

def initOk (n : Nat) : Option (List (Nat × Dbl)) → Bool
  | none => true
  | some l => decide (l.length ≤ n) && sparseOk n l

/-- header part of the contract: counts the reader checks against, the options array, no SNL2006 extensions
    (the reader has no support for random variables / stages), consistent complementarity counts -/
def hdrOk (h : Hdr) : Bool :=
  decide (1 ≤ h.nv) && decide (h.nopts ≤ 9) && decide (h.opts.length = 9) &&
  decide (h.nrandv = 0 ∧ h.nrandce = 0 ∧ h.nrandc = 0 ∧ h.nrando = 0 ∧ h.nrandcalls = 0 ∧ h.nstages ≤ 1) &&
  decide (h.nnlcc ≤ h.ncc) && decide (h.ncc = 0 → h.ncdi = 0 ∧ h.ncnz = 0) &&
  decide (h.arith ≤ 5) && decide (h.nv + h.nce ≤ 2147483647)

/-- `WellFormed m o`: the feeder contract (Boolean) -/
def wellFormed (m : Model) (o : Opts) : Bool :=
  let h := m.hdr
  hdrOk h && decide (o.binary = true → h.arith = 1) && decide (o.colSizes ≤ 2) &&
  decide (m.funcs.length = h.nf) && funcsOk m.funcs &&
  sufsOk h o m.sufs && sufsOk h o (plsosSuffixes m) &&
  decide (m.vb.length = h.nv) && decide (m.cb.length = h.nac) && cbOk h.nv m.cb &&
  initOk h.nv m.x0 && initOk h.nac m.d0 &&
  defVarsOk h m.dv0 &&
  decide (m.cons.length = h.nac) && aconsOk h m.cons &&
  decide (m.lcons.length = h.nlc) && lconsOk h m.lcons &&
  decide (m.objs.length = h.no) && objsOk h m.objs &&
  decide (m.colsz.length + 1 = h.nv)

/-! ## the naive meaning: every item and every number exactly as fed -/

def idCodec : Codec := ⟨id, id⟩

def intendedHdr (h : Hdr) (o : Opts) : Hdr :=
  { h with
    format := if o.binary then 1 else 0
    opts := h.opts.take h.nopts ++ hdr0.opts.drop (h.opts.take h.nopts).length
    vbtol := if h.nopts ≥ 2 ∧ h.opts[1]? = some (3 : Int) then h.vbtol else Dbl.zero
    probName := hdr0.probName
    arith := if o.binary then h.arith else 0
    -- the SNL2006 fields are not part of the header the reader hands over (and are outside the feeder contract)
    nrandv := 0, nrandce := 0, nrandc := 0, nrando := 0, nrandcalls := 0, nstages := 0 }

def intBnd (isCon : Bool) (i : Nat) (L U : Dbl) (k cvar : Nat) : Ev :=
  if k = 0 then (if isCon then Ev.cb i L U else Ev.vb i L U) else Ev.compl i cvar k

/-- does the model touch one of the places where the code does not return what it was given? -/
def quirkFree (cd : Codec) (m : Model) : Bool :=
  let h := m.hdr
  (m.vb.all fun p => (!p.1.leNegMax || p.1 == Dbl.negInf) && (!p.2.geMax || p.2 == Dbl.posInf)) &&
  (m.cb.all fun b => b.k != 0 || ((!b.L.leNegMax || b.L == Dbl.negInf) && (!b.U.geMax || b.U == Dbl.posInf))) &&
  (!(decide (h.nopts ≥ 2) && h.opts[1]? == some (3 : Int)) || cd.vb h.vbtol == h.vbtol) &&
  decide (h.flags ≠ 0 ∨ h.arith ≠ 0)

/-! ## canonical text (shared with harness/h_nlw2.cc) -/

def hexDigit (n : Nat) : Char := if n < 10 then Char.ofNat (48 + n) else Char.ofNat (87 + n)
def hexN (width n : Nat) : String :=
  String.ofList ((List.range width).reverse.map fun i => hexDigit (n / 16 ^ i % 16))
def Dbl.hex (x : Dbl) : String := hexN 16 x.toBits
def hexStr (s : String) : String :=
  "x" ++ String.join (s.toUTF8.toList.map fun b => hexN 2 b.toNat)

def natList (l : List Nat) : String := ",".intercalate (l.map toString)

mutual
def HE.str : HE → String
  | .null => "_"
  | .node tag ks xs s kids =>
    if tag = "n" then "(n " ++ (xs.headD Dbl.zero).hex ++ ")"
    else if tag = "s" then "(s " ++ hexStr s ++ ")"
    else if tag = "pl" then
      "(pl " ++ toString (ks.headD 0) ++ plStr true xs ++ HE.strs kids ++ ")"
    else "(" ++ tag ++ String.join (ks.map fun k => " " ++ toString k) ++ HE.strs kids ++ ")"
def HE.strs : List HE → String
  | [] => ""
  | e :: es => " " ++ HE.str e ++ HE.strs es
def plStr : Bool → List Dbl → String
  | _, [] => ""
  | slope, x :: r => (if slope then " s" else " b") ++ x.hex ++ plStr (!slope) r
end

def Hdr.toLine (h : Hdr) : String :=
  let usevb := decide (h.nopts > 1) && (h.opts[1]? == some (3 : Int))
  "hdr fmt=" ++ toString h.format ++ " nopt=" ++ toString h.nopts ++ " opts=" ++
    ",".intercalate ((h.opts.take h.nopts).map toString) ++
    " vb=" ++ (if usevb then h.vbtol.hex else "-") ++
    " d=" ++ natList [h.nv, h.nac, h.no, h.nr, h.ne, h.nlc, h.nnlc, h.nnlo, h.ncc, h.nnlcc, h.ncdi, h.ncnz, h.nnnc, h.nlnc,
                       h.nlvc, h.nlvo, h.nlvb, h.nlnv, h.nf, h.arith, h.flags, h.nlbv, h.nliv, h.nnlib, h.nnlic, h.nnlio] ++
    " nz=" ++ natList [h.nzc, h.nzo] ++ " nl=" ++ natList [h.mcl, h.mvl] ++
    " ce=" ++ natList [h.ceb, h.cec, h.ceo, h.cesc, h.ceso]

def Ev.toLine : Ev → String
  | .header h => h.toLine
  | .func i t n s => s!"func {i} {t} {n} {hexStr s}"
  | .isuf k n s => s!"isuf {k} {n} {hexStr s}"
  | .dsuf k n s => s!"dsuf {k} {n} {hexStr s}"
  | .svalI i v => s!"sval {i} {v}"
  | .svalD i x => s!"sval {i} {x.hex}"
  | .vb i l u => s!"vb {i} {l.hex} {u.hex}"
  | .cb i l u => s!"cb {i} {l.hex} {u.hex}"
  | .compl i v f => s!"compl {i} {v} {f}"
  | .x0 i x => s!"x0 {i} {x.hex}"
  | .d0 i x => s!"d0 {i} {x.hex}"
  | .cbeg i n => s!"cbeg {i} {n}"
  | .cterm v x => s!"cterm {v} {x.hex}"
  | .cend i p e => s!"cend {i} {p} {e.str}"
  | .acon i e => s!"acon {i} {e.str}"
  | .lcon i e => s!"lcon {i} {e.str}"
  | .obj i t e => s!"obj {i} {t} {e.str}"
  | .csz => "csz"
  | .cadd s => s!"cadd {s}"
  | .jbeg i n => s!"jbeg {i} {n}"
  | .jterm v x => s!"jterm {v} {x.hex}"
  | .gbeg i n => s!"gbeg {i} {n}"
  | .gterm v x => s!"gterm {v} {x.hex}"
  | .endInput => "end"

/-! ## `READ_BOUNDS_FIRST`: the file split at the `b` segment -/
/-- everything `evBody` reports except the variable bounds and `EndInput`, split at the `b` segment -/
def evPre (cd : Codec) (m : Model) (o : Opts) : List Ev :=
  let nv := m.hdr.nv
  evFuncs 0 m.funcs ++ (evSuffixes cd m.sufs ++ (evSuffixes cd (plsosSuffixes m) ++
    (if o.boundsFirst then [] else
      evDefVars cd o nv 0 m.dv0 ++ (evACons cd o nv 0 m.cons ++ (evLCons cd o nv m.hdr.nac 0 m.lcons ++
        (evObjs cd o nv (m.hdr.nac + m.hdr.nlc) 0 m.objs ++
          (evInit cd Ev.d0 m.d0 ++ (evInit cd Ev.x0 m.x0 ++ (if m.hdr.nac ≠ 0 then evConBnds cd 0 m.cb else [])))))))))

def evPost (cd : Codec) (m : Model) (o : Opts) : List Ev :=
  let nv := m.hdr.nv
  (if o.boundsFirst then
    (evInit cd Ev.x0 m.x0 ++ ((if m.hdr.nac ≠ 0 then evConBnds cd 0 m.cb else []) ++ evInit cd Ev.d0 m.d0)) ++
      (evDefVars cd o nv 0 m.dv0 ++ (evACons cd o nv 0 m.cons ++ (evLCons cd o nv m.hdr.nac 0 m.lcons ++
        evObjs cd o nv (m.hdr.nac + m.hdr.nlc) 0 m.objs)))
   else []) ++ (evColSizes m o ++ (evJ cd 0 m.cons ++ evG cd 0 m.objs))

def wPre (m : Model) (o : Opts) : List Tok :=
  wFunctions 0 m.funcs ++ (wSuffixes o m.sufs ++ (wSuffixes o (plsosSuffixes m) ++
    (if o.boundsFirst then [] else
      wDefVars o 0 m.dv0 ++ (wACons o 0 m.cons ++ (wLCons o m.hdr.nac 0 m.lcons ++ (wObjs o (m.hdr.nac + m.hdr.nlc) 0 m.objs ++
        (wInit .segd o "initial dual guess" m.d0 ++ (wInit .segx o "initial guess" m.x0 ++ wConBounds m o))))))))

def wPost (m : Model) (o : Opts) : List Tok :=
  (if o.boundsFirst then
    (wInit .segx o "initial guess" m.x0 ++ (wConBounds m o ++ wInit .segd o "initial dual guess" m.d0)) ++
      (wDefVars o 0 m.dv0 ++ (wACons o 0 m.cons ++ (wLCons o m.hdr.nac 0 m.lcons ++ wObjs o (m.hdr.nac + m.hdr.nlc) 0 m.objs)))
   else []) ++ (wColSizes m o ++ (wJ 0 m.cons ++ wG 0 m.objs))

/-- what the handler is told with `READ_BOUNDS_FIRST`: the variable bounds right after the header, then everything else in file order -/
def eventsBF (cd : Codec) (m : Model) (o : Opts) : List Ev :=
  Ev.header (readBackHdr cd (effHdr m) o) :: (evVarBnds cd 0 m.vb ++ (evPre cd m o ++ (evPost cd m o ++ [Ev.endInput])))


end MpVerif.C03

import MpVerif.C03.ModelRead
import MpVerif.C03.GenIR
/-! # C03 — `NLReader::ReadBounds` driven by the table the translator extracts from nl-reader.h -/
namespace MpVerif.C03

/-- one bound source: what is assigned to the variable and what remains of the input -/
def readBndSrc (cd : Codec) (lb : Dbl) : BndSrc → List Tok → R Dbl
  | .read, ts => readDouble cd ts
  | .negInf, ts => .ok (Dbl.negInf, ts)
  | .posInf, ts => .ok (Dbl.posInf, ts)
  | .sameAsLb, ts => .ok (lb, ts)

/-- `ReadBounds<BoundHandler>` with the per-digit behaviour taken from `tbl` -/
def readBndItemsG (cd : Codec) (h : Hdr) (isCon : Bool) (tbl : List BndCase) : Nat → Nat → List Tok → R (List Ev)
  | _, 0, ts => .ok ([], ts)
  | i, n + 1, ts =>
    match ts with
    | .bt c :: ts =>
      match tbl[c]? with
      | none => .error .expectedBound
      | some (.range sl su) =>
        match readBndSrc cd Dbl.zero sl ts with
        | .error e => .error e
        | .ok (l, ts) =>
          match readBndSrc cd l su ts with
          | .error e => .error e
          | .ok (u, ts) =>
            match readEol ts with
            | .error e => .error e
            | .ok ts =>
              match readBndItemsG cd h isCon tbl (i + 1) n ts with
              | .error e => .error e
              | .ok (r, ts) => .ok ((if isCon then Ev.cb i l u else Ev.vb i l u) :: r, ts)
      | some .compl =>
        if isCon then
          match readInt ts with
          | .error e => .error e
          | .ok (fl, ts) =>
            match readUInt ts with
            | .error e => .error e
            | .ok (v, ts) =>
              if v = 0 ∨ v > h.nv then .error .outOfBounds
              else match readEol ts with
                | .error e => .error e
                | .ok ts =>
                  match readBndItemsG cd h isCon tbl (i + 1) n ts with
                  | .error e => .error e
                  | .ok (r, ts) => .ok (Ev.compl i (v - 1) (fl % 4).toNat :: r, ts)
        else .error .complForVar
    | _ => .error .expectedBound

/-! ## column sizes driven by the extracted statements -/

/-- state of the two `int` variables (non-negative: both come from `ReadUInt`; `a -= b` is only reached after `a < b` was
    rejected in the real block — a block without that guard would subtract below zero, here truncated, and no longer equal the model) -/
def CStmt.run : List CStmt → Nat × Nat → Except Err (Nat × Nat)
  | [], st => .ok st
  | s :: r, (size, prev) =>
    let get := fun (v : CVar) => match v with | .size => size | .prev => prev
    let put := fun (v : CVar) (x : Nat) => match v with | .size => (x, prev) | .prev => (size, x)
    match s with
    | .errIfLt a b => if get a < get b then .error .invalidColOffset else CStmt.run r (size, prev)
    | .sub a b => CStmt.run r (put a (get a - get b))
    | .add a b => CStmt.run r (put a (get a + get b))
    | .set a b => CStmt.run r (put a (get b))

/-- `ReadColumnSizes<CUMULATIVE>` items with the `if (CUMULATIVE)` block given by `stmts` -/
def readColItemsG (stmts : List CStmt) (cum : Bool) : Nat → Nat → List Tok → R (List Ev)
  | _, 0, ts => .ok ([], ts)
  | prev, n + 1, ts =>
    match readUInt ts with
    | .error e => .error e
    | .ok (s, ts) =>
      match (if cum then CStmt.run stmts (s, prev) else .ok (s, prev)) with
      | .error e => .error e
      | .ok (size, prev') =>
        match readEol ts with
        | .error e => .error e
        | .ok ts =>
          match readColItemsG stmts cum prev' n ts with
          | .error e => .error e
          | .ok (l, ts) => .ok (Ev.cadd size :: l, ts)

/-- `ColSizeWriter::Write` × n for writer kind `kind`, with the `switch(kind_)` cases given by `cases` -/
def wColItemsG (cases : List ColWriteCase) (kind : Nat) : Nat → List Nat → List Tok
  | _, [] => []
  | sum, s :: r =>
    match cases.find? (fun c => c.kind == kind) with
    | none => []          -- `default: assert(0)`
    | some c =>
      let sum' := if c.accumulates then sum + s else sum
      [.int (if c.printsSum then (sum' : Int) else (s : Int)), .eol] ++ wColItemsG cases kind sum' r

end MpVerif.C03

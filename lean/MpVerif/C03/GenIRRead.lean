import MpVerif.C03.ModelRead
import MpVerif.C03.GenIR
/-! # C03 — `NLReader::ReadBounds` driven by the table the translator extracts from nl-reader.h -/
namespace MpVerif.C03

/-- one bound source: what is assigned to the variable and what remains of the input -/
def readBndSrc (cd : Codec) (lb : Dbl) : BndSrc → List Tok → R Dbl
  | .read, ts => readDouble cd ts
  | .negInf, ts => .ok (Dbl.negInf, ts)
  | .posInf, ts => .ok (Dbl.posInf, ts)
  | .sameAsLb, ts => .ok (lb, ts)

/-- `ReadBounds<BoundHandler>` with the per-digit behaviour taken from `tbl` -/
def readBndItemsG (cd : Codec) (h : Hdr) (isCon : Bool) (tbl : List BndCase) : Nat → Nat → List Tok → R (List Ev)
  | _, 0, ts => .ok ([], ts)
  | i, n + 1, ts =>
    match ts with
    | .bt c :: ts =>
      match tbl[c]? with
      | none => .error .expectedBound
      | some (.range sl su) =>
        match readBndSrc cd Dbl.zero sl ts with
        | .error e => .error e
        | .ok (l, ts) =>
          match readBndSrc cd l su ts with
          | .error e => .error e
          | .ok (u, ts) =>
            match readEol ts with
            | .error e => .error e
            | .ok ts =>
              match readBndItemsG cd h isCon tbl (i + 1) n ts with
              | .error e => .error e
              | .ok (r, ts) => .ok ((if isCon then Ev.cb i l u else Ev.vb i l u) :: r, ts)
      | some .compl =>
        if isCon then
          match readInt ts with
          | .error e => .error e
          | .ok (fl, ts) =>
            match readUInt ts with
            | .error e => .error e
            | .ok (v, ts) =>
              if v = 0 ∨ v > h.nv then .error .outOfBounds
              else match readEol ts with
                | .error e => .error e
                | .ok ts =>
                  match readBndItemsG cd h isCon tbl (i + 1) n ts with
                  | .error e => .error e
                  | .ok (r, ts) => .ok (Ev.compl i (v - 1) (fl % 4).toNat :: r, ts)
        else .error .complForVar
    | _ => .error .expectedBound

end MpVerif.C03

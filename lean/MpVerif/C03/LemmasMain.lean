import MpVerif.C03.LemmasHdr
/-! # C03 — composition: `readTokens (writeNL m o) = events m o` -/
namespace MpVerif.C03
open MpVerif.Gen.OpcodesW

theorem sameCounts_readBack (cd : Codec) (m : Model) (o : Opts) : SameCounts m.hdr (readBackHdr cd (effHdr m) o) := by
  constructor <;> simp [readBackHdr, effHdr, Hdr.nce]

theorem hdrOk_eff (m : Model) : hdrOk (effHdr m) = hdrOk m.hdr := rfl

/-- events of the body without the final `EndInput` -/
def evBody' (cd : Codec) (m : Model) (o : Opts) : List Ev :=
  let nv := m.hdr.nv
  evFuncs 0 m.funcs ++
  (evSuffixes cd m.sufs ++
  (evSuffixes cd (plsosSuffixes m) ++
  ((if o.boundsFirst then
      evVarBnds cd 0 m.vb ++ (evInit cd Ev.x0 m.x0 ++ ((if m.hdr.nac ≠ 0 then evConBnds cd 0 m.cb else []) ++ evInit cd Ev.d0 m.d0))
    else []) ++
  (evDefVars cd o nv 0 m.dv0 ++
  (evACons cd o nv 0 m.cons ++
  (evLCons cd o nv m.hdr.nac 0 m.lcons ++
  (evObjs cd o nv (m.hdr.nac + m.hdr.nlc) 0 m.objs ++
  ((if !o.boundsFirst then
      evInit cd Ev.d0 m.d0 ++ (evInit cd Ev.x0 m.x0 ++ ((if m.hdr.nac ≠ 0 then evConBnds cd 0 m.cb else []) ++ evVarBnds cd 0 m.vb))
    else []) ++
  (evColSizes m o ++
  (evJ cd 0 m.cons ++
  evG cd 0 m.objs))))))))))

theorem evBody_eq (cd : Codec) (m : Model) (o : Opts) : evBody cd m o = evBody' cd m o ++ [Ev.endInput] := by
  simp [evBody, evBody', List.append_assoc]

/-- tokens of the body -/
def wBody (m : Model) (o : Opts) : List Tok :=
  (wFunctions 0 m.funcs ++
  (wSuffixes o m.sufs ++
  (wSuffixes o (plsosSuffixes m) ++
  ((if o.boundsFirst then
      wVarBounds m o ++ (wInit .segx o "initial guess" m.x0 ++ (wConBounds m o ++ wInit .segd o "initial dual guess" m.d0))
    else []) ++
  (wDefVars o 0 m.dv0 ++
  (wACons o 0 m.cons ++
  (wLCons o m.hdr.nac 0 m.lcons ++
  (wObjs o (m.hdr.nac + m.hdr.nlc) 0 m.objs ++
  ((if !o.boundsFirst then
      wInit .segd o "initial dual guess" m.d0 ++ (wInit .segx o "initial guess" m.x0 ++ (wConBounds m o ++ wVarBounds m o))
    else []) ++
  (wColSizes m o ++
  (wJ 0 m.cons ++
  wG 0 m.objs)))))))))))

theorem writeNL_eq (m : Model) (o : Opts) : writeNL m o = wHeader (effHdr m) o ++ wBody m o := rfl

theorem reads_body (cd : Codec) (m : Model) (o : Opts) (hwf : wellFormed m o = true) :
    ∃ n, Reads cd (readBackHdr cd (effHdr m) o) n true false (wBody m o) (evBody' cd m o) := by
  have sc := sameCounts_readBack cd m o
  simp only [wellFormed, Bool.and_eq_true, decide_eq_true_eq] at hwf
  obtain ⟨⟨⟨⟨⟨⟨⟨⟨⟨⟨⟨⟨⟨⟨⟨⟨⟨⟨⟨hh, hbin⟩, hcs⟩, hfl⟩, hfo⟩, hsu⟩, hpl⟩, hvbl⟩, hcbl⟩, hcbo⟩, hx0⟩, hd0⟩, hdv0⟩, hacl⟩, haco⟩,
    hlcl⟩, hlco⟩, hobl⟩, hobo⟩, hcsl⟩ := hwf
  have hh' := hh
  simp only [hdrOk, Bool.and_eq_true, decide_eq_true_eq] at hh'
  have hrv : m.hdr.nrandv = 0 := hh'.1.1.1.1.2.1
  obtain ⟨h', hh'eq⟩ : ∃ h', h' = readBackHdr cd (effHdr m) o := ⟨_, rfl⟩
  rw [← hh'eq] at sc ⊢
  -- the pieces
  have rF : ∀ nb, Reads cd h' _ nb nb (wFunctions 0 m.funcs) (evFuncs 0 m.funcs) :=
    fun nb => reads_functions cd m.funcs 0 nb hfo (by rw [sc.nf, hfl]; omega)
  have rS : ∀ nb, Reads cd h' _ nb nb (wSuffixes o m.sufs) (evSuffixes cd m.sufs) :=
    fun nb => reads_suffixes cd o sc m.sufs nb hsu
  have rP : ∀ nb, Reads cd h' _ nb nb (wSuffixes o (plsosSuffixes m)) (evSuffixes cd (plsosSuffixes m)) :=
    fun nb => reads_suffixes cd o sc (plsosSuffixes m) nb hpl
  have rVB : Reads cd h' 1 true false (wVarBounds m o) (evVarBnds cd 0 m.vb) :=
    reads_varBounds cd o m (by rw [sc.nv]; exact hvbl)
  have rX : ∀ nb, Reads cd h' 1 nb nb (wInit .segx o "initial guess" m.x0) (evInit cd Ev.x0 m.x0) :=
    fun nb => reads_init cd o .segx _ h'.nv Ev.x0 nb (fun ts => by simp [readSeg]) (by simp) m.x0 (by rw [sc.nv]; exact hx0)
  have rD : ∀ nb, Reads cd h' 1 nb nb (wInit .segd o "initial dual guess" m.d0) (evInit cd Ev.d0 m.d0) :=
    fun nb => reads_init cd o .segd _ h'.nac Ev.d0 nb (fun ts => by simp [readSeg]) (by simp) m.d0 (by rw [sc.nac]; exact hd0)
  have rCB : ∀ nb, Reads cd h' 1 nb nb (wConBounds m o) (if m.hdr.nac ≠ 0 then evConBnds cd 0 m.cb else []) :=
    fun nb => reads_conBounds cd o sc m nb rfl hcbl hcbo
  have rDV : ∀ nb, Reads cd h' _ nb nb (wDefVars o 0 m.dv0) (evDefVars cd o m.hdr.nv 0 m.dv0) :=
    fun nb => reads_defVars cd o sc 0 m.dv0 nb hdv0
  have rAC : ∀ nb, ∃ n, Reads cd h' n nb nb (wACons o 0 m.cons) (evACons cd o m.hdr.nv 0 m.cons) :=
    fun nb => reads_acons cd o sc m.cons 0 nb haco (by omega)
  have rLC : ∀ nb, ∃ n, Reads cd h' n nb nb (wLCons o m.hdr.nac 0 m.lcons) (evLCons cd o m.hdr.nv m.hdr.nac 0 m.lcons) :=
    fun nb => reads_lcons cd o sc m.hdr.nac m.lcons 0 nb hlco (by omega)
  have rOB : ∀ nb, ∃ n, Reads cd h' n nb nb (wObjs o (m.hdr.nac + m.hdr.nlc) 0 m.objs)
      (evObjs cd o m.hdr.nv (m.hdr.nac + m.hdr.nlc) 0 m.objs) :=
    fun nb => reads_objs cd o sc (m.hdr.nac + m.hdr.nlc) m.objs 0 nb hobo (by omega)
  have rCS : ∀ nb, Reads cd h' 1 nb nb (wColSizes m o) (evColSizes m o) :=
    fun nb => reads_colSizes cd o sc m nb rfl hrv hcsl hcs
  have rJ : ∀ nb, Reads cd h' _ nb nb (wJ 0 m.cons) (evJ cd 0 m.cons) :=
    fun nb => reads_J cd sc m.cons 0 nb haco (by omega)
  have rG : ∀ nb, Reads cd h' _ nb nb (wG 0 m.objs) (evG cd 0 m.objs) :=
    fun nb => reads_G cd sc m.objs 0 nb hobo (by omega)
  unfold wBody evBody'
  cases hbf : o.boundsFirst with
  | true =>
    obtain ⟨_, rAC'⟩ := rAC false
    obtain ⟨_, rLC'⟩ := rLC false
    obtain ⟨_, rOB'⟩ := rOB false
    simp only [if_true, Bool.not_true, Bool.false_eq_true, if_false]
    exact ⟨_, Reads.append (rF true) (Reads.append (rS true) (Reads.append (rP true)
      (Reads.append (Reads.append rVB (Reads.append (rX false) (Reads.append (rCB false) (rD false))))
      (Reads.append (rDV false) (Reads.append rAC' (Reads.append rLC' (Reads.append rOB'
      (Reads.append (Reads.nil cd h' false) (Reads.append (rCS false) (Reads.append (rJ false) (rG false)))))))))))⟩
  | false =>
    obtain ⟨_, rAC'⟩ := rAC true
    obtain ⟨_, rLC'⟩ := rLC true
    obtain ⟨_, rOB'⟩ := rOB true
    simp only [Bool.false_eq_true, if_false, Bool.not_false, if_true]
    exact ⟨_, Reads.append (rF true) (Reads.append (rS true) (Reads.append (rP true)
      (Reads.append (Reads.nil cd h' true)
      (Reads.append (rDV true) (Reads.append rAC' (Reads.append rLC' (Reads.append rOB'
      (Reads.append (Reads.append (rD true) (Reads.append (rX true) (Reads.append (rCB true) rVB)))
      (Reads.append (rCS false) (Reads.append (rJ false) (rG false)))))))))))⟩

theorem roundtrip (cd : Codec) (m : Model) (o : Opts) (hwf : wellFormed m o = true) :
    readTokens cd (writeNL m o) = .ok (events cd m o) := by
  obtain ⟨n, hr⟩ := reads_body cd m o hwf
  have hwf' := hwf
  simp only [wellFormed, Bool.and_eq_true, decide_eq_true_eq] at hwf'
  have hh : hdrOk m.hdr = true := hwf'.1.1.1.1.1.1.1.1.1.1.1.1.1.1.1.1.1.1.1
  have hbin : o.binary = true → m.hdr.arith = 1 := hwf'.1.1.1.1.1.1.1.1.1.1.1.1.1.1.1.1.1.1.2
  have hhdr := readHeader_wHeader cd o (effHdr m) (wBody m o) (by rw [hdrOk_eff]; exact hh)
  have hfa : ¬ ((readBackHdr cd (effHdr m) o).format = 1 ∧ (readBackHdr cd (effHdr m) o).arith ≠ 1) := by
    cases hb : o.binary with
    | false => simp [readBackHdr, hb]
    | true =>
      have := hbin hb
      simp [readBackHdr, effHdr, hb, this]
  obtain ⟨g, hg, hrun⟩ := hr.1 1 [] [Ev.endInput] (by simp [readSegs])
  have hmono := readSegs_mono' cd (readBackHdr cd (effHdr m) o) ((writeNL m o).length + 1 - g) g true _ _ hrun
  have hlen : g + ((writeNL m o).length + 1 - g) = (writeNL m o).length + 1 := by
    have : (wBody m o).length ≤ (writeNL m o).length := by rw [writeNL_eq]; simp
    omega
  rw [hlen] at hmono
  simp only [List.append_nil] at hmono
  unfold readTokens
  have e1 : readHeader cd (writeNL m o) = .ok (readBackHdr cd (effHdr m) o, wBody m o) := hhdr
  rw [e1]
  simp only [hfa, if_false]
  rw [hmono]
  simp [events, evBody_eq]

end MpVerif.C03

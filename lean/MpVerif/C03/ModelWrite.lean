import MpVerif.C03.ModelBase
/-!
# C03 — the feeder model and the NL writer (`NLWriter2<Params>::WriteNL`, nl-writer2.hpp)

`Model` is what an `NLFeeder` implementation hands to the writer, call by call.  `writeNL m o` is the token
stream `NLWriter2::WriteNL` produces: same section order, same header layout, same `apr` calls.
The format (text / binary) only enters through the header's first letter and arith kind, through
`nput` (text: `n%g`; binary: `s%h` / `l%l` / `n%g`) and through the comments, which only the text formatter emits.
-/
namespace MpVerif.C03

/-- `NLHeader` (nl-header-c.h): `NLProblemInfo_C` + `NLInfo_C` -/
structure Hdr where
  format : Nat := 0            -- 0 = TEXT, 1 = BINARY
  nopts : Nat := 3
  opts : List Int := [1, 1, 0, 0, 0, 0, 0, 0, 0]     -- ampl_options[9]
  vbtol : Dbl := Dbl.zero
  probName : String := "nl_instance"
  arith : Nat := 1
  flags : Nat := 1
  nv : Nat := 0                -- num_vars
  nac : Nat := 0               -- num_algebraic_cons
  no : Nat := 0                -- num_objs
  nr : Nat := 0                -- num_ranges
  ne : Nat := 0                -- num_eqns
  nlc : Nat := 0               -- num_logical_cons
  nrandv : Nat := 0            -- num_rand_vars
  nrandce : Nat := 0           -- num_rand_common_exprs
  nrandc : Nat := 0            -- num_rand_cons
  nrando : Nat := 0            -- num_rand_objs
  nrandcalls : Nat := 0        -- num_rand_calls
  nstages : Nat := 0           -- num_stages
  nnlc : Nat := 0              -- num_nl_cons
  nnlo : Nat := 0              -- num_nl_objs
  ncc : Nat := 0               -- num_compl_conds
  nnlcc : Nat := 0             -- num_nl_compl_conds
  ncdi : Nat := 0              -- num_compl_dbl_ineqs
  ncnz : Nat := 0              -- num_compl_vars_with_nz_lb
  nnnc : Nat := 0              -- num_nl_net_cons
  nlnc : Nat := 0              -- num_linear_net_cons
  nlvc : Nat := 0              -- num_nl_vars_in_cons
  nlvo : Nat := 0              -- num_nl_vars_in_objs
  nlvb : Nat := 0              -- num_nl_vars_in_both
  nlnv : Nat := 0              -- num_linear_net_vars
  nf : Nat := 0                -- num_funcs
  nlbv : Nat := 0              -- num_linear_binary_vars
  nliv : Nat := 0              -- num_linear_integer_vars
  nnlib : Nat := 0             -- num_nl_integer_vars_in_both
  nnlic : Nat := 0             -- num_nl_integer_vars_in_cons
  nnlio : Nat := 0             -- num_nl_integer_vars_in_objs
  nzc : Nat := 0               -- num_con_nonzeros
  nzo : Nat := 0               -- num_obj_nonzeros
  mcl : Nat := 0               -- max_con_name_len
  mvl : Nat := 0               -- max_var_name_len
  ceb : Nat := 0               -- num_common_exprs_in_both
  cec : Nat := 0               -- … in_cons
  ceo : Nat := 0               -- … in_objs
  cesc : Nat := 0              -- … in_single_cons
  ceso : Nat := 0              -- … in_single_objs
deriving DecidableEq, Repr, Inhabited

def Hdr.nce (h : Hdr) : Nat := h.ceb + h.cec + h.ceo + h.cesc + h.ceso

/-- writer options: `NLHeader::format`, `WantNLComments`, `WantBoundsFirst`, `WantColumnSizes` -/
structure Opts where
  binary : Bool := false
  comments : Bool := false
  boundsFirst : Bool := true
  colSizes : Nat := 1          -- 0 none, 1 cumulative, 2 plain
deriving DecidableEq, Repr, Inhabited

structure Func where
  name : String
  nargs : Int
  type : Nat
deriving Repr, Inhabited

inductive SufVals
  | ints (l : List (Nat × Int))
  | dbls (l : List (Nat × Dbl))
deriving Repr, Inhabited

structure Suffix where
  name : String
  kind : Nat                   -- as passed to StartIntSuffix / StartDblSuffix (bit 4 set for doubles)
  vals : SufVals
deriving Repr, Inhabited

structure DefVar where
  index : Nat
  descr : String
  lin : List (Nat × Dbl)
  e : Expr
deriving Repr, Inhabited

structure Con where
  descr : String
  lin : List (Nat × Dbl)       -- FeedLinearConExpr (algebraic constraints only)
  e : Expr
deriving Repr, Inhabited

structure Obj where
  type : Nat
  descr : String
  lin : List (Nat × Dbl)       -- FeedObjGradient
  e : Expr
deriving Repr, Inhabited

/-- `NLFeeder::AlgConRange` -/
structure ConBnd where
  L : Dbl
  U : Dbl
  k : Nat
  cvar : Nat
deriving Repr, Inhabited

structure Model where
  hdr : Hdr
  funcs : List Func := []
  sufs : List Suffix := []
  sosv : List (Nat × Int) := []
  sosc : List (Nat × Int) := []
  sosref : List (Nat × Dbl) := []
  vb : List (Dbl × Dbl) := []
  cb : List ConBnd := []
  x0 : Option (List (Nat × Dbl)) := none
  d0 : Option (List (Nat × Dbl)) := none
  dv0 : List DefVar := []                   -- FeedDefinedVariables(0, …)
  cons : List (List DefVar × Con) := []     -- (FeedDefinedVariables(i+1), constraint i), algebraic
  lcons : List (List DefVar × Con) := []    -- logical
  objs : List (List DefVar × Obj) := []     -- (FeedDefinedVariables(-i-1), objective i)
  colsz : List Nat := []
  rowNames : List String := []
  colNames : List String := []
  unvNames : List String := []
  fixNames : List String := []
deriving Repr, Inhabited

/-! ## formatter level -/

/-- `"\t#<descr>\n"`: the text formatter prints the comment only when comments are wanted, the binary one stops at `\t` -/
def cmtEol (o : Opts) (d : String) : List Tok :=
  if !o.binary && o.comments then [.cmt d, .eol] else [.eol]

/-- `TextFormatter::nput` / `BinaryFormatter::nput` -/
def wNum (o : Opts) (x : Dbl) : List Tok :=
  if o.binary then
    match x.toInt? with
    | some v =>
      if -2147483648 ≤ v ∧ v ≤ 2147483647 then
        (if -32768 ≤ v ∧ v ≤ 32767 then [.ch .exS, .sh v, .eol] else [.ch .exL, .lg v, .eol])
      else [.ch .exN, .dbl x, .eol]
    | none => [.ch .exN, .dbl x, .eol]
  else [.ch .exN, .dbl x, .eol]

/-! ## expressions: `ExprWriter::{NPut,VPut,StrPut,FuncPut,OPut1,OPut2,OPut3,OPutN}` -/
mutual
def wE (o : Opts) : Expr → List Tok
  | .num x => wNum o x
  | .var i d => [.ch .exV, .int i] ++ cmtEol o d
  | .str s => [.ch .exH, .holl s, .eol]
  | .call f d args => [.ch .exF, .int f, .int args.length] ++ cmtEol o d ++ wEs o args
  | .op1 oc d a => [.ch .exO, .int oc] ++ cmtEol o d ++ wE o a
  | .op2 oc d a b => [.ch .exO, .int oc] ++ cmtEol o d ++ (wE o a ++ wE o b)
  | .op3 oc d a b c => [.ch .exO, .int oc] ++ cmtEol o d ++ (wE o a ++ (wE o b ++ wE o c))
  | .opN oc d args =>
    [.ch .exO, .int oc] ++ cmtEol o d ++
      [.int (if oc = 64 then args.length / 2 else args.length), .eol] ++ wEs o args
def wEs (o : Opts) : List Expr → List Tok
  | [] => []
  | e :: es => wE o e ++ wEs o es
end

/-- `SparseVectorWriter<int,double>::Write` × n -/
def wSparseD : List (Nat × Dbl) → List Tok
  | [] => []
  | (i, x) :: l => [.int i, .dbl x, .eol] ++ wSparseD l
/-- `%d` of an arbitrary `int` (suffix values): since f881e91 the text formatter computes the magnitude in unsigned
    arithmetic, so every `int` including INT_MIN is printed as itself; the binary formatter writes the 4 bytes -/
def wIntTok (_o : Opts) (v : Int) : Tok := .int v
def wSparseI (o : Opts) : List (Nat × Int) → List Tok
  | [] => []
  | (i, v) :: l => [.int i, wIntTok o v, .eol] ++ wSparseI o l

/-! ## header: `WriteNLHeader` (always text, through `File::Printf`; the comments are always there — their text, which
    includes the problem name, is irrelevant to the reader and is not modelled: `.cmt ""`).  `C03_gen_header` proves these ten
    functions equal to the evaluation of the statements clang extracts from `WriteNLHeader` on every run. -/
def wH1 (h : Hdr) (o : Opts) : List Tok :=
  [.ch (if o.binary then .fmtB else .fmtG), .int h.nopts] ++ ((h.opts.take h.nopts).map (fun v => Tok.int v) ++
    -- vbtol is printed with `" %.17g"` since fe95054
    ((if h.opts[1]? = some (3 : Int) then [.vbt h.vbtol] else []) ++ [.cmt "", .eol]))
def wH2 (h : Hdr) : List Tok :=
  [.int h.nv, .int h.nac, .int h.no, .int h.nr, .int h.ne] ++
    ((if h.nrandv ≠ 0 then [.int h.nlc, .int h.nrandv] else if h.nlc ≠ 0 then [.int h.nlc] else []) ++ [.cmt "", .eol])
def wH3 (h : Hdr) : List Tok :=
  (if h.ncc ≠ 0 ∨ h.nrandc ≠ 0 ∨ h.nrando ≠ 0 then
      [.int h.nnlc, .int h.nnlo, .int ((h.ncc : Int) - h.nnlcc), .int h.nnlcc, .int h.ncdi, .int h.ncnz] ++
        (if h.nrandc ≠ 0 ∨ h.nrando ≠ 0 then [.int h.nrandc, .int h.nrando] else [])
    else [.int h.nnlc, .int h.nnlo]) ++ [.cmt "", .eol]
def wH4 (h : Hdr) : List Tok :=
  [.int h.nnnc, .int h.nlnc] ++ ((if h.nstages > 1 then [.int h.nstages] else []) ++ [.cmt "", .eol])
def wH5 (h : Hdr) : List Tok :=
  [.int h.nlvc, .int h.nlvo, .int h.nlvb, .cmt "", .eol]
def wH6 (h : Hdr) (o : Opts) : List Tok :=
  [.int h.nlnv, .int h.nf] ++
    ((if h.nrandv ≠ 0 then [.int (if o.binary then h.arith else 0), .int h.flags, .int h.nrandcalls]
     else if h.flags ≠ 0 ∨ h.arith ≠ 0 then [.int (if o.binary then h.arith else 0), .int h.flags] else []) ++
    [.cmt "", .eol])
def wH7 (h : Hdr) : List Tok :=
  [.int h.nlbv, .int h.nliv, .int h.nnlib, .int h.nnlic, .int h.nnlio, .cmt "", .eol]
def wH8 (h : Hdr) : List Tok := [.int h.nzc, .int h.nzo, .cmt "", .eol]
def wH9 (h : Hdr) : List Tok := [.int h.mcl, .int h.mvl, .cmt "", .eol]
def wH10 (h : Hdr) : List Tok :=
  [.int h.ceb, .int h.cec, .int h.ceo, .int h.cesc, .int h.ceso] ++
    ((if h.nrandce ≠ 0 then [.int h.nrandce] else []) ++ [.cmt "", .eol])
def wHeader (h : Hdr) (o : Opts) : List Tok :=
  wH1 h o ++ (wH2 h ++ (wH3 h ++ (wH4 h ++ (wH5 h ++ (wH6 h o ++ (wH7 h ++ (wH8 h ++ (wH9 h ++ wH10 h))))))))

/-! ## sections -/

/-- `WriteAuxFiles` stores the name lengths in the header before it is written -/
def maxLen (l : List String) : Nat := l.foldl (fun a s => max a s.length) 0
def effHdr (m : Model) : Hdr :=
  { m.hdr with mcl := maxLen m.rowNames, mvl := maxLen m.colNames + maxLen m.unvNames + maxLen m.fixNames }

def wFunctions (i : Nat) : List Func → List Tok
  | [] => []
  | f :: fs => [.ch .segF, .int i, .int f.type, .int f.nargs, .name f.name, .eol] ++ wFunctions (i + 1) fs

/-- `StartIntSuffix` / `StartDblSuffix`: nothing at all for zero entries -/
def wSuffix (o : Opts) (s : Suffix) : List Tok :=
  match s.vals with
  | .ints l => if l.length = 0 then [] else [.ch .segS, .int s.kind, .int l.length, .name s.name, .eol] ++ wSparseI o l
  | .dbls l => if l.length = 0 then [] else [.ch .segS, .int s.kind, .int l.length, .name s.name, .eol] ++ wSparseD l
def wSuffixes (o : Opts) : List Suffix → List Tok
  | [] => []
  | s :: ss => wSuffix o s ++ wSuffixes o ss
def plsosSuffixes (m : Model) : List Suffix :=
  [⟨"sos", 0, .ints m.sosv⟩, ⟨"sos", 1, .ints m.sosc⟩, ⟨"sosref", 4, .dbls m.sosref⟩]

/-- `WriteBndRangeOrCompl` -/
def wBnd (L U : Dbl) (k cvar : Nat) : List Tok :=
  if k = 0 then
    if L.leNegMax then (if U.geMax then [.bt 3, .eol] else [.bt 1, .dbl U, .eol])
    else if U.geMax then [.bt 2, .dbl L, .eol]
    else if L.ieeeEq U then [.bt 4, .dbl L, .eol]
    else [.bt 0, .dbl L, .dbl U, .eol]
  else [.bt 5, .int k, .int (cvar + 1), .eol]

def wVarBndItems : List (Dbl × Dbl) → List Tok
  | [] => []
  | (l, u) :: r => wBnd l u 0 0 ++ wVarBndItems r
def wVarBounds (m : Model) (o : Opts) : List Tok :=
  [.ch .segb] ++ cmtEol o "bounds" ++ wVarBndItems m.vb

def wConBndItems : List ConBnd → List Tok
  | [] => []
  | b :: r => wBnd b.L b.U b.k b.cvar ++ wConBndItems r
def wConBounds (m : Model) (o : Opts) : List Tok :=
  if m.hdr.nac ≠ 0 then [.ch .segr] ++ cmtEol o "ranges" ++ wConBndItems m.cb else []

/-- `SingleSparseDblVecWrtFactory::MakeVectorWriter(n)` with format `x%d\t# initial guess\n` -/
def wInit (t : Tag) (o : Opts) (c : String) : Option (List (Nat × Dbl)) → List Tok
  | none => []
  | some l => [.ch t, .int l.length] ++ cmtEol o c ++ wSparseD l

/-- `DefVarWriterFactory::StartDefVar` + linear part + expression -/
def wDefVar (o : Opts) (pos : Nat) (d : DefVar) : List Tok :=
  [.ch .segV, .int d.index, .int d.lin.length, .int pos] ++ cmtEol o d.descr ++ wSparseD d.lin ++ wE o d.e
def wDefVars (o : Opts) (pos : Nat) : List DefVar → List Tok
  | [] => []
  | d :: ds => wDefVar o pos d ++ wDefVars o pos ds

/-- `WriteConObjExpressions`, first loop (i = index of the constraint) -/
def wACons (o : Opts) (i : Nat) : List (List DefVar × Con) → List Tok
  | [] => []
  | (dvs, c) :: r => wDefVars o (i + 1) dvs ++ ([.ch .segC, .int i] ++ cmtEol o c.descr ++ wE o c.e) ++ wACons o (i + 1) r
/-- second loop: logical constraint `j` is constraint `nac + j` -/
def wLCons (o : Opts) (nac j : Nat) : List (List DefVar × Con) → List Tok
  | [] => []
  | (dvs, c) :: r => wDefVars o (nac + j + 1) dvs ++ ([.ch .segL, .int j] ++ cmtEol o c.descr ++ wE o c.e) ++ wLCons o nac (j + 1) r
/-- third loop: `k_ = -i-1`, written position `nac + nlc - k_` -/
def wObjs (o : Opts) (ncon i : Nat) : List (List DefVar × Obj) → List Tok
  | [] => []
  | (dvs, ob) :: r =>
    wDefVars o (ncon + i + 1) dvs ++ ([.ch .segO, .int i, .int ob.type] ++ cmtEol o ob.descr ++ wE o ob.e) ++ wObjs o ncon (i + 1) r

/-- `ColSizeWriter::Write`: kind 1 accumulates -/
def wColItemsCum (acc : Nat) : List Nat → List Tok
  | [] => []
  | s :: r => [.int (acc + s), .eol] ++ wColItemsCum (acc + s) r
def wColItemsPlain : List Nat → List Tok
  | [] => []
  | s :: r => [.int s, .eol] ++ wColItemsPlain r
def wColSizes (m : Model) (o : Opts) : List Tok :=
  if o.colSizes = 1 then
    [.ch .segk, .int ((m.hdr.nv : Int) + m.hdr.nrandv - 1)] ++ cmtEol o "column lengths (cumulative)" ++ wColItemsCum 0 m.colsz
  else if o.colSizes = 2 then
    [.ch .segK, .int ((m.hdr.nv : Int) + m.hdr.nrandv - 1)] ++ cmtEol o "column lengths" ++ wColItemsPlain m.colsz
  else []

/-- `WriteLinearConExpr` / `WriteObjGradients`: the feeder only makes a vector writer for a non-empty row -/
def wLin (t : Tag) (i : Nat) (l : List (Nat × Dbl)) : List Tok :=
  if l.length = 0 then [] else [.ch t, .int i, .int l.length, .eol] ++ wSparseD l
def wJ (i : Nat) : List (List DefVar × Con) → List Tok
  | [] => []
  | (_, c) :: r => wLin .segJ i c.lin ++ wJ (i + 1) r
def wG (i : Nat) : List (List DefVar × Obj) → List Tok
  | [] => []
  | (_, ob) :: r => wLin .segG i ob.lin ++ wG (i + 1) r

/-- `NLWriter2::WriteNL` -/
def writeNL (m : Model) (o : Opts) : List Tok :=
  wHeader (effHdr m) o ++
  (wFunctions 0 m.funcs ++
  (wSuffixes o m.sufs ++
  (wSuffixes o (plsosSuffixes m) ++
  ((if o.boundsFirst then
      wVarBounds m o ++ (wInit .segx o "initial guess" m.x0 ++ (wConBounds m o ++ wInit .segd o "initial dual guess" m.d0))
    else []) ++
  (wDefVars o 0 m.dv0 ++
  (wACons o 0 m.cons ++
  (wLCons o m.hdr.nac 0 m.lcons ++
  (wObjs o (m.hdr.nac + m.hdr.nlc) 0 m.objs ++
  ((if !o.boundsFirst then
      wInit .segd o "initial dual guess" m.d0 ++ (wInit .segx o "initial guess" m.x0 ++ (wConBounds m o ++ wVarBounds m o))
    else []) ++
  (wColSizes m o ++
  (wJ 0 m.cons ++
  wG 0 m.objs)))))))))))

end MpVerif.C03

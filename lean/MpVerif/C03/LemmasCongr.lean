import MpVerif.C03.LemmasIntended
import MpVerif.C03.LemmasIntText
import MpVerif.C03.LemmasMain
/-!
# C03 — `events` depends on the codec only at the numbers the model contains

`AllNums P m`: every double fed with `m` (bounds, coefficients, suffix values, initial values, constants, PL slopes/breakpoints,
vbtol) satisfies `P`.  If two codecs agree on all doubles satisfying `P`, they give the same `events` for such a model.
Used to instantiate the codec with the *proved* integer text path for integer-data models.
-/
namespace MpVerif.C03

variable (P : Dbl → Prop)

def allSparse : List (Nat × Dbl) → Prop
  | [] => True
  | (_, x) :: r => P x ∧ allSparse r

mutual
def allE : Expr → Prop
  | .num x => P x
  | .var _ _ => True
  | .str _ => True
  | .call _ _ args => allEs args
  | .op1 _ _ a => allE a
  | .op2 _ _ a b => allE a ∧ allE b
  | .op3 _ _ a b c => allE a ∧ allE b ∧ allE c
  | .opN _ _ args => allEs args
def allEs : List Expr → Prop
  | [] => True
  | e :: r => allE e ∧ allEs r
end

def allSuf (s : Suffix) : Prop := match s.vals with | .ints _ => True | .dbls l => allSparse P l
def allSufs : List Suffix → Prop
  | [] => True
  | s :: r => allSuf P s ∧ allSufs r
def allVB : List (Dbl × Dbl) → Prop
  | [] => True
  | (a, b) :: r => P a ∧ P b ∧ allVB r
def allCB : List ConBnd → Prop
  | [] => True
  | b :: r => P b.L ∧ P b.U ∧ allCB r
def allInit : Option (List (Nat × Dbl)) → Prop
  | none => True
  | some l => allSparse P l
def allDVs : List DefVar → Prop
  | [] => True
  | d :: r => allSparse P d.lin ∧ allE P d.e ∧ allDVs r
def allCons : List (List DefVar × Con) → Prop
  | [] => True
  | (dvs, c) :: r => allDVs P dvs ∧ allSparse P c.lin ∧ allE P c.e ∧ allCons r
def allObjs : List (List DefVar × Obj) → Prop
  | [] => True
  | (dvs, c) :: r => allDVs P dvs ∧ allSparse P c.lin ∧ allE P c.e ∧ allObjs r

/-- every double of the model satisfies `P` -/
def AllNums (m : Model) : Prop :=
  allSufs P m.sufs ∧ allSparse P m.sosref ∧ allVB P m.vb ∧ allCB P m.cb ∧ allInit P m.x0 ∧ allInit P m.d0 ∧
  allDVs P m.dv0 ∧ allCons P m.cons ∧ allCons P m.lcons ∧ allObjs P m.objs

section
variable {P} {cd cd' : Codec} (hrd : ∀ x, P x → cd.rd x = cd'.rd x) (o : Opts) (nv : Nat)
include hrd

theorem numVal_congr (x : Dbl) (hx : P x) : numVal cd o x = numVal cd' o x := by
  unfold numVal
  split
  · split
    · split <;> simp [hrd x hx]
    · exact hrd x hx
  · exact hrd x hx

theorem plVals_congr : ∀ l : List Expr, allEs P l → plVals cd o l = plVals cd' o l
  | [], _ => rfl
  | .num x :: r, h => by simp [plVals, numVal_congr hrd o x h.1, plVals_congr r h.2]
  | .var _ _ :: r, h => by simpa [plVals] using plVals_congr r h.2
  | .str _ :: r, h => by simpa [plVals] using plVals_congr r h.2
  | .call _ _ _ :: r, h => by simpa [plVals] using plVals_congr r h.2
  | .op1 _ _ _ :: r, h => by simpa [plVals] using plVals_congr r h.2
  | .op2 _ _ _ _ :: r, h => by simpa [plVals] using plVals_congr r h.2
  | .op3 _ _ _ _ _ :: r, h => by simpa [plVals] using plVals_congr r h.2
  | .opN _ _ _ :: r, h => by simpa [plVals] using plVals_congr r h.2

omit hrd in
theorem allEs_dropLast : ∀ l : List Expr, allEs P l → allEs P l.dropLast
  | [], _ => by simp [allEs]
  | [_], _ => by simp [allEs]
  | a :: b :: r, h => by
    have := allEs_dropLast (b :: r) h.2
    simp only [List.dropLast_cons₂] at this ⊢
    exact ⟨h.1, this⟩

mutual
theorem hE_congr : (e : Expr) → allE P e → ∀ md, hE cd o nv md e = hE cd' o nv md e
  | .num x, h => by intro md; simp [hE, numVal_congr hrd o x h]
  | .var _ _, _ => by intro md; simp [hE]
  | .str _, _ => by intro md; simp [hE]
  | .call f d args, h => by intro md; simp [hE, hEs_congr args h .sym]
  | .op1 oc d a, h => by
    intro md
    simp only [hE]
    rw [hE_congr a h .num, hE_congr a h .log]
  | .op2 oc d a b, h => by
    intro md
    simp only [hE]
    rw [hE_congr a h.1 .num, hE_congr a h.1 .log, hE_congr b h.2 .num, hE_congr b h.2 .log]
  | .op3 oc d a b c, h => by
    intro md
    simp only [hE]
    rw [hE_congr a h.1 .log, hE_congr b h.2.1 .num, hE_congr b h.2.1 .log, hE_congr b h.2.1 .sym,
      hE_congr c h.2.2 .num, hE_congr c h.2.2 .log, hE_congr c h.2.2 .sym]
  | .opN oc d args, h => by
    intro md
    simp only [hE]
    rw [hEs_congr args h .num, hEs_congr args h .log, hEs_congr args h .sym,
      plVals_congr hrd o args.dropLast (allEs_dropLast args h)]
theorem hEs_congr : (es : List Expr) → allEs P es → ∀ md, hEs cd o nv md es = hEs cd' o nv md es
  | [], _ => by intro md; simp [hEs]
  | e :: r, h => by intro md; simp [hEs, hE_congr e h.1 md, hEs_congr r h.2 md]
end

theorem hTop_congr (e : Expr) (h : allE P e) : hTop cd o nv e = hTop cd' o nv e := by
  cases e with
  | num x => simp [hTop, numVal_congr hrd o x h]
  | var i d => simpa [hTop] using hE_congr hrd o nv (.var i d) h .num
  | str s => simpa [hTop] using hE_congr hrd o nv (.str s) h .num
  | call f d a => simpa [hTop] using hE_congr hrd o nv (.call f d a) h .num
  | op1 oc d a => simpa [hTop] using hE_congr hrd o nv (.op1 oc d a) h .num
  | op2 oc d a b => simpa [hTop] using hE_congr hrd o nv (.op2 oc d a b) h .num
  | op3 oc d a b c => simpa [hTop] using hE_congr hrd o nv (.op3 oc d a b c) h .num
  | opN oc d a => simpa [hTop] using hE_congr hrd o nv (.opN oc d a) h .num

theorem evSparseD_congr (mk : Nat → Dbl → Ev) : ∀ l, allSparse P l → evSparseD cd mk l = evSparseD cd' mk l
  | [], _ => rfl
  | (i, x) :: r, h => by simp [evSparseD, hrd x h.1, evSparseD_congr mk r h.2]

theorem evSuffixes_congr : ∀ l, allSufs P l → evSuffixes cd l = evSuffixes cd' l
  | [], _ => rfl
  | s :: r, h => by
    have ih := evSuffixes_congr r h.2
    have h1 := h.1
    unfold allSuf at h1
    simp only [evSuffixes, ih]
    congr 1
    unfold evSuffix
    cases hv : s.vals with
    | ints l => rfl
    | dbls l =>
      rw [hv] at h1
      simp [evSparseD_congr hrd Ev.svalD l h1]

theorem evBnd_congr (isCon : Bool) (i : Nat) (L U : Dbl) (k c : Nat) (hL : P L) (hU : P U) :
    evBnd cd isCon i L U k c = evBnd cd' isCon i L U k c := by
  simp [evBnd, hrd L hL, hrd U hU]

theorem evVarBnds_congr : ∀ l i, allVB P l → evVarBnds cd i l = evVarBnds cd' i l
  | [], _, _ => rfl
  | (a, b) :: r, i, h => by simp [evVarBnds, evBnd_congr hrd false i a b 0 0 h.1 h.2.1, evVarBnds_congr r (i + 1) h.2.2]

theorem evConBnds_congr : ∀ l i, allCB P l → evConBnds cd i l = evConBnds cd' i l
  | [], _, _ => rfl
  | b :: r, i, h => by simp [evConBnds, evBnd_congr hrd true i b.L b.U b.k b.cvar h.1 h.2.1, evConBnds_congr r (i + 1) h.2.2]

theorem evInit_congr (mk : Nat → Dbl → Ev) (x : Option (List (Nat × Dbl))) (h : allInit P x) : evInit cd mk x = evInit cd' mk x := by
  cases x with
  | none => rfl
  | some l => exact evSparseD_congr hrd mk l h

theorem evDefVars_congr (pos : Nat) : ∀ l, allDVs P l → evDefVars cd o nv pos l = evDefVars cd' o nv pos l
  | [], _ => rfl
  | d :: r, h => by
    simp [evDefVars, evDefVar, evSparseD_congr hrd Ev.cterm d.lin h.1, hE_congr hrd o nv d.e h.2.1 .num, evDefVars_congr pos r h.2.2]

theorem evACons_congr : ∀ l i, allCons P l → evACons cd o nv i l = evACons cd' o nv i l
  | [], _, _ => rfl
  | (dvs, c) :: r, i, h => by
    simp [evACons, evDefVars_congr hrd o nv (i + 1) dvs h.1, hTop_congr hrd o nv c.e h.2.2.1, evACons_congr r (i + 1) h.2.2.2]

theorem evLCons_congr (nac : Nat) : ∀ l j, allCons P l → evLCons cd o nv nac j l = evLCons cd' o nv nac j l
  | [], _, _ => rfl
  | (dvs, c) :: r, j, h => by
    simp [evLCons, evDefVars_congr hrd o nv (nac + j + 1) dvs h.1, hE_congr hrd o nv c.e h.2.2.1 .log, evLCons_congr nac r (j + 1) h.2.2.2]

theorem evObjs_congr (ncon : Nat) : ∀ l i, allObjs P l → evObjs cd o nv ncon i l = evObjs cd' o nv ncon i l
  | [], _, _ => rfl
  | (dvs, c) :: r, i, h => by
    simp [evObjs, evDefVars_congr hrd o nv (ncon + i + 1) dvs h.1, hTop_congr hrd o nv c.e h.2.2.1, evObjs_congr ncon r (i + 1) h.2.2.2]

theorem evJ_congr : ∀ l i, allCons P l → evJ cd i l = evJ cd' i l
  | [], _, _ => rfl
  | (dvs, c) :: r, i, h => by
    simp [evJ, evLin, evSparseD_congr hrd Ev.jterm c.lin h.2.1, evJ_congr r (i + 1) h.2.2.2]

theorem evG_congr : ∀ l i, allObjs P l → evG cd i l = evG cd' i l
  | [], _, _ => rfl
  | (dvs, c) :: r, i, h => by
    simp [evG, evLin, evSparseD_congr hrd Ev.gterm c.lin h.2.1, evG_congr r (i + 1) h.2.2.2]

end

/-- two codecs that agree on every double of the model (and on its vbtol) give the same notifications -/
theorem events_congr {P : Dbl → Prop} {cd cd' : Codec} (hrd : ∀ x, P x → cd.rd x = cd'.rd x)
    (m : Model) (o : Opts) (hvb : cd.vb m.hdr.vbtol = cd'.vb m.hdr.vbtol) (h : AllNums P m) : events cd m o = events cd' m o := by
  obtain ⟨h1, h2, h3, h4, h5, h6, h7, h8, h9, h10⟩ := h
  have hp : allSufs P (plsosSuffixes m) := by simp [plsosSuffixes, allSufs, allSuf, h2]
  have hvb' : cd.vb (effHdr m).vbtol = cd'.vb (effHdr m).vbtol := hvb
  simp only [events, evBody, readBackHdr, hvb',
    evSuffixes_congr hrd m.sufs h1, evSuffixes_congr hrd _ hp, evVarBnds_congr hrd m.vb 0 h3, evConBnds_congr hrd m.cb 0 h4,
    evInit_congr hrd Ev.x0 m.x0 h5, evInit_congr hrd Ev.d0 m.d0 h6, evDefVars_congr hrd o m.hdr.nv 0 m.dv0 h7,
    evACons_congr hrd o m.hdr.nv m.cons 0 h8, evLCons_congr hrd o m.hdr.nv m.hdr.nac m.lcons 0 h9,
    evObjs_congr hrd o m.hdr.nv (m.hdr.nac + m.hdr.nlc) m.objs 0 h10, evJ_congr hrd m.cons 0 h8, evG_congr hrd m.objs 0 h10]
  try rfl

/-! ## the integer text path as a codec -/

/-- doubles the integer path covers: ±0, ±∞, and non-zero integers of magnitude below 10^15 -/
def IntData (x : Dbl) : Prop :=
  x.isZero = true ∨ x.isInf = true ∨ ∃ v, x.toInt? = some v ∧ v ≠ 0 ∧ v.natAbs < 10 ^ 15

/-- the text codec given by the *proved* path: `0` for ±0, the double itself for ±∞ ("Infinity"), and for an in-range integer
    `(double) strtodInt (gfmtInt v)`; the identity elsewhere (never used for integer-data models) -/
def intPathRd (x : Dbl) : Dbl :=
  if x.isZero then Dbl.zero
  else match x.toInt? with
    | some v => if v ≠ 0 ∧ v.natAbs < 10 ^ 15 then Dbl.ofInt (strtodInt (gfmtInt v)) else x
    | none => x

/-- what is assumed of the real text codec `strtod ∘ g_fmt`, and compared with the real code on every run (harness lines `Z`:
    printed text = `gfmtInt`, read-back bits = `ofInt (strtodInt …)`; fixed list for ±0, ±∞): on integer data it is the proved path -/
structure FollowsIntPath (cd : Codec) : Prop where
  int : ∀ x v, x.toInt? = some v → v ≠ 0 → v.natAbs < 10 ^ 15 → x.isZero = false → cd.rd x = Dbl.ofInt (strtodInt (gfmtInt v))
  zero : ∀ x, x.isZero = true → cd.rd x = Dbl.zero
  inf : ∀ x, x.isInf = true → cd.rd x = x

theorem intPathRd_nz (x : Dbl) : (intPathRd x).normZero = x.normZero := by
  unfold intPathRd
  by_cases hz : x.isZero = true
  · rw [if_pos hz]
    have hzz : Dbl.zero.isZero = true := by decide
    simp only [Dbl.normZero, hz, hzz, if_true]
  · simp only [hz, Bool.false_eq_true, if_false]
    cases ht : x.toInt? with
    | none => rfl
    | some v =>
      simp only
      split
      · rename_i hc
        rw [strtod_gfmt_int v hc.1]
        exact ofInt_toInt' x v ht
      · rfl

theorem follows_agree {cd : Codec} (hf : FollowsIntPath cd) (x : Dbl) (hx : IntData x) : cd.rd x = intPathRd x := by
  unfold intPathRd
  by_cases hz : x.isZero = true
  · simp [hz, hf.zero x hz]
  · have hz' : x.isZero = false := by simpa using hz
    simp only [hz', Bool.false_eq_true, if_false]
    rcases hx with h | h | ⟨v, hv, hne, hr⟩
    · exact absurd h hz
    · have : x.toInt? = none := by
        unfold Dbl.toInt?
        simp only [Dbl.isInf, Bool.and_eq_true, beq_iff_eq] at h
        simp [h.1, h.2]
      simp [this, hf.inf x h]
    · simp [hv, hne, hr, hf.int x v hv hne hr hz']

/-- **integer-data models in text format**: with a codec that follows the proved integer path on integer data (nothing assumed
    about other doubles) the token reader delivers `intended m o` up to the sign of zero -/
theorem roundtrip_int_text (cd : Codec) (hf : FollowsIntPath cd) (m : Model) (o : Opts) (ht : o.binary = false)
    (hwf : wellFormed m o = true) (hne : noException m = true) (hint : AllNums IntData m)
    (hvb : (cd.vb m.hdr.vbtol).normZero = m.hdr.vbtol.normZero) :
    ∃ evs, readTokens cd (writeNL m o) = .ok evs ∧ evs.map Ev.nz = (intended m o).map Ev.nz := by
  let cd' : Codec := ⟨intPathRd, fun x => if x = m.hdr.vbtol then cd.vb x else x⟩
  have hc : events cd m o = events cd' m o :=
    events_congr (P := IntData) (cd := cd) (cd' := cd') (fun x hx => follows_agree hf x hx) m o (by simp [cd']) hint
  have ok : NumOK cd' o :=
    ⟨fun x => intPathRd_nz x, fun x => by simpa [numVal, ht, cd'] using intPathRd_nz x,
     fun x => by by_cases e : x = m.hdr.vbtol <;> simp [cd', e, hvb]⟩
  refine ⟨_, roundtrip cd m o hwf, ?_⟩
  rw [hc]
  exact events_intended cd' m o ok hwf hne

end MpVerif.C03

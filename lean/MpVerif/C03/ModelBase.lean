import MpVerif.Gen.OpcodesW
/-!
# C03 — base types of the NL writer/reader model

* `Dbl`  : an IEEE-754 binary64 value given by its three bit fields (sign, biased exponent, fraction).
* `Tok`  : the token stream shared by the text and the binary encodings.  One token = one `%`-item of a
  `TextFormatter::apr` / `BinaryFormatter::apr` call (nl-writer2.cc) = one `Read*` call of
  `TextReader` / `BinaryReader` (nl-reader.h).
* `Expr` : an expression tree *as fed* through `ExprWriter` (`NPut`, `VPut`, `StrPut`, `FuncPut`, `OPut1/2/3/N`).
* `HE`   : an expression tree *as reported* to the `NLHandler` (`OnNumber`, `OnUnary`, `BeginCall`/`AddArg`/`EndCall`, …).
* opcode classes: the writer's table, the reader's table (both generated from the sources) and the NL grammar.
-/
namespace MpVerif.C03
open MpVerif.Gen.OpcodesW

/-! ## doubles -/

/-- binary64 by fields: value = (-1)^neg · 2^(ex-1075) · (2^52 + man) for 0 < ex < 2047,
    (-1)^neg · 2^(-1074) · man for ex = 0, ±∞ for ex = 2047 ∧ man = 0, NaN for ex = 2047 ∧ man ≠ 0. -/
structure Dbl where
  neg : Bool
  ex : Nat
  man : Nat
deriving DecidableEq, Repr, Inhabited

namespace Dbl
def zero : Dbl := ⟨false, 0, 0⟩
def posInf : Dbl := ⟨false, 2047, 0⟩
def negInf : Dbl := ⟨true, 2047, 0⟩
def maxFinite : Dbl := ⟨false, 2046, 2 ^ 52 - 1⟩
def negMaxFinite : Dbl := ⟨true, 2046, 2 ^ 52 - 1⟩
def isZero (x : Dbl) : Bool := x.ex == 0 && x.man == 0
def isNaN (x : Dbl) : Bool := x.ex == 2047 && x.man != 0
def isInf (x : Dbl) : Bool := x.ex == 2047 && x.man == 0
/-- a proper binary64 (fields in range) -/
def Valid (x : Dbl) : Prop := x.ex < 2048 ∧ x.man < 2 ^ 52
instance (x : Dbl) : Decidable x.Valid := by unfold Valid; exact inferInstance
/-- forget the sign of zero -/
def normZero (x : Dbl) : Dbl := if x.isZero then zero else x
/-- C++ `x <= -DBL_MAX` (nl-writer2.hpp `NegInfty()` is `-numeric_limits<double>::max()`) -/
def leNegMax (x : Dbl) : Bool := x.neg && ((x.ex == 2047 && x.man == 0) || (x.ex == 2046 && x.man == 2 ^ 52 - 1))
/-- C++ `x >= DBL_MAX` -/
def geMax (x : Dbl) : Bool := !x.neg && ((x.ex == 2047 && x.man == 0) || (x.ex == 2046 && x.man == 2 ^ 52 - 1))
/-- C++ `x == y` on doubles -/
def ieeeEq (x y : Dbl) : Bool := !x.isNaN && !y.isNaN && (x == y || (x.isZero && y.isZero))
/-- C++ `x != 0` -/
def neZero (x : Dbl) : Bool := !x.isZero

/-- the integer `v` with `x == (double)v`, if `x` is finite and integer valued with `|v| < 2^53`
    (what `(L = (long)x, (double)x == L)` of `BinaryFormatter::nput` tests, on the range it is used). -/
def toInt? (x : Dbl) : Option Int :=
  if x.man ≥ 2 ^ 52 then none                 -- not a binary64 fraction field (never the case for a real double)
  else if x.ex == 0 then (if x.man == 0 then some 0 else none)
  else if x.ex ≥ 2047 then none
  else if x.ex > 1075 then none                 -- |x| ≥ 2^53
  else
    let k := 1075 - x.ex                        -- value = (2^52 + man) / 2^k
    let mant := 2 ^ 52 + x.man
    if k ≤ 52 ∧ mant % 2 ^ k = 0 then
      some (if x.neg then -((mant / 2 ^ k : Nat) : Int) else ((mant / 2 ^ k : Nat) : Int))
    else none

/-- the normal double `±a` for `0 < a < 2^53`: with `n = ⌊log2 a⌋`, exponent field `n + 1023`, fraction `a·2^(52-n) - 2^52` -/
def ofNatPos (neg : Bool) (a : Nat) : Dbl := ⟨neg, a.log2 + 1023, a * 2 ^ (52 - a.log2) - 2 ^ 52⟩

/-- `(double)v` for an integer `|v| < 2^53` (exact) -/
def ofInt (v : Int) : Dbl := if v = 0 then zero else ofNatPos (decide (v < 0)) v.natAbs

/-- bit pattern ↔ fields (used by the driver and by the binary codec) -/
def ofBits (b : Nat) : Dbl := ⟨decide (b / 2 ^ 63 % 2 = 1), b / 2 ^ 52 % 2048, b % 2 ^ 52⟩
def toBits (x : Dbl) : Nat := (if x.neg then 2 ^ 63 else 0) + x.ex * 2 ^ 52 + x.man
end Dbl

/-! ## tokens -/

/-- the one-character tags that start segments and expressions, and the header's format letter -/
inductive Tag
  | segC | segL | segO | segV | segF | segG | segJ | segS | segb | segr | segK | segk | segx | segd
  | exN | exS | exL | exO | exV | exF | exH
  | fmtG | fmtB
deriving DecidableEq, Repr, Inhabited

def Tag.toChar : Tag → Char
  | .segC => 'C' | .segL => 'L' | .segO => 'O' | .segV => 'V' | .segF => 'F' | .segG => 'G' | .segJ => 'J'
  | .segS => 'S' | .segb => 'b' | .segr => 'r' | .segK => 'K' | .segk => 'k' | .segx => 'x' | .segd => 'd'
  | .exN => 'n' | .exS => 's' | .exL => 'l' | .exO => 'o' | .exV => 'v' | .exF => 'f' | .exH => 'h'
  | .fmtG => 'g' | .fmtB => 'b'

inductive Tok
  | ch (t : Tag)          -- a literal first character of an `apr` format
  | bt (n : Nat)          -- bound type character '0'..'5'
  | int (i : Int)         -- `%d` / `%z` / header `%d`, `%ld`, `%zd`
  | dbl (x : Dbl)         -- `%g`, `%.16g`  (text: g_fmt, binary: 8 bytes)
  | sh (i : Int)          -- `%h`  (binary `nput` only)
  | lg (i : Int)          -- `%l`  (binary `nput` only)
  | name (s : String)     -- `%s` of a function / suffix name
  | holl (s : String)     -- Hollerith `%d:%s`
  | vbt (x : Dbl)         -- header `" %.17g"` (ampl_vbtol; libc printf, read with std::strtod)
  | cmt (s : String)      -- `\t#…` comment up to the end of the line
  | eol                   -- `\n`
deriving DecidableEq, Repr, Inhabited

inductive Err
  | fuel | expectedNewline | expectedUInt | expectedInt | expectedDouble | expectedName | expectedString
  | outOfBounds | tooFewArgs | tooFewSlopes | invalidOpcode | expectedExpr | expectedLogical | expectedNumericOpcode
  | expectedLogicalOpcode | expectedCount | expectedReference | expectedConstant | expectedBound | complForVar
  | badFormat | tooManyOptions | badArith | overflow | invalidSegment | missingB | duplicateB | invalidFuncType
  | invalidSuffixKind | tooManyInitial | expectedColCount | invalidColOffset | unsupportedArith
deriving DecidableEq, Repr, Inhabited

abbrev R (α : Type) := Except Err (α × List Tok)

/-! ## expressions -/

/-- an expression as fed through `NLWriter2::ExprWriter` -/
inductive Expr
  | num (x : Dbl)                                          -- NPut
  | var (i : Nat) (d : String)                             -- VPut(v, descr)
  | str (s : String)                                       -- StrPut
  | call (f : Nat) (d : String) (args : List Expr)         -- FuncPut(index, nArgs, descr)
  | op1 (oc : Nat) (d : String) (a : Expr)                 -- OPut1
  | op2 (oc : Nat) (d : String) (a b : Expr)               -- OPut2
  | op3 (oc : Nat) (d : String) (a b c : Expr)             -- OPut3
  | opN (oc : Nat) (d : String) (args : List Expr)         -- OPutN(opcode, nArgs, descr)
deriving Repr, Inhabited

/-- an expression as reported to the handler: `tag` names the callback family
    (`n`,`v`,`ce`,`s`,`b`,`u`,`bin`,`if`,`ifs`,`not`,`bl`,`rel`,`lc`,`impl`,`pl`,`call`,`va`,`sum`,`cnt`,`nof`,`nofs`,`il`,`pw`),
    `ks` its integer arguments (expression kind, counts, indices), `xs` its double arguments, `s` a string argument,
    `kids` the sub-expressions in `AddArg` order.  `null` is the default-constructed `Expr()` the reader passes
    when it ignores a zero constant (`ReadNumericExpr(ignore_zero = true)`). -/
inductive HE
  | null
  | node (tag : String) (ks : List Nat) (xs : List Dbl) (s : String) (kids : List HE)
deriving Repr, Inhabited

/-! ## opcode tables -/

/-- the classes `NLReader::ReadNumericExpr(int opcode)` / `ReadLogicalExpr(int opcode)` switch on -/
inductive OpClass
  | unary | binary | ifE | plterm | vararg | sum | count | numberof | numberofSym
  | notE | binLogical | relational | logicalCount | implication | iterLogical | pairwise | ifSym | other
deriving DecidableEq, Repr, Inhabited

/-- `first_kind` value ↦ class (the `case` labels of the two switches, plus IFSYM which `ReadSymbolicExpr` tests) -/
def classOfFirstKind (fk : Nat) : OpClass :=
  if fk = kv_FIRST_UNARY then .unary else if fk = kv_FIRST_BINARY then .binary else if fk = kv_IF then .ifE
  else if fk = kv_PLTERM then .plterm else if fk = kv_FIRST_VARARG then .vararg else if fk = kv_SUM then .sum
  else if fk = kv_COUNT then .count else if fk = kv_NUMBEROF then .numberof else if fk = kv_NUMBEROF_SYM then .numberofSym
  else if fk = kv_NOT then .notE else if fk = kv_FIRST_BINARY_LOGICAL then .binLogical
  else if fk = kv_FIRST_RELATIONAL then .relational else if fk = kv_FIRST_LOGICAL_COUNT then .logicalCount
  else if fk = kv_IMPLICATION then .implication else if fk = kv_FIRST_ITERATED_LOGICAL then .iterLogical
  else if fk = kv_FIRST_PAIRWISE then .pairwise else if fk = kv_IFSYM then .ifSym else .other

/-- reader: `GetOpCodeInfo(opcode)` ↦ (kind, class) -/
def readerInfo (oc : Nat) : Option (Nat × OpClass) :=
  (readerOps[oc]?).map fun p => (p.1, classOfFirstKind p.2)

/-- reader: `expr::nl_opcode(expr::IFSYM)` -/
def ifsymOpcode : Int := ((exprInfo[kv_IFSYM]?).map (·.1)).getD (-1)

/-- writer: the `mp::nl::<NAME>` constant with this opcode ↦ value of `expr::<NAME>` -/
def writerKind (oc : Nat) : Option Nat :=
  (writerOps.find? (fun e => e.2.1 == oc)).map (·.2.2.1)

/-- the NL grammar (D. M. Gay, "Writing .nl files"; AMPL expression classes), stated on expression kinds and
    independently of both tables: which shape of arguments an operator takes. -/
def grammarClass (k : Nat) : OpClass :=
  if k ∈ [kv_FLOOR, kv_CEIL, kv_ABS, kv_MINUS, kv_TANH, kv_TAN, kv_SQRT, kv_SINH, kv_SIN, kv_LOG10, kv_LOG, kv_EXP,
          kv_COSH, kv_COS, kv_ATANH, kv_ATAN, kv_ASINH, kv_ASIN, kv_ACOSH, kv_ACOS, kv_POW2] then .unary
  else if k ∈ [kv_ADD, kv_SUB, kv_MUL, kv_DIV, kv_MOD, kv_POW, kv_LESS, kv_ATAN2, kv_TRUNC_DIV, kv_PRECISION, kv_ROUND,
               kv_TRUNC, kv_POW_CONST_EXP, kv_POW_CONST_BASE] then .binary
  else if k = kv_IF then .ifE else if k = kv_PLTERM then .plterm
  else if k ∈ [kv_MIN, kv_MAX] then .vararg
  else if k = kv_SUM then .sum else if k = kv_COUNT then .count
  else if k = kv_NUMBEROF then .numberof else if k = kv_NUMBEROF_SYM then .numberofSym
  else if k = kv_NOT then .notE
  else if k ∈ [kv_OR, kv_AND, kv_IFF] then .binLogical
  else if k ∈ [kv_LT, kv_LE, kv_EQ, kv_GE, kv_GT, kv_NE] then .relational
  else if k ∈ [kv_ATLEAST, kv_ATMOST, kv_EXACTLY, kv_NOT_ATLEAST, kv_NOT_ATMOST, kv_NOT_EXACTLY] then .logicalCount
  else if k = kv_IMPLICATION then .implication
  else if k ∈ [kv_FORALL, kv_EXISTS] then .iterLogical
  else if k ∈ [kv_ALLDIFF, kv_NOT_ALLDIFF] then .pairwise
  else if k = kv_IFSYM then .ifSym else .other

/-- what the *feeder* means by opcode `oc`: (expression kind, argument shape) -/
def writerInfo (oc : Nat) : Option (Nat × OpClass) :=
  (writerKind oc).map fun k => (k, grammarClass k)

/-- Agreement of the three tables, as a Boolean over the whole generated writer table: every writer constant
    `NAME = {code, …}` is decoded by the reader as kind `expr::NAME` with the class the NL grammar gives that
    operator, the reader's inverse table maps `expr::NAME` back to `code`, codes are ≤ MAX_OPCODE and unique. -/
def tablesAgree : Bool :=
  writerOps.all (fun e =>
    let oc := e.2.1; let k := e.2.2.1
    readerInfo oc == some (k, grammarClass k) && grammarClass k != .other
      && ((exprInfo[k]?).map (·.1)) == some (oc : Int) && decide (oc ≤ maxOpcode)
      && writerKind oc == some k)
  && decide (readerOps.length = maxOpcode + 1)

/-- Conversely every opcode the reader decodes to an operator is one the writer can emit. -/
def readerCovered : Bool :=
  (List.range readerOps.length).all fun oc =>
    match readerInfo oc with
    | some (_, .other) => true
    | some (k, _) => writerKind oc == some k
    | none => true

end MpVerif.C03

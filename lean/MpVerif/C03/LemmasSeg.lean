import MpVerif.C03.LemmasExpr3
/-! # C03 — lemmas: every section of the file is read back as its events -/
namespace MpVerif.C03
open MpVerif.Gen.OpcodesW

/-! ## sparse vectors -/

theorem readLinTerms_wSparseD (cd : Codec) (nv : Nat) (mk : Nat → Dbl → Ev) :
    ∀ (l : List (Nat × Dbl)) (rest : List Tok), sparseOk nv l = true →
      readLinTerms cd nv mk l.length (wSparseD l ++ rest) = .ok (evSparseD cd mk l, rest)
  | [], rest, _ => by simp [readLinTerms, wSparseD, evSparseD]
  | (i, x) :: l, rest, h => by
    simp [sparseOk] at h
    have ih := readLinTerms_wSparseD cd nv mk l rest h.2
    simp [readLinTerms, wSparseD, evSparseD, readUIntLt, h.1, ih]

theorem readInitItems_wSparseD (cd : Codec) (n : Nat) (mk : Nat → Dbl → Ev) :
    ∀ (l : List (Nat × Dbl)) (rest : List Tok), sparseOk n l = true →
      readInitItems cd n mk l.length (wSparseD l ++ rest) = .ok (evSparseD cd mk l, rest)
  | [], rest, _ => by simp [readInitItems, wSparseD, evSparseD]
  | (i, x) :: l, rest, h => by
    simp [sparseOk] at h
    have ih := readInitItems_wSparseD cd n mk l rest h.2
    simp [readInitItems, wSparseD, evSparseD, readUIntLt, h.1, ih]

theorem readSufD_wSparseD (cd : Codec) (n : Nat) :
    ∀ (l : List (Nat × Dbl)) (rest : List Tok), sparseOk n l = true →
      readSufD cd n l.length (wSparseD l ++ rest) = .ok (evSparseD cd Ev.svalD l, rest)
  | [], rest, _ => by simp [readSufD, wSparseD, evSparseD]
  | (i, x) :: l, rest, h => by
    simp [sparseOk] at h
    have ih := readSufD_wSparseD cd n l rest h.2
    simp [readSufD, wSparseD, evSparseD, readUIntLt, h.1, ih]

theorem readSufI_wSparseI (o : Opts) (n : Nat) :
    ∀ (l : List (Nat × Int)) (rest : List Tok), sparseOk n l = true →
      readSufI n l.length (wSparseI o l ++ rest) = .ok (evSparseI l, rest)
  | [], rest, _ => by simp [readSufI, wSparseI, evSparseI]
  | (i, v) :: l, rest, h => by
    simp [sparseOk] at h
    have ih := readSufI_wSparseI o n l rest h.2
    simp [readSufI, wSparseI, wIntTok, evSparseI, readUIntLt, h.1, ih]

/-! ## one segment = one step of the loop -/

theorem readSegs_step (cd : Codec) (h : Hdr) {t : Tag} (ht : t ≠ .segb) {ts ts' : List Tok} {l : List Ev}
    (hs : readSeg cd h t ts = .ok (l, ts')) (f : Nat) (nb : Bool) :
    readSegs cd h (f + 1) nb (.ch t :: ts) =
      (match readSegs cd h f nb ts' with
       | .error e => .error e
       | .ok r => .ok (l ++ r)) := by
  cases t <;> first | exact absurd rfl ht | (simp only [readSegs, hs]; try rfl)

theorem readSegs_mono (cd : Codec) (h : Hdr) : ∀ (f : Nat) (nb : Bool) (ts : List Tok) (r : List Ev),
    readSegs cd h f nb ts = .ok r → readSegs cd h (f + 1) nb ts = .ok r := by
  intro f
  induction f with
  | zero => intro nb ts r hr; simp [readSegs] at hr
  | succ f ih =>
    intro nb ts r hr
    match ts with
    | [] => simpa [readSegs] using hr
    | .ch t :: ts =>
      by_cases ht : t = .segb
      · subst ht
        cases nb with
        | false => simp [readSegs] at hr
        | true =>
          cases h1 : readEol ts with
          | error e => simp [readSegs, h1] at hr
          | ok ts1 =>
            cases h2 : readBndItems cd h false 0 h.nv ts1 with
            | error e => simp [readSegs, h1, h2] at hr
            | ok p =>
              obtain ⟨l, ts2⟩ := p
              cases h3 : readSegs cd h f false ts2 with
              | error e => simp [readSegs, h1, h2, h3] at hr
              | ok r' =>
                simp [readSegs, h1, h2, h3] at hr
                simp [readSegs, h1, h2, ih _ _ _ h3, hr]
      · cases hs : readSeg cd h t ts with
        | error e =>
          have := hr
          cases t <;> first | exact absurd rfl ht | simp [readSegs, hs] at this
        | ok p =>
          obtain ⟨l, ts'⟩ := p
          rw [readSegs_step cd h ht hs] at hr ⊢
          split at hr
          · simp at hr
          · rename_i r' hr'
            rw [ih _ _ _ hr']
            simpa using hr
    | .bt _ :: _ => simp [readSegs] at hr
    | .int _ :: _ => simp [readSegs] at hr
    | .dbl _ :: _ => simp [readSegs] at hr
    | .sh _ :: _ => simp [readSegs] at hr
    | .lg _ :: _ => simp [readSegs] at hr
    | .name _ :: _ => simp [readSegs] at hr
    | .holl _ :: _ => simp [readSegs] at hr
    | .vbt _ :: _ => simp [readSegs] at hr
    | .cmt _ :: _ => simp [readSegs] at hr
    | .eol :: _ => simp [readSegs] at hr

theorem readSegs_mono' (cd : Codec) (h : Hdr) (k : Nat) : ∀ (f : Nat) (nb : Bool) (ts : List Tok) (r : List Ev),
    readSegs cd h f nb ts = .ok r → readSegs cd h (f + k) nb ts = .ok r := by
  induction k with
  | zero => intro f nb ts r hr; simpa using hr
  | succ k ih => intro f nb ts r hr; exact readSegs_mono cd h (f + k) nb ts r (ih f nb ts r hr)

/-! ## the two passes of `READ_BOUNDS_FIRST` step over a non-`b` segment like the main loop does -/

theorem readUntilB_step (cd : Codec) (h : Hdr) {t : Tag} (ht : t ≠ .segb) {ts ts' : List Tok} {l : List Ev}
    (hs : readSeg cd h t ts = .ok (l, ts')) (f : Nat) :
    readUntilB cd h (f + 1) (.ch t :: ts) = readUntilB cd h f ts' := by
  cases t <;> first | exact absurd rfl ht | (simp only [readUntilB, hs])

theorem readSkipB_step (cd : Codec) (h : Hdr) {t : Tag} (ht : t ≠ .segb) {ts ts' : List Tok} {l : List Ev}
    (hs : readSeg cd h t ts = .ok (l, ts')) (f : Nat) (aft : Option (List Tok)) :
    readSkipB cd h (f + 1) aft (.ch t :: ts) =
      (match readSkipB cd h f aft ts' with
       | .error e => .error e
       | .ok r => .ok (l ++ r)) := by
  cases t <;> first | exact absurd rfl ht | (simp only [readSkipB, hs]; try rfl)

theorem readUntilB_mono (cd : Codec) (h : Hdr) : ∀ (f : Nat) (ts : List Tok) (r : List Ev × List Tok),
    readUntilB cd h f ts = .ok r → readUntilB cd h (f + 1) ts = .ok r := by
  intro f
  induction f with
  | zero => intro ts r hr; simp [readUntilB] at hr
  | succ f ih =>
    intro ts r hr
    match ts with
    | [] => simp [readUntilB] at hr
    | .ch t :: ts =>
      by_cases ht : t = .segb
      · subst ht; simpa [readUntilB] using hr
      · cases hs : readSeg cd h t ts with
        | error e =>
          have := hr
          cases t <;> first | exact absurd rfl ht | simp [readUntilB, hs] at this
        | ok p =>
          obtain ⟨l, ts'⟩ := p
          rw [readUntilB_step cd h ht hs] at hr ⊢
          exact ih _ _ hr
    | .bt _ :: _ => simp [readUntilB] at hr
    | .int _ :: _ => simp [readUntilB] at hr
    | .dbl _ :: _ => simp [readUntilB] at hr
    | .sh _ :: _ => simp [readUntilB] at hr
    | .lg _ :: _ => simp [readUntilB] at hr
    | .name _ :: _ => simp [readUntilB] at hr
    | .holl _ :: _ => simp [readUntilB] at hr
    | .vbt _ :: _ => simp [readUntilB] at hr
    | .cmt _ :: _ => simp [readUntilB] at hr
    | .eol :: _ => simp [readUntilB] at hr

theorem readUntilB_mono' (cd : Codec) (h : Hdr) (k : Nat) : ∀ (f : Nat) (ts : List Tok) (r : List Ev × List Tok),
    readUntilB cd h f ts = .ok r → readUntilB cd h (f + k) ts = .ok r := by
  induction k with
  | zero => intro f ts r hr; simpa using hr
  | succ k ih => intro f ts r hr; exact readUntilB_mono cd h (f + k) ts r (ih f ts r hr)

theorem readSkipB_mono (cd : Codec) (h : Hdr) : ∀ (f : Nat) (aft : Option (List Tok)) (ts : List Tok) (r : List Ev),
    readSkipB cd h f aft ts = .ok r → readSkipB cd h (f + 1) aft ts = .ok r := by
  intro f
  induction f with
  | zero => intro aft ts r hr; simp [readSkipB] at hr
  | succ f ih =>
    intro aft ts r hr
    match ts with
    | [] => simpa [readSkipB] using hr
    | .ch t :: ts =>
      by_cases ht : t = .segb
      · subst ht
        cases aft with
        | none => simp [readSkipB] at hr
        | some a =>
          simp only [readSkipB] at hr ⊢
          exact ih _ _ _ hr
      · cases hs : readSeg cd h t ts with
        | error e =>
          have := hr
          cases t <;> first | exact absurd rfl ht | simp [readSkipB, hs] at this
        | ok p =>
          obtain ⟨l, ts'⟩ := p
          rw [readSkipB_step cd h ht hs] at hr ⊢
          split at hr
          · simp at hr
          · rename_i r' hr'
            rw [ih _ _ _ hr']
            simpa using hr
    | .bt _ :: _ => simp [readSkipB] at hr
    | .int _ :: _ => simp [readSkipB] at hr
    | .dbl _ :: _ => simp [readSkipB] at hr
    | .sh _ :: _ => simp [readSkipB] at hr
    | .lg _ :: _ => simp [readSkipB] at hr
    | .name _ :: _ => simp [readSkipB] at hr
    | .holl _ :: _ => simp [readSkipB] at hr
    | .vbt _ :: _ => simp [readSkipB] at hr
    | .cmt _ :: _ => simp [readSkipB] at hr
    | .eol :: _ => simp [readSkipB] at hr

theorem readSkipB_mono' (cd : Codec) (h : Hdr) (k : Nat) : ∀ (f : Nat) (aft : Option (List Tok)) (ts : List Tok) (r : List Ev),
    readSkipB cd h f aft ts = .ok r → readSkipB cd h (f + k) aft ts = .ok r := by
  induction k with
  | zero => intro f aft ts r hr; simpa using hr
  | succ k ih => intro f aft ts r hr; exact readSkipB_mono cd h (f + k) aft ts r (ih f aft ts r hr)

/-- `Reads n nb nb' toks evs`: the segment loop, started with `read_bounds = nb` in front of `toks ++ rest`, delivers
    `evs`, leaves `read_bounds = nb'` and continues with `rest`; the fuel it needs beyond what `rest` needs is at most
    the number of tokens consumed.  (`n` is only a label: the number of segments.)  For chunks without a `b` segment
    (`nb = nb'`) the same holds for the two passes of `READ_BOUNDS_FIRST`: the first pass steps over the chunk silently, the
    second delivers `evs`. -/
def Reads (cd : Codec) (h : Hdr) (_n : Nat) (nb nb' : Bool) (toks : List Tok) (evs : List Ev) : Prop :=
  (∀ (f : Nat) (rest : List Tok) (r : List Ev),
    readSegs cd h f nb' rest = .ok r →
      ∃ g, g ≤ f + toks.length ∧ readSegs cd h g nb (toks ++ rest) = .ok (evs ++ r)) ∧
  (nb = nb' ∨ (nb = true ∧ nb' = false)) ∧
  (nb = nb' →
    (∀ (f : Nat) (rest : List Tok) (r : List Ev × List Tok), readUntilB cd h f rest = .ok r →
      ∃ g, g ≤ f + toks.length ∧ readUntilB cd h g (toks ++ rest) = .ok r) ∧
    (∀ (f : Nat) (aft : Option (List Tok)) (rest : List Tok) (r : List Ev), readSkipB cd h f aft rest = .ok r →
      ∃ g, g ≤ f + toks.length ∧ readSkipB cd h g aft (toks ++ rest) = .ok (evs ++ r)))

theorem Reads.nil (cd : Codec) (h : Hdr) (nb : Bool) : Reads cd h 0 nb nb [] [] := by
  refine ⟨?_, Or.inl rfl, fun _ => ⟨?_, ?_⟩⟩
  · intro f rest r hr; exact ⟨f, by simp, by simpa using hr⟩
  · intro f rest r hr; exact ⟨f, by simp, by simpa using hr⟩
  · intro f aft rest r hr; exact ⟨f, by simp, by simpa using hr⟩

theorem Reads.append {cd : Codec} {h : Hdr} {n1 n2 : Nat} {b1 b2 b3 : Bool} {t1 t2 : List Tok} {e1 e2 : List Ev}
    (h1 : Reads cd h n1 b1 b2 t1 e1) (h2 : Reads cd h n2 b2 b3 t2 e2) :
    Reads cd h (n2 + n1) b1 b3 (t1 ++ t2) (e1 ++ e2) := by
  refine ⟨?_, ?_, ?_⟩
  · intro f rest r hr
    obtain ⟨g2, hg2, a⟩ := h2.1 f rest r hr
    obtain ⟨g1, hg1, b⟩ := h1.1 g2 (t2 ++ rest) (e2 ++ r) a
    refine ⟨g1, by simp; omega, ?_⟩
    simpa [List.append_assoc] using b
  · have a := h1.2.1; have b := h2.2.1
    cases b1 <;> cases b2 <;> cases b3 <;> simp_all
  · intro hb
    have a := h1.2.1; have b := h2.2.1
    have e12 : b1 = b2 := by cases b1 <;> cases b2 <;> cases b3 <;> simp_all
    have e23 : b2 = b3 := by cases b1 <;> cases b2 <;> cases b3 <;> simp_all
    obtain ⟨u1, k1⟩ := h1.2.2 e12
    obtain ⟨u2, k2⟩ := h2.2.2 e23
    refine ⟨?_, ?_⟩
    · intro f rest r hr
      obtain ⟨g2, hg2, a⟩ := u2 f rest r hr
      obtain ⟨g1, hg1, b⟩ := u1 g2 (t2 ++ rest) r a
      refine ⟨g1, by simp; omega, ?_⟩
      simpa [List.append_assoc] using b
    · intro f aft rest r hr
      obtain ⟨g2, hg2, a⟩ := k2 f aft rest r hr
      obtain ⟨g1, hg1, b⟩ := k1 g2 aft (t2 ++ rest) (e2 ++ r) a
      refine ⟨g1, by simp; omega, ?_⟩
      simpa [List.append_assoc] using b

/-- a single segment other than `b` -/
theorem Reads.seg {cd : Codec} {h : Hdr} {t : Tag} (ht : t ≠ .segb) {body : List Tok} {l : List Ev}
    (hs : ∀ rest, readSeg cd h t (body ++ rest) = .ok (l, rest)) (nb : Bool) :
    Reads cd h 1 nb nb (.ch t :: body) l := by
  refine ⟨?_, Or.inl rfl, fun _ => ⟨?_, ?_⟩⟩
  · intro f rest r hr
    have := readSegs_step cd h ht (hs rest) f nb
    refine ⟨f + 1, by simp, ?_⟩
    simp only [List.cons_append]
    rw [this, hr]
  · intro f rest r hr
    refine ⟨f + 1, by simp, ?_⟩
    simp only [List.cons_append]
    rw [readUntilB_step cd h ht (hs rest), hr]
  · intro f aft rest r hr
    refine ⟨f + 1, by simp, ?_⟩
    simp only [List.cons_append]
    rw [readSkipB_step cd h ht (hs rest), hr]

theorem Reads.weaken {cd : Codec} {h : Hdr} {n : Nat} {b1 b2 : Bool} {t : List Tok} {e : List Ev} (k : Nat)
    (h1 : Reads cd h n b1 b2 t e) : Reads cd h (n + k) b1 b2 t e := h1

end MpVerif.C03

import MpVerif.C03.LemmasMain
/-! # C03 — `READ_BOUNDS_FIRST`: the two-pass reader on the writer's output -/
namespace MpVerif.C03
open MpVerif.Gen.OpcodesW

theorem wBody_split (m : Model) (o : Opts) : wBody m o = wPre m o ++ (wVarBounds m o ++ wPost m o) := by
  cases hb : o.boundsFirst <;> simp [wBody, wPre, wPost, hb, List.append_assoc]

/-- the same notifications as without the flag, the variable bounds moved to the front -/
theorem eventsBF_perm (cd : Codec) (m : Model) (o : Opts) :
    evBody cd m o = evPre cd m o ++ (evVarBnds cd 0 m.vb ++ (evPost cd m o ++ [Ev.endInput])) := by
  cases hb : o.boundsFirst <;> simp [evBody, evPre, evPost, hb, List.append_assoc]

theorem reads_pre_post (cd : Codec) (m : Model) (o : Opts) (hwf : wellFormed m o = true) :
    (∃ n, Reads cd (readBackHdr cd (effHdr m) o) n true true (wPre m o) (evPre cd m o)) ∧
    (∃ n, Reads cd (readBackHdr cd (effHdr m) o) n false false (wPost m o) (evPost cd m o)) ∧
    (∀ rest, readBndItems cd (readBackHdr cd (effHdr m) o) false 0 (readBackHdr cd (effHdr m) o).nv (wVarBndItems m.vb ++ rest) =
      .ok (evVarBnds cd 0 m.vb, rest)) := by
  have sc := sameCounts_readBack cd m o
  simp only [wellFormed, Bool.and_eq_true, decide_eq_true_eq] at hwf
  obtain ⟨⟨⟨⟨⟨⟨⟨⟨⟨⟨⟨⟨⟨⟨⟨⟨⟨⟨⟨hh, hbin⟩, hcs⟩, hfl⟩, hfo⟩, hsu⟩, hpl⟩, hvbl⟩, hcbl⟩, hcbo⟩, hx0⟩, hd0⟩, hdv0⟩, hacl⟩, haco⟩,
    hlcl⟩, hlco⟩, hobl⟩, hobo⟩, hcsl⟩ := hwf
  have hh' := hh
  simp only [hdrOk, Bool.and_eq_true, decide_eq_true_eq] at hh'
  have hrv : m.hdr.nrandv = 0 := hh'.1.1.1.1.2.1
  obtain ⟨h', hh'eq⟩ : ∃ h', h' = readBackHdr cd (effHdr m) o := ⟨_, rfl⟩
  rw [← hh'eq] at sc ⊢
  -- the pieces
  have rF : ∀ nb, Reads cd h' _ nb nb (wFunctions 0 m.funcs) (evFuncs 0 m.funcs) :=
    fun nb => reads_functions cd m.funcs 0 nb hfo (by rw [sc.nf, hfl]; omega)
  have rS : ∀ nb, Reads cd h' _ nb nb (wSuffixes o m.sufs) (evSuffixes cd m.sufs) :=
    fun nb => reads_suffixes cd o sc m.sufs nb hsu
  have rP : ∀ nb, Reads cd h' _ nb nb (wSuffixes o (plsosSuffixes m)) (evSuffixes cd (plsosSuffixes m)) :=
    fun nb => reads_suffixes cd o sc (plsosSuffixes m) nb hpl
  have rVB : Reads cd h' 1 true false (wVarBounds m o) (evVarBnds cd 0 m.vb) :=
    reads_varBounds cd o m (by rw [sc.nv]; exact hvbl)
  have rX : ∀ nb, Reads cd h' 1 nb nb (wInit .segx o "initial guess" m.x0) (evInit cd Ev.x0 m.x0) :=
    fun nb => reads_init cd o .segx _ h'.nv Ev.x0 nb (fun ts => by simp [readSeg]) (by simp) m.x0 (by rw [sc.nv]; exact hx0)
  have rD : ∀ nb, Reads cd h' 1 nb nb (wInit .segd o "initial dual guess" m.d0) (evInit cd Ev.d0 m.d0) :=
    fun nb => reads_init cd o .segd _ h'.nac Ev.d0 nb (fun ts => by simp [readSeg]) (by simp) m.d0 (by rw [sc.nac]; exact hd0)
  have rCB : ∀ nb, Reads cd h' 1 nb nb (wConBounds m o) (if m.hdr.nac ≠ 0 then evConBnds cd 0 m.cb else []) :=
    fun nb => reads_conBounds cd o sc m nb rfl hcbl hcbo
  have rDV : ∀ nb, Reads cd h' _ nb nb (wDefVars o 0 m.dv0) (evDefVars cd o m.hdr.nv 0 m.dv0) :=
    fun nb => reads_defVars cd o sc 0 m.dv0 nb hdv0
  have rAC : ∀ nb, ∃ n, Reads cd h' n nb nb (wACons o 0 m.cons) (evACons cd o m.hdr.nv 0 m.cons) :=
    fun nb => reads_acons cd o sc m.cons 0 nb haco (by omega)
  have rLC : ∀ nb, ∃ n, Reads cd h' n nb nb (wLCons o m.hdr.nac 0 m.lcons) (evLCons cd o m.hdr.nv m.hdr.nac 0 m.lcons) :=
    fun nb => reads_lcons cd o sc m.hdr.nac m.lcons 0 nb hlco (by omega)
  have rOB : ∀ nb, ∃ n, Reads cd h' n nb nb (wObjs o (m.hdr.nac + m.hdr.nlc) 0 m.objs)
      (evObjs cd o m.hdr.nv (m.hdr.nac + m.hdr.nlc) 0 m.objs) :=
    fun nb => reads_objs cd o sc (m.hdr.nac + m.hdr.nlc) m.objs 0 nb hobo (by omega)
  have rCS : ∀ nb, Reads cd h' 1 nb nb (wColSizes m o) (evColSizes m o) :=
    fun nb => reads_colSizes cd o sc m nb rfl hrv hcsl hcs
  have rJ : ∀ nb, Reads cd h' _ nb nb (wJ 0 m.cons) (evJ cd 0 m.cons) :=
    fun nb => reads_J cd sc m.cons 0 nb haco (by omega)
  have rG : ∀ nb, Reads cd h' _ nb nb (wG 0 m.objs) (evG cd 0 m.objs) :=
    fun nb => reads_G cd sc m.objs 0 nb hobo (by omega)
  have hvb : ∀ rest, readBndItems cd h' false 0 h'.nv (wVarBndItems m.vb ++ rest) = .ok (evVarBnds cd 0 m.vb, rest) := by
    intro rest
    have := readBnd_vars cd (h' := h') m.vb 0 rest
    rw [show m.vb.length = h'.nv from by rw [sc.nv]; exact hvbl] at this
    exact this
  refine ⟨?_, ?_, hvb⟩
  · unfold wPre evPre
    cases hbf : o.boundsFirst with
    | true =>
      simp only [if_true]
      exact ⟨_, Reads.append (rF true) (Reads.append (rS true) (Reads.append (rP true) (Reads.nil cd h' true)))⟩
    | false =>
      obtain ⟨_, rAC'⟩ := rAC true
      obtain ⟨_, rLC'⟩ := rLC true
      obtain ⟨_, rOB'⟩ := rOB true
      simp only [Bool.false_eq_true, if_false]
      exact ⟨_, Reads.append (rF true) (Reads.append (rS true) (Reads.append (rP true)
        (Reads.append (rDV true) (Reads.append rAC' (Reads.append rLC' (Reads.append rOB'
        (Reads.append (rD true) (Reads.append (rX true) (rCB true)))))))))⟩
  · unfold wPost evPost
    cases hbf : o.boundsFirst with
    | true =>
      obtain ⟨_, rAC'⟩ := rAC false
      obtain ⟨_, rLC'⟩ := rLC false
      obtain ⟨_, rOB'⟩ := rOB false
      simp only [if_true]
      exact ⟨_, Reads.append (Reads.append (Reads.append (rX false) (Reads.append (rCB false) (rD false)))
        (Reads.append (rDV false) (Reads.append rAC' (Reads.append rLC' rOB'))))
        (Reads.append (rCS false) (Reads.append (rJ false) (rG false)))⟩
    | false =>
      simp only [Bool.false_eq_true, if_false]
      exact ⟨_, Reads.append (Reads.nil cd h' false) (Reads.append (rCS false) (Reads.append (rJ false) (rG false)))⟩

/-- **`READ_BOUNDS_FIRST`**: the two-pass reader on the writer's output delivers the header, then the variable bounds, then
    everything else in file order -/
theorem roundtrip_bounds_first (cd : Codec) (m : Model) (o : Opts) (hwf : wellFormed m o = true) :
    readTokensBF cd (writeNL m o) = .ok (eventsBF cd m o) := by
  obtain ⟨⟨n1, hpre⟩, ⟨n2, hpost⟩, hvb⟩ := reads_pre_post cd m o hwf
  have hwf' := hwf
  simp only [wellFormed, Bool.and_eq_true, decide_eq_true_eq] at hwf'
  have hh : hdrOk m.hdr = true := hwf'.1.1.1.1.1.1.1.1.1.1.1.1.1.1.1.1.1.1.1
  have hbin : o.binary = true → m.hdr.arith = 1 := hwf'.1.1.1.1.1.1.1.1.1.1.1.1.1.1.1.1.1.1.2
  have hhdr := readHeader_wHeader cd o (effHdr m) (wBody m o) (by rw [hdrOk_eff]; exact hh)
  have hfa : ¬ ((readBackHdr cd (effHdr m) o).format = 1 ∧ (readBackHdr cd (effHdr m) o).arith ≠ 1) := by
    cases hb : o.binary with
    | false => simp [readBackHdr, hb]
    | true =>
      have := hbin hb
      simp [readBackHdr, effHdr, hb, this]
  generalize hH : readBackHdr cd (effHdr m) o = H at *
  -- first pass
  have hbase1 : readUntilB cd H 1 (wVarBounds m o ++ wPost m o) = .ok (evVarBnds cd 0 m.vb, wPost m o) := by
    simp [wVarBounds, readUntilB, hvb]
  obtain ⟨g1, hg1, hu⟩ := (hpre.2.2 rfl).1 1 _ _ hbase1
  -- second pass
  have hbase2 : readSkipB cd H 1 none [] = .ok [Ev.endInput] := by simp [readSkipB]
  obtain ⟨g2, hg2, hk2⟩ := (hpost.2.2 rfl).2 1 none [] _ hbase2
  simp only [List.append_nil] at hk2
  have hb2 : readSkipB cd H (g2 + 1) (some (wPost m o)) (wVarBounds m o ++ wPost m o) = .ok (evPost cd m o ++ [Ev.endInput]) := by
    simp [wVarBounds, readSkipB, hk2]
  obtain ⟨g3, hg3, hk3⟩ := (hpre.2.2 rfl).2 (g2 + 1) (some (wPost m o)) _ _ hb2
  have hlenB : (wBody m o).length = (wPre m o).length + ((wVarBounds m o).length + (wPost m o).length) := by
    rw [wBody_split]; simp
  have hlenT : (wBody m o).length ≤ (writeNL m o).length := by rw [writeNL_eq]; simp
  have hvbpos : 1 ≤ (wVarBounds m o).length := by simp [wVarBounds]
  have hm1 := readUntilB_mono' cd H ((writeNL m o).length + 1 - g1) g1 _ _ hu
  have hm3 := readSkipB_mono' cd H ((writeNL m o).length + 2 - g3) g3 _ _ _ hk3
  rw [show g1 + ((writeNL m o).length + 1 - g1) = (writeNL m o).length + 1 from by omega] at hm1
  rw [show g3 + ((writeNL m o).length + 2 - g3) = (writeNL m o).length + 2 from by omega] at hm3
  rw [← wBody_split] at hm1 hm3
  unfold readTokensBF
  have e1 : readHeader cd (writeNL m o) = .ok (H, wBody m o) := hhdr
  rw [e1]
  simp only [hfa, if_false]
  rw [hm1]
  simp only []
  rw [hm3]
  simp [eventsBF, hH]

end MpVerif.C03

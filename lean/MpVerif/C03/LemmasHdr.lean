import MpVerif.C03.LemmasSeg3
/-! # C03 — lemma: the header written by `WriteNLHeader` is rebuilt by `ReadHeader` -/
namespace MpVerif.C03
open MpVerif.Gen.OpcodesW

@[simp] theorem readOptUInt_nat (n : Nat) (ts : List Tok) : readOptUInt (.int (n : Int) :: ts) = (some n, ts) := by
  simp [readOptUInt]

@[simp] theorem readOptUInt_zero (ts : List Tok) : readOptUInt (.int 0 :: ts) = (some 0, ts) := by
  simp [readOptUInt]

@[simp] theorem readOptUInt_cmt (s : String) (ts : List Tok) : readOptUInt (.cmt s :: ts) = (none, .cmt s :: ts) := by
  simp [readOptUInt]

@[simp] theorem skipLine_cmt (s : String) (ts : List Tok) : skipLine (.cmt s :: .eol :: ts) = .ok ts := by
  simp [skipLine]

@[simp] theorem skipLine_vbt (x : Dbl) (s : String) (ts : List Tok) : skipLine (.vbt x :: .cmt s :: .eol :: ts) = .ok ts := by
  simp [skipLine]

theorem readOpts_map (cd : Codec) : ∀ (l : List Int) (n : Nat) (ts : List Tok), l.length = n →
    (∀ v ts', ts ≠ .int v :: ts') → readOpts cd n (l.map (fun v => Tok.int v) ++ ts) = (l, ts)
  | [], n, ts, hn, hts => by
    subst hn
    simp [readOpts]
  | v :: l, n, ts, hn, hts => by
    subst hn
    have ih := readOpts_map cd l l.length ts rfl hts
    simp [readOpts, ih]

@[simp] theorem readUInts_2 (a b : Nat) (ts : List Tok) :
    readUInts 2 (.int (a : Int) :: .int (b : Int) :: ts) = .ok ([a, b], ts) := by
  simp [readUInts]

@[simp] theorem readUInts_3 (a b c : Nat) (ts : List Tok) :
    readUInts 3 (.int (a : Int) :: .int (b : Int) :: .int (c : Int) :: ts) = .ok ([a, b, c], ts) := by
  simp [readUInts]

@[simp] theorem readUInts_5 (a b c d e : Nat) (ts : List Tok) :
    readUInts 5 (.int (a : Int) :: .int (b : Int) :: .int (c : Int) :: .int (d : Int) :: .int (e : Int) :: ts) =
      .ok ([a, b, c, d, e], ts) := by
  simp [readUInts]

end MpVerif.C03

namespace MpVerif.C03

section
variable (cd : Codec) (o : Opts)

theorem readH1_ok (h : Hdr) (rest : List Tok) (hnopts : h.nopts ≤ 9) (hlen : h.opts.length = 9) :
    readH1 cd (wH1 h o ++ rest) =
      .ok ({ hdr0 with format := if o.binary then 1 else 0, nopts := h.nopts,
                       opts := h.opts.take h.nopts ++ hdr0.opts.drop (h.opts.take h.nopts).length,
                       vbtol := if (h.opts.take h.nopts ++ hdr0.opts.drop (h.opts.take h.nopts).length)[1]? = some (3 : Int) ∧
                                   h.opts[1]? = some (3 : Int) then cd.vb h.vbtol else Dbl.zero }, rest) := by
  have hl : (h.opts.take h.nopts).length = h.nopts := by simp [List.length_take]; omega
  have hgt : ¬ h.nopts > 9 := by omega
  have hfmt : ∀ b : Bool, ¬ ((if b = true then Tag.fmtB else Tag.fmtG) ≠ Tag.fmtG ∧ (if b = true then Tag.fmtB else Tag.fmtG) ≠ Tag.fmtB) := by
    intro b; cases b <;> simp
  have hfmt2 : ∀ b : Bool, ((if (if b = true then Tag.fmtB else Tag.fmtG) = Tag.fmtB then 1 else 0) : Nat) = (if b = true then 1 else 0) := by
    intro b; cases b <;> simp
  generalize hol : h.opts.take h.nopts = ol at hl ⊢
  by_cases hA : h.opts[1]? = some (3 : Int)
  · have hr := readOpts_map cd ol h.nopts (.vbt h.vbtol :: .cmt "" :: .eol :: rest) hl (by simp)
    by_cases hB : (ol ++ List.drop ol.length [(1 : Int), 1, 0, 0, 0, 0, 0, 0, 0])[1]? = some (3 : Int)
    · simp [readH1, wH1, hol, hA, hB, hgt, hfmt, hfmt2, hr, hdr0]
    · simp [readH1, wH1, hol, hA, hB, hgt, hfmt, hfmt2, hr, hdr0]
  · have hr := readOpts_map cd ol h.nopts (.cmt "" :: .eol :: rest) hl (by simp)
    by_cases hB : (ol ++ List.drop ol.length [(1 : Int), 1, 0, 0, 0, 0, 0, 0, 0])[1]? = some (3 : Int)
    · simp [readH1, wH1, hol, hA, hB, hgt, hfmt, hfmt2, hr, hdr0]
    · simp [readH1, wH1, hol, hA, hB, hgt, hfmt, hfmt2, hr, hdr0]

theorem readH2_ok (h0 h : Hdr) (rest : List Tok) (hrv : h.nrandv = 0) :
    readH2 h0 (wH2 h ++ rest) =
      .ok ({ h0 with nv := h.nv, nac := h.nac, no := h.no, nr := h.nr, ne := h.ne, nlc := h.nlc }, rest) := by
  by_cases hc : h.nlc = 0
  · simp [readH2, wH2, hrv, hc]
  · simp [readH2, wH2, hrv, hc]

theorem readH3_ok (h0 h : Hdr) (rest : List Tok) (hrc : h.nrandc = 0) (hro : h.nrando = 0) (hle : h.nnlcc ≤ h.ncc)
    (hz : h.ncc = 0 → h.ncdi = 0 ∧ h.ncnz = 0) :
    readH3 h0 (wH3 h ++ rest) =
      .ok ({ h0 with nnlc := h.nnlc, nnlo := h.nnlo, ncc := h.ncc, nnlcc := h.nnlcc, ncdi := h.ncdi, ncnz := h.ncnz }, rest) := by
  by_cases hc : h.ncc = 0
  · have h1 : h.nnlcc = 0 := by omega
    obtain ⟨h2, h3⟩ := hz hc
    simp [readH3, wH3, hrc, hro, hc, h1, h2, h3]
  · have e : ((h.ncc : Int) - (h.nnlcc : Int)) = ((h.ncc - h.nnlcc : Nat) : Int) := by omega
    simp only [readH3, wH3, hrc, hro, hc, ne_eq, not_false_eq_true, true_or, or_false, if_true, not_true_eq_false, if_false,
      List.append_nil, List.append_assoc, List.cons_append, List.nil_append, e, readUInts_2, readOptUInt_nat, Option.isSome_some,
      and_self, skipLine_cmt, Option.getD_some]
    have : h.ncc - h.nnlcc + h.nnlcc = h.ncc := by omega
    simp [this]

theorem readH4_ok (h0 h : Hdr) (rest : List Tok) (hst : h.nstages ≤ 1) :
    readH4 h0 (wH4 h ++ rest) = .ok ({ h0 with nnnc := h.nnnc, nlnc := h.nlnc }, rest) := by
  have : ¬ h.nstages > 1 := by omega
  simp [readH4, wH4, this]

theorem readH5_ok (h0 h : Hdr) (rest : List Tok) :
    readH5 h0 (wH5 h ++ rest) = .ok (({ h0 with nlvc := h.nlvc, nlvo := h.nlvo, nlvb := h.nlvb }, true), rest) := by
  simp [readH5, wH5]

theorem readH6_ok (h0 h : Hdr) (rest : List Tok) (hrv : h.nrandv = 0) (har : h.arith ≤ 5) :
    readH6 h0 (wH6 h o ++ rest) =
      .ok ({ h0 with nlnv := h.nlnv, nf := h.nf,
                     arith := if h.flags ≠ 0 ∨ h.arith ≠ 0 then (if o.binary then h.arith else 0) else h0.arith,
                     flags := if h.flags ≠ 0 ∨ h.arith ≠ 0 then h.flags else h0.flags }, rest) := by
  by_cases he : h.flags ≠ 0 ∨ h.arith ≠ 0
  · cases hb : o.binary with
    | true =>
      have : ¬ h.arith > 5 := by omega
      simp [readH6, wH6, hrv, he, hb, this]
    | false => simp [readH6, wH6, hrv, he, hb]
  · simp [readH6, wH6, hrv, he]

theorem readH7_ok (h0 h : Hdr) (rest : List Tok) :
    readH7 h0 true (wH7 h ++ rest) =
      .ok ({ h0 with nlbv := h.nlbv, nliv := h.nliv, nnlib := h.nnlib, nnlic := h.nnlic, nnlio := h.nnlio }, rest) := by
  simp [readH7, wH7]

theorem readH8_ok (h0 h : Hdr) (rest : List Tok) :
    readH8 h0 (wH8 h ++ rest) = .ok ({ h0 with nzc := h.nzc, nzo := h.nzo }, rest) := by
  simp [readH8, wH8]

theorem readH9_ok (h0 h : Hdr) (rest : List Tok) :
    readH9 h0 (wH9 h ++ rest) = .ok ({ h0 with mcl := h.mcl, mvl := h.mvl }, rest) := by
  simp [readH9, wH9]

theorem readH10_ok (h0 h : Hdr) (rest : List Tok) (hrce : h.nrandce = 0)
    (hsum : h0.nv + h.ceb + h.cec + h.ceo + h.cesc + h.ceso ≤ 2147483647) :
    readH10 h0 (wH10 h ++ rest) =
      .ok ({ h0 with ceb := h.ceb, cec := h.cec, ceo := h.ceo, cesc := h.cesc, ceso := h.ceso }, rest) := by
  have : ¬ (h0.nv + h.ceb + h.cec + h.ceo + h.cesc + h.ceso > 2147483647) := by omega
  simp [readH10, wH10, hrce, this]

theorem readHeader_wHeader (h : Hdr) (rest : List Tok) (hok : hdrOk h = true) :
    readHeader cd (wHeader h o ++ rest) = .ok (readBackHdr cd h o, rest) := by
  simp only [hdrOk, Bool.and_eq_true, decide_eq_true_eq] at hok
  obtain ⟨⟨⟨⟨⟨⟨⟨hnv, hnopts⟩, hlen⟩, ⟨hrv, hrce, hrc, hro, hrcalls, hst⟩⟩, hcc⟩, hcc0⟩, har⟩, hsum⟩ := hok
  unfold readHeader wHeader
  simp only [List.append_assoc]
  rw [readH1_ok cd o h _ hnopts hlen]
  simp only []
  rw [readH2_ok _ h _ hrv]
  simp only []
  rw [readH3_ok _ h _ hrc hro hcc hcc0]
  simp only []
  rw [readH4_ok _ h _ hst]
  simp only []
  rw [readH5_ok]
  simp only []
  rw [readH6_ok o _ h _ hrv har]
  simp only []
  rw [readH7_ok]
  simp only []
  rw [readH8_ok]
  simp only []
  rw [readH9_ok]
  simp only []
  rw [readH10_ok _ h _ hrce (by simp [Hdr.nce] at hsum ⊢; omega)]
  congr 1
  cases h
  simp [readBackHdr, hdr0] at *

end
end MpVerif.C03

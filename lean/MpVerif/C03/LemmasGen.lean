import MpVerif.Gen.C03Writer
import MpVerif.C03.LemmasHdr
import MpVerif.C03.GenIRRead
/-! # C03 — the hand model equals what the translator extracts from the source (header lines, bounds decision, nput) -/
namespace MpVerif.C03
open MpVerif.Gen.C03Writer

theorem toksL_append (h : Hdr) (o : Opts) (a b : List HStmt) :
    HStmt.toksL h o (a ++ b) = HStmt.toksL h o a ++ HStmt.toksL h o b := by
  induction a with
  | nil => simp [HStmt.toksL]
  | cons s r ih => simp [HStmt.toksL, ih]

theorem flatMap_int (l : List Int) : (l.flatMap fun v => [Tok.int v]) = l.map (fun v => Tok.int v) := by
  induction l with
  | nil => rfl
  | cons v r ih => simp [List.flatMap_cons, ih]

theorem opt1_iff (h : Hdr) : ((h.opts[1]?).getD 0 = 3) ↔ h.opts[1]? = some (3 : Int) := by
  cases hx : h.opts[1]? with
  | none => simp
  | some v => simp

theorem gen_hdr1 (h : Hdr) (o : Opts) : HStmt.toksL h o hdrLine1 = wH1 h o := by
  by_cases h3 : h.opts[1]? = some (3 : Int)
  · have h3' := (opt1_iff h).mpr h3
    cases hb : o.binary <;>
      simp [hdrLine1, wH1, HStmt.toksL, HStmt.toks, HFmt.eval, HExpr.eval, hdrPrintf, fmt_gl_1__short, fmt_gl_1a, Hdr.field, hb, h3, h3',
        flatMap_int, List.map_take]
  · have h3' : ¬ ((h.opts[1]?).getD 0 = 3) := fun e => h3 ((opt1_iff h).mp e)
    cases hb : o.binary <;>
      simp [hdrLine1, wH1, HStmt.toksL, HStmt.toks, HFmt.eval, HExpr.eval, hdrPrintf, fmt_gl_1__short, fmt_gl_1a, Hdr.field, hb, h3, h3',
        flatMap_int, List.map_take]

theorem gen_hdr2 (h : Hdr) (o : Opts) : HStmt.toksL h o hdrLine2 = wH2 h := by
  by_cases h1 : h.nrandv = 0 <;> by_cases h2 : h.nlc = 0 <;>
    simp [hdrLine2, wH2, HStmt.toksL, HStmt.toks, HFmt.eval, HExpr.eval, hdrPrintf, fmt_gl_2a, fmt_gl_2, Hdr.field, h1, h2]

theorem gen_hdr3 (h : Hdr) (o : Opts) : HStmt.toksL h o hdrLine3 = wH3 h := by
  by_cases h1 : h.ncc = 0 <;> by_cases h2 : h.nrandc = 0 <;> by_cases h3 : h.nrando = 0 <;>
    simp [hdrLine3, wH3, HStmt.toksL, HStmt.toks, HFmt.eval, HExpr.eval, hdrPrintf, fmt_gl_3, fmt_gl_3c, Hdr.field, h1, h2, h3]

theorem gen_hdr4 (h : Hdr) (o : Opts) : HStmt.toksL h o hdrLine4 = wH4 h := by
  by_cases h1 : h.nstages > 1
  · have : ((h.nstages : Int) > 1) := by omega
    simp [hdrLine4, wH4, HStmt.toksL, HStmt.toks, HFmt.eval, HExpr.eval, hdrPrintf, fmt_gl_4, fmt_gl_4r, Hdr.field, h1, this]
  · have : ¬ ((h.nstages : Int) > 1) := by omega
    simp [hdrLine4, wH4, HStmt.toksL, HStmt.toks, HFmt.eval, HExpr.eval, hdrPrintf, fmt_gl_4, fmt_gl_4r, Hdr.field, h1, this]

theorem gen_hdr5 (h : Hdr) (o : Opts) : HStmt.toksL h o hdrLine5 = wH5 h := by
  simp [hdrLine5, wH5, HStmt.toksL, HStmt.toks, HFmt.eval, HExpr.eval, hdrPrintf, fmt_gl_5, Hdr.field]

theorem gen_hdr6 (h : Hdr) (o : Opts) : HStmt.toksL h o hdrLine6 = wH6 h o := by
  cases hb : o.binary <;> by_cases h1 : h.nrandv = 0 <;> by_cases h2 : h.flags = 0 <;> by_cases h3 : h.arith = 0 <;>
    simp [hdrLine6, wH6, HStmt.toksL, HStmt.toks, HFmt.eval, HExpr.eval, hdrPrintf, fmt_gl_6, fmt_gl_6x, fmt_gl_6y, Hdr.field, hb, h1, h2, h3]

theorem gen_hdr7 (h : Hdr) (o : Opts) : HStmt.toksL h o hdrLine7 = wH7 h := by
  simp [hdrLine7, wH7, HStmt.toksL, HStmt.toks, HFmt.eval, HExpr.eval, hdrPrintf, fmt_gl_7, Hdr.field]

theorem gen_hdr8 (h : Hdr) (o : Opts) : HStmt.toksL h o hdrLine8 = wH8 h := by
  simp [hdrLine8, wH8, HStmt.toksL, HStmt.toks, HFmt.eval, HExpr.eval, hdrPrintf, fmt_gl_8, Hdr.field]

theorem gen_hdr9 (h : Hdr) (o : Opts) : HStmt.toksL h o hdrLine9 = wH9 h := by
  simp [hdrLine9, wH9, HStmt.toksL, HStmt.toks, HFmt.eval, HExpr.eval, hdrPrintf, fmt_gl_9, Hdr.field]

theorem gen_hdr10 (h : Hdr) (o : Opts) : HStmt.toksL h o hdrLine10 = wH10 h := by
  by_cases h1 : h.nrandce = 0 <;>
    simp [hdrLine10, wH10, HStmt.toksL, HStmt.toks, HFmt.eval, HExpr.eval, hdrPrintf, fmt_gl_10, Hdr.field, h1]

/-- the statements of `WriteNLHeader`, as extracted from the source -/
def genHeader : List HStmt :=
  hdrLine1 ++ (hdrLine2 ++ (hdrLine3 ++ (hdrLine4 ++ (hdrLine5 ++ (hdrLine6 ++ (hdrLine7 ++ (hdrLine8 ++ (hdrLine9 ++ hdrLine10))))))))

theorem gen_header (h : Hdr) (o : Opts) : HStmt.toksL h o genHeader = wHeader h o := by
  simp only [genHeader, toksL_append, gen_hdr1, gen_hdr2, gen_hdr3, gen_hdr4, gen_hdr5, gen_hdr6, gen_hdr7, gen_hdr8, gen_hdr9,
    gen_hdr10, wHeader]

theorem gen_bounds (L U : Dbl) (k cvar : Nat) : bndTree.eval L U k cvar = wBnd L U k cvar := by
  by_cases hk : k = 0 <;> cases h1 : L.leNegMax <;> cases h2 : U.geMax <;> cases h3 : L.ieeeEq U <;>
    simp [bndTree, BndTree.eval, bndToks, wBnd, hk, h1, h2, h3]

/-- the model's `ReadBounds` is the table-driven one with the table extracted from nl-reader.h -/
theorem gen_readBounds (cd : Codec) (h : Hdr) (isCon : Bool) :
    ∀ (n i : Nat) (ts : List Tok), readBndItems cd h isCon i n ts = readBndItemsG cd h isCon readBoundsTable i n ts := by
  intro n
  induction n with
  | zero => intro i ts; simp [readBndItems, readBndItemsG]
  | succ n ih =>
    intro i ts
    match ts with
    | [] => simp [readBndItems, readBndItemsG]
    | .bt 0 :: r =>
      simp only [readBndItems, readBndItemsG, readBoundsTable, List.getElem?_cons_zero, readBndSrc, ih]
      cases readDouble cd r with
      | error e => rfl
      | ok p =>
        obtain ⟨l, r1⟩ := p
        simp only
        cases readDouble cd r1 with
        | error e => rfl
        | ok q => rfl
    | .bt 1 :: r =>
      simp only [readBndItems, readBndItemsG, readBoundsTable, List.getElem?_cons_succ, List.getElem?_cons_zero, readBndSrc, ih]
      cases readDouble cd r with
      | error e => rfl
      | ok p => rfl
    | .bt 2 :: r =>
      simp only [readBndItems, readBndItemsG, readBoundsTable, List.getElem?_cons_succ, List.getElem?_cons_zero, readBndSrc, ih]
      cases readDouble cd r with
      | error e => rfl
      | ok p => rfl
    | .bt 3 :: r =>
      simp only [readBndItems, readBndItemsG, readBoundsTable, List.getElem?_cons_succ, List.getElem?_cons_zero, readBndSrc, ih]
      rfl
    | .bt 4 :: r =>
      simp only [readBndItems, readBndItemsG, readBoundsTable, List.getElem?_cons_succ, List.getElem?_cons_zero, readBndSrc, ih]
      cases readDouble cd r with
      | error e => rfl
      | ok p => rfl
    | .bt 5 :: r =>
      simp only [readBndItems, readBndItemsG, readBoundsTable, List.getElem?_cons_succ, List.getElem?_cons_zero, ih]
      rfl
    | .bt (c + 6) :: r =>
      simp [readBndItems, readBndItemsG, readBoundsTable]
    | .ch _ :: _ => simp [readBndItems, readBndItemsG]
    | .int _ :: _ => simp [readBndItems, readBndItemsG]
    | .dbl _ :: _ => simp [readBndItems, readBndItemsG]
    | .sh _ :: _ => simp [readBndItems, readBndItemsG]
    | .lg _ :: _ => simp [readBndItems, readBndItemsG]
    | .name _ :: _ => simp [readBndItems, readBndItemsG]
    | .holl _ :: _ => simp [readBndItems, readBndItemsG]
    | .vbt _ :: _ => simp [readBndItems, readBndItemsG]
    | .cmt _ :: _ => simp [readBndItems, readBndItemsG]
    | .eol :: _ => simp [readBndItems, readBndItemsG]

/-- the model's column-size reader is the one driven by the statements extracted from `ReadColumnSizes` -/
theorem gen_readColItems (cum : Bool) : ∀ (n prev : Nat) (ts : List Tok),
    readColItems cum prev n ts = readColItemsG colCumStmts cum prev n ts := by
  intro n
  induction n with
  | zero => intro prev ts; simp [readColItems, readColItemsG]
  | succ n ih =>
    intro prev ts
    simp only [readColItems, readColItemsG]
    cases hr : readUInt ts with
    | error e => rfl
    | ok p =>
      obtain ⟨s, ts1⟩ := p
      simp only
      cases cum with
      | false =>
        simp only [Bool.false_eq_true, false_and, if_false, ih]
        rfl
      | true =>
        by_cases hlt : s < prev
        · simp [colCumStmts, CStmt.run, hlt]
        · have e : prev + (s - prev) = s := by omega
          simp only [colCumStmts, CStmt.run, hlt, true_and, if_true, if_false, e, ih]
          rfl

/-- the model's column-size writers are `ColSizeWriter::Write` as extracted (kind 1 accumulates and prints the sum, kind 2 prints the size) -/
theorem gen_wColItems : (∀ (l : List Nat) (acc : Nat), wColItemsCum acc l = wColItemsG colWriteCases 1 acc l) ∧
    (∀ (l : List Nat) (acc : Nat), wColItemsPlain l = wColItemsG colWriteCases 2 acc l) := by
  constructor
  · intro l
    induction l with
    | nil => intro acc; simp [wColItemsCum, wColItemsG]
    | cons s r ih => intro acc; simp [wColItemsCum, wColItemsG, colWriteCases, ih]
  · intro l
    induction l with
    | nil => intro acc; simp [wColItemsPlain, wColItemsG]
    | cons s r ih =>
      intro acc
      have h := ih acc
      simp only [colWriteCases] at h
      simp [wColItemsPlain, wColItemsG, colWriteCases, ← h]

end MpVerif.C03

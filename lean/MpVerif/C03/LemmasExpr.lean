import MpVerif.C03.ModelSpec
/-! # C03 — lemmas: reader primitives on writer output, opcode table facts, expression round trip -/
namespace MpVerif.C03
open MpVerif.Gen.OpcodesW

/-! ## primitives -/

@[simp] theorem readEol_cmtEol (o : Opts) (d : String) (ts : List Tok) :
    readEol (cmtEol o d ++ ts) = .ok ts := by
  unfold cmtEol; split <;> simp [readEol]

@[simp] theorem readEol_eol (ts : List Tok) : readEol (.eol :: ts) = .ok ts := by simp [readEol]

@[simp] theorem readUInt_nat (n : Nat) (ts : List Tok) : readUInt (.int (n : Int) :: ts) = .ok (n, ts) := by
  simp [readUInt]

@[simp] theorem readInt_int (i : Int) (ts : List Tok) : readInt (.int i :: ts) = .ok (i, ts) := by simp [readInt]

theorem readUIntLt_nat {n ub : Nat} (h : n < ub) (ts : List Tok) :
    readUIntLt ub (.int (n : Int) :: ts) = .ok (n, ts) := by
  simp [readUIntLt, h]

@[simp] theorem readDouble_dbl (cd : Codec) (x : Dbl) (ts : List Tok) :
    readDouble cd (.dbl x :: ts) = .ok (cd.rd x, ts) := by simp [readDouble]

@[simp] theorem readName_name (s : String) (ts : List Tok) : readName (.name s :: ts) = .ok (s, ts) := by
  simp [readName]

/-! ## numbers: `nput` then `ReadConstant` -/

/-- the tag `nput` starts with is one of n / s / l, and `ReadConstant` returns `numVal` -/
theorem wNum_shape (cd : Codec) (o : Opts) (x : Dbl) (rest : List Tok) :
    ∃ t ts, wNum o x ++ rest = .ch t :: ts ∧ (t = .exN ∨ t = .exL ∨ t = .exS) ∧
      readConstant cd t ts = .ok (numVal cd o x, rest) := by
  cases hb : o.binary with
  | false => exact ⟨.exN, .dbl x :: .eol :: rest, by simp [wNum, hb], by simp, by simp [numVal, hb, readConstant, Except.map]⟩
  | true =>
    cases ht : x.toInt? with
    | none => exact ⟨.exN, .dbl x :: .eol :: rest, by simp [wNum, hb, ht], by simp, by simp [numVal, hb, ht, readConstant, Except.map]⟩
    | some v =>
      by_cases h1 : -2147483648 ≤ v ∧ v ≤ 2147483647
      · by_cases h2 : -32768 ≤ v ∧ v ≤ 32767
        · exact ⟨.exS, .sh v :: .eol :: rest, by simp [wNum, hb, ht, h1, h2], by simp, by simp [numVal, hb, ht, h1, readConstant, Except.map]⟩
        · exact ⟨.exL, .lg v :: .eol :: rest, by simp [wNum, hb, ht, h1, h2], by simp, by simp [numVal, hb, ht, h1, readConstant, Except.map]⟩
      · exact ⟨.exN, .dbl x :: .eol :: rest, by simp [wNum, hb, ht, h1], by simp, by simp [numVal, hb, ht, h1, readConstant, Except.map]⟩

theorem readConstantC_wNum (cd : Codec) (o : Opts) (x : Dbl) (rest : List Tok) :
    readConstantC cd (wNum o x ++ rest) = .ok (numVal cd o x, rest) := by
  obtain ⟨t, ts, h1, _, h3⟩ := wNum_shape cd o x rest
  rw [h1]; simpa [readConstantC] using h3

/-! ## table facts -/

/-- everything the round trip needs to know about one writer opcode -/
def opFacts (oc k : Nat) (cls : OpClass) : Bool :=
  readerInfo oc == some (k, cls) && cls != .other && decide (oc ≤ maxOpcode) &&
  ((cls == .ifSym) == ((oc : Int) == ifsymOpcode)) && ((oc == 64) == (cls == .plterm)) &&
  (cls != .count || k == kv_COUNT)

theorem allOpFacts : writerOps.all (fun e => opFacts e.2.1 e.2.2.1 (grammarClass e.2.2.1)) = true := by decide

theorem opFacts_of_writerInfo {oc k : Nat} {cls : OpClass} (h : writerInfo oc = some (k, cls)) :
    opFacts oc k cls = true := by
  unfold writerInfo writerKind at h
  cases hf : writerOps.find? (fun e => e.2.1 == oc) with
  | none => simp [hf] at h
  | some e =>
    simp [hf] at h
    have hm := List.mem_of_find?_eq_some hf
    have hp := List.find?_some hf
    have ha := List.all_eq_true.mp allOpFacts e hm
    simp at hp
    obtain ⟨hk, hc⟩ := h
    subst hk; subst hc
    rw [← hp]; exact ha

structure OpOK (oc k : Nat) (cls : OpClass) : Prop where
  rinfo : readerInfo oc = some (k, cls)
  le : oc ≤ maxOpcode
  ifsym : cls = .ifSym ↔ (oc : Int) = ifsymOpcode
  pl : oc = 64 ↔ cls = .plterm
  cnt : cls = .count → k = kv_COUNT

theorem opOK_of_writerInfo {oc k : Nat} {cls : OpClass} (h : writerInfo oc = some (k, cls)) : OpOK oc k cls := by
  have hf := opFacts_of_writerInfo h
  unfold opFacts at hf
  simp only [Bool.and_eq_true, beq_iff_eq, bne_iff_ne, ne_eq, decide_eq_true_eq, Bool.or_eq_true] at hf
  obtain ⟨⟨⟨⟨⟨h1, _⟩, h3⟩, h4⟩, h5⟩, h6⟩ := hf
  refine ⟨h1, h3, ?_, ?_, ?_⟩
  · constructor
    · intro hc; subst hc; simpa using h4
    · intro ho
      cases cls <;> simp_all
  · constructor
    · intro ho; subst ho; cases cls <;> simp_all
    · intro hc; subst hc; simpa using h5
  · intro hc; subst hc; simpa using h6

/-! ## opening an operator -/

theorem readOpCode_ok {oc : Nat} (hle : oc ≤ maxOpcode) (o : Opts) (d : String) (ts : List Tok) :
    readOpCode (.int (oc : Int) :: (cmtEol o d ++ ts)) = .ok (oc, ts) := by
  have : ¬ oc > maxOpcode := by omega
  simp [readOpCode, this]

/-! ## sizes -/
mutual
def esize : Expr → Nat
  | .num _ => 1
  | .var _ _ => 1
  | .str _ => 1
  | .call _ _ args => 1 + esizes args
  | .op1 _ _ a => 1 + esize a
  | .op2 _ _ a b => 1 + esize a + esize b
  | .op3 _ _ a b c => 1 + esize a + esize b + esize c
  | .opN _ _ args => 1 + esizes args
def esizes : List Expr → Nat
  | [] => 0
  | e :: es => esize e + esizes es
end

theorem wEs_append (o : Opts) (l1 l2 : List Expr) : wEs o (l1 ++ l2) = wEs o l1 ++ wEs o l2 := by
  induction l1 with
  | nil => simp [wEs]
  | cons a l ih => simp [wEs, ih]

theorem wNum_length_pos (o : Opts) (x : Dbl) : 1 ≤ (wNum o x).length := by
  unfold wNum
  split
  · split
    · split
      · split <;> simp
      · simp
    · simp
  · simp

mutual
theorem esize_le_length (o : Opts) : (e : Expr) → esize e ≤ (wE o e).length
  | .num x => by simp [esize, wE]; exact wNum_length_pos o x
  | .var _ _ => by simp [esize, wE]
  | .str _ => by simp [esize, wE]
  | .call _ _ args => by have := esizes_le_length o args; simp [esize, wE]; omega
  | .op1 _ _ a => by have := esize_le_length o a; simp [esize, wE]; omega
  | .op2 _ _ a b => by
    have := esize_le_length o a; have := esize_le_length o b; simp [esize, wE]; omega
  | .op3 _ _ a b c => by
    have := esize_le_length o a; have := esize_le_length o b; have := esize_le_length o c
    simp [esize, wE]; omega
  | .opN _ _ args => by have := esizes_le_length o args; simp [esize, wE]; omega
theorem esizes_le_length (o : Opts) : (es : List Expr) → esizes es ≤ (wEs o es).length
  | [] => by simp [esizes, wEs]
  | e :: es => by
    have := esize_le_length o e; have := esizes_le_length o es; simp [esizes, wEs]; omega
end

end MpVerif.C03

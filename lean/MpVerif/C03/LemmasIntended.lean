import MpVerif.C03.ModelIntended
import MpVerif.C03.LemmasNum
/-! # C03 — `events` (what the reader is proved to deliver) equals `intended` (what the property demands), up to the sign of
zero, outside the two exception classes -/
namespace MpVerif.C03
open MpVerif.Gen.OpcodesW

/-- the number hypotheses: what comes back for a written double is the double, up to the sign of zero -/
structure NumOK (cd : Codec) (o : Opts) : Prop where
  rd : ∀ x, (cd.rd x).normZero = x.normZero
  nv : ∀ x, (numVal cd o x).normZero = x.normZero
  vb : ∀ x, (cd.vb x).normZero = x.normZero

theorem isZero_of_nz {a b : Dbl} (h : a.normZero = b.normZero) : a.isZero = b.isZero := by
  unfold Dbl.normZero at h
  cases ha : a.isZero <;> cases hb : b.isZero <;> simp [ha, hb] at h ⊢
  · subst h; simp [Dbl.isZero, Dbl.zero] at ha
  · subst h; simp [Dbl.isZero, Dbl.zero] at hb

theorem neZero_of_nz {a b : Dbl} (h : a.normZero = b.normZero) : a.neZero = b.neZero := by
  simp [Dbl.neZero, isZero_of_nz h]

section
variable {cd : Codec} {o : Opts} (ok : NumOK cd o) (nv : Nat)
include ok

theorem plVals_nz : ∀ l : List Expr, (plVals cd o l).map Dbl.normZero = (plNumbers l).map Dbl.normZero
  | [] => by simp [plVals, plNumbers]
  | .num x :: r => by simp [plVals, plNumbers, ok.nv x, plVals_nz r]
  | .var _ _ :: r => by simpa [plVals, plNumbers] using plVals_nz r
  | .str _ :: r => by simpa [plVals, plNumbers] using plVals_nz r
  | .call _ _ _ :: r => by simpa [plVals, plNumbers] using plVals_nz r
  | .op1 _ _ _ :: r => by simpa [plVals, plNumbers] using plVals_nz r
  | .op2 _ _ _ _ :: r => by simpa [plVals, plNumbers] using plVals_nz r
  | .op3 _ _ _ _ _ :: r => by simpa [plVals, plNumbers] using plVals_nz r
  | .opN _ _ _ :: r => by simpa [plVals, plNumbers] using plVals_nz r

mutual
theorem hE_mE : (e : Expr) → ∀ md : Mode, (hE cd o nv md e).nz = (mE nv md e).nz
  | .num x => by
    intro md
    by_cases hm : md = .log
    · have hz := isZero_of_nz (ok.nv x)
      simp [hE, mE, hm, HE.nz, HE.nzs, Dbl.neZero, hz]
      cases x.isZero <;> simp
    · simp [hE, mE, hm, HE.nz, HE.nzs, ok.nv x]
  | .var i d => by intro md; simp [hE, mE, refHE]
  | .str s => by intro md; simp [hE, mE]
  | .call f d args => by
    intro md
    have := hEs_mEs args .sym 0
    simp [hE, mE, HE.nz, this]
  | .op1 oc d a => by
    intro md
    cases hw : writerInfo oc with
    | none => simp [hE, mE, hw]
    | some p =>
      obtain ⟨k, cls⟩ := p
      have i1 := hE_mE a .num
      have i2 := hE_mE a .log
      cases cls <;> simp [hE, mE, hw, opShape, fixedArity, opNode, HE.nz, HE.nzs, i1, i2]
  | .op2 oc d a b => by
    intro md
    cases hw : writerInfo oc with
    | none => simp [hE, mE, hw]
    | some p =>
      obtain ⟨k, cls⟩ := p
      have a1 := hE_mE a .num
      have a2 := hE_mE a .log
      have b1 := hE_mE b .num
      have b2 := hE_mE b .log
      cases cls <;> simp [hE, mE, hw, opShape, fixedArity, opNode, HE.nz, HE.nzs, a1, a2, b1, b2]
  | .op3 oc d a b c => by
    intro md
    cases hw : writerInfo oc with
    | none => simp [hE, mE, hw]
    | some p =>
      obtain ⟨k, cls⟩ := p
      have a2 := hE_mE a .log
      have b1 := hE_mE b .num
      have b2 := hE_mE b .log
      have b3 := hE_mE b .sym
      have c1 := hE_mE c .num
      have c2 := hE_mE c .log
      have c3 := hE_mE c .sym
      cases cls <;> simp [hE, mE, hw, opShape, fixedArity, opNode, HE.nz, HE.nzs, a2, b1, b2, b3, c1, c2, c3]
  | .opN oc d args => by
    intro md
    cases hw : writerInfo oc with
    | none => simp [hE, mE, hw]
    | some p =>
      obtain ⟨k, cls⟩ := p
      have s1 := hEs_mEs args .num 0
      have s2 := hEs_mEs args .log 0
      have s3 := hEs_mEs args .sym 0
      have hp := plVals_nz ok args.dropLast
      cases cls <;> simp [hE, mE, hw, opShape, isIterated, opNode, HE.nz, HE.nzs, s1, s2, s3, hp, refHE]
      rfl
theorem hEs_mEs : (es : List Expr) → ∀ (md : Mode) (i : Nat),
    HE.nzs (hEs cd o nv md es) = HE.nzs (mEs nv (fun _ => md) i es)
  | [] => by intro md i; simp [hEs, mEs, HE.nzs]
  | e :: es => by
    intro md i
    simp [hEs, mEs, HE.nzs, hE_mE e md, hEs_mEs es md (i + 1)]
end

theorem hTop_mTop (e : Expr) : (hTop cd o nv e).nz = (mTop nv e).nz := by
  cases e with
  | num x =>
    have hz := isZero_of_nz (ok.nv x)
    simp only [hTop, mTop, hz]
    split
    · rfl
    · simp [HE.nz, HE.nzs, ok.nv x]
  | var i d => simpa [hTop, mTop] using hE_mE ok nv (.var i d) .num
  | str s => simpa [hTop, mTop] using hE_mE ok nv (.str s) .num
  | call f d a => simpa [hTop, mTop] using hE_mE ok nv (.call f d a) .num
  | op1 oc d a => simpa [hTop, mTop] using hE_mE ok nv (.op1 oc d a) .num
  | op2 oc d a b => simpa [hTop, mTop] using hE_mE ok nv (.op2 oc d a b) .num
  | op3 oc d a b c => simpa [hTop, mTop] using hE_mE ok nv (.op3 oc d a b c) .num
  | opN oc d a => simpa [hTop, mTop] using hE_mE ok nv (.opN oc d a) .num

/-! ## items -/
omit ok in
theorem evFuncs_eq : ∀ (l : List Func) (i : Nat), evFuncs i l = inFuncs i l
  | [], _ => rfl
  | f :: r, i => by simp [evFuncs, inFuncs, evFuncs_eq r (i + 1)]

omit ok in
theorem evSparseI_eq : ∀ l : List (Nat × Int), evSparseI l = l.map fun p => Ev.svalI p.1 p.2
  | [] => rfl
  | (i, v) :: r => by simp [evSparseI, evSparseI_eq r]

theorem evSparseD_nz (mk : Nat → Dbl → Ev) (hmk : ∀ i x y, x.normZero = y.normZero → (mk i x).nz = (mk i y).nz) :
    ∀ l : List (Nat × Dbl), (evSparseD cd mk l).map Ev.nz = (inSparse mk l).map Ev.nz
  | [] => rfl
  | (i, x) :: r => by
    have ih := evSparseD_nz mk hmk r
    simp only [inSparse] at ih ⊢
    simp [evSparseD, hmk i _ _ (ok.rd x), ih]

omit ok in
theorem nz_mk_simp : (∀ i x y, x.normZero = y.normZero → (Ev.svalD i x).nz = (Ev.svalD i y).nz) ∧
    (∀ i x y, x.normZero = y.normZero → (Ev.x0 i x).nz = (Ev.x0 i y).nz) ∧
    (∀ i x y, x.normZero = y.normZero → (Ev.d0 i x).nz = (Ev.d0 i y).nz) ∧
    (∀ i x y, x.normZero = y.normZero → (Ev.cterm i x).nz = (Ev.cterm i y).nz) ∧
    (∀ i x y, x.normZero = y.normZero → (Ev.jterm i x).nz = (Ev.jterm i y).nz) ∧
    (∀ i x y, x.normZero = y.normZero → (Ev.gterm i x).nz = (Ev.gterm i y).nz) := by
  refine ⟨?_, ?_, ?_, ?_, ?_, ?_⟩ <;> intro i x y h <;> simp [Ev.nz, h]

theorem evSuffix_nz (s : Suffix) : (evSuffix cd s).map Ev.nz = (inSuffix s).map Ev.nz := by
  unfold evSuffix inSuffix
  cases hv : s.vals with
  | ints l =>
    cases l with
    | nil => simp
    | cons a r => simp [evSparseI_eq, Ev.nz]
  | dbls l =>
    cases l with
    | nil => simp
    | cons a r =>
      have := evSparseD_nz ok Ev.svalD nz_mk_simp.1 (a :: r)
      simp only [inSparse] at this
      simp [Ev.nz, this]

theorem evSuffixes_nz : ∀ l : List Suffix, (evSuffixes cd l).map Ev.nz = (l.flatMap inSuffix).map Ev.nz
  | [] => rfl
  | s :: r => by simp [evSuffixes, List.flatMap_cons, evSuffix_nz ok s, evSuffixes_nz r]

omit ok in
theorem nz_of_ieeeEq {L U : Dbl} (h : L.ieeeEq U = true) : L.normZero = U.normZero := by
  simp only [Dbl.ieeeEq, Bool.and_eq_true, Bool.or_eq_true, beq_iff_eq] at h
  rcases h.2 with h1 | h2
  · rw [h1]
  · simp [Dbl.normZero, h2.1, h2.2]

omit ok in
theorem nz_negInf : Dbl.negInf.normZero = Dbl.negInf := by decide
omit ok in
theorem nz_posInf : Dbl.posInf.normZero = Dbl.posInf := by decide

/-- one bound line, outside the exception class -/
theorem evBnd_nz (isCon : Bool) (i : Nat) (L U : Dbl) (hL : L.leNegMax = true → L = Dbl.negInf) (hU : U.geMax = true → U = Dbl.posInf) :
    (evBnd cd isCon i L U 0 0).nz = (if isCon then Ev.cb i L U else Ev.vb i L U).nz := by
  unfold evBnd
  by_cases h1 : L.leNegMax = true
  · have := hL h1; subst this
    by_cases h2 : U.geMax = true
    · have := hU h2; subst this
      cases isCon <;> simp [h1, h2]
    · cases isCon <;> simp [h1, h2, Ev.nz, ok.rd U]
  · by_cases h2 : U.geMax = true
    · have := hU h2; subst this
      cases isCon <;> simp [h1, h2, Ev.nz, ok.rd L]
    · by_cases h3 : L.ieeeEq U = true
      · have e := nz_of_ieeeEq h3
        cases isCon <;> simp [h1, h2, h3, Ev.nz, ok.rd L, e]
      · cases isCon <;> simp [h1, h2, h3, Ev.nz, ok.rd L, ok.rd U]

theorem evVarBnds_nz : ∀ (l : List (Dbl × Dbl)) (i : Nat),
    (l.all fun p => (!p.1.leNegMax || p.1 == Dbl.negInf) && (!p.2.geMax || p.2 == Dbl.posInf)) = true →
    (evVarBnds cd i l).map Ev.nz = (inVarBounds i l).map Ev.nz
  | [], _, _ => rfl
  | (a, b) :: r, i, h => by
    simp only [List.all_cons, Bool.and_eq_true, Bool.or_eq_true, Bool.not_eq_true', beq_iff_eq] at h
    have hL : a.leNegMax = true → a = Dbl.negInf := fun e => by
      cases h.1.1 with
      | inl q => simp [e] at q
      | inr q => exact q
    have hU : b.geMax = true → b = Dbl.posInf := fun e => by
      cases h.1.2 with
      | inl q => simp [e] at q
      | inr q => exact q
    have e1 := evBnd_nz ok false i a b hL hU
    have ih := evVarBnds_nz r (i + 1) h.2
    simp at e1
    simp [evVarBnds, inVarBounds, e1, ih]

theorem evConBnds_nz : ∀ (l : List ConBnd) (i : Nat) (nvv : Nat),
    (l.all fun b => b.k != 0 || ((!b.L.leNegMax || b.L == Dbl.negInf) && (!b.U.geMax || b.U == Dbl.posInf))) = true →
    cbOk nvv l = true →
    (evConBnds cd i l).map Ev.nz = (inConBounds i l).map Ev.nz
  | [], _, _, _, _ => rfl
  | b :: r, i, nvv, h, hc => by
    simp only [List.all_cons, Bool.and_eq_true, Bool.or_eq_true, Bool.not_eq_true', beq_iff_eq, bne_iff_ne, ne_eq] at h
    simp [cbOk] at hc
    have ih := evConBnds_nz r (i + 1) nvv h.2 hc.2
    by_cases hk : b.k = 0
    · have x : (b.L.leNegMax = false ∨ b.L = Dbl.negInf) ∧ (b.U.geMax = false ∨ b.U = Dbl.posInf) := by
        cases h.1 with
        | inl q => exact absurd hk q
        | inr q => exact q
      have hL : b.L.leNegMax = true → b.L = Dbl.negInf := fun e => by
        cases x.1 with
        | inl q => simp [e] at q
        | inr q => exact q
      have hU : b.U.geMax = true → b.U = Dbl.posInf := fun e => by
        cases x.2 with
        | inl q => simp [e] at q
        | inr q => exact q
      have e1 := evBnd_nz ok true i b.L b.U hL hU
      simp at e1
      have e2 : evBnd cd true i b.L b.U 0 b.cvar = evBnd cd true i b.L b.U 0 0 := by simp [evBnd]
      simp [evConBnds, inConBounds, hk, e2, e1, ih]
    · have hk3 : b.k ≤ 3 := by
        cases hc.1 with
        | inl q => exact absurd q hk
        | inr q => exact q.1
      have : b.k % 4 = b.k := by omega
      simp [evConBnds, inConBounds, evBnd, hk, this, ih]

theorem evInit_nz (mk : Nat → Dbl → Ev) (hmk : ∀ i x y, x.normZero = y.normZero → (mk i x).nz = (mk i y).nz)
    (x : Option (List (Nat × Dbl))) : (evInit cd mk x).map Ev.nz = (inInit mk x).map Ev.nz := by
  cases x with
  | none => rfl
  | some l => simpa [evInit, inInit] using evSparseD_nz ok mk hmk l

theorem evDefVars_nz (pos : Nat) : ∀ l : List DefVar,
    (evDefVars cd o nv pos l).map Ev.nz = (inDefVars nv pos l).map Ev.nz
  | [] => rfl
  | d :: r => by
    have ih := evDefVars_nz pos r
    have e := evSparseD_nz ok Ev.cterm nz_mk_simp.2.2.2.1 d.lin
    simp only [inDefVars] at ih ⊢
    simp [evDefVars, evDefVar, inDefVar, List.flatMap_cons, Ev.nz, e, hE_mE ok nv d.e .num, ih]

theorem evACons_nz : ∀ (l : List (List DefVar × Con)) (i : Nat),
    (evACons cd o nv i l).map Ev.nz = (inCons nv i l).map Ev.nz
  | [], _ => rfl
  | (dvs, c) :: r, i => by
    simp [evACons, inCons, evDefVars_nz ok nv (i + 1) dvs, Ev.nz, hTop_mTop ok nv c.e, evACons_nz r (i + 1)]

theorem evLCons_nz (nac : Nat) : ∀ (l : List (List DefVar × Con)) (j : Nat),
    (evLCons cd o nv nac j l).map Ev.nz = (inLCons nv nac j l).map Ev.nz
  | [], _ => rfl
  | (dvs, c) :: r, j => by
    simp [evLCons, inLCons, evDefVars_nz ok nv (nac + j + 1) dvs, Ev.nz, hE_mE ok nv c.e .log, evLCons_nz nac r (j + 1)]

theorem evObjs_nz (ncon : Nat) (h : Hdr) : ∀ (l : List (List DefVar × Obj)) (i : Nat), objsOk h l = true →
    (evObjs cd o nv ncon i l).map Ev.nz = (inObjs nv ncon i l).map Ev.nz
  | [], _, _ => rfl
  | (dvs, ob) :: r, i, hok => by
    simp [objsOk] at hok
    have ht : (if ob.type ≠ 0 then 1 else 0) = ob.type := by have := hok.1.2; split <;> omega
    simp [evObjs, inObjs, evDefVars_nz ok nv (ncon + i + 1) dvs, Ev.nz, hTop_mTop ok nv ob.e, ht, evObjs_nz ncon h r (i + 1) hok.2]

theorem evLin_nz (beg : Nat → Nat → Ev) (mk : Nat → Dbl → Ev) (hb : ∀ i n, (beg i n).nz = beg i n)
    (hmk : ∀ i x y, x.normZero = y.normZero → (mk i x).nz = (mk i y).nz) (i : Nat) (l : List (Nat × Dbl)) (rest : List Ev) :
    (evLin cd beg mk i l).map Ev.nz ++ rest = (inRows beg mk i [l]).map Ev.nz ++ rest := by
  cases l with
  | nil => simp [evLin, inRows]
  | cons a r =>
    have := evSparseD_nz ok mk hmk (a :: r)
    simp [evLin, inRows, hb, this]

theorem evJ_nz : ∀ (l : List (List DefVar × Con)) (i : Nat),
    (evJ cd i l).map Ev.nz = (inRows Ev.jbeg Ev.jterm i (l.map (·.2.lin))).map Ev.nz
  | [], _ => rfl
  | (dvs, c) :: r, i => by
    have ih := evJ_nz r (i + 1)
    cases hl : c.lin with
    | nil => simp [evJ, evLin, inRows, hl, ih]
    | cons a t =>
      have := evSparseD_nz ok Ev.jterm nz_mk_simp.2.2.2.2.1 (a :: t)
      simp [evJ, evLin, inRows, hl, Ev.nz, this, ih]

theorem evG_nz : ∀ (l : List (List DefVar × Obj)) (i : Nat),
    (evG cd i l).map Ev.nz = (inRows Ev.gbeg Ev.gterm i (l.map (·.2.lin))).map Ev.nz
  | [], _ => rfl
  | (dvs, c) :: r, i => by
    have ih := evG_nz r (i + 1)
    cases hl : c.lin with
    | nil => simp [evG, evLin, inRows, hl, ih]
    | cons a t =>
      have := evSparseD_nz ok Ev.gterm nz_mk_simp.2.2.2.2.2 (a :: t)
      simp [evG, evLin, inRows, hl, Ev.nz, this, ih]

/-! ## header -/
omit ok in
theorem vbtol_cond (h : Hdr) (hlen : h.opts.length = 9) :
    ((h.opts.take h.nopts ++ hdr0.opts.drop (h.opts.take h.nopts).length)[1]? = some (3 : Int) ∧ h.opts[1]? = some (3 : Int)) ↔
    (h.nopts ≥ 2 ∧ h.opts[1]? = some (3 : Int)) := by
  match hq : h.opts, hlen with
  | [a0, a1, a2, a3, a4, a5, a6, a7, a8], _ =>
    match hn : h.nopts with
    | 0 => simp [hdr0]
    | 1 => simp [hdr0]
    | n + 2 => simp

theorem header_nz (h : Hdr) (hlen : h.opts.length = 9) (hext : h.flags ≠ 0 ∨ h.arith ≠ 0) :
    (Ev.header (readBackHdr cd h o)).nz = (Ev.header (intendedHdr h o)).nz := by
  have hc := vbtol_cond h hlen
  by_cases hv : (h.nopts ≥ 2 ∧ h.opts[1]? = some (3 : Int))
  · have hv' := hc.mpr hv
    simp only [Ev.nz, readBackHdr, intendedHdr]
    rw [if_pos hv', if_pos hv]
    simp [hext, ok.vb h.vbtol]
  · have hv' : ¬ _ := fun e => hv (hc.mp e)
    simp only [Ev.nz, readBackHdr, intendedHdr]
    rw [if_neg hv', if_neg hv]
    simp [hext]

end

/-- **`events` is `intended`** (up to the sign of zero) for every model satisfying the feeder contract that is outside the two
    exception classes, whenever written numbers come back as themselves up to the sign of zero -/
theorem events_intended (cd : Codec) (m : Model) (o : Opts) (ok : NumOK cd o) (hwf : wellFormed m o = true)
    (hne : noException m = true) : (events cd m o).map Ev.nz = (intended m o).map Ev.nz := by
  simp only [wellFormed, Bool.and_eq_true, decide_eq_true_eq] at hwf
  obtain ⟨⟨⟨⟨⟨⟨⟨⟨⟨⟨⟨⟨⟨⟨⟨⟨⟨⟨⟨hh, hbin⟩, hcs⟩, hfl⟩, hfo⟩, hsu⟩, hpl⟩, hvbl⟩, hcbl⟩, hcbo⟩, hx0⟩, hd0⟩, hdv0⟩, hacl⟩, haco⟩,
    hlcl⟩, hlco⟩, hobl⟩, hobo⟩, hcsl⟩ := hwf
  simp only [noException, Bool.and_eq_true, decide_eq_true_eq] at hne
  obtain ⟨⟨hvq, hcq⟩, hext⟩ := hne
  have hh' := hh
  simp only [hdrOk, Bool.and_eq_true, decide_eq_true_eq] at hh'
  have hlen : (effHdr m).opts.length = 9 := hh'.1.1.1.1.1.2
  have hhd := header_nz (o := o) ok (effHdr m) hlen hext
  have e1 := evFuncs_eq m.funcs 0
  have e2 := evSuffixes_nz ok m.sufs
  have e3 := evSuffixes_nz ok (plsosSuffixes m)
  have e4 := evVarBnds_nz ok m.vb 0 hvq
  have e5 := evConBnds_nz ok m.cb 0 m.hdr.nv hcq hcbo
  have e6 := evInit_nz ok Ev.x0 nz_mk_simp.2.1 m.x0
  have e7 := evInit_nz ok Ev.d0 nz_mk_simp.2.2.1 m.d0
  have e8 := evDefVars_nz ok m.hdr.nv 0 m.dv0
  have e9 := evACons_nz ok m.hdr.nv m.cons 0
  have e10 := fun nac => evLCons_nz ok m.hdr.nv nac m.lcons 0
  have e11 := fun ncon => evObjs_nz ok m.hdr.nv ncon m.hdr m.objs 0 hobo
  have e12 := evJ_nz ok m.cons 0
  have e13 := evG_nz ok m.objs 0
  have hcsz : (o.colSizes = 1 ∨ o.colSizes = 2) ↔ ¬ o.colSizes = 0 := by omega
  simp only [events, intended, evBody, intendedBody, List.map_cons, List.map_append, hhd, List.flatMap_append, evColSizes]
  cases hbf : o.boundsFirst <;> by_cases hnac : m.hdr.nac = 0 <;> by_cases hc0 : o.colSizes = 0 <;>
    simp [hbf, hnac, hc0, hcsz, e1, e2, e3, e4, e5, e6, e7, e8, e9, e10, e11, e12, e13, List.map_append, Ev.nz]

end MpVerif.C03

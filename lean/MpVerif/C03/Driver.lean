import MpVerif.C03.ModelSpec
import MpVerif.C03.ModelIntText
import Std.Data.HashMap
/-! Line driver for C03.  Input: the model / run lines printed by harness/h_nlw2.cc (without the "M " prefix).
    For every `run` line it prints `== <case> <run args> wf=<bool>` followed by the canonical lines of
    `readTokens (writeNL m o)` (the composed model of writer and reader) and a line `spec-agree <bool>` telling
    whether that equals `events m o` (theorem C03_roundtrip says it must for well-formed models).
    No model logic here: parsing of the line protocol and calls of model functions only. -/
open MpVerif.C03 MpVerif.Gen.OpcodesW

def hexVal (c : Char) : Option Nat :=
  if '0' ≤ c ∧ c ≤ '9' then some (c.toNat - 48)
  else if 'a' ≤ c ∧ c ≤ 'f' then some (c.toNat - 87) else none

def parseHexNat (s : String) : Option Nat :=
  s.toList.foldl (fun acc c => match acc, hexVal c with | some a, some d => some (a * 16 + d) | _, _ => none) (some 0)

def parseDbl (s : String) : Option Dbl := if s.length = 16 then (parseHexNat s).map Dbl.ofBits else none

def parseHexStr (s : String) : Option String :=
  match s.toList with
  | 'x' :: cs =>
    let rec go : List Char → List Char → Option (List Char)
      | [], acc => some acc.reverse
      | a :: b :: r, acc => match hexVal a, hexVal b with
        | some x, some y => go r (Char.ofNat (x * 16 + y) :: acc)
        | _, _ => none
      | _, _ => none
    (go cs []).map String.ofList
  | _ => none

abbrev P (α : Type) := List String → Option (α × List String)

def pNat : P Nat | s :: r => s.toNat?.map (·, r) | [] => none
def pInt : P Int | s :: r => s.toInt?.map (·, r) | [] => none
def pDbl : P Dbl | s :: r => (parseDbl s).map (·, r) | [] => none
def pStr : P String | s :: r => (parseHexStr s).map (·, r) | [] => none

def pRep (p : P α) : Nat → P (List α)
  | 0, ts => some ([], ts)
  | n + 1, ts => do
    let (a, ts) ← p ts
    let (l, ts) ← pRep p n ts
    some (a :: l, ts)

def pSparseD : P (List (Nat × Dbl)) := fun ts => do
  let (n, ts) ← pNat ts
  pRep (fun ts => do let (i, ts) ← pNat ts; let (x, ts) ← pDbl ts; some ((i, x), ts)) n ts
def pSparseI : P (List (Nat × Int)) := fun ts => do
  let (n, ts) ← pNat ts
  pRep (fun ts => do let (i, ts) ← pNat ts; let (x, ts) ← pInt ts; some ((i, x), ts)) n ts

def opCode (name : String) : Option Nat := (writerOps.find? (fun e => e.1 == name)).map (·.2.1)

partial def pExpr : P Expr
  | "n" :: ts => do let (x, ts) ← pDbl ts; some (.num x, ts)
  | "v" :: ts => do let (i, ts) ← pNat ts; let (d, ts) ← pStr ts; some (.var i d, ts)
  | "s" :: ts => do let (s, ts) ← pStr ts; some (.str s, ts)
  | "f" :: ts => do
    let (f, ts) ← pNat ts; let (n, ts) ← pNat ts; let (d, ts) ← pStr ts
    let (as, ts) ← pRep pExpr n ts
    some (.call f d as, ts)
  | "o1" :: nm :: ts => do
    let oc ← opCode nm; let (d, ts) ← pStr ts; let (a, ts) ← pExpr ts
    some (.op1 oc d a, ts)
  | "o2" :: nm :: ts => do
    let oc ← opCode nm; let (d, ts) ← pStr ts; let (a, ts) ← pExpr ts; let (b, ts) ← pExpr ts
    some (.op2 oc d a b, ts)
  | "o3" :: nm :: ts => do
    let oc ← opCode nm; let (d, ts) ← pStr ts; let (a, ts) ← pExpr ts; let (b, ts) ← pExpr ts; let (c, ts) ← pExpr ts
    some (.op3 oc d a b c, ts)
  | "oN" :: nm :: ts => do
    let oc ← opCode nm; let (n, ts) ← pNat ts; let (d, ts) ← pStr ts
    let (as, ts) ← pRep pExpr n ts
    some (.opN oc d as, ts)
  | _ => none

structure Builder where
  id : String := "?"
  m : Model := { hdr := {} }
  dvs : Array (Int × DefVar) := #[]
  cons : Array Con := #[]
  lcons : Array Con := #[]
  objs : Array Obj := #[]
  bad : Bool := false

def Builder.assemble (b : Builder) : Model :=
  let pick := fun (k : Int) => (b.dvs.toList.filter (fun p => p.1 == k)).map (·.2)
  let nac := b.cons.size
  { b.m with
    dv0 := pick 0
    cons := (List.range b.cons.size).map fun (i : Nat) => (pick ((i : Int) + 1), b.cons[i]!)
    lcons := (List.range b.lcons.size).map fun (i : Nat) => (pick ((nac : Int) + i + 1), b.lcons[i]!)
    objs := (List.range b.objs.size).map fun (i : Nat) => (pick (-(i : Int) - 1), b.objs[i]!) }

def parseHdr (ts : List String) : Option Hdr := do
  let (nopts, ts) ← pNat ts
  let (opts, ts) ← pRep pInt 9 ts
  let (vb, ts) ← pDbl ts
  let (pn, ts) ← pStr ts
  let (f, ts) ← pRep pNat 39 ts
  if ts ≠ [] then none else
  let g := fun i => f.getD i 0
  some { format := 0, nopts := nopts, opts := opts, vbtol := vb, probName := pn,
         nv := g 0, nac := g 1, no := g 2, nr := g 3, ne := g 4, nlc := g 5,
         nrandv := g 6, nrandce := g 7, nrandc := g 8, nrando := g 9, nrandcalls := g 10, nstages := g 11,
         nnlc := g 12, nnlo := g 13, ncc := g 14, nnlcc := g 15, ncdi := g 16, ncnz := g 17,
         nnnc := g 18, nlnc := g 19, nlvc := g 20, nlvo := g 21, nlvb := g 22, nlnv := g 23, nf := g 24,
         arith := g 25, flags := g 26, nlbv := g 27, nliv := g 28, nnlib := g 29, nnlic := g 30, nnlio := g 31,
         nzc := g 32, nzo := g 33, ceb := g 34, cec := g 35, ceo := g 36, cesc := g 37, ceso := g 38 }

def pNames (ts : List String) : Option (List String) := do
  let (n, ts) ← pNat ts
  let (l, ts) ← pRep pStr n ts
  if ts ≠ [] then none else some l

def step (b : Builder) (toks : List String) : Option Builder :=
  match toks with
  | ["case", id] => some { id := id }
  | ["arith", a] => do let a ← a.toNat?; some { b with m := { b.m with hdr := { b.m.hdr with arith := a } } }
  | "hdr" :: ts => do let h ← parseHdr ts; some { b with m := { b.m with hdr := h } }
  | ["func", ty, na, nm] => do
    let t ← ty.toNat?; let n ← na.toInt?; let s ← parseHexStr nm
    some { b with m := { b.m with funcs := b.m.funcs ++ [⟨s, n, t⟩] } }
  | "isuf" :: k :: nm :: ts => do
    let k ← k.toNat?; let s ← parseHexStr nm; let (l, r) ← pSparseI ts
    if r ≠ [] then none else some { b with m := { b.m with sufs := b.m.sufs ++ [⟨s, k, .ints l⟩] } }
  | "dsuf" :: k :: nm :: ts => do
    let k ← k.toNat?; let s ← parseHexStr nm; let (l, r) ← pSparseD ts
    if r ≠ [] then none else some { b with m := { b.m with sufs := b.m.sufs ++ [⟨s, k, .dbls l⟩] } }
  | "sosv" :: ts => do let (l, r) ← pSparseI ts; if r ≠ [] then none else some { b with m := { b.m with sosv := l } }
  | "sosc" :: ts => do let (l, r) ← pSparseI ts; if r ≠ [] then none else some { b with m := { b.m with sosc := l } }
  | "sosref" :: ts => do let (l, r) ← pSparseD ts; if r ≠ [] then none else some { b with m := { b.m with sosref := l } }
  | ["vb", l, u] => do let l ← parseDbl l; let u ← parseDbl u; some { b with m := { b.m with vb := b.m.vb ++ [(l, u)] } }
  | ["cb", l, u, k, cv] => do
    let l ← parseDbl l; let u ← parseDbl u; let k ← k.toNat?; let cv ← cv.toNat?
    some { b with m := { b.m with cb := b.m.cb ++ [⟨l, u, k, cv⟩] } }
  | "x0" :: ts => do let (l, r) ← pSparseD ts; if r ≠ [] then none else some { b with m := { b.m with x0 := some l } }
  | "d0" :: ts => do let (l, r) ← pSparseD ts; if r ≠ [] then none else some { b with m := { b.m with d0 := some l } }
  | "dv" :: key :: idx :: d :: ts => do
    let key ← key.toInt?; let idx ← idx.toNat?; let d ← parseHexStr d
    let (lin, ts) ← pSparseD ts; let (e, r) ← pExpr ts
    if r ≠ [] then none else some { b with dvs := b.dvs.push (key, ⟨idx, d, lin, e⟩) }
  | "con" :: d :: ts => do
    let d ← parseHexStr d; let (lin, ts) ← pSparseD ts; let (e, r) ← pExpr ts
    if r ≠ [] then none else some { b with cons := b.cons.push ⟨d, lin, e⟩ }
  | "lcon" :: d :: ts => do
    let d ← parseHexStr d; let (e, r) ← pExpr ts
    if r ≠ [] then none else some { b with lcons := b.lcons.push ⟨d, [], e⟩ }
  | "obj" :: ty :: d :: ts => do
    let ty ← ty.toNat?; let d ← parseHexStr d; let (lin, ts) ← pSparseD ts; let (e, r) ← pExpr ts
    if r ≠ [] then none else some { b with objs := b.objs.push ⟨ty, d, lin, e⟩ }
  | "cs" :: ts => do
    let (n, ts) ← pNat ts; let (l, r) ← pRep pNat n ts
    if r ≠ [] then none else some { b with m := { b.m with colsz := l } }
  | "rown" :: ts => do let l ← pNames ts; some { b with m := { b.m with rowNames := l } }
  | "coln" :: ts => do let l ← pNames ts; some { b with m := { b.m with colNames := l } }
  | "unvn" :: ts => do let l ← pNames ts; some { b with m := { b.m with unvNames := l } }
  | "fixn" :: ts => do let l ← pNames ts; some { b with m := { b.m with fixNames := l } }
  | _ => none

/-- the codec the correspondence runs with: text reads back a written double with the sign of zero dropped
    (`g_fmt` prints "0" for -0) and otherwise unchanged — the hypothesis the harness tests on the real
    `g_fmt`→`strtod`; binary is the identity.  `vb` is supplied by the harness per run (it is `strtod(printf("%.17g"))`, plain libc). -/
def runCodec (binary : Bool) (vbBack : Dbl) : Codec :=
  ⟨if binary then id else Dbl.normZero, fun _ => vbBack⟩

/-- which arm of the model a token / a handler node comes from (statistics only) -/
def tokKey : Tok → String
  | .ch t => s!"tok:ch:{t.toChar}{if t == .fmtB || t == .segb then (if t == .fmtB then "(fmt)" else "(seg)") else ""}"
  | .bt n => s!"tok:bound-type:{n}"
  | .int _ => "tok:int" | .dbl _ => "tok:dbl" | .sh _ => "tok:short" | .lg _ => "tok:long" | .name _ => "tok:name"
  | .holl _ => "tok:hollerith" | .vbt _ => "tok:vbtol" | .cmt _ => "tok:comment" | .eol => "tok:eol"

partial def heKeys : HE → List String
  | .null => ["he:null"]
  | .node tag _ _ _ kids => s!"he:{tag}" :: kids.flatMap heKeys

def evKeys : Ev → List String
  | .header h => ["ev:header", s!"hdr:nlc{if h.nlc = 0 then "=0" else ">0"}", s!"hdr:ncc{if h.ncc = 0 then "=0" else ">0"}",
                  s!"hdr:flags{h.flags}:arith{h.arith}", s!"hdr:nopts{if h.nopts < 2 then "<2" else ">=2"}"]
  | .cend _ _ e => "ev:cend" :: heKeys e
  | .acon _ e => "ev:acon" :: heKeys e
  | .lcon _ e => "ev:lcon" :: heKeys e
  | .obj _ _ e => "ev:obj" :: heKeys e
  | .func .. => ["ev:func"] | .isuf .. => ["ev:isuf"] | .dsuf .. => ["ev:dsuf"] | .svalI .. => ["ev:svalI"] | .svalD .. => ["ev:svalD"]
  | .vb .. => ["ev:vb"] | .cb .. => ["ev:cb"] | .compl .. => ["ev:compl"] | .x0 .. => ["ev:x0"] | .d0 .. => ["ev:d0"]
  | .cbeg .. => ["ev:cbeg"] | .cterm .. => ["ev:cterm"] | .csz => ["ev:csz"] | .cadd .. => ["ev:cadd"]
  | .jbeg .. => ["ev:jbeg"] | .jterm .. => ["ev:jterm"] | .gbeg .. => ["ev:gbeg"] | .gterm .. => ["ev:gterm"] | .endInput => ["ev:end"]

def bump (st : IO.Ref (Std.HashMap String Nat)) (ks : List String) : IO Unit :=
  st.modify fun m => ks.foldl (fun m k => m.insert k (m.getD k 0 + 1)) m

def doRun (st : IO.Ref (Std.HashMap String Nat)) (b : Builder) (args : List String) (out : IO.FS.Stream) : IO Unit := do
  match args with
  | [fmt, c, bf, cs, rf, vbs] =>
    match fmt.toNat?, c.toNat?, bf.toNat?, cs.toNat?, rf.toNat?, parseDbl vbs with
    | some fmt, some c, some bf, some cs, some rf, some vbBack =>
      let o : Opts := ⟨fmt == 1, c == 1, bf == 1, cs⟩
      let m0 := b.assemble
      let m := { m0 with hdr := { m0.hdr with format := fmt } }
      let cd := runCodec o.binary vbBack
      out.putStrLn s!"== {b.id} {fmt} {c} {bf} {cs} {rf} wf={wellFormed m o} quirkfree={quirkFree cd m}"
      let toks := writeNL m o
      bump st (toks.map tokKey)
      bump st [s!"opt:binary={o.binary}", s!"opt:comments={o.comments}", s!"opt:boundsFirst={o.boundsFirst}", s!"opt:colSizes={o.colSizes}",
               s!"reader:flags={rf}", s!"model:wf={wellFormed m o}"]
      match (if rf == 0 then readTokens cd toks else readTokensBF cd toks) with
      | .ok evs =>
        bump st (evs.flatMap evKeys)
        for e in evs do out.putStrLn e.toLine
        let spec := ((if rf == 0 then events cd m o else eventsBF cd m o)).map Ev.toLine
        out.putStrLn s!"spec-agree {decide (spec = evs.map Ev.toLine)}"
      | .error e => out.putStrLn s!"read-error {repr e}"
    | _, _, _, _, _, _ => out.putStrLn "bad-op"
  | _ => out.putStrLn "bad-op"

partial def loop (st : IO.Ref (Std.HashMap String Nat)) (h : IO.FS.Stream) (out : IO.FS.Stream) (b : Builder) : IO Unit := do
  let line ← h.getLine
  if line.isEmpty then
    for (k, v) in (← st.get).toList do out.putStrLn s!"#stat {k} {v}"
    return ()
  let toks := (line.trimAscii.toString.splitOn " ").filter (· ≠ "")
  match toks with
  | "run" :: args =>
    if b.bad then out.putStrLn "bad-op" else doRun st b args out
    loop st h out b
  | ["gint", v] =>
    match v.toInt? with
    | some i => out.putStrLn s!"#gint {v} {(gfmtInt i).render} {(Dbl.ofInt (strtodInt (gfmtInt i))).hex}"
    | none => out.putStrLn "#gint bad-op"
    loop st h out b
  | [] => loop st h out b
  | _ =>
    match step b toks with
    | some b' => loop st h out b'
    | none =>
      out.putStrLn s!"bad-op {toks.headD ""}"
      loop st h out { b with bad := true }

def main : IO Unit := do
  let out ← IO.getStdout
  let st ← IO.mkRef ({} : Std.HashMap String Nat)
  loop st (← IO.getStdin) out {}

/-! Line driver for C03 (stub; replaced when the model is written). -/
def main : IO Unit := pure ()

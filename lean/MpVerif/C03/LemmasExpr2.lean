import MpVerif.C03.LemmasExpr
/-! # C03 — expression round trip: `readE (wE e ++ rest) = (hE e, rest)` by induction over the expression tree -/
namespace MpVerif.C03
open MpVerif.Gen.OpcodesW

/-! ## dispatch lemmas (generic in the recursive reader `rd`) -/

theorem read2_ok {tag : String} {ks : List Nat} {r1 r2 : List Tok → R HE} {t1 mid rest : List Tok} {A B : HE}
    (h1 : r1 t1 = .ok (A, mid)) (h2 : r2 mid = .ok (B, rest)) :
    read2 tag ks r1 r2 t1 = .ok (.node tag ks [] "" [A, B], rest) := by
  simp [read2, h1, h2]

theorem read3_ok {tag : String} {r1 r2 r3 : List Tok → R HE} {t1 m1 m2 rest : List Tok} {A B C : HE}
    (h1 : r1 t1 = .ok (A, m1)) (h2 : r2 m1 = .ok (B, m2)) (h3 : r3 m2 = .ok (C, rest)) :
    read3 tag r1 r2 r3 t1 = .ok (.node tag [] [] "" [A, B, C], rest) := by
  simp [read3, h1, h2, h3]

theorem readIterWith_ok {tag : String} {ks : List Nat} {mn n : Nat} {rdA : List Tok → R HE} {body rest : List Tok}
    {As : List HE} (hn : mn ≤ n) (h : readArgsWith rdA n body = .ok (As, rest)) :
    readIterWith tag ks mn rdA (.int (n : Int) :: .eol :: body) = .ok (.node tag (ks ++ [n]) [] "" As, rest) := by
  have : ¬ n < mn := by omega
  simp [readIterWith, readNumArgs, this, h]

theorem readCountWith_ok {n : Nat} {rdA : List Tok → R HE} {body rest : List Tok}
    {As : List HE} (hn : 1 ≤ n) (h : readArgsWith rdA n body = .ok (As, rest)) :
    readCountWith rdA (.int (n : Int) :: .eol :: body) = .ok (.node "cnt" [n] [] "" As, rest) := by
  have : ¬ n < 1 := by omega
  simp [readCountWith, readNumArgs, this, h]

theorem readNumberOfWith_ok {tag : String} {n : Nat} {rdA : List Tok → R HE} {body mid rest : List Tok}
    {A0 : HE} {As : List HE} (h0 : rdA body = .ok (A0, mid)) (h : readArgsWith rdA n mid = .ok (As, rest)) :
    readNumberOfWith tag rdA (.int ((n : Int) + 1) :: .eol :: body) = .ok (.node tag [n + 1] [] "" (A0 :: As), rest) := by
  have e : ((n : Int) + 1) = ((n + 1 : Nat) : Int) := by simp
  unfold readNumberOfWith readNumArgs
  rw [e, readUInt_nat]
  simp [h0, h]

theorem readRef_ok {nv nve i : Nat} (hi : i < nve) (o : Opts) (d : String) (rest : List Tok) :
    readRef nv nve (.int (i : Int) :: (cmtEol o d ++ rest)) = .ok (refHE nv i, rest) := by
  simp [readRef, readUIntLt, hi, refHE]

/-! ## opening an operator in each mode -/
section
variable (c : RCtx) (o : Opts)

theorem readE_op_numeric {oc k : Nat} {cls : OpClass} (hok : OpOK oc k cls) {md : Mode} (hmd : md ≠ .log)
    (hcls : cls ≠ .ifSym) (f : Nat) (d : String) (body : List Tok) :
    readE c (f + 1) md (.ch .exO :: .int (oc : Int) :: (cmtEol o d ++ body)) = readNumOp c (readE c f) oc body := by
  have hne : (oc : Int) ≠ ifsymOpcode := fun h => hcls (hok.ifsym.mpr h)
  cases md with
  | log => exact absurd rfl hmd
  | num => simp [readE, readNumCode, readOpCode_ok hok.le]
  | sym => simp [readE, readOpCode_ok hok.le, hne]

theorem readE_op_logical {oc k : Nat} {cls : OpClass} (hok : OpOK oc k cls) (f : Nat) (d : String) (body : List Tok) :
    readE c (f + 1) .log (.ch .exO :: .int (oc : Int) :: (cmtEol o d ++ body)) = readLogOp (readE c f) oc body := by
  simp [readE, readOpCode_ok hok.le]

theorem readE_op_ifsym {oc k : Nat} (hok : OpOK oc k .ifSym) (f : Nat) (d : String) (body : List Tok) :
    readE c (f + 1) .sym (.ch .exO :: .int (oc : Int) :: (cmtEol o d ++ body)) =
      read3 "ifs" (readE c f .log) (readE c f .sym) (readE c f .sym) body := by
  have he : (oc : Int) = ifsymOpcode := hok.ifsym.mp rfl
  simp only [readE]
  rw [readOpCode_ok hok.le]
  simp [he]

theorem ne_log_of {md : Mode} (h : (md != Mode.log) = true) : md ≠ .log := by
  cases md <;> simp_all

/-! ## piecewise-linear terms -/

theorem plLoop (cd : Codec) : ∀ (n : Nat) (l : List Expr), allNum l = true → l.length = 2 * n + 1 → ∀ rest,
    ∃ ps s mid, readPLPairs cd n (wEs o l ++ rest) = .ok (ps, mid) ∧ readConstantC cd mid = .ok (s, rest) ∧
      ps ++ [s] = plVals cd o l := by
  intro n
  induction n with
  | zero =>
    intro l hl hlen rest
    match l, hl, hlen with
    | [.num x], _, _ =>
      exact ⟨[], numVal cd o x, wEs o [.num x] ++ rest, by simp [readPLPairs],
        by simpa [wEs, wE] using readConstantC_wNum cd o x rest, by simp [plVals]⟩
  | succ n ih =>
    intro l hl hlen rest
    match l, hl, hlen with
    | .num x :: .num y :: l', hl, hlen =>
      have hl' : allNum l' = true := by simpa [allNum, isNum] using hl
      have hlen' : l'.length = 2 * n + 1 := by simp at hlen; omega
      obtain ⟨ps, s, mid, h1, h2, h3⟩ := ih l' hl' hlen' rest
      refine ⟨numVal cd o x :: numVal cd o y :: ps, s, mid, ?_, h2, by simp [plVals, h3]⟩
      have e1 := readConstantC_wNum cd o x (wNum o y ++ (wEs o l' ++ rest))
      have e2 := readConstantC_wNum cd o y (wEs o l' ++ rest)
      simp [wEs, wE, readPLPairs, e1, e2, h1]
    | .var _ _ :: _, hl, _ => simp [allNum, isNum] at hl
    | .str _ :: _, hl, _ => simp [allNum, isNum] at hl
    | .call _ _ _ :: _, hl, _ => simp [allNum, isNum] at hl
    | .op1 _ _ _ :: _, hl, _ => simp [allNum, isNum] at hl
    | .op2 _ _ _ _ :: _, hl, _ => simp [allNum, isNum] at hl
    | .op3 _ _ _ _ _ :: _, hl, _ => simp [allNum, isNum] at hl
    | .opN _ _ _ :: _, hl, _ => simp [allNum, isNum] at hl
    | [.num _], _, hlen => simp at hlen
    | .num _ :: .var _ _ :: _, hl, _ => simp [allNum, isNum] at hl
    | .num _ :: .str _ :: _, hl, _ => simp [allNum, isNum] at hl
    | .num _ :: .call _ _ _ :: _, hl, _ => simp [allNum, isNum] at hl
    | .num _ :: .op1 _ _ _ :: _, hl, _ => simp [allNum, isNum] at hl
    | .num _ :: .op2 _ _ _ _ :: _, hl, _ => simp [allNum, isNum] at hl
    | .num _ :: .op3 _ _ _ _ _ :: _, hl, _ => simp [allNum, isNum] at hl
    | .num _ :: .opN _ _ _ :: _, hl, _ => simp [allNum, isNum] at hl
    | [], _, hlen => simp at hlen

end
end MpVerif.C03

import MpVerif.C03.LemmasMain
import MpVerif.C03.LemmasNum
import MpVerif.C03.LemmasGen
import MpVerif.C03.LemmasIntended
import MpVerif.C03.LemmasIntText
import MpVerif.C03.LemmasCongr
import MpVerif.C03.LemmasBF
/-!
# C03 — NL writer output is read back as the same model (text = binary)

Property theorems only.  Model: `ModelWrite.lean` (`NLWriter2::WriteNL`, nl-writer2.hpp/.cc), `ModelRead.lean`
(`TextReader::ReadHeader`, `NLReader::Read`, nl-reader.h / nl-reader.cc), `ModelSpec.lean` (what a fed model means,
the feeder contract `wellFormed`).  The opcode tables in `MpVerif/Gen/OpcodesW.lean` are regenerated from
nl-opcodes.h, src/expr-info.cc and common.h on every run.

Full-strength statement of the property (NOT provable for the code as it is — see the counterexamples below):

    theorem C03_roundtrip_full (cd : Codec) (hcd : ∀ x, (cd.rd x).normZero = x.normZero) (m : Model) (o : Opts)
        (hwf : feeder contract) : readTokens cd (writeNL m o) = .ok (intended m o)   -- every item, every number as fed

What is proved instead: `C03_roundtrip` — the reader returns exactly `events cd m o` — and `C03_events_eq_intended`:
`events` equals the independently written `intended m o` (ModelIntended.lean: every item, operator and number as fed) up
to the sign of zero, so that `events` differs from "as fed" in two places only (a bound equal to ∓DBL_MAX is returned as ∓∞; a text header with
`flags = 0 ∧ arith_kind = 0` reads back the constructor defaults), each with a proved counterexample and a `…_partial`
theorem for its complement.  Both are open known findings.

Fixed in ampl/mp since the first version of this check (and restated at full strength here): `ampl_vbtol` is written
with `%.17g` (fe95054) and now round-trips modulo the number codec `cd.vb` (`C03_vbtol_roundtrip`); an `int` suffix value
INT_MIN is printed correctly in text (f881e91), so `wellFormed` no longer restricts suffix values and `C03_roundtrip`
covers them (`C03_int_suffix_any_value`); a call without arguments no longer trips an assertion (150e7c0) and is covered
by `C03_expr_roundtrip` (`C03_call_zero_args`).
-/
namespace MpVerif.C03
open MpVerif.Gen.OpcodesW

/-! ## opcode tables (writer nl-opcodes.h, reader src/expr-info.cc, NL grammar) -/

/-- every writer constant `mp::nl::NAME = {code, …}` is decoded by the reader as `expr::NAME`, with the argument
    shape the NL grammar gives that operator; the reader's inverse table maps it back; `decide` over the whole table -/
theorem C03_opcode_tables_agree : tablesAgree = true := by decide

/-- every opcode the reader decodes to an operator is one the writer can emit -/
theorem C03_reader_opcodes_covered : readerCovered = true := by decide

/-- what the round trip uses, per opcode, derived from the generated tables -/
theorem C03_opcode_facts {oc k : Nat} {cls : OpClass} (h : writerInfo oc = some (k, cls)) : OpOK oc k cls :=
  opOK_of_writerInfo h

/-! ## expressions: every opcode, every arity, every nesting -/

/-- an expression fed through `ExprWriter` (any tree over `NPut`/`VPut`/`StrPut`/`FuncPut`/`OPut1/2/3/N` that obeys the
    NL grammar), written in text or binary and followed by anything, is read back by `ReadNumericExpr` /
    `ReadLogicalExpr` / `ReadSymbolicExpr` as exactly the handler tree it stands for, consuming exactly its tokens.
    Induction over the expression tree (mutual with argument lists). -/
theorem C03_expr_roundtrip (c : RCtx) (o : Opts) (e : Expr) (md : Mode) (f : Nat) (rest : List Tok)
    (hwf : wfE ⟨c.nve, c.nf⟩ md e = true) (hf : esize e ≤ f) :
    readE c f md (wE o e ++ rest) = .ok (hE c.cd o c.nv md e, rest) :=
  readE_wE c o e md f rest hwf hf

/-! ## header -/

/-- `ReadHeader (WriteNLHeader h)` rebuilds `readBackHdr h` (all ten lines, optional fields included) -/
theorem C03_header_roundtrip (cd : Codec) (o : Opts) (h : Hdr) (rest : List Tok) (hok : hdrOk h = true) :
    readHeader cd (wHeader h o ++ rest) = .ok (readBackHdr cd h o, rest) :=
  readHeader_wHeader cd o h rest hok

/-! ## the whole file -/

/-- **Round trip.**  For every model satisfying the feeder contract, every writer option (text/binary, comments,
    bounds first/last, column sizes none/cumulative/plain) and every number codec, the reader's notifications for the
    written file are exactly `events cd m o`. -/
theorem C03_roundtrip (cd : Codec) (m : Model) (o : Opts) (hwf : wellFormed m o = true) :
    readTokens cd (writeNL m o) = .ok (events cd m o) :=
  roundtrip cd m o hwf

/-- **Round trip with the reader flag `READ_BOUNDS_FIRST`** (the two passes of `NLReader::Read()`: a first pass that forwards only
    `OnVarBounds` and stops after the `b` segment, a second pass that jumps over it): for every well-formed model and every
    writer option the handler is told the header, then the variable bounds, then everything else in file order. -/
theorem C03_roundtrip_bounds_first (cd : Codec) (m : Model) (o : Opts) (hwf : wellFormed m o = true) :
    readTokensBF cd (writeNL m o) = .ok (eventsBF cd m o) :=
  roundtrip_bounds_first cd m o hwf

/-- with and without the flag the handler is told the same things; only the position of the variable bounds differs -/
theorem C03_bounds_first_same_notifications (cd : Codec) (m : Model) (o : Opts) :
    events cd m o = Ev.header (readBackHdr cd (effHdr m) o) :: (evPre cd m o ++ (evVarBnds cd 0 m.vb ++ (evPost cd m o ++ [Ev.endInput]))) ∧
    eventsBF cd m o = Ev.header (readBackHdr cd (effHdr m) o) :: (evVarBnds cd 0 m.vb ++ (evPre cd m o ++ (evPost cd m o ++ [Ev.endInput]))) := by
  exact ⟨by rw [events, eventsBF_perm], rfl⟩

/-! ## `events` is what the property demands: `intended` (ModelIntended.lean), written from the property text -/

/-- **The "two places only" sentence as a theorem.**  For every model satisfying the feeder contract that is outside the two
    documented exception classes (`noException`: no bound equal to ∓DBL_MAX on its infinite side; `flags ≠ 0 ∨ arith_kind ≠ 0`),
    and whenever a written number comes back as itself up to the sign of zero (`NumOK`), what the reader is proved to deliver is
    `intended m o` — every item and every operator as fed — up to the sign of zero. -/
theorem C03_events_eq_intended (cd : Codec) (m : Model) (o : Opts) (ok : NumOK cd o) (hwf : wellFormed m o = true)
    (hne : noException m = true) : (events cd m o).map Ev.nz = (intended m o).map Ev.nz :=
  events_intended cd m o ok hwf hne

/-- binary: in the token model the reader's `ReadDouble` returns the writer's double unchanged — that is the model's *definition*
    of "the same 8 bytes, native byte order" (`idCodec`), not a theorem about bytes; what is proved is that `nput`'s short/long
    packing and the `(double)(int)` conversion are exact, so `NumOK` holds for every `Dbl` -/
theorem C03_numok_binary (o : Opts) (hb : o.binary = true) : NumOK idCodec o :=
  ⟨fun _ => rfl, fun x => numVal_binary_exact' x o hb, fun _ => rfl⟩

/-- what the binary format copies — the 64-bit pattern — determines the double (the driver reads doubles as bit patterns with
    `Dbl.ofBits`; this links the printed/compared hex words to the `Dbl` values the theorems speak about) -/
theorem C03_binary_bits_roundtrip (x : Dbl) (hx : x.Valid) : Dbl.ofBits x.toBits = x := ofBits_toBits x hx

/-- **Binary round trip, as fed, with no hypothesis on numbers**: reading what was written in binary delivers exactly
    `intended m o` up to the sign of zero (outside the two exception classes). -/
theorem C03_roundtrip_binary_as_fed (m : Model) (o : Opts) (hb : o.binary = true) (hwf : wellFormed m o = true)
    (hne : noException m = true) :
    ∃ evs, readTokens idCodec (writeNL m o) = .ok evs ∧ evs.map Ev.nz = (intended m o).map Ev.nz :=
  ⟨_, roundtrip idCodec m o hwf, events_intended idCodec m o (C03_numok_binary o hb) hwf hne⟩

/-- **Text round trip, as fed — PARTIAL**: under the hypothesis that `strtod (g_fmt x)` and `strtod (printf "%.17g" x)` return `x`
    up to the sign of zero.  The hypothesis is tested on every run and is KNOWN TO BE FALSE for the real `g_fmt` on doubles whose
    upper rounding boundary is (within 1/64 ulp of) a short decimal — open finding `codec:boundary-tie-round-trip`, e.g.
    4611686018999999488 → "4.611686019e+18" → 4611686019000000512; for integer-valued doubles below 10^15 see
    `C03_roundtrip_int_text_as_fed`. -/
theorem C03_roundtrip_text_as_fed_partial (cd : Codec) (hrd : ∀ x, (cd.rd x).normZero = x.normZero)
    (hvb : ∀ x, (cd.vb x).normZero = x.normZero) (m : Model) (o : Opts) (ht : o.binary = false)
    (hwf : wellFormed m o = true) (hne : noException m = true) :
    ∃ evs, readTokens cd (writeNL m o) = .ok evs ∧ evs.map Ev.nz = (intended m o).map Ev.nz :=
  ⟨_, roundtrip cd m o hwf,
    events_intended cd m o ⟨hrd, fun x => numVal_text_exact cd hrd x o ht, hvb⟩ hwf hne⟩

/-- **text = binary for whole models — PARTIAL (same codec hypothesis for the text side)**: the same model written as text and
    as binary with the same other options is reported identically up to the sign of zero, except for the header's format and
    arith-kind fields -/
theorem C03_text_eq_binary_partial (cd : Codec) (hrd : ∀ x, (cd.rd x).normZero = x.normZero)
    (hvb : ∀ x, (cd.vb x).normZero = x.normZero) (m : Model) (ot ob : Opts) (ht : ot.binary = false) (hb : ob.binary = true)
    (hbf : ot.boundsFirst = ob.boundsFirst) (hcs : ot.colSizes = ob.colSizes)
    (hwt : wellFormed m ot = true) (hwb : wellFormed m ob = true) (hne : noException m = true) :
    ((events cd m ot).map Ev.nz).tail = ((events idCodec m ob).map Ev.nz).tail := by
  rw [events_intended cd m ot ⟨hrd, fun x => numVal_text_exact cd hrd x ot ht, hvb⟩ hwt hne,
      events_intended idCodec m ob (C03_numok_binary ob hb) hwb hne]
  simp [intended, intendedBody, hbf, hcs]

/-! ## numbers -/

/-- `BinaryFormatter::nput` chooses `s` + int16 for integers in [-32768, 32767], `l` + int32 for the other integers in
    [-2^31, 2^31-1], and `n` + the 8 bytes otherwise (`toInt?` = "x is finite and integer valued") -/
theorem C03_nput_packing (x : Dbl) (o : Opts) (hb : o.binary = true) :
    (∀ v, x.toInt? = some v → -32768 ≤ v → v ≤ 32767 → wNum o x = [.ch .exS, .sh v, .eol]) ∧
    (∀ v, x.toInt? = some v → -2147483648 ≤ v → v ≤ 2147483647 → ¬ (-32768 ≤ v ∧ v ≤ 32767) → wNum o x = [.ch .exL, .lg v, .eol]) ∧
    (∀ v, x.toInt? = some v → ¬ (-2147483648 ≤ v ∧ v ≤ 2147483647) → wNum o x = [.ch .exN, .dbl x, .eol]) ∧
    (x.toInt? = none → wNum o x = [.ch .exN, .dbl x, .eol]) := by
  refine ⟨?_, ?_, ?_, ?_⟩
  · intro v h h1 h2
    have : -2147483648 ≤ v ∧ v ≤ 2147483647 := by omega
    simp [wNum, hb, h, this, h1, h2]
  · intro v h h1 h2 h3
    simp [wNum, hb, h, h1, h2, h3]
  · intro v h h1
    simp [wNum, hb, h, h1]
  · intro h
    simp [wNum, hb, h]

/-- **`nput` is exact** (a theorem over all doubles, hence all integers): what `ReadConstant` returns for what the binary
    `nput` wrote is the double itself up to the sign of zero — `(double)(short)v`, `(double)(int)v` rebuild the bit pattern
    of every integer-valued double that passed the `(long)x == x` test -/
theorem C03_nput_exact (x : Dbl) (hx : x.Valid) (o : Opts) (hb : o.binary = true) :
    (numVal idCodec o x).normZero = x.normZero :=
  numVal_binary_exact x hx o hb

/-- `(double)v` of the integer value `v` of a double is that double: the conversion lemma behind `C03_nput_exact` -/
theorem C03_int_double_exact (x : Dbl) (hx : x.Valid) (v : Int) (h : x.toInt? = some v) :
    (Dbl.ofInt v).normZero = x.normZero :=
  ofInt_toInt x hx v h

/-- one number, text vs binary: under the hypothesis that `strtod (g_fmt x)` is `x` up to the sign of zero (tested, not
    proved — and known to FAIL for the real `g_fmt` on doubles whose upper rounding boundary is a short decimal, open
    finding `codec:boundary-tie-round-trip`, e.g. 4611686018999999488), the value reported for a constant written in text equals the one reported for binary, up to the sign of zero -/
theorem C03_number_text_eq_binary (cd : Codec) (hcd : ∀ x, (cd.rd x).normZero = x.normZero) (x : Dbl) (hx : x.Valid)
    (ot ob : Opts) (ht : ot.binary = false) (hb : ob.binary = true) :
    (numVal cd ot x).normZero = (numVal idCodec ob x).normZero := by
  rw [numVal_text_exact cd hcd x ot ht, numVal_binary_exact x hx ob hb]

/-- arithmetic of the integer text path (a lemma about the *model* `gfmtInt`/`strtodInt`, for every non-zero integer): the digits
    without trailing zeros, times the power of ten that either layout encodes, are the integer again; and converting back gives
    the double it came from.  By itself this says nothing about the real `g_fmt`/`strtod`: that `gfmtInt v` is the text `g_fmt`
    prints and `ofInt (strtodInt …)` the double `strtod` returns is compared on every run for `|v| < 10^15` (harness lines `Z`),
    and enters the theorems only through `FollowsIntPath` below. -/
theorem C03_int_text_path (x : Dbl) (v : Int) (h : x.toInt? = some v) (hv : v ≠ 0) :
    strtodInt (gfmtInt v) = v ∧ (Dbl.ofInt (strtodInt (gfmtInt v))).normZero = x.normZero := by
  have e := strtod_gfmt_int v hv
  exact ⟨e, by rw [e]; exact ofInt_toInt' x v h⟩

/-- **Integer-data models in text format, connected to the token reader**: let the codec be *any* function that, on integer data
    (±0, ±∞, non-zero integers below 10^15), follows the proved path (`FollowsIntPath`: `0` ↦ 0, `±Infinity` ↦ itself,
    integer `v` ↦ `(double) strtodInt (gfmtInt v)`) — nothing is assumed about other doubles, so the known-false boundary cases
    are not covered by the hypothesis.  Then for every well-formed model outside the two exception classes all of whose numbers
    are integer data, `readTokens cd (writeNL m o)` is `intended m o` up to the sign of zero.  (`NumOK` is not assumed: it is
    derived for the path codec, and `events` is shown to depend on the codec only at the model's numbers.) -/
theorem C03_roundtrip_int_text_as_fed (cd : Codec) (hf : FollowsIntPath cd) (m : Model) (o : Opts) (ht : o.binary = false)
    (hwf : wellFormed m o = true) (hne : noException m = true) (hint : AllNums IntData m)
    (hvb : (cd.vb m.hdr.vbtol).normZero = m.hdr.vbtol.normZero) :
    ∃ evs, readTokens cd (writeNL m o) = .ok evs ∧ evs.map Ev.nz = (intended m o).map Ev.nz :=
  roundtrip_int_text cd hf m o ht hwf hne hint hvb

/-- `events` depends on the codec only at the numbers the model contains -/
theorem C03_events_codec_local {P : Dbl → Prop} {cd cd' : Codec} (hrd : ∀ x, P x → cd.rd x = cd'.rd x) (m : Model) (o : Opts)
    (hvb : cd.vb m.hdr.vbtol = cd'.vb m.hdr.vbtol) (h : AllNums P m) : events cd m o = events cd' m o :=
  events_congr hrd m o hvb h

/-! ## where `events` is not "as fed": partial theorems and counterexamples -/

/-- bounds: unless the lower bound is exactly -DBL_MAX / the upper bound exactly +DBL_MAX, a bound line comes back as the
    pair that was fed (through the number codec; `L == U` pairs come back as `(L, L)`) -/
theorem C03_bounds_partial (cd : Codec) (isCon : Bool) (i : Nat) (L U : Dbl)
    (hL : L.leNegMax = true → L = Dbl.negInf) (hU : U.geMax = true → U = Dbl.posInf)
    (hinf : cd.rd Dbl.negInf = Dbl.negInf ∧ cd.rd Dbl.posInf = Dbl.posInf) :
    evBnd cd isCon i L U 0 0 =
      (if isCon then Ev.cb i (cd.rd L) (cd.rd (if L.ieeeEq U then L else U))
       else Ev.vb i (cd.rd L) (cd.rd (if L.ieeeEq U then L else U))) := by
  unfold evBnd
  by_cases h1 : L.leNegMax = true
  · have := hL h1; subst this
    by_cases h2 : U.geMax = true
    · have := hU h2; subst this
      cases isCon <;> simp [Dbl.leNegMax, Dbl.geMax, Dbl.negInf, Dbl.posInf, Dbl.ieeeEq, Dbl.isNaN, Dbl.isZero] at * <;> simp_all [Dbl.negInf, Dbl.posInf]
    · cases isCon <;> simp_all [Dbl.negInf, Dbl.ieeeEq, Dbl.isNaN, Dbl.isZero, Dbl.leNegMax] <;>
        (intro hc; rw [← hc] at h2; simp [Dbl.geMax] at h2)
  · by_cases h2 : U.geMax = true
    · have := hU h2; subst this
      cases isCon <;> simp_all [Dbl.posInf, Dbl.ieeeEq, Dbl.isNaN, Dbl.isZero, Dbl.geMax] <;>
        (intro hc; rw [hc] at h1; simp [Dbl.leNegMax] at h1)
    · by_cases h3 : L.ieeeEq U = true
      · cases isCon <;> simp [h1, h2, h3]
      · cases isCon <;> simp [h1, h2, h3]

/-- counterexample (found on the real code by the check: `bounds:dblmax-read-as-infinity`): the variable bound
    `[-DBL_MAX, 1]` is reported as `[-∞, 1]`, with an exact codec -/
theorem C03_counterexample_dblmax_bound :
    evBnd idCodec false 0 Dbl.negMaxFinite ⟨false, 1023, 0⟩ 0 0 = Ev.vb 0 Dbl.negInf ⟨false, 1023, 0⟩ ∧
    Dbl.negInf ≠ Dbl.negMaxFinite := by
  constructor
  · simp [evBnd, Dbl.negMaxFinite, Dbl.leNegMax, Dbl.geMax, idCodec]
  · decide

/-- header: with `flags ≠ 0 ∨ arith_kind ≠ 0` and an exact `%.17g` codec (`cd.vb x = x`) every header field the reader
    supports comes back as fed (format and, for text, arith kind are the written ones) -/
theorem C03_header_partial (cd : Codec) (h : Hdr) (o : Opts) (hf : h.flags ≠ 0 ∨ h.arith ≠ 0)
    (hvb : cd.vb h.vbtol = h.vbtol) (hn : 2 ≤ h.nopts) (hlen : h.opts.length = 9) (h3 : h.opts[1]? = some (3 : Int)) :
    (readBackHdr cd h o).flags = h.flags ∧ (readBackHdr cd h o).vbtol = h.vbtol ∧
    (readBackHdr cd h o).arith = (if o.binary then h.arith else 0) := by
  have h1 : (h.opts.take h.nopts ++ hdr0.opts.drop (h.opts.take h.nopts).length)[1]? = some (3 : Int) := by
    have : 1 < (h.opts.take h.nopts).length := by simp [List.length_take]; omega
    rw [List.getElem?_append_left this]
    simp [List.getElem?_take, h3]; omega
  refine ⟨by simp [readBackHdr, hf], ?_, by simp [readBackHdr, hf]⟩
  show (if _ ∧ _ then cd.vb h.vbtol else Dbl.zero) = h.vbtol
  rw [if_pos ⟨h1, h3⟩]; exact hvb

/-- counterexample (`hdr:flags-default-when-arith-unknown`): a text header with `flags = 0`, `arith_kind = 0`
    (the documented arith kind for text) is reported with `flags = 1` -/
theorem C03_counterexample_flags_default (cd : Codec) :
    (readBackHdr cd { flags := 0, arith := 0 } { binary := false }).flags = 1 := by
  simp [readBackHdr, hdr0]

/-- **vbtol round trip** (full strength since fe95054): whenever the header carries `ampl_vbtol`
    (`num_ampl_options ≥ 2`, `ampl_options[1] = 3`), the reader reports `cd.vb vbtol`, i.e. `strtod(printf("%.17g", vbtol))`;
    with an exact codec (tested by the harness with libc on every run) that is `vbtol` itself -/
theorem C03_vbtol_roundtrip (cd : Codec) (h : Hdr) (o : Opts) (hn : 2 ≤ h.nopts) (hlen : h.opts.length = 9)
    (h3 : h.opts[1]? = some (3 : Int)) :
    (readBackHdr cd h o).vbtol = cd.vb h.vbtol ∧ (cd.vb h.vbtol = h.vbtol → (readBackHdr cd h o).vbtol = h.vbtol) := by
  have h1 : (h.opts.take h.nopts ++ hdr0.opts.drop (h.opts.take h.nopts).length)[1]? = some (3 : Int) := by
    have : 1 < (h.opts.take h.nopts).length := by simp [List.length_take]; omega
    rw [List.getElem?_append_left this]
    simp [List.getElem?_take, h3]; omega
  have e : (readBackHdr cd h o).vbtol = cd.vb h.vbtol := by
    show (if _ ∧ _ then cd.vb h.vbtol else Dbl.zero) = cd.vb h.vbtol
    rw [if_pos ⟨h1, h3⟩]
  exact ⟨e, fun hv => by rw [e, hv]⟩

/-- **INT_MIN suffix values** (full strength since f881e91): an int suffix with *any* integer values, in text or binary,
    is read back value by value -/
theorem C03_int_suffix_any_value (o : Opts) (n : Nat) (l : List (Nat × Int)) (rest : List Tok) (h : sparseOk n l = true) :
    readSufI n l.length (wSparseI o l ++ rest) = .ok (evSparseI l, rest) :=
  readSufI_wSparseI o n l rest h

/-- **calls without arguments** (accepted by the writer since 150e7c0): `f<i> 0` is read back as a call with no arguments -/
theorem C03_call_zero_args (c : RCtx) (o : Opts) (fi : Nat) (d : String) (f : Nat) (rest : List Tok) (hfi : fi < c.nf) :
    readE c (f + 1) .num (wE o (.call fi d []) ++ rest) = .ok (.node "call" [fi, 0] [] "" [], rest) := by
  have hwf : wfE ⟨c.nve, c.nf⟩ .num (.call fi d []) = true := by simp [wfE, wfEs, hfi]
  have := readE_wE c o (.call fi d []) .num (f + 1) rest hwf (by simp [esize, esizes])
  simpa [hE, hEs] using this

/-! ## ties to the source: the hand model equals what the translator extracts from the current tree
(`MpVerif/Gen/C03Writer.lean`, regenerated on every run by `translators/gen_writer_c03.py` from clang's AST of
`NLWriter2::WriteNLHeader` / `WriteBndRangeOrCompl` and from the text of `nput`, `OPut*`, `ReadBounds`) -/
open MpVerif.Gen.C03Writer in
/-- **header layout**: the ten header-line functions of the model are the evaluation of the `Printf` statements of
    `WriteNLHeader` (which count on which line, in which order, under which condition, with which format), for every header
    and both formats.  Hence every theorem about `wHeader`/`writeNL` is a theorem about the extracted statements. -/
theorem C03_gen_header (h : Hdr) (o : Opts) : HStmt.toksL h o genHeader = wHeader h o := gen_header h o

open MpVerif.Gen.C03Writer in
/-- every header field the extracted statements mention is one the evaluator knows by name (its default `0` for unknown names
    is never used): a field added to or renamed in `WriteNLHeader` breaks this -/
theorem C03_gen_header_fields_known : (HStmt.fieldsL genHeader).all (fun n => knownFields.contains n) = true := by decide

open MpVerif.Gen.C03Writer in
/-- the header round trip, stated on the statements extracted from the source -/
theorem C03_gen_header_roundtrip (cd : Codec) (o : Opts) (h : Hdr) (rest : List Tok) (hok : hdrOk h = true) :
    readHeader cd (HStmt.toksL h o genHeader ++ rest) = .ok (readBackHdr cd h o, rest) := by
  rw [gen_header]; exact readHeader_wHeader cd o h rest hok

open MpVerif.Gen.C03Writer in
/-- **bounds-type decision**: `wBnd` is the evaluation of the if/?: tree of `WriteBndRangeOrCompl` (tests `k <= 0`,
    `L <= NegInfty()`, `U >= Infty()`, `L == U`; leaves = format and arguments), for all doubles and all k, cvar -/
theorem C03_gen_bounds (L U : Dbl) (k cvar : Nat) : bndTree.eval L U k cvar = wBnd L U k cvar := gen_bounds L U k cvar

open MpVerif.Gen.C03Writer in
/-- **binary `nput`**: the model's range test uses the two constants of the source, and the three branches start with the
    letters of the three formats of the source (`s%h`, `l%l`, `n%g`; text: `n%g\n`) -/
theorem C03_gen_nput (x : Dbl) (o : Opts) (hb : o.binary = true) :
    wNum o x =
      (match x.toInt? with
       | some v =>
         if nputLo ≤ v ∧ v ≤ nputHi then
           (if -32768 ≤ v ∧ v ≤ 32767 then [.ch .exS, .sh v, .eol] else [.ch .exL, .lg v, .eol])
         else [.ch .exN, .dbl x, .eol]
       | none => [.ch .exN, .dbl x, .eol]) ∧
    nputFmtShort = [.lit Tag.exS.toChar, .dShort] ∧ nputFmtLong = [.lit Tag.exL.toChar, .dLong] ∧
    nputFmtDbl = [.lit Tag.exN.toChar, .dDbl] ∧ nputFmtText = [.lit Tag.exN.toChar, .dDbl, .nl] := by
  refine ⟨?_, by decide, by decide, by decide, by decide⟩
  simp only [wNum, hb, if_true, nputLo, nputHi]
  rfl

open MpVerif.Gen.C03Writer in
/-- **operator emission**: `OPut1/2/3` return writers for 1/2/3 arguments after `o<opcode>`; `OPutN` writes the argument count on
    its own line, halved exactly for the opcode literal of the source, which is the PL-term opcode of the generated table;
    the model's `opN` case writes that count -/
theorem C03_gen_oput (o : Opts) (oc : Nat) (d : String) (args : List Expr) :
    oputFixed.map (·.2) = [1, 2, 3] ∧
    oputFixed.map (·.1) = [[.lit 'o', .dInt, .tab, .lit '#', .dStr, .nl], [.lit 'o', .dInt, .tab, .lit '#', .dStr, .nl],
                           [.lit 'o', .dInt, .tab, .lit '#', .dStr, .nl]] ∧
    oputN.1 = [.lit 'o', .dInt, .tab, .lit '#', .dStr, .nl] ∧ oputN.2.2.2 = [.dInt, .nl] ∧
    writerKind oputN.2.1 = some MpVerif.Gen.OpcodesW.kv_PLTERM ∧
    wE o (.opN oc d args) = [.ch .exO, .int oc] ++ cmtEol o d ++
      [.int (if oc = oputN.2.1 then args.length / oputN.2.2.1 else args.length), .eol] ++ wEs o args ∧
    funcPutFmt = [.lit 'f', .dInt, .sp, .dInt, .tab, .lit '#', .dStr, .nl] ∧
    vPutFmt = [.lit 'v', .dInt, .tab, .lit '#', .dStr, .nl] ∧ strPutFmt = [.lit 'h', .dInt, .lit ':', .dStr, .nl] := by
  refine ⟨by decide, by decide, by decide, by decide, by decide, ?_, by decide, by decide, by decide⟩
  simp only [wE, oputN]
  rfl

open MpVerif.Gen.C03Writer in
/-- **every `apr` format of the writer templates** (in source order) is one the model was written against: a changed, added
    or removed format string breaks this equality -/
theorem C03_gen_formats : aprFormats =
    ["F%d %d %d %s\n", "%d %d\n", "%d %g\n", "b\t#%d bounds (on variables)\n", "r\t#%d ranges (rhs's)\n",
     "3\n", "1 %.16g\n", "2 %.16g\n", "4 %.16g\n", "0 %.16g %.16g\n", "5 %d %d\n",
     "%c%d\t#%s\n", "%c%d\t#%s\n", "%c%d %d\t#%s\n",
     "k%d\t#intermediate Jacobian column lengths\n", "k%d\t#intermediate Jacobian column lengths (cumulative)\n",
     "K%d\t#intermediate Jacobian column lengths\n", "J%d %d\n", "G%d %d\n",
     "v%d\t#%s\n", "h%d:%s\n", "f%d %d\t#%s\n", "o%d\t#%s\n", "o%d\t#%s\n", "o%d\t#%s\n", "o%d\t#%s\n", "%d\n",
     "V%d %d %d\t#%s\n", "S%d %d %s\n", "S%d %d %s\n", "R%d\t# %s\n",
     "x%d\t# initial guess\n", "d%d\t# initial dual guess\n", "%z\n", "%d\n"] := by decide

open MpVerif.Gen.C03Writer in
/-- **the reader's inverse switch** (`NLReader::ReadBounds`): the digit selects, in this order, range / upper / lower / free /
    constant / complementarity, with lb and ub read or set to ∓∞ exactly as `readBndItems` does -/
theorem C03_gen_readBounds : readBounds =
    [("RANGE", "read", "read"), ("UPPER", "neg-inf", "read"), ("LOWER", "read", "pos-inf"), ("FREE", "neg-inf", "pos-inf"),
     ("CONSTANT", "read", "same-as-lb"), ("COMPL", "compl", "compl")] ∧ inftyIsDblMax = true := by decide

open MpVerif.Gen.C03Writer in
/-- **the reader's bound switch, semantically tied**: the model's `readBndItems` (the transcription of `NLReader::ReadBounds`) equals,
    for all inputs, the table-driven reader `readBndItemsG` run with the table the translator extracts from nl-reader.h
    (`enum BoundType` order = digit; per case where `lb`/`ub` come from, in which order; the complementarity case) -/
theorem C03_gen_readBounds_sem (cd : Codec) (h : Hdr) (isCon : Bool) (n i : Nat) (ts : List Tok) :
    readBndItems cd h isCon i n ts = readBndItemsG cd h isCon readBoundsTable i n ts :=
  gen_readBounds cd h isCon n i ts

open MpVerif.Gen.C03Writer in
/-- **bounds, both sides generated**: the reader's switch as extracted from nl-reader.h, run on the tokens the writer's decision
    tree as extracted from nl-writer2.hpp produces for one bound `(L, U, k, cvar)`, reports `evBnd` and continues — for all
    doubles, both item kinds, complementarity included -/
theorem C03_gen_bounds_roundtrip (cd : Codec) (h : Hdr) (isCon : Bool) (i n : Nat) (L U : Dbl) (k cvar : Nat) (rest : List Tok)
    (hk : k = 0 ∨ (isCon = true ∧ k ≤ 3 ∧ cvar < h.nv)) :
    readBndItemsG cd h isCon readBoundsTable i (n + 1) (bndTree.eval L U k cvar ++ rest) =
      (match readBndItemsG cd h isCon readBoundsTable (i + 1) n rest with
       | .error e => .error e
       | .ok (l, ts) => .ok (evBnd cd isCon i L U k cvar :: l, ts)) := by
  rw [gen_bounds, ← gen_readBounds, ← gen_readBounds]
  exact readBnd_one cd isCon i n L U k cvar rest hk

open MpVerif.Gen.C03Writer in
/-- **column sizes, reader tied**: the model's `readColItems` (the loop of `NLReader::ReadColumnSizes<CUMULATIVE>`) equals, for
    all inputs, the reader `readColItemsG` whose `if (CUMULATIVE)` block is the statement list the translator extracts from
    nl-reader.h (`size < prev` → error; `size -= prev`; `prev += size`) -/
theorem C03_gen_colsizes_reader (cum : Bool) (prev n : Nat) (ts : List Tok) :
    readColItems cum prev n ts = readColItemsG colCumStmts cum prev n ts :=
  gen_readColItems cum n prev ts

open MpVerif.Gen.C03Writer in
/-- **column sizes, writer tied**: the model's two item writers equal, for all size lists and running sums, `ColSizeWriter::Write`
    driven by the `switch (kind_)` cases the translator extracts from nl-writer2.h (kind 1: `sum_ += s` and prints `sum_`;
    kind 2: prints `s`) -/
theorem C03_gen_colsizes_writer (l : List Nat) (acc : Nat) :
    wColItemsCum acc l = wColItemsG colWriteCases 1 acc l ∧ wColItemsPlain l = wColItemsG colWriteCases 2 acc l :=
  ⟨gen_wColItems.1 l acc, gen_wColItems.2 l acc⟩

open MpVerif.Gen.C03Writer in
/-- **column sizes, both sides generated**: the reader with the extracted block, run on what the extracted writer cases print for
    any list of sizes, reports exactly these sizes (kind 1 read as `k`, kind 2 as `K`) and continues with the rest -/
theorem C03_gen_colsizes_roundtrip (l : List Nat) (acc : Nat) (rest : List Tok) :
    readColItemsG colCumStmts true acc l.length (wColItemsG colWriteCases 1 acc l ++ rest) = .ok (l.map Ev.cadd, rest) ∧
    readColItemsG colCumStmts false 0 l.length (wColItemsG colWriteCases 2 0 l ++ rest) = .ok (l.map Ev.cadd, rest) := by
  rw [← gen_wColItems.1 l acc, ← gen_wColItems.2 l 0, ← gen_readColItems, ← gen_readColItems]
  exact ⟨readCol_cum l acc rest, readCol_plain l rest⟩

/-! ## non-vacuity: the contract is satisfiable and the theorem computes -/

def exModel : Model :=
  { hdr := { nv := 2, nac := 1, no := 1, nlc := 1, nf := 1, ceb := 1, flags := 1, arith := 1 }
    funcs := [⟨"f", 2, 0⟩]
    sufs := [⟨"priority", 0, .ints [(1, 7), (0, -2147483648)]⟩, ⟨"ref", 4, .dbls [(0, ⟨false, 1023, 0⟩)]⟩]
    vb := [(Dbl.negInf, Dbl.posInf), (Dbl.zero, ⟨false, 1024, 0⟩)]
    cb := [⟨Dbl.zero, Dbl.zero, 0, 0⟩]
    x0 := some [(0, ⟨false, 1023, 0⟩)]
    dv0 := [⟨2, "t", [(0, ⟨false, 1023, 0⟩)], .op1 15 "abs" (.var 1 "y")⟩]
    cons := [([], ⟨"c", [(0, ⟨false, 1023, 0⟩)], .op2 0 "+" (.var 2 "t") (.call 0 "f" [.num ⟨true, 1022, 0⟩, .str "a b"])⟩)]
    lcons := [([], ⟨"l", [], .opN 70 "forall" [.op2 23 "<=" (.var 0 "x") (.num Dbl.zero), .num ⟨false, 1023, 0⟩, .op1 34 "!" (.num Dbl.zero)]⟩)]
    objs := [([], ⟨1, "o", [(1, ⟨false, 1024, 0⟩)], .opN 64 "pl" [.num ⟨false, 1023, 0⟩, .num Dbl.zero, .num ⟨false, 1024, 0⟩, .var 0 "x"]⟩)]
    colsz := [1] }

/-! non-trivial instances of every hypothesis used above -/
-- C03_opcode_facts: the hypothesis holds for every writer opcode, e.g.
example : writerInfo 0 = some (kv_ADD, .binary) ∧ writerInfo 64 = some (kv_PLTERM, .plterm) ∧ writerInfo 65 = some (kv_IFSYM, .ifSym) := by decide
-- C03_expr_roundtrip: grammar-conforming trees in each of the three positions (3 variables + 1 defined variable, 1 function)
example : wfE ⟨4, 1⟩ .num (.op2 0 "+" (.var 3 "t") (.call 0 "f" [.num ⟨true, 1022, 0⟩, .str "a b", .op3 65 "ifs" (.num Dbl.zero) (.str "x") (.var 0 "")])) = true := by decide
example : wfE ⟨4, 1⟩ .log (.op2 62 "atleast" (.num ⟨false, 1023, 0⟩) (.opN 59 "count" [.op2 23 "<=" (.var 0 "x") (.num Dbl.zero), .op1 34 "!" (.num Dbl.zero)])) = true := by decide
example : wfE ⟨4, 1⟩ .sym (.str "only a string") = true ∧ wfE ⟨4, 1⟩ .num (.str "s") = false ∧ wfE ⟨4, 1⟩ .log (.var 0 "") = false := by decide
example : wfE ⟨4, 1⟩ .num (.opN 64 "pl" [.num ⟨false, 1023, 0⟩, .num Dbl.zero, .num ⟨false, 1024, 0⟩, .var 0 "x"]) = true ∧
          wfE ⟨4, 1⟩ .num (.opN 64 "pl" [.num ⟨false, 1023, 0⟩, .var 0 "x"]) = false := by decide
-- C03_gen_bounds_roundtrip: both alternatives of the hypothesis occur (ordinary bound; complementarity on a constraint)
example : ((0 : Nat) = 0 ∨ (false = true ∧ 0 ≤ 3 ∧ 0 < 2)) ∧ ((2 : Nat) = 0 ∨ (true = true ∧ 2 ≤ 3 ∧ 1 < 2)) := by decide
-- C03_gen_colsizes_*: the extracted tables compute: sizes 2,0,3 are written cumulatively as 2,2,5 and read back; a decreasing offset is the reader's error
example : wColItemsG MpVerif.Gen.C03Writer.colWriteCases 1 0 [2, 0, 3] = [.int 2, .eol, .int 2, .eol, .int 5, .eol] ∧
          wColItemsG MpVerif.Gen.C03Writer.colWriteCases 2 0 [2, 0, 3] = [.int 2, .eol, .int 0, .eol, .int 3, .eol] ∧
          readColItemsG MpVerif.Gen.C03Writer.colCumStmts true 0 3 [.int 2, .eol, .int 2, .eol, .int 5, .eol] = .ok ([.cadd 2, .cadd 0, .cadd 3], []) ∧
          readColItemsG MpVerif.Gen.C03Writer.colCumStmts true 0 2 [.int 2, .eol, .int 1, .eol] = .error .invalidColOffset := ⟨rfl, rfl, rfl, rfl⟩
-- C03_header_roundtrip / C03_gen_header_roundtrip: headers with and without logical constraints, complementarity, vbtol
example : hdrOk exModel.hdr = true := by decide
example : hdrOk { nv := 3, nac := 2, nlc := 0, ncc := 2, nnlcc := 1, ncdi := 1, nopts := 2, opts := [0, 3, 0, 0, 0, 0, 0, 0, 0], flags := 0, arith := 0 } = true := by decide
-- C03_nput_packing / C03_nput_exact / C03_int_double_exact: valid doubles in each branch: 1 (short), 32768 (long), 2^31 (double), 0.5 (not an integer)
example : (⟨false, 1023, 0⟩ : Dbl).Valid ∧ (⟨false, 1023, 0⟩ : Dbl).toInt? = some 1 ∧ (⟨false, 1038, 0⟩ : Dbl).toInt? = some 32768 ∧
          (⟨true, 1054, 0⟩ : Dbl).toInt? = some (-2147483648) ∧ (⟨false, 1054, 0⟩ : Dbl).toInt? = some 2147483648 ∧
          (⟨false, 1022, 0⟩ : Dbl).toInt? = none ∧ (⟨false, 0, 5⟩ : Dbl).Valid := by decide
-- C03_number_text_eq_binary: the hypothesis on the codec is satisfiable (and is what g_fmt/strtod satisfy outside the boundary cases)
example : ∀ x : Dbl, ((⟨Dbl.normZero, id⟩ : Codec).rd x).normZero = x.normZero := by
  intro x; simp only [Dbl.normZero]; split <;> simp_all [Dbl.isZero, Dbl.zero]
-- C03_int_text_path: both layouts occur: 1234500 is printed plain, 12000000 as 1.2e+07, 100000 as 1e+05
example : gfmtInt 1234500 = .plain false [1, 2, 3, 4, 5] 2 ∧ gfmtInt 12000000 = .sci false [1, 2] 7 ∧ gfmtInt (-100000) = .sci true [1] 5 ∧
          (⟨false, 1043, 798537499541504⟩ : Dbl).toInt? = some 1234500 := by decide
-- C03_roundtrip_int_text_as_fed: the hypotheses are satisfiable: the path codec follows the path; a model with integer data
example : FollowsIntPath ⟨intPathRd, id⟩ := by
  refine ⟨?_, ?_, ?_⟩
  · intro x v h hv hr hz; simp [intPathRd, hz, h, hv, hr]
  · intro x hz; simp [intPathRd, hz]
  · intro x hi
    have hz : x.isZero = false := by
      simp only [Dbl.isInf, Bool.and_eq_true, beq_iff_eq] at hi
      simp [Dbl.isZero, hi.1]
    have ht : x.toInt? = none := by
      unfold Dbl.toInt?
      simp only [Dbl.isInf, Bool.and_eq_true, beq_iff_eq] at hi
      simp [hi.1, hi.2]
    simp [intPathRd, hz, ht]
def exIntModel : Model :=
  { hdr := { nv := 2, nac := 1, no := 0, flags := 1, arith := 1 }
    vb := [(Dbl.negInf, Dbl.posInf), (Dbl.zero, ⟨false, 1024, 0⟩)]
    cb := [⟨⟨true, 1025, 0⟩, ⟨false, 1043, 798537499541504⟩, 0, 0⟩]
    cons := [([], ⟨"c", [(0, ⟨false, 1023, 0⟩), (1, ⟨false, 1046, 1938851316629504⟩)], .op2 2 "*" (.var 0 "x") (.num ⟨false, 1024, 2251799813685248⟩)⟩)]
    colsz := [1] }
example : wellFormed exIntModel {} = true ∧ noException exIntModel = true := by decide
example : AllNums IntData exIntModel := by
  have i2 : IntData ⟨false, 1024, 0⟩ := Or.inr (Or.inr ⟨2, by decide, by decide, by decide⟩)
  have i3 : IntData ⟨false, 1024, 2251799813685248⟩ := Or.inr (Or.inr ⟨3, by decide, by decide, by decide⟩)
  have im4 : IntData ⟨true, 1025, 0⟩ := Or.inr (Or.inr ⟨-4, by decide, by decide, by decide⟩)
  have ib : IntData ⟨false, 1043, 798537499541504⟩ := Or.inr (Or.inr ⟨1234500, by decide, by decide, by decide⟩)
  have i1 : IntData ⟨false, 1023, 0⟩ := Or.inr (Or.inr ⟨1, by decide, by decide, by decide⟩)
  have i12m : IntData ⟨false, 1046, 1938851316629504⟩ := Or.inr (Or.inr ⟨12000000, by decide, by decide, by decide⟩)
  have iz : IntData Dbl.zero := Or.inl (by decide)
  have ini : IntData Dbl.negInf := Or.inr (Or.inl (by decide))
  have ipi : IntData Dbl.posInf := Or.inr (Or.inl (by decide))
  simp [AllNums, exIntModel, allSufs, allSparse, allVB, allCB, allInit, allDVs, allCons, allObjs, allE, iz, ini, ipi, i2, i3, im4, ib, i1, i12m]
-- C03_events_eq_intended / C03_roundtrip_binary_as_fed: the example model is outside the exception classes
example : noException exModel = true := by decide
-- C03_bounds_partial: ordinary bounds [0, 1], [-∞, 1], [1, 1] with the exact codec
example : (Dbl.zero.leNegMax = true → Dbl.zero = Dbl.negInf) ∧ ((⟨false, 1023, 0⟩ : Dbl).geMax = true → (⟨false, 1023, 0⟩ : Dbl) = Dbl.posInf) ∧
          (Dbl.negInf.leNegMax = true → Dbl.negInf = Dbl.negInf) ∧ idCodec.rd Dbl.negInf = Dbl.negInf ∧ idCodec.rd Dbl.posInf = Dbl.posInf := by decide
-- C03_header_partial / C03_vbtol_roundtrip: a header that carries vbtol
example : let h : Hdr := { nopts := 3, opts := [2, 3, 3, 0, 0, 0, 0, 0, 0], vbtol := ⟨false, 1019, 4433230883192832⟩ }
          (h.flags ≠ 0 ∨ h.arith ≠ 0) ∧ 2 ≤ h.nopts ∧ h.opts.length = 9 ∧ h.opts[1]? = some (3 : Int) ∧ idCodec.vb h.vbtol = h.vbtol := by decide
-- C03_int_suffix_any_value: indices in range, values including INT_MIN and INT_MAX
example : sparseOk 3 [(0, (-2147483648 : Int)), (2, 2147483647), (1, 0)] = true := by decide
-- C03_call_zero_args: a context with one function
example : (0 : Nat) < (⟨idCodec, 2, 3, 1⟩ : RCtx).nf := by decide
-- C03_roundtrip: the feeder contract holds for a model with every kind of item, in text and binary, every option
example : wellFormed exModel {} = true := by decide
example : wellFormed exModel { binary := true, comments := true, boundsFirst := false, colSizes := 2 } = true := by decide

end MpVerif.C03

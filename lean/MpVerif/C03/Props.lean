import MpVerif.C03.ModelSpec
namespace MpVerif.C03
open MpVerif.Gen.OpcodesW

theorem C03_opcode_tables_agree : tablesAgree = true := by decide
theorem C03_reader_opcodes_covered : readerCovered = true := by decide

end MpVerif.C03

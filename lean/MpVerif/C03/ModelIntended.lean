import MpVerif.C03.ModelSpec
/-!
# C03 — `intended m o`: what the property text says the receiving handler must be told

Written from the property statement and the `NLFeeder` / `NLHandler` interface documentation alone, **not** from the reader model
and not from `events`: "any model fed to the NL writer … is reported by the NL reader as exactly that model, item by item and
operator by operator; every number … identical value (apart from the sign of zero)".

* every item is reported with the index it was fed under and the data it was fed with — no codec, no bound-type case analysis;
* an expression is reported as the operator tree it denotes, read off the *NL grammar* (`opShape`, a table: operator class ↦
  callback, extra integer arguments, the kind of each argument position) — a different formulation from `hE`;
* the order of notifications is the order of the sections of an NL file as the writer emits them for the chosen
  bounds-first option (the property fixes no order; this is the one the handler sees);
* "apart from the sign of zero" is `Ev.nz`.
-/
namespace MpVerif.C03
open MpVerif.Gen.OpcodesW

/-! ## forgetting the sign of zero -/
mutual
def HE.nz : HE → HE
  | .null => .null
  | .node tag ks xs s kids => .node tag ks (xs.map Dbl.normZero) s (HE.nzs kids)
def HE.nzs : List HE → List HE
  | [] => []
  | e :: es => HE.nz e :: HE.nzs es
end

def Ev.nz : Ev → Ev
  | .header h => .header { h with vbtol := h.vbtol.normZero }
  | .svalD i x => .svalD i x.normZero
  | .vb i l u => .vb i l.normZero u.normZero
  | .cb i l u => .cb i l.normZero u.normZero
  | .x0 i x => .x0 i x.normZero
  | .d0 i x => .d0 i x.normZero
  | .cterm v x => .cterm v x.normZero
  | .jterm v x => .jterm v x.normZero
  | .gterm v x => .gterm v x.normZero
  | .cend i p e => .cend i p e.nz
  | .acon i e => .acon i e.nz
  | .lcon i e => .lcon i e.nz
  | .obj i t e => .obj i t e.nz
  | e => e

/-! ## expressions: the operator tree a sequence of `ExprWriter` calls denotes -/

/-- NL grammar, per operator class: handler callback family, whether the expression kind / the argument count are passed,
    and which kind of expression stands at argument position `i` -/
structure OpShape where
  tag : String
  passKind : Bool
  passCount : Bool
  argMode : Nat → Mode

def opShape : OpClass → Option OpShape
  | .unary => some ⟨"u", true, false, fun _ => .num⟩
  | .binary => some ⟨"bin", true, false, fun _ => .num⟩
  | .ifE => some ⟨"if", false, false, fun i => if i = 0 then .log else .num⟩
  | .vararg => some ⟨"va", true, true, fun _ => .num⟩
  | .sum => some ⟨"sum", false, true, fun _ => .num⟩
  | .count => some ⟨"cnt", false, true, fun _ => .log⟩
  | .numberof => some ⟨"nof", false, true, fun _ => .num⟩
  | .numberofSym => some ⟨"nofs", false, true, fun _ => .sym⟩
  | .notE => some ⟨"not", false, false, fun _ => .log⟩
  | .binLogical => some ⟨"bl", true, false, fun _ => .log⟩
  | .relational => some ⟨"rel", true, false, fun _ => .num⟩
  | .logicalCount => some ⟨"lc", true, false, fun _ => .num⟩
  | .implication => some ⟨"impl", false, false, fun _ => .log⟩
  | .iterLogical => some ⟨"il", true, true, fun _ => .log⟩
  | .pairwise => some ⟨"pw", true, true, fun _ => .num⟩
  | .ifSym => some ⟨"ifs", false, false, fun i => if i = 0 then .log else .sym⟩
  | .plterm => none          -- piecewise-linear terms have their own callbacks (slopes, breakpoints, argument)
  | .other => none

/-- which classes an operator fed with a fixed number of arguments (`OPut1/2/3`) may have -/
def fixedArity : OpClass → Nat
  | .unary | .notE => 1
  | .binary | .binLogical | .relational | .logicalCount => 2
  | .ifE | .implication | .ifSym => 3
  | _ => 0

def isIterated : OpClass → Bool
  | .vararg | .sum | .count | .numberof | .numberofSym | .iterLogical | .pairwise => true
  | _ => false

def opNode (sh : OpShape) (k n : Nat) (kids : List HE) : HE :=
  .node sh.tag ((if sh.passKind then [k] else []) ++ (if sh.passCount then [n] else [])) [] "" kids

def plNumbers : List Expr → List Dbl
  | [] => []
  | .num x :: r => x :: plNumbers r
  | _ :: r => plNumbers r

mutual
def mE (nv : Nat) : Mode → Expr → HE
  | md, .num x => if md = .log then .node "b" [if x.isZero then 0 else 1] [] "" [] else .node "n" [] [x] "" []
  | _, .var i _ => if i < nv then .node "v" [i] [] "" [] else .node "ce" [i - nv] [] "" []
  | _, .str s => .node "s" [] [] s []
  | _, .call f _ args => .node "call" [f, args.length] [] "" (mEs nv (fun _ => .sym) 0 args)
  | _, .op1 oc _ a =>
    match writerInfo oc with
    | some (k, cls) =>
      match opShape cls with
      | some sh => if fixedArity cls = 1 then opNode sh k 1 [mE nv (sh.argMode 0) a] else .null
      | none => .null
    | none => .null
  | _, .op2 oc _ a b =>
    match writerInfo oc with
    | some (k, cls) =>
      match opShape cls with
      | some sh => if fixedArity cls = 2 then opNode sh k 2 [mE nv (sh.argMode 0) a, mE nv (sh.argMode 1) b] else .null
      | none => .null
    | none => .null
  | _, .op3 oc _ a b c =>
    match writerInfo oc with
    | some (k, cls) =>
      match opShape cls with
      | some sh =>
        if fixedArity cls = 3 then opNode sh k 3 [mE nv (sh.argMode 0) a, mE nv (sh.argMode 1) b, mE nv (sh.argMode 2) c] else .null
      | none => .null
    | none => .null
  | _, .opN oc _ args =>
    match writerInfo oc with
    | some (k, cls) =>
      if cls = .plterm then
        -- 2N arguments: slope, breakpoint, …, slope, variable: N-1 breakpoints
        .node "pl" [args.length / 2 - 1] (plNumbers args.dropLast) ""
          [match args.getLast? with
           | some (.var i _) => if i < nv then .node "v" [i] [] "" [] else .node "ce" [i - nv] [] "" []
           | _ => .null]
      else
        match opShape cls with
        | some sh => if isIterated cls then opNode sh k args.length (mEs nv sh.argMode 0 args) else .null
        | none => .null
    | none => .null
def mEs (nv : Nat) (modeAt : Nat → Mode) : Nat → List Expr → List HE
  | _, [] => []
  | i, e :: es => mE nv (modeAt i) e :: mEs nv modeAt (i + 1) es
end

/-- the nonlinear part of an algebraic constraint / objective: a constant zero means "none" -/
def mTop (nv : Nat) : Expr → HE
  | .num x => if x.isZero then .null else .node "n" [] [x] "" []
  | e => mE nv .num e

/-! ## items -/

def inFuncs (i : Nat) : List Func → List Ev
  | [] => []
  | f :: r => .func i f.type f.nargs f.name :: inFuncs (i + 1) r

def inSuffix (s : Suffix) : List Ev :=
  match s.vals with
  | .ints [] => []
  | .ints l => .isuf (s.kind % 4) l.length s.name :: l.map fun p => .svalI p.1 p.2
  | .dbls [] => []
  | .dbls l => .dsuf (s.kind % 4) l.length s.name :: l.map fun p => .svalD p.1 p.2

def inVarBounds (i : Nat) : List (Dbl × Dbl) → List Ev
  | [] => []
  | (l, u) :: r => .vb i l u :: inVarBounds (i + 1) r

def inConBounds (i : Nat) : List ConBnd → List Ev
  | [] => []
  | b :: r => (if b.k = 0 then Ev.cb i b.L b.U else Ev.compl i b.cvar b.k) :: inConBounds (i + 1) r

def inSparse (mk : Nat → Dbl → Ev) (l : List (Nat × Dbl)) : List Ev := l.map fun p => mk p.1 p.2

def inDefVar (nv pos : Nat) (d : DefVar) : List Ev :=
  [.cbeg (d.index - nv) d.lin.length] ++ inSparse .cterm d.lin ++ [.cend (d.index - nv) pos (mE nv .num d.e)]

def inDefVars (nv pos : Nat) (ds : List DefVar) : List Ev := ds.flatMap (inDefVar nv pos)

def inCons (nv i : Nat) : List (List DefVar × Con) → List Ev
  | [] => []
  | (dvs, c) :: r => inDefVars nv (i + 1) dvs ++ [.acon i (mTop nv c.e)] ++ inCons nv (i + 1) r

def inLCons (nv nac j : Nat) : List (List DefVar × Con) → List Ev
  | [] => []
  | (dvs, c) :: r => inDefVars nv (nac + j + 1) dvs ++ [.lcon j (mE nv .log c.e)] ++ inLCons nv nac (j + 1) r

def inObjs (nv ncon i : Nat) : List (List DefVar × Obj) → List Ev
  | [] => []
  | (dvs, ob) :: r => inDefVars nv (ncon + i + 1) dvs ++ [.obj i ob.type (mTop nv ob.e)] ++ inObjs nv ncon (i + 1) r

def inRows (beg : Nat → Nat → Ev) (mk : Nat → Dbl → Ev) (i : Nat) : List (List (Nat × Dbl)) → List Ev
  | [] => []
  | [] :: r => inRows beg mk (i + 1) r
  | l :: r => beg i l.length :: inSparse mk l ++ inRows beg mk (i + 1) r

def inInit (mk : Nat → Dbl → Ev) : Option (List (Nat × Dbl)) → List Ev
  | none => []
  | some l => inSparse mk l

def intendedBody (m : Model) (o : Opts) : List Ev :=
  let nv := m.hdr.nv
  let bounds1 := inVarBounds 0 m.vb ++ inInit .x0 m.x0 ++ (if m.hdr.nac = 0 then [] else inConBounds 0 m.cb) ++ inInit .d0 m.d0
  let bounds2 := inInit .d0 m.d0 ++ inInit .x0 m.x0 ++ (if m.hdr.nac = 0 then [] else inConBounds 0 m.cb) ++ inVarBounds 0 m.vb
  inFuncs 0 m.funcs ++ (m.sufs ++ plsosSuffixes m).flatMap inSuffix ++
  (if o.boundsFirst then bounds1 else []) ++
  inDefVars nv 0 m.dv0 ++ inCons nv 0 m.cons ++ inLCons nv m.hdr.nac 0 m.lcons ++ inObjs nv (m.hdr.nac + m.hdr.nlc) 0 m.objs ++
  (if o.boundsFirst then [] else bounds2) ++
  (if o.colSizes = 0 then [] else .csz :: m.colsz.map .cadd) ++
  inRows .jbeg .jterm 0 (m.cons.map (·.2.lin)) ++ inRows .gbeg .gterm 0 (m.objs.map (·.2.lin)) ++ [.endInput]

/-- **what the handler must be told** for model `m` written with options `o` -/
def intended (m : Model) (o : Opts) : List Ev :=
  .header (intendedHdr (effHdr m) o) :: intendedBody m o

/-- the two documented exception classes: a bound that is exactly ∓DBL_MAX on its infinite side; a text-style header without
    flags and arith kind -/
def noException (m : Model) : Bool :=
  (m.vb.all fun p => (!p.1.leNegMax || p.1 == Dbl.negInf) && (!p.2.geMax || p.2 == Dbl.posInf)) &&
  (m.cb.all fun b => b.k != 0 || ((!b.L.leNegMax || b.L == Dbl.negInf) && (!b.U.geMax || b.U == Dbl.posInf))) &&
  decide (m.hdr.flags ≠ 0 ∨ m.hdr.arith ≠ 0)

end MpVerif.C03

import MpVerif.C03.ModelWrite
/-!
# C03 — the small language `translators/gen_writer_c03.py` translates nl-writer2.hpp into, and its meaning

The translator walks clang's AST of `NLWriter2::WriteNLHeader`, `WriteBndRangeOrCompl`, `BinaryFormatter::nput`, … and emits
terms of these types into `MpVerif/Gen/C03Writer.lean` on every run.  The evaluators below are written once; the theorems
`C03_gen_*` (Props) prove that the hand model (`wH1 … wH10`, `wBnd`, `wNum`, …) equals the evaluation of the generated terms.
-/
namespace MpVerif.C03

/-- one item of a printf/apr format string -/
inductive FmtItem
  | lit (c : Char)      -- any other character
  | sp                  -- ' '
  | tab                 -- '\t': the rest of the line is a comment
  | nl                  -- '\n'
  | dChar               -- %c
  | dInt                -- %d %ld %zd %z
  | dDbl                -- %g %.16g
  | dDbl17              -- %.17g   (ampl_vbtol)
  | dStr                -- %s
  | dShort              -- %h
  | dLong               -- %l
deriving DecidableEq, Repr, Inhabited

/-- integer expressions over the header, as they occur in `WriteNLHeader` -/
inductive HExpr
  | fld (name : String)               -- Hdr().<name>
  | opt (i : Nat)                     -- Hdr().ampl_options[<constant i>]
  | lit (n : Int)
  | isText                            -- NLHeader::TEXT == Hdr().format
  | bin (op : String) (a b : HExpr)   -- "-", "|", ">", "==", "!="
  | cond (c a b : HExpr)              -- c ? a : b
deriving Repr, Inhabited

/-- a format argument / a format selection -/
inductive HFmt
  | lit (items : List FmtItem)
  | cond (c : HExpr) (a b : HFmt)
deriving Repr, Inhabited

inductive HStmt
  | printf (f : HFmt) (args : List HExpr)        -- nm.Printf(f, args…)   (string / double arguments are given as `fld`)
  | forOpts (f : List FmtItem)                   -- for (i < num_ampl_options) nm.Printf(f, ampl_options[i])
  | ite (c : HExpr) (t e : List HStmt)
deriving Repr, Inhabited

/-- header field by its C++ name (integers only; anything else evaluates to 0 and is never used as a number) -/
def Hdr.field (h : Hdr) : String → Int
  | "num_ampl_options" => h.nopts | "num_vars" => h.nv | "num_algebraic_cons" => h.nac | "num_objs" => h.no
  | "num_ranges" => h.nr | "num_eqns" => h.ne | "num_logical_cons" => h.nlc | "num_rand_vars" => h.nrandv
  | "num_rand_common_exprs" => h.nrandce | "num_rand_cons" => h.nrandc | "num_rand_objs" => h.nrando
  | "num_rand_calls" => h.nrandcalls | "num_stages" => h.nstages | "num_nl_cons" => h.nnlc | "num_nl_objs" => h.nnlo
  | "num_compl_conds" => h.ncc | "num_nl_compl_conds" => h.nnlcc | "num_compl_dbl_ineqs" => h.ncdi
  | "num_compl_vars_with_nz_lb" => h.ncnz | "num_nl_net_cons" => h.nnnc | "num_linear_net_cons" => h.nlnc
  | "num_nl_vars_in_cons" => h.nlvc | "num_nl_vars_in_objs" => h.nlvo | "num_nl_vars_in_both" => h.nlvb
  | "num_linear_net_vars" => h.nlnv | "num_funcs" => h.nf | "arith_kind" => h.arith | "flags" => h.flags
  | "num_linear_binary_vars" => h.nlbv | "num_linear_integer_vars" => h.nliv
  | "num_nl_integer_vars_in_both" => h.nnlib | "num_nl_integer_vars_in_cons" => h.nnlic
  | "num_nl_integer_vars_in_objs" => h.nnlio | "num_con_nonzeros" => h.nzc | "num_obj_nonzeros" => h.nzo
  | "max_con_name_len" => h.mcl | "max_var_name_len" => h.mvl
  | "num_common_exprs_in_both" => h.ceb | "num_common_exprs_in_cons" => h.cec | "num_common_exprs_in_objs" => h.ceo
  | "num_common_exprs_in_single_cons" => h.cesc | "num_common_exprs_in_single_objs" => h.ceso
  | _ => 0

/-- value of a header expression.  `|` is only ever used for its truth value in the source, so it is evaluated to 0/1;
    character literals are their codes. -/
def HExpr.eval (h : Hdr) (o : Opts) : HExpr → Int
  | .fld n => h.field n
  | .opt i => (h.opts[i]?).getD 0
  | .lit n => n
  | .isText => if o.binary then 0 else 1
  | .bin op a b =>
    let x := a.eval h o; let y := b.eval h o
    if op = "-" then x - y
    else if op = "|" then (if x ≠ 0 ∨ y ≠ 0 then 1 else 0)
    else if op = ">" then (if x > y then 1 else 0)
    else if op = ">=" then (if x ≥ y then 1 else 0)
    else if op = "<" then (if x < y then 1 else 0)
    else if op = "<=" then (if x ≤ y then 1 else 0)
    else if op = "==" then (if x = y then 1 else 0)
    else if op = "!=" then (if x ≠ y then 1 else 0)
    else 0
  | .cond c a b => if c.eval h o ≠ 0 then a.eval h o else b.eval h o

def HFmt.eval (h : Hdr) (o : Opts) : HFmt → List FmtItem
  | .lit l => l
  | .cond c a b => if c.eval h o ≠ 0 then a.eval h o else b.eval h o

/-- `File::Printf` (plain printf) on a header line, as tokens: one token per directive that has an argument; what
    follows a tab up to the newline is a comment (its text does not matter: `.cmt ""`) -/
def hdrPrintf (h : Hdr) (o : Opts) : List FmtItem → List HExpr → List Tok
  | [], _ => []
  | .tab :: r, _ => .cmt "" :: (if r.contains .nl then [.eol] else [])
  | .nl :: r, as => .eol :: hdrPrintf h o r as
  | .sp :: r, as => hdrPrintf h o r as
  | .lit _ :: r, as => hdrPrintf h o r as
  | .dChar :: r, a :: as => .ch (if a.eval h o = 98 then .fmtB else .fmtG) :: hdrPrintf h o r as
  | .dInt :: r, a :: as => .int (a.eval h o) :: hdrPrintf h o r as
  | .dDbl17 :: r, _ :: as => .vbt h.vbtol :: hdrPrintf h o r as
  | .dDbl :: r, _ :: as => .vbt h.vbtol :: hdrPrintf h o r as
  | .dStr :: r, _ :: as => hdrPrintf h o r as
  | _ :: r, as => hdrPrintf h o r as

mutual
def HStmt.toks (h : Hdr) (o : Opts) : HStmt → List Tok
  | .printf f args => hdrPrintf h o (f.eval h o) args
  | .forOpts f => (h.opts.take h.nopts).flatMap fun v => hdrPrintf h o f [.lit v]
  | .ite c t e => if c.eval h o ≠ 0 then HStmt.toksL h o t else HStmt.toksL h o e
def HStmt.toksL (h : Hdr) (o : Opts) : List HStmt → List Tok
  | [] => []
  | s :: r => HStmt.toks h o s ++ HStmt.toksL h o r
end

/-- the header fields an expression / statement list mentions -/
def HExpr.fields : HExpr → List String
  | .fld n => [n]
  | .bin _ a b => a.fields ++ b.fields
  | .cond c a b => c.fields ++ a.fields ++ b.fields
  | _ => []
def HFmt.fields : HFmt → List String
  | .lit _ => []
  | .cond c a b => c.fields ++ a.fields ++ b.fields
mutual
def HStmt.fields : HStmt → List String
  | .printf f args => f.fields ++ args.flatMap HExpr.fields
  | .forOpts _ => []
  | .ite c t e => c.fields ++ HStmt.fieldsL t ++ HStmt.fieldsL e
def HStmt.fieldsL : List HStmt → List String
  | [] => []
  | s :: r => HStmt.fields s ++ HStmt.fieldsL r
end
/-- names `Hdr.field` knows (so that its `| _ => 0` default is never what a theorem rests on); the three non-integer
    arguments (`prob_name`, `ampl_vbtol`, the comment suffix `s`) are consumed by `%s` / `%.17g` and never evaluated -/
def knownFields : List String :=
  ["num_ampl_options", "num_vars", "num_algebraic_cons", "num_objs", "num_ranges", "num_eqns", "num_logical_cons", "num_rand_vars",
   "num_rand_common_exprs", "num_rand_cons", "num_rand_objs", "num_rand_calls", "num_stages", "num_nl_cons", "num_nl_objs",
   "num_compl_conds", "num_nl_compl_conds", "num_compl_dbl_ineqs", "num_compl_vars_with_nz_lb", "num_nl_net_cons",
   "num_linear_net_cons", "num_nl_vars_in_cons", "num_nl_vars_in_objs", "num_nl_vars_in_both", "num_linear_net_vars", "num_funcs",
   "arith_kind", "flags", "num_linear_binary_vars", "num_linear_integer_vars", "num_nl_integer_vars_in_both",
   "num_nl_integer_vars_in_cons", "num_nl_integer_vars_in_objs", "num_con_nonzeros", "num_obj_nonzeros", "max_con_name_len",
   "max_var_name_len", "num_common_exprs_in_both", "num_common_exprs_in_cons", "num_common_exprs_in_objs",
   "num_common_exprs_in_single_cons", "num_common_exprs_in_single_objs", "prob_name", "ampl_vbtol", "s"]

/-- forget the text of comments -/
def noCmtText : List Tok → List Tok
  | [] => []
  | .cmt _ :: r => .cmt "" :: noCmtText r
  | t :: r => t :: noCmtText r

/-! ## `WriteBndRangeOrCompl`: a decision tree over four tests, leaves = (format, which arguments) -/
inductive BndTest | kLe0 | lLeNegInf | uGeInf | lEqU
deriving DecidableEq, Repr, Inhabited
inductive BndArg | L | U | k | cvarPlus1
deriving DecidableEq, Repr, Inhabited
inductive BndTree
  | leaf (f : List FmtItem) (args : List BndArg)
  | test (t : BndTest) (yes no : BndTree)
deriving Repr, Inhabited

/-- `apr` on a bounds line: first character = bound type, `%g` items = doubles, `%d` = ints -/
def bndToks (L U : Dbl) (k cvar : Nat) : List FmtItem → List BndArg → List Tok
  | [], _ => []
  | .lit c :: r, as => (if c.isDigit then [Tok.bt (c.toNat - 48)] else []) ++ bndToks L U k cvar r as
  | .sp :: r, as => bndToks L U k cvar r as
  | .nl :: r, as => .eol :: bndToks L U k cvar r as
  | .dDbl :: r, a :: as => .dbl (if a = .U then U else L) :: bndToks L U k cvar r as
  | .dInt :: r, a :: as => .int (if a = .k then (k : Int) else (cvar : Int) + 1) :: bndToks L U k cvar r as
  | _ :: r, as => bndToks L U k cvar r as

def BndTree.eval (L U : Dbl) (k cvar : Nat) : BndTree → List Tok
  | .leaf f args => bndToks L U k cvar f args
  | .test t y n =>
    let c := match t with
      | .kLe0 => decide (k = 0)          -- k is an int ≤ 0 for "normal" constraints; the model has k : Nat
      | .lLeNegInf => L.leNegMax
      | .uGeInf => U.geMax
      | .lEqU => L.ieeeEq U
    if c then y.eval L U k cvar else n.eval L U k cvar

/-! ## column sizes: `ColSizeWriter::Write` (writer) and the `if (CUMULATIVE)` block of `ReadColumnSizes` (reader) -/
inductive CVar | size | prev
deriving DecidableEq, Repr, Inhabited
/-- the statements that occur in the reader's block, over the two `int` variables `size` and `prev_size` -/
inductive CStmt
  | errIfLt (a b : CVar)     -- if (a < b) ReportError("invalid column offset")
  | sub (a b : CVar)         -- a -= b
  | add (a b : CVar)         -- a += b
  | set (a b : CVar)         -- a = b
deriving DecidableEq, Repr, Inhabited

/-- one `case` of `ColSizeWriter::Write`: the kind it serves, whether `sum_ += s` precedes the output, whether `sum_` (else `s`) is printed -/
structure ColWriteCase where
  kind : Nat
  accumulates : Bool
  printsSum : Bool
deriving DecidableEq, Repr, Inhabited

/-! ## `NLReader::ReadBounds`: per bound-type digit, where `lb` and `ub` come from -/
inductive BndSrc | read | negInf | posInf | sameAsLb
deriving DecidableEq, Repr, Inhabited
inductive BndCase
  | range (lb ub : BndSrc)     -- lb, ub assigned in this order, then ReadTillEndOfLine and SetBounds
  | compl                      -- flags = ReadInt; var = ReadUInt in 1..num_vars; OnComplementarity(i, var-1, flags & 3) (constraints only)
deriving DecidableEq, Repr, Inhabited

end MpVerif.C03

import MpVerif.C03.ModelIntText
import MpVerif.C03.LemmasNum
namespace MpVerif.C03

theorem ofLE_digitsLE : ∀ (f n : Nat), n ≤ f → ofLE (digitsLE f n) = n
  | 0, n, h => by
    have : n = 0 := by omega
    subst this; simp [digitsLE, ofLE]
  | f + 1, n, h => by
    by_cases h0 : n = 0
    · subst h0; simp [digitsLE, ofLE]
    · have ih := ofLE_digitsLE f (n / 10) (by omega)
      simp [digitsLE, h0, ofLE, ih]
      omega

theorem stripZ_spec : ∀ (f n : Nat), (stripZ f n).1 * 10 ^ (stripZ f n).2 = n
  | 0, n => by simp [stripZ]
  | f + 1, n => by
    by_cases h : n % 10 = 0 ∧ n ≠ 0
    · have ih := stripZ_spec f (n / 10)
      simp only [stripZ, h, and_self, if_true, ne_eq, not_false_eq_true]
      rw [Nat.pow_succ, ← Nat.mul_assoc, ih]
      omega
    · simp [stripZ, h]

theorem stripZ_pos : ∀ (f n : Nat), 0 < n → 0 < (stripZ f n).1
  | 0, n, h => by simpa [stripZ] using h
  | f + 1, n, h => by
    by_cases hc : n % 10 = 0 ∧ n ≠ 0
    · have : 0 < n / 10 := by omega
      simpa [stripZ, hc] using stripZ_pos f (n / 10) this
    · simpa [stripZ, hc] using h

theorem digitsLE_pos : ∀ (f n : Nat), 0 < n → n ≤ f → 0 < (digitsLE f n).length
  | 0, n, h, h2 => by omega
  | f + 1, n, h, _ => by
    have : n ≠ 0 := by omega
    simp [digitsLE, this]

theorem sign_natAbs (v : Int) : (if decide (v < 0) = true then (-1 : Int) else 1) * ((v.natAbs : Nat) : Int) = v := by
  by_cases h : v < 0 <;> simp [h] <;> omega

/-- reading back what `g_fmt` prints for a non-zero integer gives the integer -/
theorem strtod_gfmt_int (v : Int) (hv : v ≠ 0) : strtodInt (gfmtInt v) = v := by
  have hn : 0 < v.natAbs := by omega
  have hs := stripZ_spec v.natAbs v.natAbs
  have hd := ofLE_digitsLE (stripZ v.natAbs v.natAbs).1 (stripZ v.natAbs v.natAbs).1 (Nat.le_refl _)
  have hL := digitsLE_pos _ _ (stripZ_pos v.natAbs v.natAbs hn) (Nat.le_refl (stripZ v.natAbs v.natAbs).1)
  simp only [gfmtInt]
  generalize hz : (stripZ v.natAbs v.natAbs).2 = z at *
  generalize hdd : (stripZ v.natAbs v.natAbs).1 = d at *
  generalize hds : digitsLE d d = ds at *
  by_cases hc : z ≤ (if ds.reverse.length > 1 then 5 else 4)
  · rw [if_pos hc]
    simp only [strtodInt, List.reverse_reverse, hd, hs]
    exact sign_natAbs v
  · rw [if_neg hc]
    have he : (ds.reverse.length + z - 1) + 1 - ds.reverse.length = z := by
      simp only [List.length_reverse]; omega
    simp only [strtodInt, List.reverse_reverse, hd, he, hs]
    exact sign_natAbs v

end MpVerif.C03

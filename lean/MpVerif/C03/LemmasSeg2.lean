import MpVerif.C03.LemmasSeg
/-! # C03 — lemmas: each section written by `WriteNL` is read back (`Reads`) -/
namespace MpVerif.C03
open MpVerif.Gen.OpcodesW

/-- the reader's header `h'` has the same counts as the feeder's `h` -/
structure SameCounts (h h' : Hdr) : Prop where
  nv : h'.nv = h.nv
  nac : h'.nac = h.nac
  nlc : h'.nlc = h.nlc
  no : h'.no = h.no
  nf : h'.nf = h.nf
  nce : h'.nce = h.nce

section
variable (cd : Codec) (o : Opts) {h h' : Hdr} (sc : SameCounts h h')

/-! ## functions -/
theorem reads_functions : ∀ (fs : List Func) (i : Nat) (nb : Bool), funcsOk fs = true → i + fs.length ≤ h'.nf →
    Reads cd h' fs.length nb nb (wFunctions i fs) (evFuncs i fs)
  | [], i, nb, _, _ => by simpa [wFunctions, evFuncs] using Reads.nil cd h' nb
  | f :: fs, i, nb, hok, hi => by
    simp [funcsOk] at hok
    have hi' : i < h'.nf := by simp at hi; omega
    have ih := reads_functions fs (i + 1) nb hok.2 (by simp at hi; omega)
    have hty : ¬ (f.type ≠ 0 ∧ f.type ≠ 1) := by omega
    have s1 : Reads cd h' 1 nb nb (.ch .segF :: [.int i, .int f.type, .int f.nargs, .name f.name, .eol]) [Ev.func i f.type f.nargs f.name] :=
      Reads.seg (by simp) (fun rest => by simp [readSeg, readUIntLt, hi', hty]) nb
    have := Reads.append s1 ih
    simpa [wFunctions, evFuncs] using this

/-! ## suffixes -/
include sc
theorem sufItems_congr (k : Nat) : sufItems h' k = sufItems h k := by
  simp [sufItems, sc.nv, sc.nac, sc.nlc, sc.no]

theorem reads_suffix (s : Suffix) (nb : Bool) (hok : sufOk h o s = true) :
    Reads cd h' 1 nb nb (wSuffix o s) (evSuffix cd s) := by
  unfold sufOk at hok
  unfold wSuffix evSuffix
  cases hv : s.vals with
  | ints l =>
    simp [hv] at hok ⊢
    by_cases hl : l.length = 0
    · have : l = [] := List.length_eq_zero_iff.mp hl
      subst this
      simpa using Reads.weaken 1 (Reads.nil cd h' nb)
    · obtain ⟨⟨hk, hlen⟩, hsp⟩ := hok
      have hl' : ¬ l = [] := fun e => hl (by simp [e])
      simp only [hl', if_false]
      refine Reads.seg (by simp) (fun rest => ?_) nb
      have hk7 : ¬ s.kind > 7 := by omega
      have hn : ¬ (l.length < 1 ∨ l.length ≥ sufItems h s.kind + 1) := by omega
      have hfl : ¬ (s.kind / 4 % 2 = 1) := by omega
      have hr := readSufI_wSparseI o (sufItems h s.kind) l rest hsp
      simp [readSeg, readSuffix, hk7, sufItems_congr sc, hfl, hr]
      exact ⟨hl', by omega⟩
  | dbls l =>
    simp [hv] at hok ⊢
    by_cases hl : l.length = 0
    · have : l = [] := List.length_eq_zero_iff.mp hl
      subst this
      simpa using Reads.weaken 1 (Reads.nil cd h' nb)
    · obtain ⟨⟨hk, hlen⟩, hsp⟩ := hok
      have hl' : ¬ l = [] := fun e => hl (by simp [e])
      simp only [hl', if_false]
      refine Reads.seg (by simp) (fun rest => ?_) nb
      have hk7 : ¬ s.kind > 7 := by omega
      have hn : ¬ (l.length < 1 ∨ l.length ≥ sufItems h s.kind + 1) := by omega
      have hfl : s.kind / 4 % 2 = 1 := by omega
      have hr := readSufD_wSparseD cd (sufItems h s.kind) l rest hsp
      simp [readSeg, readSuffix, hk7, sufItems_congr sc, hfl, hr]
      exact ⟨hl', by omega⟩

theorem reads_suffixes : ∀ (ss : List Suffix) (nb : Bool), sufsOk h o ss = true →
    Reads cd h' ss.length nb nb (wSuffixes o ss) (evSuffixes cd ss)
  | [], nb, _ => by simpa [wSuffixes, evSuffixes] using Reads.nil cd h' nb
  | s :: ss, nb, hok => by
    simp [sufsOk] at hok
    have := Reads.append (reads_suffix cd o sc s nb hok.1) (reads_suffixes ss nb hok.2)
    simpa [wSuffixes, evSuffixes] using this

/-! ## bounds -/
omit sc in
theorem readBnd_one (isCon : Bool) (i n : Nat) (L U : Dbl) (k cvar : Nat) (rest : List Tok)
    (hk : k = 0 ∨ (isCon = true ∧ k ≤ 3 ∧ cvar < h'.nv)) :
    readBndItems cd h' isCon i (n + 1) (wBnd L U k cvar ++ rest) =
      (match readBndItems cd h' isCon (i + 1) n rest with
       | .error e => .error e
       | .ok (l, ts) => .ok (evBnd cd isCon i L U k cvar :: l, ts)) := by
  unfold wBnd evBnd
  by_cases hk0 : k = 0
  · simp only [hk0, if_true]
    by_cases h1 : L.leNegMax = true
    · by_cases h2 : U.geMax = true
      · simp [h1, h2, readBndItems] <;> rfl
      · simp [h1, h2, readBndItems] <;> rfl
    · by_cases h2 : U.geMax = true
      · simp [h1, h2, readBndItems] <;> rfl
      · by_cases h3 : L.ieeeEq U = true
        · simp [h1, h2, h3, readBndItems] <;> rfl
        · simp [h1, h2, h3, readBndItems] <;> rfl
  · rcases hk with hk | ⟨hc, hk3, hcv⟩
    · exact absurd hk hk0
    · subst hc
      have e1 : ((k : Int) % 4).toNat = k % 4 := by omega
      have e2 : ¬ (cvar + 1 > h'.nv) := by omega
      have e0 : ¬ (cvar + 1 = 0 ∨ cvar + 1 > h'.nv) := by omega
      have e5 : ∀ ts, readUInt (Tok.int ((cvar : Int) + 1) :: ts) = .ok (cvar + 1, ts) := by
        intro ts
        have : (0 : Int) ≤ (cvar : Int) + 1 := by omega
        simp [readUInt, this]
      simp only [hk0, if_false, List.cons_append, List.nil_append, readBndItems, if_true, readInt_int, readUInt_nat,
        readEol_eol, e0, e1, e5, Nat.add_sub_cancel]
      rfl

omit sc in
theorem readBnd_vars : ∀ (l : List (Dbl × Dbl)) (i : Nat) (rest : List Tok),
    readBndItems cd h' false i l.length (wVarBndItems l ++ rest) = .ok (evVarBnds cd i l, rest)
  | [], i, rest => by simp [readBndItems, wVarBndItems, evVarBnds]
  | (a, b) :: l, i, rest => by
    have ih := readBnd_vars l (i + 1) rest
    have h1 := readBnd_one cd (h' := h') false i l.length a b 0 0 (wVarBndItems l ++ rest) (Or.inl rfl)
    simp only [wVarBndItems, List.append_assoc, List.length_cons, evVarBnds]
    rw [h1, ih]

include sc in
theorem readBnd_cons : ∀ (l : List ConBnd) (i : Nat) (rest : List Tok), cbOk h.nv l = true →
    readBndItems cd h' true i l.length (wConBndItems l ++ rest) = .ok (evConBnds cd i l, rest)
  | [], i, rest, _ => by simp [readBndItems, wConBndItems, evConBnds]
  | b :: l, i, rest, hok => by
    simp [cbOk] at hok
    have ih := readBnd_cons l (i + 1) rest hok.2
    have hk : b.k = 0 ∨ (true = true ∧ b.k ≤ 3 ∧ b.cvar < h'.nv) := by
      rcases hok.1 with h0 | h3
      · exact Or.inl h0
      · exact Or.inr ⟨rfl, h3.1, by rw [sc.nv]; exact h3.2⟩
    have h1 := readBnd_one cd (h' := h') true i l.length b.L b.U b.k b.cvar (wConBndItems l ++ rest) hk
    simp only [wConBndItems, List.append_assoc, List.length_cons, evConBnds]
    rw [h1, ih]

omit sc in
/-- the `b` segment: `read_bounds` goes from true to false -/
theorem reads_varBounds (m : Model) (hlen : m.vb.length = h'.nv) :
    Reads cd h' 1 true false (wVarBounds m o) (evVarBnds cd 0 m.vb) := by
  refine ⟨?_, Or.inr ⟨rfl, rfl⟩, fun hc => by simp at hc⟩
  intro f rest r hr
  have hb := readBnd_vars cd (h' := h') m.vb 0 rest
  rw [hlen] at hb
  refine ⟨f + 1, by simp [wVarBounds], ?_⟩
  simp [wVarBounds, readSegs, hb, hr]

theorem reads_conBounds (m : Model) (nb : Bool) (hh : m.hdr = h) (hlen : m.cb.length = h.nac) (hok : cbOk h.nv m.cb = true) :
    Reads cd h' 1 nb nb (wConBounds m o) (if m.hdr.nac ≠ 0 then evConBnds cd 0 m.cb else []) := by
  unfold wConBounds
  by_cases hz : m.hdr.nac ≠ 0
  · rw [if_pos hz, if_pos hz]
    refine Reads.seg (by simp) (fun rest => ?_) nb
    have hb := readBnd_cons cd sc m.cb 0 rest hok
    rw [hlen, ← sc.nac] at hb
    simp [readSeg, hb]
  · rw [if_neg hz, if_neg hz]
    exact Reads.weaken 1 (Reads.nil cd h' nb)

/-! ## initial values -/
omit sc in
theorem reads_init (t : Tag) (c : String) (n : Nat) (mk : Nat → Dbl → Ev) (nb : Bool)
    (hseg : ∀ ts, readSeg cd h' t ts = readInit cd n mk ts) (ht : t ≠ .segb)
    (x : Option (List (Nat × Dbl))) (hok : initOk n x = true) :
    Reads cd h' 1 nb nb (wInit t o c x) (evInit cd mk x) := by
  cases x with
  | none => simpa [wInit, evInit] using Reads.weaken 1 (Reads.nil cd h' nb)
  | some l =>
    simp [initOk] at hok
    refine Reads.seg ht (fun rest => ?_) nb
    have hn : ¬ l.length > n := by omega
    have hr := readInitItems_wSparseD cd n mk l rest hok.2
    simp [hseg, readInit, hn, hr, evInit]

/-! ## defined variables, constraints, objectives -/
theorem reads_defVar (pos : Nat) (d : DefVar) (nb : Bool) (hok : defVarOk h d = true) :
    Reads cd h' 1 nb nb (wDefVar o pos d) (evDefVar cd o h.nv pos d) := by
  simp [defVarOk] at hok
  obtain ⟨⟨⟨hlo, hhi⟩, hsp⟩, hwf⟩ := hok
  have hform : wDefVar o pos d = .ch .segV ::
      (.int d.index :: .int d.lin.length :: .int pos :: (cmtEol o d.descr ++ (wSparseD d.lin ++ wE o d.e))) := by
    simp [wDefVar]
  rw [hform]
  refine Reads.seg (by simp) (fun rest => ?_) nb
  have hrc : rctx cd h' = ⟨cd, h.nv, h.nv + h.nce, h.nf⟩ := by simp [rctx, sc.nv, sc.nce, sc.nf]
  have hrange : ¬ (d.index < h.nv ∨ d.index ≥ h.nv + h.nce) := by omega
  have hl := readLinTerms_wSparseD cd h.nv Ev.cterm d.lin (wE o d.e ++ rest) hsp
  have he := readE_wE ⟨cd, h.nv, h.nv + h.nce, h.nf⟩ o d.e .num ((wE o d.e ++ rest).length + 1) rest hwf
    (by have := esize_le_length o d.e; simp; omega)
  simp only [List.length_append] at he
  simp only [List.append_assoc, List.cons_append]
  simp [readSeg, hrc, sc.nv, sc.nce, hrange, hl, he, evDefVar]

theorem reads_defVars (pos : Nat) : ∀ (ds : List DefVar) (nb : Bool), defVarsOk h ds = true →
    Reads cd h' ds.length nb nb (wDefVars o pos ds) (evDefVars cd o h.nv pos ds)
  | [], nb, _ => by simpa [wDefVars, evDefVars] using Reads.nil cd h' nb
  | d :: ds, nb, hok => by
    simp [defVarsOk] at hok
    have := Reads.append (reads_defVar cd o sc pos d nb hok.1) (reads_defVars pos ds nb hok.2)
    simpa [wDefVars, evDefVars] using this

omit sc in
theorem readTopNum_wE (c : RCtx) (e : Expr) (rest : List Tok) (hwf : wfE ⟨c.nve, c.nf⟩ .num e = true) :
    readTopNum c (wE o e ++ rest).length (wE o e ++ rest) = .ok (hTop c.cd o c.nv e, rest) := by
  cases e with
  | num x =>
    obtain ⟨t, ts, h1, h2, h3⟩ := wNum_shape c.cd o x rest
    simp only [wE]
    rw [h1]
    rcases h2 with rfl | rfl | rfl <;> simp [readTopNum, h3, hTop]
  | var i d =>
    have he := readE_wE c o (.var i d) .num ((wE o (.var i d) ++ rest).length + 1) rest hwf (by simp [esize])
    simpa [readTopNum, wE, hTop] using he
  | str s => simp [wfE] at hwf
  | call fi d args =>
    have he := readE_wE c o (.call fi d args) .num ((wE o (.call fi d args) ++ rest).length + 1) rest hwf
      (by have := esize_le_length o (.call fi d args); simp; omega)
    simpa [readTopNum, wE, hTop] using he
  | op1 oc d a =>
    have he := readE_wE c o (.op1 oc d a) .num ((wE o (.op1 oc d a) ++ rest).length + 1) rest hwf
      (by have := esize_le_length o (.op1 oc d a); simp; omega)
    simpa [readTopNum, wE, hTop] using he
  | op2 oc d a b =>
    have he := readE_wE c o (.op2 oc d a b) .num ((wE o (.op2 oc d a b) ++ rest).length + 1) rest hwf
      (by have := esize_le_length o (.op2 oc d a b); simp; omega)
    simpa [readTopNum, wE, hTop] using he
  | op3 oc d a b e3 =>
    have he := readE_wE c o (.op3 oc d a b e3) .num ((wE o (.op3 oc d a b e3) ++ rest).length + 1) rest hwf
      (by have := esize_le_length o (.op3 oc d a b e3); simp; omega)
    simpa [readTopNum, wE, hTop] using he
  | opN oc d args =>
    have he := readE_wE c o (.opN oc d args) .num ((wE o (.opN oc d args) ++ rest).length + 1) rest hwf
      (by have := esize_le_length o (.opN oc d args); simp; omega)
    simpa [readTopNum, wE, hTop] using he

end
end MpVerif.C03

import MpVerif.Gen.SafeInt
/-! Helper definitions, lemmas and tactics for the C17 property theorems. -/
namespace MpVerif.C17
open MpVerif.CSem

/-- value `v` is representable in C type `t` -/
def InR (t : CTy) (v : Int) : Prop := t.lo ≤ v ∧ v ≤ t.hi

/-- the specification: exact result when representable, the overflow error otherwise -/
def spec (t : CTy) (exact : Int) : Outcome Int :=
  if t.lo ≤ exact ∧ exact ≤ t.hi then .ret exact else .throw

theorem spec_ne_ub (t : CTy) (v : Int) : spec t v ≠ .ub := by
  unfold spec; split <;> simp

/-- unsigned counterpart of a type -/
def unsignedOf (t : CTy) : CTy := ⟨t.bits, false⟩

/-- `x > M / y ↔ x * y > M` for positive `y` (the division pre-check used by `operator*`) -/
theorem gt_div_iff (x M y : Int) (hy : 0 < y) : (M / y < x) ↔ (M < x * y) := by
  rw [Int.ediv_lt_iff_lt_mul hy]

theorem tdiv_eq_ediv_of_nonneg (a b : Int) (ha : 0 ≤ a) : Int.tdiv a b = a / b := by
  exact Int.tdiv_eq_ediv_of_nonneg ha

macro "c17_close" : tactic => `(tactic| (repeat' (first | omega | split | simp_all)))

macro "c17_unfold" : tactic => `(tactic| (
  unfold_safeint
  simp only [InR, spec, unsignedOf, cnot, clt, cgt, cle, cge, ceq, cne, tobool, cand, cor, conv, csub, cadd, cmul, cneg, cdiv, arith,
    CTy.wrap, CTy.lo, CTy.hi, tBool, tSC, tUC, tS, tUS, tI, tU, tL, tUL, tLL, tULL] at *))

/-- linear cases: add, sub, abs, ctor -/
macro "c17_linear" : tactic => `(tactic| (c17_unfold; (try simp at *); c17_close))

instance (t : CTy) (v : Int) : Decidable (InR t v) := by unfold InR; infer_instance

theorem tdiv_lt_iff (L x y : Int) (hL : 0 ≤ L) (hy : 0 < y) : (Int.tdiv L y < x) ↔ (L < x * y) := by
  rw [Int.tdiv_eq_ediv_of_nonneg hL, Int.ediv_lt_iff_lt_mul hy]

theorem tdiv_bounds (L y : Int) (hL : 0 ≤ L) (hy : 0 < y) : 0 ≤ Int.tdiv L y ∧ Int.tdiv L y ≤ L := by
  rw [Int.tdiv_eq_ediv_of_nonneg hL]
  constructor
  · exact Int.ediv_nonneg hL (Int.le_of_lt hy)
  · exact Int.ediv_le_self _ hL

theorem emod_shift_id (v h m : Int) (h1 : 0 ≤ v + h) (h2 : v + h < m) : (v + h) % m - h = v := by
  rw [Int.emod_eq_of_lt h1 h2]; omega

macro "c17_defs" : tactic => `(tactic| simp only [InR, spec, cnot, clt, cgt, cle, cge, ceq, cne, tobool, cand, cor, conv, csub, cadd, cmul, cneg, cdiv, arith,
    CTy.wrap, CTy.lo, CTy.hi, tBool, tSC, tUC, tS, tUS, tI, tU, tL, tUL, tLL, tULL] at *)

/- one sign case of the multiplication proof: `x = |a|`, `y = |b| > 0`, `l` the limit used by the code.
    The only non-linear fact needed is `l / y < x ↔ l < x * y`; the rest is `omega` with `a * b` as an atom. -/
set_option hygiene false in
macro "c17_mul_case" x:term "," y:term "," l:term : tactic => `(tactic| (
  have hq := tdiv_lt_iff $l $x $y (by c17_defs; omega) (by omega)
  have hqb := tdiv_bounds $l $y (by c17_defs; omega) (by omega)
  have hsg : 0 ≤ $x * $y := Int.mul_nonneg (by omega) (by omega)
  c17_defs
  simp [Int.neg_mul, Int.mul_neg] at *
  try simp (disch := omega) only [emod_shift_id, Int.emod_eq_of_lt] at *
  try simp [Int.neg_mul, Int.mul_neg] at *
  repeat' (first | omega | split | simp_all)))

/- `operator*`: rewrite the `SafeAbs` calls with their own theorems, split on the operand signs -/
set_option hygiene false in
macro "c17_mul_tac" t:term "," absthm:ident : tactic => `(tactic| (
  unfold_safeint_noabs
  have hmin := $absthm:ident (CTy.lo $t) (by simp [InR, CTy.lo, CTy.hi, tSC, tUC, tS, tUS, tI, tU, tL, tUL, tLL, tULL])
  simp [CTy.lo, tSC, tUC, tS, tUS, tI, tU, tL, tUL, tLL, tULL] at hmin
  simp only [hmin, Outcome.bind_ret]
  simp (disch := first | assumption | (simp [InR, CTy.lo, CTy.hi, tSC, tUC, tS, tUS, tI, tU, tL, tUL, tLL, tULL]; done)) only [$absthm:ident, Outcome.bind_ret]
  rcases Int.lt_or_le a 0 with ha0 | ha0 <;> rcases Int.lt_or_le b 0 with hb0 | hb0
  · first | (exfalso; c17_defs; omega) | c17_mul_case (-a), (-b), (CTy.hi $t)
  · first | (exfalso; c17_defs; omega) | skip
    rcases Int.lt_or_le 0 b with hb1 | hb1
    · c17_mul_case (-a), b, (-(CTy.lo $t))
    · have : b = 0 := by omega
      subst this; c17_defs; simp at *; repeat' (first | omega | split | simp_all)
  · first | (exfalso; c17_defs; omega) | c17_mul_case a, (-b), (-(CTy.lo $t))
  · rcases Int.lt_or_le 0 b with hb1 | hb1
    · c17_mul_case a, b, (CTy.hi $t)
    · have : b = 0 := by omega
      subst this; c17_defs; simp at *; repeat' (first | omega | split | simp_all)))

end MpVerif.C17

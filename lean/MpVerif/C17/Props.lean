import MpVerif.C17.Lemmas
/-!
# C17 — checked integer arithmetic is exact or raises overflow, never wraps

Property theorems only.  The definitions `add_*`, `sub_*`, `mul_*`, `abs_*`,
`ctor_<from>_<to>` are *generated on every run* from `include/mp/safeint.h` by
`translators/gen_safeint.py` (clang's typed AST of each template instantiation),
so each theorem is re-checked against what the code says now.

For every instantiation and **all** operands representable in the operand type:
the function returns the mathematically exact result if it is representable in
the target type and throws otherwise; in particular it never yields `ub`
(signed overflow, division by zero) and never a wrapped value.
-/
namespace MpVerif.C17
open MpVerif.CSem MpVerif.Gen.SafeInt

macro "c17_bin" name:ident fn:ident t:ident op:term : command =>
  `(theorem $name (a b : Int) (ha : InR $t a) (hb : InR $t b) : $fn a b = spec $t ($op a b) := by c17_linear)
set_option hygiene false in
macro "c17_mul" name:ident fn:ident t:ident absthm:ident : command =>
  `(theorem $name (a b : Int) (ha : InR $t a) (hb : InR $t b) : $fn a b = spec $t (a * b) := by c17_mul_tac $t, $absthm)
macro "c17_abs" name:ident fn:ident t:ident : command =>
  `(theorem $name (a : Int) (ha : InR $t a) : $fn a = Outcome.ret (if a < 0 then -a else a) := by c17_linear)
macro "c17_ctor" name:ident fn:ident u:ident t:ident : command =>
  `(theorem $name (v : Int) (hv : InR $u v) : $fn v = spec $t v := by c17_linear)

c17_bin C17_add_sc add_sc tSC (· + ·)
c17_bin C17_add_uc add_uc tUC (· + ·)
c17_bin C17_add_s add_s tS (· + ·)
c17_bin C17_add_us add_us tUS (· + ·)
c17_bin C17_add_i add_i tI (· + ·)
c17_bin C17_add_u add_u tU (· + ·)
c17_bin C17_add_l add_l tL (· + ·)
c17_bin C17_add_ul add_ul tUL (· + ·)
c17_bin C17_add_ll add_ll tLL (· + ·)
c17_bin C17_add_ull add_ull tULL (· + ·)
c17_bin C17_sub_sc sub_sc tSC (· - ·)
c17_bin C17_sub_uc sub_uc tUC (· - ·)
c17_bin C17_sub_s sub_s tS (· - ·)
c17_bin C17_sub_us sub_us tUS (· - ·)
c17_bin C17_sub_i sub_i tI (· - ·)
c17_bin C17_sub_u sub_u tU (· - ·)
c17_bin C17_sub_l sub_l tL (· - ·)
c17_bin C17_sub_ul sub_ul tUL (· - ·)
c17_bin C17_sub_ll sub_ll tLL (· - ·)
c17_bin C17_sub_ull sub_ull tULL (· - ·)
c17_abs C17_abs_sc abs_sc tSC
c17_abs C17_abs_uc abs_uc tUC
c17_abs C17_abs_s abs_s tS
c17_abs C17_abs_us abs_us tUS
c17_abs C17_abs_i abs_i tI
c17_abs C17_abs_u abs_u tU
c17_abs C17_abs_l abs_l tL
c17_abs C17_abs_ul abs_ul tUL
c17_abs C17_abs_ll abs_ll tLL
c17_abs C17_abs_ull abs_ull tULL
c17_mul C17_mul_sc mul_sc tSC C17_abs_sc
c17_mul C17_mul_uc mul_uc tUC C17_abs_uc
c17_mul C17_mul_s mul_s tS C17_abs_s
c17_mul C17_mul_us mul_us tUS C17_abs_us
c17_mul C17_mul_i mul_i tI C17_abs_i
c17_mul C17_mul_u mul_u tU C17_abs_u
c17_mul C17_mul_l mul_l tL C17_abs_l
c17_mul C17_mul_ul mul_ul tUL C17_abs_ul
c17_mul C17_mul_ll mul_ll tLL C17_abs_ll
c17_mul C17_mul_ull mul_ull tULL C17_abs_ull
c17_ctor C17_ctor_sc_uc ctor_sc_uc tSC tUC
c17_ctor C17_ctor_sc_s ctor_sc_s tSC tS
c17_ctor C17_ctor_sc_us ctor_sc_us tSC tUS
c17_ctor C17_ctor_sc_i ctor_sc_i tSC tI
c17_ctor C17_ctor_sc_u ctor_sc_u tSC tU
c17_ctor C17_ctor_sc_l ctor_sc_l tSC tL
c17_ctor C17_ctor_sc_ul ctor_sc_ul tSC tUL
c17_ctor C17_ctor_sc_ll ctor_sc_ll tSC tLL
c17_ctor C17_ctor_sc_ull ctor_sc_ull tSC tULL
c17_ctor C17_ctor_uc_sc ctor_uc_sc tUC tSC
c17_ctor C17_ctor_uc_s ctor_uc_s tUC tS
c17_ctor C17_ctor_uc_us ctor_uc_us tUC tUS
c17_ctor C17_ctor_uc_i ctor_uc_i tUC tI
c17_ctor C17_ctor_uc_u ctor_uc_u tUC tU
c17_ctor C17_ctor_uc_l ctor_uc_l tUC tL
c17_ctor C17_ctor_uc_ul ctor_uc_ul tUC tUL
c17_ctor C17_ctor_uc_ll ctor_uc_ll tUC tLL
c17_ctor C17_ctor_uc_ull ctor_uc_ull tUC tULL
c17_ctor C17_ctor_s_sc ctor_s_sc tS tSC
c17_ctor C17_ctor_s_uc ctor_s_uc tS tUC
c17_ctor C17_ctor_s_us ctor_s_us tS tUS
c17_ctor C17_ctor_s_i ctor_s_i tS tI
c17_ctor C17_ctor_s_u ctor_s_u tS tU
c17_ctor C17_ctor_s_l ctor_s_l tS tL
c17_ctor C17_ctor_s_ul ctor_s_ul tS tUL
c17_ctor C17_ctor_s_ll ctor_s_ll tS tLL
c17_ctor C17_ctor_s_ull ctor_s_ull tS tULL
c17_ctor C17_ctor_us_sc ctor_us_sc tUS tSC
c17_ctor C17_ctor_us_uc ctor_us_uc tUS tUC
c17_ctor C17_ctor_us_s ctor_us_s tUS tS
c17_ctor C17_ctor_us_i ctor_us_i tUS tI
c17_ctor C17_ctor_us_u ctor_us_u tUS tU
c17_ctor C17_ctor_us_l ctor_us_l tUS tL
c17_ctor C17_ctor_us_ul ctor_us_ul tUS tUL
c17_ctor C17_ctor_us_ll ctor_us_ll tUS tLL
c17_ctor C17_ctor_us_ull ctor_us_ull tUS tULL
c17_ctor C17_ctor_i_sc ctor_i_sc tI tSC
c17_ctor C17_ctor_i_uc ctor_i_uc tI tUC
c17_ctor C17_ctor_i_s ctor_i_s tI tS
c17_ctor C17_ctor_i_us ctor_i_us tI tUS
c17_ctor C17_ctor_i_u ctor_i_u tI tU
c17_ctor C17_ctor_i_l ctor_i_l tI tL
c17_ctor C17_ctor_i_ul ctor_i_ul tI tUL
c17_ctor C17_ctor_i_ll ctor_i_ll tI tLL
c17_ctor C17_ctor_i_ull ctor_i_ull tI tULL
c17_ctor C17_ctor_u_sc ctor_u_sc tU tSC
c17_ctor C17_ctor_u_uc ctor_u_uc tU tUC
c17_ctor C17_ctor_u_s ctor_u_s tU tS
c17_ctor C17_ctor_u_us ctor_u_us tU tUS
c17_ctor C17_ctor_u_i ctor_u_i tU tI
c17_ctor C17_ctor_u_l ctor_u_l tU tL
c17_ctor C17_ctor_u_ul ctor_u_ul tU tUL
c17_ctor C17_ctor_u_ll ctor_u_ll tU tLL
c17_ctor C17_ctor_u_ull ctor_u_ull tU tULL
c17_ctor C17_ctor_l_sc ctor_l_sc tL tSC
c17_ctor C17_ctor_l_uc ctor_l_uc tL tUC
c17_ctor C17_ctor_l_s ctor_l_s tL tS
c17_ctor C17_ctor_l_us ctor_l_us tL tUS
c17_ctor C17_ctor_l_i ctor_l_i tL tI
c17_ctor C17_ctor_l_u ctor_l_u tL tU
c17_ctor C17_ctor_l_ul ctor_l_ul tL tUL
c17_ctor C17_ctor_l_ll ctor_l_ll tL tLL
c17_ctor C17_ctor_l_ull ctor_l_ull tL tULL
c17_ctor C17_ctor_ul_sc ctor_ul_sc tUL tSC
c17_ctor C17_ctor_ul_uc ctor_ul_uc tUL tUC
c17_ctor C17_ctor_ul_s ctor_ul_s tUL tS
c17_ctor C17_ctor_ul_us ctor_ul_us tUL tUS
c17_ctor C17_ctor_ul_i ctor_ul_i tUL tI
c17_ctor C17_ctor_ul_u ctor_ul_u tUL tU
c17_ctor C17_ctor_ul_l ctor_ul_l tUL tL
c17_ctor C17_ctor_ul_ll ctor_ul_ll tUL tLL
c17_ctor C17_ctor_ul_ull ctor_ul_ull tUL tULL
c17_ctor C17_ctor_ll_sc ctor_ll_sc tLL tSC
c17_ctor C17_ctor_ll_uc ctor_ll_uc tLL tUC
c17_ctor C17_ctor_ll_s ctor_ll_s tLL tS
c17_ctor C17_ctor_ll_us ctor_ll_us tLL tUS
c17_ctor C17_ctor_ll_i ctor_ll_i tLL tI
c17_ctor C17_ctor_ll_u ctor_ll_u tLL tU
c17_ctor C17_ctor_ll_l ctor_ll_l tLL tL
c17_ctor C17_ctor_ll_ul ctor_ll_ul tLL tUL
c17_ctor C17_ctor_ll_ull ctor_ll_ull tLL tULL
c17_ctor C17_ctor_ull_sc ctor_ull_sc tULL tSC
c17_ctor C17_ctor_ull_uc ctor_ull_uc tULL tUC
c17_ctor C17_ctor_ull_s ctor_ull_s tULL tS
c17_ctor C17_ctor_ull_us ctor_ull_us tULL tUS
c17_ctor C17_ctor_ull_i ctor_ull_i tULL tI
c17_ctor C17_ctor_ull_u ctor_ull_u tULL tU
c17_ctor C17_ctor_ull_l ctor_ull_l tULL tL
c17_ctor C17_ctor_ull_ul ctor_ull_ul tULL tUL
c17_ctor C17_ctor_ull_ll ctor_ull_ll tULL tLL

/-! Mixed-operand operators `SafeInt<T1> op T2` (used by the allocation-size computations in
    expr.h / problem.h): the plain operand is first converted with the checked constructor. -/
theorem C17_mixadd_i_i (a b : Int) (ha : InR tI a) (hb : InR tI b) : mixadd_i_i a b = spec tI (a + b) := by
  simp only [mixadd_i_i, SafeInt_v__i, Outcome.bind_ret]; exact C17_add_i a b ha hb
theorem C17_mixmul_i_i (a b : Int) (ha : InR tI a) (hb : InR tI b) : mixmul_i_i a b = spec tI (a * b) := by
  simp only [mixmul_i_i, SafeInt_v__i, Outcome.bind_ret]; exact C17_mul_i a b ha hb
theorem C17_mixadd_ul_ul (a b : Int) (ha : InR tUL a) (hb : InR tUL b) : mixadd_ul_ul a b = spec tUL (a + b) := by
  simp only [mixadd_ul_ul, SafeInt_v__ul, Outcome.bind_ret]; exact C17_add_ul a b ha hb
theorem C17_mixadd_i_ul (a b : Int) (ha : InR tI a) (hb : InR tUL b) :
    mixadd_i_ul a b = if InR tI b then spec tI (a + b) else .throw := by
  simp only [mixadd_i_ul, C17_ctor_ul_i b hb, spec]
  split
  · rename_i h; simp only [Outcome.bind_ret, if_pos (show InR tI b from h)]; exact C17_add_i a b ha h
  · rename_i h; simp only [Outcome.bind_throw, if_neg (show ¬ InR tI b from h)]
theorem C17_mixmul_i_ul (a b : Int) (ha : InR tI a) (hb : InR tUL b) :
    mixmul_i_ul a b = if InR tI b then spec tI (a * b) else .throw := by
  simp only [mixmul_i_ul, C17_ctor_ul_i b hb, spec]
  split
  · rename_i h; simp only [Outcome.bind_ret, if_pos (show InR tI b from h)]; exact C17_mul_i a b ha h
  · rename_i h; simp only [Outcome.bind_throw, if_neg (show ¬ InR tI b from h)]

/-- reversed form `T1 op SafeInt<T2>` (src/asl/aslbuilder.cc: `sizeof(..) + SafeInt<int>(..)`): the plain
    left operand is first converted with the checked constructor. -/
theorem C17_revadd_ul_i (a b : Int) (ha : InR tUL a) (hb : InR tI b) :
    revadd_ul_i a b = if InR tI a then spec tI (a + b) else .throw := by
  simp only [revadd_ul_i, C17_ctor_ul_i a ha, spec]
  split
  · rename_i h; simp only [Outcome.bind_ret, if_pos (show InR tI a from h)]; exact C17_add_i a b h hb
  · rename_i h; simp only [Outcome.bind_throw, if_neg (show ¬ InR tI a from h)]

/-- never undefined behaviour, as a corollary (shown for one instantiation of each shape;
    every theorem above has `spec` on the right-hand side, and `spec_ne_ub` applies to all) -/
theorem C17_no_ub_add_i (a b : Int) (ha : InR tI a) (hb : InR tI b) : add_i a b ≠ .ub := by
  rw [C17_add_i a b ha hb]; exact spec_ne_ub _ _
theorem C17_no_ub_mul_l (a b : Int) (ha : InR tL a) (hb : InR tL b) : mul_l a b ≠ .ub := by
  rw [C17_mul_l a b ha hb]; exact spec_ne_ub _ _

-- non-vacuity: the hypotheses are satisfiable and both branches of `spec` occur
example : InR tI 2147483647 ∧ InR tI 1 ∧ add_i 2147483647 1 = .throw := by decide
example : InR tI 2 ∧ InR tI 3 ∧ add_i 2 3 = .ret 5 := by decide
example : mul_i (-1073741824) 2 = .ret (-2147483648) := by decide
example : sub_ul 5 3 = .ret 2 ∧ sub_ul 3 5 = .throw := by decide
end MpVerif.C17

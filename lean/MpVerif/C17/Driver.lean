import MpVerif.Gen.SafeInt
import Std.Data.HashMap
/-! Line driver for C17: `<name> <a> <b> ...` ↦ outcome of the generated definition. -/
open MpVerif.CSem MpVerif.Gen.SafeInt

def lookupTable : Std.HashMap String (Int → Int → Outcome Int) :=
  table.foldl (fun m (k, f) => m.insert k f) {}

partial def loop (h : IO.FS.Stream) (out : IO.FS.Stream) : IO Unit := do
  let line ← h.getLine
  if line.isEmpty then return ()
  match line.trimAscii.toString.splitOn " " with
  | name :: a :: b :: _ =>
    match lookupTable[name]?, a.toInt?, b.toInt? with
    | some f, some x, some y => out.putStrLn (f x y).toStr
    | _, _, _ => out.putStrLn "bad-op"
  | _ => out.putStrLn "bad-op"
  loop h out

def main : IO Unit := do
  let out ← IO.getStdout
  loop (← IO.getStdin) out

import MpVerif.C15.Model
/-!
# C15 — re-entrance: a second signal arriving while `HandleSigInt` runs

`Model.lean` treats one delivery as atomic.  Here the handler is split into its own steps (in the order of the
source, `++stop_` as a load and a store because a nested handler can run between them) and ONE nested delivery of a
signal `g'` is allowed in any gap `k` of the outer handler for `g`:

* glibc `signal()` (`Mode.bsd`): the handler for `g` runs with `g` blocked, other signals are not: `g' ≠ g` nests,
  `g' = g` is held back until the outer handler has returned;
* SysV (`Mode.sysv`: `SA_RESETHAND | SA_NODEFER`): anything nests, and `g` itself meets the default action.

The nested handler itself is atomic (under `bsd` both signals are blocked inside it).  Core Lean only.
-/
namespace MpVerif.C15

/-- the steps of `HandleSigInt` after entry -/
inductive HStep
  | write        -- the message loop
  | exitTest     -- `if (stop_ > 1) _exit(1);`
  | loadStop     -- `++stop_`: read …
  | storeStop    -- … and write back
  | callback     -- `if (handler = handler_) handler(data_);`
  | rearm        -- `signal(sig, HandleSigInt)`
  deriving DecidableEq, Repr

def handlerSteps : List HStep := [.write, .exitTest, .loadStop, .storeStop, .callback, .rearm]

/-- handler-local configuration: global state, the value `++stop_` has loaded, observations so far -/
structure HCfg where
  s : St
  tmp : Nat
  obs : List Obs
  deriving Repr

def hStep (md : Mode) (g : Sig) (c : HCfg) : HStep → HCfg
  | .write => { c with obs := c.obs ++ [writeObs md c.s] }
  | .exitTest =>
    if c.s.stop > 1 then { c with s := { c.s with halted := some .exit1 }, obs := c.obs ++ [.exit1] } else c
  | .loadStop => { c with tmp := c.s.stop }
  | .storeStop => { c with s := { c.s with stop := c.tmp + 1 } }
  | .callback => if c.s.handler ≠ 0 then { c with obs := c.obs ++ [.cb c.s.handler c.s.data] } else c
  | .rearm => { c with s := c.s.setDisp g true, obs := c.obs ++ [.rearm g] }

/-- run handler steps; nothing happens any more once the process has exited -/
def hRun (md : Mode) (g : Sig) : List HStep → HCfg → HCfg
  | [], c => c
  | st :: r, c => if c.s.halted.isSome then c else hRun md g r (hStep md g c st)

def entryState (md : Mode) (s : St) (g : Sig) : St :=
  match md.sem with
  | .bsd => s
  | .sysv => s.setDisp g false

/-- the outer signal `g` is delivered; after `k` steps of its handler the signal `g'` arrives -/
def deliverNested (md : Mode) (s : St) (g g' : Sig) (k : Nat) : St × List Obs :=
  if s.disp g = false then ({ s with halted := some (.killed g) }, [.killed g])
  else
    let c1 := hRun md g (handlerSteps.take k) ⟨entryState md s g, 0, []⟩
    if c1.s.halted.isSome then (c1.s, c1.obs)
    else if md.sem = .bsd ∧ g' = g then
      -- blocked while the handler runs: delivered when it has returned
      let c2 := hRun md g (handlerSteps.drop k) c1
      if c2.s.halted.isSome then (c2.s, c2.obs)
      else
        let d := deliver md c2.s g'
        (d.1, c2.obs ++ d.2)
    else
      let d := deliver md c1.s g'
      if d.1.halted.isSome then (d.1, c1.obs ++ d.2)
      else
        let c3 := hRun md g (handlerSteps.drop k) ⟨d.1, c1.tmp, c1.obs ++ d.2⟩
        (c3.s, c3.obs)

/-- where the harness can make a nested signal arrive in the real code without further call-outs: inside
    `write(2)` (after the text has been written), inside the callback, inside the re-arming `signal()` call -/
inductive NestAt | inWrite | inCallback | inRearm
  deriving DecidableEq, Repr

/-- the gap of the outer handler that corresponds to such a place; `none`: the place is not reached
    (no callback registered: the callback is not called, nothing can be raised from it) -/
def NestAt.gap (s : St) : NestAt → Option Nat
  | .inWrite => some 1
  | .inCallback => if s.handler ≠ 0 then some 5 else none
  | .inRearm => some 5

/-- delivery of `g` with `g'` raised at the given place of its handler (what the line driver runs) -/
def deliverNestedAt (md : Mode) (s : St) (g g' : Sig) (at_ : NestAt) : St × List Obs :=
  match at_.gap s with
  | some k => deliverNested md s g g' k     -- (if the outer handler exits before the place, nothing is raised)
  | none => deliver md s g

/-! ## schedules with nested deliveries (what the line driver runs) -/

/-- one scheduled delivery: the signal, and optionally a second one raised at a place inside its handler -/
structure SigSpec where
  g : Sig
  nested : Option (Sig × NestAt)
  deriving DecidableEq, Repr

inductive EvN
  | step (m : Micro)
  | sig (sp : SigSpec)
  deriving DecidableEq, Repr

def execN (md : Mode) (s : St) (e : EvN) : St × List Obs :=
  match e with
  | .step m => exec md s (.step m)
  | .sig ⟨g, none⟩ => exec md s (.sig g)
  | .sig ⟨g, some (g', p)⟩ => if s.halted.isSome then (s, []) else deliverNestedAt md s g g' p

def traceN (md : Mode) : St → List EvN → List (EvN × List Obs × St)
  | _, [] => []
  | s, e :: r =>
    let p := execN md s e
    (e, p.2, p.1) :: traceN md p.1 r

def scheduleN : List Micro → Nat → List (Nat × SigSpec) → List EvN
  | [], _, sch => sch.map (fun p => .sig p.2)
  | m :: ms, i, sch =>
    (sch.takeWhile (fun p => p.1 ≤ i)).map (fun p => .sig p.2)
      ++ .step m :: scheduleN ms (i + 1) (sch.dropWhile (fun p => p.1 ≤ i))

def validSchedN (n : Nat) : List (Nat × SigSpec) → Bool
  | [] => true
  | [p] => p.1 ≤ n
  | p :: q :: r => p.1 ≤ q.1 && validSchedN n (q :: r)

def runN (md : Mode) : St → List EvN → St × List Obs
  | s, [] => (s, [])
  | s, e :: r =>
    let p := execN md s e
    let q := runN md p.1 r
    (q.1, p.2 ++ q.2)

/-- forget the nesting information -/
def EvN.plain : EvN → Ev
  | .step m => .step m
  | .sig sp => .sig sp.g

/-- how many interrupts one scheduled delivery amounts to in state `s`: 2 if a second signal is raised inside the handler
    and the place is reached (no callback registered: nothing is raised from the callback), else 1 -/
def SigSpec.weight (s : St) (sp : SigSpec) : Nat :=
  match sp.nested with
  | none => 1
  | some (_, p) => if (p.gap s).isSome then 2 else 1

/-- number of interrupts delivered along a schedule with nested deliveries (nested ones counted) -/
def weightN (md : Mode) : St → List EvN → Nat
  | _, [] => 0
  | s, e :: r => (match e with | .sig sp => sp.weight s | .step _ => 0) + weightN md (execN md s e).1 r

/-- the lifecycle automaton over schedules with nested deliveries (signals, nested or not, are not program steps) -/
def pcRunN (L : Layout) : PC → List EvN → Option PC
  | pc, [] => some pc
  | pc, .sig _ :: r => pcRunN L pc r
  | pc, .step m :: r =>
    match pcNext L pc m with
    | none => none
    | some pc' => pcRunN L pc' r

/-- body events of a schedule with nested deliveries -/
def BodyN : EvN → Bool
  | .sig _ => true
  | .step m => Body (.step m)

end MpVerif.C15

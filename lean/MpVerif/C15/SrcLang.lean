import MpVerif.C15.Model
/-!
# C15 — the statements of `SignalHandler` as they are written in `src/solver.cc`

`translators/gen_signal.py` reads the clang AST of the constructor, the destructor, `SetHandler`,
`HandleSigInt` and `Stop()` (plus `BasicSolver::Stop/SetHandler/set_interrupter`) and emits, on every run,
`MpVerif/Gen/Signal.lean`: one list of the statements below per C++ function, *in source order*.  This file
gives these statements their meaning in terms of the hand model (`Model.lean`); `Props.lean` proves
(`C15_gen_*`) that the model's step lists / `deliver` / `stopQuery` are exactly what the generated lists mean.
So reordering two stores, changing a constant, a comparison, the exit code, dropping the re-arm … breaks a
proof obligation.  Anything in those function bodies that is not one of these statement shapes makes the
translator fail loudly.  Core Lean only.
-/
namespace MpVerif.C15.Src

/-- the static cells of `SignalHandler` -/
inductive Cell | stop | handler | data | msgPtr | msgSize
  deriving DecidableEq, Repr

/-- right-hand sides that occur in the stores -/
inductive Rhs
  | lit (n : Nat)            -- integer literal (a null pointer constant is `lit 0`)
  | param (name : String)    -- a parameter of the function
  | msgCStr                  -- `message_.c_str()`
  | msgLen                   -- `static_cast<unsigned>(message_.size())`
  deriving DecidableEq, Repr

/-- how a static cell is declared: the model assumes that every load of a cell reads memory and every store writes it
    (no value cached in a register across a signal delivery) — which is what `volatile` (for `stop_`) or
    `std::atomic` (for the others) provides -/
structure CellDecl where
  isVolatile : Bool
  isAtomic : Bool
  base : String
  deriving DecidableEq, Repr

/-- the modelled assumption "loads read memory, stores write memory" holds for a cell declared like this -/
def CellDecl.accessesMemory (d : CellDecl) : Bool := d.isVolatile || d.isAtomic

inductive IntrArg | this | null
  deriving DecidableEq, Repr

/-- straight-line statements of the constructor, destructor and `SetHandler` -/
inductive Stmt
  | point (name : String)              -- `MP_VERIF_POINT("name")` (guarded call-out, no effect)
  | initMember (name : String)         -- constructor initializer of a member, in the order written
  | setInterrupter (a : IntrArg)       -- `solver_.set_interrupter(this)` / `(0)`
  | store (c : Cell) (r : Rhs)         -- `cell = rhs`
  | signalInstall (signo : Nat)        -- `std::signal(<signo>, HandleSigInt)`
  deriving DecidableEq, Repr

inductive Cmp | eq | ne | lt | le | gt | ge
  deriving DecidableEq, Repr

def Cmp.eval : Cmp → Nat → Nat → Bool
  | .eq, a, b => a == b
  | .ne, a, b => a != b
  | .lt, a, b => a < b
  | .le, a, b => a ≤ b
  | .gt, a, b => a > b
  | .ge, a, b => a ≥ b

/-- statements of `HandleSigInt` -/
inductive HStmt
  | point (name : String)
  /-- `unsigned count = 0; do { int result = write(fd, signal_message_ptr_ + count, signal_message_size_ - count);
      if (result < 0) break; count += result; } while (count < signal_message_size_);` -/
  | writeLoop (fd : Nat)
  | ifStopExit (op : Cmp) (k : Nat) (code : Nat)   -- `if (stop_ <op> k) { _exit(code); }`
  | incStop                                         -- `++stop_`
  | ifHandlerCallWithData                           -- `if (InterruptHandler handler = handler_) handler(data_);`
  | signalSelf                                      -- `std::signal(sig, HandleSigInt)` (`sig` = the parameter)
  deriving DecidableEq, Repr

/-- `return stop_ <op> k;` -/
structure StopFn where
  op : Cmp
  k : Nat
  deriving DecidableEq, Repr

/-! ## meaning in terms of the model -/

def SIGINT : Nat := 2
def SIGTERM : Nat := 15

/-- constructor: member initializers then body.  Constructing `message_` is the model's `cAlloc`; `solver_`
    (a reference) and `repeater_` (empty on POSIX) have no counterpart in the model state. -/
def ctorMicro : Stmt → Option (List Micro)
  | .point _ => some []
  | .initMember "message_" => some [.cAlloc]
  | .initMember "base:mp::Interrupter" => some []     -- the abstract base class has no state
  | .initMember "solver_" => some []
  | .initMember "repeater_" => some []
  | .setInterrupter .this => some [.cIntr]
  | .store .msgPtr .msgCStr => some [.cPtr]
  | .store .msgSize .msgLen => some [.cSize]
  | .store .stop (.lit 0) => some [.cStop0]
  | .signalInstall n => if n = SIGINT then some [.cSigInt] else if n = SIGTERM then some [.cSigTerm] else none
  | _ => none

/-- destructor body (the destruction of `message_` follows it: the model's `dFree`) -/
def dtorMicro : Stmt → Option (List Micro)
  | .point _ => some []
  | .setInterrupter .null => some [.dIntr]
  | .store .stop (.lit 1) => some [.dStop1]
  | .store .handler (.lit 0) => some [.dH0]
  | .store .msgSize (.lit 0) => some [.dSize0]
  | _ => none

/-- `SetHandler(handler, data)` called with callback `h` and data `d` -/
def regMicro (h d : Nat) : Stmt → Option (List Micro)
  | .point _ => some []
  | .store .handler (.lit 0) => some [.setH 0]
  | .store .handler (.param "handler") => some [.setH h]
  | .store .data (.param "data") => some [.setD d]
  | _ => none

def collect (f : Stmt → Option (List Micro)) : List Stmt → Option (List Micro)
  | [] => some []
  | s :: r =>
    match f s, collect f r with
    | some a, some b => some (a ++ b)
    | _, _ => none

/-- every store is followed by its own call-out before the next store: the (step, call-out name) pairs, or `none`
    if two stores are not separated by a call-out / the last store has none -/
def named (f : Stmt → Option (List Micro)) : List Stmt → List Micro → Option (List (Micro × String))
  | [], [] => some []
  | [], _ :: _ => none
  | .point n :: r, [] => named f r []
  | .point n :: r, [m] => (named f r []).map (fun l => (m, n) :: l)
  | .point _ :: _, _ :: _ :: _ => none
  | s :: r, pending =>
    match f s with
    | none => none
    | some [] => named f r pending
    | some ms => if pending.isEmpty then named f r ms else none

/-- `HandleSigInt(sig)` entered with the handler installed; `none`: a construct the model has no notion of
    (another file descriptor, another exit status) -/
def runHandler (md : Mode) (g : Sig) : List HStmt → St → List Obs → Option (St × List Obs)
  | [], s, o => some (s, o)
  | .point _ :: r, s, o => runHandler md g r s o
  | .writeLoop fd :: r, s, o => if fd = 1 then runHandler md g r s (o ++ [writeObs md s]) else none
  | .ifStopExit op k code :: r, s, o =>
    if op.eval s.stop k then (if code = 1 then some ({ s with halted := some .exit1 }, o ++ [.exit1]) else none)
    else runHandler md g r s o
  | .incStop :: r, s, o => runHandler md g r { s with stop := s.stop + 1 } o
  | .ifHandlerCallWithData :: r, s, o =>
    runHandler md g r s (if s.handler ≠ 0 then o ++ [.cb s.handler s.data] else o)
  | .signalSelf :: r, s, o => runHandler md g r (s.setDisp g true) (o ++ [.rearm g])

/-- what the platform does on entry (`sysv`: disposition reset to the default action) -/
def onEntry (md : Mode) (s : St) (g : Sig) : St :=
  match md.sem with
  | .bsd => s
  | .sysv => s.setDisp g false

end MpVerif.C15.Src

/-!
# C15 — model of `mp::internal::SignalHandler` (src/solver.cc) as a small-step transition system

Program steps are the *individual stores* of the constructor, of `SetHandler` and of the
destructor, in the order in which the C++ text performs them; an asynchronous signal can be
delivered in any gap between two steps.  Signals are handled on the interrupted thread, so one
delivery (`HandleSigInt`) is atomic with respect to program steps.  Core Lean only.

C++ text mirrored (pinned commit):

```
SignalHandler::SignalHandler(BasicSolver &s) : solver_(s), message_(...), repeater_(...) {   -- cAlloc
  solver_.set_interrupter(this);                  -- cIntr
  signal_message_ptr_ = message_.c_str();         -- cPtr
  signal_message_size_ = message_.size();         -- cSize
  std::signal(SIGINT, HandleSigInt);              -- cSigInt
  std::signal(SIGTERM, HandleSigInt);             -- cSigTerm
  stop_ = 0; }                                    -- cStop0
SignalHandler::~SignalHandler() {
  solver_.set_interrupter(0);                     -- dIntr
  stop_ = 1;                                      -- dStop1
  handler_ = 0;                                   -- dH0
  signal_message_size_ = 0; }                     -- dSize0   (then message_ is destroyed: dFree)
void SignalHandler::SetHandler(InterruptHandler handler, void *data) {
  handler_ = handler;                             -- setH
  data_ = data; }                                 -- setD
void SignalHandler::HandleSigInt(int sig) {       -- deliver
  write(1, signal_message_ptr_, signal_message_size_);
  if (stop_>1) _exit(1);
  ++stop_;
  if (InterruptHandler handler = handler_) handler(data_);
  std::signal(sig, HandleSigInt); }
static initial values: stop_ = 1, everything else 0.
```
-/
namespace MpVerif.C15

inductive Sig | int | term
  deriving DecidableEq, Repr, Inhabited

/-- What `signal(2)` means on the platform: `bsd` (glibc): the handler stays installed while and
    after it runs; `sysv`: the disposition is reset to the default action when the handler is entered
    (this is why `HandleSigInt` re-arms itself). -/
inductive SigSem | bsd | sysv
  deriving DecidableEq, Repr

/-- The environment of a run: the meaning of `signal(2)` and the state of standard output.  `outOk = false`:
    `write(1, …)` fails (fd 1 closed, read-only, or the device is full); the handler's message loop then stops
    (`if (result < 0) break;`) and the handler goes on. -/
structure Mode where
  sem : SigSem
  outOk : Bool
  deriving DecidableEq, Repr

@[reducible] def Mode.bsd : Mode := ⟨.bsd, true⟩
@[reducible] def Mode.sysv : Mode := ⟨.sysv, true⟩

inductive Halt
  | exit1                 -- `_exit(1)` from the handler
  | killed (g : Sig)      -- default action of an unhandled SIGINT/SIGTERM
  deriving DecidableEq, Repr

/-- `signal_message_ptr_`: null, pointing into the live object's `message_`, or into a destroyed one. -/
inductive MsgPtr | null | live | dangling
  deriving DecidableEq, Repr

/-- `solver_.interrupter_`: the solver's own do-nothing interrupter, the live handler object, or a destroyed one. -/
inductive Intr | self | obj | dangling
  deriving DecidableEq, Repr

/-- length of "\n<BREAK> (solver)\n" -/
def msgLen : Nat := 18

structure St where
  stop : Nat          -- stop_ (volatile sig_atomic_t); `C15_stop_bounded`: never exceeds 2
  handler : Nat       -- handler_, 0 = null, otherwise the identity of a callback
  data : Nat          -- data_,    0 = null, otherwise the identity of a data object
  msgPtr : MsgPtr
  msgSize : Nat
  dispInt : Bool      -- SIGINT disposition is HandleSigInt (false: default action)
  dispTerm : Bool
  intr : Intr
  alive : Bool        -- a SignalHandler object (its `message_` string) exists
  halted : Option Halt
  deriving DecidableEq, Repr

/-- static initialisation -/
def init : St :=
  { stop := 1, handler := 0, data := 0, msgPtr := .null, msgSize := 0,
    dispInt := false, dispTerm := false, intr := .self, alive := false, halted := none }

def St.disp (s : St) : Sig → Bool
  | .int => s.dispInt
  | .term => s.dispTerm

def St.setDisp (s : St) (g : Sig) (b : Bool) : St :=
  match g with
  | .int => { s with dispInt := b }
  | .term => { s with dispTerm := b }

/-- `solver.interrupter()->Stop()`: `BasicSolver::Stop()` is constantly false, `SignalHandler::Stop()` is `stop_ != 0`. -/
def stopQuery (s : St) : Bool :=
  match s.intr with
  | .obj => s.stop != 0
  | _ => false

/-- individual program steps -/
inductive Micro
  | cAlloc | cIntr | cPtr | cSize | cSigInt | cSigTerm | cStop0
  | setH (h : Nat) | setD (d : Nat)
  | work
  | nreg (h d : Nat)      -- `interrupter()->SetHandler(h, d)` while no handler object exists: `BasicSolver::SetHandler` = no-op
  | dIntr | dStop1 | dH0 | dSize0 | dFree
  deriving DecidableEq, Repr

def applyMicro (s : St) : Micro → St
  | .cAlloc => { s with alive := true }
  | .cIntr => { s with intr := .obj }
  | .cPtr => { s with msgPtr := if s.alive then .live else .dangling }
  | .cSize => { s with msgSize := msgLen }
  | .cSigInt => { s with dispInt := true }
  | .cSigTerm => { s with dispTerm := true }
  | .cStop0 => { s with stop := 0 }
  | .setH h => { s with handler := h }
  | .setD d => { s with data := d }
  | .work => s
  | .nreg _ _ => s
  | .dIntr => { s with intr := .self }
  | .dStop1 => { s with stop := 1 }
  | .dH0 => { s with handler := 0 }
  | .dSize0 => { s with msgSize := 0 }
  | .dFree => { s with alive := false,
                       msgPtr := if s.msgPtr = .live then .dangling else s.msgPtr,
                       intr := if s.intr = .obj then .dangling else s.intr }

inductive Obs
  | killed (g : Sig)                 -- the process was terminated by the default action
  | brk (n : Nat) (ok : Bool)        -- `n` bytes of break text written; `ok`: not read from a dead/null string
  | brkFail                          -- `write(1, …)` failed: nothing written, the loop is left with `break`
  | exit1                            -- `_exit(1)`
  | cb (h d : Nat)                   -- callback `h` invoked with data `d`
  | rearm (g : Sig)                  -- `signal(g, HandleSigInt)` at the end of the handler
  | query (b : Bool)                 -- a work step asked `interrupter()->Stop()`
  deriving DecidableEq, Repr

/-- the message-writing loop of `HandleSigInt`: it only produces output (or fails to); it has no other effect -/
def writeObs (md : Mode) (s : St) : Obs :=
  if md.outOk then Obs.brk s.msgSize (s.msgSize == 0 || s.msgPtr == .live) else Obs.brkFail

/-- observations of the message-writing loop -/
def Obs.isWrite : Obs → Bool
  | .brk _ _ => true
  | .brkFail => true
  | _ => false

/-- everything observed except the output of the message-writing loop -/
def nonWrite (l : List Obs) : List Obs := l.filter (fun o => !o.isWrite)

/-- one asynchronous delivery of signal `g` -/
def deliver (md : Mode) (s : St) (g : Sig) : St × List Obs :=
  if s.disp g = false then ({ s with halted := some (.killed g) }, [.killed g])
  else
    let s1 := match md.sem with
      | .bsd => s
      | .sysv => s.setDisp g false
    let w := writeObs md s1
    if s1.stop > 1 then ({ s1 with halted := some .exit1 }, [w, .exit1])
    else
      let s2 := { s1 with stop := s1.stop + 1 }
      let c := if s2.handler ≠ 0 then [Obs.cb s2.handler s2.data] else []
      (s2.setDisp g true, w :: (c ++ [.rearm g]))

inductive Ev
  | step (m : Micro)
  | sig (g : Sig)
  deriving DecidableEq, Repr

/-- one event; nothing happens any more once the process has terminated -/
def exec (md : Mode) (s : St) (e : Ev) : St × List Obs :=
  if s.halted.isSome then (s, [])
  else match e with
    | .step m => (applyMicro s m, match m with | .work => [.query (stopQuery s)] | _ => [])
    | .sig g => deliver md s g

def run (md : Mode) : St → List Ev → St × List Obs
  | s, [] => (s, [])
  | s, e :: r =>
    let p := exec md s e
    let q := run md p.1 r
    (q.1, p.2 ++ q.2)

/-- per-event trace (what the line driver prints): event, observations of that event, state after it -/
def trace (md : Mode) : St → List Ev → List (Ev × List Obs × St)
  | _, [] => []
  | s, e :: r =>
    let p := exec md s e
    (e, p.2, p.1) :: trace md p.1 r

/-! ## Programs: the order of the stores as in the C++ text

The order of the stores inside the constructor and inside `SetHandler` is a parameter (`Layout`): the pinned
commit has `Layout.pinned`; the two proposed repairs (repo_patches/C15-fix-*.diff) are the other values.  The
check reads the layout off the real code (order of the hook call-outs) on every run and uses the matching one. -/

structure Layout where
  /-- constructor: `stop_ = 0` *before* the two `signal()` calls (repair) instead of after them (pinned) -/
  ctorStopFirst : Bool
  /-- SetHandler: `handler_ = 0; data_ = d; handler_ = h` (repair) instead of `handler_ = h; data_ = d` (pinned) -/
  regClearFirst : Bool
  /-- destructor: no `stop_ = 1` store (proposed repair repo_patches/C15-fix-dtor-keep-count.diff) instead of resetting
      the count of recorded interrupts to 1 (current code) -/
  dtorKeepsStop : Bool
  deriving DecidableEq, Repr

def Layout.pinned : Layout := ⟨false, false, false⟩
def Layout.fixed : Layout := ⟨true, true, false⟩
/-- all three repairs -/
def Layout.repaired : Layout := ⟨true, true, true⟩

/-- The store order of the code as it is now (ampl/mp 208050e: `stop_ = 0` before the `signal()` calls; 47cb42b:
    `handler_ = 0; data_ = d; handler_ = h`).  `checks/c15.py` reads the order off the real code (hook names) on every
    run, runs the model with the order it observed and reports a violation if that is not this one. -/
def Layout.current : Layout := Layout.fixed

inductive Macro
  | ctor | reg (h d : Nat) | work | dtor
  | nreg (h d : Nat)      -- registration attempt while no handler object exists
  deriving DecidableEq, Repr

def ctorSteps (L : Layout) : List Micro :=
  if L.ctorStopFirst then [.cAlloc, .cIntr, .cPtr, .cSize, .cStop0, .cSigInt, .cSigTerm]
  else [.cAlloc, .cIntr, .cPtr, .cSize, .cSigInt, .cSigTerm, .cStop0]
def regSteps (L : Layout) (h d : Nat) : List Micro :=
  if L.regClearFirst then [.setH 0, .setD d, .setH h] else [.setH h, .setD d]
def dtorSteps (L : Layout) : List Micro :=
  if L.dtorKeepsStop then [.dIntr, .dH0, .dSize0, .dFree] else [.dIntr, .dStop1, .dH0, .dSize0, .dFree]

def expand (L : Layout) : Macro → List Micro
  | .ctor => ctorSteps L
  | .reg h d => regSteps L h d
  | .work => [.work]
  | .dtor => dtorSteps L
  | .nreg h d => [.nreg h d]

def expandProg (L : Layout) : List Macro → List Micro
  | [] => []
  | m :: r => expand L m ++ expandProg L r

/-- the program steps of an event sequence -/
def steps : List Ev → List Micro
  | [] => []
  | .step m :: r => m :: steps r
  | .sig _ :: r => steps r

def sigCount : List Ev → Nat
  | [] => 0
  | .step _ :: r => sigCount r
  | .sig _ :: r => sigCount r + 1

/-- A schedule is a list of (gap, signal), gaps non-decreasing; the signal is delivered in gap `i`,
    i.e. before program step `i` (gap `n` = after the last step). -/
def schedule : List Micro → Nat → List (Nat × Sig) → List Ev
  | [], _, sch => sch.map (fun p => .sig p.2)
  | m :: ms, i, sch =>
    (sch.takeWhile (fun p => p.1 ≤ i)).map (fun p => .sig p.2)
      ++ .step m :: schedule ms (i + 1) (sch.dropWhile (fun p => p.1 ≤ i))

def validSched (n : Nat) : List (Nat × Sig) → Bool
  | [] => true
  | [p] => p.1 ≤ n
  | p :: q :: r => p.1 ≤ q.1 && validSched n (q :: r)

/-! ## Lifecycle automaton: which sequences of program steps a driver can produce

`idle` (no handler object) → constructor steps in the layout's order → `live r` (r = the last *completed*
registration of this object) → the stores of `SetHandler` in the layout's order (`mid r h`: pinned layout, between
`handler_ = h` and `data_ = d`; `clr` / `dat d`: repaired layout, after `handler_ = 0` / after `data_ = d`) →
`live (h, d)` … → destructor steps in order → `idle`.  Work steps are allowed while idle or live. -/

inductive PC
  | idle | cA | cI | cP | cZ
  | c0                       -- (ctorStopFirst) after `stop_ = 0`, before `signal(SIGINT, …)`
  | cS1                      -- after `signal(SIGINT, …)`
  | cS2                      -- (pinned) after `signal(SIGTERM, …)`, before `stop_ = 0`
  | live (r : Option (Nat × Nat))
  | mid (r : Option (Nat × Nat)) (h : Nat)
  | clr
  | dat (d : Nat)
  | dI (r : Option (Nat × Nat))
  | dS (r : Option (Nat × Nat))
  | dH | dZ
  deriving DecidableEq, Repr

def pcNext (L : Layout) : PC → Micro → Option PC
  | .idle, .cAlloc => some .cA
  | .idle, .work => some .idle
  | .idle, .nreg _ _ => some .idle
  | .cA, .cIntr => some .cI
  | .cI, .cPtr => some .cP
  | .cP, .cSize => some .cZ
  | .cZ, .cSigInt => if L.ctorStopFirst then none else some .cS1
  | .cZ, .cStop0 => if L.ctorStopFirst then some .c0 else none
  | .c0, .cSigInt => if L.ctorStopFirst then some .cS1 else none
  | .cS1, .cSigTerm => if L.ctorStopFirst then some (.live none) else some .cS2
  | .cS2, .cStop0 => if L.ctorStopFirst then none else some (.live none)
  | .live r, .setH h =>
    if L.regClearFirst then (if h = 0 then some .clr else none) else some (.mid r h)
  | .mid _ h, .setD d => if L.regClearFirst then none else some (.live (some (h, d)))
  | .clr, .setD d => if L.regClearFirst then some (.dat d) else none
  | .dat d, .setH h => if L.regClearFirst then some (.live (some (h, d))) else none
  | .live r, .work => some (.live r)
  | .live r, .dIntr => some (.dI r)
  | .dI r, .dStop1 => if L.dtorKeepsStop then none else some (.dS r)
  | .dI _, .dH0 => if L.dtorKeepsStop then some .dH else none
  | .dS _, .dH0 => some .dH
  | .dH, .dSize0 => some .dZ
  | .dZ, .dFree => some .idle
  | _, _ => none

def pcRun (L : Layout) : PC → List Ev → Option PC
  | pc, [] => some pc
  | pc, .sig _ :: r => pcRun L pc r
  | pc, .step m :: r =>
    match pcNext L pc m with
    | none => none
    | some pc' => pcRun L pc' r

def pcRunSteps (L : Layout) : PC → List Micro → Option PC
  | pc, [] => some pc
  | pc, m :: r =>
    match pcNext L pc m with
    | none => none
    | some pc' => pcRunSteps L pc' r

/-- well-formed macro program (what the harness and the driver accept) -/
def wfProg (L : Layout) (p : List Macro) : Bool := (pcRunSteps L .idle (expandProg L p)).isSome

/-! ## Vocabulary of the property statements -/

/-- events that can occur while a handler object is fully constructed and not yet being destroyed:
    signals, the stores of registrations, opaque solve/report steps -/
def Body : Ev → Bool
  | .sig _ => true
  | .step (.setH _) => true
  | .step (.setD _) => true
  | .step .work => true
  | _ => false

/-- "installed", conservative reading: the constructor has completed, the destructor has not begun -/
def PC.installed : PC → Bool
  | .live _ => true
  | .mid _ _ => true
  | .clr => true
  | .dat _ => true
  | _ => false

/-- "installed", strict reading, for SIGINT: this object's `signal(SIGINT, …)` call has been made and its
    destructor has not begun -/
def PC.installedInt : PC → Bool
  | .cS1 => true
  | .cS2 => true
  | pc => pc.installed

/-- the same for SIGTERM -/
def PC.installedTerm : PC → Bool
  | .cS2 => true
  | pc => pc.installed

def PC.installedFor (pc : PC) : Sig → Bool
  | .int => pc.installedInt
  | .term => pc.installedTerm

/-- events between a `signal()` call of the constructor and the destructor, *other than a store to `stop_`*:
    body events and the constructor's `signal()` calls -/
def BodyOrSignalCall : Ev → Bool
  | .step .cSigInt => true
  | .step .cSigTerm => true
  | e => Body e

/-- between the two stores of `SetHandler` -/
def PC.inWindow : PC → Bool
  | .mid _ _ => true
  | _ => false

/-- the last completed registration of the current handler object that is still in force -/
def PC.curReg : PC → Option (Nat × Nat)
  | .live r => r
  | .mid r _ => r
  | .dI r => r
  | .dS r => r
  | _ => none

/-- a step of the destructor -/
def isDtorStep : Ev → Bool
  | .step .dIntr => true
  | .step .dStop1 => true
  | .step .dH0 => true
  | .step .dSize0 => true
  | .step .dFree => true
  | _ => false

/-- no handler object exists (never constructed, or destructor body done past `handler_ = 0`), or it is still
    being constructed -/
def PC.noCallbackExpected : PC → Bool
  | .idle | .cA | .cI | .cP | .cZ | .c0 | .cS1 | .cS2 | .clr | .dat _ | .dH | .dZ => true
  | _ => false

end MpVerif.C15

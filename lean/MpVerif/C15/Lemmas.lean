import MpVerif.C15.Model
/-! Helper lemmas for C15: algebra of `run`, the lifecycle invariant `Inv` and its preservation. -/
namespace MpVerif.C15

/-! ### `exec` / `run` basics -/

theorem exec_halted (md : Mode) (s : St) (e : Ev) (h : s.halted.isSome = true) : exec md s e = (s, []) := by
  simp [exec, h]

theorem run_halted (md : Mode) (s : St) (evs : List Ev) (h : s.halted.isSome = true) : run md s evs = (s, []) := by
  induction evs with
  | nil => rfl
  | cons e r ih => simp [run, exec_halted md s e h, ih]

theorem run_nil (md : Mode) (s : St) : run md s [] = (s, []) := rfl

theorem run_cons (md : Mode) (s : St) (e : Ev) (r : List Ev) :
    run md s (e :: r) = ((run md (exec md s e).1 r).1, (exec md s e).2 ++ (run md (exec md s e).1 r).2) := rfl

theorem run_append (md : Mode) (s : St) (a b : List Ev) :
    run md s (a ++ b) = ((run md (run md s a).1 b).1, (run md s a).2 ++ (run md (run md s a).1 b).2) := by
  induction a generalizing s with
  | nil => simp [run]
  | cons e r ih => simp [run_cons, ih, List.append_assoc]

theorem deliver_halted_of (md : Mode) (s : St) (g : Sig) (h : (deliver md s g).1.halted = none) :
    s.halted = none := by
  unfold deliver at h
  obtain ⟨sem, w⟩ := md; cases sem <;> cases w <;> cases g <;> simp [St.disp, St.setDisp] at h <;> split at h <;> simp_all <;>
    (split at h <;> simp_all)

theorem exec_halted_of (md : Mode) (s : St) (e : Ev) (h : (exec md s e).1.halted = none) : s.halted = none := by
  cases hs : s.halted with
  | none => rfl
  | some x => simp [exec, hs] at h

theorem run_halted_of (md : Mode) (s : St) (evs : List Ev) (h : (run md s evs).1.halted = none) :
    s.halted = none := by
  induction evs generalizing s with
  | nil => simpa [run] using h
  | cons e r ih =>
    rw [run_cons] at h
    exact exec_halted_of md s e (ih _ h)

theorem exec_step (md : Mode) (s : St) (m : Micro) (h : s.halted = none) :
    exec md s (.step m) = (applyMicro s m, match m with | .work => [.query (stopQuery s)] | _ => []) := by
  cases m <;> simp [exec, h]

theorem exec_sig (md : Mode) (s : St) (g : Sig) (h : s.halted = none) :
    exec md s (.sig g) = deliver md s g := by
  simp [exec, h]

theorem applyMicro_halted (s : St) (m : Micro) : (applyMicro s m).halted = s.halted := by
  cases m <;> rfl

theorem steps_append (a b : List Ev) : steps (a ++ b) = steps a ++ steps b := by
  induction a with
  | nil => rfl
  | cons e r ih => cases e <;> simp [steps, ih]

theorem sigCount_append (a b : List Ev) : sigCount (a ++ b) = sigCount a + sigCount b := by
  induction a with
  | nil => simp [sigCount]
  | cons e r ih => cases e <;> simp [sigCount, ih] <;> omega

theorem pcRun_append (L : Layout) (pc : PC) (a b : List Ev) :
    pcRun L pc (a ++ b) = (pcRun L pc a).bind (fun pc' => pcRun L pc' b) := by
  induction a generalizing pc with
  | nil => simp [pcRun]
  | cons e r ih =>
    cases e with
    | sig g => simp [pcRun, ih]
    | step m =>
      simp only [List.cons_append, pcRun]
      cases pcNext L pc m with
      | none => simp
      | some pc' => simp [ih]

theorem pcRun_steps (L : Layout) (pc : PC) (evs : List Ev) : pcRun L pc evs = pcRunSteps L pc (steps evs) := by
  induction evs generalizing pc with
  | nil => rfl
  | cons e r ih =>
    cases e with
    | sig g => simp [pcRun, steps, ih]
    | step m =>
      simp only [pcRun, steps, pcRunSteps]
      cases pcNext L pc m with
      | none => rfl
      | some pc' => simp [ih]

/-- the events produced by `schedule` contain exactly the given program steps, in order -/
theorem steps_schedule (ms : List Micro) (i : Nat) (sch : List (Nat × Sig)) :
    steps (schedule ms i sch) = ms := by
  have hsig : ∀ l : List (Nat × Sig), steps (l.map (fun p => Ev.sig p.2)) = [] := by
    intro l; induction l with
    | nil => rfl
    | cons a r ih => simp [steps, ih]
  induction ms generalizing i sch with
  | nil => simp [schedule, hsig]
  | cons m r ih => simp [schedule, steps_append, hsig, steps, ih]

/-! ### The lifecycle invariant -/

/-- the registered pair as far as the state is concerned -/
def regOK (r : Option (Nat × Nat)) (s : St) : Prop :=
  match r with
  | none => s.handler = 0
  | some (h, d) => s.handler = h ∧ s.data = d

/-- What holds of the state at each point of a well-formed lifecycle program, whatever signals were
    delivered so far (as long as the process is still running). -/
def Inv (pc : PC) (s : St) : Prop :=
  s.stop ≤ 2 ∧
  match pc with
  | .idle => s.handler = 0 ∧ s.msgSize = 0 ∧ s.intr = .self ∧ s.alive = false ∧ s.msgPtr ≠ .live
  | .cA => s.handler = 0 ∧ s.msgSize = 0 ∧ s.intr = .self ∧ s.alive = true ∧ s.msgPtr ≠ .live
  | .cI => s.handler = 0 ∧ s.msgSize = 0 ∧ s.intr = .obj ∧ s.alive = true
  | .cP => s.handler = 0 ∧ s.msgSize = 0 ∧ s.intr = .obj ∧ s.alive = true ∧ s.msgPtr = .live
  | .cZ => s.handler = 0 ∧ s.msgSize = msgLen ∧ s.intr = .obj ∧ s.alive = true ∧ s.msgPtr = .live
  | .c0 => s.handler = 0 ∧ s.msgSize = msgLen ∧ s.intr = .obj ∧ s.alive = true ∧ s.msgPtr = .live
  | .cS1 => s.handler = 0 ∧ s.msgSize = msgLen ∧ s.intr = .obj ∧ s.alive = true ∧ s.msgPtr = .live ∧
      s.dispInt = true
  | .cS2 => s.handler = 0 ∧ s.msgSize = msgLen ∧ s.intr = .obj ∧ s.alive = true ∧ s.msgPtr = .live ∧
      s.dispInt = true ∧ s.dispTerm = true
  | .live r => regOK r s ∧ s.msgSize = msgLen ∧ s.intr = .obj ∧ s.alive = true ∧ s.msgPtr = .live ∧
      s.dispInt = true ∧ s.dispTerm = true
  | .mid r h => s.handler = h ∧ (∀ h0 d0, r = some (h0, d0) → s.data = d0) ∧
      s.msgSize = msgLen ∧ s.intr = .obj ∧ s.alive = true ∧ s.msgPtr = .live ∧
      s.dispInt = true ∧ s.dispTerm = true
  | .clr => s.handler = 0 ∧
      s.msgSize = msgLen ∧ s.intr = .obj ∧ s.alive = true ∧ s.msgPtr = .live ∧
      s.dispInt = true ∧ s.dispTerm = true
  | .dat d => s.handler = 0 ∧ s.data = d ∧
      s.msgSize = msgLen ∧ s.intr = .obj ∧ s.alive = true ∧ s.msgPtr = .live ∧
      s.dispInt = true ∧ s.dispTerm = true
  | .dI r => regOK r s ∧ s.msgSize = msgLen ∧ s.intr = .self ∧ s.alive = true ∧ s.msgPtr = .live ∧
      s.dispInt = true ∧ s.dispTerm = true
  | .dS r => regOK r s ∧ s.msgSize = msgLen ∧ s.intr = .self ∧ s.alive = true ∧ s.msgPtr = .live ∧
      s.dispInt = true ∧ s.dispTerm = true ∧ 1 ≤ s.stop
  | .dH => s.handler = 0 ∧ s.msgSize = msgLen ∧ s.intr = .self ∧ s.alive = true ∧ s.msgPtr = .live ∧
      s.dispInt = true ∧ s.dispTerm = true
  | .dZ => s.handler = 0 ∧ s.msgSize = 0 ∧ s.intr = .self ∧ s.alive = true ∧
      s.dispInt = true ∧ s.dispTerm = true

theorem inv_init : Inv .idle init := by
  simp [Inv, init]

theorem inv_step (L : Layout) (pc pc' : PC) (s : St) (m : Micro) (hi : Inv pc s) (hn : pcNext L pc m = some pc') :
    Inv pc' (applyMicro s m) := by
  cases pc <;> cases m <;> simp only [pcNext] at hn <;> (try split at hn) <;> (try split at hn) <;>
    simp at hn <;> (try subst hn) <;> simp_all [Inv, applyMicro, regOK]
  · intro h0 d0 hr
    subst hr
    exact hi.2.1.2
  · split <;> simp_all

/-! ### Normal forms of one delivery -/

theorem deliver_killed (md : Mode) (s : St) (g : Sig) (hd : s.disp g = false) :
    deliver md s g = ({ s with halted := some (.killed g) }, [.killed g]) := by
  simp [deliver, hd]

theorem setDisp_roundtrip (s : St) (g : Sig) (hd : s.disp g = true) : (s.setDisp g false).setDisp g true = s := by
  cases s; cases g <;> simp_all [St.setDisp, St.disp]

theorem setDisp_same (s : St) (g : Sig) (hd : s.disp g = true) : s.setDisp g true = s := by
  cases s; cases g <;> simp_all [St.setDisp, St.disp]

/-- the handler is installed and `stop_ ≤ 1`: the signal is recorded, the callback (if any) is invoked with the
    current `data_`, the handler re-arms; nothing else changes (in both `signal` semantics). -/
theorem deliver_ok (md : Mode) (s : St) (g : Sig) (hd : s.disp g = true) (hs : s.stop ≤ 1) :
    deliver md s g =
      ({ s with stop := s.stop + 1 },
       writeObs md s ::
         ((if s.handler ≠ 0 then [Obs.cb s.handler s.data] else []) ++ [.rearm g])) := by
  cases s with
  | mk stop handler data msgPtr msgSize dispInt dispTerm intr alive halted =>
    have h1 : ¬ (1 < stop) := by simp at hs; omega
    obtain ⟨sem, w⟩ := md; cases sem <;> cases w <;> cases g <;> simp_all [deliver, writeObs, St.setDisp, St.disp] <;>
      (rw [if_neg (Nat.not_lt.mpr hs)]; simp; split <;> simp_all)

/-- the handler is installed and `stop_ > 1`: `_exit(1)` after writing the break text -/
theorem deliver_exit (md : Mode) (s : St) (g : Sig) (hd : s.disp g = true) (hs : 1 < s.stop) :
    (deliver md s g).1.halted = some .exit1 ∧
    (deliver md s g).2 = [writeObs md s, .exit1] := by
  obtain ⟨sem, w⟩ := md; cases sem <;> cases w <;> cases g <;> simp_all [deliver, writeObs, St.setDisp, St.disp]

@[simp] theorem writeObs_ne_cb (md : Mode) (s : St) (h d : Nat) : writeObs md s ≠ Obs.cb h d := by
  unfold writeObs; split <;> simp
@[simp] theorem cb_ne_writeObs (md : Mode) (s : St) (h d : Nat) : Obs.cb h d ≠ writeObs md s :=
  fun e => writeObs_ne_cb md s h d e.symm
@[simp] theorem writeObs_ne_exit (md : Mode) (s : St) : writeObs md s ≠ Obs.exit1 := by
  unfold writeObs; split <;> simp
@[simp] theorem exit_ne_writeObs (md : Mode) (s : St) : Obs.exit1 ≠ writeObs md s :=
  fun e => writeObs_ne_exit md s e.symm
@[simp] theorem writeObs_isWrite (md : Mode) (s : St) : (writeObs md s).isWrite = true := by
  unfold writeObs; split <;> rfl
theorem brk_eq_writeObs (md : Mode) (s : St) (n : Nat) (ok : Bool) (h : Obs.brk n ok = writeObs md s) :
    n = s.msgSize ∧ ok = (s.msgSize == 0 || s.msgPtr == .live) := by
  unfold writeObs at h; split at h <;> simp_all

/-- the result of `write(1, …)` influences nothing but the break text itself -/
theorem deliver_write_irrelevant (sem : SigSem) (w1 w2 : Bool) (s : St) (g : Sig) :
    (deliver ⟨sem, w1⟩ s g).1 = (deliver ⟨sem, w2⟩ s g).1 ∧
    nonWrite (deliver ⟨sem, w1⟩ s g).2 = nonWrite (deliver ⟨sem, w2⟩ s g).2 := by
  cases hd : s.disp g with
  | false => simp [deliver_killed, hd]
  | true =>
    by_cases hs : s.stop ≤ 1
    · rw [deliver_ok _ s g hd hs, deliver_ok _ s g hd hs]
      refine ⟨rfl, ?_⟩
      cases w1 <;> cases w2 <;> simp [nonWrite, writeObs, Obs.isWrite]
    · constructor
      · cases sem <;> cases w1 <;> cases w2 <;> cases g <;> simp_all [deliver, writeObs, St.setDisp, St.disp]
      · rw [(deliver_exit _ s g hd (by omega)).2, (deliver_exit _ s g hd (by omega)).2]
        cases w1 <;> cases w2 <;> simp [nonWrite, writeObs, Obs.isWrite]

theorem nonWrite_append (a b : List Obs) : nonWrite (a ++ b) = nonWrite a ++ nonWrite b := by
  simp [nonWrite]

theorem run_write_irrelevant (sem : SigSem) (w1 w2 : Bool) (evs : List Ev) (s : St) :
    (run ⟨sem, w1⟩ s evs).1 = (run ⟨sem, w2⟩ s evs).1 ∧
    nonWrite (run ⟨sem, w1⟩ s evs).2 = nonWrite (run ⟨sem, w2⟩ s evs).2 := by
  induction evs generalizing s with
  | nil => simp [run]
  | cons e r ih =>
    rw [run_cons, run_cons]
    have he : (exec ⟨sem, w1⟩ s e).1 = (exec ⟨sem, w2⟩ s e).1 ∧
        nonWrite (exec ⟨sem, w1⟩ s e).2 = nonWrite (exec ⟨sem, w2⟩ s e).2 := by
      cases hh : s.halted with
      | some x => simp [exec, hh]
      | none =>
        cases e with
        | step m => simp [exec_step, hh]
        | sig g => rw [exec_sig _ s g hh, exec_sig _ s g hh]; exact deliver_write_irrelevant sem w1 w2 s g
    rw [he.1]
    have := ih (exec ⟨sem, w2⟩ s e).1
    exact ⟨this.1, by rw [nonWrite_append, nonWrite_append, he.2, this.2]⟩

theorem inv_stop_irrel (pc : PC) (s : St) (hi : Inv pc s) (hs : s.stop ≤ 1) : Inv pc { s with stop := s.stop + 1 } := by
  obtain ⟨_, hr⟩ := hi
  refine ⟨by simp; omega, ?_⟩
  cases pc <;> first | exact hr | (simp_all [regOK]; try omega)

/-- a delivery that does not terminate the process preserves the lifecycle invariant -/
theorem inv_sig (md : Mode) (pc : PC) (s : St) (g : Sig) (hi : Inv pc s)
    (hh : (deliver md s g).1.halted = none) : Inv pc (deliver md s g).1 := by
  cases hd : s.disp g with
  | false => rw [deliver_killed md s g hd] at hh; simp at hh
  | true =>
    by_cases hs : s.stop ≤ 1
    · rw [deliver_ok md s g hd hs]; exact inv_stop_irrel pc s hi hs
    · have := (deliver_exit md s g hd (by omega)).1
      rw [this] at hh; simp at hh

/-- master invariant: along any event sequence whose program steps follow the lifecycle automaton, as long as
    the process has not terminated, the state satisfies the invariant of the current program point -/
theorem inv_run (L : Layout) (md : Mode) (evs : List Ev) (pc pc' : PC) (s : St) (hi : Inv pc s)
    (hp : pcRun L pc evs = some pc') (hh : (run md s evs).1.halted = none) : Inv pc' (run md s evs).1 := by
  induction evs generalizing pc s with
  | nil => simp [pcRun] at hp; subst hp; simpa [run] using hi
  | cons e r ih =>
    rw [run_cons] at hh ⊢
    have h1 : (exec md s e).1.halted = none := run_halted_of md _ r hh
    have h0 : s.halted = none := exec_halted_of md s e h1
    cases e with
    | sig g =>
      simp only [pcRun] at hp
      rw [exec_sig md s g h0] at hh h1 ⊢
      exact ih pc _ (inv_sig md pc s g hi h1) hp hh
    | step m =>
      simp only [pcRun] at hp
      cases hn : pcNext L pc m with
      | none => simp [hn] at hp
      | some pc1 =>
        simp only [hn] at hp
        rw [exec_step md s m h0] at hh ⊢
        exact ih pc1 _ (inv_step L pc pc1 s m hi hn) hp hh

/-! ### `trace` (what the line driver prints) versus `run` / `exec` (what the theorems speak about) -/

theorem trace_append (md : Mode) (s : St) (a b : List Ev) :
    trace md s (a ++ b) = trace md s a ++ trace md (run md s a).1 b := by
  induction a generalizing s with
  | nil => simp [trace, run]
  | cons e r ih => simp [trace, run_cons, ih]

theorem trace_obs (md : Mode) (s : St) (evs : List Ev) :
    ((trace md s evs).map (fun t => t.2.1)).flatten = (run md s evs).2 := by
  induction evs generalizing s with
  | nil => simp [trace, run]
  | cons e r ih => simp [trace, run_cons, ih]

theorem trace_length (md : Mode) (s : St) (evs : List Ev) : (trace md s evs).length = evs.length := by
  induction evs generalizing s with
  | nil => rfl
  | cons e r ih => simp [trace, ih]

theorem run_split (md : Mode) (s : St) (pre : List Ev) (e : Ev) (post : List Ev) :
    (run md s (pre ++ e :: post)).1 = (run md (exec md (run md s pre).1 e).1 post).1 := by
  rw [run_append, run_cons]

theorem applyMicro_body (s : St) (m : Micro) (hb : Body (.step m) = true) :
    (applyMicro s m).stop = s.stop ∧ (applyMicro s m).intr = s.intr ∧ (applyMicro s m).dispInt = s.dispInt ∧
    (applyMicro s m).dispTerm = s.dispTerm ∧ (applyMicro s m).halted = s.halted := by
  cases m <;> simp_all [Body, applyMicro]

/-- a run over body events from a state with both handlers installed: signals are counted exactly in `stop_`
    until the process exits (which happens exactly when the count would exceed 2) -/
theorem body_run (md : Mode) (evs : List Ev) (s : St) (hb : ∀ e ∈ evs, Body e = true)
    (hI : s.dispInt = true) (hT : s.dispTerm = true) (hh : s.halted = none) (h2 : s.stop ≤ 2) :
    ((run md s evs).1.halted = none →
        (run md s evs).1.stop = s.stop + sigCount evs ∧ (run md s evs).1.intr = s.intr ∧
        (run md s evs).1.dispInt = true ∧ (run md s evs).1.dispTerm = true) ∧
    ((run md s evs).1.halted = none ∨ (run md s evs).1.halted = some .exit1) ∧
    (s.stop + sigCount evs ≤ 2 → (run md s evs).1.halted = none) ∧
    (run md s evs).1.stop ≤ 2 := by
  induction evs generalizing s with
  | nil => simp [run, sigCount, hh, hI, hT, h2]
  | cons e r ih =>
    have hbr : ∀ e ∈ r, Body e = true := fun e he => hb e (List.mem_cons_of_mem _ he)
    have hbe : Body e = true := hb e (List.mem_cons_self)
    rw [run_cons]
    cases e with
    | step m =>
      rw [exec_step md s m hh]
      obtain ⟨a1, a2, a3, a4, a5⟩ := applyMicro_body s m hbe
      have := ih (applyMicro s m) hbr (a3 ▸ hI) (a4 ▸ hT) (a5 ▸ hh) (a1 ▸ h2)
      simpa [sigCount, a1, a2] using this
    | sig g =>
      rw [exec_sig md s g hh]
      have hd : s.disp g = true := by cases g <;> simp [St.disp, hI, hT]
      by_cases hs : s.stop ≤ 1
      · rw [deliver_ok md s g hd hs]
        have := ih { s with stop := s.stop + 1 } hbr hI hT hh (by simp; omega)
        simp only [sigCount] at this ⊢
        refine ⟨fun h => ?_, this.2.1, fun h => this.2.2.1 (by omega), this.2.2.2⟩
        have t := this.1 h
        exact ⟨by omega, t.2⟩
      · have hx := (deliver_exit md s g hd (by omega)).1
        have hr := run_halted md (deliver md s g).1 r (by simp [hx])
        rw [hr]
        simp [hx, sigCount]
        refine ⟨by omega, ?_⟩
        have : (deliver md s g).1.stop = s.stop := by
          obtain ⟨sem, w⟩ := md; cases sem <;> cases w <;> cases g <;> simp_all [deliver, writeObs, St.setDisp, St.disp]
        omega

/-- no program step ever uninstalls the handlers and every completed delivery re-arms: from a state with both
    handlers installed no run ends by the default action -/
theorem never_killed (md : Mode) (evs : List Ev) (s : St)
    (hs : (s.halted = none ∧ s.dispInt = true ∧ s.dispTerm = true) ∨ s.halted = some .exit1) :
    ((run md s evs).1.halted = none ∧ (run md s evs).1.dispInt = true ∧ (run md s evs).1.dispTerm = true) ∨
      (run md s evs).1.halted = some .exit1 := by
  induction evs generalizing s with
  | nil => simpa [run] using hs
  | cons e r ih =>
    rw [run_cons]
    apply ih
    rcases hs with ⟨hh, hI, hT⟩ | hx
    · cases e with
      | step m =>
        rw [exec_step md s m hh]
        left
        cases m <;> simp_all [applyMicro]
      | sig g =>
        rw [exec_sig md s g hh]
        have hd : s.disp g = true := by cases g <;> simp [St.disp, hI, hT]
        by_cases hs1 : s.stop ≤ 1
        · rw [deliver_ok md s g hd hs1]; left; simp [hh, hI, hT]
        · right; exact (deliver_exit md s g hd (by omega)).1
    · right
      rw [exec_halted md s e (by simp [hx])]
      exact hx

/-- events that store neither to `stop_` nor to the solver's interrupter pointer -/
def Neutral : Ev → Bool
  | .step .cStop0 => false
  | .step .dStop1 => false
  | .step .cIntr => false
  | .step .dIntr => false
  | .step .dFree => false
  | _ => true

theorem neutral_of_bodyOrSignalCall (e : Ev) (h : BodyOrSignalCall e = true) : Neutral e = true := by
  cases e with
  | sig g => rfl
  | step m => cases m <;> simp_all [BodyOrSignalCall, Body, Neutral]

/-- over events that do not store to `stop_`: as long as the process runs, `stop_` has counted every delivered
    signal (whatever the dispositions were: an unhandled signal would have killed the process) -/
theorem neutral_run (md : Mode) (evs : List Ev) (s : St) (hn : ∀ e ∈ evs, Neutral e = true)
    (hh : (run md s evs).1.halted = none) :
    (run md s evs).1.stop = s.stop + sigCount evs ∧ (run md s evs).1.intr = s.intr := by
  induction evs generalizing s with
  | nil => simp [run, sigCount]
  | cons e r ih =>
    have hnr : ∀ e ∈ r, Neutral e = true := fun e he => hn e (List.mem_cons_of_mem _ he)
    have hne : Neutral e = true := hn e (List.mem_cons_self)
    rw [run_cons] at hh ⊢
    have h1 : (exec md s e).1.halted = none := run_halted_of md _ r hh
    have h0 : s.halted = none := exec_halted_of md s e h1
    have := ih (exec md s e).1 hnr hh
    cases e with
    | step m =>
      rw [exec_step md s m h0] at this h1 hh ⊢
      have : (applyMicro s m).stop = s.stop ∧ (applyMicro s m).intr = s.intr := by
        cases m <;> simp_all [Neutral, applyMicro]
      simp_all [sigCount]
    | sig g =>
      rw [exec_sig md s g h0] at this h1 hh ⊢
      cases hd : s.disp g with
      | false => rw [deliver_killed md s g hd] at h1; simp at h1
      | true =>
        by_cases hs : s.stop ≤ 1
        · rw [deliver_ok md s g hd hs] at this ⊢
          simp only [sigCount] at this ⊢
          obtain ⟨t1, t2⟩ := this
          exact ⟨by omega, t2⟩
        · have := (deliver_exit md s g hd (by omega)).1
          rw [this] at h1; simp at h1

/-- in a layout whose constructor stores `stop_ = 0` before calling `signal()`, everything a driver can do
    between a `signal()` call and the destructor is a body event or the other `signal()` call: in particular there
    is no store to `stop_` any more -/
theorem ctorfix_tail (L : Layout) (hL : L.ctorStopFirst = true) (post : List Ev) (pc pc' : PC)
    (hin : pc.installedInt = true) (hp : pcRun L pc post = some pc') (hnd : ∀ e ∈ post, isDtorStep e = false) :
    (∀ e ∈ post, BodyOrSignalCall e = true) ∧ pc'.installedInt = true := by
  induction post generalizing pc with
  | nil => simp [pcRun] at hp; subst hp; simp [hin]
  | cons e r ih =>
    have hndr : ∀ e ∈ r, isDtorStep e = false := fun e he => hnd e (List.mem_cons_of_mem _ he)
    have hnde := hnd e (List.mem_cons_self)
    cases e with
    | sig g =>
      simp only [pcRun] at hp
      have := ih pc hin hp hndr
      exact ⟨fun e he => by
        rcases List.mem_cons.mp he with rfl | h
        · rfl
        · exact this.1 e h, this.2⟩
    | step m =>
      simp only [pcRun] at hp
      cases hn : pcNext L pc m with
      | none => simp [hn] at hp
      | some pc1 =>
        simp only [hn] at hp
        have key : BodyOrSignalCall (.step m) = true ∧ pc1.installedInt = true := by
          cases pc <;> cases m <;> simp only [pcNext] at hn <;> (try split at hn) <;> (try split at hn) <;>
            simp at hn <;> (try subst hn) <;>
            simp_all [PC.installedInt, PC.installed, BodyOrSignalCall, Body, isDtorStep]
        have := ih pc1 key.2 hp hndr
        exact ⟨fun e he => by
          rcases List.mem_cons.mp he with rfl | h
          · exact key.1
          · exact this.1 e h, this.2⟩

/-- the same, starting right after the repaired constructor's `stop_ = 0` (before `signal(SIGINT, …)`) -/
theorem ctorfix_tail0 (L : Layout) (hL : L.ctorStopFirst = true) (post : List Ev) (pc' : PC)
    (hp : pcRun L .c0 post = some pc') (hnd : ∀ e ∈ post, isDtorStep e = false) :
    ∀ e ∈ post, BodyOrSignalCall e = true := by
  induction post with
  | nil => simp
  | cons e r ih =>
    have hndr : ∀ e ∈ r, isDtorStep e = false := fun e he => hnd e (List.mem_cons_of_mem _ he)
    cases e with
    | sig g =>
      simp only [pcRun] at hp
      intro e he
      rcases List.mem_cons.mp he with rfl | h
      · rfl
      · exact ih hp hndr e h
    | step m =>
      simp only [pcRun] at hp
      cases hn : pcNext L .c0 m with
      | none => simp [hn] at hp
      | some pc1 =>
        simp only [hn] at hp
        have key : m = .cSigInt ∧ pc1 = .cS1 := by
          cases m <;> simp only [pcNext] at hn <;> (try split at hn) <;> simp_all
        obtain ⟨rfl, rfl⟩ := key
        have := (ctorfix_tail L hL r .cS1 pc' (by rfl) hp hndr).1
        intro e he
        rcases List.mem_cons.mp he with rfl | h
        · rfl
        · exact this e h

/-- in a layout whose `SetHandler` clears `handler_` first, the pinned window state `mid` is unreachable -/
theorem regfix_no_mid (L : Layout) (hL : L.regClearFirst = true) (evs : List Ev) (pc pc' : PC)
    (h0 : ∀ r h, pc ≠ .mid r h) (hp : pcRun L pc evs = some pc') : ∀ r h, pc' ≠ .mid r h := by
  induction evs generalizing pc with
  | nil => simp [pcRun] at hp; subst hp; exact h0
  | cons e r ih =>
    cases e with
    | sig g => simp only [pcRun] at hp; exact ih pc h0 hp
    | step m =>
      simp only [pcRun] at hp
      cases hn : pcNext L pc m with
      | none => simp [hn] at hp
      | some pc1 =>
        simp only [hn] at hp
        refine ih pc1 ?_ hp
        intro r' h' heq
        subst heq
        cases pc <;> cases m <;> simp only [pcNext] at hn <;> (try split at hn) <;> (try split at hn) <;>
          simp_all

/-- with at most two signals counted on top of `stop_`, `_exit(1)` is never reached -/
theorem no_exit_run (md : Mode) (evs : List Ev) (s : St) (hn : ∀ e ∈ evs, Neutral e = true)
    (h2 : s.stop + sigCount evs ≤ 2) (hx : s.halted ≠ some .exit1) : (run md s evs).1.halted ≠ some .exit1 := by
  induction evs generalizing s with
  | nil => simpa [run] using hx
  | cons e r ih =>
    have hnr : ∀ e ∈ r, Neutral e = true := fun e he => hn e (List.mem_cons_of_mem _ he)
    have hne : Neutral e = true := hn e (List.mem_cons_self)
    rw [run_cons]
    cases hh : s.halted with
    | some x =>
      rw [exec_halted md s e (by simp [hh]), run_halted md s r (by simp [hh])]
      exact hx
    | none =>
      cases e with
      | step m =>
        rw [exec_step md s m hh]
        apply ih _ hnr
        · show (applyMicro s m).stop + sigCount r ≤ 2
          have : (applyMicro s m).stop = s.stop := by cases m <;> simp_all [Neutral, applyMicro]
          simp only [sigCount] at h2; omega
        · show (applyMicro s m).halted ≠ some .exit1
          rw [applyMicro_halted, hh]; simp
      | sig g =>
        rw [exec_sig md s g hh]
        simp only [sigCount] at h2
        cases hd : s.disp g with
        | false =>
          rw [deliver_killed md s g hd, run_halted md _ r (by simp)]
          simp
        | true =>
          rw [deliver_ok md s g hd (by omega)]
          apply ih _ hnr
          · show s.stop + 1 + sigCount r ≤ 2
            omega
          · show s.halted ≠ some .exit1
            simp [hh]

/-- events that do not store to `stop_` -/
def StopNeutral : Ev → Bool
  | .step .cStop0 => false
  | .step .dStop1 => false
  | _ => true

/-- over events that do not store to `stop_`, a still running process has counted every delivered signal -/
theorem stop_run (md : Mode) (evs : List Ev) (s : St) (hn : ∀ e ∈ evs, StopNeutral e = true)
    (hh : (run md s evs).1.halted = none) : (run md s evs).1.stop = s.stop + sigCount evs := by
  induction evs generalizing s with
  | nil => simp [run, sigCount]
  | cons e r ih =>
    have hnr : ∀ e ∈ r, StopNeutral e = true := fun e he => hn e (List.mem_cons_of_mem _ he)
    have hne : StopNeutral e = true := hn e (List.mem_cons_self)
    rw [run_cons] at hh ⊢
    have h1 : (exec md s e).1.halted = none := run_halted_of md _ r hh
    have h0 : s.halted = none := exec_halted_of md s e h1
    have := ih (exec md s e).1 hnr hh
    cases e with
    | step m =>
      rw [exec_step md s m h0] at this h1 hh ⊢
      have : (applyMicro s m).stop = s.stop := by cases m <;> simp_all [StopNeutral, applyMicro]
      simp_all [sigCount]
    | sig g =>
      rw [exec_sig md s g h0] at this h1 hh ⊢
      cases hd : s.disp g with
      | false => rw [deliver_killed md s g hd] at h1; simp at h1
      | true =>
        by_cases hs : s.stop ≤ 1
        · rw [deliver_ok md s g hd hs] at this ⊢
          simp only [sigCount] at this ⊢
          omega
        · have := (deliver_exit md s g hd (by omega)).1
          rw [this] at h1; simp at h1

/-- a layout whose destructor does not store to `stop_`: no well-formed step sequence contains that store -/
theorem keeps_no_dStop1 (L : Layout) (hD : L.dtorKeepsStop = true) (evs : List Ev) (pc pc' : PC)
    (hp : pcRun L pc evs = some pc') : ∀ e ∈ evs, e ≠ .step .dStop1 := by
  induction evs generalizing pc with
  | nil => simp
  | cons e r ih =>
    cases e with
    | sig g =>
      simp only [pcRun] at hp
      intro e he
      rcases List.mem_cons.mp he with rfl | h
      · simp
      · exact ih pc hp e h
    | step m =>
      simp only [pcRun] at hp
      cases hn : pcNext L pc m with
      | none => simp [hn] at hp
      | some pc1 =>
        simp only [hn] at hp
        intro e he
        rcases List.mem_cons.mp he with rfl | h
        · intro heq
          injection heq with hm
          subst hm
          cases pc <;> simp_all [pcNext]
        · exact ih pc1 hp e h

theorem stop_le_two (md : Mode) (evs : List Ev) (s : St) (h2 : s.stop ≤ 2) : (run md s evs).1.stop ≤ 2 := by
  induction evs generalizing s with
  | nil => simpa [run] using h2
  | cons e r ih =>
    rw [run_cons]
    apply ih
    cases hh : s.halted with
    | some x => rw [exec_halted md s e (by simp [hh])]; exact h2
    | none =>
      cases e with
      | step m => rw [exec_step md s m hh]; cases m <;> simp_all [applyMicro]
      | sig g =>
        rw [exec_sig md s g hh]
        cases hd : s.disp g with
        | false => rw [deliver_killed md s g hd]; exact h2
        | true =>
          by_cases hs1 : s.stop ≤ 1
          · rw [deliver_ok md s g hd hs1]; simp; omega
          · have : (deliver md s g).1.stop = s.stop := by
              obtain ⟨sem, w⟩ := md; cases sem <;> cases w <;> cases g <;> simp_all [deliver, writeObs, St.setDisp, St.disp]
            omega

end MpVerif.C15

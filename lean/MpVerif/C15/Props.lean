import MpVerif.C15.Lemmas
import MpVerif.C15.LemmasNestedCount
import MpVerif.Gen.Signal
/-!
# C15 — an interrupt is never lost and never delivered with inconsistent state

Property theorems only, about the model in `MpVerif/C15/Model.lean` (a transition system whose program
steps are the individual stores of `SignalHandler`'s constructor / `SetHandler` / destructor and in which a
signal can be delivered in every gap).  The model is tied to `src/solver.cc` on every run by
`checks/c15.py` (state after every store and every delivery, for every schedule of ≤ 3 signals).

How the theorems quantify: `pre` is an arbitrary event sequence (program steps and signal deliveries in any
interleaving, any length, any number of registrations, any number of handler objects one after another)
whose program steps follow the lifecycle automaton (`pcRun L .idle pre = some pc`); the theorem then speaks
about a delivery in the gap after `pre`, and about arbitrary continuations `post`.  So "all programs and
all schedules" is `∀ pre post`.  Both meanings of `signal(2)` (`Mode.bsd`, `Mode.sysv`) are covered.

History.  The originally pinned code violated the property in three windows, all found by this check and repaired in
ampl/mp (208050e constructor order, 47cb42b `SetHandler` order, 27c8b2e destructor no longer resets the count); the
model carries the store order as a parameter (`Layout`), `Layout.current` is the order the code has now, and the MAIN
THEOREMS section states the strict property for it at full strength.  The statements valid for *any* store order
(`C15_anyorder_*`, `C15_order_*`, used in the proofs) and the proved counterexamples for the old orders
(`C15_oldorder_counterexample_*`) are kept as the record of the three fixed findings.  No finding is open.
-/
namespace MpVerif.C15

/-! ## the model is what the source says (`C15_gen_*`)

`MpVerif.Gen.Signal` is regenerated from the clang AST of `src/solver.cc` (and the two headers) on every run:
one list of statements per C++ function, in source order (`translators/gen_signal.py`, statement language and its
meaning: `SrcLang.lean`).  The theorems below say that the hand model's step lists, `deliver` and `stopQuery` are
exactly the meaning of those lists; every theorem of this file therefore speaks about the code as written.
Swapping two stores, changing `> 1`, the exit status, `!= 0`, dropping the re-arm or the callback test, writing
to another descriptor … makes one of these fail. -/

open MpVerif.Gen in
/-- constructor: the member initializers and the stores of the body, in source order, are the model's
    constructor steps for `Layout.current` -/
theorem C15_gen_ctor : Src.collect Src.ctorMicro Signal.ctor = some (ctorSteps Layout.current) := by decide

open MpVerif.Gen in
/-- destructor: the stores of the body in source order, followed by the destruction of the members -/
theorem C15_gen_dtor : (Src.collect Src.dtorMicro Signal.dtor).map (· ++ [Micro.dFree]) = some (dtorSteps Layout.current) := by decide

open MpVerif.Gen in
/-- `SetHandler(h, d)`: the three stores in source order, for every callback and data -/
theorem C15_gen_setHandler (h d : Nat) :
    Src.collect (Src.regMicro h d) Signal.setHandler = some (regSteps Layout.current h d) := by
  simp [Signal.setHandler, Src.collect, Src.regMicro, regSteps, Layout.current, Layout.repaired]

open MpVerif.Gen in
/-- `HandleSigInt`: for every state in which the handler is the disposition of `g`, every `signal(2)` semantics
    and every stdout state, the model's `deliver` is the execution of the source statements in order -/
theorem C15_gen_handleSigInt (md : Mode) (s : St) (g : Sig) (hd : s.disp g = true) :
    Src.runHandler md g Signal.handleSigInt (Src.onEntry md s g) [] = some (deliver md s g) := by
  obtain ⟨sem, w⟩ := md
  cases s with
  | mk stop handler data msgPtr msgSize dispInt dispTerm intr alive halted =>
    by_cases h0 : handler = 0 <;> cases sem <;> cases g <;>
      simp_all [Signal.handleSigInt, Src.runHandler, Src.onEntry, Src.Cmp.eval, deliver, writeObs, St.disp, St.setDisp] <;>
      (try (split <;> rfl))

open MpVerif.Gen in
/-- … and when the handler is not the disposition, no statement of `HandleSigInt` runs at all (default action) -/
theorem C15_gen_not_installed (md : Mode) (s : St) (g : Sig) (hd : s.disp g = false) :
    deliver md s g = ({ s with halted := some (.killed g) }, [.killed g]) :=
  deliver_killed md s g hd

open MpVerif.Gen in
/-- the stop query: `SignalHandler::Stop()` when the handler object is the solver's interrupter,
    `BasicSolver::Stop()` when the solver is its own interrupter -/
theorem C15_gen_stop (s : St) :
    stopQuery s = match s.intr with
      | .obj => Signal.stopFn.op.eval s.stop Signal.stopFn.k
      | .self => Signal.basicStop
      | .dangling => false := by
  cases h : s.intr <;> simp [stopQuery, h, Signal.stopFn, Signal.basicStop, Src.Cmp.eval]

open MpVerif.Gen in
/-- a registration attempt while no handler object exists runs `BasicSolver::SetHandler`, whose body is empty
    (the model's `nreg` changes nothing), and `set_interrupter(0)` makes the solver its own interrupter -/
theorem C15_gen_basic (h d : Nat) (s : St) :
    Src.collect (Src.regMicro h d) Signal.basicSetHandler = some [] ∧ applyMicro s (.nreg h d) = s ∧
    Signal.setInterrupterNullMeansSelf = true := by
  refine ⟨by simp [Signal.basicSetHandler, Src.collect], rfl, by decide⟩

open MpVerif.Gen in
/-- **The model's memory assumption is discharged by the declarations.**  The transition system lets every load of a
    cell (the stop query, the handler's tests) see the latest store, also one made by a signal handler in between.
    C++ only guarantees that for `volatile std::sig_atomic_t` / `std::atomic` objects: the generated declarations say
    `stop_` is `volatile std::sig_atomic_t` and the four others are atomics.  (Dropping `volatile` lets an optimising
    compiler hoist the load out of a polling loop: seeded change C15-5.) -/
theorem C15_gen_cells :
    Signal.cellDecls.map (fun p => (p.1, p.2.accessesMemory)) =
      [(.stop, true), (.handler, true), (.data, true), (.msgPtr, true), (.msgSize, true)] ∧
    Signal.cellDecls.lookup .stop = some ⟨true, false, "std::sig_atomic_t"⟩ := by
  decide

open MpVerif.Gen in
/-- the call-outs sit where the check assumes: every store is followed by its own `MP_VERIF_POINT` before the
    next store, with these names (so a signal can be delivered in every gap, and only there) -/
theorem C15_gen_callouts :
    Src.named Src.ctorMicro Signal.ctor [] = some
      [(.cAlloc, "sh.ctor.enter"), (.cIntr, "sh.ctor.after_set_interrupter"), (.cPtr, "sh.ctor.after_msg_ptr"),
       (.cSize, "sh.ctor.after_msg_size"), (.cStop0, "sh.ctor.after_stop0"), (.cSigInt, "sh.ctor.after_signal_int"),
       (.cSigTerm, "sh.ctor.after_signal_term")] ∧
    Src.named Src.dtorMicro Signal.dtor [] = some
      [(.dIntr, "sh.dtor.after_set_interrupter"), (.dH0, "sh.dtor.after_handler0"),
       (.dSize0, "sh.dtor.after_msg_size0")] ∧
    Src.named (Src.regMicro 1 2) Signal.setHandler [] = some
      [(.setH 0, "sh.set.after_handler_clear"), (.setD 2, "sh.set.after_data"), (.setH 1, "sh.set.after_handler")] := by
  decide

/-! ## stop counter -/

/-- `stop_` never exceeds 2 (so `sig_atomic_t` cannot overflow): all event sequences, well-formed or not. -/
theorem C15_stop_bounded (md : Mode) (evs : List Ev) : (run md init evs).1.stop ≤ 2 :=
  stop_le_two md evs init (by decide)

/-! ## an interrupt is not lost -/

/-
Full-strength statement (false for the OLD store order, see `C15_oldorder_counterexample_lost_in_ctor_window`):
"installed" = the handler function is the disposition of the signal, i.e. from the `signal()` call on.

theorem C15_no_lost (L : Layout) (md : Mode) (pre : List Ev) (g : Sig) (post : List Ev) (pc : PC)
    (hpc : pcRun L .idle pre = some pc)
    (hin : (run md init pre).1.disp g = true ∧ (run md init pre).1.intr = .obj)   -- installed, object exists
    (hpost : ∀ e ∈ post, Body e = true ∨ e ∈ ctorSteps.map Ev.step)            -- same handler object, not yet torn down
    (hrun : (run md init (pre ++ .sig g :: post)).1.halted = none)
    (hq : (pcRun L .idle (pre ++ .sig g :: post)).map PC.installed = some true) :
    stopQuery (run md init (pre ++ .sig g :: post)).1 = true
-/

/-- **No lost interrupt** (partial: "installed" = the constructor has completed).  For every well-formed
    prefix `pre` ending at a point where the handler object is installed, a signal delivered there, and every
    continuation `post` made of registrations (their individual stores), solve/report steps and further
    signals in any interleaving: if the process is still running, the stop query answers true. -/
theorem C15_anyorder_no_lost_after_ctor (L : Layout) (md : Mode) (pre : List Ev) (g : Sig) (post : List Ev) (pc : PC)
    (hpc : pcRun L .idle pre = some pc) (hin : pc.installed = true)
    (hpost : ∀ e ∈ post, Body e = true)
    (hrun : (run md init (pre ++ .sig g :: post)).1.halted = none) :
    stopQuery (run md init (pre ++ .sig g :: post)).1 = true := by
  rw [run_split] at hrun ⊢
  have h1 := run_halted_of md _ post hrun
  have h0 := exec_halted_of md _ _ h1
  have hinv := inv_run L md pre .idle pc init inv_init hpc h0
  rw [exec_sig md _ g h0] at hrun h1 ⊢
  generalize (run md init pre).1 = s at *
  have hI : s.dispInt = true ∧ s.dispTerm = true ∧ s.intr = .obj := by
    cases pc <;> simp_all [PC.installed, Inv]
  have hd : s.disp g = true := by cases g <;> simp [St.disp, hI]
  have hs : s.stop ≤ 1 := by
    by_cases hs : s.stop ≤ 1
    · exact hs
    · have := (deliver_exit md s g hd (by omega)).1
      rw [this] at h1; simp at h1
  rw [deliver_ok md s g hd hs] at hrun h1 ⊢
  have hb := (body_run md post { s with stop := s.stop + 1 } hpost hI.1 hI.2.1 h0 (by simp; omega)).1 hrun
  obtain ⟨e1, e2, _, _⟩ := hb
  unfold stopQuery
  rw [e2, e1]
  simp [hI.2.2]

/-- The ctor window on the model: program `C W`, SIGINT delivered right after `signal(SIGINT, HandleSigInt)`.
    The handler runs (break text written, `stop_` 1→2), then `stop_ = 0` wipes it out: the process keeps
    running and the stop query of the following solve step answers false. -/
theorem C15_oldorder_counterexample_lost_in_ctor_window :
    let evs := schedule (expandProg .pinned [.ctor, .work]) 0 [(5, .int)]
    pcRun .pinned .idle evs = some (.live none) ∧
    (run .bsd init evs).1.halted = none ∧
    Obs.brk msgLen true ∈ (run .bsd init evs).2 ∧          -- the handler did run
    Obs.query false ∈ (run .bsd init evs).2 ∧              -- … and the solver is told "no interrupt"
    stopQuery (run .bsd init evs).1 = false := by
  decide

/-! ## callback / data pairing -/

/-
Full-strength statement (false for the OLD store order, see `C15_counterexample_mispaired_*`):

theorem C15_pairing (md : Mode) (prog : List Macro) (evs : List Ev)
    (hw : wfProg prog = true) (hs : steps evs = expandProg .pinned prog) (h d : Nat)
    (hcb : Obs.cb h d ∈ (run md init evs).2) : Macro.reg h d ∈ prog
-/

/-- **Pairing** (partial: every gap except the one between the two stores of `SetHandler`).  A callback
    invoked by a signal delivered after any well-formed prefix is the callback of the last completed
    registration of the current handler object, with that registration's data. -/
theorem C15_anyorder_pairing_outside_window (L : Layout) (md : Mode) (pre : List Ev) (g : Sig) (pc : PC)
    (hpc : pcRun L .idle pre = some pc) (hw : pc.inWindow = false)
    (hrun : (run md init pre).1.halted = none) (h d : Nat)
    (hcb : Obs.cb h d ∈ (deliver md (run md init pre).1 g).2) :
    pc.curReg = some (h, d) := by
  have hinv := inv_run L md pre .idle pc init inv_init hpc hrun
  generalize (run md init pre).1 = s at *
  cases hd : s.disp g with
  | false => rw [deliver_killed md s g hd] at hcb; simp at hcb
  | true =>
    by_cases hs : s.stop ≤ 1
    · rw [deliver_ok md s g hd hs] at hcb
      simp at hcb
      obtain ⟨hne, rfl, rfl⟩ := hcb
      cases pc <;> simp_all [PC.inWindow, PC.curReg, Inv, regOK]
      all_goals
        rename_i r
        cases r with
        | none => simp_all
        | some p => obtain ⟨a, b⟩ := p; simp_all
    · rw [(deliver_exit md s g hd (by omega)).2] at hcb; simp at hcb

/-- … and it *is* invoked: while a registration `(h, d)` with a non-null callback is in force
    (`live`: installed, not inside another `SetHandler`), a delivered signal that does not terminate the process
    invokes exactly `h(d)`. -/
theorem C15_callback_invoked (L : Layout) (md : Mode) (pre : List Ev) (g : Sig) (h d : Nat)
    (hpc : pcRun L .idle pre = some (.live (some (h, d)))) (hne : h ≠ 0)
    (hrun : (run md init pre).1.halted = none)
    (hx : Obs.exit1 ∉ (deliver md (run md init pre).1 g).2) :
    (deliver md (run md init pre).1 g).2.filter (fun o => match o with | .cb _ _ => true | _ => false)
      = [Obs.cb h d] := by
  have hinv := inv_run L md pre .idle _ init inv_init hpc hrun
  generalize (run md init pre).1 = s at *
  have hd : s.disp g = true := by cases g <;> simp_all [St.disp, Inv]
  by_cases hs : s.stop ≤ 1
  · rw [deliver_ok md s g hd hs]
    simp_all [Inv, regOK]
  · rw [(deliver_exit md s g hd (by omega)).2] at hx; simp at hx

/-- SetHandler window, first registration: `C R(1,1)` with SIGINT between the two stores calls callback 1
    with a null data pointer, although `SetHandler(1, null)` was never called. -/
theorem C15_oldorder_counterexample_mispaired_first_registration :
    let prog := [Macro.ctor, .reg 1 1]
    let evs := schedule (expandProg .pinned prog) 0 [(8, .int)]
    wfProg .pinned prog = true ∧ steps evs = expandProg .pinned prog ∧
    Obs.cb 1 0 ∈ (run .bsd init evs).2 ∧ Macro.reg 1 0 ∉ prog := by
  decide

/-- SetHandler window, re-registration: `C R(1,1) R(2,2)` with SIGINT between the stores of the second
    `SetHandler` calls the new callback 2 with the old data 1. -/
theorem C15_oldorder_counterexample_mispaired_reregistration :
    let prog := [Macro.ctor, .reg 1 1, .reg 2 2]
    let evs := schedule (expandProg .pinned prog) 0 [(10, .int)]
    wfProg .pinned prog = true ∧ steps evs = expandProg .pinned prog ∧
    Obs.cb 2 1 ∈ (run .bsd init evs).2 ∧ Macro.reg 2 1 ∉ prog := by
  decide

/-! ## a third interrupt terminates the process (and the first two do not) -/

/-
Full-strength statement (false for the OLD store order, see `C15_counterexample_third_*`): any three signals
delivered while the handler function is installed terminate the process.

theorem C15_third_exits (L : Layout) (md : Mode) (pre post : List Ev) (pc : PC)
    (hpc : pcRun L .idle pre = some pc)
    (hin : (run md init pre).1.dispInt = true ∧ (run md init pre).1.dispTerm = true)
    (hwf : (pcRun L .idle (pre ++ post)).isSome) (h3 : 3 ≤ sigCount post) :
    (run md init (pre ++ post)).1.halted.isSome
-/

/-- **Third interrupt exits** (partial: the three signals fall between the end of the constructor and the
    beginning of the destructor of one handler object).  Whatever registrations, solve/report steps and
    other events are interleaved, once three signals have been delivered the process has terminated with
    `_exit(1)`. -/
theorem C15_anyorder_third_exits_after_ctor (L : Layout) (md : Mode) (pre post : List Ev) (pc : PC)
    (hpc : pcRun L .idle pre = some pc) (hin : pc.installed = true)
    (hpost : ∀ e ∈ post, Body e = true) (h3 : 3 ≤ sigCount post)
    (hrun : (run md init pre).1.halted = none) :
    (run md init (pre ++ post)).1.halted = some .exit1 := by
  have hinv := inv_run L md pre .idle pc init inv_init hpc hrun
  rw [run_append]
  generalize (run md init pre).1 = s at *
  have hI : s.dispInt = true ∧ s.dispTerm = true := by
    cases pc <;> simp_all [PC.installed, Inv]
  have hb := body_run md post s hpost hI.1 hI.2 hrun hinv.1
  rcases hb.2.1 with hn | hx
  · have := (hb.1 hn).1
    have := hb.2.2.2
    omega
  · exact hx

/-- **The first two interrupts do not terminate the process** (partial: counted from the end of the
    constructor).  `pre` ends just before the constructor's `stop_ = 0`. -/
theorem C15_anyorder_no_early_exit_after_ctor (L : Layout) (md : Mode) (pre post : List Ev)
    (hpc : pcRun L .idle pre = some .cS2)
    (hpost : ∀ e ∈ post, Body e = true) (h2 : sigCount post ≤ 2)
    (hrun : (run md init pre).1.halted = none) :
    (run md init (pre ++ .step .cStop0 :: post)).1.halted = none := by
  have hinv := inv_run L md pre .idle _ init inv_init hpc hrun
  rw [run_split, exec_step md _ _ hrun]
  generalize (run md init pre).1 = s at *
  have hI : s.dispInt = true ∧ s.dispTerm = true := by simp_all [Inv]
  exact (body_run md post (applyMicro s .cStop0) hpost hI.1 hI.2 hrun (by simp [applyMicro])).2.2.1
    (by simp [applyMicro]; omega)

/-- ctor window again: `C W` with SIGINT after `signal(SIGINT,…)` and two more SIGINTs after the constructor:
    three interrupts delivered to the installed handler, the process is still running. -/
theorem C15_oldorder_counterexample_third_no_exit_ctor_window :
    let evs := schedule (expandProg .pinned [.ctor, .work]) 0 [(5, .int), (7, .int), (7, .int)]
    sigCount evs = 3 ∧ (Obs.killed .int) ∉ (run .bsd init evs).2 ∧ (run .bsd init evs).1.halted = none := by
  decide

/-- ctor window: two SIGINTs after `signal(SIGINT,…)` and before `stop_ = 0` terminate the process on the
    *second* interrupt. -/
theorem C15_oldorder_counterexample_early_exit_ctor_window :
    let evs := schedule (expandProg .pinned [.ctor, .work]) 0 [(5, .int), (5, .int)]
    sigCount evs = 2 ∧ (run .bsd init evs).1.halted = some .exit1 := by
  decide

/-- teardown, OLD destructor (`stop_ = 1` stored, before ampl/mp 27c8b2e): `C W D W` with two SIGINTs during solving
    and one after the destructor: the destructor's store forgets one of them, the third interrupt does not terminate
    the process.  (Fixed finding C15-across-teardown; the same schedule is a regression case of the check.) -/
theorem C15_oldorder_counterexample_third_no_exit_across_teardown :
    let evs := schedule (expandProg Layout.fixed [.ctor, .work, .dtor, .work]) 0 [(8, .int), (8, .int), (13, .int)]
    sigCount evs = 3 ∧ (run .bsd init evs).1.halted = none ∧ (run .bsd init evs).1.stop = 2 := by
  decide

/-! ## nothing is called, and nothing of the object is read, after teardown -/

/-- **No callback after teardown** (full strength).  After the destructor's `handler_ = 0`, when no handler
    object exists, and while a new one is being constructed, no delivered signal invokes a callback
    — for every well-formed history, in particular whatever was registered before. -/
theorem C15_after_teardown (L : Layout) (md : Mode) (pre : List Ev) (g : Sig) (pc : PC)
    (hpc : pcRun L .idle pre = some pc) (hno : pc.noCallbackExpected = true)
    (hrun : (run md init pre).1.halted = none) (h d : Nat) :
    Obs.cb h d ∉ (deliver md (run md init pre).1 g).2 := by
  have hinv := inv_run L md pre .idle pc init inv_init hpc hrun
  generalize (run md init pre).1 = s at *
  have hh : s.handler = 0 := by cases pc <;> simp_all [PC.noCallbackExpected, Inv]
  cases hd : s.disp g with
  | false => rw [deliver_killed md s g hd]; simp
  | true =>
    by_cases hs : s.stop ≤ 1
    · rw [deliver_ok md s g hd hs]; simp [hh]
    · rw [(deliver_exit md s g hd (by omega)).2]; simp

/-- **Break text** (full strength).  The text written by the handler is never read through a null or dangling
    pointer; it is the whole message or nothing; and once the object is destroyed nothing is written. -/
theorem C15_break_text_safe (L : Layout) (md : Mode) (pre : List Ev) (g : Sig) (pc : PC)
    (hpc : pcRun L .idle pre = some pc)
    (hrun : (run md init pre).1.halted = none) (n : Nat) (ok : Bool)
    (hb : Obs.brk n ok ∈ (deliver md (run md init pre).1 g).2) :
    ok = true ∧ (n = 0 ∨ n = msgLen) ∧ (pc = .idle → n = 0) ∧ (pc.installed = true → n = msgLen) := by
  have hinv := inv_run L md pre .idle pc init inv_init hpc hrun
  generalize (run md init pre).1 = s at *
  have key : (s.msgSize = 0 ∨ (s.msgSize = msgLen ∧ s.msgPtr = .live)) ∧ (pc = .idle → s.msgSize = 0) ∧
      (pc.installed = true → s.msgSize = msgLen) := by
    cases pc <;> simp_all [Inv, PC.installed]
  have hbrk : n = s.msgSize ∧ ok = (s.msgSize == 0 || s.msgPtr == .live) := by
    cases hd : s.disp g with
    | false => rw [deliver_killed md s g hd] at hb; simp at hb
    | true =>
      by_cases hs : s.stop ≤ 1
      · rw [deliver_ok md s g hd hs] at hb
        rcases List.mem_cons.mp hb with h | h
        · exact brk_eq_writeObs md s n ok h
        · exfalso; split at h <;> simp at h
      · rw [(deliver_exit md s g hd (by omega)).2] at hb
        simp at hb
        exact brk_eq_writeObs md s n ok hb
  obtain ⟨rfl, rfl⟩ := hbrk
  rcases key with ⟨h0 | ⟨hl, hp⟩, k2, k3⟩
  · exact ⟨by simp [h0], Or.inl h0, k2, k3⟩
  · exact ⟨by simp [hp], Or.inr hl, k2, k3⟩

/-! ## the state of standard output does not matter -/

/-- **The write step cannot affect the rest of the handler** (full strength).  Whether `write(1, …)` succeeds or
    fails (stdout closed, read-only, device full), one delivery leaves exactly the same state — stop counter,
    dispositions, termination — and makes exactly the same observations apart from the break text itself
    (callback with its data, `_exit`, re-arm). -/
theorem C15_write_result_irrelevant (sem : SigSem) (w1 w2 : Bool) (s : St) (g : Sig) :
    (deliver ⟨sem, w1⟩ s g).1 = (deliver ⟨sem, w2⟩ s g).1 ∧
    nonWrite (deliver ⟨sem, w1⟩ s g).2 = nonWrite (deliver ⟨sem, w2⟩ s g).2 :=
  deliver_write_irrelevant sem w1 w2 s g

/-- … hence whole runs: every event sequence ends in the same state and shows the same stop-query answers,
    callbacks, exits and re-arms under every stdout state.  (All other theorems of this file are stated for an
    arbitrary `Mode`, so they hold under every stdout state as well.) -/
theorem C15_run_independent_of_stdout (sem : SigSem) (w1 w2 : Bool) (s : St) (evs : List Ev) :
    (run ⟨sem, w1⟩ s evs).1 = (run ⟨sem, w2⟩ s evs).1 ∧
    nonWrite (run ⟨sem, w1⟩ s evs).2 = nonWrite (run ⟨sem, w2⟩ s evs).2 :=
  run_write_irrelevant sem w1 w2 evs s

/-- unwritable stdout, `C R(1,1) W W` with three signals: recorded, callback with its data, stop query true, third
    signal exits — only the break text is missing -/
example :
    let evs := schedule (expandProg Layout.current [.ctor, .reg 1 1, .work, .work]) 0 [(10, .int), (11, .term), (11, .int)]
    (run ⟨.bsd, false⟩ init evs).2 =
      [.brkFail, .cb 1 1, .rearm .int, .query true, .brkFail, .cb 1 1, .rearm .term, .brkFail, .exit1] := by decide

/-! ## re-entrance: a second signal while `HandleSigInt` runs (`Reentrant.lean`)

Outside the property's quantifier (which places signals relative to the *program's* steps), and until round 5 an
assumption.  Now modelled for ONE nested delivery: the outer handler is split into its steps (`++stop_` = load + store),
the nested signal `g'` arrives after `k` of them (`bsd`: only `g' ≠ g` nests, `g' = g` is held back; `sysv`: anything
nests and `g` meets the default action).  Local theorems (any state with both handlers installed and `stop_ ≤ 2`,
which by `Inv`/`C15_stop_bounded` is every state of a well-formed history between installation and teardown):
what survives re-entrance — the interrupt is recorded, callbacks get the registered data, nothing else changes — and
what does not: the *count*.  The whole-history theorems above stay without re-entrance (their invariant uses
`stop_ ≤ 2`, which a nested delivery can exceed by one). -/

/-- the step-wise handler without a nested signal is the atomic `deliver` (so, by `C15_gen_handleSigInt`, the source) -/
theorem C15_reentrant_steps_are_deliver (md : Mode) (s : St) (g : Sig) (hd : s.disp g = true) (hh : s.halted = none) :
    (hRun md g handlerSteps ⟨entryState md s g, 0, []⟩).s = (deliver md s g).1 ∧
    (hRun md g handlerSteps ⟨entryState md s g, 0, []⟩).obs = (deliver md s g).2 :=
  reentrant_steps_are_deliver md s g hd hh

/-- **What survives a nested signal, at every gap `k` of the outer handler, both semantics, any pair of signals**:
    if the process still runs afterwards the interrupt is recorded (`stop_ ≥ 1`), `stop_ ≤ 3`, the interrupter and
    the registration are untouched, and every callback invoked (by the outer or the nested handler) got the
    registered data. -/
theorem C15_reentrant_safe (md : Mode) (s : St) (g g' : Sig) (k : Nat)
    (hI : s.dispInt = true) (hT : s.dispTerm = true) (hh : s.halted = none) (h2 : s.stop ≤ 2)
    (hr : (deliverNested md s g g' k).1.halted = none) :
    1 ≤ (deliverNested md s g g' k).1.stop ∧ (deliverNested md s g g' k).1.stop ≤ 3 ∧
    (deliverNested md s g g' k).1.intr = s.intr ∧ (deliverNested md s g g' k).1.handler = s.handler ∧
    (deliverNested md s g g' k).1.data = s.data ∧
    (∀ h d, Obs.cb h d ∈ (deliverNested md s g g' k).2 → h = s.handler ∧ d = s.data) :=
  reentrant_safe md s g g' k hI hT hh h2 hr

/-- **Outside the two count windows a nested signal is a sequential pair**: arriving before the outer exit test
    (`k ≤ 1`) it behaves like `g'` then `g`; arriving after the outer `++stop_` has stored (`k ≥ 4`) like `g` then `g'`
    (same termination, and the same state if the process still runs).  So all whole-history theorems cover these
    nestings. -/
theorem C15_reentrant_sequential_outside_window (md : Mode) (s : St) (g g' : Sig) (k : Nat) (hne : g' ≠ g)
    (hI : s.dispInt = true) (hT : s.dispTerm = true) (hh : s.halted = none) (h2 : s.stop ≤ 2)
    (hk : k ≤ 1 ∨ 4 ≤ k) :
    let seq := if k ≤ 1 then run md s [.sig g', .sig g] else run md s [.sig g, .sig g']
    (deliverNested md s g g' k).1.halted = seq.1.halted ∧
    ((deliverNested md s g g' k).1.halted = none → (deliverNested md s g g' k).1 = seq.1) :=
  reentrant_sequential_outside_window md s g g' k hne hI hT hh h2 hk

/-
Full-strength third-interrupt clause under re-entrance (FALSE, see the two counterexamples): three signals, one of
them nested at any gap of another one's handler, terminate the process.
-/

/-- count window 1 (`k = 3`, between the load and the store of `++stop_`): the nested handler's increment is
    overwritten.  After the constructor: SIGINT with SIGTERM nested there, then SIGINT: three interrupts, `stop_ = 2`,
    the process runs. -/
theorem C15_reentrant_counterexample_undercount :
    let s0 := (run .bsd init ((ctorSteps Layout.current).map Ev.step)).1
    let r := deliverNested .bsd s0 .int .term 3
    r.1.halted = none ∧ r.1.stop = 1 ∧ (deliver .bsd r.1 .int).1.halted = none ∧ (deliver .bsd r.1 .int).1.stop = 2 := by
  decide

/-- count window 2 (`k = 2`, between `if (stop_ > 1) _exit(1);` and `++stop_`): with one interrupt already recorded,
    SIGINT passes the exit test, the nested SIGTERM makes `stop_` 2, the outer handler makes it 3: three interrupts, no
    exit (and `stop_` exceeds 2). -/
theorem C15_reentrant_counterexample_overcount :
    let s0 := (run .bsd init ((ctorSteps Layout.current).map Ev.step ++ [.sig .int])).1
    let r := deliverNested .bsd s0 .int .term 2
    s0.stop = 1 ∧ r.1.halted = none ∧ r.1.stop = 3 := by
  decide

/-- under SysV semantics the same signal arriving inside its own handler meets the default action -/
example :
    let s0 := (run .sysv init ((ctorSteps Layout.current).map Ev.step)).1
    (deliverNested .sysv s0 .int .int 1).1.halted = some (.killed .int) := by decide

/-! ## histories WITH nested deliveries (composition of the re-entrance model with the history theorems)

Event sequences over `EvN`: program steps, signals, and signals with a second signal raised inside their handler (at the
places `NestAt`), in any number and any interleaving.  The lifecycle invariant is carried modulo the exact value of
`stop_` (`InvN`: a nested delivery can make it 3).  What the property says about being *observed* and about the
*callback* holds for all such histories; only the third-interrupt *count* does not (open finding C15-nested-miscount). -/

/-- **No lost interrupt, histories with nested deliveries.**  After any well-formed history that may contain nested
    deliveries, a signal — nested into or not — delivered while the handler object is installed is seen by the stop
    query after any continuation of registrations, work steps and further (possibly nested) signals, if the process
    still runs. -/
theorem C15_nested_history_no_lost (L : Layout) (md : Mode) (pre : List EvN) (sp : SigSpec) (post : List EvN) (pc : PC)
    (hpc : pcRunN L .idle pre = some pc) (hin : pc.installed = true)
    (hpost : ∀ e ∈ post, BodyN e = true)
    (hrun : (runN md init (pre ++ .sig sp :: post)).1.halted = none) :
    stopQuery (runN md init (pre ++ .sig sp :: post)).1 = true := by
  rw [runN_append, runN_cons] at hrun ⊢
  simp only [] at hrun ⊢
  have h1 := runN_halted_of md _ post hrun
  have h0 := execN_halted_of md _ _ h1
  have hinv := inv_runN L md pre .idle pc init invN_init hpc h0
  generalize (runN md init pre).1 = s at *
  have hobj : s.intr = .obj := by
    cases pc <;> simp_all [PC.installed, InvN, normStop, Inv]
  have eff := sig_effect md s sp h0 h1
  have hb := bodyN_run md post _ hpost eff.2.1 hrun
  have hi2 : (execN md s (.sig sp)).1.intr = .obj := by rw [eff.1]; exact hobj
  unfold stopQuery
  rw [hb.2, hi2]
  simp
  omega

/-- **Pairing, histories with nested deliveries.**  Every callback invoked by a delivery (nested into or not, whether
    or not the process survives it) after any well-formed history with nested deliveries is the last completed
    registration with its data — at every point outside the old `SetHandler` window (which the current store order
    does not have). -/
theorem C15_nested_history_pairing (L : Layout) (md : Mode) (pre : List EvN) (sp : SigSpec) (pc : PC)
    (hpc : pcRunN L .idle pre = some pc) (hw : pc.inWindow = false)
    (hrun : (runN md init pre).1.halted = none) (h d : Nat)
    (hcb : Obs.cb h d ∈ (execN md (runN md init pre).1 (.sig sp)).2) :
    pc.curReg = some (h, d) := by
  have hinv := inv_runN L md pre .idle pc init invN_init hpc hrun
  generalize (runN md init pre).1 = s at *
  obtain ⟨rfl, rfl, hne⟩ := sig_cbs md s sp hrun h d hcb
  cases pc <;> simp_all [PC.inWindow, PC.curReg, InvN, normStop, Inv, regOK]
  all_goals
    rename_i r
    cases r with
    | none => simp_all
    | some p => obtain ⟨a, b⟩ := p; simp_all

/-- **No callback after teardown, histories with nested deliveries.** -/
theorem C15_nested_history_after_teardown (L : Layout) (md : Mode) (pre : List EvN) (sp : SigSpec) (pc : PC)
    (hpc : pcRunN L .idle pre = some pc) (hno : pc.noCallbackExpected = true)
    (hrun : (runN md init pre).1.halted = none) (h d : Nat) :
    Obs.cb h d ∉ (execN md (runN md init pre).1 (.sig sp)).2 := by
  intro hcb
  have hinv := inv_runN L md pre .idle pc init invN_init hpc hrun
  generalize (runN md init pre).1 = s at *
  obtain ⟨rfl, _, hne⟩ := sig_cbs md s sp hrun h d hcb
  have : s.handler = 0 := by cases pc <;> simp_all [PC.noCallbackExpected, InvN, normStop, Inv]
  exact hne this

/-- **Third interrupt terminates, histories with nested deliveries at the places `NestAt`.**  In the histories the model
    runs (`runN`: a second signal raised inside `write`, inside the callback or inside the re-arm — gaps 1 and 5 of the
    handler, i.e. outside the two count windows of finding C15-nested-miscount), every interrupt is counted, nested ones
    included (`weightN`): after any well-formed history, a well-formed continuation without a new constructor that
    delivers three interrupts in total terminates the process.  So the miscount is confined to the two windows. -/
theorem C15_nested_history_third_exits (md : Mode) (pre post : List EvN) (pc pc' : PC)
    (_hpc : pcRunN Layout.current .idle pre = some pc) (hpost : pcRunN Layout.current pc post = some pc')
    (hno : ∀ e ∈ post, e ≠ .step .cStop0)
    (h3 : 3 ≤ weightN md (runN md init pre).1 post) :
    (runN md init (pre ++ post)).1.halted ≠ none := by
  intro hn
  rw [runN_append] at hn
  have hk := keeps_no_dStop1 Layout.current rfl (post.map EvN.plain) pc pc' (by rw [← pcRunN_plain]; exact hpost)
  have hneu : ∀ e ∈ post, StopNeutralN e = true := by
    intro e he
    have a := hno e he
    have b := hk e.plain (List.mem_map_of_mem he)
    cases e with
    | sig sp => rfl
    | step m => cases m <;> simp_all [StopNeutralN, StopNeutral, EvN.plain]
  have c := stopN_run md post _ hneu hn
  have := c.2 (by omega)
  omega

/-- instance: registration (1,2); SIGINT with SIGTERM raised inside the callback (two interrupts), a work step, the
    destructor's first two stores, then SIGTERM: three interrupts, the process has terminated -/
example :
    let pre := (ctorSteps Layout.current ++ regSteps Layout.current 1 2).map EvN.step
    let post := [EvN.sig ⟨.int, some (.term, .inCallback)⟩, .step .work, .step .dIntr, .step .dH0, .sig ⟨.term, none⟩]
    (runN .bsd init (pre ++ post)).1.halted ≠ none :=
  C15_nested_history_third_exits .bsd _ _ (.live (some (1, 2))) .dH (by decide) (by decide) (by decide) (by decide)

/-- a history with nested deliveries that meets all hypotheses: constructor, registration (1,2), SIGINT with SIGTERM
    nested inside the callback, a work step; then SIGTERM with SIGINT nested inside `write` is delivered … -/
private def exPreN : List EvN :=
  ((ctorSteps Layout.current ++ regSteps Layout.current 1 2).map EvN.step) ++
    [.sig ⟨.int, some (.term, .inCallback)⟩, .step .work]

example : pcRunN Layout.current .idle exPreN = some (.live (some (1, 2))) ∧ (runN .bsd init exPreN).1.halted = none ∧
    (runN .bsd init exPreN).1.stop = 2 ∧
    (runN .bsd init exPreN).2 = [.brk 18 true, .cb 1 2, .brk 18 true, .cb 1 2, .rearm .term, .rearm .int, .query true] := by
  decide

/-- … and `C15_nested_history_pairing` applies to a nested delivery after a history with an earlier interrupt
    (`stop_` is 1: SIGTERM with SIGINT nested in `write`; the nested handler invokes
    (1,2), the outer one then exits) -/
example : PC.curReg (.live (some (1, 2))) = some (1, 2) :=
  C15_nested_history_pairing Layout.current .bsd
    (((ctorSteps Layout.current ++ regSteps Layout.current 1 2).map EvN.step) ++ [.sig ⟨.int, none⟩, .step .work])
    ⟨.term, some (.int, .inWrite)⟩ (.live (some (1, 2))) (by decide) (by decide) (by decide) 1 2 (by decide)

/-- `C15_nested_history_no_lost` on a history whose only delivery is a nested one -/
example : stopQuery (runN .sysv init (((ctorSteps Layout.current).map EvN.step) ++
      .sig ⟨.int, some (.term, .inRearm)⟩ :: [.step (.setH 0), .step (.setD 2), .step (.setH 1), .step .work])).1 = true :=
  C15_nested_history_no_lost Layout.current .sysv _ _ _ (.live none) (by decide) (by decide) (by decide) (by decide)

/-! ## the handler stays installed -/

/-- **Re-arm** (full strength, both `signal` semantics, all event sequences): once both dispositions are set,
    no later signal is ever handled by the default action — no program step uninstalls the handler and
    every delivery that returns has re-installed it. -/
theorem C15_handler_stays_installed (md : Mode) (s : St) (evs : List Ev) (g : Sig)
    (hh : s.halted = none) (hI : s.dispInt = true) (hT : s.dispTerm = true) :
    (run md s evs).1.halted ≠ some (.killed g) ∧
    ((run md s evs).1.halted = none → (run md s evs).1.dispInt = true ∧ (run md s evs).1.dispTerm = true) := by
  rcases never_killed md evs s (Or.inl ⟨hh, hI, hT⟩) with ⟨a, b, c⟩ | hx
  · simp [a, b, c]
  · simp [hx]

/-- From the constructor's second `signal()` call on, every well-formed history has both handlers installed. -/
theorem C15_installed_after_ctor (L : Layout) (md : Mode) (pre : List Ev) (pc : PC)
    (hpc : pcRun L .idle pre = some pc)
    (hpast : pc = .cS2 ∨ pc.installed = true ∨ pc.curReg.isSome ∨ pc = .dH ∨ pc = .dZ ∨ (∃ r, pc = .dI r) ∨ (∃ r, pc = .dS r))
    (hrun : (run md init pre).1.halted = none) :
    (run md init pre).1.dispInt = true ∧ (run md init pre).1.dispTerm = true := by
  have hinv := inv_run L md pre .idle pc init inv_init hpc hrun
  generalize (run md init pre).1 = s at *
  cases pc <;> simp_all [Inv, PC.installed, PC.curReg]

/-- **No spurious stop**: if no signal is delivered after the constructor's `stop_ = 0`, the stop query
    stays false during registrations and solve/report steps. -/
theorem C15_no_spurious_stop (L : Layout) (md : Mode) (pre post : List Ev)
    (hpc : pcRun L .idle pre = some .cS2)
    (hpost : ∀ e ∈ post, Body e = true) (h0 : sigCount post = 0)
    (hrun : (run md init pre).1.halted = none) :
    stopQuery (run md init (pre ++ .step .cStop0 :: post)).1 = false := by
  have hinv := inv_run L md pre .idle _ init inv_init hpc hrun
  rw [run_split, exec_step md _ _ hrun]
  generalize (run md init pre).1 = s at *
  have hI : s.dispInt = true ∧ s.dispTerm = true := by simp_all [Inv]
  have hb := body_run md post (applyMicro s .cStop0) hpost hI.1 hI.2 hrun (by simp [applyMicro])
  have hn := hb.2.2.1 (by simp [applyMicro]; omega)
  obtain ⟨e1, _⟩ := hb.1 hn
  unfold stopQuery
  rw [e1]
  split <;> simp [applyMicro, h0]

/-! ## strict statements for every store order with the repaired constructor / `SetHandler`

`Layout.ctorStopFirst` (`stop_ = 0` before the `signal()` calls) and `Layout.regClearFirst`
(`handler_ = 0; data_ = d; handler_ = h`); specialised to `Layout.current` in the MAIN THEOREMS section. -/

/-- **No lost interrupt, strict reading, repaired constructor.**  "Installed" = this object's `signal()` call
    for `g` has been made.  `post` is any well-formed continuation (rest of the constructor, registrations, work,
    more signals) that does not enter the destructor. -/
theorem C15_order_no_lost (L : Layout) (hL : L.ctorStopFirst = true) (md : Mode) (pre : List Ev) (g : Sig)
    (post : List Ev) (pc pc' : PC)
    (hpc : pcRun L .idle pre = some pc) (hin : pc.installedFor g = true)
    (hpost : pcRun L pc post = some pc') (hnd : ∀ e ∈ post, isDtorStep e = false)
    (hrun : (run md init (pre ++ .sig g :: post)).1.halted = none) :
    stopQuery (run md init (pre ++ .sig g :: post)).1 = true := by
  have hInt : pc.installedInt = true := by
    cases g <;> cases pc <;> simp_all [PC.installedFor, PC.installedInt, PC.installedTerm]
  have hneu : ∀ e ∈ post, Neutral e = true := fun e he =>
    neutral_of_bodyOrSignalCall e ((ctorfix_tail L hL post pc pc' hInt hpost hnd).1 e he)
  rw [run_split] at hrun ⊢
  have h1 := run_halted_of md _ post hrun
  have h0 := exec_halted_of md _ _ h1
  have hinv := inv_run L md pre .idle pc init inv_init hpc h0
  rw [exec_sig md _ g h0] at hrun h1 ⊢
  generalize (run md init pre).1 = s at *
  have hI : s.disp g = true ∧ s.intr = .obj := by
    cases g <;> cases pc <;> simp_all [PC.installedFor, PC.installedInt, PC.installedTerm, PC.installed, Inv, St.disp]
  have hs : s.stop ≤ 1 := by
    by_cases hs : s.stop ≤ 1
    · exact hs
    · have := (deliver_exit md s g hI.1 (by omega)).1
      rw [this] at h1; simp at h1
  rw [deliver_ok md s g hI.1 hs] at hrun h1 ⊢
  obtain ⟨e1, e2⟩ := neutral_run md post _ hneu hrun
  unfold stopQuery
  rw [e2, e1]
  simp [hI.2]

/-- **Pairing, every gap, repaired `SetHandler`.**  No exception for the registration window any more: whatever
    the delivery point, an invoked callback is the last completed registration, with its data. -/
theorem C15_order_pairing (L : Layout) (hL : L.regClearFirst = true) (md : Mode) (pre : List Ev) (g : Sig) (pc : PC)
    (hpc : pcRun L .idle pre = some pc)
    (hrun : (run md init pre).1.halted = none) (h d : Nat)
    (hcb : Obs.cb h d ∈ (deliver md (run md init pre).1 g).2) :
    pc.curReg = some (h, d) := by
  have hnm := regfix_no_mid L hL pre .idle pc (by intro r h; simp) hpc
  refine C15_anyorder_pairing_outside_window L md pre g pc hpc ?_ hrun h d hcb
  cases pc <;> simp_all [PC.inWindow]

/-- **Third interrupt terminates, strict reading, repaired constructor**: three signals anywhere between this
    object's first `signal()` call and its destructor. -/
theorem C15_order_third_exits (L : Layout) (hL : L.ctorStopFirst = true) (md : Mode) (pre post : List Ev) (pc pc' : PC)
    (_hpc : pcRun L .idle pre = some pc) (hin : pc.installedInt = true)
    (hpost : pcRun L pc post = some pc') (hnd : ∀ e ∈ post, isDtorStep e = false)
    (h3 : 3 ≤ sigCount post) :
    (run md init (pre ++ post)).1.halted ≠ none := by
  intro hn
  have hneu : ∀ e ∈ post, Neutral e = true := fun e he =>
    neutral_of_bodyOrSignalCall e ((ctorfix_tail L hL post pc pc' hin hpost hnd).1 e he)
  rw [run_append] at hn
  have e1 := (neutral_run md post _ hneu hn).1
  have := stop_le_two md post (run md init pre).1 (stop_le_two md pre init (by decide))
  omega

/-- **Third interrupt terminates, FULL strength, for a destructor that does not reset the count**
    (`Layout.dtorKeepsStop`, repo_patches/C15-fix-dtor-keep-count.diff).  After any well-formed history, three signals
    delivered anywhere in any well-formed continuation — registrations, solving, reporting, *teardown and after it* —
    terminate the process, as long as no new handler object's constructor resets the count in between
    (`stop_ = 0` is the only remaining store that lowers it).  Signals that find no handler installed terminate the
    process by the default action, so no installation hypothesis is needed. -/
theorem C15_order_third_exits_full (L : Layout) (hD : L.dtorKeepsStop = true) (md : Mode) (pre post : List Ev) (pc pc' : PC)
    (_hpc : pcRun L .idle pre = some pc) (hpost : pcRun L pc post = some pc')
    (hno : ∀ e ∈ post, e ≠ .step .cStop0) (h3 : 3 ≤ sigCount post) :
    (run md init (pre ++ post)).1.halted ≠ none := by
  intro hn
  have hk := keeps_no_dStop1 L hD post pc pc' hpost
  have hneu : ∀ e ∈ post, StopNeutral e = true := by
    intro e he
    have a := hno e he
    have b := hk e he
    cases e with
    | sig g => rfl
    | step m => cases m <;> simp_all [StopNeutral]
  rw [run_append] at hn
  have e1 := stop_run md post _ hneu hn
  have := stop_le_two md post (run md init pre).1 (stop_le_two md pre init (by decide))
  omega

/-- the failing history of the open finding, on the layout with the destructor repair: two SIGINTs during solving,
    one after the destructor — the third now terminates the process -/
example :
    let evs := schedule (expandProg Layout.repaired [.ctor, .work, .dtor, .work]) 0 [(8, .int), (8, .int), (12, .int)]
    wfProg Layout.repaired [.ctor, .work, .dtor, .work] = true ∧ sigCount evs = 3 ∧
    (run .bsd init evs).1.halted = some .exit1 := by decide

/-- **The first two interrupts never `_exit`, repaired constructor**: counted from the constructor's `stop_ = 0`,
    which now precedes the `signal()` calls. -/
theorem C15_order_no_early_exit (L : Layout) (hL : L.ctorStopFirst = true) (md : Mode) (pre post : List Ev) (pc' : PC)
    (_hpc : pcRun L .idle pre = some .cZ)
    (hpost : pcRun L .cZ (.step .cStop0 :: post) = some pc') (hnd : ∀ e ∈ post, isDtorStep e = false)
    (h2 : sigCount post ≤ 2)
    (hrun : (run md init pre).1.halted = none) :
    (run md init (pre ++ .step .cStop0 :: post)).1.halted ≠ some .exit1 := by
  rw [run_split, exec_step md _ _ hrun]
  have hp0 : pcRun L .c0 post = some pc' := by
    simpa [pcRun, pcNext, hL] using hpost
  have hneu : ∀ e ∈ post, Neutral e = true := fun e he =>
    neutral_of_bodyOrSignalCall e (ctorfix_tail0 L hL post pc' hp0 hnd e he)
  exact no_exit_run md post _ hneu (by simp [applyMicro]; omega) (by rw [applyMicro_halted, hrun]; simp)

/-! ## MAIN THEOREMS for the store order the code has now (`Layout.current`)

"Installed" is the strict reading: this handler object's own `signal()` call for the signal has been made
(`PC.installedFor g`), and its destructor has not begun (`isDtorStep`).  `pre`/`post`: arbitrary well-formed event
sequences — any registrations, work steps and signals in any interleaving, any number of earlier handler objects. -/

/-- **An interrupt is never lost.** -/
theorem C15_no_lost (md : Mode) (pre : List Ev) (g : Sig) (post : List Ev) (pc pc' : PC)
    (hpc : pcRun Layout.current .idle pre = some pc) (hin : pc.installedFor g = true)
    (hpost : pcRun Layout.current pc post = some pc') (hnd : ∀ e ∈ post, isDtorStep e = false)
    (hrun : (run md init (pre ++ .sig g :: post)).1.halted = none) :
    stopQuery (run md init (pre ++ .sig g :: post)).1 = true :=
  C15_order_no_lost Layout.current rfl md pre g post pc pc' hpc hin hpost hnd hrun

/-- **A callback is only ever invoked with the data registered with it**, at every delivery point, including
    between the individual stores of `SetHandler`. -/
theorem C15_pairing (md : Mode) (pre : List Ev) (g : Sig) (pc : PC)
    (hpc : pcRun Layout.current .idle pre = some pc)
    (hrun : (run md init pre).1.halted = none) (h d : Nat)
    (hcb : Obs.cb h d ∈ (deliver md (run md init pre).1 g).2) :
    pc.curReg = some (h, d) :=
  C15_order_pairing Layout.current rfl md pre g pc hpc hrun h d hcb

/-- **A third interrupt terminates the process** — full strength.  After any well-formed history, three signals
    delivered anywhere in any well-formed continuation (rest of the constructor, registrations between their stores,
    solving, reporting, teardown and after it) terminate the process, as long as no *new* handler object's constructor
    resets the count in between.  (A signal that finds no handler installed terminates the process by the default
    action, hence no installation hypothesis.) -/
theorem C15_third_exits (md : Mode) (pre post : List Ev) (pc pc' : PC)
    (hpc : pcRun Layout.current .idle pre = some pc) (hpost : pcRun Layout.current pc post = some pc')
    (hno : ∀ e ∈ post, e ≠ .step .cStop0) (h3 : 3 ≤ sigCount post) :
    (run md init (pre ++ post)).1.halted ≠ none :=
  C15_order_third_exits_full Layout.current rfl md pre post pc pc' hpc hpost hno h3

/-- regression: the failing history of the fixed finding C15-across-teardown (two SIGINTs during solving, one after the
    destructor) now terminates the process, whether the third signal comes right after the destructor or after the
    last step -/
example :
    let prog := [Macro.ctor, .work, .dtor, .work]
    wfProg Layout.current prog = true ∧
    (run .bsd init (schedule (expandProg Layout.current prog) 0 [(8, .int), (8, .int), (12, .int)])).1.halted = some .exit1 ∧
    (run .bsd init (schedule (expandProg Layout.current prog) 0 [(8, .int), (8, .int), (13, .int)])).1.halted = some .exit1 := by
  decide

/-- **The first two interrupts never `_exit`**, counted from the constructor's `stop_ = 0` (which precedes the
    `signal()` calls). -/
theorem C15_no_early_exit (md : Mode) (pre post : List Ev) (pc' : PC)
    (hpc : pcRun Layout.current .idle pre = some .cZ)
    (hpost : pcRun Layout.current .cZ (.step .cStop0 :: post) = some pc') (hnd : ∀ e ∈ post, isDtorStep e = false)
    (h2 : sigCount post ≤ 2)
    (hrun : (run md init pre).1.halted = none) :
    (run md init (pre ++ .step .cStop0 :: post)).1.halted ≠ some .exit1 :=
  C15_order_no_early_exit Layout.current rfl md pre post pc' hpc hpost hnd h2 hrun

/-! ## what the line driver prints is what the theorems speak about

The driver (`Driver.lean`) prints, for the event list `schedule …`, the entries of `trace`: (event, observations of that
event, state after it).  The theorems are about `run`, `exec` and `deliver`. -/

/-- **Linking lemma.**  For every split `evs = pre ++ e :: post` the entry the driver prints at that position is the
    event `e` with the observations and the state of `exec` applied to the state `run` reaches after `pre`
    (for a signal in a running process: of `deliver`); the concatenated observations are `run`'s; the trace has one
    entry per event. -/
theorem C15_trace_is_run (md : Mode) (s : St) (pre : List Ev) (e : Ev) (post : List Ev) :
    (trace md s (pre ++ e :: post))[pre.length]? =
        some (e, (exec md (run md s pre).1 e).2, (exec md (run md s pre).1 e).1) ∧
    ((trace md s (pre ++ e :: post)).map (fun t => t.2.1)).flatten = (run md s (pre ++ e :: post)).2 ∧
    (trace md s (pre ++ e :: post)).length = (pre ++ e :: post).length ∧
    (∀ g, e = .sig g → (run md s pre).1.halted = none →
        exec md (run md s pre).1 e = deliver md (run md s pre).1 g) := by
  refine ⟨?_, trace_obs md s _, trace_length md s _, ?_⟩
  · rw [trace_append]
    have hl : (trace md s pre).length = pre.length := trace_length md s pre
    rw [List.getElem?_append_right (by omega)]
    simp [hl, trace]
  · intro g he hh
    subst he
    exact exec_sig md _ g hh

/-! ## the lifecycle automaton and the step lists agree -/

/-- registrations and work steps, as a driver performs them between construction and teardown -/
private def bodySteps (L : Layout) : List (Option (Nat × Nat)) → List Micro
  | [] => []
  | none :: r => Micro.work :: bodySteps L r
  | some (h, d) :: r => regSteps L h d ++ bodySteps L r

private theorem body_accepted (L : Layout) (body : List (Option (Nat × Nat))) (r0 : Option (Nat × Nat)) :
    ∃ r1, ∀ rest, pcRunSteps L (.live r0) (bodySteps L body ++ rest) = pcRunSteps L (.live r1) rest := by
  induction body generalizing r0 with
  | nil => exact ⟨r0, fun rest => rfl⟩
  | cons b bs ih =>
    cases b with
    | none =>
      obtain ⟨r1, h1⟩ := ih r0
      exact ⟨r1, fun rest => by simpa [bodySteps, pcRunSteps, pcNext] using h1 rest⟩
    | some p =>
      obtain ⟨h, d⟩ := p
      obtain ⟨r1, h1⟩ := ih (some (h, d))
      refine ⟨r1, fun rest => ?_⟩
      have := h1 rest
      cases hc : L.regClearFirst <;>
        simp [bodySteps, regSteps, pcRunSteps, pcNext, hc, List.append_assoc] <;> exact this

/-- **Linking lemma between `pcNext` and the step lists**: for every store order `L`, the automaton accepts
    `ctorSteps L`, then any sequence of registrations (their stores in the order `regSteps L`) and work steps, then
    `dtorSteps L`, and is back at `idle` — so the order written into `pcNext` is the order of the step lists that
    `C15_gen_ctor/_setHandler/_dtor` tie to the source. -/
theorem C15_automaton_accepts_lifecycle (L : Layout) (body : List (Option (Nat × Nat))) :
    pcRunSteps L .idle (ctorSteps L ++ (bodySteps L body ++ dtorSteps L)) = some .idle := by
  have hc : ∀ rest, pcRunSteps L .idle (ctorSteps L ++ rest) = pcRunSteps L (.live none) rest := by
    intro rest
    cases h : L.ctorStopFirst <;> simp [ctorSteps, pcRunSteps, pcNext, h]
  obtain ⟨r1, hb⟩ := body_accepted L body none
  rw [hc, hb]
  cases h : L.dtorKeepsStop <;> simp [dtorSteps, pcRunSteps, pcNext, h]

open MpVerif.Gen in
/-- the step list of the re-entrance model (`handlerSteps`, hand-written, `++stop_` split into load and store) run
    without a nested signal is the execution of the generated source statements -/
theorem C15_gen_reentrant_steps (md : Mode) (s : St) (g : Sig) (hd : s.disp g = true) (hh : s.halted = none) :
    Src.runHandler md g Signal.handleSigInt (Src.onEntry md s g) [] =
      some ((hRun md g handlerSteps ⟨entryState md s g, 0, []⟩).s, (hRun md g handlerSteps ⟨entryState md s g, 0, []⟩).obs) := by
  rw [C15_gen_handleSigInt md s g hd]
  have := C15_reentrant_steps_are_deliver md s g hd hh
  rw [this.1, this.2]

/-! ## the correspondence inputs are instances of the theorems -/

/-- every case the driver/harness run (`schedule` of a well-formed macro program) is an event sequence of the
    kind the theorems quantify over -/
theorem C15_schedule_wellformed (L : Layout) (prog : List Macro) (sch : List (Nat × Sig)) (hw : wfProg L prog = true) :
    steps (schedule (expandProg L prog) 0 sch) = expandProg L prog ∧
    (pcRun L .idle (schedule (expandProg L prog) 0 sch)).isSome = true := by
  refine ⟨steps_schedule _ _ _, ?_⟩
  rw [pcRun_steps, steps_schedule]
  exact hw

/-! ## every theorem with hypotheses has a non-trivial instance (statement audit, round 4)

The instances below *apply* the theorems to concrete histories with signals before, inside and after the
registration, under both `signal(2)` semantics and with a failing stdout, and discharge every hypothesis by
evaluation — so no hypothesis is unsatisfiable or met only by the empty history. -/

/-- a history: construction with a SIGINT delivered right after `signal(SIGINT, …)` (gap 6) -/
private def exPre : List Ev := schedule (expandProg Layout.current [.ctor]) 0 [(6, .int)]
/-- … continued by a complete registration of (1, 2) and a solve step -/
private def exPost : List Ev := [.step (.setH 0), .step (.setD 2), .step (.setH 1), .step .work]

/-- `C15_no_lost`: SIGTERM right after the constructor, then a registration and a solve step -/
example : stopQuery (run ⟨.sysv, false⟩ init (exPre ++ .sig .term :: exPost)).1 = true :=
  C15_no_lost ⟨.sysv, false⟩ exPre .term exPost (.live none) (.live (some (1, 2)))
    (by decide) (by decide) (by decide) (by decide) (by decide)

/-- `C15_no_lost` at the earliest installed point: SIGINT after `signal(SIGINT, …)`, before `signal(SIGTERM, …)` -/
example :
    let pre := (ctorSteps Layout.current).take 6 |>.map Ev.step
    stopQuery (run .bsd init (pre ++ .sig .int :: (.step .cSigTerm :: exPost))).1 = true :=
  C15_no_lost .bsd _ .int _ .cS1 (.live (some (1, 2))) (by decide) (by decide) (by decide) (by decide) (by decide)

/-- `C15_pairing` inside the registration window (after `data_ = 2`, before `handler_ = 1`) while the old
    registration (3, 4) has been cleared: the hypothesis `cb h d ∈ obs` is not satisfiable there — no callback — … -/
example :
    let pre := exPre ++ [.step (.setH 0), .step (.setD 4), .step (.setH 3), .step (.setH 0), .step (.setD 2)]
    pcRun Layout.current .idle pre = some (.dat 2) ∧
    (deliver .bsd (run .bsd init pre).1 .int).2 = [.brk 18 true, .rearm .int] := by decide

/-- … and satisfiable at a `live` point, where the theorem pins the pair down -/
example :
    let pre := exPre ++ exPost
    PC.curReg (.live (some (1, 2))) = some (1, 2) ∧ Obs.cb 1 2 ∈ (deliver .sysv (run .sysv init pre).1 .term).2 ∧
    pcRun Layout.current .idle pre = some (.live (some (1, 2))) ∧ (run .sysv init pre).1.halted = none := by decide

example : PC.curReg (.live (some (1, 2))) = some (1, 2) :=
  C15_pairing .sysv (exPre ++ exPost) .term (.live (some (1, 2))) (by decide) (by decide) 1 2 (by decide)

/-- `C15_callback_invoked` -/
example : (deliver .bsd (run .bsd init (exPre ++ exPost)).1 .int).2.filter
      (fun o => match o with | .cb _ _ => true | _ => false) = [Obs.cb 1 2] :=
  C15_callback_invoked Layout.current .bsd (exPre ++ exPost) .int 1 2 (by decide) (by decide) (by decide) (by decide)

/-- `C15_third_exits`: three signals spread over the constructor tail, a registration and the teardown -/
example :
    let pre := (ctorSteps Layout.current).take 6 |>.map Ev.step
    let post := [.sig .int, .step .cSigTerm, .step (.setH 0), .sig .term, .step (.setD 2), .step (.setH 1), .step .work,
                 .step .dIntr, .step .dH0, .sig .int, .step .dSize0]
    (run .bsd init (pre ++ post)).1.halted ≠ none :=
  C15_third_exits .bsd _ _ .cS1 .dZ (by decide) (by decide) (by decide) (by decide)

/-- `C15_no_early_exit`: two signals, one of them before the `signal()` calls of a *second* handler object (handled by
    the disposition the first object left installed) -/
example :
    let life1 := schedule (expandProg Layout.current [.ctor, .work, .dtor]) 0 []
    let pre := life1 ++ ((ctorSteps Layout.current).take 4 |>.map Ev.step)
    let post := [.sig .int, .step .cSigInt, .step .cSigTerm, .step .work, .sig .term, .step .work]
    (run .bsd init (pre ++ .step .cStop0 :: post)).1.halted ≠ some .exit1 :=
  C15_no_early_exit .bsd _ _ (.live none) (by decide) (by decide) (by decide) (by decide) (by decide)

/-- `C15_after_teardown` / `C15_break_text_safe` after a history with a registration and interrupts: nothing is
    called, nothing is written -/
example :
    let pre := exPre ++ exPost ++ ((dtorSteps Layout.current).map Ev.step)
    pcRun Layout.current .idle pre = some .idle ∧ (run .bsd init pre).1.halted = none ∧
    (deliver .bsd (run .bsd init pre).1 .int).2 = [.brk 0 true, .rearm .int] := by decide

example : Obs.cb 1 2 ∉ (deliver .bsd (run .bsd init (exPre ++ exPost ++ ((dtorSteps Layout.current).take 2).map Ev.step)).1 .int).2 :=
  C15_after_teardown Layout.current .bsd _ .int .dH (by decide) (by decide) (by decide) 1 2

/-- `C15_gen_handleSigInt` in a state where everything happens: sysv semantics, failing stdout, a registered
    callback, `stop_ = 1` -/
example :
    let s := (run ⟨.sysv, false⟩ init (exPre ++ exPost)).1
    s.disp .term = true ∧ s.stop = 1 ∧ s.handler = 1 ∧
    Src.runHandler ⟨.sysv, false⟩ .term MpVerif.Gen.Signal.handleSigInt (Src.onEntry ⟨.sysv, false⟩ s .term) [] =
      some ({ s with stop := 2 }, [.brkFail, .cb 1 2, .rearm .term]) := by decide

/-! ## non-vacuity -/

/-- an ordinary run: `C R(1,1) W D W` with one SIGINT during solving: the callback gets its data, the solve
    step sees the stop request, nothing after teardown -/
example :
    let evs := schedule (expandProg .pinned [.ctor, .reg 1 1, .work, .dtor, .work]) 0 [(9, .int)]
    (run .bsd init evs).2 = [.brk 18 true, .cb 1 1, .rearm .int, .query true, .query false] := by decide

/-- the hypotheses of `C15_anyorder_no_lost_after_ctor` / `C15_anyorder_third_exits_after_ctor` are satisfiable: the constructor's
    event sequence ends in an installed point with the process running -/
example : pcRun .pinned .idle ((ctorSteps .pinned).map Ev.step) = some (.live none) ∧
    (run .sysv init ((ctorSteps .pinned).map Ev.step)).1.halted = none := by decide

/-- three SIGTERM/SIGINT during solving terminate the process (sysv semantics too) -/
example :
    let evs := schedule (expandProg .pinned [.ctor, .reg 1 1, .work, .work]) 0 [(9, .term), (10, .int), (10, .term)]
    (run .sysv init evs).1.halted = some .exit1 ∧
    (run .sysv init evs).2 = [.brk 18 true, .cb 1 1, .rearm .term, .query true, .brk 18 true, .cb 1 1, .rearm .int,
                               .brk 18 true, .exit1] := by decide

/-- a registration attempt while no handler object exists (`BasicSolver::SetHandler`) changes nothing: after
    `C R(1,1) D N(2,2)` a signal invokes no callback -/
example :
    let prog := [Macro.ctor, .reg 1 1, .dtor, .nreg 2 2, .work]
    let evs := schedule (expandProg Layout.current prog) 0 [(15, .int), (16, .int)]
    wfProg Layout.current prog = true ∧
    (run .bsd init evs).2 = [.brk 0 true, .rearm .int, .query false, .brk 0 true, .rearm .int] := by decide

/-- before installation the default action kills the process -/
example : (run .bsd init (schedule (expandProg .pinned [.ctor]) 0 [(3, .term)])).1.halted = some (.killed .term) := by decide

/-- repaired layout, the schedule of `C15_oldorder_counterexample_lost_in_ctor_window` moved to the same place (right after
    `signal(SIGINT, …)`, now gap 6): the interrupt is seen by the solve step -/
example :
    let evs := schedule (expandProg .fixed [.ctor, .work]) 0 [(6, .int)]
    (run .bsd init evs).2 = [.brk 18 true, .rearm .int, .query true] := by decide

/-- repaired layout, signals in both gaps inside the second `SetHandler` of `C R(1,1) R(2,2)`: no callback while
    `handler_` is cleared, never a mixed pair -/
example :
    let evs := schedule (expandProg .fixed [.ctor, .reg 1 1, .reg 2 2]) 0 [(10, .int), (11, .int), (12, .int)]
    wfProg .fixed [.ctor, .reg 1 1, .reg 2 2] = true ∧
    (run .bsd init evs).2 = [.brk 18 true, .cb 1 1, .rearm .int, .brk 18 true, .rearm .int, .brk 18 true, .exit1] := by
  decide

end MpVerif.C15

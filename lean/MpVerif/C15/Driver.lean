import MpVerif.C15.Model
import MpVerif.C15.Reentrant
/-! Line driver for C15.  Input: `<mode> <macro>* | <gap>:<sig>*` (see harness/h_signal.cc); output: the
    canonical observation line predicted by the model.  Only parsing and printing here; every decision is
    taken by `MpVerif.C15` model functions (`wfProg`, `validSched`, `schedule`, `trace`). -/
open MpVerif.C15

def microName : Micro → String
  | .cAlloc => "sh.ctor.enter"
  | .cIntr => "sh.ctor.after_set_interrupter"
  | .cPtr => "sh.ctor.after_msg_ptr"
  | .cSize => "sh.ctor.after_msg_size"
  | .cSigInt => "sh.ctor.after_signal_int"
  | .cSigTerm => "sh.ctor.after_signal_term"
  | .cStop0 => "sh.ctor.after_stop0"
  | .setH _ => "sh.set.after_handler"
  | .setD _ => "sh.set.after_data"
  | .work => "W"
  | .nreg _ _ => "N"
  | .dIntr => "sh.dtor.after_set_interrupter"
  | .dStop1 => "sh.dtor.after_stop1"
  | .dH0 => "sh.dtor.after_handler0"
  | .dSize0 => "sh.dtor.after_msg_size0"
  | .dFree => "free"

def sigName : Sig → String
  | .int => "I"
  | .term => "T"

def b01 (b : Bool) : String := if b then "1" else "0"

def stateStr (s : St) : String :=
  let p := match s.msgPtr with | .null => "N" | .live => "L" | .dangling => "X"
  let i := match s.intr with | .self => "S" | .obj => "O" | .dangling => "X"
  s!"[s{s.stop},h{s.handler},d{s.data},p{p},z{s.msgSize},i{i},I{b01 s.dispInt},T{b01 s.dispTerm}]"

/-- break text of one delivery; with a nested delivery both handlers write: the total number of bytes -/
def brkToken (obs : List Obs) : String :=
  let parts := obs.filterMap (fun o => match o with
    | .brk n ok => some (if ok then some n else none)
    | _ => none)
  if obs.any (fun o => o == .brkFail) then "brk=E"
  else if parts.any (fun x => x.isNone) then "brk=!"
  else s!"brk={(parts.map (fun x => x.getD 0)).foldl (· + ·) 0}"

def sigToken (hd : String) (obs : List Obs) (s : St) : String :=
  let brk := [brkToken obs]
  let cbs := obs.filterMap (fun o => match o with | .cb h d => some s!"{h}:{d}" | _ => none)
  let re := obs.filterMap (fun o => match o with | .rearm g => some (sigName g) | _ => none)
  let killed := obs.filterMap (fun o => match o with | .killed g => some (sigName g) | _ => none)
  let head := s!"!{hd}("
  if !killed.isEmpty then head ++ "killed=" ++ String.join killed ++ ")"
  else if obs.contains .exit1 then head ++ String.intercalate "," brk ++ ",exit=1)"
  else
    head ++ String.intercalate "," brk ++ ",cb=" ++ (if cbs.isEmpty then "-" else String.intercalate "+" cbs)
      ++ ",rearm=" ++ (if re.isEmpty then "-" else String.join re) ++ ")" ++ stateStr s

/-- hook-point names of a macro's steps, in the layout's order -/
def stepNames (L : Layout) : Macro → List String
  | .reg _ _ =>
    if L.regClearFirst then ["sh.set.after_handler_clear", "sh.set.after_data", "sh.set.after_handler"]
    else ["sh.set.after_handler", "sh.set.after_data"]
  | m => (expand L m).map microName

def placeName : NestAt → String
  | .inWrite => "w"
  | .inCallback => "c"
  | .inRearm => "r"

def specName (sp : SigSpec) : String :=
  match sp.nested with
  | none => sigName sp.g
  | some (g', p) => sigName sp.g ++ "+" ++ sigName g' ++ placeName p

def evToken (e : EvN) (name : String) (obs : List Obs) (s : St) : String :=
  match e with
  | .sig sp => sigToken (specName sp) obs s
  | .step .work =>
    let q := obs.filterMap (fun o => match o with | .query b => some (b01 b) | _ => none)
    "W(q=" ++ String.join q ++ ")" ++ stateStr s
  | .step _ => name ++ stateStr s

def parseMacro (t : String) : Option Macro :=
  match t.splitOn ":" with
  | ["C"] => some .ctor
  | ["D"] => some .dtor
  | ["W"] => some .work
  | ["N", h, d] =>
    match h.toNat?, d.toNat? with
    | some h, some d => if h ≤ 7 && d ≤ 7 then some (.nreg h d) else none
    | _, _ => none
  | ["R", h, d] =>
    match h.toNat?, d.toNat? with
    | some h, some d => if h ≤ 7 && d ≤ 7 then some (.reg h d) else none
    | _, _ => none
  | _ => none

def parseSig : String → Option Sig
  | "I" => some .int
  | "T" => some .term
  | _ => none

def parsePlace : String → Option NestAt
  | "w" => some .inWrite
  | "c" => some .inCallback
  | "r" => some .inRearm
  | _ => none

/-- `<gap>:<sig>` or `<gap>:<sig>+<sig>@<w|c|r>` (second signal raised inside the first one's handler) -/
def parseSched (t : String) : Option (Nat × SigSpec) :=
  match t.splitOn ":" with
  | [gap, spec] =>
    match gap.toNat?, spec.splitOn "+" with
    | some n, [a] => (parseSig a).map (fun g => (n, ⟨g, none⟩))
    | some n, [a, rest] =>
      match rest.splitOn "@" with
      | [b, p] =>
        match parseSig a, parseSig b, parsePlace p with
        | some g, some g', some pl => some (n, ⟨g, some (g', pl)⟩)
        | _, _, _ => none
      | _ => none
    | _, _ => none
  | _ => none

/-- `<bsd|sysv>[/<stdout state>]`; stdout states file, pipe, null are writable, closed, full, ro are not -/
def parseMode (t : String) : Option Mode :=
  let sem? : String → Option SigSem := fun
    | "bsd" => some .bsd
    | "sysv" => some .sysv
    | _ => none
  let out? : String → Option Bool := fun
    | "file" => some true
    | "pipe" => some true
    | "null" => some true
    | "closed" => some false
    | "full" => some false
    | "ro" => some false
    | "part" => some false
    | _ => none
  match t.splitOn "/" with
  | [a] => (sem? a).map (fun x => ⟨x, true⟩)
  | [a, o] => match sem? a, out? o with
    | some x, some w => some ⟨x, w⟩
    | _, _ => none
  | _ => none

def renderTrace : List String → List (EvN × List Obs × St) → List String
  | _, [] => ["end"]
  | names, (e, obs, s) :: r =>
    let (name, names') := match e with
      | .step _ => (names.headD "?", names.drop 1)
      | .sig _ => ("", names)
    if s.halted.isSome then [evToken e name obs s] else evToken e name obs s :: renderTrace names' r

def parseLayout : String → Option Layout
  | "pinned" => some ⟨false, false, false⟩
  | "ctorfix" => some ⟨true, false, false⟩
  | "regfix" => some ⟨false, true, false⟩
  | "fixed" => some ⟨true, true, false⟩
  | "pinned+dtor" => some ⟨false, false, true⟩
  | "ctorfix+dtor" => some ⟨true, false, true⟩
  | "regfix+dtor" => some ⟨false, true, true⟩
  | "fixed+dtor" => some ⟨true, true, true⟩
  | _ => none

def handleLine (L : Layout) (line : String) : String :=
  let toks := (line.trimAscii.toString.splitOn " ").filter (· ≠ "")
  match toks with
  | [] => "bad-op"
  | m :: rest =>
    let progT := rest.takeWhile (· ≠ "|")
    let schT := (rest.dropWhile (· ≠ "|")).drop 1
    match parseMode m, progT.mapM parseMacro, schT.mapM parseSched with
    | some md, some prog, some sch =>
      let micros := expandProg L prog
      let names := (prog.map (stepNames L)).flatten
      if wfProg L prog && validSchedN micros.length sch then
        String.intercalate " " (("start" ++ stateStr init) :: renderTrace names (traceN md init (scheduleN micros 0 sch)))
      else "bad-op"
    | _, _, _ => "bad-op"

/-- `nestk <bsd|sysv> <U|O> <k>`: the model's outcome of SIGINT with SIGTERM nested after `k` steps of its handler,
    followed by a third SIGINT; from the state after constructor + `SetHandler(1,1)` (U) resp. one earlier SIGINT (O).
    Compared by the check with the real code stepped instruction by instruction (harness/h_signal_pt.cc). -/
def nestLine (L : Layout) (m sc k : String) : String :=
  match parseMode m, k.toNat? with
  | some md, some kk =>
    let pre := (expandProg L [.ctor, .reg 1 1]).map Ev.step ++ (if sc == "O" then [Ev.sig .int] else [])
    if sc != "U" && sc != "O" then "bad-op" else
    let s0 := (run md init pre).1
    let r := deliverNested md s0 .int .term kk
    let ncb := fun (o : List Obs) => (o.filter (fun x => match x with | .cb _ _ => true | _ => false)).length
    if r.1.halted.isSome then "pair=exit1 callbacks=- third=-"
    else
      let t := deliver md r.1 .int
      let c0 := ncb (run md init pre).2 + ncb r.2
      s!"pair={r.1.stop} callbacks={c0} third=" ++ (if t.1.halted.isSome then "exit1" else "alive")
  | _, _ => "bad-op"

partial def loop (L : Layout) (h : IO.FS.Stream) (out : IO.FS.Stream) : IO Unit := do
  let line ← h.getLine
  if line.isEmpty then return ()
  if line.trimAscii.toString.isEmpty then loop L h out
  else
    match (line.trimAscii.toString.splitOn " ").filter (· ≠ "") with
    | ["nestk", m, sc, k] => out.putStrLn (nestLine L m sc k)
    | _ => out.putStrLn (handleLine L line)
    loop L h out

/-- `drv_c15 [pinned|ctorfix|regfix|fixed]` (default pinned): the store order the model uses -/
def main (args : List String) : IO UInt32 := do
  let out ← IO.getStdout
  match parseLayout (args.headD "pinned") with
  | some L => loop L (← IO.getStdin) out; return 0
  | none => IO.eprintln "unknown layout"; return 2

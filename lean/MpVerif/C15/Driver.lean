/-! Line driver for C15 (stub; replaced when the model is written). -/
def main : IO Unit := pure ()

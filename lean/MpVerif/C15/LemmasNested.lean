import MpVerif.C15.LemmasReentrant
/-! Histories that contain nested deliveries: the lifecycle invariant modulo the exact value of `stop_`
    (a nested delivery can make it 3), and its preservation along `runN`. -/
namespace MpVerif.C15

/-- forget how many interrupts were counted, keep whether any was -/
def normStop (s : St) : St := { s with stop := if s.stop = 0 then 0 else 1 }

/-- the lifecycle invariant for histories with nested deliveries -/
def InvN (pc : PC) (s : St) : Prop := Inv pc (normStop s)

theorem invN_init : InvN .idle init := by simp [InvN, normStop, Inv, init]

theorem normStop_applyMicro (s : St) (m : Micro) : normStop (applyMicro s m) = applyMicro (normStop s) m := by
  cases s; cases m <;> rfl

theorem invN_step (L : Layout) (pc pc' : PC) (s : St) (m : Micro) (hi : InvN pc s) (hn : pcNext L pc m = some pc') :
    InvN pc' (applyMicro s m) := by
  unfold InvN
  rw [normStop_applyMicro]
  exact inv_step L pc pc' _ m hi hn

theorem inv_set_stop_one (pc : PC) (t : St) (hi : Inv pc t) : Inv pc { t with stop := 1 } := by
  obtain ⟨_, hr⟩ := hi
  refine ⟨by simp, ?_⟩
  cases pc <;> first | exact hr | (simp_all [regOK])

/-- a delivery (nested or not) that leaves the process running only changed `stop_`, to something positive -/
theorem invN_stop_positive (pc : PC) (s : St) (n : Nat) (hn : 1 ≤ n) (hi : InvN pc s) : InvN pc { s with stop := n } := by
  unfold InvN at *
  have : normStop { s with stop := n } = { normStop s with stop := 1 } := by
    cases s; simp [normStop]; omega
  rw [this]
  exact inv_set_stop_one pc _ hi

theorem deliver_effect (md : Mode) (s : St) (g : Sig) (hh : s.halted = none) (hr : (deliver md s g).1.halted = none) :
    (deliver md s g).1 = { s with stop := (deliver md s g).1.stop } ∧ 1 ≤ (deliver md s g).1.stop ∧
    (∀ h d, Obs.cb h d ∈ (deliver md s g).2 → h = s.handler ∧ d = s.data ∧ h ≠ 0) := by
  cases hd : s.disp g with
  | false => rw [deliver_killed md s g hd] at hr; simp at hr
  | true =>
    by_cases hs : s.stop ≤ 1
    · rw [deliver_ok md s g hd hs]
      refine ⟨rfl, by simp, ?_⟩
      intro h d hm
      simp at hm
      obtain ⟨a, b, c⟩ := hm
      exact ⟨b, c, by rw [b]; exact a⟩
    · have := (deliver_exit md s g hd (by omega)).1
      rw [this] at hr; simp at hr

theorem nestedAt_effect (md : Mode) (s : St) (g g' : Sig) (p : NestAt) (hh : s.halted = none)
    (hr : (deliverNestedAt md s g g' p).1.halted = none) :
    (deliverNestedAt md s g g' p).1 = { s with stop := (deliverNestedAt md s g g' p).1.stop } ∧
    1 ≤ (deliverNestedAt md s g g' p).1.stop ∧
    (∀ h d, Obs.cb h d ∈ (deliverNestedAt md s g g' p).2 → h = s.handler ∧ d = s.data ∧ h ≠ 0) := by
  unfold deliverNestedAt at *
  cases hg : p.gap s with
  | none => simp only [hg] at hr ⊢; exact deliver_effect md s g hh hr
  | some k => simp only [hg] at hr ⊢; exact nested_effect md s g g' k hh hr

/-- one scheduled delivery, nested or not -/
theorem sig_effect (md : Mode) (s : St) (sp : SigSpec) (hh : s.halted = none)
    (hr : (execN md s (.sig sp)).1.halted = none) :
    (execN md s (.sig sp)).1 = { s with stop := (execN md s (.sig sp)).1.stop } ∧
    1 ≤ (execN md s (.sig sp)).1.stop ∧
    (∀ h d, Obs.cb h d ∈ (execN md s (.sig sp)).2 → h = s.handler ∧ d = s.data ∧ h ≠ 0) := by
  obtain ⟨g, n⟩ := sp
  cases n with
  | none =>
    simp only [execN] at hr ⊢
    rw [exec_sig md s g hh] at hr ⊢
    exact deliver_effect md s g hh hr
  | some q =>
    obtain ⟨g', p⟩ := q
    have he : execN md s (.sig ⟨g, some (g', p)⟩) = deliverNestedAt md s g g' p := by simp [execN, hh]
    rw [he] at hr ⊢
    exact nestedAt_effect md s g g' p hh hr

set_option maxHeartbeats 4000000 in
/-- every callback invoked by a delivery with a nested delivery — whether or not the process survives it — is the
    registered callback with the registered data -/
theorem nested_cbs (md : Mode) (s : St) (g g' : Sig) (k : Nat) (hh : s.halted = none) (h d : Nat)
    (hcb : Obs.cb h d ∈ (deliverNested md s g g' k).2) : h = s.handler ∧ d = s.data ∧ h ≠ 0 := by
  obtain ⟨sem, w⟩ := md
  cases s with
  | mk stop handler data msgPtr msgSize dispInt dispTerm intr alive halted =>
    simp at hh; subst hh
    by_cases h0 : handler = 0 <;> cases sem <;> cases g <;> cases g' <;> cases dispInt <;> cases dispTerm <;>
      (match stop with
       | 0 | 1 | n + 2 =>
         match k with
         | 0 | 1 | 2 | 3 | 4 | 5 | 6 | m + 7 =>
           simp_all [deliverNested, handlerSteps, hRun, hStep, entryState, deliver, St.disp, St.setDisp])

theorem deliver_cbs (md : Mode) (s : St) (g : Sig) (h d : Nat) (hcb : Obs.cb h d ∈ (deliver md s g).2) :
    h = s.handler ∧ d = s.data ∧ h ≠ 0 := by
  cases hd : s.disp g with
  | false => rw [deliver_killed md s g hd] at hcb; simp at hcb
  | true =>
    by_cases hs : s.stop ≤ 1
    · rw [deliver_ok md s g hd hs] at hcb
      simp at hcb
      obtain ⟨a, b, c⟩ := hcb
      exact ⟨b, c, by rw [b]; exact a⟩
    · rw [(deliver_exit md s g hd (by omega)).2] at hcb; simp at hcb

/-- one scheduled delivery, nested or not: the callbacks it invokes -/
theorem sig_cbs (md : Mode) (s : St) (sp : SigSpec) (hh : s.halted = none) (h d : Nat)
    (hcb : Obs.cb h d ∈ (execN md s (.sig sp)).2) : h = s.handler ∧ d = s.data ∧ h ≠ 0 := by
  obtain ⟨g, n⟩ := sp
  cases n with
  | none =>
    simp only [execN] at hcb
    rw [exec_sig md s g hh] at hcb
    exact deliver_cbs md s g h d hcb
  | some q =>
    obtain ⟨g', p⟩ := q
    have he : execN md s (.sig ⟨g, some (g', p)⟩) = deliverNestedAt md s g g' p := by simp [execN, hh]
    rw [he] at hcb
    unfold deliverNestedAt at hcb
    cases hg : p.gap s with
    | none => simp only [hg] at hcb; exact deliver_cbs md s g h d hcb
    | some k => simp only [hg] at hcb; exact nested_cbs md s g g' k hh h d hcb

theorem execN_halted (md : Mode) (s : St) (e : EvN) (h : s.halted.isSome = true) : execN md s e = (s, []) := by
  cases e with
  | step m => simp [execN, exec, h]
  | sig sp =>
    obtain ⟨g, n⟩ := sp
    cases n with
    | none => simp [execN, exec, h]
    | some q => obtain ⟨g', p⟩ := q; simp [execN, h]

theorem runN_cons (md : Mode) (s : St) (e : EvN) (r : List EvN) :
    runN md s (e :: r) = ((runN md (execN md s e).1 r).1, (execN md s e).2 ++ (runN md (execN md s e).1 r).2) := rfl

theorem runN_halted (md : Mode) (s : St) (evs : List EvN) (h : s.halted.isSome = true) : runN md s evs = (s, []) := by
  induction evs with
  | nil => rfl
  | cons e r ih => simp [runN_cons, execN_halted md s e h, ih]

theorem execN_halted_of (md : Mode) (s : St) (e : EvN) (h : (execN md s e).1.halted = none) : s.halted = none := by
  cases hs : s.halted with
  | none => rfl
  | some x => rw [execN_halted md s e (by simp [hs])] at h; simp [hs] at h

theorem runN_halted_of (md : Mode) (s : St) (evs : List EvN) (h : (runN md s evs).1.halted = none) : s.halted = none := by
  induction evs generalizing s with
  | nil => simpa [runN] using h
  | cons e r ih =>
    rw [runN_cons] at h
    exact execN_halted_of md s e (ih _ h)

theorem runN_append (md : Mode) (s : St) (a b : List EvN) :
    runN md s (a ++ b) = ((runN md (runN md s a).1 b).1, (runN md s a).2 ++ (runN md (runN md s a).1 b).2) := by
  induction a generalizing s with
  | nil => simp [runN]
  | cons e r ih => simp [runN_cons, ih, List.append_assoc]

/-- master invariant for histories with nested deliveries -/
theorem inv_runN (L : Layout) (md : Mode) (evs : List EvN) (pc pc' : PC) (s : St) (hi : InvN pc s)
    (hp : pcRunN L pc evs = some pc') (hh : (runN md s evs).1.halted = none) : InvN pc' (runN md s evs).1 := by
  induction evs generalizing pc s with
  | nil => simp [pcRunN] at hp; subst hp; simpa [runN] using hi
  | cons e r ih =>
    rw [runN_cons] at hh ⊢
    have h1 : (execN md s e).1.halted = none := runN_halted_of md _ r hh
    have h0 : s.halted = none := execN_halted_of md s e h1
    cases e with
    | sig sp =>
      simp only [pcRunN] at hp
      have eff := sig_effect md s sp h0 h1
      have : InvN pc (execN md s (.sig sp)).1 := by
        rw [eff.1]; exact invN_stop_positive pc s _ eff.2.1 hi
      exact ih pc _ this hp hh
    | step m =>
      simp only [pcRunN] at hp
      cases hn : pcNext L pc m with
      | none => simp [hn] at hp
      | some pc1 =>
        simp only [hn] at hp
        have he : execN md s (.step m) = exec md s (.step m) := rfl
        rw [he, exec_step md s m h0] at hh ⊢
        exact ih pc1 _ (invN_step L pc pc1 s m hi hn) hp hh

/-- over body events (registrations, work, signals nested or not) a recorded interrupt stays recorded and the
    interrupter pointer is untouched -/
theorem bodyN_run (md : Mode) (evs : List EvN) (s : St) (hb : ∀ e ∈ evs, BodyN e = true) (h1 : 1 ≤ s.stop)
    (hh : (runN md s evs).1.halted = none) : 1 ≤ (runN md s evs).1.stop ∧ (runN md s evs).1.intr = s.intr := by
  induction evs generalizing s with
  | nil => simp [runN, h1]
  | cons e r ih =>
    have hbr : ∀ e ∈ r, BodyN e = true := fun e he => hb e (List.mem_cons_of_mem _ he)
    have hbe : BodyN e = true := hb e (List.mem_cons_self)
    rw [runN_cons] at hh ⊢
    have h1' : (execN md s e).1.halted = none := runN_halted_of md _ r hh
    have h0 : s.halted = none := execN_halted_of md s e h1'
    cases e with
    | sig sp =>
      have eff := sig_effect md s sp h0 h1'
      have := ih (execN md s (.sig sp)).1 hbr eff.2.1 hh
      refine ⟨this.1, ?_⟩
      rw [this.2, eff.1]
    | step m =>
      have he : execN md s (.step m) = exec md s (.step m) := rfl
      rw [he, exec_step md s m h0] at hh ⊢
      obtain ⟨a1, a2, _, _, _⟩ := applyMicro_body s m hbe
      have := ih (applyMicro s m) hbr (by omega) hh
      exact ⟨this.1, by rw [this.2, a2]⟩

end MpVerif.C15

import MpVerif.C15.Lemmas
import MpVerif.C15.Reentrant
/-! Case-analysis proofs about one nested delivery (kept out of `Props.lean` so that they are not re-run when the
    generated `Gen/Signal.lean` changes). -/
namespace MpVerif.C15

set_option maxHeartbeats 1000000 in
theorem reentrant_steps_are_deliver (md : Mode) (s : St) (g : Sig) (hd : s.disp g = true) (hh : s.halted = none) :
    (hRun md g handlerSteps ⟨entryState md s g, 0, []⟩).s = (deliver md s g).1 ∧
    (hRun md g handlerSteps ⟨entryState md s g, 0, []⟩).obs = (deliver md s g).2 := by
  obtain ⟨sem, w⟩ := md
  cases s with
  | mk stop handler data msgPtr msgSize dispInt dispTerm intr alive halted =>
    simp at hh; subst hh
    by_cases h0 : handler = 0 <;> cases sem <;> cases g <;>
      (match stop with
       | 0 => simp_all [handlerSteps, hRun, hStep, entryState, deliver, writeObs, St.disp, St.setDisp]
       | 1 => simp_all [handlerSteps, hRun, hStep, entryState, deliver, writeObs, St.disp, St.setDisp]
       | n + 2 => simp_all [handlerSteps, hRun, hStep, entryState, deliver, writeObs, St.disp, St.setDisp])

set_option maxHeartbeats 1000000 in
theorem reentrant_safe (md : Mode) (s : St) (g g' : Sig) (k : Nat)
    (hI : s.dispInt = true) (hT : s.dispTerm = true) (hh : s.halted = none) (h2 : s.stop ≤ 2)
    (hr : (deliverNested md s g g' k).1.halted = none) :
    1 ≤ (deliverNested md s g g' k).1.stop ∧ (deliverNested md s g g' k).1.stop ≤ 3 ∧
    (deliverNested md s g g' k).1.intr = s.intr ∧ (deliverNested md s g g' k).1.handler = s.handler ∧
    (deliverNested md s g g' k).1.data = s.data ∧
    (∀ h d, Obs.cb h d ∈ (deliverNested md s g g' k).2 → h = s.handler ∧ d = s.data) := by
  obtain ⟨sem, w⟩ := md
  cases s with
  | mk stop handler data msgPtr msgSize dispInt dispTerm intr alive halted =>
    simp at hh hI hT; subst hh hI hT
    by_cases h0 : handler = 0 <;> cases sem <;> cases g <;> cases g' <;>
      (match stop, h2 with
       | 0, _ | 1, _ | 2, _ =>
         match k with
         | 0 | 1 | 2 | 3 | 4 | 5 | 6 | n + 7 =>
           simp_all [deliverNested, handlerSteps, hRun, hStep, entryState, deliver, St.disp, St.setDisp]
       | n + 3, h => (simp at h))

set_option maxHeartbeats 1000000 in
theorem reentrant_sequential_outside_window (md : Mode) (s : St) (g g' : Sig) (k : Nat) (hne : g' ≠ g)
    (hI : s.dispInt = true) (hT : s.dispTerm = true) (hh : s.halted = none) (h2 : s.stop ≤ 2)
    (hk : k ≤ 1 ∨ 4 ≤ k) :
    let seq := if k ≤ 1 then run md s [.sig g', .sig g] else run md s [.sig g, .sig g']
    (deliverNested md s g g' k).1.halted = seq.1.halted ∧
    ((deliverNested md s g g' k).1.halted = none → (deliverNested md s g g' k).1 = seq.1) := by
  obtain ⟨sem, w⟩ := md
  cases s with
  | mk stop handler data msgPtr msgSize dispInt dispTerm intr alive halted =>
    simp at hh hI hT; subst hh hI hT
    by_cases h0 : handler = 0 <;> cases sem <;> cases g <;> cases g' <;>
      (first
        | (exfalso; exact hne rfl)
        | (match stop, h2 with
           | 0, _ | 1, _ | 2, _ =>
             match k, hk with
             | 0, _ | 1, _ | 4, _ | 5, _ | 6, _ | n + 7, _ =>
               simp_all [deliverNested, handlerSteps, hRun, hStep, entryState, deliver, run, exec, St.disp, St.setDisp]
             | 2, h | 3, h => (simp at h)
           | n + 3, h => (simp at h)))

set_option maxHeartbeats 4000000 in
/-- **Effect of a delivery with one nested delivery, from ANY state**: if the process still runs afterwards, only
    `stop_` has changed, it is at least 1, and every callback invoked (by either handler) is the registered one with
    the registered data.  (No hypothesis on the dispositions: a signal that meets the default action ends the process.) -/
theorem nested_effect (md : Mode) (s : St) (g g' : Sig) (k : Nat) (hh : s.halted = none)
    (hr : (deliverNested md s g g' k).1.halted = none) :
    (deliverNested md s g g' k).1 = { s with stop := (deliverNested md s g g' k).1.stop } ∧
    1 ≤ (deliverNested md s g g' k).1.stop ∧
    (∀ h d, Obs.cb h d ∈ (deliverNested md s g g' k).2 → h = s.handler ∧ d = s.data ∧ h ≠ 0) := by
  obtain ⟨sem, w⟩ := md
  cases s with
  | mk stop handler data msgPtr msgSize dispInt dispTerm intr alive halted =>
    simp at hh; subst hh
    by_cases h0 : handler = 0 <;> cases sem <;> cases g <;> cases g' <;> cases dispInt <;> cases dispTerm <;>
      (match stop with
       | 0 | 1 | n + 2 =>
         match k with
         | 0 | 1 | 2 | 3 | 4 | 5 | 6 | m + 7 =>
           simp_all [deliverNested, handlerSteps, hRun, hStep, entryState, deliver, St.disp, St.setDisp])

/-- a schedule without nested signals: `traceN` (what the driver prints) is `trace` -/
theorem traceN_plain (md : Mode) (s : St) (evs : List EvN) (hp : ∀ e ∈ evs, ∀ sp, e = .sig sp → sp.nested = none) :
    (traceN md s evs).map (fun t => (t.1.plain, t.2)) = trace md s (evs.map EvN.plain) := by
  induction evs generalizing s with
  | nil => rfl
  | cons e r ih =>
    have hr : ∀ e ∈ r, ∀ sp, e = .sig sp → sp.nested = none := fun e he => hp e (List.mem_cons_of_mem _ he)
    have he := hp e List.mem_cons_self
    cases e with
    | step m =>
      simp only [traceN, trace, List.map_cons, execN]
      rw [ih _ hr]
      rfl
    | sig sp =>
      obtain ⟨g, n⟩ := sp
      have : n = none := he ⟨g, n⟩ rfl
      subst this
      simp only [traceN, trace, List.map_cons, execN]
      rw [ih _ hr]
      rfl

end MpVerif.C15

import MpVerif.C15.LemmasNested
/-! The interrupt COUNT along histories whose nested deliveries happen at the places `NestAt` (inside `write`, the
    callback, the re-arm: gaps 1 and 5 of the handler, outside the two count windows). -/
namespace MpVerif.C15

set_option maxHeartbeats 4000000 in
/-- a surviving delivery with a second signal raised at one of the places `NestAt` has counted both -/
theorem nestedAt_count (md : Mode) (s : St) (g g' : Sig) (p : NestAt) (hh : s.halted = none)
    (hr : (deliverNestedAt md s g g' p).1.halted = none) :
    (deliverNestedAt md s g g' p).1.stop = s.stop + (if (p.gap s).isSome then 2 else 1) ∧
    (deliverNestedAt md s g g' p).1.stop ≤ 2 := by
  obtain ⟨sem, w⟩ := md
  cases s with
  | mk stop handler data msgPtr msgSize dispInt dispTerm intr alive halted =>
    simp at hh; subst hh
    by_cases h0 : handler = 0 <;> cases sem <;> cases g <;> cases g' <;> cases p <;> cases dispInt <;> cases dispTerm <;>
      (match stop with
       | 0 | 1 | n + 2 =>
         simp_all [deliverNestedAt, NestAt.gap, deliverNested, handlerSteps, hRun, hStep, entryState, deliver, St.disp, St.setDisp])

theorem sig_count (md : Mode) (s : St) (sp : SigSpec) (hh : s.halted = none)
    (hr : (execN md s (.sig sp)).1.halted = none) :
    (execN md s (.sig sp)).1.stop = s.stop + sp.weight s ∧ (execN md s (.sig sp)).1.stop ≤ 2 := by
  obtain ⟨g, n⟩ := sp
  cases n with
  | none =>
    simp only [execN] at hr ⊢
    rw [exec_sig md s g hh] at hr ⊢
    cases hd : s.disp g with
    | false => rw [deliver_killed md s g hd] at hr; simp at hr
    | true =>
      by_cases hs : s.stop ≤ 1
      · rw [deliver_ok md s g hd hs]; simp [SigSpec.weight]; omega
      · have := (deliver_exit md s g hd (by omega)).1
        rw [this] at hr; simp at hr
  | some q =>
    obtain ⟨g', p⟩ := q
    have he : execN md s (.sig ⟨g, some (g', p)⟩) = deliverNestedAt md s g g' p := by simp [execN, hh]
    rw [he] at hr ⊢
    simpa [SigSpec.weight] using nestedAt_count md s g g' p hh hr

/-- events that do not store to `stop_` -/
def StopNeutralN : EvN → Bool
  | .step m => StopNeutral (.step m)
  | .sig _ => true

/-- along events that do not store to `stop_`, a running process has counted every interrupt, nested ones included,
    and the count of a running process that has received one since is at most 2 -/
theorem stopN_run (md : Mode) (evs : List EvN) (s : St) (hn : ∀ e ∈ evs, StopNeutralN e = true)
    (hh : (runN md s evs).1.halted = none) :
    (runN md s evs).1.stop = s.stop + weightN md s evs ∧ (0 < weightN md s evs → (runN md s evs).1.stop ≤ 2) := by
  induction evs generalizing s with
  | nil => simp [runN, weightN]
  | cons e r ih =>
    have hnr : ∀ e ∈ r, StopNeutralN e = true := fun e he => hn e (List.mem_cons_of_mem _ he)
    have hne : StopNeutralN e = true := hn e (List.mem_cons_self)
    rw [runN_cons] at hh ⊢
    have h1 : (execN md s e).1.halted = none := runN_halted_of md _ r hh
    have h0 : s.halted = none := execN_halted_of md s e h1
    have ihr := ih (execN md s e).1 hnr hh
    cases e with
    | step m =>
      have he : execN md s (.step m) = exec md s (.step m) := rfl
      have hs : (execN md s (.step m)).1.stop = s.stop := by
        rw [he, exec_step md s m h0]
        cases m <;> simp_all [StopNeutralN, StopNeutral, applyMicro]
      simp only [weightN] at ihr ⊢
      constructor
      · rw [ihr.1, hs]; omega
      · intro hw; exact ihr.2 (by omega)
    | sig sp =>
      have c := sig_count md s sp h0 h1
      simp only [weightN] at ihr ⊢
      constructor
      · rw [ihr.1, c.1]; omega
      · intro _
        by_cases hw : 0 < weightN md (execN md s (.sig sp)).1 r
        · exact ihr.2 hw
        · rw [ihr.1]; omega

theorem pcRunN_plain (L : Layout) (pc : PC) (evs : List EvN) : pcRunN L pc evs = pcRun L pc (evs.map EvN.plain) := by
  induction evs generalizing pc with
  | nil => rfl
  | cons e r ih =>
    cases e with
    | sig sp => simp [pcRunN, pcRun, EvN.plain, ih]
    | step m =>
      simp only [pcRunN, List.map_cons, EvN.plain, pcRun]
      cases pcNext L pc m with
      | none => rfl
      | some pc' => simp [ih]

end MpVerif.C15

import MpVerif.C11.LemmasVal
/-! # C11 — `strtod`'s extent on a well-formed decimal literal is exactly the literal -/
namespace MpVerif.C11

structure RealLit where
  sign : Option Bool
  ip : Bytes                                 -- integer part digits
  dot : Bool
  fp : Bytes                                 -- fraction digits (only if `dot`)
  exp : Option (UInt8 × Option Bool × Bytes) -- `e`/`E`, sign, digits

def expBytes : Option (UInt8 × Option Bool × Bytes) → Bytes
  | none => []
  | some (e, sg, ed) => e :: (signBytes sg ++ ed)

def RealLit.mant (l : RealLit) : Bytes := l.ip ++ ((if l.dot then 46 :: l.fp else []) ++ expBytes l.exp)

def RealLit.render (l : RealLit) : Bytes := signBytes l.sign ++ l.mant

def ExpWF : Option (UInt8 × Option Bool × Bytes) → Prop
  | none => True
  | some (e, _, ed) => (e = 101 ∨ e = 69) ∧ ed ≠ [] ∧ AllDigits ed

def RealLit.WF (l : RealLit) : Prop :=
  AllDigits l.ip ∧ AllDigits l.fp ∧ (l.dot = false → l.fp = []) ∧ (l.ip ≠ [] ∨ l.fp ≠ []) ∧ ExpWF l.exp

theorem lower_digit {c : UInt8} (h : isDigit c = true) : lower c = c := by
  simp [isDigit] at h
  unfold lower
  have : ¬ (65 ≤ c.toNat) := by omega
  simp [this]

theorem lower_space {c : UInt8} (h : isSpace c = true) : lower c = c := by
  simp [isSpace] at h
  unfold lower
  have : ¬ (65 ≤ c.toNat) := by omega
  simp [this]

theorem skipExp_endsToken {tail : Bytes} (ht : EndsToken tail) : skipExp 101 tail = tail := by
  cases tail with
  | nil => rfl
  | cons c r =>
    simp [EndsToken, StopsAt] at ht
    have hl := lower_space ht
    have : (c == 101) = false := by
      cases hc : c == 101 with
      | false => rfl
      | true => have := eq_of_beq hc; subst this; simp [isSpace] at ht
    simp [skipExp, hl, this]

theorem skipExp_exp {x : Option (UInt8 × Option Bool × Bytes)} (hx : ExpWF x) {tail : Bytes} (ht : EndsToken tail) :
    skipExp 101 (expBytes x ++ tail) = tail := by
  match x with
  | none => simpa [expBytes] using skipExp_endsToken ht
  | some (e, sg, ed) =>
    obtain ⟨he, hne, hd⟩ := hx
    obtain ⟨h1, _, _⟩ := stripSign_sign_digits sg (tail := tail) hne hd
    have hl : (lower e == 101) = true := by cases he with
      | inl h => subst h; decide
      | inr h => subst h; decide
    have hemp : ed.isEmpty = false := by cases h : ed with
      | nil => exact absurd h hne
      | cons _ _ => rfl
    simp only [expBytes, List.cons_append, skipExp, hl, if_true]
    rw [h1, takeWhile_append_stop hd ht.stopsDigit, dropWhile_append_stop hd ht.stopsDigit]
    simp [hemp]

/-- the first byte after the integer part never turns `0` into a hexadecimal prefix -/
def HeadNotX (r : Bytes) : Prop :=
  match r with
  | [] => True
  | x :: _ => ((lower x).toNat == 120) = false

def SecondOk (m : Bytes) : Prop :=
  match m with
  | z :: x :: _ => (z.toNat == 48 && (lower x).toNat == 120) = false
  | _ => True

theorem hexExtent_none {m : Bytes} (h : SecondOk m) : hexExtent m = none := by
  unfold hexExtent
  split
  · rename_i z x r
    simp only [SecondOk] at h
    simp [h]
  · rfl

theorem headNotX_rest (l : RealLit) (hl : l.WF) {tail : Bytes} (ht : EndsToken tail) :
    HeadNotX (((if l.dot then 46 :: l.fp else []) ++ expBytes l.exp) ++ tail) := by
  obtain ⟨_, _, _, _, hx⟩ := hl
  cases hdot : l.dot with
  | true => simp [HeadNotX]; decide
  | false =>
    simp only [Bool.false_eq_true, if_false, List.nil_append]
    match hxe : l.exp with
    | some (e, sg, ed) =>
      rw [hxe] at hx
      obtain ⟨he, _, _⟩ := hx
      simp only [expBytes, List.cons_append, HeadNotX]
      cases he with
      | inl h => subst h; decide
      | inr h => subst h; decide
    | none =>
      simp only [expBytes, List.nil_append]
      cases tail with
      | nil => trivial
      | cons c r =>
        simp [EndsToken, StopsAt] at ht
        simp only [HeadNotX, lower_space ht]
        simp [isSpace] at ht
        simp; omega

theorem secondOk_mant {ip r : Bytes} (hip : AllDigits ip) (hr : HeadNotX r) (h0 : ip = [] → ∃ t, r = 46 :: t) :
    SecondOk (ip ++ r) := by
  match ip with
  | [] =>
    obtain ⟨t, ht⟩ := h0 rfl
    subst ht
    cases t with
    | nil => trivial
    | cons x t' => simp [SecondOk]
  | [d] =>
    cases r with
    | nil => trivial
    | cons x t => simp only [HeadNotX] at hr; simp [SecondOk, hr]
  | d :: d2 :: t =>
    have h2 := hip d2 (by simp)
    have hl := lower_digit h2
    simp [isDigit] at h2
    simp only [List.cons_append, SecondOk, hl]
    simp; omega

theorem ciStrip_head_none {p c : UInt8} {ps r : Bytes} (h : (lower c == p) = false) : ciStrip (p :: ps) (c :: r) = none := by
  simp [ciStrip, h]

theorem specialExtent_none {c : UInt8} {r : Bytes} (h1 : (lower c == 105) = false) (h2 : (lower c == 110) = false) :
    specialExtent (c :: r) = none := by
  unfold specialExtent
  rw [ciStrip_head_none h1, ciStrip_head_none h2]

theorem digit_or_dot_not_letter {c : UInt8} (h : isDigit c = true ∨ c = 46) :
    (lower c == 105) = false ∧ (lower c == 110) = false := by
  cases h with
  | inl h =>
    rw [lower_digit h]
    constructor
    · cases hc : c == 105 with
      | false => rfl
      | true => have := eq_of_beq hc; subst this; simp [isDigit] at h
    · cases hc : c == 110 with
      | false => rfl
      | true => have := eq_of_beq hc; subst this; simp [isDigit] at h
  | inr h => subst h; decide

theorem mantExtent_lit (l : RealLit) (hl : l.WF) {tail : Bytes} (ht : EndsToken tail) :
    mantExtent isDigit 101 (l.mant ++ tail) = some tail := by
  obtain ⟨hip, hfp, hdf, hne, hx⟩ := hl
  have hXstop : StopsAt isDigit (expBytes l.exp ++ tail) := by
    match hxe : l.exp with
    | some (e, sg, ed) =>
      rw [hxe] at hx
      obtain ⟨he, _, _⟩ := hx
      simp only [expBytes, List.cons_append, StopsAt]
      cases he with
      | inl h => subst h; decide
      | inr h => subst h; decide
    | none => simpa [expBytes] using ht.stopsDigit
  unfold RealLit.mant mantExtent
  cases hdot : l.dot with
  | true =>
    simp only [if_true]
    have hstop : StopsAt isDigit ((46 :: l.fp ++ expBytes l.exp) ++ tail) := by simp [StopsAt]; decide
    rw [List.append_assoc, takeWhile_append_stop hip hstop, dropWhile_append_stop hip hstop]
    simp only [List.cons_append, List.append_assoc]
    have h46 : ((46 : UInt8).toNat == 46) = true := by decide
    simp only [h46, if_true]
    rw [takeWhile_append_stop hfp hXstop, dropWhile_append_stop hfp hXstop]
    have : (l.ip.isEmpty && l.fp.isEmpty) = false := by
      cases hne with
      | inl h => cases h' : l.ip with
        | nil => exact absurd h' h
        | cons _ _ => rfl
      | inr h => cases h' : l.fp with
        | nil => exact absurd h' h
        | cons _ _ => simp
    simp only [this, Bool.false_eq_true, if_false]
    rw [skipExp_exp hx ht]
  | false =>
    have hfp0 := hdf hdot
    have hipne : l.ip ≠ [] := by
      cases hne with
      | inl h => exact h
      | inr h => exact absurd hfp0 h
    have hipe : l.ip.isEmpty = false := by cases h' : l.ip with
      | nil => exact absurd h' hipne
      | cons _ _ => rfl
    simp only [Bool.false_eq_true, if_false, List.nil_append]
    rw [List.append_assoc, takeWhile_append_stop hip hXstop, dropWhile_append_stop hip hXstop]
    have hse := skipExp_exp hx ht
    cases hR : expBytes l.exp ++ tail with
    | nil =>
      simp only [hipe, Bool.false_eq_true, if_false]
      have : tail = [] := by
        cases tail with
        | nil => rfl
        | cons c r => simp at hR
      rw [this]
    | cons c r =>
      have hc46 : (c.toNat == 46) = false := by
        match hxe : l.exp with
        | some (e, sg, ed) =>
          rw [hxe] at hx hR
          obtain ⟨he, _, _⟩ := hx
          simp only [expBytes, List.cons_append, List.cons.injEq] at hR
          rw [← hR.1]
          cases he with
          | inl h => subst h; decide
          | inr h => subst h; decide
        | none =>
          rw [hxe] at hR
          simp only [expBytes, List.nil_append] at hR
          rw [hR] at ht
          simp [EndsToken, StopsAt] at ht
          simp [isSpace] at ht
          simp; omega
      simp only [hc46, Bool.false_eq_true, if_false, hipe]
      rw [← hR, hse]

theorem strtodRest_lit (l : RealLit) (hl : l.WF) {tail : Bytes} (ht : EndsToken tail) :
    strtodRest (l.render ++ tail) = tail := by
  have hl' := hl
  obtain ⟨hip, hfp, hdf, hne, hx⟩ := hl
  -- the head of the mantissa is a digit or the dot
  have hhead : ∃ c r, l.mant ++ tail = c :: r ∧ (isDigit c = true ∨ c = 46) := by
    unfold RealLit.mant
    cases hipc : l.ip with
    | cons d t => exact ⟨d, t ++ ((if l.dot then 46 :: l.fp else []) ++ expBytes l.exp) ++ tail, by simp, Or.inl (hip d (by simp [hipc]))⟩
    | nil =>
      have hfpne : l.fp ≠ [] := by
        cases hne with
        | inl h => exact absurd hipc h
        | inr h => exact h
      have hdot : l.dot = true := by
        cases hd : l.dot with
        | true => rfl
        | false => exact absurd (hdf hd) hfpne
      exact ⟨46, l.fp ++ expBytes l.exp ++ tail, by simp [hdot], Or.inr rfl⟩
  obtain ⟨c, r, hcr, hc⟩ := hhead
  have hcs : isSpace c = false := by
    cases hc with
    | inl h => exact isDigit_not_space h
    | inr h => subst h; decide
  have hcsign : (c.toNat == 45 || c.toNat == 43) = false := by
    cases hc with
    | inl h => exact isDigit_not_sign h
    | inr h => subst h; decide
  have hstrip : stripSign (skipSpaces (l.render ++ tail)) = l.mant ++ tail := by
    unfold RealLit.render
    rw [List.append_assoc, hcr]
    match l.sign with
    | none => simp [signBytes, skipSpaces, hcs, stripSign, hcsign]
    | some true =>
      have : skipSpaces (signBytes (some true) ++ c :: r) = 45 :: c :: r := by
        apply skipSpaces_stop; simp [signBytes, StopsAt]; decide
      rw [this]; simp [stripSign]
    | some false =>
      have : skipSpaces (signBytes (some false) ++ c :: r) = 43 :: c :: r := by
        apply skipSpaces_stop; simp [signBytes, StopsAt]; decide
      rw [this]; simp [stripSign]
  unfold strtodRest
  simp only [hstrip]
  have hsp : specialExtent (l.mant ++ tail) = none := by
    rw [hcr]
    obtain ⟨a, b⟩ := digit_or_dot_not_letter hc
    exact specialExtent_none a b
  have hhx : hexExtent (l.mant ++ tail) = none := by
    apply hexExtent_none
    unfold RealLit.mant
    rw [List.append_assoc]
    apply secondOk_mant hip (headNotX_rest l hl' ht)
    intro hip0
    have hfpne : l.fp ≠ [] := by
      cases hne with
      | inl h => exact absurd hip0 h
      | inr h => exact h
    have hdot : l.dot = true := by
      cases hd : l.dot with
      | true => rfl
      | false => exact absurd (hdf hd) hfpne
    exact ⟨_, by simp [hdot]; rfl⟩
  rw [hsp, hhx, mantExtent_lit l hl' ht]

theorem parseDbl_lit (l : RealLit) (hl : l.WF) {tail : Bytes} (ht : EndsToken tail) :
    parseDbl (l.render ++ tail) = (l.render, tail) := by
  unfold parseDbl
  simp only [strtodRest_lit l hl ht]
  simp

end MpVerif.C11

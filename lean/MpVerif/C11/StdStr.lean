import MpVerif.C11.ModelParse
/-!
# C11 — the `std::string` operations `wc_match` uses, on byte lists, with `size_t` arithmetic

Trusted reading of the C++ standard library (libstdc++, LP64): `size()`, `rfind(pat, pos)` (last index
`i ≤ min(pos, size - pat.size)` at which `pat` occurs, `npos` if none or if `pat` is longer), `substr(pos, n)`
(`pos ≤ size`; at most `n` characters), unsigned subtraction modulo 2^64.  Generated definitions in
`MpVerif.Gen.C11Tok` are written with these.
-/
namespace MpVerif.C11.StdStr

def npos : Nat := 18446744073709551615

def usub (a b : Nat) : Nat := (a + 18446744073709551616 - b % 18446744073709551616) % 18446744073709551616

def matchAt (s pat : Bytes) (i : Nat) : Bool := pat.isPrefixOf (s.drop i)

def rfindFrom (s pat : Bytes) : Nat → Nat
  | 0 => if matchAt s pat 0 then 0 else npos
  | i + 1 => if matchAt s pat (i + 1) then i + 1 else rfindFrom s pat i

def rfind (s pat : Bytes) (pos : Nat) : Nat :=
  if pat.length > s.length then npos else rfindFrom s pat (min pos (s.length - pat.length))

def substr (s : Bytes) (pos n : Nat) : Bytes := (s.drop pos).take n

theorem rfindFrom_le_or_npos (s pat : Bytes) (i : Nat) : rfindFrom s pat i ≤ i ∨ rfindFrom s pat i = npos := by
  induction i with
  | zero => simp only [rfindFrom]; split <;> simp
  | succ k ih =>
    simp only [rfindFrom]
    split
    · left; exact Nat.le_refl _
    · cases ih with
      | inl h => left; omega
      | inr h => right; exact h

/-- `0 == key.rfind(head, 0)`  ⇔  `key` starts with `head` -/
theorem rfind_zero_iff (s pat : Bytes) : (rfind s pat 0 == 0) = pat.isPrefixOf s := by
  unfold rfind
  by_cases h : pat.length > s.length
  · have hf : pat.isPrefixOf s = false := by
      cases hp : pat.isPrefixOf s with
      | false => rfl
      | true => have := (List.isPrefixOf_iff_prefix.mp hp).length_le; omega
    rw [if_pos h, hf]; decide
  · rw [if_neg h, Nat.zero_min, rfindFrom, matchAt, List.drop_zero]
    by_cases hp : pat.isPrefixOf s = true
    · rw [if_pos hp, hp]; decide
    · have hp' : pat.isPrefixOf s = false := Bool.eq_false_iff.mpr hp
      rw [if_neg hp, hp']; decide

theorem isPrefixOf_drop_iff_suffix (s pat : Bytes) (h : pat.length ≤ s.length) :
    pat.isPrefixOf (s.drop (s.length - pat.length)) = pat.isSuffixOf s := by
  generalize hm : s.length - pat.length = m
  have hl : (s.drop m).length = pat.length := by simp; omega
  by_cases hp : pat.isPrefixOf (s.drop m) = true
  · have he : pat = s.drop m := (List.isPrefixOf_iff_prefix.mp hp).eq_of_length hl.symm
    have hsuf : pat.isSuffixOf s = true := by
      rw [List.isSuffixOf_iff_suffix]
      exact ⟨s.take m, by rw [he]; exact List.take_append_drop m s⟩
    rw [hp, hsuf]
  · have hp' : pat.isPrefixOf (s.drop m) = false := Bool.eq_false_iff.mpr hp
    by_cases hs : pat.isSuffixOf s = true
    · exfalso
      obtain ⟨pre, hpre⟩ := List.isSuffixOf_iff_suffix.mp hs
      have hm' : m = pre.length := by rw [← hpre] at hm; simp at hm; omega
      have : s.drop m = pat := by rw [← hpre, hm']; simp
      rw [this] at hp
      exact hp (by simp)
    · have hs' : pat.isSuffixOf s = false := Bool.eq_false_iff.mpr hs
      rw [hp', hs']

/-- for `tail` not longer than `key` (and `key` shorter than `npos`): `key.size()-tail.size() == key.rfind(tail)`
⇔ `key` ends with `tail` -/
theorem rfind_end_iff (s pat : Bytes) (h : pat.length ≤ s.length) (hs : s.length < npos) :
    (usub s.length pat.length == rfind s pat npos) = pat.isSuffixOf s := by
  have hu : usub s.length pat.length = s.length - pat.length := by
    unfold usub; unfold npos at hs; omega
  have hnot : ¬ pat.length > s.length := by omega
  have hmin : min npos (s.length - pat.length) = s.length - pat.length := by unfold npos at *; omega
  rw [hu]
  unfold rfind
  rw [if_neg hnot, hmin, ← isPrefixOf_drop_iff_suffix s pat h]
  generalize hm : s.length - pat.length = m
  have hmm : m < npos := by omega
  have key : ∀ b : Bool, matchAt s pat m = b → (m == rfindFrom s pat m) = b := by
    intro b hb
    cases m with
    | zero =>
      rw [rfindFrom, hb]
      cases b <;> simp [npos]
    | succ k =>
      rw [rfindFrom, hb]
      cases b with
      | true => simp
      | false =>
        simp only [Bool.false_eq_true, if_false]
        cases rfindFrom_le_or_npos s pat k with
        | inl h1 => simp; omega
        | inr h1 => rw [h1]; simp; omega
  exact key _ rfl

/-- `a + b` on `size_t` -/
def uadd (a b : Nat) : Nat := (a + b) % 18446744073709551616

/-- `s.find_first_of(c)` (from position 0): index of the first occurrence of the character, `npos` if none -/
def findFirstOf (s : Bytes) (c : UInt8) : Nat :=
  if s.any (fun x => x == c) then (s.takeWhile (fun x => x != c)).length else npos

theorem take_takeWhile_length (p : UInt8 → Bool) (s : Bytes) : s.take (s.takeWhile p).length = s.takeWhile p := by
  induction s with
  | nil => rfl
  | cons x r ih =>
    simp only [List.takeWhile_cons]
    split
    · simp [ih]
    · simp

theorem drop_takeWhile_length (p : UInt8 → Bool) (s : Bytes) : s.drop (s.takeWhile p).length = s.dropWhile p := by
  induction s with
  | nil => rfl
  | cons x r ih =>
    simp only [List.takeWhile_cons, List.dropWhile_cons]
    split
    · simp [ih]
    · simp

theorem takeWhile_length_lt_of_any (c : UInt8) (s : Bytes) (h : s.any (fun x => x == c) = true) :
    (s.takeWhile (fun x => x != c)).length < s.length := by
  induction s with
  | nil => simp at h
  | cons x r ih =>
    simp only [List.takeWhile_cons]
    by_cases hx : x = c
    · simp [hx]
    · have hx' : (x != c) = true := by simpa using hx
      simp only [hx', if_true, List.length_cons]
      have : r.any (fun y => y == c) = true := by
        simp only [List.any_cons, Bool.or_eq_true] at h
        cases h with
        | inl h => exact absurd (by simpa using h) hx
        | inr h => exact h
      have := ih this
      omega

end MpVerif.C11.StdStr

import MpVerif.C11.ModelParse
/-!
# C11 — instrumentation: which arms of the model a given input takes

Used only by the coverage mode of `checks/c11.py` (driver argument `trace`) to list the `match`/`if`
arms of the model functions that the correspondence stream exercises.  It re-evaluates the model's
own dispatch conditions (by calling the same model functions) and labels them; nothing here is used
by the theorems or by the normal correspondence output.  Arms taken inside option files are not
traced (they run inside `Cfg.onFile`).
-/
namespace MpVerif.C11

def lookupArm (t : Table) (key : Bytes) : String :=
  match t.find? (fun d => ciEq d.name key) with
  | some d => if d.isWildcard then "lookup:name-of-wildcard=unknown" else "lookup:name"
  | none =>
    match findLoop key t with
    | none => "lookup:none"
    | some (_, none) => "lookup:synonym"
    | some (d, some body) =>
      if (wcSplit d.name).1.length + (wcSplit d.name).2.length + body.length == key.length
      then "lookup:wildcard-primary-shape" else "lookup:wildcard-other-shape-or-overlap"

def strtodArm (s : Bytes) : String :=
  let u := stripSign (skipSpaces s)
  match specialExtent u with
  | some r => if u.length - r.length == 3 then "strtod:inf-or-nan" else "strtod:infinity-or-nan(...)"
  | none =>
    match hexExtent u with
    | some _ => "strtod:hex"
    | none =>
      match mantExtent isDigit 101 u with
      | some r => if (skipExp 101 r).length == r.length && r.length != (u.dropWhile isDigit).length then "strtod:dec-fraction" else "strtod:dec"
      | none => if u.length != s.length then "strtod:none-after-sign-or-blank" else "strtod:none"

def intArm (s : Bytes) : String :=
  let t := skipSpaces s
  let ds := (stripSign t).takeWhile isDigit
  if ds.isEmpty then "int:no-digits"
  else
    let n : Int := (digitsVal ds : Nat)
    let v := if startsNeg t then -n else n
    if clampLong v != v then "int:clamped-to-long"
    else if wrap32 v != v then "int:wrapped-to-int"
    else if startsNeg t then "int:negative" else "int:in-range"

def strArm (cmdLine : Bool) (s : Bytes) : String :=
  if cmdLine then "str:command-line-rest"
  else
    match s with
    | c :: r =>
      if isQuote c then
        (if (r.dropWhile (fun x => x != c)).isEmpty then "str:quoted-unterminated" else "str:quoted")
      else "str:bare"
    | [] => "str:empty"

def stepArms (cfg : Cfg) (s : Bytes) (st : St) : List String :=
  let s1 := skipSpaces s
  if s1.isEmpty then ["step:done"]
  else
    let name := nameOf s1
    let (eq, s3) := afterName s1
    if name.isEmpty then ["step:empty-name=logic_error"]
    else
      let la := lookupArm cfg.table name
      match findOption cfg.table name st with
      | none => [la, if cfg.throwing then "step:unknown-throws" else "step:unknown-continues"]
      | some (d, st1) =>
        if isQuery s3 then [la, "step:query", if cfg.noEcho then "echo:off" else "echo:on"]
        else if eq && d.kind == .flag then [la, if cfg.throwing then "step:flag-argument-throws" else "step:flag-argument-continues"]
        else
          let sepArm := if eq then "sep:equals" else "sep:blank"
          let store := if d.logged then (if d.isList then "store:list" else "store:wildcard-entry") else "store:variable"
          let alias := if d.echoAs.isSome then ["alias:out-of-line-synonym"] else []
          [la, sepArm, store] ++ alias ++
          (match d.kind with
          | .flag => ["value:flag"]
          | .int => ["value:int", intArm s3,
              if intChkOk d.chk (parseInt s3).1 then "setter:accepts" else "setter:throws-InvalidOptionValue"]
          | .dbl => ["value:dbl", strtodArm s3]
          | .str => ["value:str", strArm cfg.cmdLine s3]
          | .optfile => ["value:optfile", strArm cfg.cmdLine s3,
              match parseValue cfg d s3 st1 with
              | .cont _ _ => "optfile:read-ok"
              | .stop .threwError _ => "optfile:missing-or-error-inside"
              | .stop _ _ => "optfile:exception-inside"
              | .done => "optfile:?"])

set_option linter.unusedVariables false in
def parseArms (cfg : Cfg) (s : Bytes) (st : St) : List String :=
  match h : step cfg s st with
  | .done => stepArms cfg s st
  | .cont s' st' => stepArms cfg s st ++ parseArms cfg s' st'
  | .stop _ _ => stepArms cfg s st
termination_by s.length
decreasing_by exact step_progress h

/-- arms of `ParseOptions` itself and of every source string (state threading as in `parseMany`) -/
def manyArms (cfg : Cfg) : List Bytes → St → List String × (Outcome × St)
  | [], st => ([], (.ok, st))
  | s :: ss, st =>
    let a := parseArms cfg s st
    match parseStr cfg s st with
    | (.ok, st') => let r := manyArms cfg ss st'; (a ++ r.1, r.2)
    | r => (a ++ ["source:aborted-by-exception"], r)

def callArms (c : Call) (st : St) : List String :=
  let a0 := [ if (getenv c.env mpOptions).isSome then "env:mp_options" else "env:no-mp_options",
              if c.exePath.isEmpty then "exe:empty-path"
              else if (getenv c.env (stripExt (fileName c.exePath) ++ suffixOptions)).isSome then "exe:<exe>_options-used"
              else (if (getenv c.env (c.solverName ++ suffixOptions)).isSome then "exe:none;<solver>_options-used" else "exe:none;no-<solver>_options"),
              if stripExt (fileName c.exePath) != fileName c.exePath then "exe:extension-stripped" else "exe:no-extension-stripped",
              match c.argv with | none => "argv:null" | some [] => "argv:empty" | some _ => "argv:some",
              if c.cmdLineFlag then "flags:FROM_COMMAND_LINE-given" else "flags:plain" ]
  let r := manyArms c.cfgEnv (envSources c) { st with errs := [] }
  match r.2 with
  | (.ok, st1) => a0 ++ r.1 ++ (manyArms c.cfgArg (c.argv.getD []) st1).1
  | _ => a0 ++ r.1

end MpVerif.C11

/-!
# C11 — the statement structure of the anchored C++ functions that the hand model mirrors

Hand-maintained (committed) copy of the statement skeletons of `src/solver.cc` / `include/mp/solver-opt.h` as they were
when the model in `Model.lean` / `ModelParse.lean` was written against them (ampl/mp 084cb26; `skel_FindOption` reviewed for 084cb26: wildcard test added in the synonym branch, mirrored in `findLoop`).  The check regenerates
`MpVerif.Gen.C11Tok` from the current tree on every run; the theorems `C11_gen_skel_*` in `Props.lean` state that the
generated skeletons equal these.  When a function's statements change, the theorem fails: the model has to be re-read
against the new code (and this file updated with it).  Which model function mirrors which skeleton:

* `skel_ParseOptionString` — `step` (one iteration of the `for (;;)`), `parseStr`
* `skel_ParseOptions` — `parseOptions`, `envSources`, `fileName`, `stripExt`
* `skel_FindOption`, `skel_OptionNameLess` — `lookup`, `findLoop`, `insertOpt`, `ciEq`, `ciLt`
* `skel_wc_match`, `skel_wc_split`, `skel_SolverOption_ctor` — `wcMatch1`, `wcMatch`, `wcSplit`, `OptDecl.headTails`
* `skel_AddOption` — `addOption`
* `skel_UseOptionFile`, `skel_ProcessLines_AvoidComments` — `fileLevel`, `fileLines`
* `skel_OptionHelper_*_Parse`, `skel_TypedSolverOption_Parse`, `skel_StoredOption_bool_*` — `parseInt`, `parseDbl`, `parseStrVal`, `parseValue`
* `skel_echo_with_value` — `doEcho`
-/
namespace MpVerif.C11.Expected

def skel_ParseOptionString : List String := [
  "for(;;)",
  "  if !*(s=SkipSpaces(s))",
  "    return",
  "  endif",
  "  const char*name_start=s;",
  "  while *s&&!std::isspace(*s)&&*s!='='",
  "    ++s",
  "  endwhile",
  "  fmt::internal::MemoryBuffer<char,50>name;",
  "  std::size_t name_size=s-name_start;",
  "  name.resize(name_size+1)",
  "  for(std::size_t i=0;i<name_size;++i)",
  "    name[i]=name_start[i]",
  "  endfor",
  "  name[name_size]=0",
  "  bool equal_sign=false;",
  "  s=SkipSpaces(s)",
  "  if *s=='='",
  "    s=SkipSpaces(s+1)",
  "    equal_sign=true",
  "  endif",
  "  SolverOption*opt=FindOption(&name[0],true);",
  "  if !opt",
  "    HandleUnknownOption(&name[0])",
  "    continue",
  "  endif",
  "  if *s=='?'",
  "    char next=s[1];",
  "    if !next||std::isspace(next)",
  "      ++s",
  "      if (flags&NO_OPTION_ECHO)==0",
  "        Print(\"  {}\\n\",opt->echo_with_value())",
  "      endif",
  "      continue",
  "    endif",
  "  endif",
  "  if equal_sign",
  "    if opt->is_flag()",
  "      ReportError(\"Option \\\"{}\\\" doesn't accept an argument\",&name[0])",
  "      s=SkipNonSpaces(s)",
  "      continue",
  "    else",
  "      opt->Parse(s,flags&FROM_COMMAND_LINE)",
  "    endif",
  "  else",
  "    if opt->is_flag()",
  "      opt->Parse(s,flags&FROM_COMMAND_LINE)",
  "    else",
  "      opt->Parse(s,flags&FROM_COMMAND_LINE)",
  "    endif",
  "  endif",
  "  if (flags&NO_OPTION_ECHO)==0",
  "    Print(\"  {}\",opt->echo_with_value()+'\\n')",
  "  endif",
  "endfor"]

def skel_OptionHelper_int_Parse : List String := [
  "char*end=0;",
  "long value=std::strtol(s,&end,10);",
  "s=end",
  "return value"]

def skel_OptionHelper_double_Parse : List String := [
  "char*end=0;",
  "double value=std::strtod(s,&end);",
  "s=end",
  "return value"]

def skel_OptionHelper_string_Parse : List String := [
  "const char*start=s;",
  "if splitString",
  "  s=SkipToEnd(s)",
  "  return std::string(start,s-start)",
  "endif",
  "if quoted(s)",
  "  s=SkipToMatchingQuote(s)",
  "  std::string value(start+1,s-start-1);",
  "  if *s",
  "    ++s",
  "  endif",
  "  return value",
  "else",
  "  s=SkipNonSpaces(s)",
  "  return std::string(start,s-start)",
  "endif"]

def skel_ParseOptions : List String := [
  "has_errors_=false",
  "bool_options_&=~SHOW_VERSION",
  "option_flag_save_=flags",
  "if const char*s=std::getenv(\"mp_options\") ; s",
  "  ParseOptionString(s,flags)",
  "endif",
  "bool had_exe_name_option_var=false;",
  "const char*s=exe_path();",
  "if std::strlen(s)",
  "  path p(s);",
  "  auto exe_basename=p.filename().string();",
  "  auto pt=exe_basename.rfind('.');",
  "  if std::string::npos!=pt",
  "    auto ext=exe_basename.substr(pt);",
  "    if \".exe\"==ext||\".app\"==ext",
  "      exe_basename=exe_basename.substr(0,pt)",
  "    endif",
  "  endif",
  "  if const char*s=std::getenv((exe_basename+\"_options\").c_str()) ; s",
  "    ParseOptionString(s,flags)",
  "    had_exe_name_option_var=true",
  "  endif",
  "endif",
  "if !had_exe_name_option_var",
  "  if const char*s=std::getenv((name_+\"_options\").c_str()) ; s",
  "    ParseOptionString(s,flags)",
  "  endif",
  "endif",
  "flags|=FROM_COMMAND_LINE",
  "if argv",
  "  while const char*s=*argv++",
  "    ParseOptionString(s,flags)",
  "  endwhile",
  "endif",
  "if (bool_options_&SHOW_VERSION)!=0",
  "  ShowVersion()",
  "endif",
  "return!has_errors_"]

def skel_FindOption : List String := [
  "struct DummyOption:SolverOption{DummyOption(const char*name):SolverOption(name,\"\"){}void Write(fmt::Writer&){}void Parse(const char*&,bool){}Option_Type type(){return Option_Type::BOOL;}};",
  "DummyOption option(name);",
  "OptionSet::const_iterator i=options_.find(&option);",
  "if i!=options_.end()",
  "  if (*i)->is_wildcard()&&wildcardvalues",
  "    return 0",
  "  endif",
  "  return*i",
  "endif",
  "std::string name_str{name};",
  "for(OptionSet::const_iterator i=options_.begin();i!=options_.end();++i)",
  "  if std::find_if((*i)->inline_synonyms().begin(),(*i)->inline_synonyms().end(),[&name_str](const std::string&syn){return 0==strcasecmp(name_str.c_str(),syn.c_str());})!=(*i)->inline_synonyms().end()",
  "    if (*i)->is_wildcard()&&wildcardvalues",
  "      return 0",
  "    endif",
  "    return*i",
  "  endif",
  "  if wildcardvalues&&(*i)->wc_match(name)",
  "    return*i",
  "  endif",
  "endfor",
  "return 0"]

def skel_wc_match : List String := [
  "for(const auto&wcht:wc_headtails_)",
  "  if 0==key.rfind(wcht.first,0)&&key.size()>wcht.second.size()&&key.size()-wcht.second.size()==key.rfind((wcht.second))",
  "    wc_key_last_=key",
  "    wc_body_last_=key.substr(wcht.first.size(),key.size()-wcht.second.size()-wcht.first.size())",
  "    return true",
  "  endif",
  "endfor",
  "return false"]

def skel_wc_split : List String := [
  "assert(name.size()>1)",
  "auto wc_pos=name.find_first_of('*');",
  "assert((std::string::npos!=wc_pos))",
  "assert(wc_pos==name.find_last_of('*'))",
  "return{name.substr(0,wc_pos),name.substr(wc_pos+1,std::string::npos)}"]

def skel_UseOptionFile : List String := [
  "static int nesting=0;",
  "struct Nesting{Nesting(){++nesting;}~Nesting(){--nesting;}}guard;",
  "if nesting>32",
  "  MP_RAISE(fmt::format(\"Option files nested too deeply (recursive inclusion?): '{}'\",value))",
  "endif",
  "option_file_save_=value",
  "std::ifstream ifs(value);",
  "if ifs.good()",
  "  ProcessLines_AvoidComments(ifs,[this](const char*s){ParseOptionString(s,option_flag_save_);})",
  "endif",
  "if !ifs.good()&&!ifs.eof()",
  "  MP_RAISE(fmt::format(\"Failed to read option file '{}': {}\",value,std::strerror(errno)))",
  "endif"]

def skel_ProcessLines_AvoidComments : List String := [
  "std::string line;",
  "while stream.good()&&!stream.eof()",
  "  std::getline(stream,line)",
  "  if line.size()",
  "    auto itfirstns=std::find_if(line.begin(),line.end(),[](char c){return!std::isspace(c);});",
  "    if line.end()!=itfirstns&&'#'!=*itfirstns",
  "      processor(line.c_str()+(itfirstns-line.begin()))",
  "    endif",
  "  endif",
  "endwhile"]

def skel_SolverOption_ctor : List String := [
  "auto synonyms=split_string(names_list);",
  "if synonyms.empty()",
  "  throw std::logic_error(\"Empty option name list\")",
  "endif",
  "name_=synonyms.front()",
  "for(size_t i=1;i<synonyms.size();++i)",
  "  inline_synonyms_.push_back(synonyms[i])",
  "endfor",
  "auto wc_pos=name_.find_first_of('*');",
  "if std::string::npos!=wc_pos",
  "  wc_headtails_.push_back(wc_split(name_))",
  "  for(const auto&syn:inline_synonyms_)",
  "    wc_headtails_.push_back(wc_split(syn))",
  "  endfor",
  "endif"]

def skel_AddOption : List String := [
  "if !options_.insert(opt.get()).second",
  "  throw std::logic_error(fmt::format(\"Option {} already defined\",opt.get()->name()))",
  "endif",
  "opt.release()"]

def skel_OptionNameLess : List String := [
  "int cmp=strcasecmp(lhs->name(),rhs->name());",
  "return cmp<0"]

def skel_TypedSolverOption_Parse : List String := [
  "const char*start=s;",
  "T value=internal::OptionHelper<T>::Parse(s,splitString);",
  "if false&&*s&&!std::isspace(*s)",
  "  do",
  "    ++s",
  "  while *s&&!std::isspace(*s)",
  "  throw InvalidOptionValue(name(),std::string(start,s-start))",
  "endif",
  "SetValue(value)"]

def skel_OptionHelper_LongLong_Parse : List String := [
  "return OptionHelper<int>::Parse(s,splitString)"]

def skel_StoredOption_bool_is_flag : List String := [
  "return true"]

def skel_StoredOption_bool_Parse : List String := [
  "value_=true"]

def skel_echo_with_value : List String := [
  "auto s=echo();",
  "if !is_flag()",
  "  fmt::MemoryWriter w;",
  "  w<<\" = \"",
  "  this->Write(w)",
  "  s+=w.c_str()",
  "endif",
  "return s"]

/-- the value kinds of `internal::OptionHelper<T>`: `Kind.int` (int and long long), `Kind.dbl`, `Kind.str` -/
def optionHelperTypes : List String := ["int", "long long", "double", "std::basic_string<char>"]

def scanShape : String := "while(cond(c0))++s;return s"
def quoteScanShape : String := "quote=s[0];++s;while(cond(c0,quote))++s;return s"

end MpVerif.C11.Expected

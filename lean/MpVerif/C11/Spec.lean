import MpVerif.C11.LemmasReal
/-! # C11 — specification side: well-formed items, their text, and what they mean -/
namespace MpVerif.C11

/-- the value part of an assignment, as written -/
inductive Lit
  | int (l : IntLit)
  | real (l : RealLit)
  | quoted (q : UInt8) (body : Bytes)   -- 'body' or "body"       (environment variables)
  | bare (body : Bytes)                 -- a blank-free token      (environment variables)
  | raw (body : Bytes)                  -- rest of the argv element (command line)
  | flagOn                              -- a flag takes no value

def Lit.render : Lit → Bytes
  | .int l => l.render
  | .real l => l.render
  | .quoted q b => q :: (b ++ [q])
  | .bare b => b
  | .raw b => b
  | .flagOn => []

def Lit.kind : Lit → Kind
  | .int _ => .int
  | .real _ => .dbl
  | .quoted _ _ => .str
  | .bare _ => .str
  | .raw _ => .str
  | .flagOn => .flag

/-- the value the assignment denotes (a real is denoted by its text: libc converts it) -/
def Lit.val : Lit → Val
  | .int l => .int l.value
  | .real l => .dbl l.render
  | .quoted _ b => .str b
  | .bare b => .str b
  | .raw b => .str b
  | .flagOn => .flag true

def HeadIs (p : UInt8 → Bool) (b : Bytes) : Prop :=
  match b with
  | [] => False
  | c :: _ => p c = true

/-- well-formedness of the written value; `cmdLine`: FROM_COMMAND_LINE, `eq`: written with `=` -/
def Lit.WF (cmdLine eq : Bool) : Lit → Prop
  | .int l => l.WF ∧ -2147483648 ≤ l.value ∧ l.value ≤ 2147483647
  | .real l => l.WF
  | .quoted q b => cmdLine = false ∧ isQuote q = true ∧ ∀ c ∈ b, c ≠ q
  | .bare b => cmdLine = false ∧ b ≠ [] ∧ (∀ c ∈ b, isSpace c = false) ∧
      (∀ c r, b = c :: r → isQuote c = false) ∧ b ≠ [63] ∧ (eq = false → ∀ c r, b = c :: r → c.toNat ≠ 61)
  | .raw b => cmdLine = true ∧ (∀ c ∈ b, c.toNat ≠ 10) ∧
      HeadIs (fun c => !isSpace c && c.toNat != 63 && (eq || c.toNat != 61)) b
  | .flagOn => True

inductive Item
  | assign (key : Bytes) (sep : Sep) (lit : Lit)       -- key [=] value     /  flag
  | query (key : Bytes) (sep : Sep)                    -- key [=] ?
  | unknown (key : Bytes) (pre : Bytes) (eq : Bool)    -- an unknown key, optionally followed by `=`
  | flagArg (key : Bytes) (pre post junk : Bytes)      -- flag = junk

def Item.render : Item → Bytes
  | .assign key sep lit => key ++ (sep.render ++ lit.render)
  | .query key sep => key ++ (sep.render ++ [63])
  | .unknown key pre eq => key ++ (pre ++ (if eq then [61] else []))
  | .flagArg key pre post junk => key ++ (pre ++ 61 :: (post ++ junk))

def Item.key : Item → Bytes
  | .assign key _ _ => key
  | .query key _ => key
  | .unknown key _ _ => key
  | .flagArg key _ _ _ => key

/-- the key token does not start with `?` (which would read as a query on a preceding flag) -/
def KeyOk' (key : Bytes) : Prop := KeyOk key ∧ ∀ c r, key = c :: r → c.toNat ≠ 63

def Item.WF (cfg : Cfg) : Item → Prop
  | .assign key sep lit =>
      KeyOk' key ∧ sep.WF ∧
      (∃ d ob, lookup cfg.table key = some (d, ob) ∧ d.kind = lit.kind ∧
        (∀ l, lit = .int l → intChkOk d.chk l.value = true)) ∧
      lit.WF cfg.cmdLine sep.eq ∧
      (lit = .flagOn → sep.pre = [] ∧ sep.eq = false) ∧
      (lit ≠ .flagOn → sep.eq = false → sep.pre ≠ [])
  | .query key sep =>
      KeyOk' key ∧ sep.WF ∧ (∃ r, lookup cfg.table key = some r) ∧ (sep.eq = false → sep.pre ≠ [])
  | .unknown key pre _ => KeyOk' key ∧ Blank pre ∧ lookup cfg.table key = none
  | .flagArg key pre post junk =>
      KeyOk' key ∧ Blank pre ∧ Blank post ∧
      (∃ d ob, lookup cfg.table key = some (d, ob) ∧ d.kind = .flag) ∧
      junk ≠ [] ∧ (∀ c ∈ junk, isSpace c = false) ∧ junk ≠ [63]

def addErr (e : Err) (st : St) : St := { st with errs := e :: st.errs }

/-- the meaning of one item: no lexing involved -/
def applyItem (cfg : Cfg) (it : Item) (st : St) : St :=
  match it with
  | .assign key _ lit =>
    match findOption cfg.table key st with
    | some (d, st1) => doEcho cfg.noEcho d (st1.modify d.id (setValue d lit.val))
    | none => st
  | .query key _ =>
    match findOption cfg.table key st with
    | some (d, st1) => doEcho cfg.noEcho d st1
    | none => st
  | .unknown key _ _ => addErr (.unknown key) st
  | .flagArg key _ _ _ =>
    match findOption cfg.table key st with
    | some (_, st1) => addErr (.flagArg key) st1
    | none => st

def applyAll (cfg : Cfg) (items : List (Item × Bytes)) (st : St) : St :=
  items.foldl (fun s it => applyItem cfg it.1 s) st

/-- the text: every item followed by its trailing blanks -/
def renderAll : List (Item × Bytes) → Bytes
  | [] => []
  | (it, trail) :: rest => it.render ++ (trail ++ renderAll rest)

/-- items that are reported as errors (unknown key, value given to a flag) -/
def isErrItem : Item → Bool
  | .unknown _ _ _ => true
  | .flagArg _ _ _ _ => true
  | _ => false

def isRawAssign : Item → Bool
  | .assign _ _ (.raw _) => true
  | _ => false

/-- items are separated by at least one blank; after a command-line string value the element
ends (or a newline follows). -/
def ItemsWF (cfg : Cfg) : List (Item × Bytes) → Prop
  | [] => True
  | (it, trail) :: rest =>
    it.WF cfg ∧ Blank trail ∧ (rest ≠ [] → trail ≠ []) ∧
    (isRawAssign it = true → StopsAt (fun c => c.toNat != 10) trail ∧ (trail = [] → rest = [])) ∧
    ItemsWF cfg rest

end MpVerif.C11

import MpVerif.C11.ModelParse
import MpVerif.Gen.C11Tok
/-! # C11 — helpers for the theorems that tie the model to the generated definitions -/
namespace MpVerif.C11
open MpVerif.CSem MpVerif.C11.CLib MpVerif.Gen.C11Tok

theorem byte_cases (P : UInt8 → Prop) (h : ∀ n : Nat, n < 256 → P (UInt8.ofNat n)) (c : UInt8) : P c := by
  have := h c.toNat c.toNat_lt
  simpa using this

theorem charVal_inj {a b : UInt8} : charVal a = charVal b ↔ a = b := by
  constructor
  · intro h
    apply UInt8.toNat_inj.mp
    have ha := a.toNat_lt
    have hb := b.toNat_lt
    unfold charVal at h
    split at h <;> split at h <;> omega
  · intro h; rw [h]

theorem charVal_zero {a : UInt8} : charVal a = 0 ↔ a = 0 := by
  have : charVal (0 : UInt8) = 0 := by decide
  rw [← this]; exact charVal_inj

end MpVerif.C11

import MpVerif.C11.LemmasStep
/-! # C11 — state lemmas: what an item does to the option values -/
namespace MpVerif.C11

/-- the observable option values: plain value and wildcard log of every slot -/
def St.values (st : St) : List (Val × List (Bytes × Val)) := st.slots.map (fun sl => (sl.val, sl.log))

theorem modify_length (st : St) (i : Nat) (f : Slot → Slot) : (st.modify i f).slots.length = st.slots.length := by
  simp [St.modify]

theorem slot_modify_same (st : St) {i : Nat} (f : Slot → Slot) (hi : i < st.slots.length) :
    (st.modify i f).slot i = f (st.slot i) := by
  simp [St.modify, St.slot, List.getD_eq_getElem?_getD, hi]

theorem slot_modify_other (st : St) {i j : Nat} (f : Slot → Slot) (hij : i ≠ j) :
    (st.modify i f).slot j = st.slot j := by
  simp [St.modify, St.slot, List.getD_eq_getElem?_getD, List.getElem?_set_ne hij]

theorem values_modify (st : St) (i : Nat) (f : Slot → Slot)
    (hf : ∀ sl, (f sl).val = sl.val ∧ (f sl).log = sl.log) : (st.modify i f).values = st.values := by
  unfold St.values St.modify
  simp only
  apply List.ext_getElem?
  intro j
  by_cases hij : i = j
  · subst hij
    by_cases hi : i < st.slots.length
    · simp [hi, St.slot, List.getD_eq_getElem?_getD, hf]
    · simp [List.getElem?_eq_none (Nat.le_of_not_lt hi)]; omega
  · simp [List.getElem?_set_ne hij]

theorem values_noteMatch (d : OptDecl) (key : Bytes) (ob : Option Bytes) (st : St) :
    (noteMatch d key ob st).values = st.values ∧ (noteMatch d key ob st).errs = st.errs ∧
    (noteMatch d key ob st).slots.length = st.slots.length := by
  cases ob with
  | none => simp [noteMatch]
  | some b => exact ⟨values_modify st d.id _ (fun sl => ⟨rfl, rfl⟩), rfl, modify_length _ _ _⟩

theorem values_doEcho (ne : Bool) (d : OptDecl) (st : St) :
    (doEcho ne d st).values = st.values ∧ (doEcho ne d st).errs = st.errs ∧ (doEcho ne d st).slots = st.slots := by
  unfold doEcho
  split <;> simp [St.values]

theorem slot_noteMatch_val (d : OptDecl) (key : Bytes) (ob : Option Bytes) (st : St) (j : Nat) :
    ((noteMatch d key ob st).slot j).val = (st.slot j).val := by
  cases ob with
  | none => simp [noteMatch]
  | some b =>
    simp only [noteMatch]
    by_cases h : d.id = j
    · subst h
      by_cases hi : d.id < st.slots.length
      · rw [slot_modify_same st _ hi]
      · simp [St.modify, St.slot, List.set_eq_of_length_le (Nat.le_of_not_lt hi)]
    · rw [slot_modify_other st _ h]

theorem slot_doEcho (ne : Bool) (d : OptDecl) (st : St) (j : Nat) : (doEcho ne d st).slot j = st.slot j := by
  unfold doEcho St.slot
  split <;> simp

/-- plain option: its value is held in `val` -/
def OptDecl.plain (d : OptDecl) : Bool := !d.logged

/-- the option (and written value) an item assigns, if it is an assignment to a known key -/
def itemTarget (cfg : Cfg) : Item → Option (OptDecl × Val)
  | .assign key _ lit => (lookup cfg.table key).map (fun r => (r.1, lit.val))
  | _ => none

theorem applyItem_length (cfg : Cfg) (it : Item) (st : St) : (applyItem cfg it st).slots.length = st.slots.length := by
  cases it with
  | assign key sep lit =>
    simp only [applyItem, findOption]
    cases hl : lookup cfg.table key with
    | none => simp
    | some r => simp [(values_doEcho _ _ _).2.2, modify_length, (values_noteMatch _ _ _ _).2.2]
  | query key sep =>
    simp only [applyItem, findOption]
    cases hl : lookup cfg.table key with
    | none => simp
    | some r => simp [(values_doEcho _ _ _).2.2, (values_noteMatch _ _ _ _).2.2]
  | unknown key pre eq => simp [applyItem, addErr]
  | flagArg key pre post junk =>
    simp only [applyItem, findOption]
    cases hl : lookup cfg.table key with
    | none => simp
    | some r => simp [addErr, (values_noteMatch _ _ _ _).2.2]

/-- the value held by slot `i` after an item: the written value if the item assigns to the plain
option owning slot `i`, otherwise unchanged. -/
theorem slot_val_applyItem (cfg : Cfg) (it : Item) (st : St) (i : Nat) (hi : i < st.slots.length) :
    ((applyItem cfg it st).slot i).val =
      match itemTarget cfg it with
      | some (d, v) => if d.id = i ∧ d.plain = true then v else (st.slot i).val
      | none => (st.slot i).val := by
  cases it with
  | assign key sep lit =>
    simp only [applyItem, findOption, itemTarget]
    cases hl : lookup cfg.table key with
    | none => simp
    | some r =>
      obtain ⟨d, ob⟩ := r
      simp only [Option.map_some, slot_doEcho]
      by_cases hid : d.id = i
      · subst hid
        have hi' : d.id < (noteMatch d key ob st).slots.length := by rw [(values_noteMatch _ _ _ _).2.2]; exact hi
        rw [slot_modify_same _ _ hi']
        cases hp : d.logged with
        | false => simp [setValue, hp, OptDecl.plain]
        | true => simp [setValue, hp, OptDecl.plain, slot_noteMatch_val]
      · rw [slot_modify_other _ _ hid]
        simp [hid, slot_noteMatch_val]
  | query key sep =>
    simp only [applyItem, findOption, itemTarget]
    cases hl : lookup cfg.table key with
    | none => simp
    | some r => simp [slot_doEcho, slot_noteMatch_val]
  | unknown key pre eq => simp [applyItem, addErr, itemTarget, St.slot]
  | flagArg key pre post junk =>
    simp only [applyItem, findOption, itemTarget]
    cases hl : lookup cfg.table key with
    | none => simp
    | some r => simp [addErr, St.slot]; exact slot_noteMatch_val _ _ _ _ _

theorem applyAll_append (cfg : Cfg) (a b : List (Item × Bytes)) (st : St) :
    applyAll cfg (a ++ b) st = applyAll cfg b (applyAll cfg a st) := by
  simp [applyAll, List.foldl_append]

theorem applyAll_length (cfg : Cfg) (items : List (Item × Bytes)) (st : St) :
    (applyAll cfg items st).slots.length = st.slots.length := by
  induction items generalizing st with
  | nil => rfl
  | cons x rest ih => simp only [applyAll, List.foldl_cons] at ih ⊢; rw [ih, applyItem_length]

/-- `applyItem` does not depend on the lexical flags -/
theorem applyItem_cfg (cfg cfg' : Cfg) (ht : cfg.table = cfg'.table) (he : cfg.noEcho = cfg'.noEcho) (it : Item) (st : St) :
    applyItem cfg it st = applyItem cfg' it st := by
  cases it <;> simp [applyItem, ht, he]

theorem applyAll_cfg (cfg cfg' : Cfg) (ht : cfg.table = cfg'.table) (he : cfg.noEcho = cfg'.noEcho)
    (items : List (Item × Bytes)) (st : St) : applyAll cfg items st = applyAll cfg' items st := by
  induction items generalizing st with
  | nil => rfl
  | cons x rest ih => simp only [applyAll, List.foldl_cons] at ih ⊢; rw [applyItem_cfg cfg cfg' ht he, ih]

theorem slot_val_untouched (cfg : Cfg) (items : List (Item × Bytes)) (i : Nat) (st : St) (hi : i < st.slots.length)
    (h : ∀ x ∈ items, ∀ d' v, itemTarget cfg x.1 = some (d', v) → d'.id ≠ i) :
    ((applyAll cfg items st).slot i).val = (st.slot i).val := by
  induction items generalizing st with
  | nil => rfl
  | cons x rest ih =>
    simp only [applyAll, List.foldl_cons] at ih ⊢
    rw [ih (applyItem cfg x.1 st) (by rw [applyItem_length]; exact hi) (fun y hy => h y (by simp [hy]))]
    rw [slot_val_applyItem cfg x.1 st i hi]
    cases ht : itemTarget cfg x.1 with
    | none => rfl
    | some r =>
      obtain ⟨d', v⟩ := r
      have := h x (by simp) d' v ht
      simp [this]


end MpVerif.C11

namespace MpVerif.C11

theorem slot_noteMatch_log (d : OptDecl) (key : Bytes) (ob : Option Bytes) (st : St) (j : Nat) :
    ((noteMatch d key ob st).slot j).log = (st.slot j).log := by
  cases ob with
  | none => simp [noteMatch]
  | some b =>
    simp only [noteMatch]
    by_cases h : d.id = j
    · subst h
      by_cases hi : d.id < st.slots.length
      · rw [slot_modify_same st _ hi]
      · simp [St.modify, St.slot, List.set_eq_of_length_le (Nat.le_of_not_lt hi)]
    · rw [slot_modify_other st _ h]

/-- the entry (key body ↦ value) an item records in the wildcard option that owns slot `i`: an
assignment whose key is matched by one of that option's patterns (the body is what the pattern cuts out) -/
def wcAssign (cfg : Cfg) (i : Nat) : Item → Option (Bytes × Val)
  | .assign key _ lit =>
    match lookup cfg.table key with
    | some (d, some body) => if d.id = i ∧ d.logged = true then some (body, lit.val) else none
    | _ => none
  | _ => none

/-- no item reaches slot `i`'s record by another route (a recording option addressed by a plain name or
synonym instead of a wildcard pattern: then the body would be the stale `wc_body_last_`) -/
def OnlyPatternKeys (cfg : Cfg) (i : Nat) (items : List (Item × Bytes)) : Prop :=
  ∀ x ∈ items, ∀ key sep lit d, x.1 = .assign key sep lit → lookup cfg.table key = some (d, none) → d.id = i → d.logged = false

theorem slot_log_applyItem (cfg : Cfg) (it : Item) (st : St) (i : Nat) (hi : i < st.slots.length)
    (hk : ∀ key sep lit d, it = .assign key sep lit → lookup cfg.table key = some (d, none) → d.id = i → d.logged = false) :
    ((applyItem cfg it st).slot i).log =
      (match wcAssign cfg i it with | some e => [e] | none => []) ++ (st.slot i).log := by
  cases it with
  | assign key sep lit =>
    simp only [applyItem, findOption, wcAssign]
    cases hl : lookup cfg.table key with
    | none => simp
    | some r =>
      obtain ⟨d, ob⟩ := r
      simp only [Option.map_some, slot_doEcho]
      by_cases hid : d.id = i
      · subst hid
        have hi' : d.id < (noteMatch d key ob st).slots.length := by rw [(values_noteMatch _ _ _ _).2.2]; exact hi
        rw [slot_modify_same _ _ hi']
        cases ob with
        | none =>
          have hlg := hk key sep lit d rfl hl rfl
          simp [setValue, hlg, noteMatch]
        | some body =>
          cases hlg : d.logged with
          | false => simp [setValue, hlg, slot_noteMatch_log]
          | true =>
            simp only [setValue, hlg, if_true, noteMatch, slot_modify_same st _ hi]
            simp
      · rw [slot_modify_other _ _ hid]
        cases ob with
        | none => simp [noteMatch]
        | some body => simp [hid, slot_noteMatch_log]
  | query key sep =>
    simp only [applyItem, findOption, wcAssign]
    cases hl : lookup cfg.table key with
    | none => simp
    | some r => simp [slot_doEcho, slot_noteMatch_log]
  | unknown key pre eq => simp [applyItem, addErr, wcAssign, St.slot]
  | flagArg key pre post junk =>
    simp only [applyItem, findOption, wcAssign]
    cases hl : lookup cfg.table key with
    | none => simp
    | some r => simp [addErr, St.slot]; exact slot_noteMatch_log _ _ _ _ _

/-- in a list scanned from the newest entry, the first entry with body `b` is the last one written -/
theorem find_reverse_append {α : Type} (p : α → Bool) (l init : List α) :
    (l.reverse ++ init).find? p = ((l.filter p).getLast?).or (init.find? p) := by
  induction l generalizing init with
  | nil => simp
  | cons a t ih =>
    rw [List.reverse_cons, List.append_assoc, ih]
    cases hp : p a with
    | true =>
      simp only [List.filter_cons, hp, if_true, List.singleton_append, List.find?_cons]
      cases ht : t.filter p with
      | nil => simp
      | cons y ys =>
        cases h : (y :: ys).getLast? with
        | none => simp at h
        | some z => simp [List.getLast?_cons, h]
    | false =>
      simp only [List.filter_cons, hp, Bool.false_eq_true, if_false, List.singleton_append, List.find?_cons]

end MpVerif.C11

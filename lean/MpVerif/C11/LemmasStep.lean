import MpVerif.C11.Spec
/-! # C11 — one loop iteration on each kind of well-formed item -/
namespace MpVerif.C11

theorem parseStr_cont {cfg : Cfg} {s s' : Bytes} {st st' : St} (h : step cfg s st = .cont s' st') :
    parseStr cfg s st = parseStr cfg s' st' := by
  rw [parseStr]
  split
  · rename_i h'; rw [h] at h'; cases h'
  · rename_i a b h'; rw [h] at h'; cases h'; rfl
  · rename_i a b h'; rw [h] at h'; cases h'

theorem parseStr_done {cfg : Cfg} {s : Bytes} {st : St} (h : step cfg s st = .done) :
    parseStr cfg s st = (.ok, st) := by
  rw [parseStr]
  split
  · rfl
  · rename_i a b h'; rw [h] at h'; cases h'
  · rename_i a b h'; rw [h] at h'; cases h'

theorem parseStr_stop {cfg : Cfg} {s : Bytes} {st st' : St} {o : Outcome} (h : step cfg s st = .stop o st') :
    parseStr cfg s st = (o, st') := by
  rw [parseStr]
  split
  · rename_i h'; rw [h] at h'; cases h'
  · rename_i a b h'; rw [h] at h'; cases h'
  · rename_i a b h'; rw [h] at h'; cases h'; rfl

theorem step_blank_done (cfg : Cfg) (st : St) {w : Bytes} (hw : Blank w) : step cfg w st = .done := by
  have : skipSpaces w = [] := by
    have := skipSpaces_blank_append (w := w) (r := []) hw trivial
    simpa using this
  simp [step, this]

end MpVerif.C11

namespace MpVerif.C11

/-- the text that follows an item: empty, or the next item's key (a name character, not `?`) -/
def StartsItem (n : Bytes) : Prop :=
  match n with
  | [] => True
  | c :: _ => isNameChar c = true ∧ c.toNat ≠ 63

theorem StartsItem.stopsSpace {n : Bytes} (h : StartsItem n) : StopsAt isSpace n := by
  cases n with
  | nil => trivial
  | cons c r => simp [StartsItem, isNameChar] at h; simp [StopsAt, h.1.1]

theorem StartsItem.stopsEq {n : Bytes} (h : StartsItem n) : StopsAt (fun c => c.toNat == 61) n := by
  cases n with
  | nil => trivial
  | cons c r => simp [StartsItem, isNameChar] at h; simp [StopsAt, h.1.2]

theorem StartsItem.notQuery {n : Bytes} (h : StartsItem n) : isQuery n = false := by
  cases n with
  | nil => rfl
  | cons c r => simp [StartsItem] at h; simp [isQuery, h.2]

theorem isQuery_of_head {c : UInt8} {r : Bytes} (h : c.toNat ≠ 63) : isQuery (c :: r) = false := by
  simp [isQuery, h]

theorem findOption_of_lookup {t : Table} {key : Bytes} {st : St} {d : OptDecl} {ob : Option Bytes}
    (h : lookup t key = some (d, ob)) : findOption t key st = some (d, noteMatch d key ob st) := by
  simp [findOption, h]

theorem findOption_none {t : Table} {key : Bytes} {st : St} (h : lookup t key = none) :
    findOption t key st = none := by
  simp [findOption, h]

/-- facts about `l ++ K` from the first byte of `l` -/
theorem head_facts {l K : Bytes} {c : UInt8} {r : Bytes} {eq : Bool} (hl : l = c :: r)
    (h1 : isSpace c = false) (h2 : c.toNat ≠ 63) (h3 : eq = false → c.toNat ≠ 61) :
    StopsAt isSpace (l ++ K) ∧ (eq = false → StopsAt (fun c => c.toNat == 61) (l ++ K)) ∧
    isQuery (l ++ K) = false := by
  subst hl
  refine ⟨by simp [StopsAt, h1], ?_, by simp [isQuery, h2]⟩
  intro he; have := h3 he; simp [StopsAt, this]

def NumHead (c : UInt8) : Prop := c.toNat = 45 ∨ c.toNat = 43 ∨ c.toNat = 46 ∨ isDigit c = true

theorem NumHead.facts {c : UInt8} (h : NumHead c) : isSpace c = false ∧ c.toNat ≠ 63 ∧ c.toNat ≠ 61 := by
  unfold NumHead at h
  simp [isDigit] at h
  simp [isSpace]
  omega

theorem signDigits_head (sg : Option Bool) {ds : Bytes} (hne : ds ≠ []) (hd : AllDigits ds) (x : Bytes) :
    ∃ c r, signBytes sg ++ (ds ++ x) = c :: r ∧ NumHead c := by
  cases ds with
  | nil => exact absurd rfl hne
  | cons d t =>
    have h0 := hd d (by simp)
    match sg with
    | none => exact ⟨d, t ++ x, by simp [signBytes], Or.inr (Or.inr (Or.inr h0))⟩
    | some true => exact ⟨45, d :: t ++ x, by simp [signBytes], Or.inl rfl⟩
    | some false => exact ⟨43, d :: t ++ x, by simp [signBytes], Or.inr (Or.inl rfl)⟩

theorem realLit_head (l : RealLit) (hl : l.WF) : ∃ c r, l.render = c :: r ∧ NumHead c := by
  obtain ⟨hip, hfp, hdf, hne, hx⟩ := hl
  have hm : ∃ c r, l.mant = c :: r ∧ NumHead c := by
    unfold RealLit.mant
    cases hipc : l.ip with
    | cons d t => exact ⟨d, t ++ ((if l.dot then 46 :: l.fp else []) ++ expBytes l.exp), by simp, Or.inr (Or.inr (Or.inr (hip d (by simp [hipc]))))⟩
    | nil =>
      have hfpne : l.fp ≠ [] := by
        cases hne with
        | inl h => exact absurd hipc h
        | inr h => exact h
      have hdot : l.dot = true := by
        cases hd : l.dot with
        | true => rfl
        | false => exact absurd (hdf hd) hfpne
      exact ⟨46, l.fp ++ expBytes l.exp, by simp [hdot], Or.inr (Or.inr (Or.inl rfl))⟩
  obtain ⟨c, r, hcr, hc⟩ := hm
  unfold RealLit.render
  match l.sign with
  | none => exact ⟨c, r, by simp [signBytes, hcr], hc⟩
  | some true => exact ⟨45, l.mant, by simp [signBytes], Or.inl rfl⟩
  | some false => exact ⟨43, l.mant, by simp [signBytes], Or.inr (Or.inl rfl)⟩

/-- the written value is non-empty, does not start with a blank, does not read as a query,
and without `=` does not start with `=` -/
theorem lit_rest_facts {cl eq : Bool} {lit : Lit} (hnf : lit ≠ .flagOn) (hwf : lit.WF cl eq) (K : Bytes) :
    StopsAt isSpace (lit.render ++ K) ∧ (eq = false → StopsAt (fun c => c.toNat == 61) (lit.render ++ K)) ∧
    isQuery (lit.render ++ K) = false ∧ lit.render ≠ [] := by
  have wrap : ∀ {l : Bytes} {c : UInt8} {r : Bytes}, l = c :: r → isSpace c = false → c.toNat ≠ 63 →
      (eq = false → c.toNat ≠ 61) →
      StopsAt isSpace (l ++ K) ∧ (eq = false → StopsAt (fun c => c.toNat == 61) (l ++ K)) ∧
      isQuery (l ++ K) = false ∧ l ≠ [] := by
    intro l c r hl h1 h2 h3
    obtain ⟨a, b, c'⟩ := head_facts (K := K) hl h1 h2 h3
    exact ⟨a, b, c', by rw [hl]; simp⟩
  match lit with
  | .flagOn => exact absurd rfl hnf
  | .int l =>
    obtain ⟨⟨hne, hd⟩, _, _⟩ := hwf
    obtain ⟨c, r, hcr, hc⟩ := signDigits_head l.sign hne hd []
    obtain ⟨f1, f2, f3⟩ := hc.facts
    have : (Lit.int l).render = c :: r := by simpa [Lit.render, IntLit.render] using hcr
    exact wrap this f1 f2 (fun _ => f3)
  | .real l =>
    obtain ⟨c, r, hcr, hc⟩ := realLit_head l hwf
    obtain ⟨f1, f2, f3⟩ := hc.facts
    exact wrap (l := (Lit.real l).render) hcr f1 f2 (fun _ => f3)
  | .quoted q b =>
    obtain ⟨_, hq, _⟩ := hwf
    simp [isQuote] at hq
    have f1 : isSpace q = false := by simp [isSpace]; omega
    exact wrap (l := (Lit.quoted q b).render) (c := q) (r := b ++ [q]) rfl f1 (by omega) (fun _ => by omega)
  | .bare b =>
    obtain ⟨_, hne, hb, hq, h63, heq⟩ := hwf
    cases b with
    | nil => exact absurd rfl hne
    | cons c r =>
      have f1 := hb c (by simp)
      by_cases hc : c.toNat = 63
      · -- `?x...`: the byte after `?` is not a blank
        cases r with
        | nil =>
          exfalso; apply h63
          have : c = 63 := UInt8.toNat_inj.mp (by simpa using hc)
          rw [this]
        | cons d t =>
          have fd := hb d (by simp)
          refine ⟨by simp [Lit.render, StopsAt, f1], ?_, by simp [Lit.render, isQuery, fd], by simp [Lit.render]⟩
          intro he; have := heq he c (d :: t) rfl; simp [Lit.render, StopsAt, this]
      · exact wrap (l := (Lit.bare (c :: r)).render) rfl f1 hc (fun he => heq he c r rfl)
  | .raw b =>
    obtain ⟨_, _, hh⟩ := hwf
    cases b with
    | nil => simp [HeadIs] at hh
    | cons c r =>
      simp [HeadIs] at hh
      obtain ⟨⟨f1, f2⟩, f3⟩ := hh
      refine wrap (l := (Lit.raw (c :: r)).render) rfl f1 f2 ?_
      intro he; cases f3 with
      | inl h => simp [he] at h
      | inr h => exact h

theorem isEmpty_false_of_ne {b : Bytes} (h : b ≠ []) : b.isEmpty = false := by
  cases b with
  | nil => exact absurd rfl h
  | cons _ _ => rfl

/-- **assignment of a value** (int, real, string) -/
theorem step_assign {cfg : Cfg} {st : St} {lead key trail n : Bytes} {sep : Sep} {lit : Lit}
    (hlead : Blank lead) (hwf : (Item.assign key sep lit).WF cfg) (hnf : lit ≠ .flagOn)
    (hK : EndsToken (trail ++ n))
    (hraw : ∀ b, lit = .raw b → StopsAt (fun c => c.toNat != 10) (trail ++ n)) :
    step cfg (lead ++ ((Item.assign key sep lit).render ++ (trail ++ n))) st =
      .cont (trail ++ n) (applyItem cfg (.assign key sep lit) st) := by
  obtain ⟨⟨hkey, _⟩, hsep, ⟨d, ob, hlk, hkind, hchk⟩, hlit, _, hpre⟩ := hwf
  obtain ⟨r1, r2, r3, r4⟩ := lit_rest_facts hnf hlit (trail ++ n)
  have hrest : RestOk sep (lit.render ++ (trail ++ n)) := by
    refine ⟨r1, fun he => ⟨r2 he, fun hp => absurd hp (hpre hnf he)⟩⟩
  have htext : lead ++ ((Item.assign key sep lit).render ++ (trail ++ n)) =
      lead ++ (key ++ (sep.render ++ (lit.render ++ (trail ++ n)))) := by
    simp [Item.render, List.append_assoc]
  rw [htext, step_header cfg st hlead hkey hsep hrest, findOption_of_lookup hlk]
  have hnotflag : (sep.eq && d.kind == .flag) = false := by
    rw [hkind]; cases lit <;> simp [Lit.kind] at hnf ⊢
  simp only [r3, hnotflag, Bool.false_eq_true, if_false, applyItem, findOption_of_lookup hlk]
  match lit with
  | .flagOn => exact absurd rfl hnf
  | .int l =>
    obtain ⟨hl, lo, hi⟩ := hlit
    simp only [Lit.kind] at hkind
    simp only [parseValue, hkind, Lit.render, parseInt_lit l hl hK.stopsDigit, wrap32_clamp_id lo hi,
      hchk l rfl, if_true, Lit.val]
  | .real l =>
    simp only [Lit.kind] at hkind
    simp only [parseValue, hkind, Lit.render, parseDbl_lit l hlit hK, Lit.val]
  | .quoted q b =>
    obtain ⟨hcl, hq, hb⟩ := hlit
    simp only [Lit.kind] at hkind
    have : (Lit.quoted q b).render ++ (trail ++ n) = q :: (b ++ q :: (trail ++ n)) := by simp [Lit.render]
    simp only [parseValue, hkind, this, hcl, parseStrVal_quoted hq hb, Lit.val]
  | .bare b =>
    obtain ⟨hcl, hne, hb, hq, _, _⟩ := hlit
    simp only [Lit.kind] at hkind
    simp only [parseValue, hkind, Lit.render, hcl, parseStrVal_bare hne hb hq hK, Lit.val]
  | .raw b =>
    obtain ⟨hcl, hb, _⟩ := hlit
    simp only [Lit.kind] at hkind
    simp only [parseValue, hkind, Lit.render, hcl, parseStrVal_raw hb (hraw b rfl), Lit.val]

/-- **a flag** (no value): the blanks after it are consumed by the same iteration -/
theorem step_flag {cfg : Cfg} {st : St} {lead key trail n : Bytes} {sep : Sep}
    (hlead : Blank lead) (hwf : (Item.assign key sep .flagOn).WF cfg)
    (htrail : Blank trail) (hn : StartsItem n) (hend : trail = [] → n = []) :
    step cfg (lead ++ ((Item.assign key sep .flagOn).render ++ (trail ++ n))) st =
      .cont n (applyItem cfg (.assign key sep .flagOn) st) := by
  obtain ⟨⟨hkey, _⟩, _, ⟨d, ob, hlk, hkind, _⟩, _, hsep0, _⟩ := hwf
  obtain ⟨hp0, he0⟩ := hsep0 rfl
  let p : Sep := { pre := trail, eq := false, post := [] }
  have hp : p.WF := ⟨htrail, Blank.nil⟩
  have hrest : RestOk p n := ⟨hn.stopsSpace, fun _ => ⟨hn.stopsEq, hend⟩⟩
  have htext : lead ++ ((Item.assign key sep .flagOn).render ++ (trail ++ n)) = lead ++ (key ++ (p.render ++ n)) := by
    simp [Item.render, Sep.render, Lit.render, hp0, he0, p]
  rw [htext, step_header cfg st hlead hkey hp hrest, findOption_of_lookup hlk]
  simp only [Lit.kind] at hkind
  simp [hn.notQuery, p, applyItem, findOption_of_lookup hlk, parseValue, hkind, Lit.val]

/-- **`key=?`** -/
theorem step_query {cfg : Cfg} {st : St} {lead key trail n : Bytes} {sep : Sep}
    (hlead : Blank lead) (hwf : (Item.query key sep).WF cfg) (hK : EndsToken (trail ++ n)) :
    step cfg (lead ++ ((Item.query key sep).render ++ (trail ++ n))) st =
      .cont (trail ++ n) (applyItem cfg (.query key sep) st) := by
  obtain ⟨⟨hkey, _⟩, hsep, ⟨⟨d, ob⟩, hlk⟩, hpre⟩ := hwf
  have hrest : RestOk sep (63 :: (trail ++ n)) := by
    refine ⟨by simp [StopsAt]; decide, fun he => ⟨by simp [StopsAt], fun hp => absurd hp (hpre he)⟩⟩
  have htext : lead ++ ((Item.query key sep).render ++ (trail ++ n)) =
      lead ++ (key ++ (sep.render ++ (63 :: (trail ++ n)))) := by
    simp [Item.render, List.append_assoc]
  have hq : isQuery (63 :: (trail ++ n)) = true := by
    cases hKn : trail ++ n with
    | nil => simp [isQuery]
    | cons c r => rw [hKn] at hK; simp [EndsToken, StopsAt] at hK; simp [isQuery, hK]
  rw [htext, step_header cfg st hlead hkey hsep hrest, findOption_of_lookup hlk]
  simp [hq, applyItem, findOption_of_lookup hlk]

/-- **an unknown key**: `HandleUnknownOption` is called and, if it returns, parsing goes on after
the optional `=` -/
theorem step_unknown_general {cfg : Cfg} {st : St} {lead key pre trail n : Bytes} {eq : Bool}
    (hlead : Blank lead) (hwf : (Item.unknown key pre eq).WF cfg)
    (htrail : Blank trail) (hn : StartsItem n) (hend : trail = [] → n = []) :
    step cfg (lead ++ ((Item.unknown key pre eq).render ++ (trail ++ n))) st =
      reportError cfg (.unknown key) n st := by
  obtain ⟨⟨hkey, _⟩, hpre, hlk⟩ := hwf
  let p : Sep := if eq then { pre := pre, eq := true, post := trail } else { pre := pre ++ trail, eq := false, post := [] }
  have hp : p.WF := by
    cases eq
    · exact ⟨hpre.append htrail, Blank.nil⟩
    · exact ⟨hpre, htrail⟩
  have hrest : RestOk p n := by
    refine ⟨hn.stopsSpace, fun he => ⟨hn.stopsEq, fun hp0 => ?_⟩⟩
    cases eq
    · simp [p] at hp0; exact hend hp0.2
    · simp [p] at he
  have htext : lead ++ ((Item.unknown key pre eq).render ++ (trail ++ n)) = lead ++ (key ++ (p.render ++ n)) := by
    cases eq <;> simp [Item.render, Sep.render, p]
  rw [htext, step_header cfg st hlead hkey hp hrest, findOption_none hlk]

theorem step_unknown {cfg : Cfg} {st : St} {lead key pre trail n : Bytes} {eq : Bool}
    (hlead : Blank lead) (hwf : (Item.unknown key pre eq).WF cfg) (hthrow : cfg.throwing = false)
    (htrail : Blank trail) (hn : StartsItem n) (hend : trail = [] → n = []) :
    step cfg (lead ++ ((Item.unknown key pre eq).render ++ (trail ++ n))) st =
      .cont n (applyItem cfg (.unknown key pre eq) st) := by
  rw [step_unknown_general hlead hwf htrail hn hend]
  simp [reportError, hthrow, applyItem, addErr]

/-- **a value given to a flag** (error handler that returns): the value token is skipped -/
theorem step_flagArg {cfg : Cfg} {st : St} {lead key pre post junk trail n : Bytes}
    (hlead : Blank lead) (hwf : (Item.flagArg key pre post junk).WF cfg) (hthrow : cfg.throwing = false)
    (hK : EndsToken (trail ++ n)) :
    step cfg (lead ++ ((Item.flagArg key pre post junk).render ++ (trail ++ n))) st =
      .cont (trail ++ n) (applyItem cfg (.flagArg key pre post junk) st) := by
  obtain ⟨⟨hkey, _⟩, hpre, hpost, ⟨d, ob, hlk, hkind⟩, hne, hj, h63⟩ := hwf
  let p : Sep := { pre := pre, eq := true, post := post }
  have hp : p.WF := ⟨hpre, hpost⟩
  have hjs : ∀ c ∈ junk, (fun x => !isSpace x) c = true := by intro c hc; simp [hj c hc]
  obtain ⟨c, r, hcr⟩ : ∃ c r, junk = c :: r := by
    cases junk with
    | nil => exact absurd rfl hne
    | cons c r => exact ⟨c, r, rfl⟩
  have f1 := hj c (by simp [hcr])
  have hrest : RestOk p (junk ++ (trail ++ n)) := by
    refine ⟨by simp [hcr, StopsAt, f1], fun he => by simp [p] at he⟩
  have hq : isQuery (junk ++ (trail ++ n)) = false := by
    rw [hcr]
    cases r with
    | nil =>
      have : c.toNat ≠ 63 := by
        intro h; apply h63; rw [hcr]
        have : c = 63 := UInt8.toNat_inj.mp (by simpa using h)
        rw [this]
      simp [isQuery, this]
    | cons e t =>
      have fe := hj e (by simp [hcr])
      simp [isQuery, fe]
  have htext : lead ++ ((Item.flagArg key pre post junk).render ++ (trail ++ n)) =
      lead ++ (key ++ (p.render ++ (junk ++ (trail ++ n)))) := by
    simp [Item.render, Sep.render, p, List.append_assoc]
  have hskip : skipNonSpaces (junk ++ (trail ++ n)) = trail ++ n := dropWhile_append_stop hjs hK
  rw [htext, step_header cfg st hlead hkey hp hrest, findOption_of_lookup hlk]
  simp [hq, p, hkind, hskip, reportError, hthrow, applyItem, findOption_of_lookup hlk, addErr]

/-- a value given to a flag, any error handler -/
theorem step_flagArg_general {cfg : Cfg} {st : St} {lead key pre post junk trail n : Bytes}
    (hlead : Blank lead) (hwf : (Item.flagArg key pre post junk).WF cfg)
    (hK : EndsToken (trail ++ n)) :
    ∃ d ob, lookup cfg.table key = some (d, ob) ∧
    step cfg (lead ++ ((Item.flagArg key pre post junk).render ++ (trail ++ n))) st =
      reportError cfg (.flagArg key) (trail ++ n) (noteMatch d key ob st) := by
  obtain ⟨⟨hkey, _⟩, hpre, hpost, ⟨d, ob, hlk, hkind⟩, hne, hj, h63⟩ := hwf
  let p : Sep := { pre := pre, eq := true, post := post }
  have hp : p.WF := ⟨hpre, hpost⟩
  have hjs : ∀ c ∈ junk, (fun x => !isSpace x) c = true := by intro c hc; simp [hj c hc]
  obtain ⟨c, r, hcr⟩ : ∃ c r, junk = c :: r := by
    cases junk with
    | nil => exact absurd rfl hne
    | cons c r => exact ⟨c, r, rfl⟩
  have f1 := hj c (by simp [hcr])
  have hrest : RestOk p (junk ++ (trail ++ n)) := by
    refine ⟨by simp [hcr, StopsAt, f1], fun he => by simp [p] at he⟩
  have hq : isQuery (junk ++ (trail ++ n)) = false := by
    rw [hcr]
    cases r with
    | nil =>
      have : c.toNat ≠ 63 := by
        intro h; apply h63; rw [hcr]
        have : c = 63 := UInt8.toNat_inj.mp (by simpa using h)
        rw [this]
      simp [isQuery, this]
    | cons e t =>
      have fe := hj e (by simp [hcr])
      simp [isQuery, fe]
  have htext : lead ++ ((Item.flagArg key pre post junk).render ++ (trail ++ n)) =
      lead ++ (key ++ (p.render ++ (junk ++ (trail ++ n)))) := by
    simp [Item.render, Sep.render, p, List.append_assoc]
  have hskip : skipNonSpaces (junk ++ (trail ++ n)) = trail ++ n := dropWhile_append_stop hjs hK
  refine ⟨d, ob, hlk, ?_⟩
  rw [htext, step_header cfg st hlead hkey hp hrest, findOption_of_lookup hlk]
  simp [hq, p, hkind, hskip]

theorem renderAll_startsItem (cfg : Cfg) (items : List (Item × Bytes)) (h : ItemsWF cfg items) :
    StartsItem (renderAll items) := by
  cases items with
  | nil => trivial
  | cons x rest =>
    obtain ⟨it, trail⟩ := x
    obtain ⟨hwf, _⟩ := h
    have hk : KeyOk' it.key ∧ ∃ X, it.render = it.key ++ X := by
      cases it with
      | assign key sep lit => exact ⟨hwf.1, _, rfl⟩
      | query key sep => exact ⟨hwf.1, _, rfl⟩
      | unknown key pre eq => exact ⟨hwf.1, _, rfl⟩
      | flagArg key pre post junk => exact ⟨hwf.1, _, rfl⟩
    obtain ⟨⟨⟨hne, hkc⟩, hq⟩, X, hX⟩ := hk
    simp only [renderAll, hX]
    cases hkey : it.key with
    | nil => exact absurd hkey hne
    | cons c r =>
      simp only [List.cons_append, StartsItem]
      exact ⟨hkc c (by simp [hkey]), hq c r hkey⟩


end MpVerif.C11

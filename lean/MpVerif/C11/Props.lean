import MpVerif.C11.LemmasState
import MpVerif.C11.LemmasLookup
import MpVerif.C11.ModelPtr
/-!
# C11 — Solver option parsing is total, faithful and ordered: property theorems

The model (`Model.lean`, `ModelParse.lean`) mirrors `src/solver.cc` / `include/mp/solver-opt.h`
as they are; its agreement with the real code is checked on every run by `checks/c11.py`.
Only property theorems (named `C11_*`) and non-vacuity examples live here.
-/
namespace MpVerif.C11

/-! ## totality: progress and termination -/

/-- Every iteration of the `ParseOptionString` loop that goes on has consumed at least one byte.
(This is the fact that makes Lean accept `parseStr` as a total function: fuel-free well-founded
recursion on the remaining length.) -/
theorem C11_progress (cfg : Cfg) (s s' : Bytes) (st st' : St)
    (h : step cfg s st = .cont s' st') : s'.length < s.length := step_progress h

/-- The loop runs at most `length s` iterations, for every byte string and every table. -/
theorem C11_terminates_within (cfg : Cfg) (s : Bytes) (st : St) : parseIters cfg s st ≤ s.length + 1 := by
  induction hn : s.length using Nat.strongRecOn generalizing s st with
  | _ n ih =>
    rw [parseIters]
    split
    · omega
    · rename_i s' st' h
      have hp := step_progress h
      have := ih s'.length (by omega) s' st' rfl
      omega
    · omega

/-! ## faithfulness: parse ∘ print = apply -/

/-- **Faithfulness.**  For every option table, every list of well-formed items — assignments
addressed by any key that `lookup` resolves (name or synonym in any letter case, wildcard pattern),
written with or without `=`, with integer (in `int` range), real, quoted or bare string value (or
the rest-of-element string on the command line), flags, `key=?` queries, unknown keys, values
given to flags — separated by blanks, with arbitrary leading blanks: parsing the rendered text
terminates normally in exactly the state obtained by applying the items one after the other.
`applyItem` involves no lexing: it stores the denoted value in the resolved option, records the
echo, or records the error. -/
theorem C11_faithful (cfg : Cfg) (hthrow : cfg.throwing = false) (items : List (Item × Bytes))
    (h : ItemsWF cfg items) (lead : Bytes) (hlead : Blank lead) (st : St) :
    parseStr cfg (lead ++ renderAll items) st = (.ok, applyAll cfg items st) := by
  induction items generalizing lead st with
  | nil =>
    simp only [renderAll, List.append_nil, applyAll, List.foldl_nil]
    exact parseStr_done (step_blank_done cfg st hlead)
  | cons x rest ih =>
    obtain ⟨it, trail⟩ := x
    obtain ⟨hwf, htrail, hsepar, hrawc, hrest⟩ := h
    have hn := renderAll_startsItem cfg rest hrest
    have hend : trail = [] → renderAll rest = [] := by
      intro ht
      cases rest with
      | nil => rfl
      | cons y ys => exact absurd ht (hsepar (by simp))
    have hK : EndsToken (trail ++ renderAll rest) := by
      cases trail with
      | nil => simp [hend rfl, EndsToken, StopsAt]
      | cons c r => simp [EndsToken, StopsAt, htrail.head]
    have happ : applyAll cfg ((it, trail) :: rest) st = applyAll cfg rest (applyItem cfg it st) := by
      simp [applyAll]
    simp only [renderAll]
    rw [happ]
    cases it with
    | assign key sep lit =>
      by_cases hf : lit = .flagOn
      · subst hf
        rw [parseStr_cont (step_flag hlead hwf htrail hn hend)]
        simpa using ih hrest [] Blank.nil (applyItem cfg (.assign key sep .flagOn) st)
      · have hraw : ∀ b, lit = .raw b → StopsAt (fun c => c.toNat != 10) (trail ++ renderAll rest) := by
          intro b hb
          subst hb
          obtain ⟨hs, he⟩ := hrawc rfl
          cases trail with
          | nil => rw [hend rfl]; trivial
          | cons c r => simpa [StopsAt] using hs
        rw [parseStr_cont (step_assign hlead hwf hf hK hraw)]
        exact ih hrest trail htrail _
    | query key sep =>
      rw [parseStr_cont (step_query hlead hwf hK)]
      exact ih hrest trail htrail _
    | unknown key pre eq =>
      rw [parseStr_cont (step_unknown hlead hwf hthrow htrail hn hend)]
      simpa using ih hrest [] Blank.nil (applyItem cfg (.unknown key pre eq) st)
    | flagArg key pre post junk =>
      rw [parseStr_cont (step_flagArg hlead hwf hthrow hK)]
      exact ih hrest trail htrail _

/-! ## exactly that option, exactly that value -/

/-- An assignment stores the written value in the slot of the option the key resolves to (a plain
option) and changes the value of no other slot. -/
theorem C11_assign_sets_exactly (cfg : Cfg) (key : Bytes) (sep : Sep) (lit : Lit) (st : St)
    (d : OptDecl) (ob : Option Bytes) (hl : lookup cfg.table key = some (d, ob)) (hp : d.plain = true)
    (hi : d.id < st.slots.length) :
    ((applyItem cfg (.assign key sep lit) st).slot d.id).val = lit.val ∧
    ∀ j, j < st.slots.length → j ≠ d.id →
      ((applyItem cfg (.assign key sep lit) st).slot j).val = (st.slot j).val := by
  constructor
  · rw [slot_val_applyItem cfg _ st d.id hi]; simp [itemTarget, hl, hp]
  · intro j hj hne
    rw [slot_val_applyItem cfg _ st j hj]; simp [itemTarget, hl, Ne.symm hne]

/-- an integer literal in `int` range denotes its mathematical value, e.g. the usual decimal
rendering of `v` -/
theorem C11_int_literal_value (v : Int) : (intLitOf v).WF ∧ (intLitOf v).value = v :=
  ⟨intLitOf_wf v, intLitOf_value v⟩

/-! ## `name=?`, unknown names, values given to flags: no option value changes -/

/-- `key=?` leaves every option value (and the error list) unchanged; with echo enabled one line
is printed. -/
theorem C11_query_inert (cfg : Cfg) (key : Bytes) (sep : Sep) (st : St) :
    (applyItem cfg (.query key sep) st).values = st.values ∧
    (applyItem cfg (.query key sep) st).errs = st.errs := by
  simp only [applyItem, findOption]
  cases hl : lookup cfg.table key with
  | none => simp
  | some r =>
    simp only [Option.map_some]
    exact ⟨by rw [(values_doEcho _ _ _).1, (values_noteMatch _ _ _ _).1],
           by rw [(values_doEcho _ _ _).2.1, (values_noteMatch _ _ _ _).2.1]⟩

/-- the same on the text: parsing `blanks key [=] ? blanks` ends normally with all values and
the error list unchanged -/
theorem C11_query_inert_parse (cfg : Cfg) (hthrow : cfg.throwing = false) (key : Bytes) (sep : Sep)
    (hwf : (Item.query key sep).WF cfg) (lead trail : Bytes) (hlead : Blank lead) (htrail : Blank trail) (st : St) :
    (parseStr cfg (lead ++ (key ++ (sep.render ++ [63]) ++ trail)) st).1 = .ok ∧
    (parseStr cfg (lead ++ (key ++ (sep.render ++ [63]) ++ trail)) st).2.values = st.values ∧
    (parseStr cfg (lead ++ (key ++ (sep.render ++ [63]) ++ trail)) st).2.errs = st.errs := by
  have h := C11_faithful cfg hthrow [(.query key sep, trail)]
    ⟨hwf, htrail, by simp, by simp [isRawAssign], trivial⟩ lead hlead st
  simp only [renderAll, Item.render, List.append_nil] at h
  rw [h]
  simp only [applyAll, List.foldl_cons, List.foldl_nil]
  exact ⟨trivial, C11_query_inert cfg key sep st⟩

/-- An unknown name is reported as an error (the list grows by exactly that error, so
`ParseOptions` returns false) and no option value changes. -/
theorem C11_unknown_inert (cfg : Cfg) (hthrow : cfg.throwing = false) (key pre : Bytes) (eq : Bool)
    (hwf : (Item.unknown key pre eq).WF cfg) (lead trail : Bytes) (hlead : Blank lead) (htrail : Blank trail) (st : St) :
    parseStr cfg (lead ++ ((Item.unknown key pre eq).render ++ trail)) st = (.ok, addErr (.unknown key) st) ∧
    (addErr (.unknown key) st).values = st.values ∧ (addErr (.unknown key) st).errs = .unknown key :: st.errs := by
  have h := C11_faithful cfg hthrow [(.unknown key pre eq, trail)]
    ⟨hwf, htrail, by simp, by simp [isRawAssign], trivial⟩ lead hlead st
  simp only [renderAll, List.append_nil] at h
  exact ⟨by rw [h]; simp [applyAll, applyItem], rfl, rfl⟩

/-- A value given to a flag is reported as an error, the value token is skipped, and no option
value changes (in particular the flag is not set). -/
theorem C11_flag_value_inert (cfg : Cfg) (hthrow : cfg.throwing = false) (key pre post junk : Bytes)
    (hwf : (Item.flagArg key pre post junk).WF cfg) (lead trail : Bytes) (hlead : Blank lead) (htrail : Blank trail) (st : St) :
    (parseStr cfg (lead ++ ((Item.flagArg key pre post junk).render ++ trail)) st).1 = .ok ∧
    (parseStr cfg (lead ++ ((Item.flagArg key pre post junk).render ++ trail)) st).2.values = st.values ∧
    (parseStr cfg (lead ++ ((Item.flagArg key pre post junk).render ++ trail)) st).2.errs = .flagArg key :: st.errs := by
  have h := C11_faithful cfg hthrow [(.flagArg key pre post junk, trail)]
    ⟨hwf, htrail, by simp, by simp [isRawAssign], trivial⟩ lead hlead st
  simp only [renderAll, List.append_nil] at h
  rw [h]
  obtain ⟨_, _, _, ⟨d, ob, hlk, _⟩, _⟩ := hwf
  simp only [applyAll, List.foldl_cons, List.foldl_nil, applyItem, findOption_of_lookup hlk, addErr]
  exact ⟨trivial, (values_noteMatch d key ob st).1, by rw [(values_noteMatch d key ob st).2.1]⟩

/-- With the default (throwing) error handler the first unknown name ends the parse by an
exception (`mp::Error`); the option values are those reached so far. -/
theorem C11_unknown_throws (cfg : Cfg) (hthrow : cfg.throwing = true) (key pre : Bytes) (eq : Bool)
    (hwf : (Item.unknown key pre eq).WF cfg) (lead trail n : Bytes) (hlead : Blank lead) (htrail : Blank trail)
    (hn : StartsItem n) (hend : trail = [] → n = []) (st : St) :
    parseStr cfg (lead ++ ((Item.unknown key pre eq).render ++ (trail ++ n))) st =
      (.threwError, addErr (.unknown key) st) := by
  apply parseStr_stop
  rw [step_unknown_general hlead hwf htrail hn hend]
  simp [reportError, hthrow, addErr]

/-! ## order: later assignments override earlier ones; sources in the order
mp_options, <exe>_options or <solver>_options, command line -/

/-- **Later overrides earlier.**  Whatever precedes it, the last assignment to a plain option
determines the option's final value. -/
theorem C11_last_wins (cfg : Cfg) (before after : List (Item × Bytes)) (key : Bytes) (sep : Sep) (lit : Lit)
    (trail : Bytes) (d : OptDecl) (ob : Option Bytes) (st : St)
    (hl : lookup cfg.table key = some (d, ob)) (hp : d.plain = true) (hi : d.id < st.slots.length)
    (hafter : ∀ x ∈ after, ∀ d' v, itemTarget cfg x.1 = some (d', v) → d'.id ≠ d.id) :
    ((applyAll cfg (before ++ (.assign key sep lit, trail) :: after) st).slot d.id).val = lit.val := by
  rw [applyAll_append]
  have hlen0 : d.id < (applyAll cfg before st).slots.length := by rw [applyAll_length]; exact hi
  generalize applyAll cfg before st = st0 at hlen0
  have hcons : applyAll cfg ((.assign key sep lit, trail) :: after) st0 =
      applyAll cfg after (applyItem cfg (.assign key sep lit) st0) := by simp [applyAll]
  rw [hcons, slot_val_untouched cfg after d.id _ (by rw [applyItem_length]; exact hlen0) hafter]
  exact (C11_assign_sets_exactly cfg key sep lit st0 d ob hl hp hlen0).1

/-- faithfulness over a sequence of option strings parsed one after the other -/
theorem C11_faithful_sources (cfg : Cfg) (hthrow : cfg.throwing = false) (srcs : List (Bytes × List (Item × Bytes)))
    (hwf : ∀ x ∈ srcs, Blank x.1 ∧ ItemsWF cfg x.2) (st : St) :
    parseMany cfg (srcs.map (fun x => x.1 ++ renderAll x.2)) st =
      (.ok, applyAll cfg (srcs.map (·.2)).flatten st) := by
  induction srcs generalizing st with
  | nil => rfl
  | cons x rest ih =>
    obtain ⟨hb, hi⟩ := hwf x (by simp)
    simp only [List.map_cons, parseMany, C11_faithful cfg hthrow x.2 hi x.1 hb st, List.flatten_cons]
    rw [ih (fun y hy => hwf y (by simp [hy])), applyAll_append]

/-- **Source order.**  `ParseOptions` reads `mp_options`, then `<exe>_options` if set and otherwise
`<solver>_options` (`envSources`, by definition in this order), then the command-line elements; if
every source is a well-formed item text, the result is that of applying all items in exactly this
order (so, with `C11_last_wins`, a later source overrides an earlier one). -/
theorem C11_order (c : Call) (hthrow : c.throwing = false) (st : St)
    (srcEnv srcArg : List (Bytes × List (Item × Bytes)))
    (hE : envSources c = srcEnv.map (fun x => x.1 ++ renderAll x.2))
    (hEwf : ∀ x ∈ srcEnv, Blank x.1 ∧ ItemsWF c.cfgEnv x.2)
    (hA : c.argv.getD [] = srcArg.map (fun x => x.1 ++ renderAll x.2))
    (hAwf : ∀ x ∈ srcArg, Blank x.1 ∧ ItemsWF c.cfgArg x.2) :
    parseOptions c st = (.ok, applyAll c.cfgArg
      ((srcEnv.map (·.2)).flatten ++ (srcArg.map (·.2)).flatten) { st with errs := [] }) := by
  unfold parseOptions
  simp only [hE, hA]
  rw [C11_faithful_sources _ hthrow srcEnv hEwf]
  simp only
  rw [C11_faithful_sources _ hthrow srcArg hAwf, applyAll_append]
  congr 2

/-- the environment sources in the order they are read -/
theorem C11_env_source_order (c : Call) :
    envSources c =
      (getenv c.env mpOptions).toList ++
      (match (if c.exePath.isEmpty then none else getenv c.env (stripExt (fileName c.exePath) ++ suffixOptions)) with
       | some v => [v]
       | none => (getenv c.env (c.solverName ++ suffixOptions)).toList) := rfl

/-! ## lookup: name, synonym (any letter case), wildcard pattern -/

/-- any re-casing of a key is `strcasecmp`-equal to it -/
theorem C11_any_case (mask : List Bool) (b : Bytes) : ciEq (recase mask b) b = true := ciEq_recase mask b

/-- an option is found by its name written in any letter case -/
theorem C11_lookup_name_anycase (t : Table) (hd : NamesDistinct t) (d : OptDecl) (hmem : d ∈ t)
    (hw : d.isWildcard = false) (mask : List Bool) :
    lookup t (recase mask d.name) = some (d, none) :=
  lookup_by_name hd hmem hw (ciEq_recase mask d.name)

/-- an option is found by any of its synonyms written in any letter case, provided no option's
name equals the key (the name has priority) and no option earlier in the set order matches it -/
theorem C11_lookup_synonym_anycase (before after : Table) (d : OptDecl) (syn : Bytes) (mask : List Bool)
    (hs : syn ∈ d.syns)
    (hn : ∀ e ∈ before ++ d :: after, ciEq e.name (recase mask syn) = false)
    (hb : ∀ e ∈ before, e.syns.any (fun s => ciEq (recase mask syn) s) = false ∧
                        wcMatch e.headTails (recase mask syn) = none) :
    lookup (before ++ d :: after) (recase mask syn) = some (d, none) :=
  lookup_by_synonym hn hb hs (ciEq_recase mask syn)

/-- a key `head body tail` addresses the wildcard option `head*tail`; the recorded body is `body` -/
theorem C11_lookup_wildcard (before after : Table) (d : OptDecl) (h body tl : Bytes)
    (hname : d.name = h ++ star :: tl) (hh : ∀ c ∈ h, c ≠ star) (hbody : body ≠ [])
    (hn : ∀ e ∈ before ++ d :: after, ciEq e.name (h ++ (body ++ tl)) = false)
    (hb : ∀ e ∈ before, e.syns.any (fun s => ciEq (h ++ (body ++ tl)) s) = false ∧
                        wcMatch e.headTails (h ++ (body ++ tl)) = none)
    (hs : d.syns.any (fun s => ciEq (h ++ (body ++ tl)) s) = false) :
    lookup (before ++ d :: after) (h ++ (body ++ tl)) = some (d, some body) :=
  lookup_by_wildcard hname hh hbody hn hb hs

/-- the same for **every** pattern of the option — primary name or any synonym, of any shape (head
and tail lengths differing from the primary's, empty tail, empty head): the key `head body tail`
written with the pattern `head*tail` resolves to the option and the recorded key body (the address
of the entry the setter/getter see through `wc_keybody_last()`) is exactly `body`; the condition is
that no pattern listed earlier for the same option matches the key (then that one would cut it). -/
theorem C11_lookup_wildcard_any_pattern (before after : Table) (d : OptDecl) (pre post : List (Bytes × Bytes))
    (h body tl : Bytes) (hht : d.headTails = pre ++ (h, tl) :: post) (hbody : body ≠ [])
    (hpre : ∀ ht ∈ pre, wcMatch1 ht (h ++ (body ++ tl)) = none)
    (hn : ∀ e ∈ before ++ d :: after, ciEq e.name (h ++ (body ++ tl)) = false)
    (hb : ∀ e ∈ before, e.syns.any (fun s => ciEq (h ++ (body ++ tl)) s) = false ∧
                        wcMatch e.headTails (h ++ (body ++ tl)) = none)
    (hs : d.syns.any (fun s => ciEq (h ++ (body ++ tl)) s) = false) :
    lookup (before ++ d :: after) (h ++ (body ++ tl)) = some (d, some body) :=
  lookup_by_wildcard_pattern hht hbody hpre hn hb hs

/-- every synonym pattern `head*tail` of a wildcard option is among the patterns tried, with
exactly this head and tail (so the previous theorem applies to it), and a single pattern cuts the
key `head body tail` to `body` whatever the shapes of the other patterns -/
theorem C11_wildcard_synonym_pattern (d : OptDecl) (hw : d.isWildcard = true) (syn h tl body : Bytes)
    (hsyn : syn ∈ d.syns) (hpat : syn = h ++ star :: tl) (hh : ∀ c ∈ h, c ≠ star) (hbody : body ≠ []) :
    (h, tl) ∈ d.headTails ∧ wcMatch1 (h, tl) (h ++ (body ++ tl)) = some body :=
  ⟨headTails_mem hw (Or.inr hsyn) hpat hh, wcMatch1_pattern h body tl hbody⟩

/-! ## memory safety of the tokeniser: reads bounded by the terminating NUL

History: before ampl/mp 7d345ba `SkipToMatchingQuote` was `while (*s != quote) ++s; return ++s;`.
The statement below was then false; the model had an `Outcome.overread`, and the proved
counterexamples `C11_counterexample_unterminated_quote(_ptr)` (option text `x='`: the scan read
index 4 of a 3-byte string whose NUL is at index 3) were reproduced by this check on the real code
under AddressSanitizer (known finding C11-unterminated-quote-overread, now fixed).
-/

/-- **In bounds.**  Every scanner of the tokeniser — the four `while (*s && …)` loops
(`SkipSpaces`, `SkipNonSpaces`, `SkipToEnd`, the name scan; any byte class `p`) from any position
inside the string, and `SkipToMatchingQuote` followed by the closing-quote skip from any quote
inside the string — reads only indices ≤ the index of the terminating NUL (the pointer machines
return `none` on any read beyond it), ends at a position ≤ that index, and computes exactly what
the list model computes; for every NUL-free buffer. -/
theorem C11_in_bounds (buf : Bytes) (hn : NoNul buf) :
    (∀ (p : UInt8 → Bool) (i : Nat), i ≤ buf.length →
      ∃ j, pScan p buf i = some j ∧ i ≤ j ∧ j ≤ buf.length ∧ buf.drop j = (buf.drop i).dropWhile p) ∧
    (∀ (i : Nat) (hi : i < buf.length),
      ∃ j k, pSkipToMatchingQuote buf i = some j ∧ j ≤ buf.length ∧ pAfterQuote buf j = some k ∧ k ≤ buf.length ∧
        (buf.drop (i + 1)).take (j - (i + 1)) = (skipToMatchingQuote buf[i] (buf.drop (i + 1))).1 ∧
        buf.drop k = (skipToMatchingQuote buf[i] (buf.drop (i + 1))).2) :=
  ⟨fun p i hi => pScan_spec p buf hn i hi, fun i hi => pSkipToMatchingQuote_spec buf hn i hi⟩

/-- On the list model every outcome other than normal termination is an exception of the C++
code (there is no over-read outcome any more): `parseStr` is total and returns one of
ok / logic_error / mp::Error / InvalidOptionValue for every byte string. -/
theorem C11_outcomes (cfg : Cfg) (s : Bytes) (st : St) :
    (parseStr cfg s st).1 = .ok ∨ (parseStr cfg s st).1 = .threwLogic ∨
    (parseStr cfg s st).1 = .threwError ∨ (parseStr cfg s st).1 = .threwInvalid := by
  cases (parseStr cfg s st).1 <;> simp

/-- An unterminated quoted value (the former failing input class) now takes the rest of the
string as the value and parsing ends normally. -/
theorem C11_unterminated_quote_total (cfg : Cfg) (st : St) (lead key body : Bytes) (sep : Sep) (q : UInt8)
    (d : OptDecl) (ob : Option Bytes)
    (hlead : Blank lead) (hkey : KeyOk key) (hsep : sep.WF) (hpre : sep.eq = false → sep.pre ≠ [])
    (hl : lookup cfg.table key = some (d, ob)) (hk : d.kind = .str) (hcl : cfg.cmdLine = false)
    (hq : isQuote q = true) (hb : ∀ c ∈ body, c ≠ q) :
    parseStr cfg (lead ++ (key ++ (sep.render ++ q :: body))) st =
      (.ok, doEcho cfg.noEcho d ((noteMatch d key ob st).modify d.id (setValue d (.str body)))) := by
  have hq' := hq
  simp [isQuote] at hq'
  have f1 : isSpace q = false := by simp [isSpace]; omega
  have hrest : RestOk sep (q :: body) := by
    refine ⟨by simp [StopsAt, f1], fun he => ⟨?_, fun hp => absurd hp (hpre he)⟩⟩
    have : q.toNat ≠ 61 := by omega
    simp [StopsAt, this]
  have hnq : isQuery (q :: body) = false := by
    have : q.toNat ≠ 63 := by omega
    simp [isQuery, this]
  have hstep : step cfg (lead ++ (key ++ (sep.render ++ q :: body))) st =
      .cont [] (doEcho cfg.noEcho d ((noteMatch d key ob st).modify d.id (setValue d (.str body)))) := by
    rw [step_header cfg st hlead hkey hsep hrest, findOption_of_lookup hl]
    simp [hnq, hk, parseValue, hcl, parseStrVal_unterminated hq hb]
  rw [parseStr_cont hstep]
  exact parseStr_done (step_blank_done cfg _ Blank.nil)

def cxTable : Table := buildTable [{ id := 0, name := [120], syns := [], kind := .str },
                                   { id := 1, name := [98, 105, 103], syns := [], kind := .int }]
def cxCfg : Cfg := { table := cxTable, noEcho := true, cmdLine := false, throwing := false }

/-! ## integer values outside `int`

Full-strength statement (FALSE on the code as it exists): an integer literal of any size is
stored exactly or rejected.  `OptionHelper<int>::Parse` narrows `strtol`'s `long` to `int`. -/

/-- **Counterexample.**  `big=3000000000` stores -1294967296 (no error). -/
theorem C11_counterexample_int_wrap :
    (parseInt [51, 48, 48, 48, 48, 48, 48, 48, 48, 48]).1 = -1294967296 := by decide

/-- what is stored for an integer literal of any size: the value clamped to `long`, then wrapped to `int` -/
theorem C11_int_stored_partial (l : IntLit) (hl : l.WF) (tail : Bytes) (ht : StopsAt isDigit tail) :
    parseInt (l.render ++ tail) = (wrap32 (clampLong l.value), tail) ∧
    (-2147483648 ≤ l.value → l.value ≤ 2147483647 → wrap32 (clampLong l.value) = l.value) :=
  ⟨parseInt_lit l hl ht, wrap32_clamp_id⟩

/-! ## non-vacuity -/

def cxSt0 : St := initState [{ id := 0, name := [120], syns := [], kind := .str }, { id := 1, name := [98, 105, 103], syns := [], kind := .int }]

-- BIG (upper case) resolves to the option named `big`
example : (lookup cxTable [66, 73, 71]).map (·.1.id) = some 1 := by decide
-- `z=1`: two unknown keys (`z`, then `1`), no value changes
example : parseStr cxCfg [122, 61, 49] cxSt0 = (.ok, { cxSt0 with errs := [.unknown [49], .unknown [122]] }) := by
  rw [parseStr_cont (s' := [49]) (st' := { cxSt0 with errs := [.unknown [122]] }) (by rfl)]
  rw [parseStr_cont (s' := []) (st' := { cxSt0 with errs := [.unknown [49], .unknown [122]] }) (by rfl)]
  exact parseStr_done (by rfl)
-- quoted string with a blank: x='a b'
example : parseStr cxCfg [120, 61, 39, 97, 32, 98, 39] cxSt0 =
    (.ok, { slots := [{ val := .str [97, 32, 98] }, { val := .int 0 }] }) := by
  rw [parseStr_cont (s' := []) (st' := { slots := [{ val := .str [97, 32, 98] }, { val := .int 0 }] }) (by rfl)]
  exact parseStr_done (by rfl)
-- the hypotheses of C11_faithful are satisfiable: the item list [big = 42] is well-formed for cxCfg
theorem C11_nonvacuous_items_wf : ItemsWF cxCfg [(.assign [98, 105, 103] { pre := [], eq := true, post := [] } (.int { sign := none, ds := [52, 50] }), [])] := by
  have hd : AllDigits [52, 50] := by intro c hc; simp at hc; rcases hc with rfl | rfl <;> decide
  have hk : KeyOk' [98, 105, 103] := ⟨⟨by simp, by decide⟩, by intro c r h; cases h; decide⟩
  refine ⟨⟨hk, ⟨Blank.nil, Blank.nil⟩,
      ⟨{ id := 1, name := [98, 105, 103], syns := [], kind := .int }, none, by rfl, rfl, fun l _ => rfl⟩,
      ⟨⟨by simp, hd⟩, by decide, by decide⟩, by simp, by simp⟩,
    Blank.nil, by simp, by simp [isRawAssign], trivial⟩
-- … so C11_faithful applies to the text `big=42`: it parses to "slot of `big` := 42"
example : parseStr cxCfg ([] ++ renderAll [(.assign [98, 105, 103] { pre := [], eq := true, post := [] } (.int { sign := none, ds := [52, 50] }), [])]) cxSt0
    = (.ok, applyAll cxCfg [(.assign [98, 105, 103] { pre := [], eq := true, post := [] } (.int { sign := none, ds := [52, 50] }), [])] cxSt0) :=
  C11_faithful cxCfg rfl _ C11_nonvacuous_items_wf [] Blank.nil cxSt0
example : (Lit.int { sign := none, ds := [52, 50] }).val = .int 42 := by decide
-- the former over-read input `x='` and `x='ab`: parsed normally, value = rest of the string
example : parseStr cxCfg [120, 61, 39] cxSt0 = (.ok, cxSt0) := by
  rw [parseStr_cont (s' := []) (st' := cxSt0) (by rfl)]
  exact parseStr_done (by rfl)
example : parseStr cxCfg [120, 61, 39, 97, 98] cxSt0 =
    (.ok, { slots := [{ val := .str [97, 98] }, { val := .int 0 }] }) := by
  rw [parseStr_cont (s' := []) (st' := { slots := [{ val := .str [97, 98] }, { val := .int 0 }] }) (by rfl)]
  exact parseStr_done (by rfl)
-- option `obj:*:priority obj_*_priority objpri*`, key `objpri3`: the body is `3` (not `ri3`)
example : (lookup (buildTable [{ id := 0, name := [111,98,106,58,42,58,112], syns := [[111,98,106,95,42,95,112], [111,98,106,112,114,105,42]], kind := .int }])
    [111,98,106,112,114,105,51]).map (·.2) = some (some [51]) := by decide
-- strtod extent: "1.5e3x" consumes 5 bytes, "0x" consumes 1, "nan(1)" consumes 6
example : (parseDbl [49, 46, 53, 101, 51, 120]).2 = [120] := by decide
example : (parseDbl [48, 120]).2 = [120] := by decide
example : (parseDbl [110, 97, 110, 40, 49, 41]).2 = [] := by decide

end MpVerif.C11

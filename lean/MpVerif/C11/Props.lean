import MpVerif.C11.LemmasStep
/-!
# C11 — Solver option parsing is total, faithful and ordered: property theorems

The model (`Model.lean`, `ModelParse.lean`) mirrors `src/solver.cc` / `include/mp/solver-opt.h`
as they are; its agreement with the real code is checked on every run by `checks/c11.py`.
Only property theorems (named `C11_*`) and non-vacuity examples live here.
-/
namespace MpVerif.C11

/-! ## totality: progress and termination -/

/-- Every iteration of the `ParseOptionString` loop that goes on has consumed at least one byte.
(This is the fact that makes Lean accept `parseStr` as a total function: fuel-free well-founded
recursion on the remaining length.) -/
theorem C11_progress (cfg : Cfg) (s s' : Bytes) (st st' : St)
    (h : step cfg s st = .cont s' st') : s'.length < s.length := step_progress h

/-- The loop runs at most `length s` iterations, for every byte string and every table. -/
theorem C11_terminates_within (cfg : Cfg) (s : Bytes) (st : St) : parseIters cfg s st ≤ s.length + 1 := by
  induction hn : s.length using Nat.strongRecOn generalizing s st with
  | _ n ih =>
    rw [parseIters]
    split
    · omega
    · rename_i s' st' h
      have hp := step_progress h
      have := ih s'.length (by omega) s' st' rfl
      omega
    · omega

theorem renderAll_startsItem (cfg : Cfg) (items : List (Item × Bytes)) (h : ItemsWF cfg items) :
    StartsItem (renderAll items) := by
  cases items with
  | nil => trivial
  | cons x rest =>
    obtain ⟨it, trail⟩ := x
    obtain ⟨hwf, _⟩ := h
    have hk : KeyOk' it.key ∧ ∃ X, it.render = it.key ++ X := by
      cases it with
      | assign key sep lit => exact ⟨hwf.1, _, rfl⟩
      | query key sep => exact ⟨hwf.1, _, rfl⟩
      | unknown key pre eq => exact ⟨hwf.1, _, rfl⟩
      | flagArg key pre post junk => exact ⟨hwf.1, _, rfl⟩
    obtain ⟨⟨⟨hne, hkc⟩, hq⟩, X, hX⟩ := hk
    simp only [renderAll, hX]
    cases hkey : it.key with
    | nil => exact absurd hkey hne
    | cons c r =>
      simp only [List.cons_append, StartsItem]
      exact ⟨hkc c (by simp [hkey]), hq c r hkey⟩

/-! ## faithfulness: parse ∘ print = apply -/

/-- **Faithfulness.**  For every option table, every list of well-formed items — assignments
addressed by any key that `lookup` resolves (name or synonym in any letter case, wildcard pattern),
written with or without `=`, with integer (in `int` range), real, quoted or bare string value (or
the rest-of-element string on the command line), flags, `key=?` queries, unknown keys, values
given to flags — separated by blanks, with arbitrary leading blanks: parsing the rendered text
terminates normally in exactly the state obtained by applying the items one after the other.
`applyItem` involves no lexing: it stores the denoted value in the resolved option, records the
echo, or records the error. -/
theorem C11_faithful (cfg : Cfg) (hthrow : cfg.throwing = false) (items : List (Item × Bytes))
    (h : ItemsWF cfg items) (lead : Bytes) (hlead : Blank lead) (st : St) :
    parseStr cfg (lead ++ renderAll items) st = (.ok, applyAll cfg items st) := by
  induction items generalizing lead st with
  | nil =>
    simp only [renderAll, List.append_nil, applyAll, List.foldl_nil]
    exact parseStr_done (step_blank_done cfg st hlead)
  | cons x rest ih =>
    obtain ⟨it, trail⟩ := x
    obtain ⟨hwf, htrail, hsepar, hrawc, hrest⟩ := h
    have hn := renderAll_startsItem cfg rest hrest
    have hend : trail = [] → renderAll rest = [] := by
      intro ht
      cases rest with
      | nil => rfl
      | cons y ys => exact absurd ht (hsepar (by simp))
    have hK : EndsToken (trail ++ renderAll rest) := by
      cases trail with
      | nil => simp [hend rfl, EndsToken, StopsAt]
      | cons c r => simp [EndsToken, StopsAt, htrail.head]
    have happ : applyAll cfg ((it, trail) :: rest) st = applyAll cfg rest (applyItem cfg it st) := by
      simp [applyAll]
    simp only [renderAll]
    rw [happ]
    cases it with
    | assign key sep lit =>
      by_cases hf : lit = .flagOn
      · subst hf
        rw [parseStr_cont (step_flag hlead hwf htrail hn hend)]
        simpa using ih hrest [] Blank.nil (applyItem cfg (.assign key sep .flagOn) st)
      · have hraw : ∀ b, lit = .raw b → StopsAt (fun c => c.toNat != 10) (trail ++ renderAll rest) := by
          intro b hb
          subst hb
          obtain ⟨hs, he⟩ := hrawc rfl
          cases trail with
          | nil => rw [hend rfl]; trivial
          | cons c r => simpa [StopsAt] using hs
        rw [parseStr_cont (step_assign hlead hwf hf hK hraw)]
        exact ih hrest trail htrail _
    | query key sep =>
      rw [parseStr_cont (step_query hlead hwf hK)]
      exact ih hrest trail htrail _
    | unknown key pre eq =>
      rw [parseStr_cont (step_unknown hlead hwf hthrow htrail hn hend)]
      simpa using ih hrest [] Blank.nil (applyItem cfg (.unknown key pre eq) st)
    | flagArg key pre post junk =>
      rw [parseStr_cont (step_flagArg hlead hwf hthrow hK)]
      exact ih hrest trail htrail _

end MpVerif.C11

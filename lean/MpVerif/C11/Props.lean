import MpVerif.C11.ModelParse
/-! # C11 — property theorems (work in progress) -/
namespace MpVerif.C11

/-- Every iteration of the `ParseOptionString` loop that goes on has consumed at least one byte. -/
theorem C11_progress (cfg : Cfg) (s s' : Bytes) (st st' : St)
    (h : step cfg s st = .cont s' st') : s'.length < s.length := step_progress h

end MpVerif.C11

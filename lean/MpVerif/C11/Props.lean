import MpVerif.C11.LemmasState
import MpVerif.C11.LemmasLookup
import MpVerif.C11.ModelPtr
import MpVerif.C11.Expected
import MpVerif.Gen.C11Tok
import MpVerif.C11.LemmasGen
/-!
# C11 — Solver option parsing is total, faithful and ordered: property theorems

The model (`Model.lean`, `ModelParse.lean`) mirrors `src/solver.cc` / `include/mp/solver-opt.h`
as they are; its agreement with the real code is checked on every run by `checks/c11.py`.
Only property theorems (named `C11_*`) and non-vacuity examples live here.
-/
namespace MpVerif.C11

/-! ## totality: progress and termination -/

set_option maxRecDepth 100000 in
/-- Every iteration of the `ParseOptionString` loop that goes on has consumed at least one byte.
(This is the fact that makes Lean accept `parseStr` as a total function: fuel-free well-founded
recursion on the remaining length.) -/
theorem C11_progress (cfg : Cfg) (s s' : Bytes) (st st' : St)
    (h : step cfg s st = .cont s' st') : s'.length < s.length := step_progress h

/-- The loop runs at most `length s` iterations, for every byte string and every table. -/
theorem C11_terminates_within (cfg : Cfg) (s : Bytes) (st : St) : parseIters cfg s st ≤ s.length + 1 := by
  induction hn : s.length using Nat.strongRecOn generalizing s st with
  | _ n ih =>
    rw [parseIters]
    split
    · omega
    · rename_i s' st' h
      have hp := step_progress h
      have := ih s'.length (by omega) s' st' rfl
      omega
    · omega

/-! ## faithfulness: parse ∘ print = apply -/

/-- **Faithfulness.**  For every option table, every list of well-formed items — assignments
addressed by any key that `lookup` resolves (name or synonym in any letter case, wildcard pattern),
written with or without `=`, with integer (in `int` range), real, quoted or bare string value (or
the rest-of-element string on the command line), flags, `key=?` queries, unknown keys, values
given to flags — separated by blanks, with arbitrary leading blanks: parsing the rendered text
terminates normally in exactly the state obtained by applying the items one after the other.
With the default *throwing* error handler the same holds for every list without error items
(unknown key / value given to a flag; for those see `C11_unknown_throws`, `C11_flag_value_throws`).
`applyItem` involves no lexing: it stores the denoted value in the resolved option, records the
echo, or records the error. -/
theorem C11_faithful_general (cfg : Cfg) (items : List (Item × Bytes))
    (hthrow : cfg.throwing = true → ∀ x ∈ items, isErrItem x.1 = false)
    (h : ItemsWF cfg items) (lead : Bytes) (hlead : Blank lead) (st : St) :
    parseStr cfg (lead ++ renderAll items) st = (.ok, applyAll cfg items st) := by
  induction items generalizing lead st with
  | nil =>
    simp only [renderAll, List.append_nil, applyAll, List.foldl_nil]
    exact parseStr_done (step_blank_done cfg st hlead)
  | cons x rest ih =>
    obtain ⟨it, trail⟩ := x
    obtain ⟨hwf, htrail, hsepar, hrawc, hrest⟩ := h
    have hthrow' : cfg.throwing = true → ∀ x ∈ rest, isErrItem x.1 = false :=
      fun ht x hx => hthrow ht x (by simp [hx])
    have hnothrow : isErrItem it = true → cfg.throwing = false := by
      intro he
      cases hc : cfg.throwing with
      | false => rfl
      | true => have := hthrow hc (it, trail) (by simp); simp [he] at this
    have ih := fun hr l hl s => ih hthrow' hr l hl s
    have hn := renderAll_startsItem cfg rest hrest
    have hend : trail = [] → renderAll rest = [] := by
      intro ht
      cases rest with
      | nil => rfl
      | cons y ys => exact absurd ht (hsepar (by simp))
    have hK : EndsToken (trail ++ renderAll rest) := by
      cases trail with
      | nil => simp [hend rfl, EndsToken, StopsAt]
      | cons c r => simp [EndsToken, StopsAt, htrail.head]
    have happ : applyAll cfg ((it, trail) :: rest) st = applyAll cfg rest (applyItem cfg it st) := by
      simp [applyAll]
    simp only [renderAll]
    rw [happ]
    cases it with
    | assign key sep lit =>
      by_cases hf : lit = .flagOn
      · subst hf
        rw [parseStr_cont (step_flag hlead hwf htrail hn hend)]
        simpa using ih hrest [] Blank.nil (applyItem cfg (.assign key sep .flagOn) st)
      · have hraw : ∀ b, lit = .raw b → StopsAt (fun c => c.toNat != 10) (trail ++ renderAll rest) := by
          intro b hb
          subst hb
          obtain ⟨hs, he⟩ := hrawc rfl
          cases trail with
          | nil => rw [hend rfl]; trivial
          | cons c r => simpa [StopsAt] using hs
        rw [parseStr_cont (step_assign hlead hwf hf hK hraw)]
        exact ih hrest trail htrail _
    | query key sep =>
      rw [parseStr_cont (step_query hlead hwf hK)]
      exact ih hrest trail htrail _
    | unknown key pre eq =>
      rw [parseStr_cont (step_unknown hlead hwf (hnothrow rfl) htrail hn hend)]
      simpa using ih hrest [] Blank.nil (applyItem cfg (.unknown key pre eq) st)
    | flagArg key pre post junk =>
      rw [parseStr_cont (step_flagArg hlead hwf (hnothrow rfl) hK)]
      exact ih hrest trail htrail _

/-- `C11_faithful_general` with an error handler that returns (any items) -/
theorem C11_faithful (cfg : Cfg) (hthrow : cfg.throwing = false) (items : List (Item × Bytes))
    (h : ItemsWF cfg items) (lead : Bytes) (hlead : Blank lead) (st : St) :
    parseStr cfg (lead ++ renderAll items) st = (.ok, applyAll cfg items st) :=
  C11_faithful_general cfg items (fun ht => by rw [hthrow] at ht; cases ht) h lead hlead st

/-! ## exactly that option, exactly that value -/

/-- An assignment stores the written value in the slot of the option the key resolves to (a plain
option) and changes the value of no other slot. -/
theorem C11_assign_sets_exactly (cfg : Cfg) (key : Bytes) (sep : Sep) (lit : Lit) (st : St)
    (d : OptDecl) (ob : Option Bytes) (hl : lookup cfg.table key = some (d, ob)) (hp : d.plain = true)
    (hi : d.id < st.slots.length) :
    ((applyItem cfg (.assign key sep lit) st).slot d.id).val = lit.val ∧
    ∀ j, j < st.slots.length → j ≠ d.id →
      ((applyItem cfg (.assign key sep lit) st).slot j).val = (st.slot j).val := by
  constructor
  · rw [slot_val_applyItem cfg _ st d.id hi]; simp [itemTarget, hl, hp]
  · intro j hj hne
    rw [slot_val_applyItem cfg _ st j hj]; simp [itemTarget, hl, Ne.symm hne]

/-- Stronger form: every *other* slot is left entirely unchanged (value, wildcard/list record, wildcard state),
and no error is recorded. -/
theorem C11_assign_touches_only_target (cfg : Cfg) (key : Bytes) (sep : Sep) (lit : Lit) (st : St)
    (d : OptDecl) (ob : Option Bytes) (hl : lookup cfg.table key = some (d, ob)) :
    (∀ j, j ≠ d.id → (applyItem cfg (.assign key sep lit) st).slot j = st.slot j) ∧
    (applyItem cfg (.assign key sep lit) st).errs = st.errs := by
  simp only [applyItem, findOption_of_lookup hl]
  constructor
  · intro j hj
    rw [slot_doEcho, slot_modify_other _ _ (Ne.symm hj)]
    cases ob with
    | none => rfl
    | some b => simp only [noteMatch]; rw [slot_modify_other _ _ (Ne.symm hj)]
  · rw [(values_doEcho _ _ _).2.1]
    simp only [St.modify]
    exact (values_noteMatch d key ob st).2.1

/-- An assignment to a wildcard option written with any of its patterns records exactly the entry
(key body ↦ value): the record grows by `(body, value)` with the body the lookup cut out of the key, and the
getter (what the echo and a following `key=?` show for that body) returns the value. -/
theorem C11_assign_sets_entry (cfg : Cfg) (key : Bytes) (sep : Sep) (lit : Lit) (st : St)
    (d : OptDecl) (body : Bytes) (hl : lookup cfg.table key = some (d, some body)) (hlog : d.logged = true)
    (hi : d.id < st.slots.length) :
    ((applyItem cfg (.assign key sep lit) st).slot d.id).log = (body, lit.val) :: (st.slot d.id).log ∧
    getValue d ((applyItem cfg (.assign key sep lit) st).slot d.id) = lit.val := by
  simp only [applyItem, findOption_of_lookup hl, slot_doEcho, noteMatch]
  have hi1 : d.id < (st.modify d.id fun sl => { sl with wcKey := key, wcBody := body }).slots.length := by
    rw [modify_length]; exact hi
  rw [slot_modify_same _ _ hi1, slot_modify_same _ _ hi]
  simp [setValue, getValue, hlog]

/-- The route `OnlyPatternKeys` excludes, characterised: a recording option addressed by a plain name or
synonym (a list option; or a wildcard option through a synonym *without* `*`, or through the literal text of a
synonym pattern such as `obj_*_priority`, which `FindOption` compares case-insensitively before trying
`wc_match`) records the value under the key body left by the LAST wildcard match (`wc_body_last_`; empty if
there was none).  For a list option that is the intended behaviour (the body is never set); for a wildcard
option it means the assignment lands on whatever entry was addressed last — the model mirrors the code here
(observation in design_notes/C11.md, with a possible two-line fix). -/
theorem C11_plain_key_records_under_last_body (cfg : Cfg) (key : Bytes) (sep : Sep) (lit : Lit) (st : St)
    (d : OptDecl) (hl : lookup cfg.table key = some (d, none)) (hlog : d.logged = true)
    (hi : d.id < st.slots.length) :
    ((applyItem cfg (.assign key sep lit) st).slot d.id).log =
      ((st.slot d.id).wcBody, lit.val) :: (st.slot d.id).log := by
  simp only [applyItem, findOption_of_lookup hl, slot_doEcho, noteMatch]
  rw [slot_modify_same _ _ hi]
  simp [setValue, hlog]

/-- an integer literal in `int` range denotes its mathematical value, e.g. the usual decimal
rendering of `v` -/
theorem C11_int_literal_value (v : Int) : (intLitOf v).WF ∧ (intLitOf v).value = v :=
  ⟨intLitOf_wf v, intLitOf_value v⟩

/-! ## `name=?`, unknown names, values given to flags: no option value changes -/

/-- `key=?` leaves every option value (and the error list) unchanged; with echo enabled one line
is printed. -/
theorem C11_query_inert (cfg : Cfg) (key : Bytes) (sep : Sep) (st : St) :
    (applyItem cfg (.query key sep) st).values = st.values ∧
    (applyItem cfg (.query key sep) st).errs = st.errs := by
  simp only [applyItem, findOption]
  cases hl : lookup cfg.table key with
  | none => simp
  | some r =>
    simp only [Option.map_some]
    exact ⟨by rw [(values_doEcho _ _ _).1, (values_noteMatch _ _ _ _).1],
           by rw [(values_doEcho _ _ _).2.1, (values_noteMatch _ _ _ _).2.1]⟩

/-- the same on the text: parsing `blanks key [=] ? blanks` ends normally with all values and
the error list unchanged -/
theorem C11_query_inert_parse (cfg : Cfg) (hthrow : cfg.throwing = false) (key : Bytes) (sep : Sep)
    (hwf : (Item.query key sep).WF cfg) (lead trail : Bytes) (hlead : Blank lead) (htrail : Blank trail) (st : St) :
    (parseStr cfg (lead ++ (key ++ (sep.render ++ [63]) ++ trail)) st).1 = .ok ∧
    (parseStr cfg (lead ++ (key ++ (sep.render ++ [63]) ++ trail)) st).2.values = st.values ∧
    (parseStr cfg (lead ++ (key ++ (sep.render ++ [63]) ++ trail)) st).2.errs = st.errs := by
  have h := C11_faithful cfg hthrow [(.query key sep, trail)]
    ⟨hwf, htrail, by simp, by simp [isRawAssign], trivial⟩ lead hlead st
  simp only [renderAll, Item.render, List.append_nil] at h
  rw [h]
  simp only [applyAll, List.foldl_cons, List.foldl_nil]
  exact ⟨trivial, C11_query_inert cfg key sep st⟩

/-- An unknown name is reported as an error (the list grows by exactly that error, so
`ParseOptions` returns false) and no option value changes. -/
theorem C11_unknown_inert (cfg : Cfg) (hthrow : cfg.throwing = false) (key pre : Bytes) (eq : Bool)
    (hwf : (Item.unknown key pre eq).WF cfg) (lead trail : Bytes) (hlead : Blank lead) (htrail : Blank trail) (st : St) :
    parseStr cfg (lead ++ ((Item.unknown key pre eq).render ++ trail)) st = (.ok, addErr (.unknown key) st) ∧
    (addErr (.unknown key) st).values = st.values ∧ (addErr (.unknown key) st).errs = .unknown key :: st.errs := by
  have h := C11_faithful cfg hthrow [(.unknown key pre eq, trail)]
    ⟨hwf, htrail, by simp, by simp [isRawAssign], trivial⟩ lead hlead st
  simp only [renderAll, List.append_nil] at h
  exact ⟨by rw [h]; simp [applyAll, applyItem], rfl, rfl⟩

/-- A value given to a flag is reported as an error, the value token is skipped, and no option
value changes (in particular the flag is not set). -/
theorem C11_flag_value_inert (cfg : Cfg) (hthrow : cfg.throwing = false) (key pre post junk : Bytes)
    (hwf : (Item.flagArg key pre post junk).WF cfg) (lead trail : Bytes) (hlead : Blank lead) (htrail : Blank trail) (st : St) :
    (parseStr cfg (lead ++ ((Item.flagArg key pre post junk).render ++ trail)) st).1 = .ok ∧
    (parseStr cfg (lead ++ ((Item.flagArg key pre post junk).render ++ trail)) st).2.values = st.values ∧
    (parseStr cfg (lead ++ ((Item.flagArg key pre post junk).render ++ trail)) st).2.errs = .flagArg key :: st.errs := by
  have h := C11_faithful cfg hthrow [(.flagArg key pre post junk, trail)]
    ⟨hwf, htrail, by simp, by simp [isRawAssign], trivial⟩ lead hlead st
  simp only [renderAll, List.append_nil] at h
  rw [h]
  obtain ⟨_, _, _, ⟨d, ob, hlk, _⟩, _⟩ := hwf
  simp only [applyAll, List.foldl_cons, List.foldl_nil, applyItem, findOption_of_lookup hlk, addErr]
  exact ⟨trivial, (values_noteMatch d key ob st).1, by rw [(values_noteMatch d key ob st).2.1]⟩

/-- With the default (throwing) error handler the first unknown name ends the parse by an
exception (`mp::Error`); the option values are those reached so far. -/
theorem C11_unknown_throws (cfg : Cfg) (hthrow : cfg.throwing = true) (key pre : Bytes) (eq : Bool)
    (hwf : (Item.unknown key pre eq).WF cfg) (lead trail n : Bytes) (hlead : Blank lead) (htrail : Blank trail)
    (hn : StartsItem n) (hend : trail = [] → n = []) (st : St) :
    parseStr cfg (lead ++ ((Item.unknown key pre eq).render ++ (trail ++ n))) st =
      (.threwError, addErr (.unknown key) st) := by
  apply parseStr_stop
  rw [step_unknown_general hlead hwf htrail hn hend]
  simp [reportError, hthrow, addErr]

/-- With the default (throwing) error handler a value given to a flag ends the parse by an
exception (`mp::Error`); no option value has changed. -/
theorem C11_flag_value_throws (cfg : Cfg) (hthrow : cfg.throwing = true) (key pre post junk : Bytes)
    (hwf : (Item.flagArg key pre post junk).WF cfg) (lead trail n : Bytes) (hlead : Blank lead)
    (hK : EndsToken (trail ++ n)) (st : St) :
    (parseStr cfg (lead ++ ((Item.flagArg key pre post junk).render ++ (trail ++ n))) st).1 = .threwError ∧
    (parseStr cfg (lead ++ ((Item.flagArg key pre post junk).render ++ (trail ++ n))) st).2.values = st.values ∧
    (parseStr cfg (lead ++ ((Item.flagArg key pre post junk).render ++ (trail ++ n))) st).2.errs = .flagArg key :: st.errs := by
  obtain ⟨d, ob, hlk, hstep⟩ := step_flagArg_general (st := st) hlead hwf hK
  have : step cfg (lead ++ ((Item.flagArg key pre post junk).render ++ (trail ++ n))) st =
      .stop .threwError (addErr (.flagArg key) (noteMatch d key ob st)) := by
    rw [hstep]; simp [reportError, hthrow, addErr]
  rw [parseStr_stop this]
  exact ⟨rfl, (values_noteMatch d key ob st).1, by simp [addErr, (values_noteMatch d key ob st).2.1]⟩

/-! ## order: later assignments override earlier ones; sources in the order
mp_options, <exe>_options or <solver>_options, command line -/

/-- **Later overrides earlier.**  Whatever precedes it, the last assignment to a plain option
determines the option's final value. -/
theorem C11_last_wins (cfg : Cfg) (before after : List (Item × Bytes)) (key : Bytes) (sep : Sep) (lit : Lit)
    (trail : Bytes) (d : OptDecl) (ob : Option Bytes) (st : St)
    (hl : lookup cfg.table key = some (d, ob)) (hp : d.plain = true) (hi : d.id < st.slots.length)
    (hafter : ∀ x ∈ after, ∀ d' v, itemTarget cfg x.1 = some (d', v) → d'.id ≠ d.id) :
    ((applyAll cfg (before ++ (.assign key sep lit, trail) :: after) st).slot d.id).val = lit.val := by
  rw [applyAll_append]
  have hlen0 : d.id < (applyAll cfg before st).slots.length := by rw [applyAll_length]; exact hi
  generalize applyAll cfg before st = st0 at hlen0
  have hcons : applyAll cfg ((.assign key sep lit, trail) :: after) st0 =
      applyAll cfg after (applyItem cfg (.assign key sep lit) st0) := by simp [applyAll]
  rw [hcons, slot_val_untouched cfg after d.id _ (by rw [applyItem_length]; exact hlen0) hafter]
  exact (C11_assign_sets_exactly cfg key sep lit st0 d ob hl hp hlen0).1

/-- faithfulness over a sequence of option strings parsed one after the other -/
theorem C11_faithful_sources (cfg : Cfg) (hthrow : cfg.throwing = false) (srcs : List (Bytes × List (Item × Bytes)))
    (hwf : ∀ x ∈ srcs, Blank x.1 ∧ ItemsWF cfg x.2) (st : St) :
    parseMany cfg (srcs.map (fun x => x.1 ++ renderAll x.2)) st =
      (.ok, applyAll cfg (srcs.map (·.2)).flatten st) := by
  induction srcs generalizing st with
  | nil => rfl
  | cons x rest ih =>
    obtain ⟨hb, hi⟩ := hwf x (by simp)
    simp only [List.map_cons, parseMany, C11_faithful cfg hthrow x.2 hi x.1 hb st, List.flatten_cons]
    rw [ih (fun y hy => hwf y (by simp [hy])), applyAll_append]

/-- **Source order.**  `ParseOptions` reads `mp_options`, then `<exe>_options` if set and otherwise
`<solver>_options` (`envSources`, by definition in this order), then the command-line elements; if
every source is a well-formed item text, the result is that of applying all items in exactly this
order (so, with `C11_last_wins`, a later source overrides an earlier one). -/
theorem C11_order (c : Call) (hthrow : c.throwing = false) (st : St)
    (srcEnv srcArg : List (Bytes × List (Item × Bytes)))
    (hE : envSources c = srcEnv.map (fun x => x.1 ++ renderAll x.2))
    (hEwf : ∀ x ∈ srcEnv, Blank x.1 ∧ ItemsWF c.cfgEnv x.2)
    (hA : c.argv.getD [] = srcArg.map (fun x => x.1 ++ renderAll x.2))
    (hAwf : ∀ x ∈ srcArg, Blank x.1 ∧ ItemsWF c.cfgArg x.2) :
    parseOptions c st = (.ok, applyAll c.cfgArg
      ((srcEnv.map (·.2)).flatten ++ (srcArg.map (·.2)).flatten) { st with errs := [] }) := by
  unfold parseOptions
  simp only [hE, hA]
  rw [C11_faithful_sources _ hthrow srcEnv hEwf]
  simp only
  rw [C11_faithful_sources _ hthrow srcArg hAwf, applyAll_append]
  congr 2

/-- **History of a wildcard option.**  For every list of items and every state: the record kept for the
wildcard option that owns slot `i` is, after all items, exactly the list of the `(key body, value)` assignments
made to it through any of its patterns, in order (newest first, on top of the initial record) — whatever else the
list contains (assignments to other options and other slots, queries, unknown keys, errors), and however the
bodies interleave.  `OnlyPatternKeys`: the option is not also addressed by a plain name/synonym (that route
would record under the stale `wc_body_last_`). -/
theorem C11_wildcard_history (cfg : Cfg) (items : List (Item × Bytes)) (i : Nat) (st : St)
    (hi : i < st.slots.length) (hk : OnlyPatternKeys cfg i items) :
    ((applyAll cfg items st).slot i).log =
      (items.filterMap (fun x => wcAssign cfg i x.1)).reverse ++ (st.slot i).log := by
  induction items generalizing st with
  | nil => simp [applyAll]
  | cons x rest ih =>
    have hk' : OnlyPatternKeys cfg i rest := fun y hy => hk y (by simp [hy])
    have hx := slot_log_applyItem cfg x.1 st i hi (fun key sep lit d h1 h2 h3 => hk x (by simp) key sep lit d h1 h2 h3)
    have hcons : applyAll cfg (x :: rest) st = applyAll cfg rest (applyItem cfg x.1 st) := by simp [applyAll]
    rw [hcons, ih (applyItem cfg x.1 st) (by rw [applyItem_length]; exact hi) hk', hx]
    cases hw : wcAssign cfg i x.1 with
    | none => simp [hw]
    | some e => simp [hw]

/-- **Later overrides earlier, per entry and across spellings.**  What the getter finds for key body `b`
(`getValue` looks up the newest record with that body) after all items is the value of the LAST assignment made
to body `b` through any pattern of the option; assignments to other bodies in between do not matter; if there
was none, the entry is as before. -/
theorem C11_wildcard_entry_last_wins (cfg : Cfg) (items : List (Item × Bytes)) (i : Nat) (st : St) (b : Bytes)
    (hi : i < st.slots.length) (hk : OnlyPatternKeys cfg i items) :
    ((applyAll cfg items st).slot i).log.find? (fun e => e.1 == b) =
      (((items.filterMap (fun x => wcAssign cfg i x.1)).filter (fun e => e.1 == b)).getLast?).or
        ((st.slot i).log.find? (fun e => e.1 == b)) := by
  rw [C11_wildcard_history cfg items i st hi hk]
  exact find_reverse_append _ _ _

/-- **A later source overrides an earlier one.**  Under the hypotheses of `C11_order`: if the last
assignment to a plain option `d` among the command-line items is `key [=] lit`, the option's final
value is `lit`'s, whatever `mp_options` and `<solver>_options` assigned to it (likewise, by the same
theorems, `<solver>_options` over `mp_options`). -/
theorem C11_command_line_overrides_env (c : Call) (hthrow : c.throwing = false) (st : St)
    (srcEnv srcArg : List (Bytes × List (Item × Bytes)))
    (hE : envSources c = srcEnv.map (fun x => x.1 ++ renderAll x.2))
    (hEwf : ∀ x ∈ srcEnv, Blank x.1 ∧ ItemsWF c.cfgEnv x.2)
    (hA : c.argv.getD [] = srcArg.map (fun x => x.1 ++ renderAll x.2))
    (hAwf : ∀ x ∈ srcArg, Blank x.1 ∧ ItemsWF c.cfgArg x.2)
    (before after : List (Item × Bytes)) (key : Bytes) (sep : Sep) (lit : Lit) (trail : Bytes)
    (hsplit : (srcArg.map (·.2)).flatten = before ++ (.assign key sep lit, trail) :: after)
    (d : OptDecl) (ob : Option Bytes) (hl : lookup c.table key = some (d, ob)) (hp : d.plain = true)
    (hi : d.id < st.slots.length)
    (hafter : ∀ x ∈ after, ∀ d' v, itemTarget c.cfgArg x.1 = some (d', v) → d'.id ≠ d.id) :
    (((parseOptions c st).2).slot d.id).val = lit.val ∧ (parseOptions c st).1 = .ok := by
  rw [C11_order c hthrow st srcEnv srcArg hE hEwf hA hAwf, hsplit, ← List.append_assoc]
  exact ⟨C11_last_wins c.cfgArg _ after key sep lit trail d ob { st with errs := [] } hl hp hi hafter, rfl⟩

/-- **Option files.**  If the lines `ProcessLines_AvoidComments` hands over are well-formed item texts,
reading the file (`tech:optionfile=<name>`, at any nesting depth still allowed) has exactly the effect of
applying the file's items in order, after the name was saved. -/
theorem C11_optionfile_faithful (c : Call) (hthrow : c.throwing = false) (n : Nat) (name content : Bytes)
    (hfile : c.files.find? (fun f => f.1 == name) = some (name, content))
    (srcs : List (Bytes × List (Item × Bytes)))
    (hlines : fileLines content = srcs.map (fun x => x.1 ++ renderAll x.2))
    (hwf : ∀ x ∈ srcs, Blank x.1 ∧ ItemsWF (c.cfgFile n) x.2)
    (save : St → St) (st : St) :
    fileLevel c (n + 1) name save st =
      (.ok, applyAll (c.cfgFile n) (srcs.map (·.2)).flatten (save st)) := by
  simp only [fileLevel, hfile, hlines]
  exact C11_faithful_sources _ hthrow srcs hwf (save st)

/-- beyond 32 nested option files (ampl/mp 5ace2c7) `mp::Error` is raised and nothing is read or saved: in
particular a file that names itself ends with an error -/
theorem C11_optionfile_nesting_limit (c : Call) (name : Bytes) (save : St → St) (st : St) :
    fileLevel c 0 name save st = (.threwError, { st with errs := .fileNesting name :: st.errs }) := rfl

/-- the environment sources in the order they are read -/
theorem C11_env_source_order (c : Call) :
    envSources c =
      (getenv c.env mpOptions).toList ++
      (match (if c.exePath.isEmpty then none else getenv c.env (stripExt (fileName c.exePath) ++ suffixOptions)) with
       | some v => [v]
       | none => (getenv c.env (c.solverName ++ suffixOptions)).toList) := rfl

/-! ## lookup: name, synonym (any letter case), wildcard pattern -/

/-- any re-casing of a key is `strcasecmp`-equal to it -/
theorem C11_any_case (mask : List Bool) (b : Bytes) : ciEq (recase mask b) b = true := ciEq_recase mask b

/-- an option is found by its name written in any letter case -/
theorem C11_lookup_name_anycase (t : Table) (hd : NamesDistinct t) (d : OptDecl) (hmem : d ∈ t)
    (hw : d.isWildcard = false) (mask : List Bool) :
    lookup t (recase mask d.name) = some (d, none) :=
  lookup_by_name hd hmem hw (ciEq_recase mask d.name)

/-- an option is found by any of its synonyms written in any letter case, provided no option's
name equals the key (the name has priority) and no option earlier in the set order matches it -/
theorem C11_lookup_synonym_anycase (before after : Table) (d : OptDecl) (syn : Bytes) (mask : List Bool)
    (hs : syn ∈ d.syns) (hw : d.isWildcard = false)
    (hn : ∀ e ∈ before ++ d :: after, ciEq e.name (recase mask syn) = false)
    (hb : ∀ e ∈ before, e.syns.any (fun s => ciEq (recase mask syn) s) = false ∧
                        wcMatch e.headTails (recase mask syn) = none) :
    lookup (before ++ d :: after) (recase mask syn) = some (d, none) :=
  lookup_by_synonym hn hb hs (ciEq_recase mask syn) hw

/-- a key `head body tail` addresses the wildcard option `head*tail`; the recorded body is `body` -/
theorem C11_lookup_wildcard (before after : Table) (d : OptDecl) (h body tl : Bytes)
    (hname : d.name = h ++ star :: tl) (hh : ∀ c ∈ h, c ≠ star) (hbody : body ≠ [])
    (hn : ∀ e ∈ before ++ d :: after, ciEq e.name (h ++ (body ++ tl)) = false)
    (hb : ∀ e ∈ before, e.syns.any (fun s => ciEq (h ++ (body ++ tl)) s) = false ∧
                        wcMatch e.headTails (h ++ (body ++ tl)) = none)
    (hs : d.syns.any (fun s => ciEq (h ++ (body ++ tl)) s) = false) :
    lookup (before ++ d :: after) (h ++ (body ++ tl)) = some (d, some body) :=
  lookup_by_wildcard hname hh hbody hn hb hs

/-- the same for **every** pattern of the option — primary name or any synonym, of any shape (head
and tail lengths differing from the primary's, empty tail, empty head): the key `head body tail`
written with the pattern `head*tail` resolves to the option and the recorded key body (the address
of the entry the setter/getter see through `wc_keybody_last()`) is exactly `body`; the condition is
that no pattern listed earlier for the same option matches the key (then that one would cut it). -/
theorem C11_lookup_wildcard_any_pattern (before after : Table) (d : OptDecl) (pre post : List (Bytes × Bytes))
    (h body tl : Bytes) (hht : d.headTails = pre ++ (h, tl) :: post) (hbody : body ≠ [])
    (hpre : ∀ ht ∈ pre, wcMatch1 ht (h ++ (body ++ tl)) = none)
    (hn : ∀ e ∈ before ++ d :: after, ciEq e.name (h ++ (body ++ tl)) = false)
    (hb : ∀ e ∈ before, e.syns.any (fun s => ciEq (h ++ (body ++ tl)) s) = false ∧
                        wcMatch e.headTails (h ++ (body ++ tl)) = none)
    (hs : d.syns.any (fun s => ciEq (h ++ (body ++ tl)) s) = false) :
    lookup (before ++ d :: after) (h ++ (body ++ tl)) = some (d, some body) :=
  lookup_by_wildcard_pattern hht hbody hpre hn hb hs

/-- every synonym pattern `head*tail` of a wildcard option is among the patterns tried, with
exactly this head and tail (so the previous theorem applies to it), and a single pattern cuts the
key `head body tail` to `body` whatever the shapes of the other patterns -/
theorem C11_wildcard_synonym_pattern (d : OptDecl) (hw : d.isWildcard = true) (syn h tl body : Bytes)
    (hsyn : syn ∈ d.syns) (hpat : syn = h ++ star :: tl) (hh : ∀ c ∈ h, c ≠ star) (hbody : body ≠ []) :
    (h, tl) ∈ d.headTails ∧ wcMatch1 (h, tl) (h ++ (body ++ tl)) = some body :=
  ⟨headTails_mem hw (Or.inr hsyn) hpat hh, wcMatch1_pattern h body tl hbody⟩

/-- The primary name pattern of a wildcard option typed literally (in any letter case) is an unknown key
("a wildcard pattern itself is not a key": `if ((*i)->is_wildcard() && wildcardvalues) return 0`). -/
theorem C11_wildcard_name_literal_unknown (t : Table) (hd : NamesDistinct t) (d : OptDecl) (hmem : d ∈ t)
    (hw : d.isWildcard = true) (key : Bytes) (hk : ciEq key d.name = true) : lookup t key = none := by
  simp [lookup, find_name hd hmem hk, hw]

/-- … and so is the literal text of any of its SYNONYM patterns (or a star-less synonym), in any letter case
(ampl/mp 084cb26): the key is unknown, nothing is stored.

History: before 084cb26 `FindOption` had no wildcard test in the synonym branch; this statement was false —
`C11_counterexample_literal_synonym` (option `o:*` with synonym `p*`: the key `p*` resolved to the option with no
body, and by `C11_plain_key_records_under_last_body` the value landed on the entry addressed before:
`obj:2:priority=5 obj_*_priority=3` set entry 2 to 3).  Found by this check (regression case `cx5`), known finding
C11-wildcard-literal-synonym, now fixed. -/
theorem C11_wildcard_synonym_literal_unknown (before after : Table) (d : OptDecl) (syn key : Bytes)
    (hw : d.isWildcard = true) (hs : syn ∈ d.syns) (hk : ciEq key syn = true)
    (hn : ∀ e ∈ before ++ d :: after, ciEq e.name key = false)
    (hb : ∀ e ∈ before, e.syns.any (fun s => ciEq key s) = false ∧ wcMatch e.headTails key = none) :
    lookup (before ++ d :: after) key = none :=
  lookup_synonym_of_wildcard hn hb hs hk hw

/-- consequently a key that resolves WITHOUT a wildcard body never denotes a wildcard option: the stale-body
route of `C11_plain_key_records_under_last_body` is open to list options only -/
theorem C11_plain_key_never_wildcard (t : Table) (key : Bytes) (d : OptDecl)
    (h : lookup t key = some (d, none)) : d.isWildcard = false :=
  lookup_none_body h

-- the former counterexample, on the current model: `p*` and `o:*` are both unknown keys
example : lookup (buildTable [{ id := 0, name := [111, 58, 42], syns := [[112, 42]], kind := .int }]) [112, 42] = none ∧
    lookup (buildTable [{ id := 0, name := [111, 58, 42], syns := [[112, 42]], kind := .int }]) [111, 58, 42] = none :=
  ⟨by rfl, by rfl⟩

/-! ## memory safety of the tokeniser: reads bounded by the terminating NUL

History: before ampl/mp 7d345ba `SkipToMatchingQuote` was `while (*s != quote) ++s; return ++s;`.
The statement below was then false; the model had an `Outcome.overread`, and the proved
counterexamples `C11_counterexample_unterminated_quote(_ptr)` (option text `x='`: the scan read
index 4 of a 3-byte string whose NUL is at index 3) were reproduced by this check on the real code
under AddressSanitizer (known finding C11-unterminated-quote-overread, now fixed).
-/

/-- **In bounds.**  Every scanner of the tokeniser — the four `while (*s && …)` loops
(`SkipSpaces`, `SkipNonSpaces`, `SkipToEnd`, the name scan; any byte class `p`) from any position
inside the string, and `SkipToMatchingQuote` followed by the closing-quote skip from any quote
inside the string — reads only indices ≤ the index of the terminating NUL (the pointer machines
return `none` on any read beyond it), ends at a position ≤ that index, and computes exactly what
the list model computes; for every NUL-free buffer. -/
theorem C11_in_bounds (buf : Bytes) (hn : NoNul buf) :
    (∀ (p : UInt8 → Bool) (i : Nat), i ≤ buf.length →
      ∃ j, pScan p buf i = some j ∧ i ≤ j ∧ j ≤ buf.length ∧ buf.drop j = (buf.drop i).dropWhile p) ∧
    (∀ (i : Nat) (hi : i < buf.length),
      ∃ j k, pSkipToMatchingQuote buf i = some j ∧ j ≤ buf.length ∧ pAfterQuote buf j = some k ∧ k ≤ buf.length ∧
        (buf.drop (i + 1)).take (j - (i + 1)) = (skipToMatchingQuote buf[i] (buf.drop (i + 1))).1 ∧
        buf.drop k = (skipToMatchingQuote buf[i] (buf.drop (i + 1))).2) :=
  ⟨fun p i hi => pScan_spec p buf hn i hi, fun i hi => pSkipToMatchingQuote_spec buf hn i hi⟩

/-- On the list model every outcome other than normal termination is an exception of the C++
code (there is no over-read outcome any more): `parseStr` is total and returns one of
ok / logic_error / mp::Error / InvalidOptionValue for every byte string. -/
theorem C11_outcomes (cfg : Cfg) (s : Bytes) (st : St) :
    (parseStr cfg s st).1 = .ok ∨ (parseStr cfg s st).1 = .threwLogic ∨
    (parseStr cfg s st).1 = .threwError ∨ (parseStr cfg s st).1 = .threwInvalid := by
  cases (parseStr cfg s st).1 <;> simp

/-- An unterminated quoted value (the former failing input class) now takes the rest of the
string as the value and parsing ends normally. -/
theorem C11_unterminated_quote_total (cfg : Cfg) (st : St) (lead key body : Bytes) (sep : Sep) (q : UInt8)
    (d : OptDecl) (ob : Option Bytes)
    (hlead : Blank lead) (hkey : KeyOk key) (hsep : sep.WF) (hpre : sep.eq = false → sep.pre ≠ [])
    (hl : lookup cfg.table key = some (d, ob)) (hk : d.kind = .str) (hcl : cfg.cmdLine = false)
    (hq : isQuote q = true) (hb : ∀ c ∈ body, c ≠ q) :
    parseStr cfg (lead ++ (key ++ (sep.render ++ q :: body))) st =
      (.ok, doEcho cfg.noEcho d ((noteMatch d key ob st).modify d.id (setValue d (.str body)))) := by
  have hq' := hq
  simp [isQuote] at hq'
  have f1 : isSpace q = false := by simp [isSpace]; omega
  have hrest : RestOk sep (q :: body) := by
    refine ⟨by simp [StopsAt, f1], fun he => ⟨?_, fun hp => absurd hp (hpre he)⟩⟩
    have : q.toNat ≠ 61 := by omega
    simp [StopsAt, this]
  have hnq : isQuery (q :: body) = false := by
    have : q.toNat ≠ 63 := by omega
    simp [isQuery, this]
  have hstep : step cfg (lead ++ (key ++ (sep.render ++ q :: body))) st =
      .cont [] (doEcho cfg.noEcho d ((noteMatch d key ob st).modify d.id (setValue d (.str body)))) := by
    rw [step_header cfg st hlead hkey hsep hrest, findOption_of_lookup hl]
    simp [hnq, hk, parseValue, hcl, parseStrVal_unterminated hq hb]
  rw [parseStr_cont hstep]
  exact parseStr_done (step_blank_done cfg _ Blank.nil)

def cxTable : Table := buildTable [{ id := 0, name := [120], syns := [], kind := .str },
                                   { id := 1, name := [98, 105, 103], syns := [], kind := .int }]
def cxCfg : Cfg := { table := cxTable, noEcho := true, cmdLine := false, throwing := false }

/-! ## integer values outside `int`

Full-strength statement (FALSE on the code as it exists): an integer literal of any size is
stored exactly or rejected.  `OptionHelper<int>::Parse` narrows `strtol`'s `long` to `int`. -/

/-- **Counterexample.**  `big=3000000000` stores -1294967296 (no error). -/
theorem C11_counterexample_int_wrap :
    (parseInt [51, 48, 48, 48, 48, 48, 48, 48, 48, 48]).1 = -1294967296 := by decide

/-- what is stored for an integer literal of any size: the value clamped to `long`, then wrapped to `int` -/
theorem C11_int_stored_partial (l : IntLit) (hl : l.WF) (tail : Bytes) (ht : StopsAt isDigit tail) :
    parseInt (l.render ++ tail) = (wrap32 (clampLong l.value), tail) ∧
    (-2147483648 ≤ l.value → l.value ≤ 2147483647 → wrap32 (clampLong l.value) = l.value) :=
  ⟨parseInt_lit l hl ht, wrap32_clamp_id⟩

/-! ## tie to the source: definitions regenerated from `src/solver.cc` / `solver-opt.h` on every run

`MpVerif.Gen.C11Tok` is emitted by `translators/gen_c11.py` from clang's typed AST of the current tree.  The theorems
below state that the hand model's character classes, loop conditions, dispatch tests and integer conversion ARE the
generated ones (for every byte), and that the statement structure of every function the model mirrors is the one the
model was written against.  A change of the C++ code that alters any of them makes these theorems fail. -/

section GenTie
open MpVerif.CSem MpVerif.C11.CLib MpVerif.Gen.C11Tok

set_option maxRecDepth 100000 in
/-- the loop of `SkipSpaces` is `pScan isSpace` (`while (*s && isspace(*s)) ++s; return s;`) -/
theorem C11_gen_SkipSpaces (c : UInt8) : (SkipSpaces_cond (charVal c) != 0) = (c != 0 && isSpace c) :=
  byte_cases (fun c => (SkipSpaces_cond (charVal c) != 0) = (c != 0 && isSpace c)) (by decide) c

set_option maxRecDepth 100000 in
theorem C11_gen_SkipNonSpaces (c : UInt8) : (SkipNonSpaces_cond (charVal c) != 0) = (c != 0 && !isSpace c) :=
  byte_cases (fun c => (SkipNonSpaces_cond (charVal c) != 0) = (c != 0 && !isSpace c)) (by decide) c

set_option maxRecDepth 100000 in
theorem C11_gen_SkipToEnd (c : UInt8) : (SkipToEnd_cond (charVal c) != 0) = (c != 0 && c.toNat != 10) :=
  byte_cases (fun c => (SkipToEnd_cond (charVal c) != 0) = (c != 0 && c.toNat != 10)) (by decide) c

/-- the loop of `SkipToMatchingQuote` (ampl/mp 7d345ba): `while (*s && *s != quote) ++s;` -/
theorem C11_gen_SkipToMatchingQuote (c q : UInt8) :
    (SkipToMatchingQuote_cond (charVal c) (charVal q) != 0) = (c != 0 && c != q) := by
  by_cases h0 : c = 0
  · subst h0; simp [SkipToMatchingQuote_cond, band, tobool, show charVal (0 : UInt8) = 0 by decide]
  · by_cases hq : c = q
    · subst hq; simp [SkipToMatchingQuote_cond, band, cne]
    · have h0' : charVal c ≠ 0 := fun h => h0 (charVal_zero.mp h)
      have hq' : charVal c ≠ charVal q := fun h => hq (charVal_inj.mp h)
      simp [SkipToMatchingQuote_cond, band, tobool, cne, h0, hq, h0', hq']

set_option maxRecDepth 100000 in
theorem C11_gen_quoted (c : UInt8) : (quoted_ret (charVal c) != 0) = isQuote c :=
  byte_cases (fun c => (quoted_ret (charVal c) != 0) = isQuote c) (by decide) c

set_option maxRecDepth 100000 in
/-- the name scan of `ParseOptionString`: `while (*s && !isspace(*s) && *s != '=') ++s;` -/
theorem C11_gen_nameScan (c : UInt8) : (ParseOptionString_cond0 (charVal c) != 0) = (c != 0 && isNameChar c) :=
  byte_cases (fun c => (ParseOptionString_cond0 (charVal c) != 0) = (c != 0 && isNameChar c)) (by decide) c

set_option maxRecDepth 100000 in
/-- the `=` test of `ParseOptionString` (`afterName`) -/
theorem C11_gen_equalSign (c : UInt8) : (ParseOptionString_cond1 (charVal c) != 0) = (c.toNat == 61) :=
  byte_cases (fun c => (ParseOptionString_cond1 (charVal c) != 0) = (c.toNat == 61)) (by decide) c

set_option maxRecDepth 100000 in
theorem C11_gen_queryMark (c : UInt8) : (ParseOptionString_cond2 (charVal c) != 0) = (c.toNat == 63) :=
  byte_cases (fun c => (ParseOptionString_cond2 (charVal c) != 0) = (c.toNat == 63)) (by decide) c

set_option maxRecDepth 100000 in
theorem C11_gen_queryNext (d : UInt8) : (ParseOptionString_cond3 (charVal d) != 0) = (d == 0 || isSpace d) :=
  byte_cases (fun d => (ParseOptionString_cond3 (charVal d) != 0) = (d == 0 || isSpace d)) (by decide) d

/-- the `?` dispatch of `ParseOptionString`: `if (*s == '?') { char next = s[1]; if (!next || isspace(next)) …`
is `isQuery`; the byte after the text is the NUL (0) when the list ends -/
theorem C11_gen_query (c : UInt8) (r : Bytes) (hr : ∀ d ∈ r, d ≠ 0) :
    isQuery (c :: r) = ((ParseOptionString_cond2 (charVal c) != 0) && (ParseOptionString_cond3 (charVal (r.headD 0)) != 0)) := by
  rw [C11_gen_queryMark, C11_gen_queryNext]
  cases r with
  | nil => simp [isQuery]
  | cons d t =>
    have h0 : (d == 0) = false := by simpa using hr d (by simp)
    simp [isQuery, h0]

/-- exactly these four byte conditions occur in `ParseOptionString` -/
theorem C11_gen_nconds : ParseOptionString_nconds = 4 := by decide

/-- `OptionHelper<int>::Parse`: decimal `strtol`, result converted `long → int` modularly = the model's `wrap32` -/
theorem C11_gen_intParse : intParse_base = 10 ∧ ∀ v : Int, LONG_MIN ≤ v → v ≤ LONG_MAX → intParse_conv v = wrap32 v := by
  refine ⟨by decide, ?_⟩
  intro v h1 h2
  unfold LONG_MIN at h1
  unfold LONG_MAX at h2
  simp only [intParse_conv, conv, CTy.wrap, tI, tL, wrap32]
  simp
  omega

/-- **`wc_match` tied by translation.**  The model's per-pattern test-and-cut `wcMatch1` IS the generated
`wc_match_cond` / `wc_match_body` (translated from the `std::string` expressions of `SolverOption::wc_match`:
`rfind`, `size`, `substr`, size_t subtraction) for every key, every pattern and whatever the primary pattern is —
for keys shorter than 2^63 bytes.  A change such as cutting the body with `wc_head()`/`wc_tail()` (the primary
pattern) instead of the matched pattern makes the generated definition depend on `head0`/`tail0` and this
theorem unprovable. -/
theorem C11_gen_wc_match (key head tail head0 tail0 : Bytes) (hlen : key.length < 9223372036854775808) :
    wcMatch1 (head, tail) key =
      if wc_match_cond key head tail head0 tail0 then some (wc_match_body key head tail head0 tail0) else none := by
  have hnpos : key.length < StdStr.npos := by unfold StdStr.npos; omega
  unfold wcMatch1 wc_match_cond wc_match_body
  simp only
  have e1 : ((0 : Nat) == StdStr.rfind key head 0) = head.isPrefixOf key := by
    rw [← StdStr.rfind_zero_iff]; exact Bool.beq_comm
  rw [e1]
  by_cases hgt : key.length > tail.length
  · have e2 := StdStr.rfind_end_iff key tail (by omega) hnpos
    rw [e2]
    simp only [hgt, decide_true, Bool.and_true, Bool.true_and]
    by_cases hp : head.isPrefixOf key = true
    · by_cases hs : tail.isSuffixOf key = true
      · simp only [hp, hs, Bool.and_self, if_true]
        have hh : head.length ≤ key.length := (List.isPrefixOf_iff_prefix.mp hp).length_le
        by_cases hfit : head.length + tail.length ≤ key.length
        · have : StdStr.usub (StdStr.usub key.length tail.length) head.length = key.length - tail.length - head.length := by
            unfold StdStr.usub; omega
          simp [hfit, StdStr.substr, this]
        · have hbig : (key.drop head.length).length ≤ StdStr.usub (StdStr.usub key.length tail.length) head.length := by
            unfold StdStr.usub; simp; omega
          simp [hfit, StdStr.substr, List.take_of_length_le hbig]
      · have hs' : tail.isSuffixOf key = false := Bool.eq_false_iff.mpr hs
        simp [hp, hs']
    · have hp' : head.isPrefixOf key = false := Bool.eq_false_iff.mpr hp
      simp [hp']
  · simp [hgt]

/-- **`wc_split` tied by translation.**  The model's `wcSplit` (head and tail of a name/synonym pattern around the
first `*`; for a string without `*` both are the whole string, because `find_first_of` returns `npos`,
`substr(0, npos)` is everything and `npos + 1` wraps to 0) IS the generated pair
(`wc_split_head`, `wc_split_tail`), translated from `SolverOption::wc_split`'s `find_first_of` / `substr` / size_t `+`,
for every string shorter than 2^63 bytes. -/
theorem C11_gen_wc_split (b : Bytes) (hlen : b.length < 9223372036854775808) :
    wcSplit b = (wc_split_head b, wc_split_tail b) := by
  unfold wcSplit wc_split_head wc_split_tail wc_split_pos StdStr.findFirstOf hasStar star
  by_cases h : b.any (fun c => c == 42) = true
  · have hk := StdStr.takeWhile_length_lt_of_any 42 b h
    have hu : StdStr.uadd (b.takeWhile (fun x => x != 42)).length 1 = (b.takeWhile (fun x => x != 42)).length + 1 := by
      unfold StdStr.uadd; omega
    have hbig : (b.drop ((b.takeWhile (fun x => x != 42)).length + 1)).length ≤ StdStr.npos := by
      unfold StdStr.npos; simp; omega
    simp only [h, if_true, StdStr.substr, List.drop_zero, hu, StdStr.take_takeWhile_length,
      List.take_of_length_le hbig]
    rw [← List.drop_drop, StdStr.drop_takeWhile_length]
  · have h' : b.any (fun c => c == 42) = false := Bool.eq_false_iff.mpr h
    have hbig : b.length ≤ StdStr.npos := by unfold StdStr.npos; omega
    have hz : StdStr.uadd StdStr.npos 1 = 0 := by decide
    simp [h', StdStr.substr, hz, List.take_of_length_le hbig]

/-- the loop shapes the pointer machines `pScan` / `pSkipToMatchingQuote` model -/
theorem C11_gen_shapes :
    SkipSpaces_shape = Expected.scanShape ∧ SkipNonSpaces_shape = Expected.scanShape ∧ SkipToEnd_shape = Expected.scanShape ∧
    SkipToMatchingQuote_shape = Expected.quoteScanShape ∧ quoted_shape = "return cond(c0)" := by decide

/-- the value kinds of the typed parser: int, long long (both `Kind.int`), double (`Kind.dbl`), string (`Kind.str`) -/
theorem C11_gen_value_kinds : optionHelperTypes = Expected.optionHelperTypes := by decide

end GenTie

/-! the statement skeletons (see `Expected.lean` for which model function mirrors which) -/
theorem C11_gen_skel_ParseOptionString : Gen.C11Tok.skel_ParseOptionString = Expected.skel_ParseOptionString := rfl
theorem C11_gen_skel_OptionHelper_int_Parse : Gen.C11Tok.skel_OptionHelper_int_Parse = Expected.skel_OptionHelper_int_Parse := rfl
theorem C11_gen_skel_OptionHelper_double_Parse : Gen.C11Tok.skel_OptionHelper_double_Parse = Expected.skel_OptionHelper_double_Parse := rfl
theorem C11_gen_skel_OptionHelper_string_Parse : Gen.C11Tok.skel_OptionHelper_string_Parse = Expected.skel_OptionHelper_string_Parse := rfl
theorem C11_gen_skel_ParseOptions : Gen.C11Tok.skel_ParseOptions = Expected.skel_ParseOptions := rfl
theorem C11_gen_skel_FindOption : Gen.C11Tok.skel_FindOption = Expected.skel_FindOption := rfl
theorem C11_gen_skel_wc_match : Gen.C11Tok.skel_wc_match = Expected.skel_wc_match := rfl
theorem C11_gen_skel_wc_split : Gen.C11Tok.skel_wc_split = Expected.skel_wc_split := rfl
theorem C11_gen_skel_UseOptionFile : Gen.C11Tok.skel_UseOptionFile = Expected.skel_UseOptionFile := rfl
theorem C11_gen_skel_ProcessLines_AvoidComments : Gen.C11Tok.skel_ProcessLines_AvoidComments = Expected.skel_ProcessLines_AvoidComments := rfl
theorem C11_gen_skel_SolverOption_ctor : Gen.C11Tok.skel_SolverOption_ctor = Expected.skel_SolverOption_ctor := rfl
theorem C11_gen_skel_AddOption : Gen.C11Tok.skel_AddOption = Expected.skel_AddOption := rfl
theorem C11_gen_skel_OptionNameLess : Gen.C11Tok.skel_OptionNameLess = Expected.skel_OptionNameLess := rfl
theorem C11_gen_skel_TypedSolverOption_Parse : Gen.C11Tok.skel_TypedSolverOption_Parse = Expected.skel_TypedSolverOption_Parse := rfl
theorem C11_gen_skel_OptionHelper_LongLong_Parse : Gen.C11Tok.skel_OptionHelper_LongLong_Parse = Expected.skel_OptionHelper_LongLong_Parse := rfl
theorem C11_gen_skel_StoredOption_bool_is_flag : Gen.C11Tok.skel_StoredOption_bool_is_flag = Expected.skel_StoredOption_bool_is_flag := rfl
theorem C11_gen_skel_StoredOption_bool_Parse : Gen.C11Tok.skel_StoredOption_bool_Parse = Expected.skel_StoredOption_bool_Parse := rfl
theorem C11_gen_skel_echo_with_value : Gen.C11Tok.skel_echo_with_value = Expected.skel_echo_with_value := rfl

/-! ## non-vacuity -/

def cxSt0 : St := initState [{ id := 0, name := [120], syns := [], kind := .str }, { id := 1, name := [98, 105, 103], syns := [], kind := .int }]

-- BIG (upper case) resolves to the option named `big`
example : (lookup cxTable [66, 73, 71]).map (·.1.id) = some 1 := by decide
-- `z=1`: two unknown keys (`z`, then `1`), no value changes
example : parseStr cxCfg [122, 61, 49] cxSt0 = (.ok, { cxSt0 with errs := [.unknown [49], .unknown [122]] }) := by
  rw [parseStr_cont (s' := [49]) (st' := { cxSt0 with errs := [.unknown [122]] }) (by rfl)]
  rw [parseStr_cont (s' := []) (st' := { cxSt0 with errs := [.unknown [49], .unknown [122]] }) (by rfl)]
  exact parseStr_done (by rfl)
-- quoted string with a blank: x='a b'
example : parseStr cxCfg [120, 61, 39, 97, 32, 98, 39] cxSt0 =
    (.ok, { slots := [{ val := .str [97, 32, 98] }, { val := .int 0 }] }) := by
  rw [parseStr_cont (s' := []) (st' := { slots := [{ val := .str [97, 32, 98] }, { val := .int 0 }] }) (by rfl)]
  exact parseStr_done (by rfl)
-- the hypotheses of C11_faithful are satisfiable: the item list [big = 42] is well-formed for cxCfg
theorem C11_nonvacuous_items_wf : ItemsWF cxCfg [(.assign [98, 105, 103] { pre := [], eq := true, post := [] } (.int { sign := none, ds := [52, 50] }), [])] := by
  have hd : AllDigits [52, 50] := by intro c hc; simp at hc; rcases hc with rfl | rfl <;> decide
  have hk : KeyOk' [98, 105, 103] := ⟨⟨by simp, by decide⟩, by intro c r h; cases h; decide⟩
  refine ⟨⟨hk, ⟨Blank.nil, Blank.nil⟩,
      ⟨{ id := 1, name := [98, 105, 103], syns := [], kind := .int }, none, by rfl, rfl, fun l _ => rfl⟩,
      ⟨⟨by simp, hd⟩, by decide, by decide⟩, by simp, by simp⟩,
    Blank.nil, by simp, by simp [isRawAssign], trivial⟩
-- … so C11_faithful applies to the text `big=42`: it parses to "slot of `big` := 42"
example : parseStr cxCfg ([] ++ renderAll [(.assign [98, 105, 103] { pre := [], eq := true, post := [] } (.int { sign := none, ds := [52, 50] }), [])]) cxSt0
    = (.ok, applyAll cxCfg [(.assign [98, 105, 103] { pre := [], eq := true, post := [] } (.int { sign := none, ds := [52, 50] }), [])] cxSt0) :=
  C11_faithful cxCfg rfl _ C11_nonvacuous_items_wf [] Blank.nil cxSt0
example : (Lit.int { sign := none, ds := [52, 50] }).val = .int 42 := by decide

/-! non-trivial instances of the hypotheses used above (table: string option `x`, int option `big`, flag `f`) -/

def cx2Decls : List OptDecl := [{ id := 0, name := [120], syns := [], kind := .str }, { id := 1, name := [98, 105, 103], syns := [[66]], kind := .int },
                                { id := 2, name := [102], syns := [], kind := .flag }]
def cx2Cfg : Cfg := { table := buildTable cx2Decls, noEcho := false, cmdLine := false, throwing := false }

theorem C11_nonvacuous_keyok (k : Bytes) (h1 : k ≠ []) (h2 : ∀ c ∈ k, isNameChar c = true) (h3 : ∀ c r, k = c :: r → c.toNat ≠ 63) : KeyOk' k :=
  ⟨⟨h1, h2⟩, h3⟩

-- `x='a b'  big 7 f` : quoted string with a blank, an assignment without `=`, a flag; items separated by blanks
theorem C11_nonvacuous_items_wf2 : ItemsWF cx2Cfg
    [(.assign [120] { pre := [], eq := true, post := [] } (.quoted 39 [97, 32, 98]), [32, 9]),
     (.assign [98, 105, 103] { pre := [32], eq := false, post := [] } (.int { sign := none, ds := [55] }), [32]),
     (.assign [102] { pre := [], eq := false, post := [] } .flagOn, [])] := by
  have hd : AllDigits [55] := by intro c hc; simp at hc; subst hc; decide
  have k1 : KeyOk' [120] := C11_nonvacuous_keyok _ (by simp) (by decide) (by intro c r h; cases h; decide)
  have k2 : KeyOk' [98, 105, 103] := C11_nonvacuous_keyok _ (by simp) (by decide) (by intro c r h; cases h; decide)
  have k3 : KeyOk' [102] := C11_nonvacuous_keyok _ (by simp) (by decide) (by intro c r h; cases h; decide)
  refine ⟨⟨k1, ⟨Blank.nil, Blank.nil⟩, ⟨{ id := 0, name := [120], syns := [], kind := .str }, none, by rfl, rfl, fun l h => by cases h⟩,
            ⟨rfl, by decide, by decide⟩, by simp, by simp⟩, by decide, by simp, by simp [isRawAssign], ?_⟩
  refine ⟨⟨k2, ⟨by decide, Blank.nil⟩, ⟨{ id := 1, name := [98, 105, 103], syns := [[66]], kind := .int }, none, by rfl, rfl, fun l _ => rfl⟩,
            ⟨⟨by simp, hd⟩, by decide, by decide⟩, by simp, by simp⟩, by decide, by simp, by simp [isRawAssign], ?_⟩
  exact ⟨⟨k3, ⟨Blank.nil, Blank.nil⟩, ⟨{ id := 2, name := [102], syns := [], kind := .flag }, none, by rfl, rfl, fun l h => by cases h⟩,
            trivial, by simp, by simp⟩, Blank.nil, by simp, by simp [isRawAssign], trivial⟩

-- so `C11_faithful` determines the parse of  `x='a b' \t big 7 f`
example := C11_faithful cx2Cfg rfl _ C11_nonvacuous_items_wf2 [] Blank.nil (initState cx2Decls)

-- well-formed query, unknown-key and flag-with-value items
example : (Item.query [66] { pre := [], eq := true, post := [32] }).WF cx2Cfg :=
  ⟨C11_nonvacuous_keyok _ (by simp) (by decide) (by intro c r h; cases h; decide), ⟨Blank.nil, by decide⟩, ⟨_, by rfl⟩, by simp⟩
example : (Item.unknown [122, 122] [32] true).WF cx2Cfg :=
  ⟨C11_nonvacuous_keyok _ (by simp) (by decide) (by intro c r h; cases h; decide), by decide, by rfl⟩
example : (Item.flagArg [102] [] [32] [49]).WF cx2Cfg :=
  ⟨C11_nonvacuous_keyok _ (by simp) (by decide) (by intro c r h; cases h; decide), Blank.nil, by decide,
   ⟨{ id := 2, name := [102], syns := [], kind := .flag }, none, by rfl, rfl⟩, by simp, by decide, by decide⟩

-- `B` is a synonym of `big`; `b` (other case) resolves to it: hypotheses of the lookup theorems are satisfiable
example : lookup cx2Cfg.table [98] = some ({ id := 1, name := [98, 105, 103], syns := [[66]], kind := .int }, none) := by rfl
example : NamesDistinct cx2Cfg.table := by
  show List.Pairwise _ _
  decide

-- `C11_last_wins` / `C11_assign_sets_exactly`: `big=1 … big=42` leaves 42
example : ((applyAll cx2Cfg [(.assign [98, 105, 103] { pre := [], eq := true, post := [] } (.int { sign := none, ds := [49] }), [32]),
      (.assign [66] { pre := [], eq := true, post := [] } (.int { sign := none, ds := [52, 50] }), [])] (initState cx2Decls)).slot 1).val
    = (Lit.int { sign := none, ds := [52, 50] }).val :=
  C11_last_wins cx2Cfg [(.assign [98, 105, 103] { pre := [], eq := true, post := [] } (.int { sign := none, ds := [49] }), [32])] []
    [66] { pre := [], eq := true, post := [] } (.int { sign := none, ds := [52, 50] }) []
    { id := 1, name := [98, 105, 103], syns := [[66]], kind := .int } none (initState cx2Decls) (by rfl) (by rfl) (by decide) (by simp)

-- option-file lines: comment, blank and indented lines are dropped/trimmed exactly as `ProcessLines_AvoidComments` does
example : fileLines [35, 32, 99, 10, 10, 32, 32, 98, 105, 103, 61, 52, 50, 10, 32, 9, 10, 102] = [[98, 105, 103, 61, 52, 50], [102]] := by decide

-- wildcard option `o:*` with synonym pattern `p*`: `o:1=5 p2=6 p1=7` records (1,5),(2,6),(1,7); entry 1 ends as 7
def cx3Decls : List OptDecl := [{ id := 0, name := [111, 58, 42], syns := [[112, 42]], kind := .int }]
def cx3Cfg : Cfg := { table := buildTable cx3Decls, noEcho := true, cmdLine := false, throwing := false }
def cx3Items : List (Item × Bytes) :=
  [(.assign [111, 58, 49] { pre := [], eq := true, post := [] } (.int { sign := none, ds := [53] }), [32]),
   (.assign [112, 50] { pre := [], eq := true, post := [] } (.int { sign := none, ds := [54] }), [32]),
   (.assign [112, 49] { pre := [], eq := true, post := [] } (.int { sign := none, ds := [55] }), [])]
example : cx3Items.filterMap (fun x => wcAssign cx3Cfg 0 x.1) = [([49], .int 5), ([50], .int 6), ([49], .int 7)] := by decide
example : OnlyPatternKeys cx3Cfg 0 cx3Items := by
  intro x hx key sep lit d h1 h2 _
  simp only [cx3Items, List.mem_cons, List.mem_nil_iff, or_false] at hx
  have e1 : (lookup cx3Cfg.table [111, 58, 49]).map (·.2) = some (some [49]) := by decide
  have e2 : (lookup cx3Cfg.table [112, 50]).map (·.2) = some (some [50]) := by decide
  have e3 : (lookup cx3Cfg.table [112, 49]).map (·.2) = some (some [49]) := by decide
  rcases hx with rfl | rfl | rfl <;> cases h1
  · rw [h2] at e1; simp at e1
  · rw [h2] at e2; simp at e2
  · rw [h2] at e3; simp at e3

-- the former over-read input `x='` and `x='ab`: parsed normally, value = rest of the string
example : parseStr cxCfg [120, 61, 39] cxSt0 = (.ok, cxSt0) := by
  rw [parseStr_cont (s' := []) (st' := cxSt0) (by rfl)]
  exact parseStr_done (by rfl)
example : parseStr cxCfg [120, 61, 39, 97, 98] cxSt0 =
    (.ok, { slots := [{ val := .str [97, 98] }, { val := .int 0 }] }) := by
  rw [parseStr_cont (s' := []) (st' := { slots := [{ val := .str [97, 98] }, { val := .int 0 }] }) (by rfl)]
  exact parseStr_done (by rfl)
-- option `obj:*:priority obj_*_priority objpri*`, key `objpri3`: the body is `3` (not `ri3`)
example : (lookup (buildTable [{ id := 0, name := [111,98,106,58,42,58,112], syns := [[111,98,106,95,42,95,112], [111,98,106,112,114,105,42]], kind := .int }])
    [111,98,106,112,114,105,51]).map (·.2) = some (some [51]) := by decide
-- `wc_split` on `o:*:p` and on a star-less synonym `plain` (the quirk: head = tail = the whole string)
example : (Gen.C11Tok.wc_split_head [111, 58, 42, 58, 112], Gen.C11Tok.wc_split_tail [111, 58, 42, 58, 112]) = ([111, 58], [58, 112]) := by decide
example : (Gen.C11Tok.wc_split_head [112, 108], Gen.C11Tok.wc_split_tail [112, 108]) = ([112, 108], [112, 108]) := by decide
-- strtod extent: "1.5e3x" consumes 5 bytes, "0x" consumes 1, "nan(1)" consumes 6
example : (parseDbl [49, 46, 53, 101, 51, 120]).2 = [120] := by decide
example : (parseDbl [48, 120]).2 = [120] := by decide
example : (parseDbl [110, 97, 110, 40, 49, 41]).2 = [] := by decide

end MpVerif.C11

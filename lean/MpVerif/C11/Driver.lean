import MpVerif.C11.ModelParse
import MpVerif.C11.ModelTrace
import Std.Data.HashMap
/-!
Line driver for C11.  Input (one op per line):

  T <tid>                                   start an empty option declaration list `tid`
  O <tid> <kind> <chk> x<hex>,x<hex>,...    declare an option (first word = name, rest = inline synonyms)
  C <cid> <tid> <noEcho> <cmdLineFlag> <throwing> x<solver> x<exepath> <env> <argv>
       env  = `-` or x<name>=x<value>;...   (putenv calls in order)
       argv = `N` (null pointer) or `A` followed by `,x<hex>` per argument

Output: one line per op.  `C` prints
  R <cid> <outcome> <ret> | <errs> | <values by slot> | <echo calls>
No logic here: parsing/printing only, everything else is `MpVerif.C11.parseOptions`.
-/
open MpVerif.C11

def hexDigit? (c : Char) : Option Nat :=
  if '0' ≤ c && c ≤ '9' then some (c.toNat - 48)
  else if 'a' ≤ c && c ≤ 'f' then some (c.toNat - 87)
  else none

def unhexAux : List Char → Bytes → Option Bytes
  | [], acc => some acc.reverse
  | [_], _ => none
  | a :: b :: r, acc =>
    match hexDigit? a, hexDigit? b with
    | some x, some y => unhexAux r (UInt8.ofNat (16 * x + y) :: acc)
    | _, _ => none

/-- `x<hex>` ↦ bytes -/
def unhex (s : String) : Option Bytes :=
  match s.toList with
  | 'x' :: r => unhexAux r []
  | _ => none

def hexChar (n : Nat) : Char := if n < 10 then Char.ofNat (48 + n) else Char.ofNat (87 + n)

def hex (b : Bytes) : String :=
  String.ofList (b.foldr (fun c acc => hexChar (c.toNat / 16) :: hexChar (c.toNat % 16) :: acc) [])

/-- kind and list-ness -/
def parseKind : String → Option (Kind × Bool)
  | "int" | "sint" | "sll" => some (.int, false)
  | "dbl" | "sdbl" => some (.dbl, false)
  | "str" | "sstr" => some (.str, false)
  | "flag" => some (.flag, false)
  | "lint" => some (.int, true)
  | "ldbl" => some (.dbl, true)
  | "lstr" => some (.str, true)
  | _ => none

def parseChk : String → Option IntChk
  | "any" => some .any | "nonneg" => some .nonneg | "bool01" => some .bool01 | "mask15" => some .mask15
  | _ => none

def parseBool : String → Option Bool
  | "0" => some false | "1" => some true | _ => none

def parseEnv (s : String) : Option Env :=
  if s == "-" then some []
  else (s.splitOn ";").mapM (fun kv =>
    match kv.splitOn "=" with
    | [k, v] => do pure ((← unhex k), (← unhex v))
    | _ => none)

def parseArgv (s : String) : Option (Option (List Bytes)) :=
  match s.splitOn "," with
  | "N" :: [] => some none
  | "A" :: items => (items.mapM unhex).map some
  | _ => none

def showVal : Val → String
  | .int v => s!"i{v}"
  | .dbl t => s!"d{hex t}"
  | .str b => s!"s{hex b}"
  | .flag b => if b then "f1" else "f0"

def showOutcome : Outcome → String
  | .ok => "ok" | .threwLogic => "logic"
  | .threwError => "error" | .threwInvalid => "invalid"

def showErr : Err → String
  | .unknown n => s!"u{hex n}"
  | .flagArg n => s!"a{hex n}"
  | .fileError n => s!"f{hex n}"
  | .fileNesting n => s!"n{hex n}"

def joinOr (dflt : String) (l : List String) : String :=
  if l.isEmpty then dflt else ",".intercalate l

def showSlot (d : OptDecl) (sl : Slot) : String :=
  if d.logged then "w" ++ "".intercalate (sl.log.reverse.map (fun e => s!"({hex e.1}:{showVal e.2})"))
  else showVal sl.val

def showResult (cid : String) (decls : List OptDecl) (isStd : Bool) (flags : Nat) (r : Outcome × St) : String :=
  let o := r.1
  let st := r.2
  let ret := match o with | .ok => (if st.errs.isEmpty then "1" else "0") | _ => "-"
  let errs := joinOr "-" (st.errs.reverse.map showErr)
  let vals := joinOr "-" ((decls.filter (fun d => d.echoAs.isNone)).map (fun d => showSlot d (st.slot d.id)))
  let echo := joinOr "-" (st.echo.reverse.map (fun e => match e.2 with
    | some v => s!"{hex e.1}={showVal v}" | none => hex e.1))
  let prints := match o with | .ok => (if isStd then versionPrints flags st else 0) | _ => 0
  s!"R {cid} {showOutcome o} {ret} | {errs} | {vals} | {echo} | p{prints}"

structure Tab where
  decls : List OptDecl
  nextId : Nat
  isStd : Bool
  solver : Bytes
  flags : Nat := 0

structure DrvState where
  tabs : Std.HashMap String Tab := {}
  files : List (Bytes × Bytes) := []
  trace : Bool := false     -- `drv_c11 trace`: print the model arms taken instead of the result (coverage mode)

def findDecl (decls : List OptDecl) (name : Bytes) : Option OptDecl :=
  decls.find? (fun d => d.name == name && d.echoAs.isNone)

def handle (ds : DrvState) (line : String) : DrvState × String :=
  match line.trimAscii.toString.splitOn " " with
  | ["T", tid] => ({ ds with tabs := ds.tabs.insert tid { decls := [], nextId := 0, isStd := false, solver := bs "dummy" } }, s!"T {tid}")
  | ["S", tid, flags, solver] =>
    match flags.toNat?, unhex solver with
    | some f, some sv => ({ ds with tabs := ds.tabs.insert tid { decls := stdDecls f, nextId := 9, isStd := true, solver := sv, flags := f } }, s!"S {tid}")
    | _, _ => (ds, "bad-op")
  | ["F", name, content] =>
    match unhex name, unhex content with
    | some n, some c => ({ ds with files := (n, c) :: ds.files }, "F")
    | _, _ => (ds, "bad-op")
  | ["O", tid, kind, chk, names] =>
    match ds.tabs[tid]?, parseKind kind, parseChk chk, (names.splitOn ",").mapM unhex with
    | some t, some (k, isL), some c, some (n :: syns) =>
      let d : OptDecl := { id := t.nextId, name := n, syns := syns, kind := k, chk := c, isList := isL }
      ({ ds with tabs := ds.tabs.insert tid { t with decls := t.decls ++ [d], nextId := t.nextId + 1 } }, s!"O {tid} {t.nextId}")
    | _, _, _, _ => (ds, "bad-op")
  | ["A", tid, real, names] =>      -- AddOptionSynonyms_OutOfLine
    match ds.tabs[tid]?, unhex real, (names.splitOn ",").mapM unhex with
    | some t, some rn, some (n :: syns) =>
      match findDecl t.decls rn with
      | some r =>
        let d : OptDecl := { id := r.id, name := n, syns := syns, kind := r.kind, chk := r.chk, isList := r.isList,
                             echoAs := some (n ++ bs " (" ++ r.name ++ bs ")") }
        ({ ds with tabs := ds.tabs.insert tid { t with decls := t.decls ++ [d] } }, s!"A {tid}")
      | none => (ds, s!"A {tid}")
    | _, _, _ => (ds, "bad-op")
  | ["B", tid, where_, real, names] =>   -- AddOptionSynonyms_Inline_Front / _Back
    match ds.tabs[tid]?, unhex real, (names.splitOn ",").mapM unhex with
    | some t, some rn, some more =>
      match findDecl t.decls rn with
      | some r =>
        let upd (d : OptDecl) : OptDecl :=
          if d.name == rn && d.echoAs.isNone then
            { d with syns := if where_ == "front" then more ++ d.syns else d.syns ++ more } else d
        if r.isWildcard then (ds, "bad-op")
        else ({ ds with tabs := ds.tabs.insert tid { t with decls := t.decls.map upd } }, s!"B {tid}")
      | none => (ds, s!"B {tid}")
    | _, _, _ => (ds, "bad-op")
  | ["C", cid, tid, ne, cl, th, solver, exe, env, argv] =>
    match ds.tabs[tid]?, parseBool ne, parseBool cl, parseBool th, unhex solver, unhex exe, parseEnv env, parseArgv argv with
    | some t, some ne, some cl, some th, some solver, some exe, some env, some argv =>
      if solver != t.solver then (ds, "bad-op") else
      let call : Call := { table := buildTable t.decls, solverName := solver, exePath := exe, env := env,
                           argv := argv, noEcho := ne, cmdLineFlag := cl, throwing := th, files := ds.files }
      if ds.trace then (ds, "X " ++ ",".intercalate (callArms call (initState t.decls)).eraseDups)
      else (ds, showResult cid t.decls t.isStd t.flags (parseOptions call (initState t.decls)))
    | _, _, _, _, _, _, _, _ => (ds, "bad-op")
  | _ => (ds, "bad-op")

partial def loop (h : IO.FS.Stream) (out : IO.FS.Stream) (ds : DrvState) : IO Unit := do
  let line ← h.getLine
  if line.isEmpty then return ()
  let (ds', res) := handle ds line
  out.putStrLn res
  loop h out ds'

def main (args : List String) : IO Unit := do
  let out ← IO.getStdout
  loop (← IO.getStdin) out { trace := args.contains "trace" }

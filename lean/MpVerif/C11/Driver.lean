import MpVerif.C11.ModelParse
import Std.Data.HashMap
/-!
Line driver for C11.  Input (one op per line):

  T <tid>                                   start an empty option declaration list `tid`
  O <tid> <kind> <chk> x<hex>,x<hex>,...    declare an option (first word = name, rest = inline synonyms)
  C <cid> <tid> <noEcho> <cmdLineFlag> <throwing> x<solver> x<exepath> <env> <argv>
       env  = `-` or x<name>=x<value>;...   (putenv calls in order)
       argv = `N` (null pointer) or `A` followed by `,x<hex>` per argument

Output: one line per op.  `C` prints
  R <cid> <outcome> <ret> | <errs> | <values by slot> | <echo calls>
No logic here: parsing/printing only, everything else is `MpVerif.C11.parseOptions`.
-/
open MpVerif.C11

def hexDigit? (c : Char) : Option Nat :=
  if '0' ≤ c && c ≤ '9' then some (c.toNat - 48)
  else if 'a' ≤ c && c ≤ 'f' then some (c.toNat - 87)
  else none

def unhexAux : List Char → Bytes → Option Bytes
  | [], acc => some acc.reverse
  | [_], _ => none
  | a :: b :: r, acc =>
    match hexDigit? a, hexDigit? b with
    | some x, some y => unhexAux r (UInt8.ofNat (16 * x + y) :: acc)
    | _, _ => none

/-- `x<hex>` ↦ bytes -/
def unhex (s : String) : Option Bytes :=
  match s.toList with
  | 'x' :: r => unhexAux r []
  | _ => none

def hexChar (n : Nat) : Char := if n < 10 then Char.ofNat (48 + n) else Char.ofNat (87 + n)

def hex (b : Bytes) : String :=
  String.ofList (b.foldr (fun c acc => hexChar (c.toNat / 16) :: hexChar (c.toNat % 16) :: acc) [])

def parseKind : String → Option Kind
  | "int" | "sint" | "sll" => some .int
  | "dbl" | "sdbl" => some .dbl
  | "str" | "sstr" => some .str
  | "flag" => some .flag
  | _ => none

def parseChk : String → Option IntChk
  | "any" => some .any | "nonneg" => some .nonneg | "bool01" => some .bool01
  | _ => none

def parseBool : String → Option Bool
  | "0" => some false | "1" => some true | _ => none

def parseEnv (s : String) : Option Env :=
  if s == "-" then some []
  else (s.splitOn ";").mapM (fun kv =>
    match kv.splitOn "=" with
    | [k, v] => do pure ((← unhex k), (← unhex v))
    | _ => none)

def parseArgv (s : String) : Option (Option (List Bytes)) :=
  match s.splitOn "," with
  | "N" :: [] => some none
  | "A" :: items => (items.mapM unhex).map some
  | _ => none

def showVal : Val → String
  | .int v => s!"i{v}"
  | .dbl t => s!"d{hex t}"
  | .str b => s!"s{hex b}"
  | .flag b => if b then "f1" else "f0"

def showOutcome : Outcome → String
  | .ok => "ok" | .threwLogic => "logic"
  | .threwError => "error" | .threwInvalid => "invalid"

def showErr : Err → String
  | .unknown n => s!"u{hex n}"
  | .flagArg n => s!"a{hex n}"

def joinOr (dflt : String) (l : List String) : String :=
  if l.isEmpty then dflt else ",".intercalate l

def showSlot (d : OptDecl) (sl : Slot) : String :=
  if d.isWildcard then "w" ++ "".intercalate (sl.log.reverse.map (fun e => s!"({hex e.1}:{showVal e.2})"))
  else showVal sl.val

def showResult (cid : String) (decls : List OptDecl) (r : Outcome × St) : String :=
  match r.1 with
  | o =>
    let st := r.2
    let ret := match o with | .ok => (if st.errs.isEmpty then "1" else "0") | _ => "-"
    let errs := joinOr "-" (st.errs.reverse.map showErr)
    let vals := joinOr "-" (decls.map (fun d => showSlot d (st.slot d.id)))
    let echo := joinOr "-" (st.echo.reverse.map (fun e => match e.2 with
      | some v => s!"{hex e.1}={showVal v}" | none => hex e.1))
    s!"R {cid} {showOutcome o} {ret} | {errs} | {vals} | {echo}"

abbrev Tables := Std.HashMap String (List OptDecl)

def handle (tabs : Tables) (line : String) : Tables × String :=
  match line.trimAscii.toString.splitOn " " with
  | ["T", tid] => (tabs.insert tid [], s!"T {tid}")
  | ["O", tid, kind, chk, names] =>
    match tabs[tid]?, parseKind kind, parseChk chk, (names.splitOn ",").mapM unhex with
    | some decls, some k, some c, some (n :: syns) =>
      let d : OptDecl := { id := decls.length, name := n, syns := syns, kind := k, chk := c }
      (tabs.insert tid (decls ++ [d]), s!"O {tid} {decls.length}")
    | _, _, _, _ => (tabs, "bad-op")
  | ["C", cid, tid, ne, cl, th, solver, exe, env, argv] =>
    match tabs[tid]?, parseBool ne, parseBool cl, parseBool th, unhex solver, unhex exe, parseEnv env, parseArgv argv with
    | some decls, some ne, some cl, some th, some solver, some exe, some env, some argv =>
      let call : Call := { table := buildTable decls, solverName := solver, exePath := exe, env := env,
                           argv := argv, noEcho := ne, cmdLineFlag := cl, throwing := th }
      (tabs, showResult cid decls (parseOptions call (initState decls)))
    | _, _, _, _, _, _, _, _ => (tabs, "bad-op")
  | _ => (tabs, "bad-op")

partial def loop (h : IO.FS.Stream) (out : IO.FS.Stream) (tabs : Tables) : IO Unit := do
  let line ← h.getLine
  if line.isEmpty then return ()
  let (tabs', res) := handle tabs line
  out.putStrLn res
  loop h out tabs'

def main : IO Unit := do
  let out ← IO.getStdout
  loop (← IO.getStdin) out {}

/-! Line driver for C11 (stub; replaced when the model is written). -/
def main : IO Unit := pure ()

import MpVerif.C11.Model
/-!
# C11 — the scanners as pointer machines with explicit read indices

Memory is the option string `buf` followed by its terminating NUL at index `buf.length`; any
index beyond that is outside the object.  `rd` returns `none` for such a read, and every scanner
below returns `none` as soon as it performs one.  So "all reads are at indices ≤ the NUL
position" is exactly "the result is not `none`".
-/
namespace MpVerif.C11

def rd (buf : Bytes) (i : Nat) : Option UInt8 :=
  if h : i < buf.length then some buf[i] else if i = buf.length then some 0 else none

theorem rd_some_le {buf : Bytes} {i : Nat} {c : UInt8} (h : rd buf i = some c) : i ≤ buf.length := by
  unfold rd at h
  split at h
  · omega
  · split at h
    · omega
    · cases h

/-- `while (*s && p(*s)) ++s; return s;` — SkipSpaces, SkipNonSpaces, SkipToEnd, the name scan -/
def pScan (p : UInt8 → Bool) (buf : Bytes) (i : Nat) : Option Nat :=
  match h : rd buf i with
  | none => none
  | some c => if c != 0 && p c then pScan p buf (i + 1) else some i
termination_by buf.length + 1 - i
decreasing_by have := rd_some_le h; omega

/-- the loop `while (*s != quote) ++s; return ++s;` of SkipToMatchingQuote, started at `j` -/
def pFind (q : UInt8) (buf : Bytes) (j : Nat) : Option Nat :=
  match h : rd buf j with
  | none => none
  | some c => if c != q then pFind q buf (j + 1) else some (j + 1)
termination_by buf.length + 1 - j
decreasing_by have := rd_some_le h; omega

/-- `SkipToMatchingQuote(s)` with `s = buf + i` -/
def pSkipToMatchingQuote (buf : Bytes) (i : Nat) : Option Nat :=
  match rd buf i with
  | none => none
  | some q => pFind q buf (i + 1)

def NoNul (buf : Bytes) : Prop := ∀ c ∈ buf, c ≠ 0

theorem rd_lt {buf : Bytes} {i : Nat} (h : i < buf.length) : rd buf i = some buf[i] := by simp [rd, h]
theorem rd_end (buf : Bytes) : rd buf buf.length = some 0 := by simp [rd]
theorem rd_beyond {buf : Bytes} {i : Nat} (h : buf.length < i) : rd buf i = none := by
  unfold rd
  have h1 : ¬ i < buf.length := by omega
  have h2 : ¬ i = buf.length := by omega
  simp [h1, h2]

/-- The `while (*s && …)` scanners never read beyond the NUL, whatever the bytes are, and they
compute the list-level `dropWhile`. -/
theorem pScan_spec (p : UInt8 → Bool) (buf : Bytes) (hn : NoNul buf) (i : Nat) (hi : i ≤ buf.length) :
    ∃ j, pScan p buf i = some j ∧ i ≤ j ∧ j ≤ buf.length ∧ buf.drop j = (buf.drop i).dropWhile p := by
  induction hk : buf.length - i using Nat.strongRecOn generalizing i with
  | _ k ih =>
    rw [pScan]
    by_cases hlt : i < buf.length
    · have hr := rd_lt hlt
      split
      · rename_i h; rw [hr] at h; cases h
      · rename_i c h
        rw [hr] at h
        cases h
        have hc0 : buf[i] ≠ 0 := hn _ (List.getElem_mem hlt)
        have hdrop : buf.drop i = buf[i] :: buf.drop (i + 1) := List.drop_eq_getElem_cons hlt
        by_cases hp : p buf[i] = true
        · have : (buf[i] != 0 && p buf[i]) = true := by simp [hc0, hp]
          simp only [this, if_true]
          obtain ⟨j, h1, h2, h3, h4⟩ := ih (buf.length - (i + 1)) (by omega) (i + 1) (by omega) rfl
          exact ⟨j, h1, by omega, h3, by rw [h4, hdrop, List.dropWhile_cons, hp]; rfl⟩
        · have hp' : p buf[i] = false := by simpa using hp
          have : (buf[i] != 0 && p buf[i]) = false := by simp [hp']
          simp only [this, Bool.false_eq_true, if_false]
          exact ⟨i, rfl, Nat.le_refl _, hi, by rw [hdrop, List.dropWhile_cons, hp']; rfl⟩
    · have hie : i = buf.length := by omega
      subst hie
      split
      · rename_i h; rw [rd_end] at h; cases h
      · rename_i c h
        rw [rd_end] at h
        cases h
        simp only [bne_self_eq_false, Bool.false_and, Bool.false_eq_true, if_false]
        exact ⟨buf.length, rfl, Nat.le_refl _, Nat.le_refl _, by simp⟩

/-- The quote scanner stays in bounds **iff** the closing quote exists: it reads beyond the NUL
exactly when `findByte` finds no closing quote (and then it agrees with the list model). -/
theorem pFind_spec (q : UInt8) (hq : q ≠ 0) (buf : Bytes) (j : Nat) (hj : j ≤ buf.length) :
    pFind q buf j = (findByte q (buf.drop j)).map (fun k => j + k + 1) := by
  induction hk : buf.length - j using Nat.strongRecOn generalizing j with
  | _ k ih =>
    rw [pFind]
    by_cases hlt : j < buf.length
    · have hr := rd_lt hlt
      have hdrop : buf.drop j = buf[j] :: buf.drop (j + 1) := List.drop_eq_getElem_cons hlt
      split
      · rename_i h; rw [hr] at h; cases h
      · rename_i c h
        rw [hr] at h
        cases h
        rw [hdrop, findByte]
        by_cases hc : buf[j] = q
        · simp [hc]
        · have : (buf[j] != q) = true := by simpa using hc
          have hb : (buf[j] == q) = false := by simpa using hc
          simp only [this, if_true, hb, Bool.false_eq_true, if_false]
          rw [ih (buf.length - (j + 1)) (by omega) (j + 1) (by omega) rfl]
          cases findByte q (buf.drop (j + 1)) with
          | none => rfl
          | some k => simp; omega
    · have hje : j = buf.length := by omega
      subst hje
      split
      · rename_i h; rw [rd_end] at h; cases h
      · rename_i c h
        rw [rd_end] at h
        cases h
        have : ((0 : UInt8) != q) = true := by simpa using hq.symm
        simp only [this, if_true]
        rw [pFind]
        split
        · simp [findByte]
        · rename_i c h; rw [rd_beyond (by omega)] at h; cases h

end MpVerif.C11

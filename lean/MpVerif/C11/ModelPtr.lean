import MpVerif.C11.Model
/-!
# C11 — the scanners as pointer machines with explicit read indices

Memory is the option string `buf` followed by its terminating NUL at index `buf.length`; any
index beyond that is outside the object.  `rd` returns `none` for such a read, and every scanner
below returns `none` as soon as it performs one.  So "all reads are at indices ≤ the NUL
position" is exactly "the result is not `none`".
-/
namespace MpVerif.C11

def rd (buf : Bytes) (i : Nat) : Option UInt8 :=
  if h : i < buf.length then some buf[i] else if i = buf.length then some 0 else none

theorem rd_some_le {buf : Bytes} {i : Nat} {c : UInt8} (h : rd buf i = some c) : i ≤ buf.length := by
  unfold rd at h
  split at h
  · omega
  · split at h
    · omega
    · cases h

/-- `while (*s && p(*s)) ++s; return s;` — SkipSpaces, SkipNonSpaces, SkipToEnd, the name scan -/
def pScan (p : UInt8 → Bool) (buf : Bytes) (i : Nat) : Option Nat :=
  match h : rd buf i with
  | none => none
  | some c => if c != 0 && p c then pScan p buf (i + 1) else some i
termination_by buf.length + 1 - i
decreasing_by have := rd_some_le h; omega

/-- `SkipToMatchingQuote(s)` with `s = buf + i` (ampl/mp 7d345ba):
`quote = *s; ++s; while (*s && *s != quote) ++s; return s;` -/
def pSkipToMatchingQuote (buf : Bytes) (i : Nat) : Option Nat :=
  match rd buf i with
  | none => none
  | some q => pScan (fun c => c != q) buf (i + 1)

/-- the tail of `OptionHelper<std::string>::Parse` for a quoted value: `if (*s) ++s;` -/
def pAfterQuote (buf : Bytes) (j : Nat) : Option Nat :=
  match rd buf j with
  | none => none
  | some c => if c != 0 then some (j + 1) else some j

def NoNul (buf : Bytes) : Prop := ∀ c ∈ buf, c ≠ 0

theorem rd_lt {buf : Bytes} {i : Nat} (h : i < buf.length) : rd buf i = some buf[i] := by simp [rd, h]
theorem rd_end (buf : Bytes) : rd buf buf.length = some 0 := by simp [rd]
theorem rd_beyond {buf : Bytes} {i : Nat} (h : buf.length < i) : rd buf i = none := by
  unfold rd
  have h1 : ¬ i < buf.length := by omega
  have h2 : ¬ i = buf.length := by omega
  simp [h1, h2]

/-- The `while (*s && …)` scanners never read beyond the NUL, whatever the bytes are, and they
compute the list-level `dropWhile`. -/
theorem pScan_spec (p : UInt8 → Bool) (buf : Bytes) (hn : NoNul buf) (i : Nat) (hi : i ≤ buf.length) :
    ∃ j, pScan p buf i = some j ∧ i ≤ j ∧ j ≤ buf.length ∧ buf.drop j = (buf.drop i).dropWhile p := by
  induction hk : buf.length - i using Nat.strongRecOn generalizing i with
  | _ k ih =>
    rw [pScan]
    by_cases hlt : i < buf.length
    · have hr := rd_lt hlt
      split
      · rename_i h; rw [hr] at h; cases h
      · rename_i c h
        rw [hr] at h
        cases h
        have hc0 : buf[i] ≠ 0 := hn _ (List.getElem_mem hlt)
        have hdrop : buf.drop i = buf[i] :: buf.drop (i + 1) := List.drop_eq_getElem_cons hlt
        by_cases hp : p buf[i] = true
        · have : (buf[i] != 0 && p buf[i]) = true := by simp [hc0, hp]
          simp only [this, if_true]
          obtain ⟨j, h1, h2, h3, h4⟩ := ih (buf.length - (i + 1)) (by omega) (i + 1) (by omega) rfl
          exact ⟨j, h1, by omega, h3, by rw [h4, hdrop, List.dropWhile_cons, hp]; rfl⟩
        · have hp' : p buf[i] = false := by simpa using hp
          have : (buf[i] != 0 && p buf[i]) = false := by simp [hp']
          simp only [this, Bool.false_eq_true, if_false]
          exact ⟨i, rfl, Nat.le_refl _, hi, by rw [hdrop, List.dropWhile_cons, hp']; rfl⟩
    · have hie : i = buf.length := by omega
      subst hie
      split
      · rename_i h; rw [rd_end] at h; cases h
      · rename_i c h
        rw [rd_end] at h
        cases h
        simp only [bne_self_eq_false, Bool.false_and, Bool.false_eq_true, if_false]
        exact ⟨buf.length, rfl, Nat.le_refl _, Nat.le_refl _, by simp⟩

/-- `SkipToMatchingQuote` + the closing-quote skip, started at a quote inside the string: all
reads are at indices ≤ the NUL index, and the result is the list model's. -/
theorem pSkipToMatchingQuote_spec (buf : Bytes) (hn : NoNul buf) (i : Nat) (hi : i < buf.length) :
    ∃ j k, pSkipToMatchingQuote buf i = some j ∧ j ≤ buf.length ∧ pAfterQuote buf j = some k ∧ k ≤ buf.length ∧
      (buf.drop (i + 1)).take (j - (i + 1)) = (skipToMatchingQuote buf[i] (buf.drop (i + 1))).1 ∧
      buf.drop k = (skipToMatchingQuote buf[i] (buf.drop (i + 1))).2 := by
  obtain ⟨j, h1, h2, h3, h4⟩ := pScan_spec (fun c => c != buf[i]) buf hn (i + 1) (by omega)
  have hval : (buf.drop (i + 1)).take (j - (i + 1)) = (buf.drop (i + 1)).takeWhile (fun c => c != buf[i]) := by
    have hlen : ((buf.drop (i + 1)).dropWhile (fun c => c != buf[i])).length = buf.length - j := by
      rw [← h4]; simp
    have hsplit := List.takeWhile_append_dropWhile (p := fun c => c != buf[i]) (l := buf.drop (i + 1))
    have hl : ((buf.drop (i + 1)).takeWhile (fun c => c != buf[i])).length = j - (i + 1) := by
      have := congrArg List.length hsplit
      simp only [List.length_append, List.length_drop, hlen] at this
      omega
    conv => lhs; rw [← hsplit]
    rw [← hl, List.take_left']
    rfl
  by_cases hj : j < buf.length
  · have hd : buf.drop j = buf[j] :: buf.drop (j + 1) := List.drop_eq_getElem_cons hj
    have hc0 : buf[j] ≠ 0 := hn _ (List.getElem_mem hj)
    refine ⟨j, j + 1, ?_, h3, ?_, by omega, ?_, ?_⟩
    · simp [pSkipToMatchingQuote, rd_lt hi, h1]
    · simp [pAfterQuote, rd_lt hj, hc0]
    · simpa [skipToMatchingQuote] using hval
    · simp only [skipToMatchingQuote]; rw [← h4, hd]; rfl
  · have hje : j = buf.length := by omega
    refine ⟨j, j, ?_, h3, ?_, h3, ?_, ?_⟩
    · simp [pSkipToMatchingQuote, rd_lt hi, h1]
    · subst hje; simp [pAfterQuote, rd_end]
    · simpa [skipToMatchingQuote] using hval
    · simp only [skipToMatchingQuote]; rw [← h4]; subst hje; simp

end MpVerif.C11

import MpVerif.C11.ModelParse
/-! # C11 — lexical lemmas used by the property theorems -/
namespace MpVerif.C11

/-- every byte of `w` is a blank -/
def Blank (w : Bytes) : Prop := ∀ c ∈ w, isSpace c = true

instance (w : Bytes) : Decidable (Blank w) := by unfold Blank; infer_instance

/-- `b` is empty (the NUL follows) or starts with a byte on which `p` is false:
a scan `while (*s && p(*s)) ++s` stops at `b`. -/
def StopsAt (p : UInt8 → Bool) (b : Bytes) : Prop :=
  match b with
  | [] => True
  | c :: _ => p c = false

/-- `b` is empty or starts with a blank: the text of a value ends here. -/
def EndsToken (b : Bytes) : Prop := StopsAt (fun c => !isSpace c) b

theorem Blank.nil : Blank [] := by intro c h; simp at h
theorem Blank.append {a b : Bytes} (ha : Blank a) (hb : Blank b) : Blank (a ++ b) := by
  intro c h; simp at h; cases h with
  | inl h => exact ha c h
  | inr h => exact hb c h
theorem Blank.tail {c : UInt8} {r : Bytes} (h : Blank (c :: r)) : Blank r := fun d hd => h d (by simp [hd])
theorem Blank.head {c : UInt8} {r : Bytes} (h : Blank (c :: r)) : isSpace c = true := h c (by simp)

theorem takeWhile_append_stop {p : UInt8 → Bool} {a b : Bytes} (ha : ∀ c ∈ a, p c = true)
    (hb : StopsAt p b) : (a ++ b).takeWhile p = a := by
  induction a with
  | nil =>
    cases b with
    | nil => simp
    | cons c r => simp [StopsAt] at hb; simp [hb]
  | cons c r ih =>
    have hc := ha c (by simp)
    simp [hc]
    exact ih (fun d hd => ha d (by simp [hd]))

theorem dropWhile_append_stop {p : UInt8 → Bool} {a b : Bytes} (ha : ∀ c ∈ a, p c = true)
    (hb : StopsAt p b) : (a ++ b).dropWhile p = b := by
  induction a with
  | nil =>
    cases b with
    | nil => simp
    | cons c r => simp [StopsAt] at hb; simp [hb]
  | cons c r ih =>
    have hc := ha c (by simp)
    simp [hc]
    exact ih (fun d hd => ha d (by simp [hd]))

theorem dropWhile_stop {p : UInt8 → Bool} {b : Bytes} (hb : StopsAt p b) : b.dropWhile p = b := by
  have := dropWhile_append_stop (p := p) (a := []) (b := b) (by simp) hb
  simpa using this

theorem takeWhile_stop {p : UInt8 → Bool} {b : Bytes} (hb : StopsAt p b) : b.takeWhile p = [] := by
  have := takeWhile_append_stop (p := p) (a := []) (b := b) (by simp) hb
  simpa using this

theorem skipSpaces_blank_append {w r : Bytes} (hw : Blank w) (hr : StopsAt isSpace r) :
    skipSpaces (w ++ r) = r := dropWhile_append_stop hw hr

theorem skipSpaces_stop {r : Bytes} (hr : StopsAt isSpace r) : skipSpaces r = r := dropWhile_stop hr

/-- StopsAt is monotone in the predicate. -/
theorem StopsAt.mono {p q : UInt8 → Bool} {b : Bytes} (h : StopsAt p b) (hpq : ∀ c, q c = true → p c = true) :
    StopsAt q b := by
  cases b with
  | nil => trivial
  | cons c r =>
    simp [StopsAt] at h ⊢
    cases hq : q c with
    | false => rfl
    | true => have := hpq c hq; simp [h] at this

theorem StopsAt.append_left {p : UInt8 → Bool} {a b : Bytes} (h : StopsAt p a) (hne : a ≠ []) : StopsAt p (a ++ b) := by
  cases a with
  | nil => exact absurd rfl hne
  | cons c r => simpa [StopsAt] using h

/-! ## the header of an item: blanks, key, blanks, optional `=`, blanks -/

/-- separator between key and value -/
structure Sep where
  pre : Bytes
  eq : Bool
  post : Bytes

def Sep.render (p : Sep) : Bytes := p.pre ++ (if p.eq then 61 :: p.post else [])

def Sep.WF (p : Sep) : Prop := Blank p.pre ∧ Blank p.post

/-- a key token: non-empty, no blank, no `=` -/
def KeyOk (key : Bytes) : Prop := key ≠ [] ∧ ∀ c ∈ key, isNameChar c = true

/-- what follows the separator does not start with a blank, and without `=` not with `=`;
if the separator is empty the string ends. -/
def RestOk (p : Sep) (rest : Bytes) : Prop :=
  StopsAt isSpace rest ∧ (p.eq = false → StopsAt (fun c => c.toNat == 61) rest ∧ (p.pre = [] → rest = [])) 

theorem isNameChar_false_of_space {c : UInt8} (h : isSpace c = true) : isNameChar c = false := by
  simp [isNameChar, h]

theorem isSpace_ne_eq {c : UInt8} (h : isSpace c = true) : (c.toNat == 61) = false := by
  simp [isSpace] at h
  rcases h with h | h
  · simp [h]
  · simp; omega

theorem afterName_sep {p : Sep} {rest : Bytes} (hp : p.WF) (hr : RestOk p rest) :
    afterName (p.render ++ rest) = (p.eq, rest) ∧ StopsAt isNameChar (p.render ++ rest) := by
  obtain ⟨hpre, hpost⟩ := hp
  obtain ⟨hr1, hr2⟩ := hr
  unfold Sep.render
  cases heq : p.eq with
  | true =>
    simp only [if_true]
    have hstop : StopsAt isNameChar (p.pre ++ 61 :: p.post ++ rest) := by
      cases hpre' : p.pre with
      | nil => simp [StopsAt, isNameChar]
      | cons c r => 
        have := hpre c (by simp [hpre'])
        simp [StopsAt, isNameChar_false_of_space this]
    refine ⟨?_, by simpa using hstop⟩
    unfold afterName
    simp only
    rw [dropWhile_stop (by simpa using hstop)]
    have h1 : skipSpaces (p.pre ++ (61 :: p.post) ++ rest) = 61 :: (p.post ++ rest) := by
      rw [List.append_assoc]
      apply skipSpaces_blank_append hpre
      simp [StopsAt, isSpace]
    rw [h1]
    simp
    exact skipSpaces_blank_append hpost hr1
  | false =>
    have hr2' := hr2 heq
    simp only [Bool.false_eq_true, if_false, List.append_nil]
    have hstop : StopsAt isNameChar (p.pre ++ rest) := by
      cases hpre' : p.pre with
      | nil => have := hr2'.2 hpre'; subst this; simp [StopsAt]
      | cons c r =>
        have := hpre c (by simp [hpre'])
        simp [StopsAt, isNameChar_false_of_space this]
    refine ⟨?_, hstop⟩
    unfold afterName
    simp only
    rw [dropWhile_stop hstop]
    rw [skipSpaces_blank_append hpre hr1]
    cases rest with
    | nil => rfl
    | cons c r =>
      have := hr2'.1
      simp [StopsAt] at this
      simp [this]

/-- **Header lemma.**  On `blanks key sep rest` one loop iteration looks the key up and dispatches on
`rest`, exactly as written in `ParseOptionString`. -/
theorem step_header (cfg : Cfg) (st : St) {lead key rest : Bytes} {p : Sep}
    (hlead : Blank lead) (hkey : KeyOk key) (hp : p.WF) (hr : RestOk p rest) :
    step cfg (lead ++ (key ++ (p.render ++ rest))) st =
      match findOption cfg.table key st with
      | none => reportError cfg (.unknown key) rest st
      | some (d, st1) =>
        if isQuery rest then .cont (rest.drop 1) (doEcho cfg.noEcho d st1)
        else if p.eq && d.kind == .flag then reportError cfg (.flagArg key) (skipNonSpaces rest) st1
        else parseValue cfg d rest st1 := by
  obtain ⟨hne, hkc⟩ := hkey
  obtain ⟨haft, hstop⟩ := afterName_sep hp hr
  have hs1 : skipSpaces (lead ++ (key ++ (p.render ++ rest))) = key ++ (p.render ++ rest) := by
    apply skipSpaces_blank_append hlead
    cases key with
    | nil => exact absurd rfl hne
    | cons c r =>
      have := hkc c (by simp)
      simp [isNameChar] at this
      simp [StopsAt, this.1]
  have hname : nameOf (key ++ (p.render ++ rest)) = key := takeWhile_append_stop hkc hstop
  have hdrop : (key ++ (p.render ++ rest)).dropWhile isNameChar = p.render ++ rest := dropWhile_append_stop hkc hstop
  have haft' : afterName (key ++ (p.render ++ rest)) = (p.eq, rest) := by
    have e : afterName (key ++ (p.render ++ rest)) = afterName (p.render ++ rest) := by
      unfold afterName; rw [hdrop, dropWhile_stop hstop]
    rw [e]; exact haft
  unfold step
  simp only [hs1, hname, haft']
  have h1 : (key ++ (p.render ++ rest)).isEmpty = false := by
    cases key with
    | nil => exact absurd rfl hne
    | cons c r => rfl
  have h2 : key.isEmpty = false := by
    cases key with
    | nil => exact absurd rfl hne
    | cons c r => rfl
  simp [h1, h2]
  rfl

end MpVerif.C11

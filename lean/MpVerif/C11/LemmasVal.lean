import MpVerif.C11.Lemmas
/-! # C11 — the typed value parsers on well-formed literals (parse ∘ print) -/
namespace MpVerif.C11

/-- optional sign: `none`, `some false` = `+`, `some true` = `-` -/
def signBytes : Option Bool → Bytes
  | none => []
  | some true => [45]
  | some false => [43]

def AllDigits (ds : Bytes) : Prop := ∀ c ∈ ds, isDigit c = true

theorem isDigit_not_space {c : UInt8} (h : isDigit c = true) : isSpace c = false := by
  simp [isDigit] at h; simp [isSpace]; omega

theorem isDigit_not_sign {c : UInt8} (h : isDigit c = true) : (c.toNat == 45 || c.toNat == 43) = false := by
  simp [isDigit] at h; simp; omega

theorem isSpace_not_digit {c : UInt8} (h : isSpace c = true) : isDigit c = false := by
  cases hd : isDigit c with
  | false => rfl
  | true => have := isDigit_not_space hd; simp [h] at this

theorem EndsToken.stopsDigit {t : Bytes} (h : EndsToken t) : StopsAt isDigit t := by
  cases t with
  | nil => trivial
  | cons c r => simp [EndsToken, StopsAt] at h ⊢; exact isSpace_not_digit h

/-! ## integers -/

structure IntLit where
  sign : Option Bool
  ds : Bytes

def IntLit.render (l : IntLit) : Bytes := signBytes l.sign ++ l.ds
def IntLit.WF (l : IntLit) : Prop := l.ds ≠ [] ∧ AllDigits l.ds
def IntLit.value (l : IntLit) : Int := if l.sign = some true then -(digitsVal l.ds : Nat) else (digitsVal l.ds : Nat)

theorem stripSign_sign_digits (sg : Option Bool) {ds tail : Bytes} (hne : ds ≠ []) (hd : AllDigits ds) :
    stripSign (signBytes sg ++ ds ++ tail) = ds ++ tail ∧
    startsNeg (signBytes sg ++ ds ++ tail) = (sg == some true) ∧
    StopsAt isSpace (signBytes sg ++ ds ++ tail) := by
  cases ds with
  | nil => exact absurd rfl hne
  | cons d r =>
    have h0 := hd d (by simp)
    have h1 := isDigit_not_sign h0
    have h2 := isDigit_not_space h0
    match sg with
    | none =>
      simp at h1
      simp [signBytes, stripSign, startsNeg, StopsAt, h2, h1]
    | some true => simp [signBytes, stripSign, startsNeg, StopsAt, isSpace]
    | some false => simp [signBytes, stripSign, startsNeg, StopsAt, isSpace]

theorem parseInt_lit (l : IntLit) (hl : l.WF) {tail : Bytes} (ht : StopsAt isDigit tail) :
    parseInt (l.render ++ tail) = (wrap32 (clampLong l.value), tail) := by
  obtain ⟨hne, hd⟩ := hl
  obtain ⟨h1, h2, h3⟩ := stripSign_sign_digits l.sign (tail := tail) hne hd
  unfold parseInt IntLit.render
  simp only
  rw [skipSpaces_stop h3, h1, h2]
  rw [List.append_assoc] 
  rw [takeWhile_append_stop hd ht, dropWhile_append_stop hd ht]
  have : l.ds.isEmpty = false := by cases h : l.ds with
    | nil => exact absurd h hne
    | cons _ _ => rfl
  simp [this, IntLit.value]

theorem wrap32_clamp_id {v : Int} (h1 : -2147483648 ≤ v) (h2 : v ≤ 2147483647) : wrap32 (clampLong v) = v := by
  unfold wrap32 clampLong LONG_MIN LONG_MAX
  split
  · omega
  · split <;> omega

/-! decimal digits of a natural number, and `digitsVal ∘ natDigits = id` -/

def digitChar (k : Nat) : UInt8 := UInt8.ofNat (48 + k)

def natDigits (n : Nat) : Bytes :=
  if h : n < 10 then [digitChar n] else natDigits (n / 10) ++ [digitChar (n % 10)]
termination_by n
decreasing_by omega

theorem digitsVal_append (a : Bytes) (d : UInt8) : digitsVal (a ++ [d]) = 10 * digitsVal a + digitVal d := by
  simp [digitsVal, List.foldl_append]

theorem digitChar_toNat {k : Nat} (h : k < 10) : (digitChar k).toNat = 48 + k := by
  unfold digitChar; rw [UInt8.toNat_ofNat']; omega

theorem digitVal_ofNat {k : Nat} (h : k < 10) : digitVal (digitChar k) = k := by
  unfold digitVal; rw [digitChar_toNat h]; omega

theorem isDigit_ofNat {k : Nat} (h : k < 10) : isDigit (digitChar k) = true := by
  unfold isDigit; rw [digitChar_toNat h]; simp; omega

theorem digitsVal_natDigits (n : Nat) : digitsVal (natDigits n) = n := by
  induction n using Nat.strongRecOn with
  | _ n ih =>
    rw [natDigits]
    split
    · rename_i h; simp [digitsVal, digitVal_ofNat h]
    · rename_i h
      rw [digitsVal_append, ih (n / 10) (by omega), digitVal_ofNat (by omega)]
      omega

theorem natDigits_ne_nil (n : Nat) : natDigits n ≠ [] := by
  rw [natDigits]; split <;> simp

theorem natDigits_allDigits (n : Nat) : AllDigits (natDigits n) := by
  induction n using Nat.strongRecOn with
  | _ n ih =>
    rw [natDigits]
    split
    · rename_i h; intro c hc; simp at hc; subst hc; exact isDigit_ofNat h
    · rename_i h
      intro c hc
      simp at hc
      cases hc with
      | inl hc => exact ih (n / 10) (by omega) c hc
      | inr hc => subst hc; exact isDigit_ofNat (by omega)

/-- the usual decimal rendering of an `Int` -/
def intLitOf (v : Int) : IntLit := { sign := if v < 0 then some true else none, ds := natDigits v.natAbs }

theorem intLitOf_wf (v : Int) : (intLitOf v).WF := ⟨natDigits_ne_nil _, natDigits_allDigits _⟩

theorem intLitOf_value (v : Int) : (intLitOf v).value = v := by
  unfold intLitOf IntLit.value
  simp only [digitsVal_natDigits]
  split <;> split <;> simp_all <;> omega

/-! ## strings -/

theorem parseStrVal_quoted {q : UInt8} {body tail : Bytes} (hq : isQuote q = true) (h : ∀ c ∈ body, c ≠ q) :
    parseStrVal false (q :: (body ++ q :: tail)) = (body, tail) := by
  have hp : ∀ c ∈ body, (fun c => c != q) c = true := by intro c hc; simp [h c hc]
  have hst : StopsAt (fun c => c != q) (q :: tail) := by simp [StopsAt]
  simp [parseStrVal, hq, skipToMatchingQuote, takeWhile_append_stop hp hst, dropWhile_append_stop hp hst]

/-- an unterminated quote: the value is the rest of the string -/
theorem parseStrVal_unterminated {q : UInt8} {body : Bytes} (hq : isQuote q = true) (h : ∀ c ∈ body, c ≠ q) :
    parseStrVal false (q :: body) = (body, []) := by
  have hp : ∀ c ∈ body, (fun c => c != q) c = true := by intro c hc; simp [h c hc]
  have e1 := takeWhile_append_stop (b := []) hp trivial
  have e2 := dropWhile_append_stop (b := []) hp trivial
  simp only [List.append_nil] at e1 e2
  simp [parseStrVal, hq, skipToMatchingQuote, e1, e2]

theorem parseStrVal_bare {body tail : Bytes} (hne : body ≠ []) (hb : ∀ c ∈ body, isSpace c = false)
    (hq : ∀ c r, body = c :: r → isQuote c = false) (ht : EndsToken tail) :
    parseStrVal false (body ++ tail) = (body, tail) := by
  cases body with
  | nil => exact absurd rfl hne
  | cons c r =>
    have hq' := hq c r rfl
    have hb' : ∀ d ∈ c :: r, (fun x => !isSpace x) d = true := by intro d hd; simp [hb d hd]
    have e1 := takeWhile_append_stop (p := fun x => !isSpace x) hb' ht
    have e2 := dropWhile_append_stop (p := fun x => !isSpace x) hb' ht
    simp only [parseStrVal, List.cons_append, hq', skipNonSpaces]
    simp only [List.cons_append] at e1 e2
    simp [e1, e2]

theorem parseStrVal_raw {body tail : Bytes} (hb : ∀ c ∈ body, c.toNat ≠ 10)
    (ht : StopsAt (fun c => c.toNat != 10) tail) :
    parseStrVal true (body ++ tail) = (body, tail) := by
  have hb' : ∀ d ∈ body, (fun c : UInt8 => c.toNat != 10) d = true := by intro d hd; simp [hb d hd]
  simp [parseStrVal, skipToEnd, takeWhile_append_stop hb' ht, dropWhile_append_stop hb' ht]

end MpVerif.C11

import MpVerif.C11.Lemmas
/-! # C11 — lookup: by name or synonym in any letter case, by wildcard pattern -/
namespace MpVerif.C11

theorem ciEq_iff {a b : Bytes} : ciEq a b = true ↔ lowerAll a = lowerAll b := by
  simp [ciEq]

theorem ciEq_symm {a b : Bytes} (h : ciEq a b = true) : ciEq b a = true := by
  rw [ciEq_iff] at *; exact h.symm

theorem ciEq_trans {a b c : Bytes} (h1 : ciEq a b = true) (h2 : ciEq b c = true) : ciEq a c = true := by
  rw [ciEq_iff] at *; exact h1.trans h2

/-- flip the case of an ASCII letter -/
def swapCase (c : UInt8) : UInt8 :=
  if 65 ≤ c.toNat && c.toNat ≤ 90 then UInt8.ofNat (c.toNat + 32)
  else if 97 ≤ c.toNat && c.toNat ≤ 122 then UInt8.ofNat (c.toNat - 32)
  else c

set_option maxRecDepth 100000 in
theorem lower_swapCase (c : UInt8) : lower (swapCase c) = lower c := by
  have key : ∀ n : Nat, n < 256 → lower (swapCase (UInt8.ofNat n)) = lower (UInt8.ofNat n) := by decide
  have := key c.toNat c.toNat_lt
  simpa using this

/-- rewrite `b` in an arbitrary letter case: `mask` says which letters are flipped -/
def recase : List Bool → Bytes → Bytes
  | m :: ms, c :: r => (if m then swapCase c else c) :: recase ms r
  | _, r => r

theorem ciEq_recase (mask : List Bool) (b : Bytes) : ciEq (recase mask b) b = true := by
  rw [ciEq_iff]
  induction b generalizing mask with
  | nil => cases mask <;> rfl
  | cons c r ih =>
    cases mask with
    | nil => rfl
    | cons m ms =>
      simp only [recase, lowerAll, List.map_cons] at ih ⊢
      rw [ih ms]
      cases m <;> simp [lower_swapCase]

/-- the names of the table are pairwise different as `strcasecmp` sees them (what `AddOption` enforces) -/
def NamesDistinct (t : Table) : Prop := t.Pairwise (fun a b => ciEq a.name b.name = false)

theorem find_name {t : Table} (hd : NamesDistinct t) {d : OptDecl} (hmem : d ∈ t) {key : Bytes}
    (hk : ciEq key d.name = true) : t.find? (fun e => ciEq e.name key) = some d := by
  induction t with
  | nil => simp at hmem
  | cons e es ih =>
    rw [NamesDistinct, List.pairwise_cons] at hd
    obtain ⟨hd1, hd2⟩ := hd
    by_cases he : ciEq e.name key = true
    · simp only [List.find?_cons, he]
      cases List.mem_cons.mp hmem with
      | inl h => rw [h]
      | inr h =>
        have := hd1 d h
        rw [ciEq_trans he hk] at this
        cases this
    · have he' : ciEq e.name key = false := by simpa using he
      simp only [List.find?_cons, he']
      cases List.mem_cons.mp hmem with
      | inl h => subst h; rw [ciEq_symm hk] at he'; cases he'
      | inr h => exact ih hd2 h

/-- **By name, any letter case.** -/
theorem lookup_by_name {t : Table} (hd : NamesDistinct t) {d : OptDecl} (hmem : d ∈ t)
    (hw : d.isWildcard = false) {key : Bytes} (hk : ciEq key d.name = true) :
    lookup t key = some (d, none) := by
  simp [lookup, find_name hd hmem hk, hw]

theorem find_name_none {t : Table} {key : Bytes} (h : ∀ e ∈ t, ciEq e.name key = false) :
    t.find? (fun e => ciEq e.name key) = none := by
  simpa [List.find?_eq_none] using h

theorem findLoop_skip {key : Bytes} {before : Table} {rest : Table}
    (h : ∀ e ∈ before, e.syns.any (fun syn => ciEq key syn) = false ∧ wcMatch e.headTails key = none) :
    findLoop key (before ++ rest) = findLoop key rest := by
  induction before with
  | nil => rfl
  | cons e es ih =>
    obtain ⟨h1, h2⟩ := h e (by simp)
    simp only [List.cons_append, findLoop, h1, h2, Bool.false_eq_true, if_false]
    exact ih (fun x hx => h x (by simp [hx]))

/-- **By synonym, any letter case**: no name equals the key (else the name wins), and no option
earlier in the set order has a matching synonym or wildcard pattern. -/
theorem lookup_by_synonym {before after : Table} {d : OptDecl} {key syn : Bytes}
    (hn : ∀ e ∈ before ++ d :: after, ciEq e.name key = false)
    (hb : ∀ e ∈ before, e.syns.any (fun s => ciEq key s) = false ∧ wcMatch e.headTails key = none)
    (hs : syn ∈ d.syns) (hk : ciEq key syn = true) (hw : d.isWildcard = false) :
    lookup (before ++ d :: after) key = some (d, none) := by
  have : d.syns.any (fun s => ciEq key s) = true := by
    simp only [List.any_eq_true]; exact ⟨syn, hs, hk⟩
  simp [lookup, find_name_none hn, findLoop_skip hb, findLoop, this, hw]

/-- the literal text of a synonym (pattern) of a WILDCARD option is not a key (ampl/mp 084cb26) -/
theorem lookup_synonym_of_wildcard {before after : Table} {d : OptDecl} {key syn : Bytes}
    (hn : ∀ e ∈ before ++ d :: after, ciEq e.name key = false)
    (hb : ∀ e ∈ before, e.syns.any (fun s => ciEq key s) = false ∧ wcMatch e.headTails key = none)
    (hs : syn ∈ d.syns) (hk : ciEq key syn = true) (hw : d.isWildcard = true) :
    lookup (before ++ d :: after) key = none := by
  have : d.syns.any (fun s => ciEq key s) = true := by
    simp only [List.any_eq_true]; exact ⟨syn, hs, hk⟩
  simp [lookup, find_name_none hn, findLoop_skip hb, findLoop, this, hw]

/-- a key found without a wildcard body never denotes a wildcard option -/
theorem findLoop_none_body {key : Bytes} {t : Table} {d : OptDecl} (h : findLoop key t = some (d, none)) :
    d.isWildcard = false := by
  induction t with
  | nil => simp [findLoop] at h
  | cons e es ih =>
    simp only [findLoop] at h
    split at h
    · split at h
      · cases h
      · rename_i hw; simp at h; rw [← h]; simpa using hw
    · split at h
      · simp at h
      · exact ih h

theorem lookup_none_body {t : Table} {key : Bytes} {d : OptDecl} (h : lookup t key = some (d, none)) :
    d.isWildcard = false := by
  unfold lookup at h
  split at h
  · split at h
    · cases h
    · rename_i hw; simp at h; rw [← h]; simpa using hw
  · exact findLoop_none_body h

/-! wildcard pattern `head*tail` against the key `head body tail` -/

theorem hasStar_mid (h t : Bytes) : hasStar (h ++ star :: t) = true := by
  simp [hasStar]

theorem wcSplit_pattern {h t : Bytes} (hh : ∀ c ∈ h, c ≠ star) : wcSplit (h ++ star :: t) = (h, t) := by
  have hp : ∀ c ∈ h, (fun c => c != star) c = true := by intro c hc; simp [hh c hc]
  have hst : StopsAt (fun c => c != star) (star :: t) := by simp [StopsAt]
  have e1 := takeWhile_append_stop hp hst
  have e2 := dropWhile_append_stop hp hst
  simp [wcSplit, hasStar_mid, e1, e2]

theorem wcMatch1_pattern (h body t : Bytes) (hb : body ≠ []) :
    wcMatch1 (h, t) (h ++ (body ++ t)) = some body := by
  have hlen : 0 < body.length := List.length_pos_iff.mpr hb
  have h1 : h.isPrefixOf (h ++ (body ++ t)) = true := by simp
  have h2 : t.isSuffixOf (h ++ (body ++ t)) = true := by
    rw [List.isSuffixOf_iff_suffix]
    exact ⟨h ++ body, by simp⟩
  simp only [wcMatch1, h1, h2, List.length_append, Bool.and_true, Bool.true_and]
  have h3 : decide (h.length + (body.length + t.length) > t.length) = true := by simp; omega
  have h4 : h.length + t.length ≤ h.length + (body.length + t.length) := by omega
  simp only [h3, if_true, h4]
  have : h.length + (body.length + t.length) - t.length - h.length = body.length := by omega
  rw [this]
  simp

/-- **By wildcard pattern.**  A key `head body tail` (non-empty body) addresses the option named
`head*tail`, and the body is what `wc_match` records. -/
theorem lookup_by_wildcard {before after : Table} {d : OptDecl} {h body tl : Bytes}
    (hname : d.name = h ++ star :: tl) (hh : ∀ c ∈ h, c ≠ star) (hbody : body ≠ [])
    (hn : ∀ e ∈ before ++ d :: after, ciEq e.name (h ++ (body ++ tl)) = false)
    (hb : ∀ e ∈ before, e.syns.any (fun s => ciEq (h ++ (body ++ tl)) s) = false ∧
                        wcMatch e.headTails (h ++ (body ++ tl)) = none)
    (hs : d.syns.any (fun s => ciEq (h ++ (body ++ tl)) s) = false) :
    lookup (before ++ d :: after) (h ++ (body ++ tl)) = some (d, some body) := by
  have hw : d.isWildcard = true := by simp [OptDecl.isWildcard, hname, hasStar_mid]
  have hm : wcMatch d.headTails (h ++ (body ++ tl)) = some body := by
    simp [OptDecl.headTails, hw, hname, wcSplit_pattern hh, wcMatch, wcMatch1_pattern h body tl hbody]
  simp [lookup, find_name_none hn, findLoop_skip hb, findLoop, hs, hm]

/-- the body is cut with the pattern that matched: the first pattern (name, then synonyms in
order) that matches the key -/
theorem wcMatch_pattern {pre post : List (Bytes × Bytes)} {h body tl : Bytes} (hbody : body ≠ [])
    (hpre : ∀ ht ∈ pre, wcMatch1 ht (h ++ (body ++ tl)) = none) :
    wcMatch (pre ++ (h, tl) :: post) (h ++ (body ++ tl)) = some body := by
  induction pre with
  | nil => simp [wcMatch, wcMatch1_pattern h body tl hbody]
  | cons x xs ih =>
    have hx := hpre x (by simp)
    have := ih (fun ht hht => hpre ht (by simp [hht]))
    simp only [wcMatch] at this ⊢
    simp [hx, this]

/-- every name/synonym pattern `head*tail` of a wildcard option is one of its (head, tail) pairs -/
theorem headTails_mem {d : OptDecl} (hw : d.isWildcard = true) {pat h tl : Bytes}
    (hmem : pat = d.name ∨ pat ∈ d.syns) (hpat : pat = h ++ star :: tl) (hh : ∀ c ∈ h, c ≠ star) :
    (h, tl) ∈ d.headTails := by
  have hs : wcSplit pat = (h, tl) := by rw [hpat]; exact wcSplit_pattern hh
  simp only [OptDecl.headTails, hw, if_true, List.mem_cons, List.mem_map]
  cases hmem with
  | inl e => left; rw [← hs, e]
  | inr e => right; exact ⟨pat, e, hs⟩

/-- **By any wildcard pattern of the option (primary name or synonym, of any shape).**  A key
`head body tail` written with the pattern `head*tail` addresses the option, and the recorded body
is exactly `body` — provided no pattern listed before it for this option matches the key. -/
theorem lookup_by_wildcard_pattern {before after : Table} {d : OptDecl} {pre post : List (Bytes × Bytes)}
    {h body tl : Bytes} (hht : d.headTails = pre ++ (h, tl) :: post) (hbody : body ≠ [])
    (hpre : ∀ ht ∈ pre, wcMatch1 ht (h ++ (body ++ tl)) = none)
    (hn : ∀ e ∈ before ++ d :: after, ciEq e.name (h ++ (body ++ tl)) = false)
    (hb : ∀ e ∈ before, e.syns.any (fun s => ciEq (h ++ (body ++ tl)) s) = false ∧
                        wcMatch e.headTails (h ++ (body ++ tl)) = none)
    (hs : d.syns.any (fun s => ciEq (h ++ (body ++ tl)) s) = false) :
    lookup (before ++ d :: after) (h ++ (body ++ tl)) = some (d, some body) := by
  have hm : wcMatch d.headTails (h ++ (body ++ tl)) = some body := by rw [hht]; exact wcMatch_pattern hbody hpre
  simp [lookup, find_name_none hn, findLoop_skip hb, findLoop, hs, hm]

end MpVerif.C11

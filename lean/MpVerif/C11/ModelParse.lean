import MpVerif.C11.Model
/-!
# C11 — model of the option table, lookup, `ParseOptionString`, `ParseOptions`

Mirrors `src/solver.cc`: `SolverOption::SolverOption`, `wc_split`, `wc_match`,
`SolverOptionManager::AddOption`/`FindOption`, `BasicSolver::ParseOptionString`,
`BasicSolver::ParseOptions`; `include/mp/solver-opt.h`: `TypedSolverOption::Parse`,
`StoredOption<bool>`, `echo_with_value`.
Core Lean only.
-/
namespace MpVerif.C11

/-! ## option table -/

inductive Val
  | int (v : Int)
  | dbl (text : Bytes)   -- the text `strtod` consumed; the stored double is `strtod(text)`
  | str (b : Bytes)
  | flag (b : Bool)
  deriving DecidableEq, Repr


inductive Kind
  | int | dbl | str | flag
  | optfile   -- `tech:optionfile`: a string option whose setter (`UseOptionFile`) reads and parses the named file
  deriving DecidableEq, Repr

/-- validation done by an integer option's setter (`SetObjNo`, `BoolOption::SetValue` style):
the setter throws `InvalidOptionValue` when the check fails. -/
inductive IntChk
  | any | nonneg | bool01
  | mask15    -- `SetWantSol`: throws if `value & ~0xf`
  deriving DecidableEq, Repr

structure OptDecl where
  id : Nat            -- index of the option's value slot
  name : Bytes        -- first word of the names list
  syns : List Bytes   -- remaining words: "inline synonyms"
  kind : Kind
  chk : IntChk := .any
  isList : Bool := false          -- `AddListOption`: the setter appends, the getter returns the last element
  dflt : Option Val := none       -- what the getter shows before any assignment, if not the type's default
  echoAs : Option Bytes := none   -- out-of-line synonym (`SolverOptionSynonym`): `echo()` is "syn (real)"
  deriving Repr

/-- the option set in iteration order (`std::set` ordered by `strcasecmp` of the names). -/
abbrev Table := List OptDecl

def lowerAll (b : Bytes) : Bytes := b.map lower

/-- `strcasecmp(a, b) == 0` -/
def ciEq (a b : Bytes) : Bool := lowerAll a == lowerAll b

/-- lexicographic `<` on unsigned bytes (a proper prefix is smaller). -/
def bytesLt : Bytes → Bytes → Bool
  | [], [] => false
  | [], _ :: _ => true
  | _ :: _, [] => false
  | a :: as, b :: bs =>
    if a.toNat < b.toNat then true else if b.toNat < a.toNat then false else bytesLt as bs

/-- `strcasecmp(a, b) < 0` -/
def ciLt (a b : Bytes) : Bool := bytesLt (lowerAll a) (lowerAll b)

/-- `options_.insert(opt)`: `none` if an option with a `strcasecmp`-equal name exists. -/
def insertOpt (d : OptDecl) : Table → Option Table
  | [] => some [d]
  | e :: es =>
    if ciLt d.name e.name then some (d :: e :: es)
    else if ciLt e.name d.name then (insertOpt d es).map (e :: ·)
    else none

/-- `AddOption` (throws `std::logic_error` for a duplicate: the table is unchanged). -/
def addOption (t : Table) (d : OptDecl) : Table := (insertOpt d t).getD t

def star : UInt8 := 42

def hasStar (b : Bytes) : Bool := b.any (fun c => c == star)

/-- `is_wildcard()`: `wc_headtails_` is filled iff the *name* contains `*`. -/
def OptDecl.isWildcard (d : OptDecl) : Bool := hasStar d.name

/-- `wc_split`: head and tail around the first `*`.  For a string without `*`
(`find_first_of` = npos; the asserts are compiled out) both `substr` calls return
the whole string. -/
def wcSplit (b : Bytes) : Bytes × Bytes :=
  if hasStar b then (b.takeWhile (fun c => c != star), (b.dropWhile (fun c => c != star)).drop 1)
  else (b, b)

/-- `wc_headtails_` -/
def OptDecl.headTails (d : OptDecl) : List (Bytes × Bytes) :=
  if d.isWildcard then wcSplit d.name :: d.syns.map wcSplit else []

/-- one `(head, tail)` against `key`, as `wc_match` tests it; returns the body.
`key.substr(head.size(), key.size()-tail.size()-head.size())`: the count wraps around
(size_t) when head and tail overlap in `key`, and `substr` then returns everything after the head. -/
def wcMatch1 (ht : Bytes × Bytes) (key : Bytes) : Option Bytes :=
  if ht.1.isPrefixOf key && decide (key.length > ht.2.length) && ht.2.isSuffixOf key then
    if ht.1.length + ht.2.length ≤ key.length then
      some ((key.drop ht.1.length).take (key.length - ht.2.length - ht.1.length))
    else some (key.drop ht.1.length)
  else none

def wcMatch (hts : List (Bytes × Bytes)) (key : Bytes) : Option Bytes :=
  hts.findSome? (fun ht => wcMatch1 ht key)

/-! ## state -/

def Kind.default : Kind → Val
  | .int => .int 0
  | .dbl => .dbl []
  | .str => .str []
  | .flag => .flag false
  | .optfile => .str []

structure Slot where
  val : Val                      -- value of a plain option
  log : List (Bytes × Val) := [] -- wildcard option: (body, value) of every assignment, newest first
  wcKey : Bytes := []            -- `wc_key_last_`
  wcBody : Bytes := []           -- `wc_body_last_`
  deriving DecidableEq, Repr

inductive Err
  | unknown (name : Bytes)       -- HandleUnknownOption
  | flagArg (name : Bytes)       -- "Option ... doesn't accept an argument"
  | fileError (name : Bytes)     -- "Failed to read option file" (thrown, not reported through the handler)
  | fileNesting (name : Bytes)   -- "Option files nested too deeply (recursive inclusion?)" (thrown; ampl/mp 5ace2c7)
  deriving DecidableEq, Repr

structure St where
  slots : List Slot
  errs : List Err := []                   -- ReportError calls, newest first (`has_errors_` = non-empty)
  echo : List (Bytes × Option Val) := []  -- Print calls of ParseOptionString, newest first: echoed name, value (none for flags)
  deriving DecidableEq, Repr

def St.slot (st : St) (i : Nat) : Slot := st.slots.getD i { val := .flag false }

def St.modify (st : St) (i : Nat) (f : Slot → Slot) : St :=
  { st with slots := st.slots.set i (f (st.slot i)) }

/-- the option keeps a record of assignments (wildcard option with accessor functions keyed by the
key body; list option) instead of a single variable -/
def OptDecl.logged (d : OptDecl) : Bool := (d.isWildcard && d.kind != .flag) || d.isList

/-- what the getter returns: for a wildcard option the last value recorded for the current body,
for a list option the last element.  (`ListOption::GetValue` on an empty list is `value_.back()`
on an empty vector, undefined behaviour; the model shows the type's default, the generators never
query a list option before assigning it.) -/
def getValue (d : OptDecl) (sl : Slot) : Val :=
  if d.logged then
    match sl.log.find? (fun e => e.1 == sl.wcBody) with
    | some e => e.2
    | none => d.kind.default
  else sl.val

/-- `SetValue` through the option's setter.  (A flag is a `StoredOption<bool>`: it writes its
variable whatever the name pattern.) -/
def setValue (d : OptDecl) (v : Val) (sl : Slot) : Slot :=
  if d.logged then { sl with log := (sl.wcBody, v) :: sl.log } else { sl with val := v }

/-- `echo()`: the name, or head ++ last body ++ tail of the name pattern for a wildcard option. -/
def echoName (d : OptDecl) (sl : Slot) : Bytes :=
  match d.echoAs with
  | some e => e
  | none => if d.isWildcard then (wcSplit d.name).1 ++ sl.wcBody ++ (wcSplit d.name).2 else d.name

def doEcho (noEcho : Bool) (d : OptDecl) (st : St) : St :=
  if noEcho then st
  else
    let sl := st.slot d.id
    { st with echo := (echoName d sl, if d.kind == .flag then none else some (getValue d sl)) :: st.echo }

/-! ## lookup -/

/-- The second loop of `FindOption(name, wildcardvalues = true)`: visits the options in set
order; per option first the inline synonyms (case-insensitive; for a wildcard option a hit means
"unknown", as for its name, since ampl/mp 084cb26), then `wc_match` (case-sensitive; on success it
returns the body that `wc_match` records). -/
def findLoop (key : Bytes) : Table → Option (OptDecl × Option Bytes)
  | [] => none
  | d :: ds =>
    if d.syns.any (fun syn => ciEq key syn) then
      (if d.isWildcard then none else some (d, none))   -- ampl/mp 084cb26: a wildcard pattern itself is not a key
    else
      match wcMatch d.headTails key with
      | some body => some (d, some body)
      | none => findLoop key ds

/-- which option `FindOption(key, true)` returns, and the wildcard body if it was found by `wc_match`. -/
def lookup (t : Table) (key : Bytes) : Option (OptDecl × Option Bytes) :=
  match t.find? (fun d => ciEq d.name key) with
  | some d => if d.isWildcard then none else some (d, none)
  | none => findLoop key t

/-- the side effect of a successful `wc_match`: `wc_key_last_`, `wc_body_last_`. -/
def noteMatch (d : OptDecl) (key : Bytes) (ob : Option Bytes) (st : St) : St :=
  match ob with
  | none => st
  | some body => st.modify d.id (fun sl => { sl with wcKey := key, wcBody := body })

def findOption (t : Table) (key : Bytes) (st : St) : Option (OptDecl × St) :=
  (lookup t key).map (fun r => (r.1, noteMatch r.1 key r.2 st))

/-! ## one iteration of the `for (;;)` loop of `ParseOptionString` -/

inductive Outcome
  | ok
  | threwLogic     -- std::logic_error("Empty option name list") from the DummyOption constructor
  | threwError     -- mp::Error thrown by the (default) error handler
  | threwInvalid   -- InvalidOptionValue thrown by a setter
  deriving DecidableEq, Repr

structure Cfg where
  table : Table
  noEcho : Bool      -- flags & NO_OPTION_ECHO
  cmdLine : Bool     -- flags & FROM_COMMAND_LINE
  throwing : Bool    -- the installed ErrorHandler throws (BasicSolver's default one does)
  /-- `UseOptionFile(value)`: `save` is the assignment `option_file_save_ = value`, which happens
  after the nesting test and before the file is read -/
  onFile : Bytes → (St → St) → St → Outcome × St := fun _ _ st => (.threwError, st)

inductive Step
  | done                         -- `*s == 0` after blanks: return
  | cont (s : Bytes) (st : St)   -- next iteration
  | stop (o : Outcome) (st : St) -- exception / undefined behaviour

/-- `*s == '?'` and the next character is NUL or a blank. -/
def isQuery (s : Bytes) : Bool :=
  match s with
  | c :: r => c.toNat == 63 && (match r with | [] => true | d :: _ => isSpace d)
  | [] => false

def intChkOk : IntChk → Int → Bool
  | .any, _ => true
  | .nonneg, v => decide (0 ≤ v)
  | .mask15, v => decide (0 ≤ v ∧ v ≤ 15)
  | .bool01, v => decide (v = 0 ∨ v = 1)

def reportError (cfg : Cfg) (e : Err) (s : Bytes) (st : St) : Step :=
  let st' := { st with errs := e :: st.errs }
  if cfg.throwing then .stop .threwError st' else .cont s st'

/-- `opt->Parse(s, flags & FROM_COMMAND_LINE)` followed by the echo. -/
def parseValue (cfg : Cfg) (d : OptDecl) (s : Bytes) (st : St) : Step :=
  match d.kind with
  | .flag => .cont s (doEcho cfg.noEcho d (st.modify d.id (setValue d (.flag true))))
  | .int =>
    let (v, r) := parseInt s
    if intChkOk d.chk v then .cont r (doEcho cfg.noEcho d (st.modify d.id (setValue d (.int v))))
    else .stop .threwInvalid st
  | .dbl =>
    let (t, r) := parseDbl s
    .cont r (doEcho cfg.noEcho d (st.modify d.id (setValue d (.dbl t))))
  | .str =>
    let (v, r) := parseStrVal cfg.cmdLine s
    .cont r (doEcho cfg.noEcho d (st.modify d.id (setValue d (.str v))))
  | .optfile =>
    let (v, r) := parseStrVal cfg.cmdLine s
    match cfg.onFile v (fun s0 => s0.modify d.id (setValue d (.str v))) st with
    | (.ok, st2) => .cont r (doEcho cfg.noEcho d st2)
    | (o, st2) => .stop o st2

/-- after the leading blanks: the name token, and the rest after blanks, an optional `=`, blanks. -/
def nameOf (s1 : Bytes) : Bytes := s1.takeWhile isNameChar

def afterName (s1 : Bytes) : Bool × Bytes :=
  let s2 := skipSpaces (s1.dropWhile isNameChar)
  match s2 with
  | c :: r => if c.toNat == 61 then (true, skipSpaces r) else (false, s2)
  | [] => (false, s2)

def step (cfg : Cfg) (s : Bytes) (st : St) : Step :=
  let s1 := skipSpaces s
  if s1.isEmpty then .done
  else
    let name := nameOf s1
    let (eq, s3) := afterName s1
    if name.isEmpty then .stop .threwLogic st
    else
      match findOption cfg.table name st with
      | none => reportError cfg (.unknown name) s3 st
      | some (d, st1) =>
        if isQuery s3 then .cont (s3.drop 1) (doEcho cfg.noEcho d st1)
        else if eq && d.kind == .flag then reportError cfg (.flagArg name) (skipNonSpaces s3) st1
        else parseValue cfg d s3 st1

/-! ## progress: every iteration that continues has consumed at least one byte -/

theorem afterName_length_le (s1 : Bytes) : (afterName s1).2.length ≤ (s1.dropWhile isNameChar).length := by
  unfold afterName
  simp only
  have h1 := skipSpaces_length_le (s1.dropWhile isNameChar)
  split
  · rename_i c r heq
    rw [heq] at h1
    split
    · have := skipSpaces_length_le r; simp at h1 ⊢; omega
    · simp only; rw [heq]; exact h1
  · simp only; exact h1

theorem nameOf_nonempty_drop {s1 : Bytes} (h : (nameOf s1).isEmpty = false) :
    (s1.dropWhile isNameChar).length < s1.length := by
  unfold nameOf at h
  cases s1 with
  | nil => simp at h
  | cons c r =>
    simp only [List.takeWhile_cons, List.dropWhile_cons] at h ⊢
    split at h
    · rename_i hc; simp [hc]; have := dropWhile_length_le isNameChar r; omega
    · simp at h

theorem parseValue_progress {cfg : Cfg} {d : OptDecl} {s s' : Bytes} {st st' : St}
    (h : parseValue cfg d s st = .cont s' st') : s'.length ≤ s.length := by
  unfold parseValue at h
  split at h
  · simp at h; rw [← h.1]; omega
  · simp only at h
    split at h
    · simp at h; rw [← h.1]; exact parseInt_length_le s
    · simp at h
  · simp at h; rw [← h.1]; exact parseDbl_length_le s
  · simp at h; rw [← h.1]; exact parseStrVal_length_le _ s
  · simp only at h
    split at h
    · simp at h; rw [← h.1]; exact parseStrVal_length_le _ s
    · simp at h

theorem reportError_progress {cfg : Cfg} {e : Err} {s s' : Bytes} {st st' : St}
    (h : reportError cfg e s st = .cont s' st') : s' = s := by
  unfold reportError at h
  simp only at h
  split at h
  · simp at h
  · simp at h; exact h.1.symm

/-- **Progress.** If an iteration of the parsing loop continues with `s'`, then `s'` is
strictly shorter than `s`: at least one byte was consumed. -/
theorem step_progress {cfg : Cfg} {s s' : Bytes} {st st' : St}
    (h : step cfg s st = .cont s' st') : s'.length < s.length := by
  unfold step at h
  simp only at h
  split at h
  · simp at h
  · split at h
    · simp at h
    · rename_i hne
      have h0 := skipSpaces_length_le s
      have h1 := nameOf_nonempty_drop (by simpa using hne)
      have h2 := afterName_length_le (skipSpaces s)
      split at h
      · have := reportError_progress h; subst this; omega
      · split at h
        · simp at h; rw [← h.1]; simp; omega
        · split at h
          · have := reportError_progress h; subst this
            have := skipNonSpaces_length_le (afterName (skipSpaces s)).2; omega
          · have := parseValue_progress h; omega

/-! ## `ParseOptionString` -/

/-- `BasicSolver::ParseOptionString(s, flags)`: iterate `step`.  Accepted by Lean as a total
function because of `step_progress` (well-founded recursion on the remaining length, no fuel). -/
def parseStr (cfg : Cfg) (s : Bytes) (st : St) : Outcome × St :=
  match h : step cfg s st with
  | .done => (.ok, st)
  | .cont s' st' => parseStr cfg s' st'
  | .stop o st' => (o, st')
termination_by s.length
decreasing_by exact step_progress h

set_option linter.unusedVariables false in
/-- number of loop iterations executed (for the progress theorem and the coverage histogram). -/
def parseIters (cfg : Cfg) (s : Bytes) (st : St) : Nat :=
  match h : step cfg s st with
  | .done => 0
  | .cont s' st' => parseIters cfg s' st' + 1
  | .stop _ _ => 1
termination_by s.length
decreasing_by exact step_progress h

/-! ## `ParseOptions`: mp_options, <exe>_options or <solver>_options, argv -/

abbrev Env := List (Bytes × Bytes)

/-- `getenv` after a sequence of `putenv(name=value)` calls: the last one wins. -/
def getenv (env : Env) (name : Bytes) : Option Bytes :=
  (env.reverse.find? (fun e => e.1 == name)).map (·.2)

def slash : UInt8 := 47
def dot : UInt8 := 46

/-- `path(s).filename().string()`: the part after the last `/`. -/
def fileName (p : Bytes) : Bytes :=
  (p.reverse.takeWhile (fun c => c != slash)).reverse

/-- strip a final `.exe` or `.app` (the extension starts at the last `.`). -/
def stripExt (b : Bytes) : Bytes :=
  let ext := (b.reverse.takeWhile (fun c => c != dot)).reverse
  if b.any (fun c => c == dot) && (ext == [101, 120, 101] || ext == [97, 112, 112])
  then b.take (b.length - 4) else b

def suffixOptions : Bytes := [95, 111, 112, 116, 105, 111, 110, 115]  -- "_options"
def mpOptions : Bytes := [109, 112] ++ suffixOptions                   -- "mp_options"

structure Call where
  table : Table
  solverName : Bytes
  exePath : Bytes
  env : Env
  argv : Option (List Bytes)
  noEcho : Bool
  cmdLineFlag : Bool   -- caller passed FROM_COMMAND_LINE in `flags`
  throwing : Bool
  files : List (Bytes × Bytes) := []   -- the file system seen by `tech:optionfile`: name ↦ content

/-- parse a list of strings one after the other, stopping at the first exception. -/
def parseMany (cfg : Cfg) : List Bytes → St → Outcome × St
  | [], st => (.ok, st)
  | s :: ss, st =>
    match parseStr cfg s st with
    | (.ok, st') => parseMany cfg ss st'
    | r => r

/-- the option strings `ParseOptions` reads from the environment, in order. -/
def envSources (c : Call) : List Bytes :=
  let s1 := (getenv c.env mpOptions).toList
  let exeVar := if c.exePath.isEmpty then none
                else getenv c.env (stripExt (fileName c.exePath) ++ suffixOptions)
  let s2 := match exeVar with
            | some v => [v]
            | none => (getenv c.env (c.solverName ++ suffixOptions)).toList
  s1 ++ s2

/-- the lines of a text (separator `\n`) -/
def splitLines : Bytes → List Bytes
  | [] => [[]]
  | c :: r =>
    if c.toNat == 10 then [] :: splitLines r
    else match splitLines r with
      | [] => [[c]]
      | l :: ls => (c :: l) :: ls

/-- `ProcessLines_AvoidComments`: the lines handed to the parser — non-empty lines from their first
non-blank character on, unless that character is `#` (or the line is blank) -/
def fileLines (content : Bytes) : List Bytes :=
  (splitLines content).filterMap (fun l =>
    let t := l.dropWhile isSpace
    match t with
    | [] => none
    | c :: _ => if c.toNat == 35 then none else some t)

/-- `UseOptionFile` with `n` more nesting levels allowed (ampl/mp 5ace2c7: beyond 32 nested option
files `mp::Error` "nested too deeply" is thrown, before the name is saved; so a file that names
itself ends with an error).  A missing file throws `mp::Error`; the lines are parsed with
`option_flag_save_`, i.e. the flags `ParseOptions` was called with (never FROM_COMMAND_LINE added
for argv). -/
def fileLevel (c : Call) : Nat → Bytes → (St → St) → St → Outcome × St
  | 0 => fun name _ st => (.threwError, { st with errs := .fileNesting name :: st.errs })
  | n + 1 => fun name save st0 =>
    let st := save st0
    match c.files.find? (fun f => f.1 == name) with
    | none => (.threwError, { st with errs := .fileError name :: st.errs })
    | some f =>
      parseMany { table := c.table, noEcho := c.noEcho, cmdLine := c.cmdLineFlag, throwing := c.throwing,
                  onFile := fileLevel c n } (fileLines f.2) st

/-- the configuration the lines of an option file are parsed with when `n` more nesting levels are allowed -/
def Call.cfgFile (c : Call) (n : Nat) : Cfg :=
  { table := c.table, noEcho := c.noEcho, cmdLine := c.cmdLineFlag, throwing := c.throwing, onFile := fileLevel c n }

/-- `if (nesting > 32) MP_RAISE(...)` -/
def maxFileDepth : Nat := 32

/-- `BasicSolver::ParseOptions(argv, flags)`; result: outcome, final state
(`has_errors_` was reset: the return value is `errs.isEmpty`). -/
def Call.cfgEnv (c : Call) : Cfg :=
  { table := c.table, noEcho := c.noEcho, cmdLine := c.cmdLineFlag, throwing := c.throwing,
    onFile := fileLevel c maxFileDepth }

/-- for argv: `flags |= FROM_COMMAND_LINE` -/
def Call.cfgArg (c : Call) : Cfg := { c.cfgEnv with cmdLine := true }

def parseOptions (c : Call) (st : St) : Outcome × St :=
  match parseMany c.cfgEnv (envSources c) { st with errs := [] } with
  | (.ok, st1) => parseMany c.cfgArg (c.argv.getD []) st1
  | r => r

/-! ## the standard options of `BasicSolver::InitMetaInfoAndOptions(name, long_name, date, flags)` -/

def bs (s : String) : Bytes := s.toUTF8.toList

/-- MULTIPLE_SOL = 1, MULTIPLE_OBJ = 2.  Slot ids 0..8 are reserved for them. -/
def stdDecls (flags : Nat) : List OptDecl :=
  [ { id := 0, name := bs "tech:version", syns := [bs "version"], kind := .flag },
    { id := 1, name := bs "tech:optionfile", syns := [bs "optionfile", bs "option:file"], kind := .optfile },
    { id := 2, name := bs "tech:wantsol", syns := [bs "wantsol"], kind := .int, chk := .mask15 },
    { id := 3, name := bs "obj:no", syns := [bs "objno"], kind := .int, chk := .nonneg, dflt := some (.int 1) },
    { id := 4, name := bs "tech:debug", syns := [bs "debug"], kind := .int, chk := .bool01 } ] ++
  (if flags / 2 % 2 == 1 then [{ id := 5, name := bs "obj:multi", syns := [bs "multiobj"], kind := .int, chk := .bool01 }] else []) ++
  [ { id := 6, name := bs "tech:timing", syns := [bs "timing"], kind := .int, chk := .bool01 } ] ++
  (if flags % 2 == 1 then
    [ { id := 7, name := bs "sol:count", syns := [bs "countsolutions"], kind := .int, chk := .bool01 },
      { id := 8, name := bs "sol:stub", syns := [bs "solstub", bs "solutionstub"], kind := .str } ] else [])

/-- number of `Print` calls of `ShowVersion()` at the end of `ParseOptions` if the `version` flag was
set during this call: "name (sysinfo)", ", driver(date)" if date > 0 (harness: bit 4 of `flags` = date 0),
", MP(date)", the licence text if any (bit 8 = a licence text is set); no external libraries -/
def versionPrints (flags : Nat) (st : St) : Nat :=
  match (st.slot 0).val with
  | .flag true => 2 + (if flags / 4 % 2 == 1 then 0 else 1) + (if flags / 8 % 2 == 1 then 1 else 0)
  | _ => 0

/-- a solver object right after construction: the declared options were added one by one. -/
def buildTable (decls : List OptDecl) : Table := decls.foldl addOption []

/-- value slots by id; a declared default (`obj:no` shows 1 before it is set) overrides the type's -/
def initSlots (n : Nat) (decls : List OptDecl) : List Slot :=
  (List.range n).map (fun i =>
    match decls.find? (fun d => d.id == i) with
    | some d => { val := (d.dflt.getD d.kind.default) }
    | none => { val := .flag false })

def initState (decls : List OptDecl) : St :=
  { slots := initSlots ((decls.map (·.id)).foldl max 0 + 1) decls }

end MpVerif.C11

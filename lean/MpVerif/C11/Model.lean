/-!
# C11 — model of the solver option parser of ampl/mp (lexical layer and numeric recognisers)

Mirrors, function by function, `src/solver.cc`:

* `SkipSpaces`, `SkipNonSpaces`, `SkipToEnd`, `SkipToMatchingQuote`
* `internal::OptionHelper<int|double|std::string>::Parse`

A C string is modelled by the list of its bytes *before* the terminating NUL
(`Bytes`); "the pointer `s`" is a suffix of that list and `*s == 0` is `s = []`.
All functions below only ever inspect the head of the suffix they hold, i.e. a
byte at an index ≤ the index of the NUL.  (Before ampl/mp 7d345ba `SkipToMatchingQuote` had no
NUL test and read beyond the NUL on an unterminated quote; the model then had an explicit
"over-read" result.)  `MpVerif/C11/ModelPtr.lean` gives the same scanners as pointer machines
over a buffer with explicit read indices and proves the agreement.

`isspace`/`tolower` are the "C" locale ones (the harness never calls `setlocale`).
Core Lean only.
-/
namespace MpVerif.C11

abbrev Bytes := List UInt8

/-! ## character classes ("C" locale) -/

/-- `isspace` in the C locale: space, \t \n \v \f \r. -/
def isSpace (c : UInt8) : Bool := c.toNat == 32 || (9 ≤ c.toNat && c.toNat ≤ 13)

def isDigit (c : UInt8) : Bool := 48 ≤ c.toNat && c.toNat ≤ 57

/-- `tolower` in the C locale. -/
def lower (c : UInt8) : UInt8 :=
  if 65 ≤ c.toNat && c.toNat ≤ 90 then UInt8.ofNat (c.toNat + 32) else c

def isHex (c : UInt8) : Bool :=
  isDigit c || (97 ≤ (lower c).toNat && (lower c).toNat ≤ 102)

/-- characters glibc accepts inside `nan(...)`. -/
def isNanChar (c : UInt8) : Bool :=
  isDigit c || (97 ≤ (lower c).toNat && (lower c).toNat ≤ 122) || c.toNat == 95

/-- `'\''` or `'"'`. -/
def isQuote (c : UInt8) : Bool := c.toNat == 39 || c.toNat == 34

/-- characters of an option name token: `*s && !isspace(*s) && *s != '='`. -/
def isNameChar (c : UInt8) : Bool := !isSpace c && c.toNat != 61

/-! ## the four scanners -/

def skipSpaces (s : Bytes) : Bytes := s.dropWhile isSpace
def skipNonSpaces (s : Bytes) : Bytes := s.dropWhile (fun c => !isSpace c)
def skipToEnd (s : Bytes) : Bytes := s.dropWhile (fun c => c.toNat != 10)

/-- `SkipToMatchingQuote(s)` for `s = q :: r` (`q` a quote character) together with what
`OptionHelper<std::string>::Parse` makes of it (ampl/mp 7d345ba): the scan
`while (*s && *s != quote) ++s;` stops at the closing quote or at the terminating NUL; the value
is the text in between; the closing quote, if there is one, is skipped. -/
def skipToMatchingQuote (q : UInt8) (r : Bytes) : Bytes × Bytes :=
  (r.takeWhile (fun c => c != q), (r.dropWhile (fun c => c != q)).drop 1)

/-! ## integer values: `strtol(s, &end, 10)` then `long → int` -/

def digitVal (c : UInt8) : Nat := c.toNat - 48

/-- value of a decimal digit string, most significant first. -/
def digitsVal (ds : Bytes) : Nat := ds.foldl (fun a d => 10 * a + digitVal d) 0

def LONG_MAX : Int := 9223372036854775807
def LONG_MIN : Int := -9223372036854775808

/-- `strtol` saturates at `LONG_MIN`/`LONG_MAX` (errno is not inspected by the caller). -/
def clampLong (v : Int) : Int := if v < LONG_MIN then LONG_MIN else if v > LONG_MAX then LONG_MAX else v

/-- conversion `long → int` as g++/clang do it (modular). -/
def wrap32 (v : Int) : Int := (v + 2147483648) % 4294967296 - 2147483648

/-- an optional `+`/`-` is skipped. -/
def stripSign (t : Bytes) : Bytes :=
  match t with
  | c :: r => if c.toNat == 45 || c.toNat == 43 then r else t
  | [] => t

def startsNeg (t : Bytes) : Bool :=
  match t with
  | c :: _ => c.toNat == 45
  | [] => false

/-- `OptionHelper<int>::Parse`: value stored and the new `s`.  When no digits are
found `strtol` sets `end = s` (nothing consumed, not even blanks or the sign) and
returns 0. -/
def parseInt (s : Bytes) : Int × Bytes :=
  let t := skipSpaces s
  let u := stripSign t
  let ds := u.takeWhile isDigit
  if ds.isEmpty then (0, s)
  else
    let n : Int := (digitsVal ds : Nat)
    (wrap32 (clampLong (if startsNeg t then -n else n)), u.dropWhile isDigit)

/-! ## real values: the extent `strtod` consumes (glibc, C locale)

The numeric value is delegated to libc: the model carries the consumed text. -/

/-- optional exponent `[eE][+-]?digits+` (marker `101`) or `[pP][+-]?digits+` (marker `112`);
if it is malformed nothing of it is consumed. -/
def skipExp (marker : UInt8) (s : Bytes) : Bytes :=
  match s with
  | [] => s
  | c :: r =>
    if lower c == marker then
      let r' := stripSign r
      if (r'.takeWhile isDigit).isEmpty then s else r'.dropWhile isDigit
    else s

/-- mantissa `D+ [. D*] | . D+` followed by an optional exponent; `none` if there is no digit. -/
def mantExtent (isD : UInt8 → Bool) (marker : UInt8) (u : Bytes) : Option Bytes :=
  let ip := u.takeWhile isD
  let r1 := u.dropWhile isD
  match r1 with
  | c :: r2 =>
    if c.toNat == 46 then
      if ip.isEmpty && (r2.takeWhile isD).isEmpty then none
      else some (skipExp marker (r2.dropWhile isD))
    else if ip.isEmpty then none else some (skipExp marker r1)
  | [] => if ip.isEmpty then none else some r1

/-- case-insensitive prefix test against a lower-case pattern; returns the rest. -/
def ciStrip : (pat : Bytes) → (s : Bytes) → Option Bytes
  | [], s => some s
  | _ :: _, [] => none
  | p :: ps, c :: r => if lower c == p then ciStrip ps r else none

/-- `inf`, `infinity`, `nan`, `nan(n-char-seq)` (any case). -/
def specialExtent (u : Bytes) : Option Bytes :=
  match ciStrip [105, 110, 102] u with
  | some r =>
    match ciStrip [105, 110, 105, 116, 121] r with
    | some r' => some r'
    | none => some r
  | none =>
    match ciStrip [110, 97, 110] u with
    | some r =>
      match r with
      | c :: r1 =>
        if c.toNat == 40 then
          match r1.dropWhile isNanChar with
          | d :: r2 => if d.toNat == 41 then some r2 else some r
          | [] => some r
        else some r
      | [] => some r
    | none => none

/-- hexadecimal floating literal `0[xX]` mantissa `[pP]` exponent. -/
def hexExtent (u : Bytes) : Option Bytes :=
  match u with
  | z :: x :: r => if z.toNat == 48 && (lower x).toNat == 120 then mantExtent isHex 112 r else none
  | _ => none

/-- The end pointer of `strtod(s, &end)`: `s` itself if no conversion is performed. -/
def strtodRest (s : Bytes) : Bytes :=
  let u := stripSign (skipSpaces s)
  match specialExtent u with
  | some r => r
  | none =>
    match hexExtent u with
    | some r => r
    | none =>
      match mantExtent isDigit 101 u with
      | some r => r
      | none => s

/-- `OptionHelper<double>::Parse`: consumed text (whose `strtod` value is stored) and new `s`. -/
def parseDbl (s : Bytes) : Bytes × Bytes :=
  let r := strtodRest s
  (s.take (s.length - r.length), r)

/-! ## string values -/

/-- `OptionHelper<std::string>::Parse`: value and new `s`. -/
def parseStrVal (splitString : Bool) (s : Bytes) : Bytes × Bytes :=
  if splitString then (s.takeWhile (fun c => c.toNat != 10), skipToEnd s)
  else
    match s with
    | c :: r =>
      if isQuote c then skipToMatchingQuote c r
      else (s.takeWhile (fun c => !isSpace c), skipNonSpaces s)
    | [] => ([], [])

/-! ## suffix/length facts (progress) -/

theorem dropWhile_length_le (p : UInt8 → Bool) (s : Bytes) : (s.dropWhile p).length ≤ s.length := by
  induction s with
  | nil => simp
  | cons c r ih => simp only [List.dropWhile_cons]; split <;> simp <;> omega

theorem skipSpaces_length_le (s : Bytes) : (skipSpaces s).length ≤ s.length := dropWhile_length_le _ s
theorem skipNonSpaces_length_le (s : Bytes) : (skipNonSpaces s).length ≤ s.length := dropWhile_length_le _ s
theorem skipToEnd_length_le (s : Bytes) : (skipToEnd s).length ≤ s.length := dropWhile_length_le _ s

theorem stripSign_length_le (t : Bytes) : (stripSign t).length ≤ t.length := by
  unfold stripSign
  split
  · split <;> simp
  · simp

theorem skipToMatchingQuote_length_le (q : UInt8) (r : Bytes) : (skipToMatchingQuote q r).2.length ≤ r.length := by
  unfold skipToMatchingQuote
  have := dropWhile_length_le (fun c => c != q) r
  simp; omega

theorem parseInt_length_le (s : Bytes) : (parseInt s).2.length ≤ s.length := by
  unfold parseInt
  simp only
  split
  · simp
  · simp only
    have h1 := skipSpaces_length_le s
    have h2 := stripSign_length_le (skipSpaces s)
    have h3 := dropWhile_length_le isDigit (stripSign (skipSpaces s))
    omega

theorem skipExp_length_le (m : UInt8) (s : Bytes) : (skipExp m s).length ≤ s.length := by
  unfold skipExp
  split
  · simp
  · rename_i c r
    split
    · simp only
      split
      · simp
      · have h2 := stripSign_length_le r
        have h3 := dropWhile_length_le isDigit (stripSign r)
        simp; omega
    · simp

theorem mantExtent_length_le {isD : UInt8 → Bool} {m : UInt8} {u r : Bytes}
    (h : mantExtent isD m u = some r) : r.length ≤ u.length := by
  unfold mantExtent at h
  simp only at h
  have h1 := dropWhile_length_le isD u
  split at h
  · rename_i c r2 heq
    rw [heq] at h1
    split at h
    · split at h
      · simp at h
      · simp at h; subst h
        have := skipExp_length_le m (r2.dropWhile isD)
        have := dropWhile_length_le isD r2
        simp at h1; omega
    · split at h
      · simp at h
      · simp at h; subst h
        have := skipExp_length_le m (u.dropWhile isD)
        have := dropWhile_length_le isD u; omega
  · rename_i heq
    split at h
    · simp at h
    · simp at h; subst h; omega

theorem ciStrip_length_le {p s r : Bytes} (h : ciStrip p s = some r) : r.length ≤ s.length := by
  induction p generalizing s with
  | nil => simp [ciStrip] at h; subst h; omega
  | cons a ps ih =>
    cases s with
    | nil => simp [ciStrip] at h
    | cons c t =>
      simp only [ciStrip] at h
      split at h
      · have := ih h; simp; omega
      · simp at h

theorem specialExtent_length_le {u r : Bytes} (h : specialExtent u = some r) : r.length ≤ u.length := by
  unfold specialExtent at h
  split at h
  · rename_i r0 h0
    have l0 := ciStrip_length_le h0
    split at h
    · rename_i r1 h1
      have l1 := ciStrip_length_le h1
      simp at h; subst h; omega
    · simp at h; subst h; omega
  · split at h
    · rename_i r0 h0
      have l0 := ciStrip_length_le h0
      split at h
      · rename_i c r1
        split at h
        · split at h
          · rename_i d r2 hd
            have l2 := dropWhile_length_le isNanChar r1
            rw [hd] at l2
            split at h <;> simp at h <;> subst h <;> simp at l2 l0 ⊢ <;> omega
          · simp at h; subst h; omega
        · simp at h; subst h; omega
      · simp at h; subst h; omega
    · simp at h

theorem hexExtent_length_le {u r : Bytes} (h : hexExtent u = some r) : r.length ≤ u.length := by
  unfold hexExtent at h
  split at h
  · split at h
    · have := mantExtent_length_le h; simp; omega
    · simp at h
  · simp at h

theorem strtodRest_length_le (s : Bytes) : (strtodRest s).length ≤ s.length := by
  unfold strtodRest
  simp only
  have h1 := skipSpaces_length_le s
  have h2 := stripSign_length_le (skipSpaces s)
  split
  · rename_i r h; have := specialExtent_length_le h; omega
  · split
    · rename_i r h; have := hexExtent_length_le h; omega
    · split
      · rename_i r h; have := mantExtent_length_le h; omega
      · omega

theorem parseDbl_length_le (s : Bytes) : (parseDbl s).2.length ≤ s.length := strtodRest_length_le s

theorem parseStrVal_length_le (b : Bool) (s : Bytes) : (parseStrVal b s).2.length ≤ s.length := by
  unfold parseStrVal
  split
  · exact skipToEnd_length_le s
  · split
    · rename_i c r0
      split
      · have := skipToMatchingQuote_length_le c r0; simp; omega
      · exact skipNonSpaces_length_le _
    · simp

end MpVerif.C11

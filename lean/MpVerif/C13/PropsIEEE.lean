import MpVerif.C13.Props
import MpVerif.C13.Rounding
/-!
# C13 — the structural theorems for the IEEE instance of the model, with no assumption on the arithmetic
(proof-only file: uses `Rounding.lean`, which needs Mathlib; not imported by the driver)

`Rounding.lean` proves, about the *concrete* rounding functions the driver executes (`rndD`: binary64
round-to-nearest-even with gradual underflow; `rndS`: binary32 with overflow to a sentinel), that they are
monotone, idempotent, and that every binary32 value is a binary64 value.  Hence `Lawful ieee`, and
`C13_increasing` holds for exactly the model instance that the correspondence compares bit for bit with the
compiled code.
-/
namespace MpVerif.C13

/-- binary64 rounding is monotone (all rationals, including the subnormal range) -/
theorem C13_rndD_mono {a b : Rat} (h : a ≤ b) : rndD a ≤ rndD b := rndD_mono h

/-- binary64 rounding is idempotent -/
theorem C13_rndD_idem (q : Rat) : rndD (rndD q) = rndD q := rndD_idem q

/-- a value that went through `std::set<float>` is a double -/
theorem C13_rndS_is_double (q : Rat) : rndD (rndS q) = rndS q := rndD_rndS q

/-- the IEEE instance satisfies the arithmetic assumptions of `C13_increasing` -/
theorem C13_lawful_ieee : Lawful ieee := lawful_ieee

/-- **Breakpoints strictly increasing, IEEE instance, no hypothesis on the arithmetic**: for every function
record whose default breakpoints are doubles, every interval, tolerance, integrality flag and fuel. -/
theorem C13_increasing_ieee (f : Fn) (hb : ∀ b ∈ f.bps, rndD b = b) (p : Params) (fuel : Nat) (r : Res)
    (h : run ieee f p fuel = .ok r) : r.xs.Pairwise (· < ·) :=
  C13_increasing ieee lawful_ieee f hb p fuel r h

/-- `AddPoint` sequences over doubles, IEEE instance -/
theorem C13_addPoint_increasing_ieee (pts : List (Rat × Rat)) (hpts : ∀ p ∈ pts, rndD p.1 = p.1) :
    ((pts.foldl (fun pl p => addPoint ieee pl p.1 p.2) []).reverse.map Prod.fst).Pairwise (· < ·) :=
  C13_addPoint_increasing ieee lawful_ieee pts hpts

end MpVerif.C13

namespace MpVerif.C13
theorem rndD_intCast (m : Int) (hm : |m| ≤ (2 : Int) ^ 53) : rndD (m : Rat) = (m : Rat) := by
  have := rndP_fix 53 (-1074) (by norm_num) m 0 hm (by norm_num)
  simpa [rndD] using this

theorem rndD_half (m : Int) (hm : |2 * m + 1| ≤ (2 : Int) ^ 53) : rndD ((m : Rat) + 1/2) = (m : Rat) + 1/2 := by
  have h := rndP_fix 53 (-1074) (by norm_num) (2 * m + 1) (-1) hm (by norm_num)
  have e : ((2 * m + 1 : Int) : Rat) * (2 : Rat) ^ (-1 : Int) = (m : Rat) + 1/2 := by
    push_cast; rw [zpow_neg_one]; ring
  rw [e] at h
  exact h

/-- **The IEEE instance computes the integrality shortcut exactly** on integers of magnitude below `2^52`:
`x0 ⊕ j = x0 + j` and consecutive integers pass the `1e-4` keep test -/
theorem C13_intOK_ieee (z : Int) (B : Nat) (hb : |z| + (B : Int) < (2 : Int) ^ 52) : IntOK ieee (z : Rat) B := by
  constructor
  · intro j hj
    show rndD ((z : Rat) + (j : Rat)) = (z : Rat) + (j : Rat)
    have e : (z : Rat) + (j : Rat) = ((z + (j : Int) : Int) : Rat) := by push_cast; rfl
    rw [e]
    apply rndD_intCast
    have : |z + (j : Int)| ≤ |z| + (j : Int) := by
      have := abs_add_le z (j : Int); rwa [abs_of_nonneg (by omega : (0 : Int) ≤ (j : Int))] at this
    have hj' : (j : Int) ≤ (B : Int) := by exact_mod_cast hj
    have h52 : (2 : Int) ^ 52 ≤ (2 : Int) ^ 53 := by norm_num
    omega
  · intro j hj
    unfold keepCond
    show rndD ((z : Rat) + (j : Rat) + eps4) < (z : Rat) + ((j + 1 : Nat) : Rat)
    have e : (z : Rat) + (j : Rat) = ((z + (j : Int) : Int) : Rat) := by push_cast; rfl
    have hle : (z : Rat) + (j : Rat) + eps4 ≤ ((z + (j : Int) : Int) : Rat) + 1/2 := by
      rw [e]; have : eps4 ≤ (1/2 : Rat) := by decide +kernel
      linarith
    have h1 := rndD_mono hle
    have habs : |z + (j : Int)| ≤ |z| + (j : Int) := by
      have := abs_add_le z (j : Int); rwa [abs_of_nonneg (by omega : (0 : Int) ≤ (j : Int))] at this
    have hj' : (j : Int) + 1 ≤ (B : Int) := by exact_mod_cast hj
    have hm : |2 * (z + (j : Int)) + 1| ≤ (2 : Int) ^ 53 := by
      have h2 : |2 * (z + (j : Int)) + 1| ≤ 2 * |z + (j : Int)| + 1 := by
        have := abs_add_le (2 * (z + (j : Int))) 1
        rw [abs_mul, abs_one] at this
        simpa using this
      have h53 : (2 : Int) ^ 53 = 2 * (2 : Int) ^ 52 := by norm_num
      omega
    rw [rndD_half _ hm] at h1
    have : ((z + (j : Int) : Int) : Rat) + 1/2 < (z : Rat) + ((j + 1 : Nat) : Rat) := by
      push_cast; linarith
    exact lt_of_le_of_lt h1 this

/-- **Exactness at the integers for the arithmetic the driver executes**: integer `x0`, `|x0| + N < 2^52` -/
theorem C13_int_exact_ieee (f : Fn) (z : Int) (N : Nat) (hb : |z| + (N : Int) < (2 : Int) ^ 52) (r : PL)
    (h : intPoints ieee f (z : Rat) N 0 [] = .ok r) (j : Nat) (hj : j < N) :
    ∃ v, f.eval ((z : Rat) + (j : Rat)) = .fin v ∧ plEvalR r ((z : Rat) + (j : Rat)) = v :=
  C13_int_exact_lawful ieee f (z : Rat) N (C13_intOK_ieee z N hb) r h j hj

/-- non-vacuity: the IEEE shortcut on `x0 = -1`, `N = 4` for `f(x) = x` -/
example : (intPoints ieee idFn ((-1 : Int) : Rat) 4 0 []).toOption = some [(2, 2), (1, 1), (0, 0), (-1, -1)] := by
  decide +kernel

/-- non-vacuity of `C13_increasing_ieee`: the breakpoints of the concrete record `idFn` are doubles, and the run of the
float-rounding counterexample succeeds with two breakpoints -/
example : ∀ b ∈ idFn.bps, rndD b = b := by
  intro b hb
  simp only [idFn, List.mem_cons, List.mem_nil_iff, or_false] at hb
  rcases hb with rfl | rfl <;> decide +kernel
end MpVerif.C13

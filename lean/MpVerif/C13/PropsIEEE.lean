import MpVerif.C13.Props
import MpVerif.C13.Rounding
/-!
# C13 — the structural theorems for the IEEE instance of the model, with no assumption on the arithmetic
(proof-only file: uses `Rounding.lean`, which needs Mathlib; not imported by the driver)

`Rounding.lean` proves, about the *concrete* rounding functions the driver executes (`rndD`: binary64
round-to-nearest-even with gradual underflow; `rndS`: binary32 with overflow to a sentinel), that they are
monotone, idempotent, and that every binary32 value is a binary64 value.  Hence `Lawful ieee`, and
`C13_increasing` holds for exactly the model instance that the correspondence compares bit for bit with the
compiled code.
-/
namespace MpVerif.C13

/-- binary64 rounding is monotone (all rationals, including the subnormal range) -/
theorem C13_rndD_mono {a b : Rat} (h : a ≤ b) : rndD a ≤ rndD b := rndD_mono h

/-- binary64 rounding is idempotent -/
theorem C13_rndD_idem (q : Rat) : rndD (rndD q) = rndD q := rndD_idem q

/-- a value that went through `std::set<float>` is a double -/
theorem C13_rndS_is_double (q : Rat) : rndD (rndS q) = rndS q := rndD_rndS q

/-- the IEEE instance satisfies the arithmetic assumptions of `C13_increasing` -/
theorem C13_lawful_ieee : Lawful ieee := lawful_ieee

/-- **Breakpoints strictly increasing, IEEE instance, no hypothesis on the arithmetic**: for every function
record whose default breakpoints are doubles, every interval, tolerance, integrality flag and fuel. -/
theorem C13_increasing_ieee (f : Fn) (hb : ∀ b ∈ f.bps, rndD b = b) (p : Params) (fuel : Nat) (r : Res)
    (h : run ieee f p fuel = .ok r) : r.xs.Pairwise (· < ·) :=
  C13_increasing ieee lawful_ieee f hb p fuel r h

/-- `AddPoint` sequences over doubles, IEEE instance -/
theorem C13_addPoint_increasing_ieee (pts : List (Rat × Rat)) (hpts : ∀ p ∈ pts, rndD p.1 = p.1) :
    ((pts.foldl (fun pl p => addPoint ieee pl p.1 p.2) []).reverse.map Prod.fst).Pairwise (· < ·) :=
  C13_addPoint_increasing ieee lawful_ieee pts hpts

end MpVerif.C13

namespace MpVerif.C13
/-- non-vacuity of `C13_increasing_ieee`: the breakpoints of the concrete record `idFn` are doubles, and the run of the
float-rounding counterexample succeeds with two breakpoints -/
example : ∀ b ∈ idFn.bps, rndD b = b := by
  intro b hb
  simp only [idFn, List.mem_cons, List.mem_nil_iff, or_false] at hb
  rcases hb with rfl | rfl <;> decide +kernel
end MpVerif.C13

import MpVerif.C13.ChordRun
import Mathlib.Analysis.SpecialFunctions.ExpDeriv
/-!
# C13 — the accepted step with APPROXIMATE oracles (proof-only; Mathlib)

`ChordRun.lean` assumes that the model's oracle values ARE the values of the real function (`heval : F q = v`).  Since the
model's numbers are rationals, that is satisfiable only for functions that are rational at rational points (`x^a` with
integer `a`), not for exp / log / trigonometric / hyperbolic functions.  This file removes that restriction: the oracle
values are only assumed to be within `δ` of `F` at the three points the test looks at (`x0`, `x1`, `xm`), and the
middle-value point `xm` only has to satisfy `|F' xm − slope| ≤ δ1` (an approximate `inverse_1st`).  Conclusion:

    |F x − PL x| ≤ ubErr · max 1 |fm| + (x1 − x0)·δ1 + 5·δ      for every real x of the accepted segment,

where `PL` is the segment the MODEL produces (through the model's `(x0, y0)`, `(x1, f1)`), and `fm` the oracle value at `xm`.
Satisfiable for all 17 function types (rationals are dense); a concrete instance for `exp` with `δ = 1/1000`,
`δ1 = 1/100` is `C13_exp_step_instance` below.  Still: exact arithmetic for `+ − × ÷`, one accepted step (not the stored PL after
the merge rule / snap), `F'` strictly monotone on the segment.
-/
namespace MpVerif.C13.Chord
open Set MpVerif.C13

/-- **Chord lemma with an approximate middle-value point**: if `|F' xm − slope| ≤ η` then on the whole segment
`|F − chord| ≤ |F xm − chord xm| + (b − a)·η`. -/
theorem C13_chord_bound_approx {F F' : ℝ → ℝ} {a b : ℝ} (hab : a < b)
    (hF : ∀ x ∈ Icc a b, HasDerivAt F (F' x) x)
    (hmono : StrictMonoOn F' (Icc a b) ∨ StrictAntiOn F' (Icc a b))
    {xm η : ℝ} (hxm : xm ∈ Icc a b) (hη : |F' xm - (F b - F a) / (b - a)| ≤ η) :
    ∀ x ∈ Icc a b, |F x - chord F a b x| ≤ |F xm - chord F a b xm| + (b - a) * η := by
  set s := (F b - F a) / (b - a) with hs
  -- the exact maximiser c
  obtain ⟨c, hc, hcs, hmax⟩ : ∃ c ∈ Ioo a b, F' c = s ∧ ∀ x ∈ Icc a b, |F x - chord F a b x| ≤ |F c - chord F a b c| := by
    rcases hmono with h | h
    · obtain ⟨c, hc, h1, _, _, h4, _⟩ := C13_chord_error_max hab hF h; exact ⟨c, hc, h1, h4⟩
    · obtain ⟨c, hc, h1, _, _, h4, _⟩ := C13_chord_error_max_anti hab hF h; exact ⟨c, hc, h1, h4⟩
  have hcI : c ∈ Icc a b := Ioo_subset_Icc_self hc
  let g : ℝ → ℝ := fun x => F x - chord F a b x
  have hg : ∀ x ∈ Icc a b, HasDerivAt g (F' x - s) x := fun x hx => (hF x hx).sub (hasDerivAt_chord F a b x)
  have hη0 : 0 ≤ η := le_trans (abs_nonneg _) hη
  -- |g' ξ| ≤ η for ξ between xm and c
  have hbetween : ∀ ξ ∈ Icc a b, (min xm c ≤ ξ ∧ ξ ≤ max xm c) → |F' ξ - s| ≤ η := by
    intro ξ hξ hb
    have hxm' := abs_le.mp hη
    rcases hmono with h | h
    · have m1 : ∀ u ∈ Icc a b, ∀ v ∈ Icc a b, u ≤ v → F' u ≤ F' v := fun u hu v hv huv => h.monotoneOn hu hv huv
      rcases le_total xm c with hle | hle
      · rw [min_eq_left hle, max_eq_right hle] at hb
        have := m1 xm hxm ξ hξ hb.1; have := m1 ξ hξ c hcI hb.2
        rw [abs_le]; constructor <;> linarith
      · rw [min_eq_right hle, max_eq_left hle] at hb
        have := m1 c hcI ξ hξ hb.1; have := m1 ξ hξ xm hxm hb.2
        rw [abs_le]; constructor <;> linarith
    · have m1 : ∀ u ∈ Icc a b, ∀ v ∈ Icc a b, u ≤ v → F' v ≤ F' u := fun u hu v hv huv => h.antitoneOn hu hv huv
      rcases le_total xm c with hle | hle
      · rw [min_eq_left hle, max_eq_right hle] at hb
        have := m1 xm hxm ξ hξ hb.1; have := m1 ξ hξ c hcI hb.2
        rw [abs_le]; constructor <;> linarith
      · rw [min_eq_right hle, max_eq_left hle] at hb
        have := m1 c hcI ξ hξ hb.1; have := m1 ξ hξ xm hxm hb.2
        rw [abs_le]; constructor <;> linarith
  -- |g c - g xm| ≤ (b - a) η by the mean value theorem
  have hdiff : |g c - g xm| ≤ (b - a) * η := by
    rcases lt_trichotomy xm c with hlt | heq | hgt
    · have hsub : Icc xm c ⊆ Icc a b := Icc_subset_Icc hxm.1 hcI.2
      obtain ⟨ξ, hξ, hξe⟩ := exists_hasDerivAt_eq_slope g (fun x => F' x - s) hlt
        (fun x hx => (hg x (hsub hx)).continuousAt.continuousWithinAt) (fun x hx => hg x (hsub (Ioo_subset_Icc_self hx)))
      have hξI : ξ ∈ Icc a b := hsub (Ioo_subset_Icc_self hξ)
      have hb := hbetween ξ hξI ⟨by rw [min_eq_left hlt.le]; exact hξ.1.le, by rw [max_eq_right hlt.le]; exact hξ.2.le⟩
      have hpos : 0 < c - xm := by linarith
      have : g c - g xm = (F' ξ - s) * (c - xm) := by rw [hξe]; field_simp
      rw [this, abs_mul, abs_of_pos hpos]
      have h1 : c - xm ≤ b - a := by linarith [hxm.1, hcI.2]
      calc |F' ξ - s| * (c - xm) ≤ η * (b - a) := mul_le_mul hb h1 hpos.le hη0
        _ = (b - a) * η := mul_comm _ _
    · rw [heq]; simp; exact mul_nonneg (by linarith) hη0
    · have hsub : Icc c xm ⊆ Icc a b := Icc_subset_Icc hcI.1 hxm.2
      obtain ⟨ξ, hξ, hξe⟩ := exists_hasDerivAt_eq_slope g (fun x => F' x - s) hgt
        (fun x hx => (hg x (hsub hx)).continuousAt.continuousWithinAt) (fun x hx => hg x (hsub (Ioo_subset_Icc_self hx)))
      have hξI : ξ ∈ Icc a b := hsub (Ioo_subset_Icc_self hξ)
      have hb := hbetween ξ hξI ⟨by rw [min_eq_right hgt.le]; exact hξ.1.le, by rw [max_eq_left hgt.le]; exact hξ.2.le⟩
      have hpos : 0 < xm - c := by linarith
      have : g c - g xm = -((F' ξ - s) * (xm - c)) := by rw [hξe]; field_simp; ring
      rw [this, abs_neg, abs_mul, abs_of_pos hpos]
      have h1 : xm - c ≤ b - a := by linarith [hcI.1, hxm.2]
      calc |F' ξ - s| * (xm - c) ≤ η * (b - a) := mul_le_mul hb h1 hpos.le hη0
        _ = (b - a) * η := mul_comm _ _
  intro x hx
  have h1 := hmax x hx
  have h2 : |g c| ≤ |g xm| + |g c - g xm| := by
    have := abs_add_le (g xm) (g c - g xm); simpa using this
  show |g x| ≤ |g xm| + (b - a) * η
  calc |g x| ≤ |g c| := h1
    _ ≤ |g xm| + |g c - g xm| := h2
    _ ≤ |g xm| + (b - a) * η := by linarith

/-- the line through `(a, ya)`, `(b, yb)` -/
noncomputable def lineThrough (a ya b yb x : ℝ) : ℝ := ya + (yb - ya) / (b - a) * (x - a)

/-- two lines whose end values differ by at most `δ` differ by at most `δ` in between -/
theorem line_diff_le {a b ya yb za zb δ : ℝ} (hab : a < b) (h0 : |ya - za| ≤ δ) (h1 : |yb - zb| ≤ δ) :
    ∀ x ∈ Icc a b, |lineThrough a ya b yb x - lineThrough a za b zb x| ≤ δ := by
  intro x hx
  have hba : 0 < b - a := by linarith
  set t := (x - a) / (b - a) with ht
  have ht0 : 0 ≤ t := div_nonneg (by linarith [hx.1]) hba.le
  have ht1 : t ≤ 1 := by rw [ht, div_le_one hba]; linarith [hx.2]
  have e : lineThrough a ya b yb x - lineThrough a za b zb x = (1 - t) * (ya - za) + t * (yb - zb) := by
    simp only [lineThrough, ht]; field_simp; ring
  rw [e]
  calc |(1 - t) * (ya - za) + t * (yb - zb)| ≤ |(1 - t) * (ya - za)| + |t * (yb - zb)| := abs_add_le _ _
    _ = (1 - t) * |ya - za| + t * |yb - zb| := by rw [abs_mul, abs_mul, abs_of_nonneg (by linarith : 0 ≤ 1 - t), abs_of_nonneg ht0]
    _ ≤ (1 - t) * δ + t * δ := by
        apply add_le_add
        · exact mul_le_mul_of_nonneg_left h0 (by linarith)
        · exact mul_le_mul_of_nonneg_left h1 ht0
    _ = δ := by ring

theorem chord_eq_line (F : ℝ → ℝ) (a b x : ℝ) : chord F a b x = lineThrough a (F a) b (F b) x := rfl

/-- **Real-analysis core with approximate data**: the produced segment through `(a, ya)`, `(b, yb)`; oracle values within `δ`
of `F` at `a`, `b`, `xm`; `|F' xm − (yb − ya)/(b − a)| ≤ δ1`; measured deviation at `xm`: `|fm − line xm| ≤ T`.  Then
`|F x − line x| ≤ T + (b − a)·δ1 + 5·δ` on the whole segment. -/
theorem C13_segment_bound_approx {F F' : ℝ → ℝ} {a b : ℝ} (hab : a < b)
    (hF : ∀ x ∈ Icc a b, HasDerivAt F (F' x) x)
    (hmono : StrictMonoOn F' (Icc a b) ∨ StrictAntiOn F' (Icc a b))
    {ya yb xm fm δ δ1 T : ℝ} (hxm : xm ∈ Icc a b)
    (ha : |F a - ya| ≤ δ) (hb : |F b - yb| ≤ δ) (hm : |F xm - fm| ≤ δ)
    (hsl : |F' xm - (yb - ya) / (b - a)| ≤ δ1)
    (hT : |fm - lineThrough a ya b yb xm| ≤ T) :
    ∀ x ∈ Icc a b, |F x - lineThrough a ya b yb x| ≤ T + (b - a) * δ1 + 5 * δ := by
  have hba : 0 < b - a := by linarith
  have hδ : 0 ≤ δ := le_trans (abs_nonneg _) ha
  have hline := line_diff_le hab ha hb
  -- slope error
  have hslope : |(F b - F a) / (b - a) - (yb - ya) / (b - a)| ≤ 2 * δ / (b - a) := by
    rw [← sub_div, abs_div, abs_of_pos hba]
    apply div_le_div_of_nonneg_right _ hba.le
    have : F b - F a - (yb - ya) = (F b - yb) - (F a - ya) := by ring
    rw [this]
    calc |(F b - yb) - (F a - ya)| ≤ |F b - yb| + |F a - ya| := abs_sub _ _
      _ ≤ 2 * δ := by linarith
  have hη : |F' xm - (F b - F a) / (b - a)| ≤ δ1 + 2 * δ / (b - a) := by
    have : F' xm - (F b - F a) / (b - a) = (F' xm - (yb - ya) / (b - a)) - ((F b - F a) / (b - a) - (yb - ya) / (b - a)) := by ring
    rw [this]
    calc _ ≤ |F' xm - (yb - ya) / (b - a)| + |(F b - F a) / (b - a) - (yb - ya) / (b - a)| := abs_sub _ _
      _ ≤ δ1 + 2 * δ / (b - a) := add_le_add hsl hslope
  have hcore := C13_chord_bound_approx hab hF hmono hxm hη
  have hmid : |F xm - chord F a b xm| ≤ T + 2 * δ := by
    have h1 := hline xm hxm
    rw [← chord_eq_line] at h1
    have : F xm - chord F a b xm = (F xm - fm) + (fm - lineThrough a ya b yb xm) - (chord F a b xm - lineThrough a ya b yb xm) := by ring
    rw [this]
    calc _ ≤ |(F xm - fm) + (fm - lineThrough a ya b yb xm)| + |chord F a b xm - lineThrough a ya b yb xm| := abs_sub _ _
      _ ≤ (|F xm - fm| + |fm - lineThrough a ya b yb xm|) + δ := add_le_add (abs_add_le _ _) h1
      _ ≤ T + 2 * δ := by linarith
  intro x hx
  have h1 := hcore x hx
  have h2 := hline x hx
  rw [← chord_eq_line] at h2
  have e : (b - a) * (δ1 + 2 * δ / (b - a)) = (b - a) * δ1 + 2 * δ := by field_simp
  have : F x - lineThrough a ya b yb x = (F x - chord F a b x) + (chord F a b x - lineThrough a ya b yb x) := by ring
  rw [this]
  calc _ ≤ |F x - chord F a b x| + |chord F a b x - lineThrough a ya b yb x| := abs_add_le _ _
    _ ≤ (|F xm - chord F a b xm| + (b - a) * (δ1 + 2 * δ / (b - a))) + δ := add_le_add h1 h2
    _ ≤ T + (b - a) * δ1 + 5 * δ := by rw [e]; linarith

theorem errMeasure_le_imp {f y tol : ℝ} (htol : 0 ≤ tol) (h : errMeasure f y ≤ tol) : |f - y| ≤ tol * max 1 |f| := by
  unfold errMeasure at h
  split at h
  · calc |f - y| ≤ tol := h
      _ = tol * 1 := (mul_one _).symm
      _ ≤ tol * max 1 |f| := mul_le_mul_of_nonneg_left (le_max_left _ _) htol
  · rename_i h1
    have hpos : 0 < |f| := by linarith [not_le.mp h1]
    calc |f - y| ≤ tol * |f| := (div_le_iff₀ hpos).mp h
      _ ≤ tol * max 1 |f| := mul_le_mul_of_nonneg_left (le_max_right _ _) htol

/-- **The segment accepted by the model's step control, approximate oracles** (`decStep`, exact `+ − × ÷`): the model's
values `y0`, `f1`, `fm` are within `δ` of `F` at `x0`, `x1 = x0 + r`, `xm`, and `xm = inverse_1st(slope)` satisfies
`|F' xm − slope| ≤ δ1` for the MODEL's slope; `F'` strictly monotone on the segment.  Then the segment the model produces
(through `(x0, y0)`, `(x1, f1)`) satisfies `|F x − PL x| ≤ ubErr·max 1 |fm| + (x1 − x0)·δ1 + 5δ` at every real `x` of it. -/
theorem C13_accepted_step_error_bound_approx (sq : ℚ → ℚ) (f : Fn) (ubErr : ℚ) (i : Int) (x0 y0 dx r : ℚ) (fuel : Nat)
    (hdec : decStep (exactOps sq) f ubErr i x0 y0 fuel dx = .ok r)
    (F F' : ℝ → ℝ)
    (f1 : ℚ) (hf1e : f.eval (x0 + r) = .fin f1) (hchanged : f1 ≠ y0)
    (xm fm : ℚ)
    (hxm : f.invd1 i (slopeOf (exactOps sq) x0 y0 (x0 + r) f1) = .fin xm)
    (hfm : f.eval xm = .fin fm)
    (δ δ1 : ℝ)
    (h0 : |F x0 - y0| ≤ δ) (h1 : |F ((x0 + r : ℚ) : ℝ) - f1| ≤ δ) (hm : |F xm - fm| ≤ δ)
    (hsl : |F' (xm : ℝ) - ((slopeOf (exactOps sq) x0 y0 (x0 + r) f1 : ℚ) : ℝ)| ≤ δ1)
    (hF : ∀ x ∈ Icc (x0 : ℝ) ((x0 + r : ℚ) : ℝ), HasDerivAt F (F' x) x)
    (hmono : StrictMonoOn F' (Icc (x0 : ℝ) ((x0 + r : ℚ) : ℝ)) ∨ StrictAntiOn F' (Icc (x0 : ℝ) ((x0 + r : ℚ) : ℝ)))
    (hxmI : (xm : ℝ) ∈ Icc (x0 : ℝ) ((x0 + r : ℚ) : ℝ)) :
    ∀ x ∈ Icc (x0 : ℝ) ((x0 + r : ℚ) : ℝ),
      |F x - lineThrough (x0 : ℝ) (y0 : ℝ) ((x0 + r : ℚ) : ℝ) (f1 : ℝ) x|
        ≤ (ubErr : ℝ) * max 1 |(fm : ℝ)| + (((x0 + r : ℚ) : ℝ) - x0) * δ1 + 5 * δ := by
  obtain ⟨f1', hf1, hor⟩ := decStep_accept f ubErr i x0 y0 fuel dx r hdec
  have hx1 : fadd (exactOps sq) x0 r = x0 + r := rfl
  rw [hx1] at hf1 hor
  rw [hf1e] at hf1; cases hf1
  rcases hor with hflat | ⟨pts, hpts, hle⟩
  · exact absurd hflat hchanged
  · obtain ⟨hlt, hub, f0', f1', he0, he1, _, _, hmid⟩ := candPoints_spec hpts
    rw [hf1e] at he1; cases he1
    have hmem := hmid xm fm hxm hfm
    have hpe := (errMaxOf_ge (exactOps sq) pts).2 _ hmem
    have hle' : pointErr (exactOps sq) fm
        (fadd (exactOps sq) y0 (fmul (exactOps sq) (fsub (exactOps sq) xm x0) (slopeOf (exactOps sq) x0 y0 (x0 + r) f1))) ≤ ubErr :=
      Rat.le_trans hpe hle
    have hcast : ((pointErr (exactOps sq) fm
        (fadd (exactOps sq) y0 (fmul (exactOps sq) (fsub (exactOps sq) xm x0) (slopeOf (exactOps sq) x0 y0 (x0 + r) f1))) : ℚ) : ℝ)
          ≤ (ubErr : ℝ) := by exact_mod_cast hle'
    rw [pointErr_cast] at hcast
    have hab : (x0 : ℝ) < ((x0 + r : ℚ) : ℝ) := by exact_mod_cast hlt
    have hline : ((fadd (exactOps sq) y0 (fmul (exactOps sq) (fsub (exactOps sq) xm x0)
        (slopeOf (exactOps sq) x0 y0 (x0 + r) f1)) : ℚ) : ℝ)
          = lineThrough (x0 : ℝ) (y0 : ℝ) ((x0 + r : ℚ) : ℝ) (f1 : ℝ) xm := by
      simp only [lineThrough, slopeOf, fadd, fmul, fsub, fdiv, exactOps, id]
      push_cast; ring
    rw [hline] at hcast
    have hT := errMeasure_le_imp (by exact_mod_cast hub.le) hcast
    have hsl' : |F' (xm : ℝ) - ((f1 : ℝ) - (y0 : ℝ)) / (((x0 + r : ℚ) : ℝ) - (x0 : ℝ))| ≤ δ1 := by
      have e : ((slopeOf (exactOps sq) x0 y0 (x0 + r) f1 : ℚ) : ℝ) = ((f1 : ℝ) - (y0 : ℝ)) / (((x0 + r : ℚ) : ℝ) - (x0 : ℝ)) := by
        simp only [slopeOf, fsub, fdiv, exactOps, id]; push_cast; rfl
      rw [← e]; exact hsl
    exact C13_segment_bound_approx hab hF hmono hxmI h0 h1 hm hsl' hT

/-! ### a transcendental instance: `exp` on `[0, 1/4]`, tolerance `1/100`, oracle values to three decimals -/

/-- tabulated oracles of `exp` (rational approximations; `inverse_1st` answers `1/8` for the slope of the segment and
nothing else) -/
def expFn : Fn :=
  { eval := fun x => if x = 0 then .fin 1 else if x = 1/4 then .fin (1284/1000) else if x = 1/8 then .fin (11331/10000) else .nan,
    inv := fun _ _ => .nan,
    d1 := fun x => if x = 0 then .fin 1 else .fin (1284/1000),
    invd1 := fun _ s => if s = 142/125 then .fin (1/8) else .nan,
    d2 := fun _ => .fin 1, dom := ⟨-10, 10, -100, 100⟩, accLb := -1000, accUb := 1000,
    monotone := true, periodic := false, perLb := -1000, perUb := 1000, bps := [-10, 10] }

/-- the model's step control accepts the step `1/4` from `x0 = 0` -/
theorem exp_step_accepted : decStep (exactOps id) expFn (1/100) 0 0 1 5 (1/4) = .ok (1/4) := by decide +kernel

theorem exp_quarter_bounds : (1283 : ℝ) / 1000 ≤ Real.exp (1/4) ∧ Real.exp (1/4) ≤ 1285 / 1000 := by
  constructor
  · have h := Real.sum_le_exp_of_nonneg (x := (1/4 : ℝ)) (by norm_num) 4
    simp only [Finset.sum_range_succ, Finset.sum_range_zero, Nat.factorial] at h
    norm_num at h ⊢; linarith
  · have h := Real.exp_bound' (x := (1/4 : ℝ)) (by norm_num) (by norm_num) (n := 4) (by norm_num)
    simp only [Finset.sum_range_succ, Finset.sum_range_zero, Nat.factorial] at h
    norm_num at h ⊢; linarith

theorem exp_eighth_bounds : (11331 : ℝ) / 10000 ≤ Real.exp (1/8) ∧ Real.exp (1/8) ≤ 11332 / 10000 := by
  constructor
  · have h := Real.sum_le_exp_of_nonneg (x := (1/8 : ℝ)) (by norm_num) 4
    simp only [Finset.sum_range_succ, Finset.sum_range_zero, Nat.factorial] at h
    norm_num at h ⊢; linarith
  · have h := Real.exp_bound' (x := (1/8 : ℝ)) (by norm_num) (by norm_num) (n := 4) (by norm_num)
    simp only [Finset.sum_range_succ, Finset.sum_range_zero, Nat.factorial] at h
    norm_num at h ⊢; linarith

/-- **`C13_accepted_step_error_bound_approx` applies to `exp`** (which no rational-valued oracle can represent exactly): on
the accepted segment `[0, 1/4]` the produced chord through `(0, 1)`, `(1/4, 1.284)` is within
`0.01·1.1331 + 0.25·0.01 + 5·0.001` of `exp`. -/
theorem C13_exp_step_instance : ∀ x ∈ Icc ((0 : ℚ) : ℝ) (((0 : ℚ) + 1/4 : ℚ) : ℝ),
    |Real.exp x - lineThrough ((0 : ℚ) : ℝ) ((1 : ℚ) : ℝ) (((0 : ℚ) + 1/4 : ℚ) : ℝ) ((1284/1000 : ℚ) : ℝ) x|
      ≤ ((1/100 : ℚ) : ℝ) * max 1 |((11331/10000 : ℚ) : ℝ)| + ((((0 : ℚ) + 1/4 : ℚ) : ℝ) - ((0 : ℚ) : ℝ)) * (1/100) + 5 * (1/1000) := by
  have hq := exp_quarter_bounds
  have he := exp_eighth_bounds
  refine C13_accepted_step_error_bound_approx id expFn (1/100) 0 0 1 (1/4) (1/4) 5 exp_step_accepted
    Real.exp Real.exp (1284/1000) (by decide +kernel) (by decide +kernel) (1/8) (11331/10000)
    (by decide +kernel) (by decide +kernel) (1/1000) (1/100) ?_ ?_ ?_ ?_
    (fun x _ => Real.hasDerivAt_exp x) (Or.inl (Real.exp_strictMono.strictMonoOn _)) ?_
  · simp
  · have e : (((0 : ℚ) + 1/4 : ℚ) : ℝ) = 1/4 := by push_cast; norm_num
    rw [e, abs_le]; push_cast; constructor <;> linarith [hq.1, hq.2]
  · have e : ((1/8 : ℚ) : ℝ) = 1/8 := by push_cast; norm_num
    rw [e, abs_le]; push_cast; constructor <;> linarith [he.1, he.2]
  · have hs : slopeOf (exactOps id) 0 1 (0 + 1/4) (1284/1000) = 142/125 := by decide +kernel
    have e : ((1/8 : ℚ) : ℝ) = 1/8 := by push_cast; norm_num
    rw [hs, e, abs_le]; push_cast; constructor <;> linarith [he.1, he.2]
  · constructor <;> push_cast <;> norm_num

end MpVerif.C13.Chord

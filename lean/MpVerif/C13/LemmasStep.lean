import MpVerif.C13.LemmasRun
/-! # C13 — what the step control guarantees: every accepted step passed the error test, and the error test
dominates the error at every candidate point (core Lean only) -/
namespace MpVerif.C13

/-- running maximum used by `errMaxOf` -/
def emStep (o : FOps) (errMax : Rat) (fy : Rat × Rat) : Rat :=
  if errMax < pointErr o fy.1 fy.2 then pointErr o fy.1 fy.2 else errMax

theorem errMaxOf_eq (o : FOps) (pts : List (Rat × Rat)) : errMaxOf o pts = pts.foldl (emStep o) 0 := rfl

theorem foldl_emStep_ge (o : FOps) : ∀ (pts : List (Rat × Rat)) (acc : Rat),
    acc ≤ pts.foldl (emStep o) acc ∧ ∀ p ∈ pts, pointErr o p.1 p.2 ≤ pts.foldl (emStep o) acc := by
  intro pts
  induction pts with
  | nil => intro acc; exact ⟨Rat.le_refl, fun p hp => by cases hp⟩
  | cons q qs ih =>
    intro acc
    simp only [List.foldl_cons]
    obtain ⟨h1, h2⟩ := ih (emStep o acc q)
    have ha : acc ≤ emStep o acc q := by unfold emStep; split <;> grind
    have hq : pointErr o q.1 q.2 ≤ emStep o acc q := by unfold emStep; split <;> grind
    refine ⟨Rat.le_trans ha h1, ?_⟩
    intro p hp
    simp only [List.mem_cons] at hp
    rcases hp with rfl | hp
    · exact Rat.le_trans hq h1
    · exact h2 p hp

/-- the value of the error test dominates the error at every examined point, and is non-negative -/
theorem errMaxOf_ge (o : FOps) (pts : List (Rat × Rat)) :
    0 ≤ errMaxOf o pts ∧ ∀ p ∈ pts, pointErr o p.1 p.2 ≤ errMaxOf o pts :=
  foldl_emStep_ge o pts 0

theorem addCand_mem {o : FOps} {f : Fn} {x0 y0 s : Rat} {pts pts' : List (Rat × Rat)} {xm : OV}
    (h : addCand o f x0 y0 s pts xm = .ok pts') :
    (∀ p ∈ pts, p ∈ pts') ∧
    (∀ x fv, xm = .fin x → f.eval x = .fin fv → (fv, fadd o y0 (fmul o (fsub o x x0) s)) ∈ pts') := by
  unfold addCand at h
  split at h
  · rename_i x
    split at h
    · rename_i fv hfv
      have := pure_ok h; subst this
      refine ⟨fun p hp => List.mem_append_left _ hp, ?_⟩
      intro x' fv' hx hf
      cases hx
      rw [hfv] at hf; cases hf
      simp
    · exact (throw_ne_ok h).elim
    · rename_i hne1 hne2
      have := pure_ok h; subst this
      refine ⟨fun p hp => hp, ?_⟩
      intro x' fv' hx hf
      cases hx
      exact absurd hf (by intro hf; exact hne1 _ hf)
  · have := pure_ok h; subst this
    exact ⟨fun p hp => hp, fun x fv hx _ => by cases hx⟩
  · exact (throw_ne_ok h).elim
  · exact (throw_ne_ok h).elim

theorem addTilted_mem {o : FOps} {f : Fn} {i : Int} {x0 y0 s : Rat} {fp0 fp1 : OV} {t : Rat}
    {pts pts' : List (Rat × Rat)} (h : addTilted o f i x0 y0 s fp0 fp1 t pts = .ok pts') : ∀ p ∈ pts, p ∈ pts' := by
  unfold addTilted at h
  split at h
  · exact (addCand_mem h).1
  · have := pure_ok h; subst this; exact fun p hp => hp

theorem addPreim_mem {o : FOps} {f : Fn} {i : Int} {x0 y0 x1 s c : Rat} {cross : Bool}
    {pts pts' : List (Rat × Rat)} (h : addPreim o f i x0 y0 x1 s c cross pts = .ok pts') : ∀ p ∈ pts, p ∈ pts' := by
  unfold addPreim at h
  split at h
  · split at h
    · split at h
      · exact (throw_ne_ok h).elim
      · have := pure_ok h; subst this; exact fun p hp => List.mem_append_left _ hp
    · exact (throw_ne_ok h).elim
    · exact (throw_ne_ok h).elim
  · have := pure_ok h; subst this; exact fun p hp => hp

theorem candRest_mem {o : FOps} {f : Fn} {ubErr : Rat} {i : Int} {x0 y0 x1 s f0 f1 : Rat}
    {pts pts' : List (Rat × Rat)} (h : candRest o f ubErr i x0 y0 x1 s f0 f1 pts = .ok pts') :
    ∀ p ∈ pts, p ∈ pts' := by
  unfold candRest at h
  dsimp only at h
  split at h
  · exact (throw_ne_ok h).elim
  · obtain ⟨p1, h1, h⟩ := bind_ok h
    obtain ⟨p2, h2, h⟩ := bind_ok h
    obtain ⟨p3, h3, h⟩ := bind_ok h
    have m1 := addTilted_mem h1
    have m2 : ∀ p ∈ p1, p ∈ p2 := by
      split at h2
      · split at h2
        · exact (throw_ne_ok h2).elim
        · exact addTilted_mem h2
      · have := pure_ok h2; subst this; exact fun p hp => hp
    have m3 := addPreim_mem h3
    have m4 := addPreim_mem h
    exact fun p hp => m4 p (m3 p (m2 p (m1 p hp)))

/-- what the candidate list of an error test always contains -/
theorem candPoints_spec {o : FOps} {f : Fn} {ubErr : Rat} {i : Int} {x0 y0 x1 y1 : Rat} {pts : List (Rat × Rat)}
    (h : candPoints o f ubErr i x0 y0 x1 y1 = .ok pts) :
    x0 < x1 ∧ 0 < ubErr ∧ ∃ f0 f1, f.eval x0 = .fin f0 ∧ f.eval x1 = .fin f1 ∧
      (f0, y0) ∈ pts ∧ (f1, y1) ∈ pts ∧
      ∀ xm fm, f.invd1 i (slopeOf o x0 y0 x1 y1) = .fin xm → f.eval xm = .fin fm →
        (fm, fadd o y0 (fmul o (fsub o xm x0) (slopeOf o x0 y0 x1 y1))) ∈ pts := by
  unfold candPoints at h
  split at h
  · exact (throw_ne_ok h).elim
  · rename_i hx
    split at h
    · exact (throw_ne_ok h).elim
    · rename_i hu
      obtain ⟨f0, hf0, h⟩ := bind_ok h
      obtain ⟨f1, hf1, h⟩ := bind_ok h
      split at h
      · exact (throw_ne_ok h).elim
      · obtain ⟨p1, h1, h⟩ := bind_ok h
        have hm := candRest_mem h
        obtain ⟨s1, s2⟩ := addCand_mem h1
        have e0 : f.eval x0 = .fin f0 := by
          unfold getFin at hf0; split at hf0
          · have := pure_ok hf0; subst this; assumption
          · exact (throw_ne_ok hf0).elim
          · exact (throw_ne_ok hf0).elim
        have e1 : f.eval x1 = .fin f1 := by
          unfold getFin at hf1; split at hf1
          · have := pure_ok hf1; subst this; assumption
          · exact (throw_ne_ok hf1).elim
          · exact (throw_ne_ok hf1).elim
        refine ⟨by simpa using hx, by simpa using hu, f0, f1, e0, e1, ?_, ?_, ?_⟩
        · exact hm _ (s1 _ (by simp))
        · exact hm _ (s1 _ (by simp))
        · intro xm fm hxm hfm
          exact hm _ (s2 xm fm hxm hfm)

/-- **the step returned by `DecreaseStepWhileErrorTooBig` passed the error test** (or the function value did not
change at all, in which case the C++ does not call the test) -/
theorem decStep_accept {o : FOps} (f : Fn) (ubErr : Rat) (i : Int) (x0 f0 : Rat) :
    ∀ (fuel : Nat) (dx r : Rat), decStep o f ubErr i x0 f0 fuel dx = .ok r →
      ∃ f1, f.eval (fadd o x0 r) = .fin f1 ∧
        (f1 = f0 ∨ ∃ pts, candPoints o f ubErr i x0 f0 (fadd o x0 r) f1 = .ok pts ∧ errMaxOf o pts ≤ ubErr) := by
  intro fuel
  induction fuel with
  | zero => intro dx r h; simp [decStep] at h
  | succ n ih =>
    intro dx r h
    unfold decStep at h
    dsimp only at h
    obtain ⟨f1, hf1, h⟩ := bind_ok h
    have e1 : f.eval (fadd o x0 dx) = .fin f1 := by
      unfold getFin at hf1; split at hf1
      · have := pure_ok hf1; subst this; assumption
      · exact (throw_ne_ok hf1).elim
      · exact (throw_ne_ok hf1).elim
    split at h
    · rename_i heq
      simp only [pure_bind, Bool.false_eq_true, if_false] at h
      have := pure_ok h; subst this
      exact ⟨f1, e1, Or.inl heq⟩
    · obtain ⟨c, hc, h⟩ := bind_ok h
      simp only [pure_bind] at h
      split at h
      · exact ih _ _ h
      · rename_i hns
        have := pure_ok h; subst this
        refine ⟨f1, e1, Or.inr ?_⟩
        unfold cmpErr at hc
        obtain ⟨err, herr, hc⟩ := bind_ok hc
        have hcc := pure_ok hc
        unfold maxErrRel at herr
        obtain ⟨pts, hpts, herr⟩ := bind_ok herr
        have he := pure_ok herr
        refine ⟨pts, hpts, ?_⟩
        subst he; subst hcc
        unfold cmpCode at hns
        simp only [decide_eq_true_eq] at hns
        split at hns
        · grind
        · split at hns
          · exact absurd (by decide : (0 : Int) < 1) hns
          · grind

end MpVerif.C13

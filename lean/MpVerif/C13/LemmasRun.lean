import MpVerif.C13.Lemmas
/-! # C13 — the invariant carried through the whole skeleton (core Lean only) -/
namespace MpVerif.C13

theorem bind_ok {ε α β : Type} {x : Except ε α} {f : α → Except ε β} {r : β}
    (h : (x >>= f) = .ok r) : ∃ a, x = .ok a ∧ f a = .ok r := by
  cases x with
  | error e => simp [bind, Except.bind] at h
  | ok a => exact ⟨a, rfl, h⟩

theorem pure_ok {ε α : Type} {a r : α} (h : (pure a : Except ε α) = .ok r) : a = r := by
  simp [pure, Except.pure] at h; exact h

theorem throw_ne_ok {α : Type} {e : Status} {r : α} (h : (throw e : Except Status α) = .ok r) : False := by
  simp [throw, throwThe, MonadExceptOf.throw] at h

theorem subLoop_inv {o : FOps} (hl : Lawful o) (f : Fn) (ubErr : Rat) (i : Int) (ub : Rat) (hub : Fx o ub)
    (stepFuel : Nat) : ∀ (fuel : Nat) (x0 f0 : Rat) (pl r : PL), Inv o pl →
      subLoop o f ubErr i ub stepFuel fuel x0 f0 pl = .ok r → Inv o r := by
  intro fuel
  induction fuel with
  | zero => intro x0 f0 pl r _ h; simp [subLoop] at h
  | succ n ih =>
    intro x0 f0 pl r hinv h
    unfold subLoop at h
    obtain ⟨dx1, _, h⟩ := bind_ok h
    obtain ⟨dx2, _, h⟩ := bind_ok h
    obtain ⟨dx3, _, h⟩ := bind_ok h
    have hx1 : Fx o (if snapCond o ub (fadd o x0 dx3) then ub else fadd o x0 dx3) := by
      split
      · exact hub
      · exact fx_fadd hl _ _
    dsimp only at h
    generalize (if snapCond o ub (fadd o x0 dx3) then ub else fadd o x0 dx3) = x1 at h hx1
    obtain ⟨f1, _, h⟩ := bind_ok h
    have hinv' := addPoint_inv hl hinv hx1 f1
    split at h
    · exact ih _ _ _ _ hinv' h
    · have := pure_ok h; subst this; exact hinv'

theorem approxSub_inv {o : FOps} (hl : Lawful o) (f : Fn) (ubErr : Rat) (bps : List Rat)
    (hb : ∀ b ∈ bps, Fx o b) (fuel i : Nat) (pl r : PL) (hinv : Inv o pl)
    (h : approxSub o f ubErr bps fuel i pl = .ok r) : Inv o r := by
  unfold approxSub at h
  split at h
  · simp at h
  · split at h
    · simp at h
    · rename_i ub hub
      exact subLoop_inv hl f ubErr _ ub (hb ub (List.mem_of_getElem? hub)) _ fuel _ _ _ _ hinv h

theorem subintervals_inv {o : FOps} (hl : Lawful o) (f : Fn) (ubErr : Rat) (bps : List Rat)
    (hb : ∀ b ∈ bps, Fx o b) (fuel : Nat) : ∀ (n i : Nat) (pl r : PL), Inv o pl →
      subintervals o f ubErr bps fuel n i pl = .ok r → Inv o r := by
  intro n
  induction n with
  | zero => intro i pl r hinv h; simp [subintervals] at h; have := pure_ok h; subst this; exact hinv
  | succ n ih =>
    intro i pl r hinv h
    unfold subintervals at h
    obtain ⟨pl', h1, h⟩ := bind_ok h
    have hinv' := approxSub_inv hl f ubErr bps hb fuel i pl pl' hinv h1
    split at h
    · exact ih _ _ _ hinv' h
    · have := pure_ok h; subst this; exact hinv'

theorem intPoints_inv {o : FOps} (hl : Lawful o) (f : Fn) (x0 : Rat) : ∀ (n k : Nat) (pl r : PL), Inv o pl →
    intPoints o f x0 n k pl = .ok r → Inv o r := by
  intro n
  induction n with
  | zero => intro k pl r hinv h; simp [intPoints] at h; have := pure_ok h; subst this; exact hinv
  | succ n ih =>
    intro k pl r hinv h
    unfold intPoints at h
    obtain ⟨y, _, h⟩ := bind_ok h
    exact ih _ _ _ (addPoint_inv hl hinv (fx_fadd hl _ _) y) h

theorem considerIntegrality_inv {o : FOps} (hl : Lawful o) (f : Fn) (isInt usePeriod : Bool) (d : Dom)
    (pl r : PL) (hinv : Inv o pl) (h : considerIntegrality o f isInt usePeriod d pl = .ok r) : Inv o r := by
  unfold considerIntegrality at h
  split at h
  · dsimp only at h
    split at h
    · simp [bind, Except.bind] at h
    · split at h
      · exact (throw_ne_ok h).elim
      · split at h
        · exact intPoints_inv hl f _ _ _ _ _ (inv_nil o) h
        · have := pure_ok h; subst this; exact hinv
  · have := pure_ok h; subst this; exact hinv

/-! membership in the set model of `std::set<float>` -/

theorem mem_insertU {x a : Rat} : ∀ {l : List Rat}, a ∈ insertU x l → a = x ∨ a ∈ l := by
  intro l
  induction l with
  | nil => intro h; simp [insertU] at h; exact Or.inl h
  | cons y ys ih =>
    intro h
    unfold insertU at h
    split at h
    · simp at h; rcases h with h | h | h
      · exact Or.inl h
      · exact Or.inr (by simp [h])
      · exact Or.inr (by simp [h])
    · split at h
      · exact Or.inr h
      · simp at h; rcases h with h | h
        · exact Or.inr (by simp [h])
        · rcases ih h with h | h
          · exact Or.inl h
          · exact Or.inr (by simp [h])

theorem mem_foldl_insertU {a : Rat} : ∀ (l s : List Rat), a ∈ l.foldl (fun s x => insertU x s) s → a ∈ l ∨ a ∈ s := by
  intro l
  induction l with
  | nil => intro s h; exact Or.inr h
  | cons x xs ih =>
    intro s h
    simp only [List.foldl_cons] at h
    rcases ih _ h with h | h
    · exact Or.inl (by simp [h])
    · rcases mem_insertU h with h | h
      · exact Or.inl (by simp [h])
      · exact Or.inr h

theorem mem_toSet {a : Rat} {l : List Rat} (h : a ∈ toSet l) : a ∈ l := by
  rcases mem_foldl_insertU l [] h with h | h
  · exact h
  · cases h

theorem bpsNonPeriodic_fx {o : FOps} (hl : Lawful o) (f : Fn) (lbx ubx : Rat) :
    ∀ b ∈ bpsNonPeriodic o f lbx ubx, Fx o b := by
  intro b hb
  unfold bpsNonPeriodic at hb
  simp only [] at hb
  split at hb
  · simp at hb; subst hb; exact fx_toF hl _
  · simp only [List.cons_append, List.mem_cons, List.mem_append, List.mem_filter] at hb
    rcases hb with hb | hb | hb
    · subst hb; exact fx_toF hl _
    · have := mem_toSet hb.1
      simp only [List.mem_map] at this
      obtain ⟨c, _, hc⟩ := this
      subst hc; exact fx_toF hl _
    · split at hb
      · simp at hb; subst hb; exact fx_toF hl _
      · cases hb

end MpVerif.C13

namespace MpVerif.C13

theorem mainLoop_inv {o : FOps} (hl : Lawful o) (f : Fn) (p : Params) (fuel : Nat) (d : Dom) (res1 : Res)
    (bps : List Rat) (hb : ∀ b ∈ bps, Fx o b) (r : Res) (h : mainLoop o f p fuel d res1 bps = .ok r) :
    Inv o r.pl := by
  unfold mainLoop at h
  split at h
  · exact (throw_ne_ok h).elim
  · rename_i x0 rest
    obtain ⟨f0, _, h⟩ := bind_ok h
    obtain ⟨pl1, h1, h⟩ := bind_ok h
    obtain ⟨pl2, h2, h⟩ := bind_ok h
    have := pure_ok h; subst this
    have hx0 : Fx o x0 := hb x0 (by simp)
    have i0 := addPoint_inv hl (inv_nil o) hx0 f0
    have i1 := subintervals_inv hl f p.ubErr _ hb fuel _ _ _ _ i0 h1
    exact considerIntegrality_inv hl f _ _ d _ _ i1 h2

theorem run_inv {o : FOps} (hl : Lawful o) (f : Fn) (hb : ∀ b ∈ f.bps, Fx o b) (p : Params) (fuel : Nat)
    (r : Res) (h : run o f p fuel = .ok r) : Inv o r.pl := by
  unfold run at h
  obtain ⟨d, _, h⟩ := bind_ok h
  split at h
  · exact (throw_ne_ok h).elim
  · split at h
    · unfold trivialRes at h
      obtain ⟨v, _, h⟩ := bind_ok h
      have := pure_ok h; subst this
      constructor
      · simp [Inc, xsOf, res0]
      · intro q hq; simp [res0] at hq; subst hq; exact hl.idem _
    · obtain ⟨rb, hrb, h⟩ := bind_ok h
      refine mainLoop_inv hl f p fuel d rb.1 rb.2 ?_ r h
      split at hrb
      · unfold initPeriodic at hrb
        dsimp only at hrb
        split at hrb
        · exact (throw_ne_ok hrb).elim
        · split at hrb
          · have := pure_ok hrb; subst this; exact hb
          · exact (throw_ne_ok hrb).elim
      · unfold initNonPeriodic at hrb
        dsimp only at hrb
        split at hrb
        · exact (throw_ne_ok hrb).elim
        · have := pure_ok hrb; subst this; exact bpsNonPeriodic_fx hl f _ _

end MpVerif.C13

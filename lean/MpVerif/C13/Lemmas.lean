import MpVerif.C13.Model
/-! # C13 — helper lemmas (core Lean only) -/
namespace MpVerif.C13

theorem eps4_pos : (0 : Rat) < eps4 := by decide +kernel
theorem eps4_lt_one : eps4 < (1 : Rat) := by decide +kernel

/-- what is assumed of the rounding functions: round-to-nearest is monotone and idempotent, and a float
is a double.  Proved for `rnd = id` (`Lawful.exact`) and for the driver's IEEE instance (`lawful_ieee` in
`Rounding.lean`, re-exported as `C13_lawful_ieee`). -/
structure Lawful (o : FOps) : Prop where
  mono : ∀ a b : Rat, a ≤ b → o.rnd a ≤ o.rnd b
  idem : ∀ a : Rat, o.rnd (o.rnd a) = o.rnd a
  toF_fix : ∀ a : Rat, o.rnd (o.toF a) = o.toF a

/-- `q` is a value of the working format -/
def Fx (o : FOps) (q : Rat) : Prop := o.rnd q = q

theorem Lawful.exact (sq : Rat → Rat) : Lawful (exactOps sq) :=
  ⟨fun _ _ h => h, fun _ => rfl, fun _ => rfl⟩

theorem fx_fadd {o : FOps} (h : Lawful o) (a b : Rat) : Fx o (fadd o a b) := h.idem _
theorem fx_toF {o : FOps} (h : Lawful o) (a : Rat) : Fx o (o.toF a) := h.toF_fix _

/-- a representable `a` is not above `fl(a + 1e-4)` -/
theorem le_fadd_eps {o : FOps} (h : Lawful o) {a : Rat} (ha : Fx o a) : a ≤ fadd o a eps4 := by
  have h1 : a ≤ a + eps4 := by have := eps4_pos; grind
  have h2 := h.mono _ _ h1
  unfold Fx at ha
  unfold fadd
  rw [ha] at h2
  exact h2

/-- abscissae of a PL, last point first -/
def xsOf (pl : PL) : List Rat := pl.map Prod.fst

/-- strictly increasing abscissae (the list is stored back to front, so each later entry is smaller) -/
def Inc (pl : PL) : Prop := (xsOf pl).Pairwise (fun a b => b < a)

/-- invariant of every `AddPoint` sequence -/
def Inv (o : FOps) (pl : PL) : Prop := Inc pl ∧ ∀ p ∈ pl, Fx o p.1

theorem inv_nil (o : FOps) : Inv o [] := by
  constructor
  · simp [Inc, xsOf]
  · intro p hp; cases hp

theorem addPoint_inv {o : FOps} (h : Lawful o) {pl : PL} (hi : Inv o pl) {x : Rat} (hx : Fx o x) (y : Rat) :
    Inv o (addPoint o pl x y) := by
  unfold addPoint
  match pl, hi with
  | [], _ =>
    constructor
    · simp [Inc, xsOf]
    · intro p hp; simp at hp; subst hp; exact hx
  | (bx, byy) :: rest, hi =>
    simp only
    obtain ⟨hinc, hfx⟩ := hi
    have hbx : Fx o bx := hfx (bx, byy) (by simp)
    have hle := le_fadd_eps h hbx
    split
    · rename_i hlt0
      have hlt : fadd o bx eps4 < x := hlt0
      have hbxx : bx < x := by grind
      have hall : ∀ b ∈ xsOf rest, b < x := by
        intro b hb
        simp only [Inc, xsOf, List.map_cons, List.pairwise_cons] at hinc
        have := hinc.1 b (by simpa [xsOf] using hb)
        grind
      have hpush : Inv o ((x, y) :: (bx, byy) :: rest) := by
        constructor
        · simp only [Inc, xsOf, List.map_cons, List.pairwise_cons]
          simp only [Inc, xsOf, List.map_cons, List.pairwise_cons] at hinc
          refine ⟨?_, hinc⟩
          intro b hb
          simp at hb
          rcases hb with hb | hb
          · subst hb; exact hbxx
          · exact hall b (by simpa [xsOf] using hb)
        · intro p hp
          simp at hp
          rcases hp with hp | hp | hp
          · subst hp; exact hx
          · subst hp; exact hbx
          · exact hfx p (by simp [hp])
      match rest, hinc, hfx, hall, hpush with
      | [], _, _, _, hpush => exact hpush
      | (x2, y2) :: rest2, hinc, hfx, hall, hpush =>
        simp only
        split
        · constructor
          · simp only [Inc, xsOf, List.map_cons, List.pairwise_cons] at hinc ⊢
            refine ⟨?_, hinc.2⟩
            intro b hb
            exact hall b (by simpa [xsOf] using hb)
          · intro p hp
            simp at hp
            rcases hp with hp | hp
            · subst hp; exact hx
            · exact hfx p (by simp [hp])
        · exact hpush
    · exact ⟨hinc, hfx⟩

end MpVerif.C13

import MpVerif.C13.Lemmas
import Mathlib.Data.Rat.Floor
import Mathlib.Algebra.Order.Field.Power
import Mathlib.Tactic.Linarith
import Mathlib.Tactic.Positivity
import Mathlib.Tactic.FieldSimp
import Mathlib.Tactic.Ring
import Mathlib.Tactic.NormNum
import Mathlib.Data.Nat.Log
/-!
# C13 — the concrete rounding functions of the model are monotone and idempotent (proof-only; Mathlib)
-/
namespace MpVerif.C13
open scoped Classical

theorem pow2_eq (e : Int) : pow2 e = (2 : ℚ) ^ e := by
  unfold pow2
  split
  · rename_i h
    obtain ⟨n, rfl⟩ := Int.eq_ofNat_of_zero_le h
    simp [zpow_natCast]
  · rename_i h
    have hn : ((-e).toNat : ℤ) = -e := Int.toNat_of_nonneg (by omega)
    have : (2 : ℚ) ^ e = ((2 : ℚ) ^ ((-e).toNat))⁻¹ := by
      rw [← zpow_natCast, hn, zpow_neg, inv_inv]
    rw [this]; push_cast; rw [one_div]

theorem pow2_pos (e : Int) : 0 < pow2 e := by rw [pow2_eq]; positivity

/-! ### roundHE -/

theorem floor_le_roundHE (q : ℚ) : q.floor ≤ roundHE q := by
  unfold roundHE; dsimp only; split_ifs <;> omega

theorem roundHE_le (q : ℚ) : roundHE q ≤ q.floor + 1 := by
  unfold roundHE; dsimp only; split_ifs <;> omega

theorem roundHE_int (n : ℤ) : roundHE (n : ℚ) = n := by
  unfold roundHE; dsimp only
  rw [Rat.floor_intCast]
  simp

theorem roundHE_mono {a b : ℚ} (h : a ≤ b) : roundHE a ≤ roundHE b := by
  have hf := Rat.floor_monotone h
  rcases lt_or_eq_of_le hf with hlt | heq
  · have := roundHE_le a; have := floor_le_roundHE b; omega
  · unfold roundHE; dsimp only
    rw [heq]
    have hab : a - (b.floor : ℚ) ≤ b - (b.floor : ℚ) := by linarith
    split_ifs <;> first | omega | (exfalso; linarith)

theorem roundHE_le_of_le_int {x : ℚ} {N : ℤ} (h : x ≤ N) : roundHE x ≤ N := by
  have := roundHE_mono h; rwa [roundHE_int] at this

theorem le_roundHE_of_int_le {x : ℚ} {M : ℤ} (h : (M : ℚ) ≤ x) : M ≤ roundHE x := by
  have := roundHE_mono h; rwa [roundHE_int] at this

/-! ### ilog2 -/

theorem two_ne_zero' : (2 : ℚ) ≠ 0 := by norm_num

theorem ilog2_spec {a : ℚ} (ha : 0 < a) :
    (2 : ℚ) ^ (ilog2 a) ≤ a ∧ a < (2 : ℚ) ^ (ilog2 a + 1) := by
  have hnum : 0 < a.num := Rat.num_pos.mpr ha
  have hden : 0 < a.den := a.den_pos
  set n := a.num.toNat with hn
  set d := a.den with hd
  have hnn : (n : ℤ) = a.num := Int.toNat_of_nonneg hnum.le
  have hn0 : n ≠ 0 := by omega
  have hd0 : d ≠ 0 := by omega
  have hadn : a = (n : ℚ) / (d : ℚ) := by
    have := Rat.num_div_den a
    rw [← this]
    congr 1
    exact_mod_cast hnn.symm
  have hdq : (0 : ℚ) < d := by exact_mod_cast hden
  -- bounds of numerator and denominator
  have n1 : ((2 : ℚ) ^ (Nat.log2 n : ℤ)) ≤ n := by
    rw [zpow_natCast]; exact_mod_cast Nat.log2_self_le hn0
  have n2 : (n : ℚ) < (2 : ℚ) ^ ((Nat.log2 n : ℤ) + 1) := by
    have : (n : ℚ) < (2 : ℚ) ^ (Nat.log2 n + 1) := by exact_mod_cast (Nat.lt_log2_self (n := n))
    rwa [← zpow_natCast, Nat.cast_add, Nat.cast_one] at this
  have d1 : ((2 : ℚ) ^ (Nat.log2 d : ℤ)) ≤ d := by
    rw [zpow_natCast]; exact_mod_cast Nat.log2_self_le hd0
  have d2 : (d : ℚ) < (2 : ℚ) ^ ((Nat.log2 d : ℤ) + 1) := by
    have : (d : ℚ) < (2 : ℚ) ^ (Nat.log2 d + 1) := by exact_mod_cast (Nat.lt_log2_self (n := d))
    rwa [← zpow_natCast, Nat.cast_add, Nat.cast_one] at this
  set ln : ℤ := (Nat.log2 n : ℤ)
  set ld : ℤ := (Nat.log2 d : ℤ)
  have hpos : ∀ k : ℤ, (0 : ℚ) < (2 : ℚ) ^ k := fun k => by positivity
  -- a < 2^(ln - ld + 1)
  have up : a < (2 : ℚ) ^ (ln - ld + 1) := by
    rw [hadn, div_lt_iff₀ hdq]
    have e : (2 : ℚ) ^ (ln - ld + 1) * (2 : ℚ) ^ ld = (2 : ℚ) ^ (ln + 1) := by
      rw [← zpow_add₀ two_ne_zero']; congr 1; ring
    calc (n : ℚ) < (2 : ℚ) ^ (ln + 1) := n2
      _ = (2 : ℚ) ^ (ln - ld + 1) * (2 : ℚ) ^ ld := e.symm
      _ ≤ (2 : ℚ) ^ (ln - ld + 1) * d := mul_le_mul_of_nonneg_left d1 (hpos _).le
  -- 2^(ln - ld - 1) < a
  have lo : (2 : ℚ) ^ (ln - ld - 1) < a := by
    rw [hadn, lt_div_iff₀ hdq]
    have e : (2 : ℚ) ^ (ln - ld - 1) * (2 : ℚ) ^ (ld + 1) = (2 : ℚ) ^ ln := by
      rw [← zpow_add₀ two_ne_zero']; congr 1; ring
    calc (2 : ℚ) ^ (ln - ld - 1) * d < (2 : ℚ) ^ (ln - ld - 1) * (2 : ℚ) ^ (ld + 1) :=
          mul_lt_mul_of_pos_left d2 (hpos _)
      _ = (2 : ℚ) ^ ln := e
      _ ≤ n := n1
  unfold ilog2
  simp only
  rw [pow2_eq]
  split
  · rename_i h
    exact ⟨h, up⟩
  · rename_i h
    have h := not_le.mp h
    refine ⟨lo.le, ?_⟩
    have : ln - ld - 1 + 1 = ln - ld := by ring
    rw [this]; exact h

/-! ### rndP -/

/-- exponent of the unit in the last place used for a positive `a` -/
noncomputable def ulpExp (p : Nat) (emin : Int) (a : ℚ) : Int := max (ilog2 a - ((p : Int) - 1)) emin

/-- the rounding of a positive rational -/
noncomputable def rpos (p : Nat) (emin : Int) (a : ℚ) : ℚ :=
  (roundHE (a / (2 : ℚ) ^ ulpExp p emin a) : ℚ) * (2 : ℚ) ^ ulpExp p emin a

theorem rndP_of_pos (p : Nat) (emin : Int) {q : ℚ} (hq : 0 < q) : rndP p emin q = rpos p emin q := by
  unfold rndP rpos ulpExp
  simp only [pow2_eq, hq.ne', not_lt.mpr hq.le, if_false]

theorem rndP_of_neg (p : Nat) (emin : Int) {q : ℚ} (hq : q < 0) : rndP p emin q = -rpos p emin (-q) := by
  unfold rndP rpos ulpExp
  simp only [pow2_eq, hq.ne, hq, if_false, if_true]

theorem rndP_zero (p : Nat) (emin : Int) : rndP p emin 0 = 0 := by
  unfold rndP; simp

theorem rndP_neg (p : Nat) (emin : Int) (q : ℚ) : rndP p emin (-q) = -rndP p emin q := by
  rcases lt_trichotomy q 0 with h | h | h
  · rw [rndP_of_neg p emin h, rndP_of_pos p emin (by linarith : 0 < -q)]; ring
  · subst h; simp [rndP_zero]
  · rw [rndP_of_pos p emin h, rndP_of_neg p emin (by linarith : -q < 0)]; simp

theorem zp (k : ℤ) : (0 : ℚ) < (2 : ℚ) ^ k := by positivity

theorem zpow_mono2 {m n : ℤ} (h : m ≤ n) : (2 : ℚ) ^ m ≤ (2 : ℚ) ^ n :=
  zpow_le_zpow_right₀ (by norm_num) h

theorem zpow_le_iff2 {m n : ℤ} : (2 : ℚ) ^ m ≤ (2 : ℚ) ^ n ↔ m ≤ n :=
  zpow_le_zpow_iff_right₀ (by norm_num)

theorem zpow_lt_iff2 {m n : ℤ} : (2 : ℚ) ^ m < (2 : ℚ) ^ n ↔ m < n :=
  zpow_lt_zpow_iff_right₀ (by norm_num)

/-- a non-negative power of two is an integer -/
theorem zpow_nonneg_int {k : ℤ} (hk : 0 ≤ k) : (2 : ℚ) ^ k = (((2 : ℤ) ^ k.toNat : ℤ) : ℚ) := by
  obtain ⟨n, rfl⟩ := Int.eq_ofNat_of_zero_le hk
  simp [zpow_natCast]

theorem zpow_div2 (m n : ℤ) : (2 : ℚ) ^ m / (2 : ℚ) ^ n = (2 : ℚ) ^ (m - n) :=
  (zpow_sub₀ two_ne_zero' m n).symm

/-- the result of rounding a positive number is `m·2^u` with `0 ≤ m ≤ 2^p`, `emin ≤ u` -/
theorem rpos_form (p : Nat) (emin : Int) {a : ℚ} (ha : 0 < a) :
    0 ≤ roundHE (a / (2 : ℚ) ^ ulpExp p emin a) ∧
    roundHE (a / (2 : ℚ) ^ ulpExp p emin a) ≤ (2 : ℤ) ^ p ∧ emin ≤ ulpExp p emin a := by
  obtain ⟨h1, h2⟩ := ilog2_spec ha
  set u := ulpExp p emin a with hu
  have hue : ilog2 a - ((p : Int) - 1) ≤ u := le_max_left _ _
  refine ⟨?_, ?_, le_max_right _ _⟩
  · apply le_roundHE_of_int_le
    have : (0 : ℚ) ≤ a / (2 : ℚ) ^ u := div_nonneg ha.le (zp u).le
    simpa using this
  · apply roundHE_le_of_le_int
    have hlt : a / (2 : ℚ) ^ u ≤ (2 : ℚ) ^ (ilog2 a + 1) / (2 : ℚ) ^ u :=
      div_le_div_of_nonneg_right h2.le (zp u).le
    rw [zpow_div2] at hlt
    have : (2 : ℚ) ^ (ilog2 a + 1 - u) ≤ (2 : ℚ) ^ ((p : ℕ) : ℤ) := zpow_mono2 (by omega)
    have h3 := hlt.trans this
    rw [zpow_natCast] at h3
    push_cast
    exact h3

theorem rpos_nonneg (p : Nat) (emin : Int) {a : ℚ} (ha : 0 < a) : 0 ≤ rpos p emin a := by
  unfold rpos
  have := (rpos_form p emin ha).1
  have h2 : (0 : ℚ) ≤ (roundHE (a / (2 : ℚ) ^ ulpExp p emin a) : ℚ) := by exact_mod_cast this
  exact mul_nonneg h2 (zp _).le

/-- a representable positive number is a fixed point -/
theorem rpos_fix (p : Nat) (emin : Int) (hp : 1 ≤ p) (m w : ℤ) (hm0 : 0 < m) (hm : m ≤ (2 : ℤ) ^ p)
    (hw : emin ≤ w) : rpos p emin ((m : ℚ) * (2 : ℚ) ^ w) = (m : ℚ) * (2 : ℚ) ^ w := by
  set r : ℚ := (m : ℚ) * (2 : ℚ) ^ w with hr
  have hmq : (0 : ℚ) < m := by exact_mod_cast hm0
  have hrpos : 0 < r := mul_pos hmq (zp w)
  obtain ⟨h1, h2⟩ := ilog2_spec hrpos
  have hmle : (m : ℚ) ≤ (2 : ℚ) ^ ((p : ℕ) : ℤ) := by
    rw [zpow_natCast]; exact_mod_cast hm
  have hrle : r ≤ (2 : ℚ) ^ ((p : ℤ) + w) := by
    rw [zpow_add₀ two_ne_zero']; exact mul_le_mul_of_nonneg_right hmle (zp w).le
  have he : ilog2 r ≤ (p : ℤ) + w := zpow_le_iff2.mp (h1.trans hrle)
  set u := ulpExp p emin r with hu
  suffices h : ∃ k : ℤ, r / (2 : ℚ) ^ u = (k : ℚ) by
    obtain ⟨k, hk⟩ := h
    unfold rpos
    rw [← hu, hk, roundHE_int, ← hk, div_mul_cancel₀ _ (zp u).ne']
  rcases eq_or_lt_of_le he with heq | hlt
  · -- r is exactly 2^(p+w)
    have hreq : r = (2 : ℚ) ^ ((p : ℤ) + w) := le_antisymm hrle (by rw [← heq]; exact h1)
    have hu' : u = w + 1 := by
      rw [hu]; unfold ulpExp; rw [heq]
      have : (p : ℤ) + w - ((p : ℤ) - 1) = w + 1 := by ring
      rw [this]; exact max_eq_left (by omega)
    refine ⟨(2 : ℤ) ^ (p - 1), ?_⟩
    rw [hreq, hu', zpow_div2]
    have : (p : ℤ) + w - (w + 1) = ((p - 1 : ℕ) : ℤ) := by omega
    rw [this, zpow_natCast]; push_cast; rfl
  · have hule : u ≤ w := by
      rw [hu]; unfold ulpExp; exact max_le (by omega) hw
    refine ⟨m * (2 : ℤ) ^ (w - u).toNat, ?_⟩
    rw [hr, mul_div_assoc, zpow_div2, zpow_nonneg_int (by omega : 0 ≤ w - u)]
    push_cast; rfl

theorem rpos_mono (p : Nat) (emin : Int) (hp : 1 ≤ p) {a b : ℚ} (ha : 0 < a) (hab : a ≤ b) :
    rpos p emin a ≤ rpos p emin b := by
  have hb : 0 < b := lt_of_lt_of_le ha hab
  obtain ⟨a1, a2⟩ := ilog2_spec ha
  obtain ⟨b1, b2⟩ := ilog2_spec hb
  have hee : ilog2 a ≤ ilog2 b := by
    have : (2 : ℚ) ^ ilog2 a < (2 : ℚ) ^ (ilog2 b + 1) := lt_of_le_of_lt (a1.trans hab) b2
    have := zpow_lt_iff2.mp this
    omega
  set ua := ulpExp p emin a with hua
  set ub := ulpExp p emin b with hub
  have huu : ua ≤ ub := by
    rw [hua, hub]; unfold ulpExp; exact max_le_max (by omega) le_rfl
  unfold rpos
  rw [← hua, ← hub]
  rcases eq_or_lt_of_le huu with heq | hlt
  · rw [heq]
    have : a / (2 : ℚ) ^ ub ≤ b / (2 : ℚ) ^ ub := div_le_div_of_nonneg_right hab (zp ub).le
    have hm := roundHE_mono this
    have hmq : (roundHE (a / (2 : ℚ) ^ ub) : ℚ) ≤ (roundHE (b / (2 : ℚ) ^ ub) : ℚ) := by exact_mod_cast hm
    exact mul_le_mul_of_nonneg_right hmq (zp ub).le
  · -- different binades: 2^(ilog2 b) separates the two results
    have hemin : emin ≤ ua := le_max_right _ _
    have hub' : ub = ilog2 b - ((p : ℤ) - 1) := by
      rw [hub]; unfold ulpExp
      rcases max_cases (ilog2 b - ((p : ℤ) - 1)) emin with ⟨h, _⟩ | ⟨h, _⟩
      · exact h
      · rw [hub] at hlt; unfold ulpExp at hlt; rw [h] at hlt; omega
    have helt : ilog2 a < ilog2 b := by
      rcases eq_or_lt_of_le hee with h | h
      · exfalso
        rw [hua, hub] at hlt; unfold ulpExp at hlt; rw [h] at hlt; exact lt_irrefl _ hlt
      · exact h
    have huae : ua ≤ ilog2 b := by
      have : (1 : ℤ) ≤ p := by exact_mod_cast hp
      omega
    -- upper bound for a's result
    have hA : (roundHE (a / (2 : ℚ) ^ ua) : ℚ) * (2 : ℚ) ^ ua ≤ (2 : ℚ) ^ ilog2 b := by
      have hale : a ≤ (2 : ℚ) ^ ilog2 b := a2.le.trans (zpow_mono2 (by omega))
      have h1 : a / (2 : ℚ) ^ ua ≤ (2 : ℚ) ^ ilog2 b / (2 : ℚ) ^ ua := div_le_div_of_nonneg_right hale (zp ua).le
      rw [zpow_div2, zpow_nonneg_int (by omega : 0 ≤ ilog2 b - ua)] at h1
      have h2 := roundHE_le_of_le_int h1
      have h3 : (roundHE (a / (2 : ℚ) ^ ua) : ℚ) ≤ (((2 : ℤ) ^ (ilog2 b - ua).toNat : ℤ) : ℚ) := by exact_mod_cast h2
      have h4 := mul_le_mul_of_nonneg_right h3 (zp ua).le
      rw [← zpow_nonneg_int (by omega : 0 ≤ ilog2 b - ua), ← zpow_add₀ two_ne_zero'] at h4
      have : ilog2 b - ua + ua = ilog2 b := by ring
      rwa [this] at h4
    -- lower bound for b's result
    have hB : (2 : ℚ) ^ ilog2 b ≤ (roundHE (b / (2 : ℚ) ^ ub) : ℚ) * (2 : ℚ) ^ ub := by
      have hpe : 0 ≤ ilog2 b - ub := by
        have : (1 : ℤ) ≤ p := by exact_mod_cast hp
        omega
      have h1 : (2 : ℚ) ^ ilog2 b / (2 : ℚ) ^ ub ≤ b / (2 : ℚ) ^ ub := div_le_div_of_nonneg_right b1 (zp ub).le
      rw [zpow_div2, zpow_nonneg_int hpe] at h1
      have h2 := le_roundHE_of_int_le h1
      have h3 : (((2 : ℤ) ^ (ilog2 b - ub).toNat : ℤ) : ℚ) ≤ (roundHE (b / (2 : ℚ) ^ ub) : ℚ) := by exact_mod_cast h2
      have h4 := mul_le_mul_of_nonneg_right h3 (zp ub).le
      rw [← zpow_nonneg_int hpe, ← zpow_add₀ two_ne_zero'] at h4
      have : ilog2 b - ub + ub = ilog2 b := by ring
      rwa [this] at h4
    exact hA.trans hB

/-- `rndP` is monotone -/
theorem rndP_mono (p : Nat) (emin : Int) (hp : 1 ≤ p) {a b : ℚ} (hab : a ≤ b) :
    rndP p emin a ≤ rndP p emin b := by
  rcases lt_trichotomy a 0 with ha | ha | ha
  · rcases lt_trichotomy b 0 with hb | hb | hb
    · rw [rndP_of_neg p emin ha, rndP_of_neg p emin hb]
      have := rpos_mono p emin hp (by linarith : 0 < -b) (by linarith : -b ≤ -a)
      linarith
    · subst hb; rw [rndP_of_neg p emin ha, rndP_zero]
      have := rpos_nonneg p emin (by linarith : 0 < -a); linarith
    · rw [rndP_of_neg p emin ha, rndP_of_pos p emin hb]
      have := rpos_nonneg p emin (by linarith : 0 < -a)
      have := rpos_nonneg p emin hb; linarith
  · subst ha
    rcases eq_or_lt_of_le hab with hb | hb
    · rw [← hb]
    · rw [rndP_zero, rndP_of_pos p emin hb]; exact rpos_nonneg p emin hb
  · have hb : 0 < b := lt_of_lt_of_le ha hab
    rw [rndP_of_pos p emin ha, rndP_of_pos p emin hb]
    exact rpos_mono p emin hp ha hab

/-- a representable number (`m·2^w`, `|m| ≤ 2^p`, `w ≥ emin`) is a fixed point of `rndP` -/
theorem rndP_fix (p : Nat) (emin : Int) (hp : 1 ≤ p) (m w : ℤ) (hm : |m| ≤ (2 : ℤ) ^ p) (hw : emin ≤ w) :
    rndP p emin ((m : ℚ) * (2 : ℚ) ^ w) = (m : ℚ) * (2 : ℚ) ^ w := by
  rcases lt_trichotomy m 0 with h | h | h
  · have hneg : (m : ℚ) * (2 : ℚ) ^ w = -(((-m : ℤ) : ℚ) * (2 : ℚ) ^ w) := by push_cast; ring
    rw [hneg, rndP_neg]
    have hpos : 0 < ((-m : ℤ) : ℚ) * (2 : ℚ) ^ w := mul_pos (by exact_mod_cast (by omega : 0 < -m)) (zp w)
    rw [rndP_of_pos p emin hpos, rpos_fix p emin hp (-m) w (by omega) (by rw [abs_of_neg h] at hm; exact hm) hw]
  · subst h; simp [rndP_zero]
  · have hpos : 0 < (m : ℚ) * (2 : ℚ) ^ w := mul_pos (by exact_mod_cast h) (zp w)
    rw [rndP_of_pos p emin hpos, rpos_fix p emin hp m w h (by rw [abs_of_pos h] at hm; exact hm) hw]

/-- every value of `rndP` is representable -/
theorem rndP_repr (p : Nat) (emin : Int) (q : ℚ) :
    ∃ m w : ℤ, rndP p emin q = (m : ℚ) * (2 : ℚ) ^ w ∧ |m| ≤ (2 : ℤ) ^ p ∧ emin ≤ w := by
  rcases lt_trichotomy q 0 with h | h | h
  · obtain ⟨h0, h1, h2⟩ := rpos_form p emin (by linarith : 0 < -q)
    refine ⟨-roundHE (-q / (2 : ℚ) ^ ulpExp p emin (-q)), ulpExp p emin (-q), ?_, ?_, h2⟩
    · rw [rndP_of_neg p emin h]; unfold rpos; push_cast; ring
    · rw [abs_neg, abs_of_nonneg h0]; exact h1
  · subst h; exact ⟨0, emin, by simp [rndP_zero], by simp, le_rfl⟩
  · obtain ⟨h0, h1, h2⟩ := rpos_form p emin h
    refine ⟨roundHE (q / (2 : ℚ) ^ ulpExp p emin q), ulpExp p emin q, ?_, ?_, h2⟩
    · rw [rndP_of_pos p emin h]; rfl
    · rw [abs_of_nonneg h0]; exact h1

/-- `rndP` is idempotent -/
theorem rndP_idem (p : Nat) (emin : Int) (hp : 1 ≤ p) (q : ℚ) :
    rndP p emin (rndP p emin q) = rndP p emin q := by
  obtain ⟨m, w, h, hm, hw⟩ := rndP_repr p emin q
  rw [h]; exact rndP_fix p emin hp m w hm hw

/-! ### the driver's instance -/

theorem rndD_mono {a b : ℚ} (h : a ≤ b) : rndD a ≤ rndD b := rndP_mono 53 (-1074) (by norm_num) h

theorem rndD_idem (q : ℚ) : rndD (rndD q) = rndD q := rndP_idem 53 (-1074) (by norm_num) q

/-- a binary32 value (or the float-infinity sentinel `±2^128`) is a binary64 value -/
theorem rndD_rndS (q : ℚ) : rndD (rndS q) = rndS q := by
  have hInf : rndD fltInf = fltInf := by
    have := rndP_fix 53 (-1074) (by norm_num) 1 128 (by norm_num) (by norm_num)
    unfold rndD fltInf; rw [pow2_eq]; simpa using this
  have hNInf : rndD (-fltInf) = -fltInf := by
    unfold rndD at *; rw [rndP_neg, hInf]
  unfold rndS
  simp only
  split
  · exact hInf
  · split
    · exact hNInf
    · obtain ⟨m, w, h, hm, hw⟩ := rndP_repr 24 (-149) q
      rw [h]
      exact rndP_fix 53 (-1074) (by norm_num) m w (hm.trans (by norm_num)) (by omega)

theorem lawful_ieee : Lawful ieee :=
  ⟨fun _ _ h => rndD_mono h, rndD_idem, rndD_rndS⟩

end MpVerif.C13

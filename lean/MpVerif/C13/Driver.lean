/-! Line driver for C13 (stub; replaced when the model is written). -/
def main : IO Unit := pure ()

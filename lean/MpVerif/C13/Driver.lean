import MpVerif.C13.Model
import Std.Data.HashMap
/-!
Line driver for C13.  One op per line, one canonical output line per op; no logic of its own.

* `arith <op> <a> <b>`  (`add sub mul div sqrt tof`, operands as binary64 bit patterns in hex):
  the result of the model's rounding functions as an exact rational
* `consts`: the model's numeric constants
* `run <isint> <ubErr> <lbx> <ubx> <lby> <uby>  <fn-dom x4> <acc x2> <mono> <periodic> <per x2> <nbp> <bp..>  <n> {<k> <idx> <arg> <val>}*n`:
  the skeleton `run` on the function record whose five oracles are the given table
* `val <lbx> <ubx> <n> <x..> <y..>`: the verified validators on an output of the real code
-/
open MpVerif.C13

def hexDigit (c : Char) : Option Nat :=
  if '0' ≤ c ∧ c ≤ '9' then some (c.toNat - '0'.toNat)
  else if 'a' ≤ c ∧ c ≤ 'f' then some (c.toNat - 'a'.toNat + 10)
  else none

def parseHex (s : String) : Option Nat :=
  if s.isEmpty then none else
  s.foldl (fun acc c => match acc, hexDigit c with | some a, some d => some (a * 16 + d) | _, _ => none) (some 0)

/-- decode an IEEE binary64 bit pattern -/
def ofBits (b : Nat) : OV :=
  let sign : Nat := b / 2 ^ 63
  let e : Nat := (b / 2 ^ 52) % 2048
  let m : Nat := b % 2 ^ 52
  if e = 2047 then (if m = 0 then (if sign = 1 then .ninf else .pinf) else .nan)
  else
    let v : Rat := if e = 0 then ((m : Nat) : Rat) * pow2 (-1074) else (((2 ^ 52 + m) : Nat) : Rat) * pow2 ((e : Int) - 1075)
    .fin (if sign = 1 then -v else v)

def parseOV (s : String) : Option OV := (parseHex s).map ofBits
def parseFin (s : String) : Option Rat := match parseOV s with | some (.fin q) => some q | _ => none

def ratStr (q : Rat) : String := toString q.num ++ "/" ++ toString q.den

abbrev Table := Std.HashMap (Nat × Int × Int × Nat) OV

def kindCode (s : String) : Option Nat :=
  match s with | "e" => some 0 | "i" => some 1 | "d" => some 2 | "j" => some 3 | "s" => some 4 | _ => none

def parseTable : List String → Table → Option Table
  | [], t => some t
  | k :: idx :: a :: v :: rest, t =>
    match kindCode k, idx.toInt?, parseOV a, parseOV v with
    | some kc, some i, some (.fin q), some ov => parseTable rest (t.insert (kc, i, q.num, q.den) ov)
    | some _, some _, some _, some _ => parseTable rest t     -- non-finite argument: cannot be asked by the model
    | _, _, _, _ => none
  | _, _ => none

def look (t : Table) (k : Nat) (i : Int) (x : Rat) : OV := t.getD (k, i, x.num, x.den) .miss

def mkFn (t : Table) (dom : Dom) (accLb accUb : Rat) (mono per : Bool) (perLb perUb : Rat) (bps : List Rat) : Fn :=
  { eval := look t 0 0, inv := look t 1, d1 := look t 2 0, invd1 := look t 3, d2 := look t 4 0,
    dom := dom, accLb := accLb, accUb := accUb, monotone := mono, periodic := per,
    perLb := perLb, perUb := perUb, bps := bps }

def finList (l : List String) : Option (List Rat) := l.mapM parseFin

def showRes (r : Res) : String :=
  let pts := r.pl.reverse
  " ".intercalate (["ok", ratStr r.domOut.lbx, ratStr r.domOut.ubx, ratStr r.domOut.lby, ratStr r.domOut.uby,
    (if r.usePeriod then "1" else "0"), ratStr r.periodLength, ratStr r.facLb, ratStr r.facUb,
    ratStr r.remLb, ratStr r.remUb, toString pts.length] ++ pts.map (fun p => ratStr p.1) ++ pts.map (fun p => ratStr p.2))

def doRun (args : List String) : String :=
  match args with
  | isint :: rest =>
    match finList (rest.take 5), finList ((rest.drop 5).take 6), (rest.drop 11) with
    | some [ubErr, lbx, ubx, lby, uby], some [dl, du, dyl, dyu, al, au], mono :: per :: rest2 =>
      match finList (rest2.take 2), (rest2.drop 2) with
      | some [pl, pu], nb :: rest3 =>
        match nb.toNat? with
        | some nbp =>
          match finList (rest3.take nbp), (rest3.drop nbp) with
          | some bps, _n :: tab =>
            match parseTable tab {} with
            | some t =>
              let f := mkFn t ⟨dl, du, dyl, dyu⟩ al au (mono == "1") (per == "1") pl pu bps
              let p : Params := { dom := ⟨lbx, ubx, lby, uby⟩, isInt := isint == "1", ubErr := ubErr }
              match run ieee f p 200000 with
              | .ok r => showRes r
              | .error e => e.toStr
            | none => "bad-op"
          | _, _ => "bad-op"
        | none => "bad-op"
      | _, _ => "bad-op"
    | _, _, _ => "bad-op"
  | _ => "bad-op"

def doVal (args : List String) : String :=
  match args with
  | lbx :: ubx :: n :: rest =>
    match parseFin lbx, parseFin ubx, n.toNat? with
    | some l, some u, some k =>
      match finList (rest.take k), finList ((rest.drop k).take k) with
      | some xs, some ys =>
        if (rest.drop k).length != k then "bad-op" else
        let out : Output := { xs := xs, ys := ys, lbx := l, ubx := u }
        s!"checkPL={checkPL out} ends={checkEnds out}"
      | _, _ => "bad-op"
    | _, _, _ => "bad-op"
  | _ => "bad-op"

def doArith (args : List String) : String :=
  match args with
  | [op, a, b] =>
    match parseFin a, parseFin b with
    | some x, some y =>
      match op with
      | "add" => ratStr (fadd ieee x y)
      | "sub" => ratStr (fsub ieee x y)
      | "mul" => ratStr (fmul ieee x y)
      | "div" => if y = 0 then "bad-op" else ratStr (fdiv ieee x y)
      | "sqrt" => if x < 0 then "bad-op" else ratStr (ieee.sqrt x)
      | "tof" => ratStr (ieee.toF x)
      | _ => "bad-op"
    | _, _ => "bad-op"
  | _ => "bad-op"

partial def loop (h : IO.FS.Stream) (out : IO.FS.Stream) : IO Unit := do
  let line ← h.getLine
  if line.isEmpty then return ()
  match line.trimAscii.toString.splitOn " " with
  | "run" :: args => out.putStrLn (doRun args)
  | "val" :: args => out.putStrLn (doVal args)
  | "arith" :: args => out.putStrLn (doArith args)
  | ["consts"] => out.putStrLn (" ".intercalate ([eps4, eps6, eps10, c1_2, cInv1_1, eps100].map ratStr))
  | _ => out.putStrLn "bad-op"
  loop h out

def main : IO Unit := do
  let out ← IO.getStdout
  loop (← IO.getStdin) out

import MpVerif.C13.LemmasRun
/-! # C13 — first breakpoint, periodic cover, validator (core Lean only) -/
namespace MpVerif.C13

/-! ## the first point of the PL never changes once it is there -/

theorem addPoint_ne_nil (o : FOps) (pl : PL) (x y : Rat) : addPoint o pl x y ≠ [] := by
  unfold addPoint
  split
  · simp
  · split
    · split
      · split <;> simp
      · simp
    · simp

theorem addPoint_getLast (o : FOps) (pl : PL) (hne : pl ≠ []) (x y : Rat) :
    (addPoint o pl x y).getLast? = pl.getLast? := by
  unfold addPoint
  match pl, hne with
  | (bx, byy) :: rest, _ =>
    simp only
    split
    · match rest with
      | [] => simp
      | (x2, y2) :: rest2 =>
        simp only
        split
        · simp [List.getLast?_cons_cons]
        · simp [List.getLast?_cons_cons]
    · rfl

/-- `first pl = some p`: the PL is non-empty and its first point (the last entry of the reversed list) is `p` -/
def first (pl : PL) : Option (Rat × Rat) := pl.getLast?

theorem first_addPoint {o : FOps} {pl : PL} {p : Rat × Rat} (h : first pl = some p) (x y : Rat) :
    first (addPoint o pl x y) = some p := by
  unfold first at *
  have hne : pl ≠ [] := by intro hn; subst hn; simp at h
  rw [addPoint_getLast o pl hne]; exact h

theorem subLoop_first {o : FOps} (f : Fn) (ubErr : Rat) (i : Int) (ub : Rat) (stepFuel : Nat) (p : Rat × Rat) :
    ∀ (fuel : Nat) (x0 f0 : Rat) (pl r : PL), first pl = some p →
      subLoop o f ubErr i ub stepFuel fuel x0 f0 pl = .ok r → first r = some p := by
  intro fuel
  induction fuel with
  | zero => intro x0 f0 pl r _ h; simp [subLoop] at h
  | succ n ih =>
    intro x0 f0 pl r hf h
    unfold subLoop at h
    obtain ⟨dx1, _, h⟩ := bind_ok h
    obtain ⟨dx2, _, h⟩ := bind_ok h
    obtain ⟨dx3, _, h⟩ := bind_ok h
    dsimp only at h
    generalize (if snapCond o ub (fadd o x0 dx3) then ub else fadd o x0 dx3) = x1 at h
    obtain ⟨f1, _, h⟩ := bind_ok h
    have hf' := first_addPoint (o := o) hf x1 f1
    split at h
    · exact ih _ _ _ _ hf' h
    · have := pure_ok h; subst this; exact hf'

theorem subintervals_first {o : FOps} (f : Fn) (ubErr : Rat) (bps : List Rat) (fuel : Nat) (p : Rat × Rat) :
    ∀ (n i : Nat) (pl r : PL), first pl = some p →
      subintervals o f ubErr bps fuel n i pl = .ok r → first r = some p := by
  intro n
  induction n with
  | zero => intro i pl r hf h; simp [subintervals] at h; have := pure_ok h; subst this; exact hf
  | succ n ih =>
    intro i pl r hf h
    unfold subintervals at h
    obtain ⟨pl', h1, h⟩ := bind_ok h
    have hf' : first pl' = some p := by
      unfold approxSub at h1
      split at h1
      · exact (throw_ne_ok h1).elim
      · split at h1
        · exact (throw_ne_ok h1).elim
        · exact subLoop_first f ubErr _ _ _ p fuel _ _ _ _ hf h1
    split at h
    · exact ih _ _ _ hf' h
    · have := pure_ok h; subst this; exact hf'

/-! ## periodic reduction covers the requested interval (exact arithmetic) -/

theorem div_le_div_right {a b c : Rat} (h : a ≤ b) (hc : 0 < c) : a / c ≤ b / c := by
  rw [Rat.div_def, Rat.div_def]
  exact Rat.mul_le_mul_of_nonneg_right h (Rat.le_of_lt (Rat.inv_pos.mpr hc))

theorem periodic_cover_arith (lbx ubx pl pu x : Rat) (hp : pl < pu) (hl : lbx ≤ x) (hu : x ≤ ubx) :
    ∃ n : Int, ((lbx - pl) / (pu - pl)).floor ≤ n ∧ n ≤ ((ubx - pl) / (pu - pl)).ceil ∧
      pl ≤ x - (n : Rat) * (pu - pl) ∧ x - (n : Rat) * (pu - pl) < pu := by
  have hL : 0 < pu - pl := by grind
  have hL0 : pu - pl ≠ 0 := by grind
  refine ⟨((x - pl) / (pu - pl)).floor, ?_, ?_, ?_, ?_⟩
  · exact Rat.floor_monotone (div_le_div_right (by grind) hL)
  · have h1 : ((x - pl) / (pu - pl)).floor ≤ ((ubx - pl) / (pu - pl)).floor :=
      Rat.floor_monotone (div_le_div_right (by grind) hL)
    have h2 : (((ubx - pl) / (pu - pl)).floor : Rat) ≤ (ubx - pl) / (pu - pl) := Rat.floor_le _
    have h3 : (ubx - pl) / (pu - pl) ≤ ((((ubx - pl) / (pu - pl)).ceil : Int) : Rat) := Rat.le_ceil
    have h4 : (((ubx - pl) / (pu - pl)).floor : Rat) ≤ ((((ubx - pl) / (pu - pl)).ceil : Int) : Rat) :=
      Rat.le_trans h2 h3
    have h5 : ((ubx - pl) / (pu - pl)).floor ≤ ((ubx - pl) / (pu - pl)).ceil := by
      exact_mod_cast h4
    omega
  · have h1 : ((((x - pl) / (pu - pl)).floor : Int) : Rat) ≤ (x - pl) / (pu - pl) := Rat.floor_le _
    have h2 := Rat.mul_le_mul_of_nonneg_right h1 (Rat.le_of_lt hL)
    rw [Rat.div_mul_cancel hL0] at h2
    grind
  · have h1 : (x - pl) / (pu - pl) < ((((x - pl) / (pu - pl)).floor + 1 : Int) : Rat) := Rat.lt_floor_add_one _
    have h2 := Rat.mul_lt_mul_of_pos_right h1 hL
    rw [Rat.div_mul_cancel hL0] at h2
    have h3 : ((((x - pl) / (pu - pl)).floor + 1 : Int) : Rat) = ((((x - pl) / (pu - pl)).floor : Int) : Rat) + 1 := by
      simp [Rat.intCast_add]
    rw [h3] at h2
    grind

/-! ## validator -/

theorem incB_sound : ∀ (l : List Rat), incB l = true → l.Pairwise (· < ·) := by
  intro l
  induction l with
  | nil => intro _; exact List.Pairwise.nil
  | cons a t ih =>
    intro h
    match t, ih, h with
    | [], _, _ => simp
    | b :: t', ih, h =>
      simp only [incB, Bool.and_eq_true, decide_eq_true_eq] at h
      have hp := ih h.2
      rw [List.pairwise_cons]
      refine ⟨?_, hp⟩
      intro c hc
      simp only [List.mem_cons] at hc
      rcases hc with hc | hc
      · subst hc; exact h.1
      · rw [List.pairwise_cons] at hp
        have := hp.1 c hc
        grind

end MpVerif.C13

/-!
# C13 — model of the piecewise-linear generator skeleton

Mirrors `BasicPLApproximator<FuncCon>::Run()` of `src/mp/flat/piecewise_linear.cpp` and
`PLPoints::AddPoint` of `include/mp/flat/constr_functional.h`, statement by statement, over an
**abstract function record** `Fn` (the five oracles `eval, inverse, eval_1st, inverse_1st, eval_2nd`
plus domain / accepted range / monotone / periodic / period / default breakpoints) and an abstract
floating-point arithmetic `FOps` (`rnd` = rounding of an exact result to the working format,
`toF` = the `double → float → double` round trip through `std::set<float>`, `sqrt`).

Numbers are exact rationals; every C++ floating operation `a ∘ b` is `rnd (a ∘ b)`.
With `rnd = id` the model is the generator over exact arithmetic; with `rnd = rndD`
(round-to-nearest-even binary64, defined below) it reproduces the compiled code bit for bit
(checked on every run by the correspondence).  Core Lean only.
-/
namespace MpVerif.C13

/-! ## binary floating-point rounding on rationals (used by the driver instance) -/

/-- `2^e` for an integer exponent -/
def pow2 (e : Int) : Rat :=
  if e ≥ 0 then ((2 ^ e.toNat : Nat) : Rat) else 1 / ((2 ^ (-e).toNat : Nat) : Rat)

/-- round a non-negative rational to the nearest integer, ties to even -/
def roundHE (q : Rat) : Int :=
  let f := q.floor
  let r := q - (f : Rat)
  if r < 1/2 then f else if 1/2 < r then f + 1 else if f % 2 = 0 then f else f + 1

/-- `⌊log₂ q⌋` for `q > 0` -/
def ilog2 (q : Rat) : Int :=
  let e0 : Int := (Nat.log2 q.num.toNat : Int) - (Nat.log2 q.den : Int)
  if pow2 e0 ≤ q then e0 else e0 - 1

/-- round to nearest (ties to even) with a `p`-bit significand; results are multiples of `2^eminUlp`
(gradual underflow); no overflow handling (callers that need it test the magnitude) -/
def rndP (p : Nat) (eminUlp : Int) (q : Rat) : Rat :=
  if q = 0 then 0 else
  let a := if q < 0 then -q else q
  let e := ilog2 a
  let u := max (e - ((p : Int) - 1)) eminUlp
  let r := (roundHE (a / pow2 u) : Rat) * pow2 u
  if q < 0 then -r else r

/-- binary64 rounding -/
def rndD (q : Rat) : Rat := rndP 53 (-1074) q

/-- the value beyond every finite binary32 number, used as the "float infinity" sentinel -/
def fltInf : Rat := pow2 128

/-- `double → float` conversion (round to nearest even), overflow to the sentinel `±fltInf` -/
def rndS (q : Rat) : Rat :=
  let r := rndP 24 (-149) q
  if r ≥ fltInf then fltInf else if r ≤ -fltInf then -fltInf else r

/-- correctly rounded binary64 square root of a non-negative rational -/
def sqrtD (q : Rat) : Rat :=
  if q ≤ 0 then 0 else
  let e := ilog2 q
  let k : Int := (130 - e) / 2 + 1
  let t := (q * pow2 (2 * k)).floor.toNat
  let s := Nat.sqrt t
  let exact : Bool := ((s * s : Nat) : Rat) = q * pow2 (2 * k)
  let v : Rat := if exact then (s : Rat) else (s : Rat) + 1/2
  rndD (v / pow2 k)

/-! ## arithmetic parameters and constants -/

structure FOps where
  rnd : Rat → Rat
  toF : Rat → Rat
  sqrt : Rat → Rat

/-- the instance that mirrors IEEE binary64 / binary32 -/
def ieee : FOps := { rnd := rndD, toF := rndS, sqrt := sqrtD }

/-- exact arithmetic (no rounding); `sqrt` is still an oracle -/
def exactOps (sq : Rat → Rat) : FOps := { rnd := id, toF := id, sqrt := sq }

def fadd (o : FOps) (a b : Rat) : Rat := o.rnd (a + b)
def fsub (o : FOps) (a b : Rat) : Rat := o.rnd (a - b)
def fmul (o : FOps) (a b : Rat) : Rat := o.rnd (a * b)
def fdiv (o : FOps) (a b : Rat) : Rat := o.rnd (a / b)
def rabs (a : Rat) : Rat := if a < 0 then -a else a

/-- the double nearest to `1e-4` (AddPoint's merge threshold), exactly -/
def eps4 : Rat := 7378697629483821 / 73786976294838206464
/-- the double nearest to `1e-6` -/
def eps6 : Rat := 4722366482869645 / 4722366482869645213696
/-- the double nearest to `1e-10` -/
def eps10 : Rat := 7737125245533627 / 77371252455336267181195264
/-- the double nearest to `1.2` -/
def c1_2 : Rat := 5404319552844595 / 4503599627370496
/-- the double `1.0/1.1` (constant-folded by the compiler: correctly rounded quotient of doubles) -/
def cInv1_1 : Rat := 8188362958855447 / 9007199254740992
/-- the double nearest to `1e-100`, exactly -/
def eps100 : Rat := (492525077454931 : Rat) / ((2 ^ 381 : Nat) : Rat)

/-! ## data -/

structure Dom where
  lbx : Rat
  ubx : Rat
  lby : Rat
  uby : Rat
deriving Repr, BEq

/-- value returned by a function oracle: a finite number, an infinity, NaN, or "not in the table" -/
inductive OV where
  | fin (q : Rat)
  | pinf
  | ninf
  | nan
  | miss
deriving Repr, BEq

/-- IEEE `<` on oracle values (false when a NaN is involved) -/
def OV.lt : OV → OV → Bool
  | .fin a, .fin b => a < b
  | .fin _, .pinf => true
  | .ninf, .fin _ => true
  | .ninf, .pinf => true
  | _, _ => false

/-- IEEE `<=` -/
def OV.le : OV → OV → Bool
  | .fin a, .fin b => a ≤ b
  | .fin _, .pinf => true
  | .ninf, .fin _ => true
  | .ninf, .pinf => true
  | .pinf, .pinf => true
  | .ninf, .ninf => true
  | _, _ => false

/-- the abstract function record (what `PLApproximator<Con>` supplies to the skeleton) -/
structure Fn where
  eval : Rat → OV
  inv : Int → Rat → OV       -- may depend on the current subinterval index
  d1 : Rat → OV
  invd1 : Int → Rat → OV
  d2 : Rat → OV
  dom : Dom                   -- GetFuncGraphDomain
  accLb : Rat                 -- GetLargestAcceptedArgumentRange
  accUb : Rat
  monotone : Bool
  periodic : Bool
  perLb : Rat                 -- GetDefaultPeriod
  perUb : Rat
  bps : List Rat              -- GetDefaultBreakpoints

/-- input part of `PLApproxParams` -/
structure Params where
  dom : Dom
  isInt : Bool
  ubErr : Rat

inductive Status where
  | ok | accrange | infeas | degenerate | preim | uberr | oor | fuel | miss | nonfinite | ubcast
deriving Repr, BEq, DecidableEq

def Status.toStr : Status → String
  | .ok => "ok" | .accrange => "accrange" | .infeas => "infeas" | .degenerate => "degenerate"
  | .preim => "preim" | .uberr => "uberr" | .oor => "oor" | .fuel => "hang" | .miss => "oracle-miss"
  | .nonfinite => "nonfinite" | .ubcast => "ub-int-cast"

/-- `PLPoints`, stored back to front: the head is `x_.back(), y_.back()` -/
abbrev PL := List (Rat × Rat)

/-- output part of `PLApproxParams` -/
structure Res where
  domOut : Dom
  usePeriod : Bool
  periodLength : Rat
  facLb : Rat
  facUb : Rat
  remLb : Rat
  remUb : Rat
  pl : PL

/-! ## `PLPoints::AddPoint` -/

/-- `AddPoint(x, y)`: skip a point not farther than `1e-4` to the right of the last one; if the last two
ordinates both equal `y`, move the last abscissa instead of adding a point -/
def addPoint (o : FOps) (pl : PL) (x y : Rat) : PL :=
  match pl with
  | [] => [(x, y)]
  | (bx, byy) :: rest =>
    if fadd o bx eps4 < x then
      match rest with
      | (_, y2) :: _ => if byy = y ∧ y2 = y then (x, byy) :: rest else (x, y) :: pl
      | [] => (x, y) :: pl
    else pl

/-! ## domain clipping -/

def Dom.intersect (a b : Dom) : Dom :=
  { lbx := max a.lbx b.lbx, ubx := min a.ubx b.ubx, lby := max a.lby b.lby, uby := min a.uby b.uby }

def getFin : OV → Except Status Rat
  | .fin q => pure q
  | .miss => throw .miss
  | _ => throw .nonfinite

/-- `std::min` / `std::max` of two oracle values that may be infinite (NaN is not modelled) -/
def ovMin (a b : OV) : Except Status OV :=
  match a, b with
  | .miss, _ | _, .miss => throw .miss
  | .nan, _ | _, .nan => throw .nonfinite
  | a, b => pure (if OV.lt b a then b else a)
def ovMax (a b : OV) : Except Status OV :=
  match a, b with
  | .miss, _ | _, .miss => throw .miss
  | .nan, _ | _, .nan => throw .nonfinite
  | a, b => pure (if OV.lt a b then b else a)

/-- `std::max(x, v)` for a finite `x` and a possibly infinite `v` -/
def maxFin (x : Rat) (v : OV) : Rat :=
  match v with | .fin q => if x < q then q else x | .pinf => x /- unreachable in practice -/ | _ => x
def minFin (x : Rat) (v : OV) : Rat :=
  match v with | .fin q => if q < x then q else x | _ => x

/-- `ClipWithFunctionValues` (called before the subinterval loop: index `-100`) -/
def clipVals (f : Fn) (d : Dom) : Except Status Dom := do
  let imlbx ← getFin (f.eval d.lbx)
  let imubx ← getFin (f.eval d.ubx)
  let prelby := f.inv (-100) d.lby
  let preuby := f.inv (-100) d.uby
  let lo ← ovMin prelby preuby
  let hi ← ovMax prelby preuby
  -- an infinite pre-image on the wrong side would make the bound infinite: not modelled
  if lo == .pinf || hi == .ninf then throw .nonfinite
  pure { lbx := maxFin d.lbx lo, ubx := minFin d.ubx hi,
         lby := max d.lby (min imlbx imubx), uby := min d.uby (max imlbx imubx) }

/-- `ClipFuncGraphDomain` -/
def clipDomain (f : Fn) (p : Params) : Except Status Dom := do
  if !(f.accLb ≤ p.dom.lbx ∧ p.dom.ubx ≤ f.accUb) then throw .accrange
  let d := p.dom.intersect f.dom
  if f.monotone then clipVals f d else pure d

/-! ## breakpoints -/

/-- insertion into a strictly increasing list without duplicates (`std::set::insert`) -/
def insertU (x : Rat) : List Rat → List Rat
  | [] => [x]
  | y :: ys => if x < y then x :: y :: ys else if x = y then y :: ys else y :: insertU x ys

def toSet (l : List Rat) : List Rat := l.foldl (fun s x => insertU x s) []

/-- `InitNonPeriodic`: the default breakpoints go through `std::set<float>`; `lbx`, `ubx` are inserted
(as floats) and everything outside is erased -/
def bpsNonPeriodic (o : FOps) (f : Fn) (lbx ubx : Rat) : List Rat :=
  let s0 := toSet (f.bps.map o.toF)
  let lf := o.toF lbx
  let uf := o.toF ubx
  if uf < lf then [uf]
  else lf :: (s0.filter (fun b => lf < b ∧ b < uf)) ++ (if lf < uf then [uf] else [])

/-! ## error measure and step control -/

/-- one candidate point `(f(x), chord(x))` of `maxErrorRelAbove1`; an `x` that is NaN, or whose function
value is not finite, yields an error NaN which `std::max(errMax, NaN)` ignores -/
def addCand (o : FOps) (f : Fn) (x0 y0 slope : Rat) (pts : List (Rat × Rat)) (xm : OV) :
    Except Status (List (Rat × Rat)) :=
  match xm with
  | .fin x =>
    match f.eval x with
    | .fin fv => pure (pts ++ [(fv, fadd o y0 (fmul o (fsub o x x0) slope))])
    | .miss => throw .miss
    | _ => pure pts
  | .nan => pure pts
  | .miss => throw .miss
  | _ => throw .nonfinite

/-- `maxErrorRelAbove1(x0, y0, x1, y1)` on subinterval `i` -/
def maxErrRel (o : FOps) (f : Fn) (ubErr : Rat) (i : Int) (x0 y0 x1 y1 : Rat) : Except Status Rat := do
  if !(x0 < x1) then throw .degenerate
  if !(0 < ubErr) then throw .uberr
  let f0 ← getFin (f.eval x0)
  let f1 ← getFin (f.eval x1)
  let pts := [(f0, y0), (f1, y1)]
  let dxx := fsub o x1 x0
  if dxx = 0 then throw .nonfinite
  let slope := fdiv o (fsub o y1 y0) dxx
  let pts ← addCand o f x0 y0 slope pts (f.invd1 i slope)
  let a := f.d1 x0
  let b := f.d1 x1
  if a == .miss || b == .miss then throw .miss
  let (fp0, fp1) := if OV.lt b a then (b, a) else (a, b)
  let sA := fdiv o slope (fadd o 1 ubErr)
  let pts ← if OV.le fp0 (.fin sA) && OV.le (.fin sA) fp1 then addCand o f x0 y0 slope pts (f.invd1 i sA) else pure pts
  let pts ← if ubErr ≠ 1 then do
      let den := fsub o 1 ubErr
      if den = 0 then throw .nonfinite
      let sT := fdiv o slope den
      if OV.le fp0 (.fin sT) && OV.le (.fin sT) fp1 then addCand o f x0 y0 slope pts (f.invd1 i sT) else pure pts
    else pure pts
  let pts ← if f0 < 1 ∧ 1 < f1 then do
      match f.inv i 1 with
      | .fin xp =>
        if !(x0 < xp ∧ xp < x1) then throw .preim
        pure (pts ++ [((1 : Rat), fadd o y0 (fmul o (fsub o xp x0) slope))])
      | .miss => throw .miss
      | _ => throw .preim
    else pure pts
  let pts ← if f0 < -1 ∧ -1 < f1 then do
      match f.inv i (-1) with
      | .fin xp =>
        if !(x0 < xp ∧ xp < x1) then throw .preim
        pure (pts ++ [((-1 : Rat), fadd o y0 (fmul o (fsub o xp x0) slope))])
      | .miss => throw .miss
      | _ => throw .preim
    else pure pts
  pure <| pts.foldl (fun errMax (fy : Rat × Rat) =>
    let e := rabs (fsub o fy.1 fy.2)
    let err := if -1 ≤ fy.1 ∧ fy.1 ≤ 1 then e else fdiv o e (rabs fy.1)
    if errMax < err then err else errMax) 0

/-- `CompareError`: `-1, 0, 1` -/
def cmpErr (o : FOps) (f : Fn) (ubErr : Rat) (i : Int) (x0 y0 x1 y1 : Rat) : Except Status Int := do
  let err ← maxErrRel o f ubErr i x0 y0 x1 y1
  pure (if err < ubErr then -1 else if ubErr < err then 1 else 0)

/-- `ComputeInitialStepLength` -/
def initStep (o : FOps) (f : Fn) (ubErr ub x0 : Rat) : Except Status Rat := do
  let fallback := fdiv o (fsub o ub x0) 100
  let dx ← match f.d2 x0 with
    | .fin f2 =>
      if rabs f2 < eps100 then return fallback
      else pure (o.sqrt (rabs (fdiv o (fdiv o (fmul o ubErr 8) 3) f2)))
    | .pinf | .ninf => pure 0
    | .nan => throw .nonfinite
    | .miss => throw .miss
  let dx := if ub < fadd o x0 dx then fsub o ub x0 else dx
  pure (if dx < eps10 then fallback else dx)

/-- `IncreaseStepWhileErrorSmallEnough` -/
def incStep (o : FOps) (f : Fn) (ubErr : Rat) (i : Int) (ub x0 f0 : Rat) : Nat → Rat → Except Status Rat
  | 0, _ => throw .fuel
  | fuel + 1, dx => do
    let x1 := fadd o x0 dx
    let f1 ← getFin (f.eval x1)
    let grow ← if f1 = f0 then pure true else do
      let c ← cmpErr o f ubErr i x0 f0 x1 f1
      pure (c < 0)
    if grow then
      let dx' := fmul o dx c1_2
      if ub < fadd o x0 dx' then pure (fsub o ub x0) else incStep o f ubErr i ub x0 f0 fuel dx'
    else pure dx

/-- `DecreaseStepWhileErrorTooBig` -/
def decStep (o : FOps) (f : Fn) (ubErr : Rat) (i : Int) (x0 f0 : Rat) : Nat → Rat → Except Status Rat
  | 0, _ => throw .fuel
  | fuel + 1, dx => do
    let x1 := fadd o x0 dx
    let f1 ← getFin (f.eval x1)
    let shrink ← if f1 = f0 then pure false else do
      let c ← cmpErr o f ubErr i x0 f0 x1 f1
      pure (0 < c)
    if shrink then decStep o f ubErr i x0 f0 fuel (fmul o dx cInv1_1) else pure dx

/-- the body of the `do … while (x0 < ub_sub())` loop of `ApproximateSubinterval` -/
def subLoop (o : FOps) (f : Fn) (ubErr : Rat) (i : Int) (ub : Rat) (stepFuel : Nat) :
    Nat → Rat → Rat → PL → Except Status PL
  | 0, _, _, _ => throw .fuel
  | fuel + 1, x0, f0, pl => do
    let dx ← initStep o f ubErr ub x0
    let dx ← incStep o f ubErr i ub x0 f0 stepFuel dx
    let dx ← decStep o f ubErr i x0 f0 stepFuel dx
    let x1 := fadd o x0 dx
    let x1 := if fsub o ub x1 < eps6 then ub else x1
    let f1 ← getFin (f.eval x1)
    let pl' := addPoint o pl x1 f1
    if x1 < ub then subLoop o f ubErr i ub stepFuel fuel x1 f1 pl' else pure pl'

/-- `ApproximateSubinterval` for subinterval `i` of the breakpoint list -/
def approxSub (o : FOps) (f : Fn) (ubErr : Rat) (bps : List Rat) (fuel : Nat) (i : Nat) (pl : PL) :
    Except Status PL :=
  match pl with
  | [] => throw .oor
  | (x0, f0) :: _ =>
    match bps[i + 1]? with
    | none => throw .oor          -- `breakpoints_.at(iSubIntv_+1)` throws `std::out_of_range`
    | some ub => subLoop o f ubErr (i : Int) ub (min fuel 4096) fuel x0 f0 pl

/-- the `do ApproximateSubinterval(); while (NextSubinterval());` loop, `n` = remaining iterations bound -/
def subintervals (o : FOps) (f : Fn) (ubErr : Rat) (bps : List Rat) (fuel : Nat) :
    Nat → Nat → PL → Except Status PL
  | 0, _, pl => pure pl
  | n + 1, i, pl => do
    let pl' ← approxSub o f ubErr bps fuel i pl
    if i + 2 < bps.length then subintervals o f ubErr bps fuel n (i + 1) pl' else pure pl'

/-- the points of the integrality shortcut: `AddPoint(x0+k, eval(x0+k))` for `k = 0 … N-1` -/
def intPoints (o : FOps) (f : Fn) (x0 : Rat) : Nat → Nat → PL → Except Status PL
  | 0, _, pl => pure pl
  | n + 1, k, pl => do
    let x := fadd o x0 (k : Rat)
    let y ← getFin (f.eval x)
    intPoints o f x0 n (k + 1) (addPoint o pl x y)

/-- conversion `int(q)` of an in-range double: truncation towards zero -/
def truncInt (q : Rat) : Int := if q < 0 then -((-q).floor) else q.floor

/-- `ConsiderIntegrality` -/
def considerIntegrality (o : FOps) (f : Fn) (isInt usePeriod : Bool) (d : Dom) (pl : PL) : Except Status PL := do
  if isInt && !usePeriod then
    let x0 : Rat := (d.lbx.ceil : Int)
    let xN : Rat := (d.ubx.floor : Int)
    let nf := fadd o (fsub o xN x0) 1
    -- `int(xN - x0 + 1)`: conversion of an out-of-range double to int is undefined behaviour
    if nf ≥ 2147483648 ∨ nf ≤ -2147483649 then throw .ubcast
    let n : Int := truncInt nf
    if n ≤ (pl.length : Int) then intPoints o f x0 n.toNat 0 [] else pure pl
  else pure pl

/-- the result record before any point is produced -/
def res0 (d : Dom) : Res :=
  { domOut := d, usePeriod := false, periodLength := 0, facLb := 0, facUb := 0, remLb := 0, remUb := 0, pl := [] }

/-- `CheckDomainReturnFalseIfTrivial`, trivial case: a single point in the middle -/
def trivialRes (o : FOps) (f : Fn) (d : Dom) : Except Status Res := do
  let mid := fdiv o (fadd o d.lbx d.ubx) 2
  let v ← getFin (f.eval mid)
  pure { res0 d with pl := [(mid, v)] }

/-- `InitPeriodic` -/
def initPeriodic (o : FOps) (f : Fn) (d : Dom) : Except Status (Res × List Rat) :=
  let len := fsub o f.perUb f.perLb
  if len = 0 then throw .nonfinite
  else match f.bps.head?, f.bps.getLast? with
    | some b0, some bl =>
      pure ({ res0 d with usePeriod := true, periodLength := len, remLb := b0, remUb := bl,
                          facLb := ((fdiv o (fsub o d.lbx f.perLb) len).floor : Int),
                          facUb := ((fdiv o (fsub o d.ubx f.perLb) len).ceil : Int) }, f.bps)
    | _, _ => throw .oor

/-- `InitNonPeriodic` -/
def initNonPeriodic (o : FOps) (f : Fn) (d : Dom) : Except Status (Res × List Rat) :=
  let b := bpsNonPeriodic o f d.lbx d.ubx
  if b.any (fun x => x ≥ fltInf ∨ x ≤ -fltInf) then throw .nonfinite else pure (res0 d, b)

/-- `InitSubintervalLoop`, the subinterval loop, `ConsiderIntegrality` -/
def mainLoop (o : FOps) (f : Fn) (p : Params) (fuel : Nat) (d : Dom) (res1 : Res) (bps : List Rat) :
    Except Status Res :=
  match bps with
  | [] => throw .oor
  | x0 :: _ => do
    let f0 ← getFin (f.eval x0)
    let pl ← subintervals o f p.ubErr bps fuel bps.length 0 (addPoint o [] x0 f0)
    let pl ← considerIntegrality o f p.isInt res1.usePeriod d pl
    pure { res1 with pl := pl }

/-- `BasicPLApproximator::Run()` -/
def run (o : FOps) (f : Fn) (p : Params) (fuel : Nat) : Except Status Res := do
  let d ← clipDomain f p
  if fadd o d.ubx eps6 < d.lbx then throw .infeas
  else if fsub o d.ubx eps6 < d.lbx then trivialRes o f d
  else do
    let rb ← (if f.periodic then initPeriodic o f d else initNonPeriodic o f d)
    mainLoop o f p fuel d rb.1 rb.2

/-! ## validator of an output of the real code (core-only, run by the driver on what `mp::PLApproximate` returned) -/

/-- strictly increasing, as a Boolean -/
def incB : List Rat → Bool
  | [] => true
  | [_] => true
  | a :: b :: t => a < b && incB (b :: t)

/-- what the validator looks at: the abscissae/ordinates in order, the reported domain -/
structure Output where
  xs : List Rat
  ys : List Rat
  lbx : Rat
  ubx : Rat

/-- structural validator: same length, non-empty, abscissae strictly increasing -/
def checkPL (out : Output) : Bool :=
  out.xs.length == out.ys.length && !out.xs.isEmpty && incB out.xs

/-- first / last breakpoint equal the reported domain ends -/
def checkEnds (out : Output) : Bool :=
  out.xs.head? == some out.lbx && out.xs.getLast? == some out.ubx

/-- value of the piecewise-linear function through `(xs, ys)` at `t` (linear interpolation on the segment
containing `t`; the end segments are extended outside, as the MIP redefinition and Gurobi do) -/
def plEval : List (Rat × Rat) → Rat → Rat
  | [], _ => 0
  | [(_, y)], _ => y
  | (x0, y0) :: (x1, y1) :: rest, t =>
    if t ≤ x1 ∨ rest.isEmpty then y0 + (y1 - y0) * (t - x0) / (x1 - x0)
    else plEval ((x1, y1) :: rest) t

end MpVerif.C13

import MpVerif.C13.Arith
/-!
# C13 — model of the piecewise-linear generator skeleton

Mirrors `BasicPLApproximator<FuncCon>::Run()` of `src/mp/flat/piecewise_linear.cpp` and
`PLPoints::AddPoint` of `include/mp/flat/constr_functional.h`, statement by statement, over an
**abstract function record** `Fn` (the five oracles `eval, inverse, eval_1st, inverse_1st, eval_2nd`
plus domain / accepted range / monotone / periodic / period / default breakpoints) and an abstract
floating-point arithmetic `FOps` (`rnd` = rounding of an exact result to the working format,
`toF` = the `double → float → double` round trip through `std::set<float>`, `sqrt`).

Numbers are exact rationals; every C++ floating operation `a ∘ b` is `rnd (a ∘ b)`.
With `rnd = id` the model is the generator over exact arithmetic; with `rnd = rndD`
(round-to-nearest-even binary64, defined below) it reproduces the compiled code bit for bit
(checked on every run by the correspondence).  Core Lean only.
-/
namespace MpVerif.C13

/-! ## data -/

/-- value returned by a function oracle: a finite number, an infinity, NaN, or "not in the table" -/
inductive OV where
  | fin (q : Rat)
  | pinf
  | ninf
  | nan
  | miss
deriving Repr, BEq, DecidableEq

/-- IEEE `<` on oracle values (false when a NaN is involved) -/
def OV.lt : OV → OV → Bool
  | .fin a, .fin b => a < b
  | .fin _, .pinf => true
  | .ninf, .fin _ => true
  | .ninf, .pinf => true
  | _, _ => false

/-- IEEE `<=` -/
def OV.le : OV → OV → Bool
  | .fin a, .fin b => a ≤ b
  | .fin _, .pinf => true
  | .ninf, .fin _ => true
  | .ninf, .pinf => true
  | .pinf, .pinf => true
  | .ninf, .ninf => true
  | _, _ => false

/-- the abstract function record (what `PLApproximator<Con>` supplies to the skeleton) -/
structure Fn where
  eval : Rat → OV
  inv : Int → Rat → OV       -- may depend on the current subinterval index
  d1 : Rat → OV
  invd1 : Int → Rat → OV
  d2 : Rat → OV
  dom : Dom                   -- GetFuncGraphDomain
  accLb : Rat                 -- GetLargestAcceptedArgumentRange
  accUb : Rat
  monotone : Bool
  periodic : Bool
  perLb : Rat                 -- GetDefaultPeriod
  perUb : Rat
  bps : List Rat              -- GetDefaultBreakpoints

/-- input part of `PLApproxParams` -/
structure Params where
  dom : Dom
  isInt : Bool
  ubErr : Rat

inductive Status where
  | ok | accrange | infeas | degenerate | preim | uberr | oor | fuel | miss | nonfinite | ubcast
deriving Repr, BEq, DecidableEq

def Status.toStr : Status → String
  | .ok => "ok" | .accrange => "accrange" | .infeas => "infeas" | .degenerate => "degenerate"
  | .preim => "preim" | .uberr => "uberr" | .oor => "oor" | .fuel => "hang" | .miss => "oracle-miss"
  | .nonfinite => "nonfinite" | .ubcast => "ub-int-cast"

/-- `PLPoints`, stored back to front: the head is `x_.back(), y_.back()` -/
abbrev PL := List (Rat × Rat)

/-- output part of `PLApproxParams` -/
structure Res where
  domOut : Dom
  usePeriod : Bool
  periodLength : Rat
  facLb : Rat
  facUb : Rat
  remLb : Rat
  remUb : Rat
  pl : PL

/-! ## `PLPoints::AddPoint` -/

/-- `AddPoint(x, y)`: skip a point not farther than `1e-4` to the right of the last one; if the last two
ordinates both equal `y`, move the last abscissa instead of adding a point -/
def keepCond (o : FOps) (back x : Rat) : Prop := fadd o back eps4 < x
instance (o : FOps) (back x : Rat) : Decidable (keepCond o back x) := by unfold keepCond; infer_instance

def addPoint (o : FOps) (pl : PL) (x y : Rat) : PL :=
  match pl with
  | [] => [(x, y)]
  | (bx, byy) :: rest =>
    if keepCond o bx x then
      match rest with
      | (_, y2) :: _ => if byy = y ∧ y2 = y then (x, byy) :: rest else (x, y) :: pl
      | [] => (x, y) :: pl
    else pl

/-! ## domain clipping -/

def Dom.intersect (a b : Dom) : Dom :=
  { lbx := max a.lbx b.lbx, ubx := min a.ubx b.ubx, lby := max a.lby b.lby, uby := min a.uby b.uby }

def getFin : OV → Except Status Rat
  | .fin q => pure q
  | .miss => throw .miss
  | _ => throw .nonfinite

/-- `std::min` / `std::max` of two oracle values that may be infinite (NaN is not modelled) -/
def ovMin (a b : OV) : Except Status OV :=
  match a, b with
  | .miss, _ | _, .miss => throw .miss
  | .nan, _ | _, .nan => throw .nonfinite
  | a, b => pure (if OV.lt b a then b else a)
def ovMax (a b : OV) : Except Status OV :=
  match a, b with
  | .miss, _ | _, .miss => throw .miss
  | .nan, _ | _, .nan => throw .nonfinite
  | a, b => pure (if OV.lt a b then b else a)

/-- `std::max(x, v)` for a finite `x` and a possibly infinite `v` -/
def maxFin (x : Rat) (v : OV) : Rat :=
  match v with | .fin q => if x < q then q else x | .pinf => x /- unreachable in practice -/ | _ => x
def minFin (x : Rat) (v : OV) : Rat :=
  match v with | .fin q => if q < x then q else x | _ => x

/-- `ClipWithFunctionValues` when both pre-images are finite -/
def clipValsFin (d : Dom) (imlbx imubx prelby preuby : Rat) : Dom :=
  { lbx := max d.lbx (min prelby preuby), ubx := min d.ubx (max prelby preuby),
    lby := max d.lby (min imlbx imubx), uby := min d.uby (max imlbx imubx) }

/-- `ClipWithFunctionValues` (called before the subinterval loop: index `-100`) -/
def clipVals (f : Fn) (d : Dom) : Except Status Dom := do
  let imlbx ← getFin (f.eval d.lbx)
  let imubx ← getFin (f.eval d.ubx)
  let prelby := f.inv (-100) d.lby
  let preuby := f.inv (-100) d.uby
  let lo ← ovMin prelby preuby
  let hi ← ovMax prelby preuby
  -- an infinite pre-image on the wrong side would make the bound infinite: not modelled
  if lo == .pinf || hi == .ninf then throw .nonfinite
  pure { lbx := maxFin d.lbx lo, ubx := minFin d.ubx hi,
         lby := max d.lby (min imlbx imubx), uby := min d.uby (max imlbx imubx) }

/-- `ClipFuncGraphDomain` -/
def clipDomain (f : Fn) (p : Params) : Except Status Dom := do
  if !(f.accLb ≤ p.dom.lbx ∧ p.dom.ubx ≤ f.accUb) then throw .accrange
  let d := p.dom.intersect f.dom
  if f.monotone then clipVals f d else pure d

/-! ## breakpoints -/

/-- insertion into a strictly increasing list without duplicates (`std::set::insert`) -/
def insertU (x : Rat) : List Rat → List Rat
  | [] => [x]
  | y :: ys => if x < y then x :: y :: ys else if x = y then y :: ys else y :: insertU x ys

def toSet (l : List Rat) : List Rat := l.foldl (fun s x => insertU x s) []

/-- `InitNonPeriodic`: the default breakpoints go through `std::set<float>`; `lbx`, `ubx` are inserted
(as floats) and everything outside is erased -/
def bpsNonPeriodic (o : FOps) (f : Fn) (lbx ubx : Rat) : List Rat :=
  let s0 := toSet (f.bps.map o.toF)
  let lf := o.toF lbx
  let uf := o.toF ubx
  if uf < lf then [uf]
  else lf :: (s0.filter (fun b => lf < b ∧ b < uf)) ++ (if lf < uf then [uf] else [])

/-! ## error measure and step control -/

/-- one candidate point `(f(x), chord(x))` of `maxErrorRelAbove1`; an `x` that is NaN, or whose function
value is not finite, yields an error NaN which `std::max(errMax, NaN)` ignores -/
def addCand (o : FOps) (f : Fn) (x0 y0 slope : Rat) (pts : List (Rat × Rat)) (xm : OV) :
    Except Status (List (Rat × Rat)) :=
  match xm with
  | .fin x =>
    match f.eval x with
    | .fin fv => pure (pts ++ [(fv, fadd o y0 (fmul o (fsub o x x0) slope))])
    | .miss => throw .miss
    | _ => pure pts
  | .nan => pure pts
  | .miss => throw .miss
  | _ => throw .nonfinite

/-- segment slope -/
def slopeOf (o : FOps) (x0 y0 x1 y1 : Rat) : Rat := fdiv o (fsub o y1 y0) (fsub o x1 x0)
/-- `slope / (1+ubErr)` -/
def tiltAway (o : FOps) (slope ubErr : Rat) : Rat := fdiv o slope (fadd o 1 ubErr)
/-- `slope / (1-ubErr)` -/
def tiltTo (o : FOps) (slope ubErr : Rat) : Rat := fdiv o slope (fsub o 1 ubErr)
/-- error of one candidate point: absolute inside `[-1,1]`, relative outside -/
def pointErr (o : FOps) (f y : Rat) : Rat :=
  if -1 ≤ f ∧ f ≤ 1 then rabs (fsub o f y) else fdiv o (rabs (fsub o f y)) (rabs f)

/-- maximum of the per-point errors (`errMax` loop of `maxErrorRelAbove1`) -/
def errMaxOf (o : FOps) (pts : List (Rat × Rat)) : Rat :=
  pts.foldl (fun errMax (fy : Rat × Rat) =>
    let err := pointErr o fy.1 fy.2
    if errMax < err then err else errMax) 0

/-- candidate at the pre-image of `c = ±1` when the segment crosses it -/
def addPreim (o : FOps) (f : Fn) (i : Int) (x0 y0 x1 slope : Rat) (c : Rat) (cross : Bool)
    (pts : List (Rat × Rat)) : Except Status (List (Rat × Rat)) :=
  if cross then
    match f.inv i c with
    | .fin xp =>
      if !(x0 < xp ∧ xp < x1) then throw .preim
      else pure (pts ++ [(c, fadd o y0 (fmul o (fsub o xp x0) slope))])
    | .miss => throw .miss
    | _ => throw .preim
  else pure pts

/-- candidate where `f' = s` if `s` lies between the end-point derivatives -/
def addTilted (o : FOps) (f : Fn) (i : Int) (x0 y0 slope : Rat) (fp0 fp1 : OV) (s : Rat)
    (pts : List (Rat × Rat)) : Except Status (List (Rat × Rat)) :=
  if OV.le fp0 (.fin s) && OV.le (.fin s) fp1 then addCand o f x0 y0 slope pts (f.invd1 i s) else pure pts

/-- the candidate points after the middle-value point: tilted slopes and pre-images of `±1` -/
def candRest (o : FOps) (f : Fn) (ubErr : Rat) (i : Int) (x0 y0 x1 slope f0 f1 : Rat)
    (pts : List (Rat × Rat)) : Except Status (List (Rat × Rat)) :=
  let a := f.d1 x0
  let b := f.d1 x1
  if a == .miss || b == .miss then throw .miss
  else
    let fp0 := if OV.lt b a then b else a
    let fp1 := if OV.lt b a then a else b
    addTilted o f i x0 y0 slope fp0 fp1 (tiltAway o slope ubErr) pts >>= fun pts =>
    (if ubErr ≠ 1 then
        (if fsub o 1 ubErr = 0 then throw .nonfinite
         else addTilted o f i x0 y0 slope fp0 fp1 (tiltTo o slope ubErr) pts)
      else pure pts) >>= fun pts =>
    addPreim o f i x0 y0 x1 slope 1 (decide (f0 < 1 ∧ 1 < f1)) pts >>= fun pts =>
    addPreim o f i x0 y0 x1 slope (-1) (decide (f0 < -1 ∧ -1 < f1)) pts

/-- the list of candidate points `(f(x), chord(x))` examined by `maxErrorRelAbove1(x0, y0, x1, y1)`: both ends, the
middle-value point `inverse_1st(slope)`, the tilted-slope points, the pre-images of `±1` -/
def candPoints (o : FOps) (f : Fn) (ubErr : Rat) (i : Int) (x0 y0 x1 y1 : Rat) :
    Except Status (List (Rat × Rat)) :=
  if !(x0 < x1) then throw .degenerate
  else if !(0 < ubErr) then throw .uberr
  else
    getFin (f.eval x0) >>= fun f0 =>
    getFin (f.eval x1) >>= fun f1 =>
    if fsub o x1 x0 = 0 then throw .nonfinite
    else
      addCand o f x0 y0 (slopeOf o x0 y0 x1 y1) [(f0, y0), (f1, y1)] (f.invd1 i (slopeOf o x0 y0 x1 y1)) >>= fun pts =>
      candRest o f ubErr i x0 y0 x1 (slopeOf o x0 y0 x1 y1) f0 f1 pts

/-- `maxErrorRelAbove1(x0, y0, x1, y1)` on subinterval `i` -/
def maxErrRel (o : FOps) (f : Fn) (ubErr : Rat) (i : Int) (x0 y0 x1 y1 : Rat) : Except Status Rat :=
  candPoints o f ubErr i x0 y0 x1 y1 >>= fun pts => pure (errMaxOf o pts)

/-- the decision of `CompareError` -/
def cmpCode (err ub : Rat) : Int := if err < ub then -1 else if ub < err then 1 else 0

/-- `CompareError`: `-1, 0, 1` -/
def cmpErr (o : FOps) (f : Fn) (ubErr : Rat) (i : Int) (x0 y0 x1 y1 : Rat) : Except Status Int := do
  let err ← maxErrRel o f ubErr i x0 y0 x1 y1
  pure (cmpCode err ubErr)

/-- `ComputeInitialStepLength` for a finite `f''(x0) = f2` -/
def initStepFin (o : FOps) (f2 ubErr ub x0 : Rat) : Rat :=
  if rabs f2 < eps100 then fdiv o (fsub o ub x0) 100
  else
    let dx := o.sqrt (rabs (fdiv o (fdiv o (fmul o ubErr 8) 3) f2))
    let dx := if ub < fadd o x0 dx then fsub o ub x0 else dx
    if dx < eps10 then fdiv o (fsub o ub x0) 100 else dx

/-- `ComputeInitialStepLength` -/
def initStep (o : FOps) (f : Fn) (ubErr ub x0 : Rat) : Except Status Rat :=
  match f.d2 x0 with
  | .fin f2 => pure (initStepFin o f2 ubErr ub x0)
  | .pinf | .ninf =>
    -- ubErr*8/3/(±inf) = ±0, sqrt(fabs(·)) = 0
    let dx : Rat := 0
    let dx := if ub < fadd o x0 dx then fsub o ub x0 else dx
    pure (if dx < eps10 then fdiv o (fsub o ub x0) 100 else dx)
  | .nan => throw .nonfinite
  | .miss => throw .miss

/-- `IncreaseStepWhileErrorSmallEnough` -/
def incStep (o : FOps) (f : Fn) (ubErr : Rat) (i : Int) (ub x0 f0 : Rat) : Nat → Rat → Except Status Rat
  | 0, _ => throw .fuel
  | fuel + 1, dx => do
    let x1 := fadd o x0 dx
    let f1 ← getFin (f.eval x1)
    let grow ← if f1 = f0 then pure true else do
      let c ← cmpErr o f ubErr i x0 f0 x1 f1
      pure (c < 0)
    if grow then
      let dx' := fmul o dx c1_2
      if ub < fadd o x0 dx' then pure (fsub o ub x0) else incStep o f ubErr i ub x0 f0 fuel dx'
    else pure dx

/-- `DecreaseStepWhileErrorTooBig` -/
def decStep (o : FOps) (f : Fn) (ubErr : Rat) (i : Int) (x0 f0 : Rat) : Nat → Rat → Except Status Rat
  | 0, _ => throw .fuel
  | fuel + 1, dx => do
    let x1 := fadd o x0 dx
    let f1 ← getFin (f.eval x1)
    let shrink ← if f1 = f0 then pure false else do
      let c ← cmpErr o f ubErr i x0 f0 x1 f1
      pure (0 < c)
    if shrink then decStep o f ubErr i x0 f0 fuel (fmul o dx cInv1_1) else pure dx

/-- `ub_sub()-x0 < 1e-6`: snap to the end of the subinterval -/
def snapCond (o : FOps) (ub x : Rat) : Prop := fsub o ub x < eps6
instance (o : FOps) (ub x : Rat) : Decidable (snapCond o ub x) := by unfold snapCond; infer_instance

/-- the body of the `do … while (x0 < ub_sub())` loop of `ApproximateSubinterval` -/
def subLoop (o : FOps) (f : Fn) (ubErr : Rat) (i : Int) (ub : Rat) (stepFuel : Nat) :
    Nat → Rat → Rat → PL → Except Status PL
  | 0, _, _, _ => throw .fuel
  | fuel + 1, x0, f0, pl => do
    let dx ← initStep o f ubErr ub x0
    let dx ← incStep o f ubErr i ub x0 f0 stepFuel dx
    let dx ← decStep o f ubErr i x0 f0 stepFuel dx
    let x1 := fadd o x0 dx
    let x1 := if snapCond o ub x1 then ub else x1
    let f1 ← getFin (f.eval x1)
    let pl' := addPoint o pl x1 f1
    if x1 < ub then subLoop o f ubErr i ub stepFuel fuel x1 f1 pl' else pure pl'

/-- `ApproximateSubinterval` for subinterval `i` of the breakpoint list -/
def approxSub (o : FOps) (f : Fn) (ubErr : Rat) (bps : List Rat) (fuel : Nat) (i : Nat) (pl : PL) :
    Except Status PL :=
  match pl with
  | [] => throw .oor
  | (x0, f0) :: _ =>
    match bps[i + 1]? with
    | none => throw .oor          -- `breakpoints_.at(iSubIntv_+1)` throws `std::out_of_range`
    | some ub => subLoop o f ubErr (i : Int) ub (min fuel 4096) fuel x0 f0 pl

/-- the `do ApproximateSubinterval(); while (NextSubinterval());` loop, `n` = remaining iterations bound -/
def subintervals (o : FOps) (f : Fn) (ubErr : Rat) (bps : List Rat) (fuel : Nat) :
    Nat → Nat → PL → Except Status PL
  | 0, _, pl => pure pl
  | n + 1, i, pl => do
    let pl' ← approxSub o f ubErr bps fuel i pl
    if i + 2 < bps.length then subintervals o f ubErr bps fuel n (i + 1) pl' else pure pl'

/-- the points of the integrality shortcut: `AddPoint(x0+k, eval(x0+k))` for `k = 0 … N-1` -/
def intPoints (o : FOps) (f : Fn) (x0 : Rat) : Nat → Nat → PL → Except Status PL
  | 0, _, pl => pure pl
  | n + 1, k, pl => do
    let x := fadd o x0 (k : Rat)
    let y ← getFin (f.eval x)
    intPoints o f x0 n (k + 1) (addPoint o pl x y)

/-- `xN - x0 + 1` of `ConsiderIntegrality`, before the conversion to `int` -/
def intCount (o : FOps) (lbx ubx : Rat) : Rat :=
  fadd o (fsub o ((ubx.floor : Int) : Rat) ((lbx.ceil : Int) : Rat)) 1

/-- the decisions of `ConsiderIntegrality` on the integer count `n` and the current number of breakpoints:
`0` infeasible (no integer in the domain), `1` one breakpoint per integer, `2` keep the approximation -/
def intDecision (n size : Int) : Int := if n ≤ 0 then 0 else if n ≤ size then 1 else 2

/-- `ConsiderIntegrality` -/
def considerIntegrality (o : FOps) (f : Fn) (isInt usePeriod : Bool) (d : Dom) (pl : PL) : Except Status PL := do
  if isInt && !usePeriod then
    let x0 : Rat := (d.lbx.ceil : Int)
    let nf := intCount o d.lbx d.ubx
    -- `int(xN - x0 + 1)`: conversion of an out-of-range double to int is undefined behaviour
    if nf ≥ 2147483648 ∨ nf ≤ -2147483649 then throw .ubcast
    let n : Int := truncInt nf
    -- (since a382c6e) no integer in the clipped domain: infeasible
    if intDecision n (pl.length : Int) = 0 then throw .infeas
    else if intDecision n (pl.length : Int) = 1 then intPoints o f x0 n.toNat 0 [] else pure pl
  else pure pl

/-- `CheckDomainReturnFalseIfTrivial`: `0` infeasible (throws), `1` trivial (single point), `2` proceed -/
def domainClass (o : FOps) (lbx ubx : Rat) : Int :=
  if fadd o ubx eps6 < lbx then 0 else if fsub o ubx eps6 < lbx then 1 else 2

/-- abscissa of the single point of a trivial domain -/
def trivialMid (o : FOps) (lbx ubx : Rat) : Rat := fdiv o (fadd o lbx ubx) 2

/-- the result record before any point is produced -/
def res0 (d : Dom) : Res :=
  { domOut := d, usePeriod := false, periodLength := 0, facLb := 0, facUb := 0, remLb := 0, remUb := 0, pl := [] }

/-- `CheckDomainReturnFalseIfTrivial`, trivial case: a single point in the middle -/
def trivialRes (o : FOps) (f : Fn) (d : Dom) : Except Status Res := do
  let mid := trivialMid o d.lbx d.ubx
  let v ← getFin (f.eval mid)
  pure { res0 d with pl := [(mid, v)] }

/-- `per.ub - per.lb` -/
def periodLen (o : FOps) (perLb perUb : Rat) : Rat := fsub o perUb perLb
/-- `(x - per.lb) / periodLength` (argument of `floor` / `ceil` for the factor range) -/
def facArg (o : FOps) (x perLb len : Rat) : Rat := fdiv o (fsub o x perLb) len

/-- `InitPeriodic` -/
def initPeriodic (o : FOps) (f : Fn) (d : Dom) : Except Status (Res × List Rat) :=
  let len := periodLen o f.perLb f.perUb
  if len = 0 then throw .nonfinite
  else match f.bps.head?, f.bps.getLast? with
    | some b0, some bl =>
      pure ({ res0 d with usePeriod := true, periodLength := len, remLb := b0, remUb := bl,
                          facLb := ((facArg o d.lbx f.perLb len).floor : Int),
                          facUb := ((facArg o d.ubx f.perLb len).ceil : Int) }, f.bps)
    | _, _ => throw .oor

/-- `InitNonPeriodic` -/
def initNonPeriodic (o : FOps) (f : Fn) (d : Dom) : Except Status (Res × List Rat) :=
  let b := bpsNonPeriodic o f d.lbx d.ubx
  if b.any (fun x => x ≥ fltInf ∨ x ≤ -fltInf) then throw .nonfinite else pure (res0 d, b)

/-- `InitSubintervalLoop`, the subinterval loop, `ConsiderIntegrality` -/
def mainLoop (o : FOps) (f : Fn) (p : Params) (fuel : Nat) (d : Dom) (res1 : Res) (bps : List Rat) :
    Except Status Res :=
  match bps with
  | [] => throw .oor
  | x0 :: _ => do
    let f0 ← getFin (f.eval x0)
    let pl ← subintervals o f p.ubErr bps fuel bps.length 0 (addPoint o [] x0 f0)
    let pl ← considerIntegrality o f p.isInt res1.usePeriod d pl
    pure { res1 with pl := pl }

/-- `BasicPLApproximator::Run()` -/
def run (o : FOps) (f : Fn) (p : Params) (fuel : Nat) : Except Status Res := do
  let d ← clipDomain f p
  if domainClass o d.lbx d.ubx = 0 then throw .infeas
  else if domainClass o d.lbx d.ubx = 1 then trivialRes o f d
  else do
    let rb ← (if f.periodic then initPeriodic o f d else initNonPeriodic o f d)
    mainLoop o f p fuel d rb.1 rb.2

/-! ## validator of an output of the real code (core-only, run by the driver on what `mp::PLApproximate` returned) -/

/-- strictly increasing, as a Boolean -/
def incB : List Rat → Bool
  | [] => true
  | [_] => true
  | a :: b :: t => a < b && incB (b :: t)

/-- what the validator looks at: the abscissae/ordinates in order, the reported domain -/
structure Output where
  xs : List Rat
  ys : List Rat
  lbx : Rat
  ubx : Rat

/-- structural validator: same length, non-empty, abscissae strictly increasing -/
def checkPL (out : Output) : Bool :=
  out.xs.length == out.ys.length && !out.xs.isEmpty && incB out.xs

/-- first / last breakpoint equal the reported domain ends -/
def checkEnds (out : Output) : Bool :=
  out.xs.head? == some out.lbx && out.xs.getLast? == some out.ubx

/-- value of the piecewise-linear function through `(xs, ys)` at `t` (linear interpolation on the segment
containing `t`; the end segments are extended outside, as the MIP redefinition and Gurobi do) -/
def plEval : List (Rat × Rat) → Rat → Rat
  | [], _ => 0
  | [(_, y)], _ => y
  | (x0, y0) :: (x1, y1) :: rest, t =>
    if t ≤ x1 ∨ rest.isEmpty then y0 + (y1 - y0) * (t - x0) / (x1 - x0)
    else plEval ((x1, y1) :: rest) t

end MpVerif.C13

/-!
# C13 — arithmetic layer shared by the hand model (`Model.lean`) and the definitions generated from the C++ source
(`MpVerif/Gen/C13Gen.lean`): rounding functions on rationals, the abstract arithmetic `FOps`, constants, `Dom`.
Core Lean only.
-/
namespace MpVerif.C13

/-! ## binary floating-point rounding on rationals (used by the driver instance) -/

/-- `2^e` for an integer exponent -/
def pow2 (e : Int) : Rat :=
  if e ≥ 0 then ((2 ^ e.toNat : Nat) : Rat) else 1 / ((2 ^ (-e).toNat : Nat) : Rat)

/-- round a non-negative rational to the nearest integer, ties to even -/
def roundHE (q : Rat) : Int :=
  let f := q.floor
  let r := q - (f : Rat)
  if r < 1/2 then f else if 1/2 < r then f + 1 else if f % 2 = 0 then f else f + 1

/-- `⌊log₂ q⌋` for `q > 0` -/
def ilog2 (q : Rat) : Int :=
  let e0 : Int := (Nat.log2 q.num.toNat : Int) - (Nat.log2 q.den : Int)
  if pow2 e0 ≤ q then e0 else e0 - 1

/-- round to nearest (ties to even) with a `p`-bit significand; results are multiples of `2^eminUlp`
(gradual underflow); no overflow handling (callers that need it test the magnitude) -/
def rndP (p : Nat) (eminUlp : Int) (q : Rat) : Rat :=
  if q = 0 then 0 else
  let a := if q < 0 then -q else q
  let e := ilog2 a
  let u := max (e - ((p : Int) - 1)) eminUlp
  let r := (roundHE (a / pow2 u) : Rat) * pow2 u
  if q < 0 then -r else r

/-- binary64 rounding -/
def rndD (q : Rat) : Rat := rndP 53 (-1074) q

/-- the value beyond every finite binary32 number, used as the "float infinity" sentinel -/
def fltInf : Rat := pow2 128

/-- `double → float` conversion (round to nearest even), overflow to the sentinel `±fltInf` -/
def rndS (q : Rat) : Rat :=
  let r := rndP 24 (-149) q
  if r ≥ fltInf then fltInf else if r ≤ -fltInf then -fltInf else r

/-- correctly rounded binary64 square root of a non-negative rational -/
def sqrtD (q : Rat) : Rat :=
  if q ≤ 0 then 0 else
  let e := ilog2 q
  let k : Int := (130 - e) / 2 + 1
  let t := (q * pow2 (2 * k)).floor.toNat
  let s := Nat.sqrt t
  let exact : Bool := ((s * s : Nat) : Rat) = q * pow2 (2 * k)
  let v : Rat := if exact then (s : Rat) else (s : Rat) + 1/2
  rndD (v / pow2 k)

/-! ## arithmetic parameters and constants -/

structure FOps where
  rnd : Rat → Rat
  toF : Rat → Rat
  sqrt : Rat → Rat

/-- the instance that mirrors IEEE binary64 / binary32 -/
def ieee : FOps := { rnd := rndD, toF := rndS, sqrt := sqrtD }

/-- exact arithmetic (no rounding); `sqrt` is still an oracle -/
def exactOps (sq : Rat → Rat) : FOps := { rnd := id, toF := id, sqrt := sq }

def fadd (o : FOps) (a b : Rat) : Rat := o.rnd (a + b)
def fsub (o : FOps) (a b : Rat) : Rat := o.rnd (a - b)
def fmul (o : FOps) (a b : Rat) : Rat := o.rnd (a * b)
def fdiv (o : FOps) (a b : Rat) : Rat := o.rnd (a / b)
def rabs (a : Rat) : Rat := if a < 0 then -a else a

/-- the double nearest to `1e-4` (AddPoint's merge threshold), exactly -/
def eps4 : Rat := 7378697629483821 / 73786976294838206464
/-- the double nearest to `1e-6` -/
def eps6 : Rat := 4722366482869645 / 4722366482869645213696
/-- the double nearest to `1e-10` -/
def eps10 : Rat := 7737125245533627 / 77371252455336267181195264
/-- the double nearest to `1.2` -/
def c1_2 : Rat := 5404319552844595 / 4503599627370496
/-- the double `1.0/1.1` (constant-folded by the compiler: correctly rounded quotient of doubles) -/
def cInv1_1 : Rat := 8188362958855447 / 9007199254740992
/-- the double nearest to `1e-100`, exactly -/
def eps100 : Rat := (492525077454931 : Rat) / ((2 ^ 381 : Nat) : Rat)

structure Dom where
  lbx : Rat
  ubx : Rat
  lby : Rat
  uby : Rat
deriving Repr, BEq, DecidableEq

/-- conversion `int(q)` of an in-range double: truncation towards zero -/
def truncInt (q : Rat) : Int := if q < 0 then -((-q).floor) else q.floor


end MpVerif.C13

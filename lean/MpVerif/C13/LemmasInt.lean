import MpVerif.C13.LemmasMore
/-! # C13 — exactness at the integers of the integrality shortcut (core Lean only) -/
namespace MpVerif.C13

/-- value at `t` of the piecewise-linear function through the points of a `PL` (stored back to front):
linear interpolation on the last segment whose left end is `≤ t`; the first segment is extended to the left,
the last to the right -/
def plEvalR : PL → Rat → Rat
  | [], _ => 0
  | [(_, y)], _ => y
  | (x1, y1) :: (x0, y0) :: rest, t =>
    if x0 ≤ t ∨ rest.isEmpty then y0 + (y1 - y0) * (t - x0) / (x1 - x0)
    else plEvalR ((x0, y0) :: rest) t

theorem flat_seg (y t a b : Rat) : y + (y - y) * (t - a) / (b - a) = y := by
  have : y - y = 0 := by grind
  rw [this, Rat.zero_mul, Rat.div_def, Rat.zero_mul]; grind

theorem div_one' (x : Rat) : x / 1 = x := by grind

theorem unit_seg_right (a b ya yb : Rat) (h : b - a = 1) : ya + (yb - ya) * (b - a) / (b - a) = yb := by
  rw [h, Rat.mul_one, div_one']; grind

theorem seg_left (a b ya yb : Rat) : ya + (yb - ya) * (a - a) / (b - a) = ya := by
  have : a - a = 0 := by grind
  rw [this, Rat.mul_zero, Rat.div_def, Rat.zero_mul]; grind

theorem cast_succ (m : Nat) : ((m + 1 : Nat) : Rat) = (m : Rat) + 1 := by
  rw [Rat.natCast_add]; rfl

/-- invariant of the integrality shortcut after the points `x0, x0+1, …, x0+m` have been offered -/
def InvI (f : Fn) (x0 : Rat) (m : Nat) (pl : PL) : Prop :=
  ∃ y rest, pl = (x0 + (m : Rat), y) :: rest ∧ f.eval (x0 + (m : Rat)) = .fin y ∧
    (∀ b ∈ rest, b.1 < x0 + (m : Rat)) ∧ (rest = [] → m = 0) ∧
    ∀ j : Nat, j ≤ m → ∃ v, f.eval (x0 + (j : Rat)) = .fin v ∧ plEvalR pl (x0 + (j : Rat)) = v

theorem invI_base (o : FOps) (f : Fn) (x0 y : Rat) (h : f.eval (x0 + ((0 : Nat) : Rat)) = .fin y) :
    InvI f x0 0 (addPoint o [] (x0 + ((0 : Nat) : Rat)) y) := by
  refine ⟨y, [], rfl, h, ?_, fun _ => rfl, ?_⟩
  · intro b hb; cases hb
  · intro j hj
    have : j = 0 := by omega
    subst this
    exact ⟨y, h, rfl⟩

theorem invI_step (o : FOps) (f : Fn) (x0 : Rat) (m : Nat) (pl : PL) (y' : Rat)
    (hcond : keepCond o (x0 + (m : Rat)) (x0 + ((m + 1 : Nat) : Rat)))
    (hi : InvI f x0 m pl) (he : f.eval (x0 + ((m + 1 : Nat) : Rat)) = .fin y') :
    InvI f x0 (m + 1) (addPoint o pl (x0 + ((m + 1 : Nat) : Rat)) y') := by
  obtain ⟨y, rest, hpl, hy, hord, hsing, hall⟩ := hi
  subst hpl
  have hc := cast_succ m
  have hlt : x0 + (m : Rat) < x0 + ((m + 1 : Nat) : Rat) := by rw [hc]; grind
  unfold addPoint
  simp only [if_pos hcond]
  match rest, hord, hsing, hall with
  | [], hord, hsing, hall =>
    -- push onto a singleton
    simp only
    have hm : m = 0 := hsing rfl
    refine ⟨y', [(x0 + (m : Rat), y)], rfl, he, ?_, ?_, ?_⟩
    · intro b hb; simp at hb; subst hb; exact hlt
    · intro h; cases h
    · intro j hj
      by_cases hjm : j = m + 1
      · subst hjm
        refine ⟨y', he, ?_⟩
        simp only [plEvalR, List.isEmpty_nil, or_true, if_true]
        exact unit_seg_right _ _ _ _ (by rw [hc]; grind)
      · have : j = m := by omega
        subst this
        refine ⟨y, hy, ?_⟩
        simp only [plEvalR, List.isEmpty_nil, or_true, if_true]
        exact seg_left _ _ _ _
  | (x2, y2) :: rest2, hord, hsing, hall =>
    simp only
    have hx2 : x2 < x0 + (m : Rat) := hord (x2, y2) (by simp)
    split
    · -- merge: the last two ordinates equal the new one
      rename_i hmerge
      obtain ⟨hy1, hy2⟩ := hmerge
      subst hy1; subst hy2
      refine ⟨y2, (x2, y2) :: rest2, rfl, he, ?_, ?_, ?_⟩
      · intro b hb; have := hord b hb; grind
      · intro h; cases h
      · intro j hj
        by_cases hjm : j = m + 1
        · subst hjm
          refine ⟨y2, he, ?_⟩
          have hc2 : x2 ≤ x0 + ((m + 1 : Nat) : Rat) := by grind
          simp only [plEvalR, hc2, true_or, if_true]
          exact flat_seg _ _ _ _
        · obtain ⟨v, hv1, hv2⟩ := hall j (by omega)
          refine ⟨v, hv1, ?_⟩
          simp only [plEvalR] at hv2 ⊢
          by_cases hcnd : x2 ≤ x0 + (j : Rat) ∨ rest2.isEmpty = true
          · simp only [hcnd, if_true] at hv2 ⊢
            rw [flat_seg] at hv2 ⊢
            exact hv2
          · simp only [hcnd, if_false] at hv2 ⊢
            exact hv2
    · -- push
      refine ⟨y', (x0 + (m : Rat), y) :: (x2, y2) :: rest2, rfl, he, ?_, ?_, ?_⟩
      · intro b hb
        simp only [List.mem_cons] at hb
        rcases hb with hb | hb
        · subst hb; exact hlt
        · have := hord b (by simpa using hb); grind
      · intro h; cases h
      · intro j hj
        by_cases hjm : j = m + 1
        · subst hjm
          refine ⟨y', he, ?_⟩
          have hc2 : x0 + (m : Rat) ≤ x0 + ((m + 1 : Nat) : Rat) := by grind
          simp only [plEvalR, hc2, true_or, if_true]
          exact unit_seg_right _ _ _ _ (by rw [hc]; grind)
        · by_cases hjm2 : j = m
          · subst hjm2
            refine ⟨y, hy, ?_⟩
            have hc2 : x0 + (j : Rat) ≤ x0 + (j : Rat) := Rat.le_refl
            simp only [plEvalR, hc2, true_or, if_true]
            exact seg_left _ _ _ _
          · obtain ⟨v, hv1, hv2⟩ := hall j (by omega)
            refine ⟨v, hv1, ?_⟩
            have hjlt : (j : Rat) < (m : Rat) := Rat.natCast_lt_natCast.mpr (by omega)
            have hnc : ¬ (x0 + (m : Rat) ≤ x0 + (j : Rat) ∨ ((x2, y2) :: rest2).isEmpty = true) := by
              simp only [List.isEmpty_cons, Bool.false_eq_true, or_false]
              grind
            rw [plEvalR]
            simp only [hnc, if_false]
            exact hv2

/-- exactness of the integer arithmetic and of the keep test on the points `x0, …, x0+B` -/
structure IntOK (o : FOps) (x0 : Rat) (B : Nat) : Prop where
  add : ∀ j : Nat, j ≤ B → fadd o x0 (j : Rat) = x0 + (j : Rat)
  keep : ∀ j : Nat, j + 1 ≤ B → keepCond o (x0 + (j : Rat)) (x0 + ((j + 1 : Nat) : Rat))

theorem intOK_exact (sq : Rat → Rat) (x0 : Rat) (B : Nat) : IntOK (exactOps sq) x0 B := by
  constructor
  · intro j _; rfl
  · intro j _
    unfold keepCond
    simp only [fadd, exactOps, id]
    rw [cast_succ]; have := eps4_lt_one; grind

theorem intPoints_invI (o : FOps) (f : Fn) (x0 : Rat) (B : Nat) (hok : IntOK o x0 B) :
    ∀ (n m : Nat) (pl r : PL), m + n ≤ B → InvI f x0 m pl →
    intPoints o f x0 n (m + 1) pl = .ok r → InvI f x0 (m + n) r := by
  intro n
  induction n with
  | zero => intro m pl r _ hi h; simp [intPoints] at h; have := pure_ok h; subst this; simpa using hi
  | succ n ih =>
    intro m pl r hB hi h
    unfold intPoints at h
    obtain ⟨y, hy, h⟩ := bind_ok h
    have hx : fadd o x0 ((m + 1 : Nat) : Rat) = x0 + ((m + 1 : Nat) : Rat) := hok.add (m + 1) (by omega)
    rw [hx] at h hy
    have hev : f.eval (x0 + ((m + 1 : Nat) : Rat)) = .fin y := by
      unfold getFin at hy
      split at hy
      · have := pure_ok hy; subst this; assumption
      · exact (throw_ne_ok hy).elim
      · exact (throw_ne_ok hy).elim
    have := ih (m + 1) _ r (by omega) (invI_step o f x0 m pl y (hok.keep m (by omega)) hi hev) h
    have e : m + 1 + n = m + (n + 1) := by omega
    rw [e] at this
    exact this

end MpVerif.C13

import Mathlib.Analysis.Calculus.Deriv.MeanValue
import Mathlib.Analysis.Calculus.LocalExtr.Basic
import Mathlib.Analysis.Calculus.Deriv.Inv
/-!
# C13 — the chord-error lemma over ℝ (proof-only file; Mathlib; not imported by the driver)

`maxErrorAbs` / `maxErrorRelAbove1` of `src/mp/flat/piecewise_linear.cpp` estimate the deviation between a
function and a candidate linear segment by looking at the end points and at the "middle-value point"
`xMid = inverse_1st(slope)`, the point where `f'` equals the chord slope, *assuming `f'` is monotone on the
subinterval*.  This file proves what that assumption buys over the reals:

* `C13_chord_error_max` / `C13_chord_error_max_anti`: if `f'` is strictly monotone on `[a,b]`, the maximum of
  `|f − chord|` over `[a,b]` is attained at exactly one point, the unique point where `f' = slope`;
* `C13_chord_bound`: hence checking the **absolute** error at that single point bounds it on the whole segment;
* `C13_rel_error_stationary` / `C13_rel_error_tilted_slope`: for the **relative** error `(f − chord)/f` an
  interior extremum with value `δ` sits where `f' = slope/(1−δ)`.  The code evaluates the relative error at the
  two points where `f' = slope/(1±ubErr)`, i.e. where an extremum of value *exactly* `∓ubErr` would sit.  That is
  a necessary condition for a borderline extremum, not a bound: an extremum with another value lies at a point
  the code does not look at.  The relative test is therefore a heuristic (and is treated as such by the check:
  the tolerance clause is explored numerically, not claimed).
-/
namespace MpVerif.C13.Chord
open Set

/-- the chord through `(a, f a)` and `(b, f b)` -/
noncomputable def chord (f : ℝ → ℝ) (a b x : ℝ) : ℝ := f a + (f b - f a) / (b - a) * (x - a)

theorem chord_left (f : ℝ → ℝ) (a b : ℝ) : chord f a b a = f a := by simp [chord]

theorem chord_right (f : ℝ → ℝ) {a b : ℝ} (hab : a < b) : chord f a b b = f b := by
  have : b - a ≠ 0 := by linarith
  simp only [chord]; field_simp; ring

theorem hasDerivAt_chord (f : ℝ → ℝ) (a b x : ℝ) : HasDerivAt (chord f a b) ((f b - f a) / (b - a)) x := by
  have h := ((hasDerivAt_id x).sub_const a).const_mul ((f b - f a) / (b - a))
  have h2 : HasDerivAt (fun x => f a + (f b - f a) / (b - a) * (x - a)) ((f b - f a) / (b - a) * 1) x :=
    h.const_add (f a)
  rw [mul_one] at h2
  exact h2

/-- **Chord-error lemma** (strictly increasing derivative): there is exactly one point `c ∈ (a,b)` with
`f' c = slope`; `f` lies below its chord; `|f − chord|` is maximal at `c` and nowhere else. -/
theorem C13_chord_error_max {f f' : ℝ → ℝ} {a b : ℝ} (hab : a < b)
    (hf : ∀ x ∈ Icc a b, HasDerivAt f (f' x) x) (hmono : StrictMonoOn f' (Icc a b)) :
    ∃ c ∈ Ioo a b, f' c = (f b - f a) / (b - a) ∧
      (∀ x ∈ Icc a b, f' x = (f b - f a) / (b - a) → x = c) ∧
      (∀ x ∈ Icc a b, f x ≤ chord f a b x) ∧
      (∀ x ∈ Icc a b, |f x - chord f a b x| ≤ |f c - chord f a b c|) ∧
      (∀ x ∈ Icc a b, |f x - chord f a b x| = |f c - chord f a b c| → x = c) := by
  set s := (f b - f a) / (b - a) with hs
  have hfc : ContinuousOn f (Icc a b) := fun x hx => (hf x hx).continuousAt.continuousWithinAt
  obtain ⟨c, hc, hfc'⟩ := exists_hasDerivAt_eq_slope f f' hab hfc (fun x hx => hf x (Ioo_subset_Icc_self hx))
  have hcI : c ∈ Icc a b := Ioo_subset_Icc_self hc
  let g : ℝ → ℝ := fun x => f x - chord f a b x
  have hg : ∀ x ∈ Icc a b, HasDerivAt g (f' x - s) x := fun x hx => (hf x hx).sub (hasDerivAt_chord f a b x)
  have hga : g a = 0 := by simp [g, chord_left]
  have hgb : g b = 0 := by simp [g, chord_right f hab]
  have hgc : ContinuousOn g (Icc a b) := fun x hx => (hg x hx).continuousAt.continuousWithinAt
  -- g strictly decreasing on [a,c]
  have hanti : StrictAntiOn g (Icc a c) := by
    apply strictAntiOn_of_deriv_neg (convex_Icc a c) (hgc.mono (Icc_subset_Icc le_rfl hc.2.le))
    intro x hx
    rw [interior_Icc] at hx
    have hxI : x ∈ Icc a b := ⟨hx.1.le, (hx.2.trans hc.2).le⟩
    rw [(hg x hxI).deriv]
    have := hmono hxI hcI hx.2
    rw [hfc'] at this; linarith
  have hmonoG : StrictMonoOn g (Icc c b) := by
    apply strictMonoOn_of_deriv_pos (convex_Icc c b) (hgc.mono (Icc_subset_Icc hc.1.le le_rfl))
    intro x hx
    rw [interior_Icc] at hx
    have hxI : x ∈ Icc a b := ⟨(hc.1.trans hx.1).le, hx.2.le⟩
    rw [(hg x hxI).deriv]
    have := hmono hcI hxI hx.1
    rw [hfc'] at this; linarith
  -- consequences
  have hle0 : ∀ x ∈ Icc a b, g x ≤ 0 := by
    intro x hx
    rcases le_total x c with h | h
    · have := hanti.antitoneOn (⟨le_rfl, hc.1.le⟩ : a ∈ Icc a c) (⟨hx.1, h⟩ : x ∈ Icc a c) hx.1
      linarith
    · have := hmonoG.monotoneOn (⟨h, hx.2⟩ : x ∈ Icc c b) (⟨hc.2.le, le_rfl⟩ : b ∈ Icc c b) hx.2
      linarith
  have hgeC : ∀ x ∈ Icc a b, g c ≤ g x ∧ (g x = g c → x = c) := by
    intro x hx
    rcases lt_trichotomy x c with h | h | h
    · have := hanti (⟨hx.1, h.le⟩ : x ∈ Icc a c) (⟨hc.1.le, le_rfl⟩ : c ∈ Icc a c) h
      exact ⟨this.le, fun e => absurd e (ne_of_gt this)⟩
    · subst h; exact ⟨le_rfl, fun _ => rfl⟩
    · have := hmonoG (⟨le_rfl, hc.2.le⟩ : c ∈ Icc c b) (⟨h.le, hx.2⟩ : x ∈ Icc c b) h
      exact ⟨this.le, fun e => absurd e (ne_of_gt this)⟩
  refine ⟨c, hc, hfc', ?_, ?_, ?_, ?_⟩
  · intro x hx hxs
    exact hmono.injOn hx hcI (by rw [hxs, hfc'])
  · intro x hx; have := hle0 x hx; simp only [g] at this; linarith
  · intro x hx
    have h1 := hle0 x hx; have h2 := hle0 c hcI; have h3 := (hgeC x hx).1
    show |g x| ≤ |g c|
    rw [abs_of_nonpos h1, abs_of_nonpos h2]; linarith
  · intro x hx he
    have h1 := hle0 x hx; have h2 := hle0 c hcI
    change |g x| = |g c| at he
    rw [abs_of_nonpos h1, abs_of_nonpos h2] at he
    exact (hgeC x hx).2 (by linarith)

theorem chord_neg (f : ℝ → ℝ) (a b x : ℝ) : chord (fun t => -f t) a b x = -chord f a b x := by
  simp only [chord]; ring

/-- **Chord-error lemma**, strictly decreasing derivative (concave case). -/
theorem C13_chord_error_max_anti {f f' : ℝ → ℝ} {a b : ℝ} (hab : a < b)
    (hf : ∀ x ∈ Icc a b, HasDerivAt f (f' x) x) (hanti : StrictAntiOn f' (Icc a b)) :
    ∃ c ∈ Ioo a b, f' c = (f b - f a) / (b - a) ∧
      (∀ x ∈ Icc a b, f' x = (f b - f a) / (b - a) → x = c) ∧
      (∀ x ∈ Icc a b, chord f a b x ≤ f x) ∧
      (∀ x ∈ Icc a b, |f x - chord f a b x| ≤ |f c - chord f a b c|) ∧
      (∀ x ∈ Icc a b, |f x - chord f a b x| = |f c - chord f a b c| → x = c) := by
  have hmono : StrictMonoOn (fun x => -f' x) (Icc a b) := fun x hx y hy h => neg_lt_neg (hanti hx hy h)
  obtain ⟨c, hc, h1, h2, h3, h4, h5⟩ :=
    C13_chord_error_max (f := fun t => -f t) (f' := fun x => -f' x) hab (fun x hx => (hf x hx).neg) hmono
  have hslope : (-f b - -f a) / (b - a) = -((f b - f a) / (b - a)) := by ring
  have habs : ∀ x, |(-f x) - chord (fun t => -f t) a b x| = |f x - chord f a b x| := by
    intro x; rw [chord_neg, ← abs_neg]; congr 1; ring
  refine ⟨c, hc, ?_, ?_, ?_, ?_, ?_⟩
  · have := h1; simp only [hslope] at this; linarith
  · intro x hx hxs; exact h2 x hx (by simp only [hslope]; linarith)
  · intro x hx; have := h3 x hx; rw [chord_neg] at this; linarith
  · intro x hx; have := h4 x hx; rwa [habs, habs] at this
  · intro x hx he; exact h5 x hx (by rwa [habs, habs])

/-- **What the algorithm uses** (absolute error): with a strictly monotone derivative (either direction), if
the deviation at *a* point `xm` of the segment where `f' xm = slope` is at most `ε`, it is at most `ε` on the
whole segment. -/
theorem C13_chord_bound {f f' : ℝ → ℝ} {a b : ℝ} (hab : a < b)
    (hf : ∀ x ∈ Icc a b, HasDerivAt f (f' x) x)
    (hmono : StrictMonoOn f' (Icc a b) ∨ StrictAntiOn f' (Icc a b))
    {xm ε : ℝ} (hxm : xm ∈ Icc a b) (hslope : f' xm = (f b - f a) / (b - a))
    (herr : |f xm - chord f a b xm| ≤ ε) :
    ∀ x ∈ Icc a b, |f x - chord f a b x| ≤ ε := by
  intro x hx
  rcases hmono with h | h
  · obtain ⟨c, _, _, huniq, _, hmax, _⟩ := C13_chord_error_max hab hf h
    have : xm = c := huniq xm hxm hslope
    subst this; exact (hmax x hx).trans herr
  · obtain ⟨c, _, _, huniq, _, hmax, _⟩ := C13_chord_error_max_anti hab hf h
    have : xm = c := huniq xm hxm hslope
    subst this; exact (hmax x hx).trans herr

/-- **Relative error, necessary condition**: at an interior local extremum `x` of the relative deviation
`(f − chord)/f` (where `f x ≠ 0`), `f' x · chord x = slope · f x`. -/
theorem C13_rel_error_stationary {f : ℝ → ℝ} {f'x a b x : ℝ}
    (hf : HasDerivAt f f'x x) (hfx : f x ≠ 0)
    (hext : IsLocalExtr (fun t => (f t - chord f a b t) / f t) x) :
    f'x * chord f a b x = (f b - f a) / (b - a) * f x := by
  have hd := ((hf.sub (hasDerivAt_chord f a b x)).div hf hfx)
  have h0 := hext.hasDerivAt_eq_zero hd
  have hne : f x ^ 2 ≠ 0 := pow_ne_zero 2 hfx
  rw [div_eq_zero_iff] at h0
  rcases h0 with h0 | h0
  · simp only [Pi.sub_apply] at h0
    nlinarith [h0]
  · exact absurd h0 hne

/-- … equivalently: an extremum of the relative deviation with value `δ ≠ 1` sits where `f' = slope/(1−δ)`.
The code's candidates `f' = slope/(1 ± ubErr)` are the positions of extrema of value exactly `∓ubErr` only. -/
theorem C13_rel_error_tilted_slope {f : ℝ → ℝ} {f'x a b x δ : ℝ}
    (hf : HasDerivAt f f'x x) (hfx : f x ≠ 0)
    (hext : IsLocalExtr (fun t => (f t - chord f a b t) / f t) x)
    (hδ : (f x - chord f a b x) / f x = δ) (hδ1 : δ ≠ 1) :
    f'x = (f b - f a) / (b - a) / (1 - δ) := by
  have h := C13_rel_error_stationary hf hfx hext
  have hch : chord f a b x = f x * (1 - δ) := by
    rw [← hδ]; field_simp; ring
  rw [hch] at h
  have h1 : (1 - δ) ≠ 0 := sub_ne_zero.mpr (Ne.symm hδ1)
  rw [eq_div_iff h1]
  have : f'x * (1 - δ) * f x = (f b - f a) / (b - a) * f x := by linarith
  exact mul_right_cancel₀ hfx this

end MpVerif.C13.Chord

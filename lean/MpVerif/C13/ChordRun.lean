import MpVerif.C13.LemmasStep
import MpVerif.C13.Chord
import Mathlib.Data.Real.Basic
import Mathlib.Tactic.Push
import Mathlib.Tactic.Positivity
import Mathlib.Tactic.NormNum
/-!
# C13 — the chord lemma connected to the model's step control (proof-only; Mathlib)

`LemmasStep.lean` (core) proves, for every arithmetic: the step returned by `decStep`
(`DecreaseStepWhileErrorTooBig`) either saw no change of the function value, or the candidate list of its last
error test has `errMaxOf ≤ ubErr`, and that value dominates the error measure at both ends and at the middle-value
point `inverse_1st(slope)`.

This file states what that buys for the TRUE error, over exact arithmetic, when the oracles are those of a real
function `F` with strictly monotone derivative on the accepted segment (the assumption written in the C++ comment
"Assuming f' is monotone on the subinterval"):

* `C13_mid_test_bound`: if the error measure at the point `xm` with `F' xm = slope` is `≤ tol`, then on the whole segment
  `|F − chord| ≤ tol · max 1 |F xm|`;
* `C13_mid_test_tolerance`: if moreover `|F xm| ≤ 1` (the extremum is measured absolutely), the property's own error
  measure (absolute where `|F| ≤ 1`, relative elsewhere) is `≤ tol` at EVERY point of the segment;
* `C13_accepted_step_error_bound_exact`: the segment `[x0, x0+r]` accepted by the model's `decStep` satisfies that
  bound for `tol = ubErr`.

What this does **not** give (and the real code violates, see the known findings): the stored PL segment is the accepted
one only if `AddPoint` stores its end point — the 1e-4 merge rule drops points, so a stored segment can span several
accepted steps (`C13_endpoints_counterexample_skip`); the end point may be snapped to `ub_sub()` (within 1e-6) after
the test; a step with unchanged function value is accepted without any test; for `|F xm| > 1` only the weaker bound
`tol·|F xm|` follows for points of smaller magnitude — there the C++ relies on the tilted-slope candidates, which are a
heuristic (`C13_rel_error_tilted_slope`); and all of it is over exact arithmetic with exact oracles, not libm.
-/
namespace MpVerif.C13.Chord
open Set MpVerif.C13

/-- the property's error measure over the reals: absolute where `|f| ≤ 1`, relative elsewhere -/
noncomputable def errMeasure (f y : ℝ) : ℝ := if |f| ≤ 1 then |f - y| else |f - y| / |f|

/-- **Middle-value test ⇒ bound on the whole segment.** -/
theorem C13_mid_test_bound {F F' : ℝ → ℝ} {a b : ℝ} (hab : a < b)
    (hF : ∀ x ∈ Icc a b, HasDerivAt F (F' x) x)
    (hmono : StrictMonoOn F' (Icc a b) ∨ StrictAntiOn F' (Icc a b))
    {xm tol : ℝ} (hxm : xm ∈ Icc a b) (hslope : F' xm = (F b - F a) / (b - a)) (htol : 0 ≤ tol)
    (htest : errMeasure (F xm) (chord F a b xm) ≤ tol) :
    ∀ x ∈ Icc a b, |F x - chord F a b x| ≤ tol * max 1 |F xm| := by
  apply C13_chord_bound hab hF hmono hxm hslope
  unfold errMeasure at htest
  split at htest
  · rename_i h1
    calc |F xm - chord F a b xm| ≤ tol := htest
      _ = tol * 1 := (mul_one _).symm
      _ ≤ tol * max 1 |F xm| := mul_le_mul_of_nonneg_left (le_max_left _ _) htol
  · rename_i h1
    have hpos : 0 < |F xm| := by linarith [not_le.mp h1]
    have := (div_le_iff₀ hpos).mp htest
    calc |F xm - chord F a b xm| ≤ tol * |F xm| := this
      _ ≤ tol * max 1 |F xm| := mul_le_mul_of_nonneg_left (le_max_right _ _) htol

/-- **… and when the extremum is measured absolutely, the tolerance clause holds at every point of the segment.** -/
theorem C13_mid_test_tolerance {F F' : ℝ → ℝ} {a b : ℝ} (hab : a < b)
    (hF : ∀ x ∈ Icc a b, HasDerivAt F (F' x) x)
    (hmono : StrictMonoOn F' (Icc a b) ∨ StrictAntiOn F' (Icc a b))
    {xm tol : ℝ} (hxm : xm ∈ Icc a b) (hslope : F' xm = (F b - F a) / (b - a)) (htol : 0 ≤ tol)
    (hsmall : |F xm| ≤ 1) (htest : errMeasure (F xm) (chord F a b xm) ≤ tol) :
    ∀ x ∈ Icc a b, errMeasure (F x) (chord F a b x) ≤ tol := by
  intro x hx
  have hb := C13_mid_test_bound hab hF hmono hxm hslope htol htest x hx
  rw [max_eq_left hsmall, mul_one] at hb
  unfold errMeasure
  split
  · exact hb
  · rename_i h1
    have h1' : 1 < |F x| := not_le.mp h1
    have hpos : 0 < |F x| := by linarith
    rw [div_le_iff₀ hpos]
    calc |F x - chord F a b x| ≤ tol := hb
      _ = tol * 1 := (mul_one _).symm
      _ ≤ tol * |F x| := mul_le_mul_of_nonneg_left h1'.le htol

theorem rabs_cast (q : ℚ) : ((rabs q : ℚ) : ℝ) = |(q : ℝ)| := by
  unfold rabs
  split
  · rename_i h
    have : (q : ℝ) < 0 := by exact_mod_cast h
    rw [abs_of_neg this]; push_cast; rfl
  · rename_i h
    have : (0 : ℝ) ≤ (q : ℝ) := by exact_mod_cast (not_lt.mp h)
    rw [abs_of_nonneg this]

/-- the model's per-point error measure over exact arithmetic is the real one -/
theorem pointErr_cast (sq : ℚ → ℚ) (fv y : ℚ) :
    ((pointErr (exactOps sq) fv y : ℚ) : ℝ) = errMeasure (fv : ℝ) (y : ℝ) := by
  unfold pointErr errMeasure
  simp only [fsub, fdiv, exactOps, id]
  by_cases h : -1 ≤ fv ∧ fv ≤ 1
  · have h' : |(fv : ℝ)| ≤ 1 := by
      rw [abs_le]; exact ⟨by exact_mod_cast h.1, by exact_mod_cast h.2⟩
    rw [if_pos h, if_pos h', rabs_cast]; push_cast; rfl
  · have h' : ¬ |(fv : ℝ)| ≤ 1 := by
      intro hh; rw [abs_le] at hh
      exact h ⟨by exact_mod_cast hh.1, by exact_mod_cast hh.2⟩
    rw [if_neg h, if_neg h']
    push_cast
    rw [rabs_cast, rabs_cast]; push_cast; rfl

/-- **Every step accepted by the model's step control passed the middle-value test** (`decStep`, exact arithmetic,
`eval` the values of a real function `F`, function value changed): the segment is non-degenerate, the tolerance is
positive, the property's error measure at `xm = inverse_1st(slope)` is `≤ ubErr`, and `F' xm` is the chord slope. -/
theorem C13_accepted_step_mid_test_exact (sq : ℚ → ℚ) (f : Fn) (ubErr : ℚ) (i : Int) (x0 y0 dx r : ℚ) (fuel : Nat)
    (hdec : decStep (exactOps sq) f ubErr i x0 y0 fuel dx = .ok r)
    (F F' : ℝ → ℝ)
    (hy0 : F x0 = y0)
    (heval : ∀ q v : ℚ, f.eval q = .fin v → F q = v)
    (f1 : ℚ) (hf1e : f.eval (x0 + r) = .fin f1) (hchanged : f1 ≠ y0)
    (xm fm : ℚ)
    (hxm : f.invd1 i (slopeOf (exactOps sq) x0 y0 (x0 + r) f1) = .fin xm)
    (hfm : f.eval xm = .fin fm)
    (hsl : F' (xm : ℝ) = ((slopeOf (exactOps sq) x0 y0 (x0 + r) f1 : ℚ) : ℝ)) :
    (x0 : ℝ) < ((x0 + r : ℚ) : ℝ) ∧ (0 : ℝ) < (ubErr : ℝ) ∧
    errMeasure (F xm) (chord F (x0 : ℝ) ((x0 + r : ℚ) : ℝ) xm) ≤ (ubErr : ℝ) ∧
    F' xm = (F ((x0 + r : ℚ) : ℝ) - F x0) / (((x0 + r : ℚ) : ℝ) - x0) := by
  obtain ⟨f1', hf1, hor⟩ := decStep_accept f ubErr i x0 y0 fuel dx r hdec
  have hx1 : fadd (exactOps sq) x0 r = x0 + r := rfl
  rw [hx1] at hf1 hor
  rw [hf1e] at hf1; cases hf1
  have hf1 := hf1e
  rcases hor with hflat | ⟨pts, hpts, hle⟩
  · exact absurd hflat hchanged
  · obtain ⟨hlt, hub, f0', f1', he0, he1, _, _, hmid⟩ := candPoints_spec hpts
    rw [hf1] at he1; cases he1
    have hmem := hmid xm fm hxm hfm
    have hpe := (errMaxOf_ge (exactOps sq) pts).2 _ hmem
    have hle' : pointErr (exactOps sq) fm
        (fadd (exactOps sq) y0 (fmul (exactOps sq) (fsub (exactOps sq) xm x0) (slopeOf (exactOps sq) x0 y0 (x0 + r) f1))) ≤ ubErr :=
      Rat.le_trans hpe hle
    have hcast : ((pointErr (exactOps sq) fm
        (fadd (exactOps sq) y0 (fmul (exactOps sq) (fsub (exactOps sq) xm x0) (slopeOf (exactOps sq) x0 y0 (x0 + r) f1))) : ℚ) : ℝ)
          ≤ (ubErr : ℝ) := by exact_mod_cast hle'
    rw [pointErr_cast] at hcast
    have hab : (x0 : ℝ) < ((x0 + r : ℚ) : ℝ) := by exact_mod_cast hlt
    have hFm : F xm = fm := heval xm fm hfm
    have hF1 : F ((x0 + r : ℚ) : ℝ) = f1 := heval _ _ hf1
    have hslope : F' xm = (F ((x0 + r : ℚ) : ℝ) - F x0) / (((x0 + r : ℚ) : ℝ) - x0) := by
      rw [hsl, hF1, hy0]
      simp only [slopeOf, fsub, fdiv, exactOps, id]
      push_cast; rfl
    have hchord : ((fadd (exactOps sq) y0 (fmul (exactOps sq) (fsub (exactOps sq) xm x0)
        (slopeOf (exactOps sq) x0 y0 (x0 + r) f1)) : ℚ) : ℝ) = chord F (x0 : ℝ) ((x0 + r : ℚ) : ℝ) xm := by
      simp only [chord, hF1, hy0, slopeOf, fadd, fmul, fsub, fdiv, exactOps, id]
      push_cast; ring
    rw [hchord, ← hFm] at hcast
    exact ⟨hab, by exact_mod_cast hub, hcast, hslope⟩

/-- **The segment accepted by the model's step control**, `F'` strictly monotone on it and `xm` inside it:
`|F − chord| ≤ ubErr · max 1 |F xm|` at every real point of `[x0, x0 + r]`. -/
theorem C13_accepted_step_error_bound_exact (sq : ℚ → ℚ) (f : Fn) (ubErr : ℚ) (i : Int) (x0 y0 dx r : ℚ) (fuel : Nat)
    (hdec : decStep (exactOps sq) f ubErr i x0 y0 fuel dx = .ok r)
    (F F' : ℝ → ℝ)
    (hy0 : F x0 = y0)
    (heval : ∀ q v : ℚ, f.eval q = .fin v → F q = v)
    (f1 : ℚ) (hf1e : f.eval (x0 + r) = .fin f1) (hchanged : f1 ≠ y0)
    (xm fm : ℚ)
    (hxm : f.invd1 i (slopeOf (exactOps sq) x0 y0 (x0 + r) f1) = .fin xm)
    (hfm : f.eval xm = .fin fm)
    (hsl : F' (xm : ℝ) = ((slopeOf (exactOps sq) x0 y0 (x0 + r) f1 : ℚ) : ℝ))
    (hF : ∀ x ∈ Icc (x0 : ℝ) ((x0 + r : ℚ) : ℝ), HasDerivAt F (F' x) x)
    (hmono : StrictMonoOn F' (Icc (x0 : ℝ) ((x0 + r : ℚ) : ℝ)) ∨ StrictAntiOn F' (Icc (x0 : ℝ) ((x0 + r : ℚ) : ℝ)))
    (hxmI : (xm : ℝ) ∈ Icc (x0 : ℝ) ((x0 + r : ℚ) : ℝ)) :
    ∀ x ∈ Icc (x0 : ℝ) ((x0 + r : ℚ) : ℝ),
      |F x - chord F (x0 : ℝ) ((x0 + r : ℚ) : ℝ) x| ≤ (ubErr : ℝ) * max 1 |F xm| := by
  obtain ⟨hab, hub, hcast, hslope⟩ := C13_accepted_step_mid_test_exact sq f ubErr i x0 y0 dx r fuel hdec F F' hy0 heval
    f1 hf1e hchanged xm fm hxm hfm hsl
  exact C13_mid_test_bound hab hF hmono hxmI hslope hub.le hcast

/-- **The tolerance clause on an accepted segment**: if moreover `|F xm| ≤ 1`, the property's error measure (absolute
where `|F| ≤ 1`, relative elsewhere) between `F` and the chord is `≤ ubErr` at EVERY real point of the accepted segment. -/
theorem C13_accepted_step_tolerance_exact (sq : ℚ → ℚ) (f : Fn) (ubErr : ℚ) (i : Int) (x0 y0 dx r : ℚ) (fuel : Nat)
    (hdec : decStep (exactOps sq) f ubErr i x0 y0 fuel dx = .ok r)
    (F F' : ℝ → ℝ)
    (hy0 : F x0 = y0)
    (heval : ∀ q v : ℚ, f.eval q = .fin v → F q = v)
    (f1 : ℚ) (hf1e : f.eval (x0 + r) = .fin f1) (hchanged : f1 ≠ y0)
    (xm fm : ℚ)
    (hxm : f.invd1 i (slopeOf (exactOps sq) x0 y0 (x0 + r) f1) = .fin xm)
    (hfm : f.eval xm = .fin fm)
    (hsl : F' (xm : ℝ) = ((slopeOf (exactOps sq) x0 y0 (x0 + r) f1 : ℚ) : ℝ))
    (hF : ∀ x ∈ Icc (x0 : ℝ) ((x0 + r : ℚ) : ℝ), HasDerivAt F (F' x) x)
    (hmono : StrictMonoOn F' (Icc (x0 : ℝ) ((x0 + r : ℚ) : ℝ)) ∨ StrictAntiOn F' (Icc (x0 : ℝ) ((x0 + r : ℚ) : ℝ)))
    (hxmI : (xm : ℝ) ∈ Icc (x0 : ℝ) ((x0 + r : ℚ) : ℝ)) (hsmall : |F xm| ≤ 1) :
    ∀ x ∈ Icc (x0 : ℝ) ((x0 + r : ℚ) : ℝ),
      errMeasure (F x) (chord F (x0 : ℝ) ((x0 + r : ℚ) : ℝ) x) ≤ (ubErr : ℝ) := by
  obtain ⟨hab, hub, hcast, hslope⟩ := C13_accepted_step_mid_test_exact sq f ubErr i x0 y0 dx r fuel hdec F F' hy0 heval
    f1 hf1e hchanged xm fm hxm hfm hsl
  exact C13_mid_test_tolerance hab hF hmono hxmI hslope hub.le hsmall hcast

/-! ### non-vacuity: `F = x²`, tolerance 1/16, first step 1/2 (the instance of synthetic record 6) -/

/-- exact oracles of `x²` -/
def sqFn : Fn :=
  { eval := fun x => .fin (x * x), inv := fun _ y => .fin y, d1 := fun x => .fin (2 * x), invd1 := fun _ s => .fin (s / 2),
    d2 := fun _ => .fin 2, dom := ⟨0, 4, -100, 100⟩, accLb := -1000, accUb := 1000,
    monotone := false, periodic := false, perLb := -1000, perUb := 1000, bps := [0, 4] }

/-- the step `1/2` from `x0 = 0` is accepted by the model's `decStep` at tolerance `1/16` -/
theorem sq_step_accepted : decStep (exactOps id) sqFn (1/16) 0 0 0 50 (1/2) = .ok (1/2) := by decide +kernel

theorem hasDerivAt_sq (x : ℝ) : HasDerivAt (fun t : ℝ => t * t) (2 * x) x := by
  have h := (hasDerivAt_id' x).mul (hasDerivAt_id' x)
  exact h.congr_deriv (by ring)

/-- `C13_chord_error_max` and `C13_chord_bound` have non-trivial instances: `x²` on `[0,1]` … -/
example : ∀ x ∈ Icc (0 : ℝ) 1, |x * x - chord (fun t => t * t) 0 1 x| ≤ 1 / 4 := by
  refine C13_chord_bound (f := fun t => t * t) (f' := fun x => 2 * x) (by norm_num) (fun x _ => hasDerivAt_sq x)
    (Or.inl (fun x _ y _ h => by show 2 * x < 2 * y; linarith)) (xm := 1 / 2) (ε := 1 / 4)
    ⟨by norm_num, by norm_num⟩ (by norm_num) ?_
  norm_num [chord, abs_le]

/-- … and `C13_accepted_step_error_bound_exact` applies to the accepted step above: `|x² − x/2| ≤ 1/16` on `[0, 1/2]` -/
example : ∀ x ∈ Icc ((0 : ℚ) : ℝ) (((0 : ℚ) + 1/2 : ℚ) : ℝ),
    |x * x - chord (fun t => t * t) ((0 : ℚ) : ℝ) (((0 : ℚ) + 1/2 : ℚ) : ℝ) x| ≤ ((1/16 : ℚ) : ℝ) * max 1 |(((1/4 : ℚ) : ℝ)) * ((1/4 : ℚ) : ℝ)| :=
  C13_accepted_step_error_bound_exact id sqFn (1/16) 0 0 0 (1/2) (1/2) 50 sq_step_accepted
    (fun t => t * t) (fun x => 2 * x)
    (by norm_num)
    (by intro q v h; simp only [sqFn] at h; cases h; push_cast; ring)
    (1/4) (by decide +kernel) (by decide +kernel) (1/4) (1/16) (by decide +kernel) (by decide +kernel)
    (by
      have : slopeOf (exactOps id) 0 0 (0 + 1/2) (1/4) = 1/2 := by decide +kernel
      rw [this]; push_cast; norm_num)
    (fun x _ => hasDerivAt_sq x)
    (Or.inl (fun x _ y _ h => by show 2 * x < 2 * y; linarith))
    (by constructor <;> push_cast <;> norm_num)

end MpVerif.C13.Chord

import MpVerif.C13.LemmasInt
import MpVerif.C13.LemmasStep
/-!
# C13 — piecewise-linear approximations: what is proved

Property theorems only.  The model (`Model.lean`) is the generator skeleton
`BasicPLApproximator<FuncCon>::Run()` + `PLPoints::AddPoint` over an **abstract function record** `Fn`
(arbitrary oracles for `eval`, `inverse`, `eval_1st`, `inverse_1st`, `eval_2nd`, arbitrary domain,
period, default breakpoints) and an abstract arithmetic `FOps`.  Every theorem below quantifies over *all*
function records, all argument intervals, tolerances, integrality flags and all amounts of fuel.

`Lawful o` is the only assumption on the arithmetic: rounding is monotone and idempotent and a float is a
double.  It is proved for exact arithmetic (`Lawful.exact`) and for the driver instance `ieee`
(`PropsIEEE.lean`: `C13_lawful_ieee`, `C13_increasing_ieee`; proof in `Rounding.lean`, which uses Mathlib).
The chord-error lemma over ℝ is in `Chord.lean`.

The tolerance clause of C13 ("|f − PL| ≤ tol at every real point") is **not** a theorem about this
algorithm and is not claimed: the real code violates it (see `C13_endpoints_counterexample_skip` for the
mechanism, and the check's exploration oracle for the failing inputs on the real code).
-/
namespace MpVerif.C13

/-- abscissae of a result in their natural order (first breakpoint first) -/
def Res.xs (r : Res) : List Rat := r.pl.reverse.map Prod.fst

theorem inc_natural {pl : PL} (h : Inc pl) : (pl.reverse.map Prod.fst).Pairwise (· < ·) := by
  unfold Inc xsOf at h
  rw [List.map_reverse, List.pairwise_reverse]
  exact h

/-! ## breakpoints strictly increasing -/

/-- Invariant over `AddPoint` sequences: whatever points (representable abscissae, arbitrary ordinates, in any
order, with repetitions) are offered to `AddPoint`, starting from the empty PL, the stored abscissae are
strictly increasing. -/
theorem C13_addPoint_increasing (o : FOps) (hl : Lawful o) (pts : List (Rat × Rat))
    (hpts : ∀ p ∈ pts, Fx o p.1) :
    ((pts.foldl (fun pl p => addPoint o pl p.1 p.2) []).reverse.map Prod.fst).Pairwise (· < ·) := by
  apply inc_natural
  suffices h : ∀ (pts : List (Rat × Rat)) (pl : PL), (∀ p ∈ pts, Fx o p.1) → Inv o pl →
      Inv o (pts.foldl (fun pl p => addPoint o pl p.1 p.2) pl) from (h pts [] hpts (inv_nil o)).1
  intro pts
  induction pts with
  | nil => intro pl _ hi; exact hi
  | cons p ps ih =>
    intro pl hp hi
    simp only [List.foldl_cons]
    exact ih _ (fun q hq => hp q (by simp [hq])) (addPoint_inv hl hi (hp p (by simp)) p.2)

/-- **Breakpoints are strictly increasing for every run of the skeleton**: any function record (any oracles,
domain, period, default breakpoints that are representable numbers), any interval, tolerance, integrality,
fuel; trivial domain, periodic and non-periodic path, integrality shortcut included. -/
theorem C13_increasing (o : FOps) (hl : Lawful o) (f : Fn) (hb : ∀ b ∈ f.bps, Fx o b) (p : Params)
    (fuel : Nat) (r : Res) (h : run o f p fuel = .ok r) : r.xs.Pairwise (· < ·) :=
  inc_natural (run_inv hl f hb p fuel r h).1

/-- the same over exact real-number arithmetic, with no assumption at all -/
theorem C13_increasing_exact (sq : Rat → Rat) (f : Fn) (p : Params) (fuel : Nat) (r : Res)
    (h : run (exactOps sq) f p fuel = .ok r) : r.xs.Pairwise (· < ·) :=
  C13_increasing (exactOps sq) (Lawful.exact sq) f (fun _ _ => rfl) p fuel r h

/-! ## the step control: an accepted step passed the error test

(What the test guarantees about the TRUE error on the accepted segment is in `ChordRun.lean`:
`C13_accepted_step_mid_test_exact`, `C13_accepted_step_error_bound_exact`, `C13_accepted_step_tolerance_exact`.) -/

/-- **Every step accepted by the step control passed the generator's error test**, for every arithmetic and every
function record: the step `r` returned by `DecreaseStepWhileErrorTooBig` either left the function value unchanged
(the C++ then skips the test), or the candidate list of `maxErrorRelAbove1` on the segment `[x0, x0 ⊕ r]` — both ends,
the middle-value point `inverse_1st(slope)`, tilted-slope points, pre-images of ±1 — has every per-point error
(absolute inside `[-1,1]`, relative outside) `≤ ubErr`; the segment is non-degenerate and `ubErr > 0`. -/
theorem C13_accepted_step_passed_test (o : FOps) (f : Fn) (ubErr : Rat) (i : Int) (x0 f0 : Rat) (fuel : Nat) (dx r : Rat)
    (h : decStep o f ubErr i x0 f0 fuel dx = .ok r) :
    ∃ f1, f.eval (fadd o x0 r) = .fin f1 ∧
      (f1 = f0 ∨ ∃ pts, candPoints o f ubErr i x0 f0 (fadd o x0 r) f1 = .ok pts ∧
        (∀ p ∈ pts, pointErr o p.1 p.2 ≤ ubErr) ∧ (f1, f1) ∈ pts ∧ x0 < fadd o x0 r ∧ 0 < ubErr ∧
        ∀ xm fm, f.invd1 i (slopeOf o x0 f0 (fadd o x0 r) f1) = .fin xm → f.eval xm = .fin fm →
          pointErr o fm (fadd o f0 (fmul o (fsub o xm x0) (slopeOf o x0 f0 (fadd o x0 r) f1))) ≤ ubErr) := by
  obtain ⟨f1, hf1, hor⟩ := decStep_accept f ubErr i x0 f0 fuel dx r h
  refine ⟨f1, hf1, ?_⟩
  rcases hor with hflat | ⟨pts, hpts, hle⟩
  · exact Or.inl hflat
  · right
    obtain ⟨hlt, hub, f0', f1', _, he1, _, hm1, hmid⟩ := candPoints_spec hpts
    rw [hf1] at he1; cases he1
    have hge : ∀ p ∈ pts, pointErr o p.1 p.2 ≤ errMaxOf o pts := (errMaxOf_ge o pts).2
    have hall : ∀ p ∈ pts, pointErr o p.1 p.2 ≤ ubErr := by
      intro p hp
      have h1 : pointErr o p.1 p.2 ≤ errMaxOf o pts := hge p hp
      exact Rat.le_trans h1 hle
    refine ⟨pts, hpts, hall, hm1, hlt, hub, ?_⟩
    intro xm fm hxm hfm
    have hmem := hmid xm fm hxm hfm
    have hthis := hall _ hmem
    dsimp only at hthis
    exact hthis

/-- … and every iteration of the breakpoint loop of `ApproximateSubinterval` offers to `AddPoint` exactly the end of
such an accepted step (or the subinterval end `ub`, when the step ends within `1e-6` of it) -/
theorem C13_subLoop_step_tested (o : FOps) (f : Fn) (ubErr : Rat) (i : Int) (ub : Rat) (sf fuel : Nat)
    (x0 f0 : Rat) (pl r : PL) (h : subLoop o f ubErr i ub sf (fuel + 1) x0 f0 pl = .ok r) :
    ∃ dx1 dx2 dx3 f1, initStep o f ubErr ub x0 = .ok dx1 ∧ incStep o f ubErr i ub x0 f0 sf dx1 = .ok dx2 ∧
      decStep o f ubErr i x0 f0 sf dx2 = .ok dx3 ∧
      f.eval (if snapCond o ub (fadd o x0 dx3) then ub else fadd o x0 dx3) = .fin f1 ∧
      (r = addPoint o pl (if snapCond o ub (fadd o x0 dx3) then ub else fadd o x0 dx3) f1 ∨
       subLoop o f ubErr i ub sf fuel (if snapCond o ub (fadd o x0 dx3) then ub else fadd o x0 dx3) f1
         (addPoint o pl (if snapCond o ub (fadd o x0 dx3) then ub else fadd o x0 dx3) f1) = .ok r) := by
  unfold subLoop at h
  obtain ⟨dx1, h1, h⟩ := bind_ok h
  obtain ⟨dx2, h2, h⟩ := bind_ok h
  obtain ⟨dx3, h3, h⟩ := bind_ok h
  dsimp only at h
  refine ⟨dx1, dx2, dx3, ?_⟩
  generalize (if snapCond o ub (fadd o x0 dx3) then ub else fadd o x0 dx3) = x1 at h ⊢
  obtain ⟨f1, hf1, h⟩ := bind_ok h
  have e1 : f.eval x1 = .fin f1 := by
    unfold getFin at hf1; split at hf1
    · have := pure_ok hf1; subst this; assumption
    · exact (throw_ne_ok hf1).elim
    · exact (throw_ne_ok hf1).elim
  refine ⟨f1, h1, h2, h3, e1, ?_⟩
  split at h
  · exact Or.inr h
  · exact Or.inl (pure_ok h).symm

/-! ## first / last breakpoint versus the reported domain

Full-strength statement (C13: "start and end at the reported domain"), **false for the code as it exists**:

    theorem C13_endpoints … (h : run o f p fuel = .ok r) (non-periodic, non-trivial, no integrality) :
        r.xs.head? = some r.domOut.lbx ∧ r.xs.getLast? = some r.domOut.ubx

Two independent reasons, each with a proved counterexample below:
 * the breakpoints pass through `std::set<float>`, so the first one is `float(lbx)`  (`…_float`);
 * `AddPoint` drops a point that is within `1e-4` of the previous one, also when it is the end of the
   domain (`…_skip`).
What does hold is `C13_endpoints_partial`. -/

/-- The first breakpoint is the reported lower end **rounded to float**, for every non-periodic,
non-trivial run without the integrality shortcut. -/
theorem C13_endpoints_partial (o : FOps) (f : Fn) (p : Params) (fuel : Nat) (d : Dom) (r : Res)
    (hper : f.periodic = false) (hint : p.isInt = false)
    (hd : clipDomain f p = .ok d)
    (hnontriv : domainClass o d.lbx d.ubx = 2) (hord : ¬ o.toF d.ubx < o.toF d.lbx)
    (h : run o f p fuel = .ok r) :
    r.xs.head? = some (o.toF d.lbx) ∧ r.domOut = d := by
  unfold run at h
  rw [hd] at h
  simp only [bind, Except.bind] at h
  rw [if_neg (by rw [hnontriv]; decide), if_neg (by rw [hnontriv]; decide)] at h
  · simp only [hper, Bool.false_eq_true, if_false] at h
    split at h
    · cases h
    · rename_i v heq
      unfold initNonPeriodic at heq
      dsimp only at heq
      split at heq
      · exact (throw_ne_ok heq).elim
      have hv := pure_ok heq; subst hv
      unfold mainLoop at h
      unfold bpsNonPeriodic at h
      dsimp only at h
      rw [if_neg hord] at h
      simp only [List.cons_append] at h
      obtain ⟨f0, _, h⟩ := bind_ok h
      obtain ⟨pl1, h1, h⟩ := bind_ok h
      obtain ⟨pl2, h2, h⟩ := bind_ok h
      have := pure_ok h; subst this
      have hf0 : first (addPoint o [] (o.toF d.lbx) f0) = some (o.toF d.lbx, f0) := by
        simp [first, addPoint]
      have hf1 := subintervals_first f p.ubErr _ fuel _ _ _ _ _ hf0 h1
      have : pl2 = pl1 := by
        unfold considerIntegrality at h2
        simp [hint, pure, Except.pure] at h2
        exact h2.symm
      subst this
      constructor
      · unfold Res.xs
        unfold first at hf1
        simp only [List.map_reverse, List.head?_reverse]
        rw [List.getLast?_map, hf1]
        rfl
      · rfl

/-- a concrete function record: `f(x) = x` on `[-10,10]`, `f' = 1`, `f'' = 0`, `inverse_1st` undefined -/
def idFn : Fn :=
  { eval := fun x => .fin x, inv := fun _ y => .fin y, d1 := fun _ => .fin 1, invd1 := fun _ _ => .nan,
    d2 := fun _ => .fin 0, dom := ⟨-10, 10, -10, 10⟩, accLb := -1000, accUb := 1000,
    monotone := false, periodic := false, perLb := -1000, perUb := 1000, bps := [-10, 10] }

/-- the double nearest to `0.1` -/
def dbl0_1 : Rat := 3602879701896397 / 36028797018963968

/-- **Counterexample (float rounding of the ends)**: with IEEE arithmetic, `x ∈ [0.1, 1]`, tolerance `1e-2`,
the reported domain starts at `0.1` but the first breakpoint is `float(0.1) = 0.100000001490116… > 0.1`. -/
theorem C13_endpoints_counterexample_float :
    (run ieee idFn { dom := ⟨dbl0_1, 1, -10, 10⟩, isInt := false, ubErr := 1/100 } 60).toOption.map
        (fun r => (r.xs, r.domOut.lbx)) = some ([13421773/134217728, 1], dbl0_1)
    ∧ (13421773/134217728 : Rat) ≠ dbl0_1 := by
  constructor
  · decide +kernel
  · decide +kernel

/-- **Counterexample (the 1e-4 merge rule drops the end of the domain)**, already over exact arithmetic:
`x ∈ [0, 5e-5]` (wider than the `1e-6` "single point" threshold): the PL is the single point `(0, f(0))`,
the reported domain is `[0, 5e-5]`; the last breakpoint is not the reported upper end and the function is
approximated by a constant. -/
theorem C13_endpoints_counterexample_skip :
    (run (exactOps id) idFn { dom := ⟨0, 1/20000, -10, 10⟩, isInt := false, ubErr := 1/100 } 60).toOption.map
        (fun r => (r.pl, r.domOut.ubx)) = some ([(0, 0)], 1/20000) := by
  decide +kernel

/-! ## periodic reduction -/

/-- **Periodic cover, exact arithmetic only** (with rounding, `floor`/`ceil` of a rounded quotient can be off by one at
an exact multiple of the period, so the statement is not claimed for the IEEE instance; the check's oracle tests the
cover on every periodic output of the real code): the factor range reported by `InitPeriodic` is wide enough: every
`x` of the requested interval is `n·period + rem` with `n` an integer inside the reported factor range and
`rem` inside the base period `[perLb, perUb)`. -/
theorem C13_periodic_cover_exact (sq : Rat → Rat) (f : Fn) (d : Dom) (res : Res) (bps : List Rat)
    (h : initPeriodic (exactOps sq) f d = .ok (res, bps)) (hp : f.perLb < f.perUb)
    (x : Rat) (hl : d.lbx ≤ x) (hu : x ≤ d.ubx) :
    ∃ n : Int, res.facLb ≤ (n : Rat) ∧ (n : Rat) ≤ res.facUb ∧
      f.perLb ≤ x - (n : Rat) * res.periodLength ∧ x - (n : Rat) * res.periodLength < f.perUb ∧
      res.usePeriod = true := by
  unfold initPeriodic at h
  dsimp only at h
  split at h
  · exact (throw_ne_ok h).elim
  · split at h
    · have := (Prod.mk.inj (pure_ok h)).1
      obtain ⟨n, h1, h2, h3, h4⟩ := periodic_cover_arith d.lbx d.ubx f.perLb f.perUb x hp hl hu
      subst this
      refine ⟨n, ?_, ?_, ?_, ?_, rfl⟩
      · simp only [periodLen, facArg, fsub, fdiv, exactOps, id]; exact_mod_cast h1
      · simp only [periodLen, facArg, fsub, fdiv, exactOps, id]; exact_mod_cast h2
      · simp only [periodLen, fsub, exactOps, id]; exact h3
      · simp only [periodLen, fsub, exactOps, id]; exact h4
    · exact (throw_ne_ok h).elim

/-! ## integer arguments -/

/-- **Exactness at the integers**, for every arithmetic whose integer steps are exact on the points concerned
(`IntOK o x0 N`: `x0 ⊕ j = x0 + j` and the 1e-4 keep test passes between consecutive integers — proved for exact
arithmetic, `intOK_exact`, and for the IEEE instance on integers below 2^52, `C13_intOK_ieee`): the point list built by the integrality shortcut of
`ConsiderIntegrality` — `AddPoint(x0+k, f(x0+k))` for `k = 0 … N-1`, *including* `AddPoint`'s rule that merges
runs of equal ordinates — represents `f` exactly at every integer `x0 + j`, `j < N`: the piecewise-linear
function through the stored points takes the value `f(x0+j)` there. -/
theorem C13_int_exact_lawful (o : FOps) (f : Fn) (x0 : Rat) (N : Nat) (hok : IntOK o x0 N) (r : PL)
    (h : intPoints o f x0 N 0 [] = .ok r) (j : Nat) (hj : j < N) :
    ∃ v, f.eval (x0 + (j : Rat)) = .fin v ∧ plEvalR r (x0 + (j : Rat)) = v := by
  match N, hok, h, hj with
  | n + 1, hok, h, hj =>
    unfold intPoints at h
    obtain ⟨y, hy, h⟩ := bind_ok h
    have hx : fadd o x0 ((0 : Nat) : Rat) = x0 + ((0 : Nat) : Rat) := hok.add 0 (by omega)
    rw [hx] at h hy
    have hev : f.eval (x0 + ((0 : Nat) : Rat)) = .fin y := by
      unfold getFin at hy
      split at hy
      · have := pure_ok hy; subst this; assumption
      · exact (throw_ne_ok hy).elim
      · exact (throw_ne_ok hy).elim
    have hI := intPoints_invI o f x0 (n + 1) hok n 0 _ r (by omega) (invI_base o f x0 y hev) h
    obtain ⟨_, _, _, _, _, _, hall⟩ := hI
    exact hall j (by omega)

/-- the same over exact arithmetic, with no hypothesis on the arithmetic -/
theorem C13_int_exact (sq : Rat → Rat) (f : Fn) (x0 : Rat) (N : Nat) (r : PL)
    (h : intPoints (exactOps sq) f x0 N 0 [] = .ok r) (j : Nat) (hj : j < N) :
    ∃ v, f.eval (x0 + (j : Rat)) = .fin v ∧ plEvalR r (x0 + (j : Rat)) = v :=
  C13_int_exact_lawful (exactOps sq) f x0 N (intOK_exact sq x0 N) r h j hj

theorem truncInt_intCast (n : Int) (h : 0 ≤ n) : truncInt (n : Rat) = n := by
  unfold truncInt
  have h0 : (0 : Rat) ≤ (n : Rat) := by exact_mod_cast h
  have : ¬ ((n : Rat) < 0) := by grind
  rw [if_neg this, Rat.floor_intCast]

theorem intCount_exact (sq : Rat → Rat) (lbx ubx : Rat) :
    intCount (exactOps sq) lbx ubx = ((ubx.floor - lbx.ceil + 1 : Int) : Rat) := by
  simp only [intCount, fadd, fsub, exactOps, id]
  push_cast
  rfl

/-- **Exactness at every integer of the reported domain** (exact arithmetic), stated on `ConsiderIntegrality` itself:
when it decides for one breakpoint per integer (`N ≤` current number of breakpoints, `N > 0`), the returned point
list represents `f` exactly at *every* integer `t` with `lbx ≤ t ≤ ubx`; and when the domain holds no integer it
reports infeasibility (`C13_int_no_integer_infeasible`). -/
theorem C13_int_exact_domain (sq : Rat → Rat) (f : Fn) (d : Dom) (pl r : PL)
    (h : considerIntegrality (exactOps sq) f true false d pl = .ok r)
    (hdec : intDecision (d.ubx.floor - d.lbx.ceil + 1) (pl.length : Int) = 1)
    (t : Int) (hl : d.lbx ≤ (t : Rat)) (hu : (t : Rat) ≤ d.ubx) :
    ∃ v, f.eval (t : Rat) = .fin v ∧ plEvalR r (t : Rat) = v := by
  have hNpos : 0 < d.ubx.floor - d.lbx.ceil + 1 := by
    unfold intDecision at hdec
    split at hdec
    · cases hdec
    · omega
  unfold considerIntegrality at h
  simp only [Bool.not_false, Bool.and_self, if_true] at h
  rw [intCount_exact, truncInt_intCast _ (by omega)] at h
  simp only [hdec] at h
  split at h
  · exact (throw_ne_ok h).elim
  · have h : intPoints (exactOps sq) f ((d.lbx.ceil : Int) : Rat) (d.ubx.floor - d.lbx.ceil + 1).toNat 0 [] = .ok r := by
      simpa using h
    have hc : d.lbx.ceil ≤ t := Rat.ceil_le_iff.mpr hl
    have hf : t ≤ d.ubx.floor := Rat.le_floor_iff.mpr hu
    have hj : (t - d.lbx.ceil).toNat < (d.ubx.floor - d.lbx.ceil + 1).toNat := by omega
    obtain ⟨v, hv1, hv2⟩ := C13_int_exact sq f _ _ r h _ hj
    have hx : ((d.lbx.ceil : Int) : Rat) + (((t - d.lbx.ceil).toNat : Nat) : Rat) = (t : Rat) := by
      have : (((t - d.lbx.ceil).toNat : Nat) : Int) = t - d.lbx.ceil := Int.toNat_of_nonneg (by omega)
      have h2 : (((t - d.lbx.ceil).toNat : Nat) : Rat) = ((t - d.lbx.ceil : Int) : Rat) := by
        rw [← this]; rfl
      rw [h2]; push_cast; grind
    rw [hx] at hv1 hv2
    exact ⟨v, hv1, hv2⟩

/-- error branch (since a382c6e): an integer argument whose clipped domain contains no integer is reported
infeasible, for every arithmetic -/
theorem C13_int_no_integer_infeasible (o : FOps) (f : Fn) (d : Dom) (pl : PL)
    (hr : ¬ (intCount o d.lbx d.ubx ≥ 2147483648 ∨ intCount o d.lbx d.ubx ≤ -2147483649))
    (hn : truncInt (intCount o d.lbx d.ubx) ≤ 0) :
    considerIntegrality o f true false d pl = .error .infeas := by
  unfold considerIntegrality
  simp only [Bool.not_false, Bool.and_self, if_true]
  rw [if_neg hr]
  have : intDecision (truncInt (intCount o d.lbx d.ubx)) (pl.length : Int) = 0 := by
    unfold intDecision; rw [if_pos hn]
  simp [this, throw, throwThe, MonadExceptOf.throw, bind, Except.bind, pure, Except.pure]

/-! ## the validator run on every output of the real code -/

/-- `checkPL` is sound: an output it accepts has as many ordinates as abscissae, at least one point, and
strictly increasing abscissae. -/
theorem C13_checkPL_sound (out : Output) (h : checkPL out = true) :
    out.xs.length = out.ys.length ∧ out.xs ≠ [] ∧ out.xs.Pairwise (· < ·) := by
  unfold checkPL at h
  simp only [Bool.and_eq_true, beq_iff_eq, Bool.not_eq_true', List.isEmpty_eq_false_iff] at h
  exact ⟨h.1.1, h.1.2, incB_sound _ h.2⟩

/-- `checkEnds` is sound: first / last breakpoint are exactly the reported domain ends. -/
theorem C13_checkEnds_sound (out : Output) (h : checkEnds out = true) :
    out.xs.head? = some out.lbx ∧ out.xs.getLast? = some out.ubx := by
  unfold checkEnds at h
  simp only [Bool.and_eq_true, beq_iff_eq] at h
  exact h

/-! ## non-vacuity: concrete, non-trivial instances meeting the hypotheses of the theorems above -/

/-- `C13_addPoint_increasing`: an offered sequence with a repetition, a point closer than 1e-4, an out-of-order
point and a run of equal ordinates; 3 of the 7 points survive -/
example : ((([(0, 5), (0, 5), (1/100000, 6), (1, 7), (1/2, 0), (2, 7), (3, 7)] : List (Rat × Rat)).foldl
    (fun pl p => addPoint (exactOps id) pl p.1 p.2) []).reverse.map Prod.fst) = [0, 1, 3] := by decide +kernel

/-- `C13_endpoints_partial`: every hypothesis holds for the float-rounding counterexample instance -/
example : idFn.periodic = false ∧
    (clipDomain idFn { dom := ⟨dbl0_1, 1, -10, 10⟩, isInt := false, ubErr := 1/100 }).toOption = some ⟨dbl0_1, 1, -10, 10⟩ ∧
    domainClass ieee dbl0_1 1 = 2 ∧ ¬ ieee.toF 1 < ieee.toF dbl0_1 := by
  refine ⟨rfl, ?_, ?_, ?_⟩ <;> decide +kernel

/-- a periodic function record (period `[0,2]`, breakpoints `0,1,2`) -/
def perFn : Fn := { idFn with periodic := true, perLb := 0, perUb := 2, bps := [0, 1, 2], dom := ⟨-1000, 1000, -10, 10⟩ }

/-- `C13_periodic_cover`: `InitPeriodic` succeeds on `[-3, 5]` with factor range `[-2, 3]`, and e.g. `x = 9/2` is
`2·2 + 1/2` -/
example : (initPeriodic (exactOps id) perFn ⟨-3, 5, -10, 10⟩).toOption.map
    (fun rb => (rb.1.periodLength, rb.1.facLb, rb.1.facUb, rb.1.usePeriod)) = some (2, -2, 3, true) := by decide +kernel

/-- `C13_int_exact`: the shortcut on `x0 = -1`, `N = 4` for `f(x) = x` -/
example : (intPoints (exactOps id) idFn (-1) 4 0 []).toOption = some [(2, 2), (1, 1), (0, 0), (-1, -1)] := by
  decide +kernel

/-- … and with a run of equal ordinates merged (`f = 7` constant): two points represent four integers -/
example : (intPoints (exactOps id) { idFn with eval := fun _ => .fin 7 } (-1) 4 0 []).toOption
    = some [(2, 7), (-1, 7)] := by decide +kernel

/-- `C13_int_exact_domain` / `C13_int_no_integer_infeasible`: integer `x ∈ [-1/2, 5/2]` with 4 breakpoints already
present takes the shortcut (3 integers); integer `x ∈ [1/5, 4/5]` is infeasible -/
example : (considerIntegrality (exactOps id) idFn true false ⟨-1/2, 5/2, -10, 10⟩ [(3, 3), (2, 2), (1, 1), (0, 0)]).toOption
    = some [(2, 2), (1, 1), (0, 0)] := by decide +kernel
example : considerIntegrality (exactOps id) idFn true false ⟨1/5, 4/5, -10, 10⟩ [(1, 1), (0, 0)] = .error .infeas :=
  C13_int_no_integer_infeasible (exactOps id) idFn ⟨1/5, 4/5, -10, 10⟩ _ (by decide +kernel) (by decide +kernel)

/-! ## non-vacuity of `run` -/

/-- the skeleton does produce multi-point results (here: 3 breakpoints through 0 on `[-1, 1]`) -/
example : (run (exactOps id) { idFn with bps := [-10, 0, 10] }
    { dom := ⟨-1, 1, -10, 10⟩, isInt := false, ubErr := 1/100 } 60).toOption.map (fun r => r.xs)
    = some [-1, 0, 1] := by decide +kernel

/-- the validator accepts some outputs and rejects others -/
example : checkPL { xs := [0, 1, 2], ys := [0, 1, 4], lbx := 0, ubx := 2 } = true := by decide +kernel
example : checkPL { xs := [0, 1, 1], ys := [0, 1, 4], lbx := 0, ubx := 2 } = false := by decide +kernel

end MpVerif.C13

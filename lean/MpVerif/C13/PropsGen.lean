import MpVerif.C13.Model
import MpVerif.Gen.C13Gen
/-!
# C13 — the hand model's decision / arithmetic functions equal the definitions GENERATED from the C++ source

`MpVerif/Gen/C13Gen.lean` is regenerated on every run by `translators/gen_c13.py` from the clang AST of
`src/mp/flat/piecewise_linear.cpp` and `include/mp/flat/constr_functional.h` (semantics of the translation:
`translators/tr_c13.py`).  Each theorem below states that the function the model (`Model.lean`) actually uses
is the generated one, for all arguments and every arithmetic `o`; so every property theorem about the model speaks
about the code as it is now, and a change of any translated function breaks a proof here.  Core Lean only.
-/
namespace MpVerif.C13

/-- `f(x) = x` on `[-10,10]` (a concrete record for the examples of this file) -/
def idFnG : Fn :=
  { eval := fun x => .fin x, inv := fun _ y => .fin y, d1 := fun _ => .fin 1, invd1 := fun _ _ => .nan,
    d2 := fun _ => .fin 0, dom := ⟨-10, 10, -10, 10⟩, accLb := -1000, accUb := 1000,
    monotone := false, periodic := false, perLb := -1000, perUb := 1000, bps := [-10, 10] }

theorem eps4_lit : eps4 = (7378697629483821 : Rat) / (73786976294838206464 : Rat) := rfl
theorem eps6_lit : eps6 = (4722366482869645 : Rat) / (4722366482869645213696 : Rat) := rfl
theorem eps10_lit : eps10 = (7737125245533627 : Rat) / (77371252455336267181195264 : Rat) := rfl
theorem eps100_lit : eps100 = (492525077454931 : Rat) /
    (4925250774549309901534880012517951725634967408808180833493536675530715221437151326426783281860614455100828498788352 : Rat) := by
  decide +kernel

/-- `CompareError` -/
theorem C13_gen_compareError (o : FOps) (err ub x0 y0 x1 y1 : Rat) :
    cmpCode err ub = Gen.C13.compareError o err ub x0 y0 x1 y1 := rfl

/-- `ComputeInitialStepLength` (finite second derivative) -/
theorem C13_gen_initialStep (o : FOps) (d2 : Rat → Rat) (ubErr ub x0 : Rat) :
    initStepFin o (d2 x0) ubErr ub x0 = Gen.C13.initialStep o d2 ubErr ub x0 := by
  unfold initStepFin Gen.C13.initialStep
  rw [eps100_lit, eps10_lit]

/-- `CheckDomainReturnFalseIfTrivial`: infeasible / trivial / proceed, and the trivial point -/
theorem C13_gen_checkDomain (o : FOps) (lbx ubx : Rat) :
    domainClass o lbx ubx = Gen.C13.checkDomain o lbx ubx ∧ trivialMid o lbx ubx = Gen.C13.trivialMid o lbx ubx := by
  unfold domainClass Gen.C13.checkDomain MpVerif.C13.trivialMid Gen.C13.trivialMid
  rw [eps6_lit]
  exact ⟨rfl, rfl⟩

theorem max_eq_ite (a b : Rat) : max a b = if a < b then b else a := by
  rw [Rat.max_def]; split <;> split <;> grind
theorem min_eq_ite (a b : Rat) : min a b = if b < a then b else a := by
  rw [Rat.min_def]; split <;> split <;> grind

/-- `FuncGraphDomain::intersect` -/
theorem C13_gen_intersect (a b : Dom) : a.intersect b = Gen.C13.intersect a b := by
  unfold Dom.intersect Gen.C13.intersect
  simp only [max_eq_ite, min_eq_ite]

/-- `ClipWithFunctionValues`, all four oracle values finite -/
theorem C13_gen_clipWithFunctionValues (o : FOps) (eval inverse : Rat → Rat) (d : Dom) :
    clipValsFin d (eval d.lbx) (eval d.ubx) (inverse d.lby) (inverse d.uby) =
      Gen.C13.clipWithFunctionValues o eval inverse d := by
  unfold clipValsFin Gen.C13.clipWithFunctionValues
  simp only [max_eq_ite, min_eq_ite]

/-- … and the model's `clipVals` (which also handles infinite pre-images) is `clipValsFin` on finite values -/
theorem C13_clipVals_finite (f : Fn) (d : Dom) (a b c e : Rat)
    (h1 : f.eval d.lbx = .fin a) (h2 : f.eval d.ubx = .fin b) (h3 : f.inv (-100) d.lby = .fin c)
    (h4 : f.inv (-100) d.uby = .fin e) : clipVals f d = .ok (clipValsFin d a b c e) := by
  unfold clipVals clipValsFin
  simp only [h1, h2, h3, h4, getFin, ovMin, ovMax, OV.lt, bind, Except.bind, pure, Except.pure, maxFin, minFin,
    max_eq_ite, min_eq_ite]
  by_cases hce : c < e <;> by_cases hec : e < c <;> simp [hce, hec, maxFin, minFin] <;> (refine ⟨?_, ?_⟩ <;> rfl)

/-- **`ClipFuncGraphDomain`** (incl. its statement order: the reported domain `grDomOut` and the interval `lbx_, ubx_`
the approximation is built on are all taken AFTER the clipping through function values): the model's `clipDomain`
yields `d` (used by `run` as reported domain and as `[lbx_, ubx_]`) exactly when the generated function yields
`(d, d.lbx, d.ubx)`; `clip` is whatever `ClipWithFunctionValues` computes on the intersected domain when the record is
monotone (tied separately: `C13_gen_clipWithFunctionValues`, `C13_clipVals_finite`). -/
theorem C13_gen_clipFuncGraphDomain (f : Fn) (p : Params) (clip : Dom → Dom)
    (hclip : f.monotone = true → clipVals f (p.dom.intersect f.dom) = .ok (clip (p.dom.intersect f.dom))) :
    (clipDomain f p).toOption.map (fun d => (d, d.lbx, d.ubx)) =
      Gen.C13.clipFuncGraphDomain f.accLb f.accUb f.dom (f.monotone = true) clip p.dom := by
  unfold clipDomain Gen.C13.clipFuncGraphDomain
  rw [← C13_gen_intersect]
  by_cases hacc : f.accLb ≤ p.dom.lbx ∧ p.dom.ubx ≤ f.accUb
  · by_cases hm : f.monotone = true
    · simp [hacc, hm, hclip hm, bind, Except.bind, Except.toOption]
    · simp [hacc, hm, bind, Except.bind, Except.toOption, pure, Except.pure]
  · simp [hacc, bind, Except.bind, Except.toOption, throw, throwThe, MonadExceptOf.throw]

/-- non-vacuity: a monotone record whose result bound cuts the argument (`y ≤ 4` for `f(x) = x` on `[-3, 8]`) -/
example : (clipDomain { idFnG with monotone := true } { dom := ⟨-3, 8, -10, 4⟩, isInt := false, ubErr := 1/100 }).toOption
    = some ⟨-3, 4, -3, 4⟩ := by decide +kernel

/-- locals of `maxErrorRelAbove1`: slope, the two tilted slopes, the per-point error measure -/
theorem C13_gen_maxErr_locals (o : FOps) (x0 y0 x1 y1 s ubErr fv y : Rat) :
    slopeOf o x0 y0 x1 y1 = Gen.C13.slope o x0 y0 x1 y1 ∧ tiltAway o s ubErr = Gen.C13.slopeTiltedAway o s ubErr ∧
    tiltTo o s ubErr = Gen.C13.slopeTiltedTo o s ubErr ∧ pointErr o fv y = Gen.C13.pointErr o fv y :=
  ⟨rfl, rfl, rfl, rfl⟩

/-! ### candidate collection of `maxErrorRelAbove1` (guards, ordinates, pre-image assertion) -/

/-- a candidate at abscissa `x` is `(eval x, y0 + (x-x0)*slope)` -/
theorem C13_gen_cand_ordinate (o : FOps) (f : Fn) (x0 y0 s : Rat) (pts : List (Rat × Rat)) (x fv : Rat)
    (h : f.eval x = .fin fv) :
    addCand o f x0 y0 s pts (.fin x) = .ok (pts ++ [(fv, Gen.C13.candOrdinate o x0 y0 s x)]) := by
  unfold addCand Gen.C13.candOrdinate
  simp only [h]
  rfl

instance (s a b : Rat) : Decidable (Gen.C13.tiltedInRange s a b) := by unfold Gen.C13.tiltedInRange; infer_instance
instance (x0 x1 xp : Rat) : Decidable (Gen.C13.preimInside x0 x1 xp) := by unfold Gen.C13.preimInside; infer_instance

/-- a tilted slope yields a candidate iff it lies between the (finite) end-point derivatives -/
theorem C13_gen_cand_tilted (o : FOps) (f : Fn) (i : Int) (x0 y0 slope a b s : Rat) (pts : List (Rat × Rat)) :
    addTilted o f i x0 y0 slope (.fin a) (.fin b) s pts =
      if Gen.C13.tiltedInRange s a b then addCand o f x0 y0 slope pts (f.invd1 i s) else pure pts := by
  unfold addTilted Gen.C13.tiltedInRange
  simp only [OV.le, Bool.and_eq_true, decide_eq_true_eq]

/-- the pre-image candidate: asserted to lie strictly inside the segment, ordinate on the chord -/
theorem C13_gen_cand_preim (o : FOps) (f : Fn) (i : Int) (x0 y0 x1 slope c : Rat) (pts : List (Rat × Rat)) (xp : Rat)
    (h : f.inv i c = .fin xp) :
    addPreim o f i x0 y0 x1 slope c true pts =
      if Gen.C13.preimInside x0 x1 xp then .ok (pts ++ [(c, Gen.C13.candOrdinate o x0 y0 slope xp)]) else .error .preim := by
  unfold addPreim Gen.C13.preimInside Gen.C13.candOrdinate
  simp only [h, if_true]
  by_cases hin : x0 < xp ∧ xp < x1
  · simp [hin]; rfl
  · simp [hin]; rfl

/-- the guards of the candidate collection and the two entry assertions -/
theorem C13_gen_cand_guards (a b f0 f1 ubErr x0 x1 : Rat) :
    (OV.lt (.fin b) (.fin a) = true ↔ Gen.C13.derivSwap a b) ∧
    ((f0 < 1 ∧ 1 < f1) ↔ Gen.C13.crossesUp1 f0 f1) ∧ ((f0 < -1 ∧ -1 < f1) ↔ Gen.C13.crossesUpM1 f0 f1) ∧
    (ubErr ≠ 1 ↔ Gen.C13.useTiltedTo ubErr) ∧ (x0 < x1 ↔ Gen.C13.segmentOk x0 x1) ∧ (0 < ubErr ↔ Gen.C13.tolOk ubErr) := by
  refine ⟨?_, Iff.rfl, Iff.rfl, ?_, Iff.rfl, Iff.rfl⟩
  · unfold Gen.C13.derivSwap; simp [OV.lt]
  · unfold Gen.C13.useTiltedTo; exact ⟨fun h => fun e => h e.symm, fun h => fun e => h e.symm⟩

instance (a b : Rat) : Decidable (Gen.C13.derivSwap a b) := by unfold Gen.C13.derivSwap; infer_instance
instance (u : Rat) : Decidable (Gen.C13.useTiltedTo u) := by unfold Gen.C13.useTiltedTo; infer_instance
instance (a b : Rat) : Decidable (Gen.C13.crossesUp1 a b) := by unfold Gen.C13.crossesUp1; infer_instance
instance (a b : Rat) : Decidable (Gen.C13.crossesUpM1 a b) := by unfold Gen.C13.crossesUpM1; infer_instance

/-- **the candidate collection after the middle-value point, in terms of the generated guards** (finite end-point
derivatives): swap, tilted-away candidate, tilted-to candidate unless `ubErr = 1`, pre-images of `+1` and `-1` -/
theorem C13_gen_candRest_finite (o : FOps) (f : Fn) (ubErr : Rat) (i : Int) (x0 y0 x1 s f0 f1 a b : Rat)
    (pts : List (Rat × Rat)) (ha : f.d1 x0 = .fin a) (hb : f.d1 x1 = .fin b) :
    candRest o f ubErr i x0 y0 x1 s f0 f1 pts =
      (addTilted o f i x0 y0 s (.fin (if Gen.C13.derivSwap a b then b else a)) (.fin (if Gen.C13.derivSwap a b then a else b))
          (Gen.C13.slopeTiltedAway o s ubErr) pts >>= fun pts =>
        (if Gen.C13.useTiltedTo ubErr then
            (if fsub o 1 ubErr = 0 then throw .nonfinite
             else addTilted o f i x0 y0 s (.fin (if Gen.C13.derivSwap a b then b else a))
                    (.fin (if Gen.C13.derivSwap a b then a else b)) (Gen.C13.slopeTiltedTo o s ubErr) pts)
          else pure pts) >>= fun pts =>
        addPreim o f i x0 y0 x1 s 1 (decide (Gen.C13.crossesUp1 f0 f1)) pts >>= fun pts =>
        addPreim o f i x0 y0 x1 s (-1) (decide (Gen.C13.crossesUpM1 f0 f1)) pts) := by
  unfold candRest
  simp only [ha, hb]
  have hsw : OV.lt (.fin b) (.fin a) = decide (Gen.C13.derivSwap a b) := by
    unfold Gen.C13.derivSwap; simp [OV.lt]
  have hne : ((OV.fin a == OV.miss) || (OV.fin b == OV.miss)) = false := by
    simp only [Bool.or_eq_false_iff]; exact ⟨rfl, rfl⟩
  rw [hne, hsw]
  by_cases hd : Gen.C13.derivSwap a b
  · by_cases hu : ubErr ≠ 1
    · have hu' : Gen.C13.useTiltedTo ubErr := fun e => hu e.symm
      simp only [hd, hu, hu', decide_true, if_true, Bool.false_eq_true, if_false, ne_eq, not_false_eq_true]
      rfl
    · have hu' : ¬ Gen.C13.useTiltedTo ubErr := fun h => hu (fun e => h e.symm)
      simp only [hd, hu, hu', decide_true, if_true, Bool.false_eq_true, if_false, ne_eq]
      rfl
  · by_cases hu : ubErr ≠ 1
    · have hu' : Gen.C13.useTiltedTo ubErr := fun e => hu e.symm
      simp only [hd, hu, hu', decide_false, if_true, Bool.false_eq_true, if_false, ne_eq, not_false_eq_true]
      rfl
    · have hu' : ¬ Gen.C13.useTiltedTo ubErr := fun h => hu (fun e => h e.symm)
      simp only [hd, hu, hu', decide_false, Bool.false_eq_true, if_false, ne_eq]
      rfl

/-- tripwire: order and first components of the 7 candidates in the source -/
theorem C13_gen_cand_order :
    Gen.C13.candHeads = ["f0", "f1", "(eval xm)", "(eval xm)", "(eval xm)", "(1 : Rat)", "(-(1 : Rat))"] := by decide

/-- `ConsiderIntegrality`: the count `xN - x0 + 1`, the decisions `N <= 0` (infeasible, since a382c6e) /
`N <= size` (one breakpoint per integer), the first abscissa and the k-th point -/
theorem C13_gen_integrality (o : FOps) (lbx ubx x0 : Rat) (n size : Int) (k : Nat) :
    intCount o lbx ubx = Gen.C13.intCount o lbx ubx ∧ intDecision n size = Gen.C13.intDecision n size ∧
    (((lbx.ceil : Int) : Rat) = Gen.C13.intFirst lbx) ∧ fadd o x0 (k : Rat) = Gen.C13.intPointX o x0 (k : Rat) :=
  ⟨rfl, rfl, rfl, rfl⟩

/-- `InitPeriodic`: period length and the arguments of `floor` / `ceil` of the factor range -/
theorem C13_gen_periodic (o : FOps) (lbx ubx perLb perUb len : Rat) :
    periodLen o perLb perUb = Gen.C13.periodLength o perLb perUb ∧
    facArg o lbx perLb len = Gen.C13.factorLbArg o lbx ubx perLb len ∧
    facArg o ubx perLb len = Gen.C13.factorUbArg o lbx ubx perLb len :=
  ⟨rfl, rfl, rfl⟩

/-- step control constants and the end-of-subinterval snap -/
theorem C13_gen_step_constants (o : FOps) (ub x : Rat) :
    (snapCond o ub x ↔ Gen.C13.snapCond o ub x) ∧ c1_2 = Gen.C13.growFactor o ∧ cInv1_1 = Gen.C13.shrinkFactor ieee := by
  refine ⟨?_, rfl, ?_⟩
  · unfold MpVerif.C13.snapCond Gen.C13.snapCond; rw [eps6_lit]
  · decide +kernel

/-- `PLPoints::AddPoint`: the keep test … -/
theorem C13_gen_addPoint_keep (o : FOps) (back x : Rat) :
    (keepCond o back x ↔ Gen.C13.addPointKeep o False back x) ∧ Gen.C13.addPointKeep o True back x := by
  unfold keepCond Gen.C13.addPointKeep
  rw [eps4_lit]
  exact ⟨by simp, Or.inl trivial⟩

/-- … and the equal-ordinate merge test, for a stored PL with at least two points (last ordinates `yl`, `yp`) -/
theorem C13_gen_addPoint_merge (o : FOps) (size : Int) (hs : 2 ≤ size) (yAt : Rat → Rat) (yl yp y : Rat)
    (h1 : yAt ((size : Rat) - 1) = yl) (h2 : yAt ((size : Rat) - 2) = yp) :
    (yl = y ∧ yp = y) ↔ Gen.C13.addPointMerge o size yAt y := by
  unfold Gen.C13.addPointMerge
  rw [h1, h2]
  have : (2 : Rat) ≤ (size : Rat) := by exact_mod_cast hs
  constructor
  · intro h; exact ⟨⟨this, h.1⟩, h.2⟩
  · intro h; exact ⟨h.1.2, h.2⟩

/-- non-vacuity of `C13_gen_addPoint_merge`: three stored ordinates `5, 7, 7` and a new `7` -/
example : Gen.C13.addPointMerge ieee 3 (fun i => if i = 0 then 5 else 7) 7 :=
  (C13_gen_addPoint_merge ieee 3 (by decide) _ 7 7 7 (by decide +kernel) (by decide +kernel)).mp ⟨rfl, rfl⟩

/-- the merge test is off for fewer than two stored points -/
theorem C13_gen_addPoint_merge_small (o : FOps) (size : Int) (hs : size < 2) (yAt : Rat → Rat) (y : Rat) :
    ¬ Gen.C13.addPointMerge o size yAt y := by
  unfold Gen.C13.addPointMerge
  intro h
  have : (2 : Rat) ≤ (size : Rat) := h.1.1
  have : (2 : Int) ≤ size := by exact_mod_cast this
  omega

/-- the effect of an `AddPoint` action on the stored points (kept back to front) -/
def applyAction (a : Nat) (pl : PL) (x y : Rat) : PL :=
  match a, pl with
  | 0, pl => pl
  | 1, (_, byy) :: rest => (x, byy) :: rest
  | 1, [] => []
  | _, pl => (x, y) :: pl

/-- abscissa of the last stored point (`x_.back()`; arbitrary on the empty PL, where the C++ does not read it) -/
def backX (pl : PL) : Rat := (pl.head?.map Prod.fst).getD 0

/-- `y_[i]` for the two indices `AddPoint` reads: `size-1` and `size-2` -/
def yAtOf (pl : PL) (i : Rat) : Rat :=
  if i = ((pl.length : Int) : Rat) - (1 : Rat) then ((pl[0]?).map Prod.snd).getD 0
  else if i = ((pl.length : Int) : Rat) - (2 : Rat) then ((pl[1]?).map Prod.snd).getD 0 else 0

theorem not_two_le_zero : ¬ ((2 : Rat) ≤ (((0 : Nat) : Int) : Rat)) := by decide +kernel
theorem not_two_le_one : ¬ ((2 : Rat) ≤ (((1 : Nat) : Int) : Rat)) := by decide +kernel

/-- **the whole of `PLPoints::AddPoint`** (branch structure and both effects, not only its two tests): the model's `addPoint`
is the generated action applied to the stored points, for every PL, point and arithmetic -/
theorem C13_gen_addPoint_action (o : FOps) (pl : PL) (x y : Rat) :
    addPoint o pl x y =
      applyAction (Gen.C13.addPointAction o (pl = []) (backX pl) x (pl.length : Int) (yAtOf pl) y) pl x y := by
  unfold Gen.C13.addPointAction
  match pl with
  | [] =>
    have h0 : ¬ ((2 : Rat) ≤ (((([] : PL).length : Nat) : Int) : Rat)) := not_two_le_zero
    rw [if_pos (Or.inl rfl), if_neg (fun h => h0 h.1.1)]
    rfl
  | [(bx, byy)] =>
    have h1 : ¬ ((2 : Rat) ≤ (((([(bx, byy)] : PL).length : Nat) : Int) : Rat)) := not_two_le_one
    have hne : ¬ ([(bx, byy)] = ([] : PL)) := by simp
    have hb : backX [(bx, byy)] = bx := rfl
    rw [hb, ← eps4_lit]
    by_cases hk : fadd o bx eps4 < x
    · rw [if_pos (Or.inr hk), if_neg (fun h => h1 h.1.1)]
      have : keepCond o bx x := hk
      simp only [addPoint, if_pos this, applyAction]
    · rw [if_neg (fun h => h.elim hne hk)]
      have : ¬ keepCond o bx x := hk
      simp only [addPoint, if_neg this, applyAction]
  | (bx, byy) :: (x2, y2) :: rest =>
    have hlen : (2 : Rat) ≤ (((((bx, byy) :: (x2, y2) :: rest).length : Nat) : Int) : Rat) := by
      have : (2 : Int) ≤ ((((bx, byy) :: (x2, y2) :: rest).length : Nat) : Int) := by
        simp only [List.length_cons]; omega
      exact_mod_cast this
    have e1 : yAtOf ((bx, byy) :: (x2, y2) :: rest)
        ((((((bx, byy) :: (x2, y2) :: rest).length : Nat) : Int) : Rat) - (1 : Rat)) = byy := by
      unfold yAtOf; rw [if_pos rfl]; rfl
    have e2 : yAtOf ((bx, byy) :: (x2, y2) :: rest)
        ((((((bx, byy) :: (x2, y2) :: rest).length : Nat) : Int) : Rat) - (2 : Rat)) = y2 := by
      unfold yAtOf
      rw [if_neg (by intro h; grind), if_pos rfl]; rfl
    have hne : ¬ ((bx, byy) :: (x2, y2) :: rest = ([] : PL)) := by simp
    have hb : backX ((bx, byy) :: (x2, y2) :: rest) = bx := rfl
    rw [hb, e1, e2, ← eps4_lit]
    by_cases hk : fadd o bx eps4 < x
    · have hkc : keepCond o bx x := hk
      rw [if_pos (Or.inr hk)]
      by_cases hm : byy = y ∧ y2 = y
      · rw [if_pos ⟨⟨hlen, hm.1⟩, hm.2⟩]
        simp only [addPoint, if_pos hkc, if_pos hm, applyAction]
      · rw [if_neg (fun h => hm ⟨h.1.2, h.2⟩)]
        simp only [addPoint, if_pos hkc, if_neg hm, applyAction]
    · have hkc : ¬ keepCond o bx x := hk
      rw [if_neg (fun h => h.elim hne hk)]
      simp only [addPoint, if_neg hkc, applyAction]

/-- the 17 function types the model's harness covers, with the flags that select `ClipWithFunctionValues`
(monotone) and the periodic path -/
def knownApproximators : List (String × Bool × Bool) :=
  [("ExpConstraint", true, false), ("LogConstraint", true, false), ("ExpAConstraint", true, false),
   ("LogAConstraint", true, false), ("PowConstraint", false, false), ("SinConstraint", false, true),
   ("CosConstraint", false, true), ("TanConstraint", false, true), ("AsinConstraint", false, false),
   ("AcosConstraint", false, false), ("AtanConstraint", false, false), ("SinhConstraint", true, false),
   ("CoshConstraint", false, false), ("TanhConstraint", true, false), ("AsinhConstraint", false, false),
   ("AcoshConstraint", false, false), ("AtanhConstraint", false, false)]

/-- **structure tie**: the set of `PLApproximator<…>` specialisations in the source, their monotone / periodic
flags and the explicit instantiations are exactly the 17 the check exercises -/
theorem C13_gen_approximators :
    Gen.C13.approximators = knownApproximators ∧ Gen.C13.instantiated = knownApproximators.map (·.1) := by
  decide

/-- which quantity of `FuncConConverter_MIP_CRTP::Convert` an option (given by one of its names) ends up in, composed from
the three generated tables: `AddOption` binding → accessor returning that member → where `Convert` stores the accessor -/
def optionFeeds (opts : List (List String × String)) (accs uses : List (String × String)) (name : String) : Option String :=
  match opts.find? (fun o => o.1.contains name) with
  | none => none
  | some o =>
    match accs.find? (fun a => a.2 == o.2) with
    | none => none
    | some a => (uses.find? (fun u => u.2 == a.1)).map (·.1)

/-- **option plumbing (structure tie)**: in the current source `cvt:plapprox:reltol` (and its aliases) is bound to the
member returned by `PLApproxRelTol()`, which `Convert` stores into `laPrm.ubErr` (the requested tolerance), and
`cvt:plapprox:domain` (and aliases) to the member returned by `PLApproxDomain()`, which `Convert` uses as the graph
limit `dm`; the two options are bound to different members -/
theorem C13_gen_option_plumbing :
    Gen.C13.plOptions = [(["cvt:plapprox:reltol", "plapprox:reltol", "plapproxreltol"], "PLApproxRelTol_"),
                         (["cvt:plapprox:domain", "plapprox:domain", "plapproxdomain"], "PLApproxDomain_")] ∧
    Gen.C13.plAccessors = [("PLApproxRelTol", "PLApproxRelTol_"), ("PLApproxDomain", "PLApproxDomain_")] ∧
    Gen.C13.plUses = [("dm", "PLApproxDomain"), ("laPrm.ubErr", "PLApproxRelTol")] ∧
    (∀ n ∈ ["cvt:plapprox:reltol", "plapprox:reltol", "plapproxreltol"],
      optionFeeds Gen.C13.plOptions Gen.C13.plAccessors Gen.C13.plUses n = some "laPrm.ubErr") ∧
    (∀ n ∈ ["cvt:plapprox:domain", "plapprox:domain", "plapproxdomain"],
      optionFeeds Gen.C13.plOptions Gen.C13.plAccessors Gen.C13.plUses n = some "dm") := by
  decide

end MpVerif.C13

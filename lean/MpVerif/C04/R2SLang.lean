import MpVerif.C04.Model
/-!
# C04 — micro-language of the `RangeCon2Slack::*Entry` bodies

`translators/gen_valcvt.py` translates every `Presolve<Kind>Entry` / `Postsolve<Kind>Entry` method of `RangeCon2Slack`
(straight-line: local declarations and `Set{Int,Dbl}(be, POS, expr)`) into a `List R2SStmt`, and `PostsolveIISEntry`
(`if (auto s = GetInt(..)) { switch..; SetInt } else SetInt`) into a switch table + `R2SIIS`.  This file gives them meaning;
`Props.lean` proves that the hand model's `preEntry` / `postEntry` for `r2s` entries equal the generated programs.
-/
namespace MpVerif.C04

inductive R2SPos | src | target | slk
deriving DecidableEq, Repr

inductive R2SExpr
  | get (p : R2SPos)          -- `GetInt/GetDbl(be, p)`
  | loc (i : Nat)             -- i-th local declared so far
  | rev (e : R2SExpr)         -- `ReverseBasisLowUpp(e)`
  | lit (n : Int)             -- an enumerator cast to int
  | lowerSlack                -- `orig_cons.ComputeLowerSlack(GetNode(VAR_SLK))`, `orig_cons` = the range constraint at CON_SRC
deriving DecidableEq, Repr

inductive R2SStmt
  | set (p : R2SPos) (e : R2SExpr)   -- `SetInt/SetDbl(be, p, e)` (through `ValueNode::SetNum`)
  | decl (e : R2SExpr)               -- `auto x = e;`
deriving DecidableEq, Repr

structure R2SIIS where
  test : R2SPos
  dst : R2SPos
  els : R2SPos
deriving DecidableEq, Repr

structure R2SCells where
  cs : Cell
  ct : Cell
  vs : Cell
  sd : SlackData

def R2SCells.cell (c : R2SCells) : R2SPos → Cell
  | .src => c.cs | .target => c.ct | .slk => c.vs

/-- `rev` is a parameter so that the generated `reverseBasisLowUpp` can be plugged in -/
def evalR2S (rev : Val → Val) (c : R2SCells) (S : St) (locs : List Val) : R2SExpr → Val
  | .get p => S (c.cell p)
  | .loc i => locs.getD i 0
  | .rev e => rev (evalR2S rev c S locs e)
  | .lit n => (n : Val)
  | .lowerSlack => lowerSlack S c.vs.1 c.sd

def execR2S (rev : Val → Val) (c : R2SCells) : List R2SStmt → St → List Val → St
  | [], S, _ => S
  | .set p e :: rest, S, locs => execR2S rev c rest (S.setNum (c.cell p) (evalR2S rev c S locs e)) locs
  | .decl e :: rest, S, locs => execR2S rev c rest S (locs ++ [evalR2S rev c S locs e])

/-- a `switch` table over integer labels applied to a model value; a value that is no label raises -/
def switchTable (cases : List (Int × Int)) (v : Val) : Option Val :=
  (cases.find? (fun kv => (kv.1 : Val) = v)).map (fun kv => (kv.2 : Val))

/-- `if (auto s = Get(test)) { s = switch(s); Set(dst, s); } else Set(dst, Get(els));` -/
def execR2SIIS (cases : List (Int × Int)) (p : R2SIIS) (c : R2SCells) (S : St) : Option St :=
  let s := S (c.cell p.test)
  if s ≠ 0 then (switchTable cases s).map (fun s' => S.setNum (c.cell p.dst) s')
  else some (S.setNum (c.cell p.dst) (S (c.cell p.els)))

end MpVerif.C04

/-!
# C04 — model of the value presolver (`include/mp/valcvt*.h`, `flat/redef/std/range_con.h`)

* value nodes (`pre::ValueNode`): arrays indexed by (node id, position); one numeric array per
  run is live (the `int` and the `double` array of a node are never mixed in one run), so one
  state `St` of exact rationals models both (ints are embedded);
* `setNumVal` = `ValueNode::SetNum` (max among non-zero);
* link entries as data: `copy` (`CopyLink`), `m2m` (`Many2ManyLink`, `One2ManyLink`,
  `Many2OneLink` — identical code), `r2s` (`RangeCon2Slack`);
* `preEntry` / `postEntry` = what `Presolve<Kind>` / `Postsolve<Kind>` of the link does for ONE entry;
* `runPre` / `runPost` = `ValuePresolverImpl::RunPresolve/RunPostsolve` after the nodes were
  cleaned and the argument loaded: fold over the flattened link-range list forwards / backwards;
* `loadInto (clean prev)` = `CleanUpValueNodes(); src_ = mv` (resp. `dest_ = mv`): `ValueNode::operator=`
  truncates / zero-fills the given vector to the declared node size.

Indices outside the declared size of a node are never touched when the graph is well formed
(`Graph.inBounds`, checked on every real graph), so a total function state is faithful.
-/
namespace MpVerif.C04

abbrev Val := Rat
/-- (node id, position) -/
abbrev Cell := Nat × Nat
/-- contents of all value nodes (one numeric array per node).
    (A structure, not a bare function type: the compiled driver must not eta-expand state transformers.) -/
structure St where
  get : Cell → Val

instance : CoeFun St (fun _ => Cell → Val) := ⟨St.get⟩

def St.set (S : St) (c : Cell) (v : Val) : St := ⟨fun c' => if c' = c then v else S c'⟩

/-- `ValueNode::SetNum`: if the existing value is non-zero only a larger non-zero value replaces it. -/
def setNumVal (cur v : Val) : Val :=
  if cur ≠ 0 then (if cur < v ∧ v ≠ 0 then v else cur) else v

def St.setNum (S : St) (c : Cell) (v : Val) : St := S.set c (setNumVal (S c) v)

/-- a node range `[beg, beg+len)` of node `node` -/
structure Rng where
  node : Nat
  beg : Nat
  len : Nat
deriving DecidableEq, Repr

def Rng.has (r : Rng) (c : Cell) : Bool := c.1 == r.node && decide (r.beg ≤ c.2) && decide (c.2 < r.beg + r.len)

/-- data of the range constraint behind a `RangeCon2Slack` entry (only `PresolveSolution` uses it) -/
structure SlackData where
  lin : List (Val × Nat)
  quad : List (Val × Nat × Nat)
  lb : Val
deriving Repr

inductive Entry
  | copy (s d : Rng)
  | m2m (s d : Rng)
  /-- `cs` range constraint, `ct` target (equality) constraint, `vs` slack variable -/
  | r2s (cs ct vs : Cell) (sd : SlackData)
deriving Repr

/-- the numeric value kinds of `LIST_PRESOLVE_METHODS` (`GenericDbl`/`GenericInt` share `generic`) -/
inductive Kind | generic | sol | basis | iis | lazy
deriving DecidableEq, Repr

/-- `RangeCon2Slack::ReverseBasisLowUpp` (BasicStatus low = 3, upp = 4) -/
def revBasis (v : Val) : Val := if v = 3 then 4 else if v = 4 then 3 else v

/-- `RangeCon2Slack::PostsolveIISEntry`: slack status low(1) ↔ upp(3), fix(2) kept, other non-zero statuses raise;
    slack status 0 → the target constraint's status -/
def iisVal (slk tgt : Val) : Option Val :=
  if slk ≠ 0 then
    (if slk = 1 then some 3 else if slk = 3 then some 1 else if slk = 2 then some 2 else none)
  else some tgt

/-- `AlgebraicConstraint::ComputeLowerSlack(x)` with `x` = the (target) variable node `vn` -/
def lowerSlack (S : St) (vn : Nat) (sd : SlackData) : Val :=
  (sd.lin.foldl (fun acc t => acc + t.1 * S (vn, t.2)) 0
    + sd.quad.foldl (fun acc t => acc + t.1 * S (vn, t.2.1) * S (vn, t.2.2)) 0) - sd.lb

/-- `CopyRange` (`std::copy`, front to back) of `len` values from `(sn, sb..)` to `(dn, db..)` -/
def copyRange (S : St) (sn sb dn db len : Nat) : St :=
  (List.range len).foldl (fun S j => S.set (dn, db + j) (S (sn, sb + j))) S

/-- inner loop of `Many2ManyLink::Distr/Collect`: `SetVal(c, v)` for every `v` in the range `r` -/
def collectInto (S : St) (c : Cell) (r : Rng) : St :=
  (List.range r.len).foldl (fun S b => S.setNum c (S (r.node, r.beg + b))) S

/-- `Distr<T>(from, to)` / `Collect<T>(to, from)`: outer loop over the written range `w`, inner over the read range `r`.
    (`Distr` has the loops nested the other way round; `distrInto` below mirrors that.) -/
def collectAll (S : St) (w r : Rng) : St :=
  (List.range w.len).foldl (fun S a => collectInto S (w.node, w.beg + a) r) S

/-- `Distr<T>(nr1, nr2)`: for every source position, `SetVal` on every target position -/
def distrAll (S : St) (r w : Rng) : St :=
  (List.range r.len).foldl (fun S a =>
    (List.range w.len).foldl (fun S b => S.setNum (w.node, w.beg + b) (S (r.node, r.beg + a))) S) S

/-- `Presolve<kind>` of one link entry (never fails: `PresolveIISEntry` is empty) -/
def preEntry (k : Kind) (e : Entry) (S : St) : St :=
  match e with
  | .copy s d => copyRange S s.node s.beg d.node d.beg s.len       -- `Copy<T>(first, second)`: size of `first`
  | .m2m s d => distrAll S s d
  | .r2s cs ct vs sd =>
    match k with
    | .generic => let v := S cs; (S.setNum ct v).setNum vs v
    | .sol => let S1 := S.setNum ct (S cs); S1.setNum vs (lowerSlack S1 vs.1 sd)
    | .basis => (S.setNum vs (revBasis (S cs))).setNum ct 5       -- BasicStatus::equ
    | .iis => S
    | .lazy => S.setNum ct (S cs)

/-- `Postsolve<kind>` of one link entry; `none` = the C++ raises (unknown IIS status of a slack) -/
def postEntry (k : Kind) (e : Entry) (S : St) : Option St :=
  match e with
  | .copy s d => some (copyRange S d.node d.beg s.node s.beg d.len)  -- `Copy<T>(second, first)`: size of `second`
  | .m2m s d => some (collectAll S s d)
  | .r2s cs ct vs _ =>
    match k with
    | .generic => let S1 := S.setNum cs (S ct); some (S1.setNum cs (S1 vs))
    | .sol => some (S.setNum cs (S ct))
    | .basis => some (S.setNum cs (revBasis (S vs)))
    | .iis => (iisVal (S vs) (S ct)).map (S.setNum cs)
    | .lazy => some S

/-- the flattened link-range list (`brl_`), in registration order, and the declared node sizes -/
structure Graph where
  entries : List Entry
  sizes : List Nat
deriving Repr

def Graph.size (g : Graph) (n : Nat) : Nat := g.sizes.getD n 0

def runEntriesPost (k : Kind) : List Entry → St → Option St
  | [], S => some S
  | e :: es, S => (postEntry k e S).bind (runEntriesPost k es)

/-- `RunPresolve` after load: every link range forwards, entries forwards -/
def runPre (k : Kind) (es : List Entry) (S : St) : St := es.foldl (fun S e => preEntry k e S) S

/-- `RunPostsolve` after load: link ranges backwards, entries of a range backwards -/
def runPost (k : Kind) (es : List Entry) (S : St) : Option St := runEntriesPost k es.reverse S

/-- `CleanUpValueNodes`: every registered node is re-zeroed -/
def clean (_ : St) : St := ⟨fun _ => 0⟩

/-- `ValueNode::operator=(vector)`: copy, then `resize(Size())` (cut off / zero-fill) -/
def resized (v : List Val) (size : Nat) (i : Nat) : Val := if i < size then v.getD i 0 else 0

/-- `src_ = mv` / `dest_ = mv`: the nodes named in `inputs` receive the resized vectors -/
def loadInto (S : St) (sizes : Nat → Nat) (inputs : List (Nat × List Val)) : St :=
  ⟨fun c => match inputs.lookup c.1 with
    | some v => resized v (sizes c.1) c.2
    | none => S c⟩

/-- the array of node `n` as returned to the caller -/
def readNode (S : St) (n size : Nat) : List Val := (List.range size).map fun i => S (n, i)

inductive Dir | pre | post
deriving DecidableEq, Repr

structure Call where
  dir : Dir
  kind : Kind
  inputs : List (Nat × List Val)
deriving Repr

/-- one `Presolve<kind>(mv)` / `Postsolve<kind>(mv)` call on a presolver whose nodes hold `prev`
    (left over from earlier calls). Returns the new node contents (unspecified junk after a raise). -/
def runFrom (g : Graph) (prev : St) (c : Call) : Option St :=
  let S0 := loadInto (clean prev) g.size c.inputs
  match c.dir with
  | .pre => some (runPre c.kind g.entries S0)
  | .post => runPost c.kind g.entries S0

/-- a whole session: the node contents are threaded through the calls; results of every call -/
def session (g : Graph) : St → List Call → List (Option St)
  | _, [] => []
  | prev, c :: cs =>
    let r := runFrom g prev c
    r :: session g (r.getD prev) cs

/-- `ValuePresolver::PresolveSolution`: the returned variable vector is moved into the bounds (a copy; nodes unchanged) -/
def clampVal (lb ub : Option Val) (x : Val) : Val :=
  match lb with
  | some l => if x < l then l else
      (match ub with | some u => if u < x then u else x | none => x)
  | none => (match ub with | some u => if u < x then u else x | none => x)

def clampVec (lbs ubs : List (Option Val)) (x : List Val) : List Val :=
  (List.range x.length).map fun i => clampVal (lbs.getD i none) (ubs.getD i none) (x.getD i 0)

/-! ## `mip:round`: the post-processing of the postsolved primal vector in `StdBackend::ReportSolution2AMPL` -/

/-- `std::round`: to the nearest integer, halfway cases away from zero -/
def roundHalfAway (x : Val) : Val :=
  if 0 ≤ x then (((x + 1/2).floor : Int) : Val) else -((((-x) + 1/2).floor : Int) : Val)

/-- `std::fabs` -/
def absVal (x : Val) : Val := if x < 0 then -x else x

/-- `DoRound`: values are changed only when bit 1 of the option is set -/
def roundAssign (r : Int) : Bool := decide (r % 2 ≠ 0)

def roundElem (fAssign isInt : Bool) (x : Val) : Val := if isInt = true ∧ fAssign = true then roundHalfAway x else x

/-- the primal vector written to the .sol file: `x` = the postsolved solver values, `isInt` = integrality of the original variables,
    `r` = option `mip:round`, `solved` = `IsProblemSolvedOrFeasible()` -/
def roundStep (r : Int) (isMIP solved : Bool) (isInt : List Bool) (x : List Val) : List Val :=
  if r ≠ 0 ∧ isMIP = true ∧ solved = true then
    (List.range x.length).map (fun j => if j < isInt.length then roundElem (roundAssign r) (isInt.getD j false) (x.getD j 0) else x.getD j 0)
  else x

/-- number of integer variables the message reports -/
def roundCount (isInt : List Bool) (x : List Val) : Nat :=
  ((List.range (min isInt.length x.length)).filter (fun j => isInt.getD j false && decide (x.getD j 0 ≠ roundHalfAway (x.getD j 0)))).length

/-! ## decidable well-formedness of a real graph -/

/-- cells written by an entry in a postsolve run (its source side) -/
def Entry.postWrites : Entry → Cell → Bool
  | .copy s d, c => (⟨s.node, s.beg, d.len⟩ : Rng).has c
  | .m2m s _, c => s.has c
  | .r2s cs _ _ _, c => c == cs

/-- cells written by an entry in a presolve run (its target side) -/
def Entry.preWrites : Entry → Cell → Bool
  | .copy s d, c => (⟨d.node, d.beg, s.len⟩ : Rng).has c
  | .m2m _ d, c => d.has c
  | .r2s _ ct vs _, c => c == ct || c == vs

def Rng.inBounds (g : Graph) (r : Rng) : Bool := decide (r.beg + r.len ≤ g.size r.node)
def cellInBounds (g : Graph) (c : Cell) : Bool := decide (c.2 < g.size c.1)

/-- every range lies inside the declared node size; copy ranges have equal length and distinct nodes;
    `m2m` reads and writes different nodes; the three cells of `r2s` are on three different nodes -/
def Entry.ok (g : Graph) : Entry → Bool
  | .copy s d => s.inBounds g && d.inBounds g && s.len == d.len && s.node != d.node
  | .m2m s d => s.inBounds g && d.inBounds g && s.node != d.node
  | .r2s cs ct vs sd => cellInBounds g cs && cellInBounds g ct && cellInBounds g vs &&
      cs.1 != ct.1 && cs.1 != vs.1 && ct.1 != vs.1 &&
      sd.lin.all (fun t => decide (t.2 < g.size vs.1)) &&
      sd.quad.all (fun t => decide (t.2.1 < g.size vs.1) && decide (t.2.2 < g.size vs.1))

def Graph.inBounds (g : Graph) : Bool := g.entries.all (Entry.ok g)

/-- the node ids on the source side / target side of an entry -/
def Entry.srcNodes : Entry → List Nat
  | .copy s _ => [s.node] | .m2m s _ => [s.node] | .r2s cs _ _ _ => [cs.1]
def Entry.dstNodes : Entry → List Nat
  | .copy _ d => [d.node] | .m2m _ d => [d.node] | .r2s _ ct vs _ => [ct.1, vs.1]

/-- H1–H3 of the design: the first registered entry copies the `n` original variables `sv[0,n) → dv[0,n)`;
    no other entry has `sv` or `dv` on its source side, and no other entry writes `dv[0,n)` in a presolve run -/
def Graph.wfVars (g : Graph) (sv dv n : Nat) : Bool :=
  match g.entries with
  | .copy s d :: rest =>
      s == ⟨sv, 0, n⟩ && d == ⟨dv, 0, n⟩ && sv != dv && decide (n ≤ g.size dv) &&
      rest.all (fun e => !e.srcNodes.contains sv && !e.srcNodes.contains dv &&
                         (List.range n).all (fun j => !e.preWrites (dv, j)))
  | _ => false

/-- `wfVars` and: the source variable node has exactly `n` entries (one per original variable) -/
def Graph.wfVarsExact (g : Graph) (sv dv n : Nat) : Bool := g.wfVars sv dv n && g.size sv == n

end MpVerif.C04

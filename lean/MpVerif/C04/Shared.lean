import MpVerif.C04.Lemmas
import MpVerif.C04.Trace
import MpVerif.C04.Chains
/-! Items shared by several original items: the max-among-non-zero rule through Many2Many-family links. -/
namespace MpVerif.C04

/-! ### `SetNum` is "max among non-zero" -/

theorem setNumVal_mono (cur v : Val) (h : cur ≠ 0) : setNumVal cur v ≠ 0 ∧ cur ≤ setNumVal cur v := by
  unfold setNumVal
  simp only [h, ne_eq, not_false_eq_true, if_true]
  split
  · rename_i h1; exact ⟨h1.2, Rat.le_of_lt h1.1⟩
  · exact ⟨h, Rat.le_refl⟩

theorem setNumVal_ge_arg (cur v : Val) (h : v ≠ 0) : setNumVal cur v ≠ 0 ∧ v ≤ setNumVal cur v := by
  unfold setNumVal
  by_cases hc : cur = 0
  · simp [hc, h]
  · simp only [hc, ne_eq, not_false_eq_true, if_true]
    split
    · exact ⟨h, Rat.le_refl⟩
    · rename_i h1
      refine ⟨hc, ?_⟩
      have : ¬ cur < v := fun hlt => h1 ⟨hlt, h⟩
      exact Rat.not_lt.mp this

theorem foldSet_mono (vs : List Val) (acc : Val) (h : acc ≠ 0) :
    vs.foldl setNumVal acc ≠ 0 ∧ acc ≤ vs.foldl setNumVal acc := by
  induction vs generalizing acc with
  | nil => exact ⟨h, Rat.le_refl⟩
  | cons v vs ih =>
    simp only [List.foldl_cons]
    have h1 := setNumVal_mono acc v h
    have h2 := ih (setNumVal acc v) h1.1
    exact ⟨h2.1, Rat.le_trans h1.2 h2.2⟩

/-- every non-zero contribution is dominated by the result, which is then non-zero -/
theorem foldSet_mem (vs : List Val) (acc v : Val) (hv : v ∈ vs) (h : v ≠ 0) :
    vs.foldl setNumVal acc ≠ 0 ∧ v ≤ vs.foldl setNumVal acc := by
  induction vs generalizing acc with
  | nil => cases hv
  | cons w vs ih =>
    simp only [List.foldl_cons]
    cases hv with
    | head =>
      have h1 := setNumVal_ge_arg acc v h
      have h2 := foldSet_mono vs (setNumVal acc v) h1.1
      exact ⟨h2.1, Rat.le_trans h1.2 h2.2⟩
    | tail _ hv' => exact ih _ hv'

/-- … and the result is one of the contributions (or the initial value) -/
theorem foldSet_in (vs : List Val) (acc : Val) : vs.foldl setNumVal acc = acc ∨ vs.foldl setNumVal acc ∈ vs := by
  induction vs generalizing acc with
  | nil => exact Or.inl rfl
  | cons v vs ih =>
    simp only [List.foldl_cons]
    rcases ih (setNumVal acc v) with h | h
    · rw [h]
      unfold setNumVal
      split
      · split
        · exact Or.inr (List.mem_cons_self ..)
        · exact Or.inl rfl
      · exact Or.inr (List.mem_cons_self ..)
    · exact Or.inr (List.mem_cons_of_mem _ h)

/-! ### collect (postsolve of a Many2Many-family entry) -/

theorem collectInto_mono (S : St) (c : Cell) (r : Rng) (u : Cell) (h : S u ≠ 0) :
    collectInto S c r u ≠ 0 ∧ S u ≤ collectInto S c r u := by
  unfold collectInto
  generalize List.range r.len = l
  induction l generalizing S with
  | nil => exact ⟨h, Rat.le_refl⟩
  | cons b bs ih =>
    simp only [List.foldl_cons]
    have h1 : (S.setNum c (S (r.node, r.beg + b))) u ≠ 0 ∧ S u ≤ (S.setNum c (S (r.node, r.beg + b))) u := by
      by_cases hc : u = c
      · subst hc; rw [St.setNum_same]; exact setNumVal_mono _ _ h
      · rw [St.setNum_other _ _ hc]; exact ⟨h, Rat.le_refl⟩
    have h2 := ih _ h1.1
    exact ⟨h2.1, Rat.le_trans h1.2 h2.2⟩

theorem collectInto_at (S : St) (c : Cell) (r : Rng) (hne : c.1 ≠ r.node) :
    collectInto S c r c = ((List.range r.len).map (fun b => S (r.node, r.beg + b))).foldl setNumVal (S c) := by
  unfold collectInto
  rw [List.foldl_map]
  generalize List.range r.len = l
  induction l generalizing S with
  | nil => rfl
  | cons b bs ih =>
    simp only [List.foldl_cons]
    rw [ih]
    have hcell : ∀ b', (S.setNum c (S (r.node, r.beg + b))) (r.node, r.beg + b') = S (r.node, r.beg + b') := by
      intro b'
      apply St.setNum_other
      intro h; apply hne; rw [← h]
    simp only [hcell, St.setNum_same]

theorem collectInto_reach (S : St) (c : Cell) (r : Rng) (hne : c.1 ≠ r.node) (t : Cell) (ht : r.has t = true)
    (h : S t ≠ 0) : collectInto S c r c ≠ 0 ∧ S t ≤ collectInto S c r c := by
  rw [collectInto_at S c r hne]
  apply foldSet_mem
  · rw [Rng.has_iff] at ht
    obtain ⟨h1, h2, h3⟩ := ht
    rw [List.mem_map]
    refine ⟨t.2 - r.beg, List.mem_range.mpr (by omega), ?_⟩
    have : r.beg + (t.2 - r.beg) = t.2 := by omega
    rw [this, ← h1]
  · exact h

theorem collectAll_mono (S : St) (w r : Rng) (u : Cell) (h : S u ≠ 0) :
    collectAll S w r u ≠ 0 ∧ S u ≤ collectAll S w r u := by
  unfold collectAll
  generalize List.range w.len = l
  induction l generalizing S with
  | nil => exact ⟨h, Rat.le_refl⟩
  | cons a as ih =>
    simp only [List.foldl_cons]
    have h1 := collectInto_mono S (w.node, w.beg + a) r u h
    have h2 := ih _ h1.1
    exact ⟨h2.1, Rat.le_trans h1.2 h2.2⟩

theorem collectAll_reach (S : St) (w r : Rng) (hne : w.node ≠ r.node) (u t : Cell)
    (hu : w.has u = true) (ht : r.has t = true) (h : S t ≠ 0) :
    collectAll S w r u ≠ 0 ∧ S t ≤ collectAll S w r u := by
  unfold collectAll
  rw [Rng.has_iff] at hu
  obtain ⟨hu1, hu2, hu3⟩ := hu
  have hmem : (u.2 - w.beg) ∈ List.range w.len := List.mem_range.mpr (by omega)
  have hucell : u = (w.node, w.beg + (u.2 - w.beg)) := by
    have : w.beg + (u.2 - w.beg) = u.2 := by omega
    rw [this, ← hu1]
  have htn : t.1 = r.node := ((Rng.has_iff r t).mp ht).1
  revert hmem
  generalize List.range w.len = l
  induction l generalizing S with
  | nil => intro hm; cases hm
  | cons a as ih =>
    intro hm
    simp only [List.foldl_cons]
    by_cases ha : a = u.2 - w.beg
    · -- this step collects into `u`
      have hstep := collectInto_reach S (w.node, w.beg + a) r (by simpa using hne) t ht h
      have hu' : (w.node, w.beg + a) = u := by rw [ha]; exact hucell.symm
      rw [hu'] at hstep
      have hrest : ∀ (l' : List Nat) (S1 : St), S1 u ≠ 0 →
          (l'.foldl (fun S a => collectInto S (w.node, w.beg + a) r) S1) u ≠ 0 ∧
          S1 u ≤ (l'.foldl (fun S a => collectInto S (w.node, w.beg + a) r) S1) u := by
        intro l'
        induction l' with
        | nil => intro S1 h1; exact ⟨h1, Rat.le_refl⟩
        | cons a' as' ih' =>
          intro S1 h1
          simp only [List.foldl_cons]
          have g1 := collectInto_mono S1 (w.node, w.beg + a') r u h1
          have g2 := ih' _ g1.1
          exact ⟨g2.1, Rat.le_trans g1.2 g2.2⟩
      rw [hu']
      have g := hrest as _ hstep.1
      exact ⟨g.1, Rat.le_trans hstep.2 g.2⟩
    · -- another target cell: `t` (on node `r.node`) is untouched
      have hm' : (u.2 - w.beg) ∈ as := by
        cases hm with
        | head => exact absurd rfl ha
        | tail _ h' => exact h'
      have ht' : collectInto S (w.node, w.beg + a) r t = S t := by
        apply collectInto_frame
        intro hc
        apply hne
        rw [← htn, hc]
      have := ih (collectInto S (w.node, w.beg + a) r) (by rw [ht']; exact h) hm'
      rw [ht'] at this
      exact this

/-! ### distribute (presolve of a One2Many entry: one source cell) -/

theorem distrInner_spec (S : St) (r0 : Cell) (wn wb : Nat) (hne : r0.1 ≠ wn) (n : Nat) :
    (∀ j, j < n → ((List.range n).foldl (fun S b => S.setNum (wn, wb + b) (S r0)) S) (wn, wb + j)
        = setNumVal (S (wn, wb + j)) (S r0)) ∧
    (∀ c : Cell, ¬ (c.1 = wn ∧ wb ≤ c.2 ∧ c.2 < wb + n) →
        ((List.range n).foldl (fun S b => S.setNum (wn, wb + b) (S r0)) S) c = S c) := by
  induction n with
  | zero =>
    constructor
    · intro j hj; omega
    · intro c _; rfl
  | succ n ih =>
    obtain ⟨ih1, ih2⟩ := ih
    have hr0 : ((List.range n).foldl (fun S b => S.setNum (wn, wb + b) (S r0)) S) r0 = S r0 :=
      ih2 r0 (fun h => hne h.1)
    constructor
    · intro j hj
      simp only [List.range_succ, List.foldl_append, List.foldl_cons, List.foldl_nil]
      by_cases hjn : j = n
      · subst hjn
        rw [St.setNum_same, hr0, ih2 (wn, wb + j) (by simp)]
      · have hc : (wn, wb + j) ≠ (wn, wb + n) := by
          intro h; simp at h; exact hjn h
        rw [St.setNum_other _ _ hc]
        exact ih1 j (by omega)
    · intro c hc
      simp only [List.range_succ, List.foldl_append, List.foldl_cons, List.foldl_nil]
      have hcn : c ≠ (wn, wb + n) := by
        intro h; apply hc; subst h; simp
      rw [St.setNum_other _ _ hcn]
      exact ih2 c (fun h => hc ⟨h.1, h.2.1, by omega⟩)

theorem distrAll_single (S : St) (r w : Rng) (hlen : r.len = 1) (hne : r.node ≠ w.node) (t : Cell)
    (ht : w.has t = true) : distrAll S r w t = setNumVal (S t) (S (r.node, r.beg)) := by
  unfold distrAll
  rw [hlen]
  simp only [List.range_one, List.foldl_cons, List.foldl_nil, Nat.add_zero]
  rw [Rng.has_iff] at ht
  obtain ⟨h1, h2, h3⟩ := ht
  have hcell : t = (w.node, w.beg + (t.2 - w.beg)) := by
    have : w.beg + (t.2 - w.beg) = t.2 := by omega
    rw [this, ← h1]
  have := (distrInner_spec S (r.node, r.beg) w.node w.beg hne w.len).1 (t.2 - w.beg) (by omega)
  rw [← hcell] at this
  exact this

/-! ### the two soundness theorems -/

/-- Presolve: a cell that (through copies) is fed only by One2Many entries receives the max-among-non-zero
    (`foldl setNumVal 0`) of the values given for ALL the linked source items. -/
theorem m2mSourcesRev_sound (k : Kind) (zero : Cell → Bool) (S0 : St) (hz : ∀ c, zero c = true → S0 c = 0)
    (L : List Entry) : ∀ (t : Cell) (us : List Cell),
    m2mSourcesRev zero L t = some us → (∀ u ∈ us, ∀ e ∈ L, e.preWrites u = false) →
    runPre k L.reverse S0 t = (us.map (fun u => S0 u)).foldl setNumVal 0 := by
  induction L with
  | nil =>
    intro t us h _
    simp only [m2mSourcesRev] at h
    by_cases hzt : zero t = true
    · simp only [hzt, if_true, Option.some.injEq] at h
      subst h
      simpa [runPre] using hz t hzt
    · simp [hzt] at h
  | cons e B ih =>
    intro t us h hsrc
    rw [List.reverse_cons, runPre_snoc]
    have hsrcB : ∀ us' : List Cell, (∀ u ∈ us', u ∈ us) → ∀ u ∈ us', ∀ e' ∈ B, e'.preWrites u = false :=
      fun us' hsub u hu e' he' => hsrc u (hsub u hu) e' (List.mem_cons_of_mem _ he')
    cases e with
    | copy s d =>
      simp only [m2mSourcesRev] at h
      by_cases hw : (Entry.copy s d).preWrites t = true
      · simp only [hw, if_true] at h
        by_cases hne : s.node ≠ d.node
        · simp only [hne, ne_eq, not_false_eq_true, if_true] at h
          obtain ⟨hc, hj⟩ := preWrites_copy_decomp s d t hw
          simp only [preEntry]
          rw [hc, copyRange_spec _ s.node s.beg d.node d.beg s.len hne _ hj]
          exact ih _ us h (hsrcB us (fun _ hu => hu))
        · simp [hne] at h
      · have hw' : (Entry.copy s d).preWrites t = false := by simpa using hw
        simp only [hw', Bool.false_eq_true, if_false] at h
        rw [preEntry_frame k _ _ t hw']
        exact ih t us h (hsrcB us (fun _ hu => hu))
    | r2s cs ct vs sd =>
      simp only [m2mSourcesRev] at h
      by_cases hw : (Entry.r2s cs ct vs sd).preWrites t = true
      · simp [hw] at h
      · have hw' : (Entry.r2s cs ct vs sd).preWrites t = false := by simpa using hw
        simp only [hw', Bool.false_eq_true, if_false] at h
        rw [preEntry_frame k _ _ t hw']
        exact ih t us h (hsrcB us (fun _ hu => hu))
    | m2m s d =>
      simp only [m2mSourcesRev] at h
      by_cases hw : (Entry.m2m s d).preWrites t = true
      · simp only [hw, if_true] at h
        by_cases hc : s.len = 1 ∧ s.node ≠ d.node
        · simp only [hc, ne_eq, not_false_eq_true, and_self, if_true, Option.map_eq_some_iff] at h
          obtain ⟨us', hus', hus⟩ := h
          subst hus
          have hd : d.has t = true := by simpa [Entry.preWrites] using hw
          simp only [preEntry]
          rw [distrAll_single _ s d hc.1 hc.2 t hd]
          have hB := ih t us' hus' (hsrcB us' (fun u hu => List.mem_append_left _ hu))
          have hu0 : runPre k B.reverse S0 (s.node, s.beg) = S0 (s.node, s.beg) := by
            apply runPre_frame
            intro e' he'
            exact hsrc (s.node, s.beg) (List.mem_append_right _ (List.mem_singleton.mpr rfl)) e'
              (List.mem_cons_of_mem _ (List.mem_reverse.mp he'))
          rw [hB, hu0]
          simp [List.foldl_append]
        · simp [hc] at h
      · have hw' : (Entry.m2m s d).preWrites t = false := by simpa using hw
        simp only [hw', Bool.false_eq_true, if_false] at h
        rw [preEntry_frame k _ _ t hw']
        exact ih t us h (hsrcB us (fun _ hu => hu))

theorem mem_takeWhile_true {α} (p : α → Bool) (l : List α) (a : α) (h : a ∈ l.takeWhile p) : p a = true := by
  induction l with
  | nil => simp at h
  | cons x xs ih =>
    simp only [List.takeWhile_cons] at h
    by_cases hx : p x = true
    · simp only [hx, if_true, List.mem_cons] at h
      rcases h with h | h
      · rw [h]; exact hx
      · exact ih h
    · simp [hx] at h

theorem runPost_append (k : Kind) (A B : List Entry) (S : St) :
    runPost k (A ++ B) S = (runPost k B S).bind (runPost k A) := by
  simp only [runPost, List.reverse_append, runEntriesPost_append]
  rfl

theorem postEntry_r2s_mono (k : Kind) (cs ct vs : Cell) (sd : SlackData) (S S' : St) (u : Cell)
    (h : postEntry k (.r2s cs ct vs sd) S = some S') (hu : S u ≠ 0) : S' u ≠ 0 ∧ S u ≤ S' u := by
  by_cases hc : u = cs
  · subst hc
    cases k <;> simp only [postEntry, Option.some.injEq, Option.map_eq_some_iff] at h
    · subst h
      simp only [St.setNum_same]
      have h1 := setNumVal_mono (S u) (S ct) hu
      have h2 := setNumVal_mono _ ((S.setNum u (S ct)) vs) h1.1
      exact ⟨h2.1, Rat.le_trans h1.2 h2.2⟩
    · subst h; simp only [St.setNum_same]; exact setNumVal_mono _ _ hu
    · subst h; simp only [St.setNum_same]; exact setNumVal_mono _ _ hu
    · obtain ⟨v, _, h⟩ := h; subst h; simp only [St.setNum_same]; exact setNumVal_mono _ _ hu
    · subst h; exact ⟨hu, Rat.le_refl⟩
  · have hw : (Entry.r2s cs ct vs sd).postWrites u = false := by simp [Entry.postWrites, hc]
    rw [postEntry_frame k _ S S' u hw h]
    exact ⟨hu, Rat.le_refl⟩

/-- Postsolve: a non-zero value the solver reports for a shared item `t` reaches EVERY original item `u` that has a
    Many2Many-family link to it (and is not overwritten by a copy afterwards): `u` ends non-zero and at least that value. -/
theorem reachPost_sound (k : Kind) (S0 : St) (L : List Entry) : ∀ (u t : Cell) (S' : St),
    reachPost L u t = true → (∀ e ∈ L, e.postWrites t = false) → runPost k L S0 = some S' → S0 t ≠ 0 →
    S' u ≠ 0 ∧ S0 t ≤ S' u := by
  induction L with
  | nil => intro u t S' h; simp [reachPost] at h
  | cons e B ih =>
    intro u t S' h hnw hrun ht
    rw [runPost_cons] at hrun
    cases hB : runPost k B S0 with
    | none => simp [hB] at hrun
    | some S1 =>
      simp only [hB, Option.bind_some] at hrun
      have hnwB : ∀ e' ∈ B, e'.postWrites t = false := fun e' he' => hnw e' (List.mem_cons_of_mem _ he')
      have ht1 : S1 t = S0 t := runPost_frame k B S0 S1 t hnwB hB
      cases e with
      | copy s d =>
        simp only [reachPost] at h
        by_cases hw : (Entry.copy s d).postWrites u = true
        · simp [hw] at h
        · have hw' : (Entry.copy s d).postWrites u = false := by simpa using hw
          simp only [hw', Bool.false_eq_true, if_false] at h
          rw [postEntry_frame k _ S1 S' u hw' hrun]
          exact ih u t S1 h hnwB hB ht
      | r2s cs ct vs sd =>
        simp only [reachPost] at h
        have h1 := ih u t S1 h hnwB hB ht
        have h2 := postEntry_r2s_mono k cs ct vs sd S1 S' u hrun h1.1
        exact ⟨h2.1, Rat.le_trans h1.2 h2.2⟩
      | m2m s d =>
        simp only [reachPost] at h
        simp only [postEntry, Option.some.injEq] at hrun
        subst hrun
        by_cases hsu : s.has u = true
        · by_cases hne : s.node ≠ d.node
          · have hcond : (s.has u && s.node != d.node) = true := by simp [hsu, hne]
            simp only [hcond, if_true, Bool.or_eq_true] at h
            rcases h with hdt | hrec
            · have := collectAll_reach S1 s d hne u t hsu hdt (by rw [ht1]; exact ht)
              rw [ht1] at this
              exact this
            · have h1 := ih u t S1 hrec hnwB hB ht
              have h2 := collectAll_mono S1 s d u h1.1
              exact ⟨h2.1, Rat.le_trans h1.2 h2.2⟩
          · have : s.node = d.node := by simpa using hne
            simp [hsu, this] at h
        · have hsu' : s.has u = false := by simpa using hsu
          simp only [hsu', Bool.false_and, Bool.false_eq_true, if_false] at h
          rw [collectAll_frame S1 s d u hsu']
          exact ih u t S1 h hnwB hB ht

end MpVerif.C04

/-
  Micro-language for the CONTROL STRUCTURE of the value presolver, the target of `translators/gen_valcvt.py`:

  * `RunStmt`   — the statements of `ValuePresolverImpl::RunPresolve / RunPostsolve` (clean the nodes, load the argument, loop over the
                  link ranges in a direction calling `fn`, return a side);
  * `HelperProg`— the range helpers of `CopyLink` (`CopySrcDest`, `CopyDestSrc`) and `Many2ManyLink` (`DistributeFromSrc2Dest`,
                  `CollectFromDest2Src`): direction of the loop over the entries of the range, function called per entry, which of
                  `br.first` / `br.second` is passed as 1st / 2nd argument;
  * `M2MWrites` — which parameter of `Distr(nr1, nr2)` / `Collect(nr1, nr2)` receives `SetVal`;
  * `IndivLoop` — the macro-generated loops of `BasicIndivEntryLink` (`RangeCon2Slack`'s base): direction, per-entry method called.

  The interpreter `execRun` gives these programmes a meaning on the model's state; `Props.lean` proves that the GENERATED programmes mean
  exactly `runFromReg` (for every graph, memory and call).
-/
import MpVerif.C04.Registered

namespace MpVerif.C04

inductive LoopDir | fwd | bwd
deriving DecidableEq, Repr

inductive Side | src | dest
deriving DecidableEq, Repr

inductive RunStmt
  | cleanNodes                  -- `CleanUpValueNodes();`
  | load (s : Side)             -- `src_ = mv;` / `dest_ = mv;`
  | loopRanges (d : LoopDir)    -- `for (br : brl_) (br.b_.*fn)(br.ir_);` / the same with `rbegin()..rend()`
  | ret (s : Side)              -- `return dest_;` / `return src_;`
deriving DecidableEq, Repr

inductive EPos | first | second
deriving DecidableEq, Repr

inductive Prim | copy | distr | collect
deriving DecidableEq, Repr

structure HelperProg where
  dir : LoopDir
  prim : Prim
  a : EPos
  b : EPos
deriving DecidableEq, Repr

inductive NParam | nr1 | nr2
deriving DecidableEq, Repr

structure M2MWrites where
  distr : NParam
  collect : NParam
deriving DecidableEq, Repr

/-- everything the translator extracts about the control structure -/
structure RunTables where
  runPre : List RunStmt
  runPost : List RunStmt
  /-- (class, method, programme of the helper the method calls) for `CopyLink` and `Many2ManyLink` -/
  linkProgs : List (String × String × HelperProg)
  writes : M2MWrites
  /-- `BasicIndivEntryLink`: (method, loop direction, per-entry method called) -/
  indivLoops : List (String × LoopDir × String)
  /-- public methods of `ValuePresolverImpl`: (method, run function it calls, `BasicLink` method whose pointer it passes as `fn`) -/
  entryPoints : List (String × String × String)

def kindName : Kind → String
  | .generic => "GenericDbl"
  | .sol => "Solution"
  | .basis => "Basis"
  | .iis => "IIS"
  | .lazy => "LazyUserCutFlags"

def dirName : Dir → String
  | .pre => "Presolve"
  | .post => "Postsolve"

/-- the public method of `ValuePresolverImpl` a call of the model stands for; also the name of the `BasicLink` method of that kind -/
def methodName (d : Dir) (k : Kind) : String := dirName d ++ kindName k

def orderBy {α : Type} (d : LoopDir) (l : List α) : List α :=
  match d with
  | .fwd => l
  | .bwd => l.reverse

def selPos (p : EPos) (first second : Rng) : Rng :=
  match p with
  | .first => first
  | .second => second

def selParam (p : NParam) (nr1 nr2 : Rng) : Rng :=
  match p with
  | .nr1 => nr1
  | .nr2 => nr2

/-- `Distr<T>(nr1, nr2)`: outer loop over `nr1`, inner over `nr2`, `SetVal(i, val)` on the node of the WRITTEN parameter -/
def distrGen (S : St) (nr1 nr2 : Rng) (wnode : Nat) : St :=
  (List.range nr1.len).foldl (fun S a =>
    (List.range nr2.len).foldl (fun S b => S.setNum (wnode, nr2.beg + b) (S (nr1.node, nr1.beg + a))) S) S

/-- `Collect<T>(nr1, nr2)`: outer loop over `nr1`, inner over `nr2`, `SetVal(i0, vec2.at(i))` on the node of the WRITTEN parameter -/
def collectGen (S : St) (nr1 nr2 : Rng) (wnode : Nat) : St :=
  (List.range nr1.len).foldl (fun S a =>
    (List.range nr2.len).foldl (fun S b => S.setNum (wnode, nr1.beg + a) (S (nr2.node, nr2.beg + b))) S) S

/-- one per-entry call of a range helper -/
def execPrim (w : M2MWrites) (p : HelperProg) (first second : Rng) (S : St) : St :=
  let A := selPos p.a first second
  let B := selPos p.b first second
  match p.prim with
  | .copy => copyRange S A.node A.beg B.node B.beg A.len
  | .distr => distrGen S A B (selParam w.distr A B).node
  | .collect => collectGen S A B (selParam w.collect A B).node

/-- the link class an entry of the model belongs to -/
inductive Cls | copyLink | m2mLink | r2sLink
deriving DecidableEq, Repr

def Entry.cls : Entry → Cls
  | .copy _ _ => .copyLink
  | .m2m _ _ => .m2mLink
  | .r2s _ _ _ _ => .r2sLink

def Cls.name : Cls → String
  | .copyLink => "CopyLink"
  | .m2mLink => "Many2ManyLink"
  | .r2sLink => "RangeCon2Slack"

/-- a link range of `brl_`: a link object (its class) and the entries of its index range -/
structure LRange where
  cls : Cls
  entries : List Entry
deriving Repr

def LRange.wf (r : LRange) : Bool := r.entries.all (fun e => e.cls == r.cls)

def lookupProg (T : RunTables) (c : Cls) (m : String) : Option HelperProg :=
  (T.linkProgs.find? (fun t => t.1 == c.name && t.2.1 == m)).map (·.2.2)

def lookupIndiv (T : RunTables) (m : String) : Option (LoopDir × String) :=
  (T.indivLoops.find? (fun t => t.1 == m)).map (·.2)

def execHelperEntry (w : M2MWrites) (p : HelperProg) (e : Entry) (S : St) : St :=
  match e with
  | .copy s d => execPrim w p s d S
  | .m2m s d => execPrim w p s d S
  | .r2s _ _ _ _ => S

/-- `(br.b_.*fn)(br.ir_)` for one link range, `fn` = the NAME of the `BasicLink` method whose pointer was passed: virtual dispatch on
    the class of the link; `none` = not translatable / raises.  The per-entry methods of `RangeCon2Slack` have the meaning of the
    model's `preEntry k` / `postEntry k` exactly when they are the `<dir><kind>Entry` ones (`C04_gen_r2s_presolve/_postsolve`). -/
def execRange (T : RunTables) (fn : String) (d : Dir) (k : Kind) (r : LRange) (S : St) : Option St :=
  match r.cls with
  | .r2sLink =>
    match lookupIndiv T fn with
    | none => none
    | some (ld, callee) =>
      if callee = methodName d k ++ "Entry" then
        match d with
        | .pre => some ((orderBy ld r.entries).foldl (fun S e => preEntry k e S) S)
        | .post => runEntriesPost k (orderBy ld r.entries) S
      else none
  | c =>
    match lookupProg T c fn with
    | none => none
    | some p => some ((orderBy p.dir r.entries).foldl (fun S e => execHelperEntry T.writes p e S) S)

def execRanges (T : RunTables) (fn : String) (d : Dir) (k : Kind) : List LRange → St → Option St
  | [], S => some S
  | r :: rs, S => (execRange T fn d k r S).bind (execRanges T fn d k rs)

/-- the side the argument of a call is loaded to / the result is read from -/
def Dir.inSide : Dir → Side
  | .pre => .src
  | .post => .dest
def Dir.outSide : Dir → Side
  | .pre => .dest
  | .post => .src

/-- run the statements; the result is the memory at `return` (`none`: raised, no `return`, or a side that is not the call's) -/
def execStmts (T : RunTables) (g : Graph) (ranges : List LRange) (fn : String) (c : Call) : List RunStmt → St → Option St
  | [], _ => none
  | .cleanNodes :: rest, S => execStmts T g ranges fn c rest (cleanReg g S)
  | .load s :: rest, S => if s = c.dir.inSide then execStmts T g ranges fn c rest (loadInto S g.size c.inputs) else none
  | .loopRanges d :: rest, S => (execRanges T fn c.dir c.kind (orderBy d ranges) S).bind (execStmts T g ranges fn c rest)
  | .ret s :: _, S => if s = c.dir.outSide then some S else none

def lookupEntry (T : RunTables) (m : String) : Option (String × String) :=
  (T.entryPoints.find? (fun t => t.1 == m)).map (·.2)

/-- the body of the run function a public method names -/
def runProg (T : RunTables) (run : String) : Option (List RunStmt) :=
  if run = "RunPresolve" then some T.runPre else if run = "RunPostsolve" then some T.runPost else none

/-- a call of the public method `<dir><kind>(mv)`: its translated body `return <run>(&BasicLink::<fn>, mv);` says which run function
    is executed and which link method is applied to every range -/
def execRun (T : RunTables) (sizes : List Nat) (ranges : List LRange) (prev : St) (c : Call) : Option St :=
  let g : Graph := ⟨(ranges.map (·.entries)).flatten, sizes⟩
  match lookupEntry T (methodName c.dir c.kind) with
  | none => none
  | some (run, fn) =>
    match runProg T run with
    | none => none
    | some prog => execStmts T g ranges fn c prog prev

end MpVerif.C04

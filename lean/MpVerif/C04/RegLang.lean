import MpVerif.C04.Model
/-!
# C04 — micro-language for node registration and clean-up (meaning of what `gen_valcvt.py` generates from the source)

`RegOp`: what a `ValueNode` constructor / destructor does to the presolver's `val_nodes_` set (element = the node itself).
`NodeOp`: the statements of `ValueNode::CleanUpAndRealloc` on the two numeric arrays of a node.
`CleanLoop`: `CleanUpValueNodes` = for every element of the named set, the `NodeOp`s.
-/
namespace MpVerif.C04

inductive RegOp | insert | erase
deriving DecidableEq, Repr

/-- `val_nodes_` as a duplicate-free list of node ids; `id` = the node executing the constructor / destructor -/
def execRegOps : List RegOp → List Nat → Nat → List Nat
  | [], reg, _ => reg
  | .insert :: r, reg, id => execRegOps r (if id ∈ reg then reg else id :: reg) id
  | .erase :: r, reg, id => execRegOps r (reg.filter (· ≠ id)) id

inductive NumArr | vi | vd
deriving DecidableEq, Repr

inductive NodeOp | clear (a : NumArr) | resizeToSize (a : NumArr)
deriving DecidableEq, Repr

structure NodeArrays where
  vi : List Val
  vd : List Val
deriving DecidableEq

/-- `std::vector::resize(n)`: cut off / zero-fill -/
def resizeList (l : List Val) (n : Nat) : List Val := (l ++ List.replicate n 0).take n

def execNodeOps (size : Nat) : List NodeOp → NodeArrays → NodeArrays
  | [], a => a
  | .clear .vi :: r, a => execNodeOps size r { a with vi := [] }
  | .clear .vd :: r, a => execNodeOps size r { a with vd := [] }
  | .resizeToSize .vi :: r, a => execNodeOps size r { a with vi := resizeList a.vi size }
  | .resizeToSize .vd :: r, a => execNodeOps size r { a with vd := resizeList a.vd size }

structure CleanLoop where
  over : String
  perNode : List NodeOp
deriving DecidableEq

/-- the memory of the presolver: arrays of every node id; `reg` = the set the loop runs over -/
def execClean (loop : CleanLoop) (reg : List Nat) (size : Nat → Nat) (mem : Nat → NodeArrays) : Nat → NodeArrays :=
  fun n => if n ∈ reg then execNodeOps (size n) loop.perNode (mem n) else mem n

end MpVerif.C04

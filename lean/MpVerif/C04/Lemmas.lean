import MpVerif.C04.Model
/-! Helper lemmas for C04: frame properties and closed forms of the entry semantics. -/
namespace MpVerif.C04

@[simp] theorem St.set_same (S : St) (c : Cell) (v : Val) : (S.set c v) c = v := by
  simp [St.set]

theorem St.set_other (S : St) {c c' : Cell} (v : Val) (h : c' ≠ c) : (S.set c v) c' = S c' := by
  simp [St.set, h]

theorem St.setNum_other (S : St) {c c' : Cell} (v : Val) (h : c' ≠ c) : (S.setNum c v) c' = S c' := by
  simp [St.setNum, St.set, h]

@[simp] theorem St.setNum_same (S : St) (c : Cell) (v : Val) : (S.setNum c v) c = setNumVal (S c) v := by
  simp [St.setNum]

@[simp] theorem setNumVal_zero (v : Val) : setNumVal 0 v = v := by
  simp [setNumVal]

theorem Rng.has_iff (r : Rng) (c : Cell) : r.has c = true ↔ c.1 = r.node ∧ r.beg ≤ c.2 ∧ c.2 < r.beg + r.len := by
  simp [Rng.has, and_assoc]

theorem Rng.has_false_iff (r : Rng) (c : Cell) : r.has c = false ↔ ¬ (c.1 = r.node ∧ r.beg ≤ c.2 ∧ c.2 < r.beg + r.len) := by
  rw [← Rng.has_iff]; simp

/-! ### copyRange -/

theorem copyRange_succ (S : St) (sn sb dn db len : Nat) :
    copyRange S sn sb dn db (len + 1) =
      (copyRange S sn sb dn db len).set (dn, db + len) ((copyRange S sn sb dn db len) (sn, sb + len)) := by
  simp [copyRange, List.range_succ, List.foldl_append]

theorem copyRange_frame (S : St) (sn sb dn db len : Nat) (c : Cell)
    (h : ¬ (c.1 = dn ∧ db ≤ c.2 ∧ c.2 < db + len)) : copyRange S sn sb dn db len c = S c := by
  induction len with
  | zero => simp [copyRange]
  | succ n ih =>
    rw [copyRange_succ]
    have hc : c ≠ (dn, db + n) := by
      intro hc; apply h; subst hc; simp
    rw [St.set_other _ _ hc]
    apply ih
    intro ⟨h1, h2, h3⟩; exact h ⟨h1, h2, by omega⟩

theorem copyRange_spec (S : St) (sn sb dn db len : Nat) (hne : sn ≠ dn) (j : Nat) (hj : j < len) :
    copyRange S sn sb dn db len (dn, db + j) = S (sn, sb + j) := by
  induction len with
  | zero => omega
  | succ n ih =>
    rw [copyRange_succ]
    by_cases hjn : j = n
    · subst hjn
      rw [St.set_same]
      apply copyRange_frame
      simp; intro h; exact absurd h hne
    · have hc : (dn, db + j) ≠ (dn, db + n) := by
        intro hc; simp at hc; exact hjn hc
      rw [St.set_other _ _ hc]
      exact ih (by omega)

/-! ### collect / distribute -/

theorem collectInto_frame (S : St) (c : Cell) (r : Rng) (c' : Cell) (h : c' ≠ c) :
    collectInto S c r c' = S c' := by
  unfold collectInto
  generalize List.range r.len = l
  induction l generalizing S with
  | nil => rfl
  | cons b bs ih => simp only [List.foldl_cons]; rw [ih]; exact St.setNum_other _ _ h

theorem collectAll_frame (S : St) (w r : Rng) (c : Cell) (h : w.has c = false) :
    collectAll S w r c = S c := by
  unfold collectAll
  have : ∀ (l : List Nat), (∀ a ∈ l, a < w.len) → ∀ S : St,
      (l.foldl (fun S a => collectInto S (w.node, w.beg + a) r) S) c = S c := by
    intro l
    induction l with
    | nil => intros; rfl
    | cons a as ih =>
      intro hl S
      simp only [List.foldl_cons]
      rw [ih (fun x hx => hl x (List.mem_cons_of_mem _ hx))]
      apply collectInto_frame
      intro hc
      rw [Rng.has_false_iff] at h
      apply h
      have ha := hl a (List.mem_cons_self ..)
      subst hc; simp; omega
  exact this _ (fun a ha => List.mem_range.mp ha) S

theorem distrAll_frame (S : St) (r w : Rng) (c : Cell) (h : w.has c = false) :
    distrAll S r w c = S c := by
  unfold distrAll
  have inner : ∀ (a : Nat) (l : List Nat), (∀ b ∈ l, b < w.len) → ∀ S : St,
      (l.foldl (fun S b => S.setNum (w.node, w.beg + b) (S (r.node, r.beg + a))) S) c = S c := by
    intro a l
    induction l with
    | nil => intros; rfl
    | cons b bs ih =>
      intro hl S
      simp only [List.foldl_cons]
      rw [ih (fun x hx => hl x (List.mem_cons_of_mem _ hx))]
      apply St.setNum_other
      intro hc
      rw [Rng.has_false_iff] at h
      apply h
      have hb := hl b (List.mem_cons_self ..)
      subst hc; simp; omega
  generalize List.range r.len = la
  induction la generalizing S with
  | nil => rfl
  | cons a as ih =>
    simp only [List.foldl_cons]
    rw [ih]
    exact inner a _ (fun b hb => List.mem_range.mp hb) S

/-! ### frame lemmas for entries and runs -/

theorem postEntry_frame (k : Kind) (e : Entry) (S S' : St) (c : Cell)
    (hw : e.postWrites c = false) (h : postEntry k e S = some S') : S' c = S c := by
  cases e with
  | copy s d =>
    simp only [postEntry, Option.some.injEq] at h
    subst h
    apply copyRange_frame
    simp only [Entry.postWrites] at hw
    rw [Rng.has_false_iff] at hw
    exact hw
  | m2m s d =>
    simp only [postEntry, Option.some.injEq] at h
    subst h
    exact collectAll_frame _ _ _ _ hw
  | r2s cs ct vs sd =>
    have hc : c ≠ cs := by
      intro hc; simp [Entry.postWrites, hc] at hw
    cases k <;> simp only [postEntry, Option.some.injEq, Option.map_eq_some_iff] at h
    · subst h; simp [St.setNum_other _ _ hc]
    · subst h; simp [St.setNum_other _ _ hc]
    · subst h; simp [St.setNum_other _ _ hc]
    · obtain ⟨v, _, h⟩ := h; subst h; simp [St.setNum_other _ _ hc]
    · subst h; rfl

theorem preEntry_frame (k : Kind) (e : Entry) (S : St) (c : Cell)
    (hw : e.preWrites c = false) : preEntry k e S c = S c := by
  cases e with
  | copy s d =>
    simp only [preEntry]
    apply copyRange_frame
    simp only [Entry.preWrites] at hw
    rw [Rng.has_false_iff] at hw
    exact hw
  | m2m s d =>
    simp only [preEntry]
    exact distrAll_frame _ _ _ _ hw
  | r2s cs ct vs sd =>
    have h1 : c ≠ ct := by
      intro hc; simp [Entry.preWrites, hc] at hw
    have h2 : c ≠ vs := by
      intro hc; simp [Entry.preWrites, hc] at hw
    cases k <;> simp [preEntry, St.setNum_other _ _ h1, St.setNum_other _ _ h2]

theorem runEntriesPost_append (k : Kind) (as bs : List Entry) (S : St) :
    runEntriesPost k (as ++ bs) S = (runEntriesPost k as S).bind (runEntriesPost k bs) := by
  induction as generalizing S with
  | nil => simp [runEntriesPost]
  | cons a as ih =>
    simp only [List.cons_append, runEntriesPost]
    cases postEntry k a S with
    | none => simp
    | some S1 => simp [ih]

/-- postsolve of `e :: B` (registration order) = postsolve of `B`, then the entry `e` -/
theorem runPost_cons (k : Kind) (e : Entry) (B : List Entry) (S : St) :
    runPost k (e :: B) S = (runPost k B S).bind (postEntry k e) := by
  simp only [runPost, List.reverse_cons, runEntriesPost_append]
  congr 1
  funext S1
  simp only [runEntriesPost]
  cases postEntry k e S1 <;> simp

theorem runPost_nil (k : Kind) (S : St) : runPost k [] S = some S := rfl

theorem runPost_frame (k : Kind) (es : List Entry) (S S' : St) (c : Cell)
    (hw : ∀ e ∈ es, e.postWrites c = false) (h : runPost k es S = some S') : S' c = S c := by
  induction es generalizing S' with
  | nil => simp [runPost_nil] at h; subst h; rfl
  | cons e B ih =>
    rw [runPost_cons] at h
    cases hB : runPost k B S with
    | none => simp [hB] at h
    | some S1 =>
      simp only [hB, Option.bind_some] at h
      rw [postEntry_frame k e S1 S' c (hw e (List.mem_cons_self ..)) h]
      exact ih S1 (fun e he => hw e (List.mem_cons_of_mem _ he)) hB

/-- presolve of `B ++ [e]` = presolve of `B`, then the entry `e` -/
theorem runPre_snoc (k : Kind) (e : Entry) (B : List Entry) (S : St) :
    runPre k (B ++ [e]) S = preEntry k e (runPre k B S) := by
  simp [runPre, List.foldl_append]

theorem runPre_cons (k : Kind) (e : Entry) (B : List Entry) (S : St) :
    runPre k (e :: B) S = runPre k B (preEntry k e S) := rfl

theorem runPre_frame (k : Kind) (es : List Entry) (S : St) (c : Cell)
    (hw : ∀ e ∈ es, e.preWrites c = false) : runPre k es S c = S c := by
  induction es generalizing S with
  | nil => rfl
  | cons e B ih =>
    rw [runPre_cons, ih _ (fun e he => hw e (List.mem_cons_of_mem _ he))]
    exact preEntry_frame k e S c (hw e (List.mem_cons_self ..))

/-- postsolve never fails for kinds other than IIS -/
theorem postEntry_total (k : Kind) (hk : k ≠ .iis) (e : Entry) (S : St) : ∃ S', postEntry k e S = some S' := by
  cases e with
  | copy s d => exact ⟨_, rfl⟩
  | m2m s d => exact ⟨_, rfl⟩
  | r2s cs ct vs sd => cases k <;> first | exact ⟨_, rfl⟩ | exact absurd rfl hk

theorem runPost_total (k : Kind) (hk : k ≠ .iis) (es : List Entry) (S : St) : ∃ S', runPost k es S = some S' := by
  induction es with
  | nil => exact ⟨S, rfl⟩
  | cons e B ih =>
    obtain ⟨S1, h1⟩ := ih
    obtain ⟨S2, h2⟩ := postEntry_total k hk e S1
    exact ⟨S2, by rw [runPost_cons, h1]; simpa using h2⟩

theorem srcNodes_not_postWrites (e : Entry) (n j : Nat) (h : e.srcNodes.contains n = false) :
    e.postWrites (n, j) = false := by
  cases e with
  | copy s d =>
    simp only [Entry.srcNodes, List.contains_cons, List.contains_nil, Bool.or_false, beq_eq_false_iff_ne] at h
    simp only [Entry.postWrites]; rw [Rng.has_false_iff]; simp; intro h1; exact absurd h1 h
  | m2m s d =>
    simp only [Entry.srcNodes, List.contains_cons, List.contains_nil, Bool.or_false, beq_eq_false_iff_ne] at h
    simp only [Entry.postWrites]; rw [Rng.has_false_iff]; simp; intro h1; exact absurd h1 h
  | r2s cs ct vs sd =>
    simp only [Entry.srcNodes, List.contains_cons, List.contains_nil, Bool.or_false, beq_eq_false_iff_ne] at h
    simp only [Entry.postWrites, beq_eq_false_iff_ne]
    intro hc; apply h; rw [← hc]

theorem loadInto_of_lookup (S : St) (sizes : Nat → Nat) (inputs : List (Nat × List Val)) (n : Nat) (x : List Val)
    (h : inputs.lookup n = some x) (j : Nat) : loadInto S sizes inputs (n, j) = resized x (sizes n) j := by
  simp [loadInto, h]

theorem loadInto_of_not_lookup (S : St) (sizes : Nat → Nat) (inputs : List (Nat × List Val)) (c : Cell)
    (h : inputs.lookup c.1 = none) : loadInto S sizes inputs c = S c := by
  simp [loadInto, h]

end MpVerif.C04

import MpVerif.C04.Lemmas
/-!
# C04 — node registration: `CleanUpValueNodes` zeroes exactly the REGISTERED value nodes

`ValuePresolverImpl::CleanUpValueNodes` walks `val_nodes_`, the set in which every `ValueNode` constructor (plain, copy, move)
inserts the node (`RegisterMe`) and from which only the destructor removes it.  In the model the registered nodes are the indices of
`Graph.sizes` (exactly the `val_nodes_` dump of the real presolver, taken on every run); `cleanReg` zeroes those and nothing else.
History independence is then a RESULT: it needs that every node a link entry reads or writes is registered
(`Graph.nodesRegistered`: decidable, checked on every real graph, and proved in `Builder.lean` for every graph built by the modelled
constructors).
-/
namespace MpVerif.C04

def Graph.registered (g : Graph) (n : Nat) : Bool := decide (n < g.sizes.length)

/-- `CleanUpValueNodes`: `CleanUpAndRealloc` for every registered node; other memory is untouched -/
def cleanReg (g : Graph) (S : St) : St := ⟨fun c => if g.registered c.1 then 0 else S c⟩

def Entry.nodes : Entry → List Nat
  | .copy s d => [s.node, d.node]
  | .m2m s d => [s.node, d.node]
  | .r2s cs ct vs _ => [cs.1, ct.1, vs.1]

/-- every node a link entry reads or writes is a registered node -/
def Graph.nodesRegistered (g : Graph) : Bool := g.entries.all (fun e => e.nodes.all g.registered)

/-- one call on a presolver whose nodes hold `prev`: clean the REGISTERED nodes, load, run -/
def runFromReg (g : Graph) (prev : St) (c : Call) : Option St :=
  let S0 := loadInto (cleanReg g prev) g.size c.inputs
  match c.dir with
  | .pre => some (runPre c.kind g.entries S0)
  | .post => runPost c.kind g.entries S0

/-! ### states that agree on a set of nodes -/

def AgreeOn (P : Nat → Bool) (S T : St) : Prop := ∀ c : Cell, P c.1 = true → S c = T c

theorem AgreeOn.set {P : Nat → Bool} {S T : St} (h : AgreeOn P S T) (c : Cell) (v : Val) :
    AgreeOn P (S.set c v) (T.set c v) := by
  intro c' hc'
  by_cases he : c' = c
  · subst he; simp
  · rw [St.set_other _ _ he, St.set_other _ _ he]; exact h c' hc'

theorem AgreeOn.setNum {P : Nat → Bool} {S T : St} (h : AgreeOn P S T) (c : Cell) (hc : P c.1 = true) (v : Val) :
    AgreeOn P (S.setNum c v) (T.setNum c v) := by
  unfold St.setNum
  rw [h c hc]
  exact h.set c _

theorem AgreeOn.copyRange {P : Nat → Bool} {S T : St} (h : AgreeOn P S T) (sn sb dn db len : Nat) (hs : P sn = true) :
    AgreeOn P (copyRange S sn sb dn db len) (copyRange T sn sb dn db len) := by
  induction len with
  | zero => simpa [MpVerif.C04.copyRange] using h
  | succ n ih =>
    rw [copyRange_succ, copyRange_succ, ih (sn, sb + n) hs]
    exact ih.set _ _

theorem AgreeOn.collectInto {P : Nat → Bool} {S T : St} (h : AgreeOn P S T) (c : Cell) (r : Rng)
    (hc : P c.1 = true) (hr : P r.node = true) : AgreeOn P (collectInto S c r) (collectInto T c r) := by
  unfold MpVerif.C04.collectInto
  generalize List.range r.len = l
  induction l generalizing S T with
  | nil => exact h
  | cons b bs ih =>
    simp only [List.foldl_cons]
    apply ih
    rw [h (r.node, r.beg + b) hr]
    exact h.setNum c hc _

theorem AgreeOn.collectAll {P : Nat → Bool} {S T : St} (h : AgreeOn P S T) (w r : Rng)
    (hw : P w.node = true) (hr : P r.node = true) : AgreeOn P (collectAll S w r) (collectAll T w r) := by
  unfold MpVerif.C04.collectAll
  generalize List.range w.len = l
  induction l generalizing S T with
  | nil => exact h
  | cons a as ih =>
    simp only [List.foldl_cons]
    exact ih (h.collectInto (w.node, w.beg + a) r hw hr)

theorem AgreeOn.distrAll {P : Nat → Bool} {S T : St} (h : AgreeOn P S T) (r w : Rng)
    (hr : P r.node = true) (hw : P w.node = true) : AgreeOn P (distrAll S r w) (distrAll T r w) := by
  unfold MpVerif.C04.distrAll
  generalize List.range r.len = la
  induction la generalizing S T with
  | nil => exact h
  | cons a as ih =>
    simp only [List.foldl_cons]
    apply ih
    generalize List.range w.len = lb
    induction lb generalizing S T with
    | nil => exact h
    | cons b bs ihb =>
      simp only [List.foldl_cons]
      apply ihb
      rw [h (r.node, r.beg + a) hr]
      exact h.setNum (w.node, w.beg + b) hw _

theorem AgreeOn.lowerSlack {P : Nat → Bool} {S T : St} (h : AgreeOn P S T) (vn : Nat) (hv : P vn = true) (sd : SlackData) :
    lowerSlack S vn sd = lowerSlack T vn sd := by
  unfold MpVerif.C04.lowerSlack
  have h1 : ∀ (l : List (Val × Nat)) (a : Val),
      l.foldl (fun acc t => acc + t.1 * S (vn, t.2)) a = l.foldl (fun acc t => acc + t.1 * T (vn, t.2)) a := by
    intro l
    induction l with
    | nil => intro a; rfl
    | cons t ts ih => intro a; simp only [List.foldl_cons]; rw [h (vn, t.2) hv]; exact ih _
  have h2 : ∀ (l : List (Val × Nat × Nat)) (a : Val),
      l.foldl (fun acc t => acc + t.1 * S (vn, t.2.1) * S (vn, t.2.2)) a
        = l.foldl (fun acc t => acc + t.1 * T (vn, t.2.1) * T (vn, t.2.2)) a := by
    intro l
    induction l with
    | nil => intro a; rfl
    | cons t ts ih => intro a; simp only [List.foldl_cons]; rw [h (vn, t.2.1) hv, h (vn, t.2.2) hv]; exact ih _
  rw [h1, h2]

theorem nodes_all {P : Nat → Bool} {e : Entry} (h : e.nodes.all P = true) : ∀ n ∈ e.nodes, P n = true := by
  simpa [List.all_eq_true] using h

theorem AgreeOn.preEntry {P : Nat → Bool} {S T : St} (h : AgreeOn P S T) (k : Kind) (e : Entry)
    (he : e.nodes.all P = true) : AgreeOn P (preEntry k e S) (preEntry k e T) := by
  have hn := nodes_all he
  cases e with
  | copy s d => exact h.copyRange _ _ _ _ _ (hn s.node (by simp [Entry.nodes]))
  | m2m s d => exact h.distrAll s d (hn s.node (by simp [Entry.nodes])) (hn d.node (by simp [Entry.nodes]))
  | r2s cs ct vs sd =>
    have hcs := hn cs.1 (by simp [Entry.nodes])
    have hct := hn ct.1 (by simp [Entry.nodes])
    have hvs := hn vs.1 (by simp [Entry.nodes])
    cases k <;> simp only [MpVerif.C04.preEntry]
    · rw [h cs hcs]; exact (h.setNum ct hct _).setNum vs hvs _
    · rw [h cs hcs]
      have h1 := h.setNum ct hct (T cs)
      rw [h1.lowerSlack vs.1 hvs sd]
      exact h1.setNum vs hvs _
    · rw [h cs hcs]; exact (h.setNum vs hvs _).setNum ct hct _
    · exact h
    · rw [h cs hcs]; exact h.setNum ct hct _

/-- both raise, or both return states that agree on `P` -/
def OptAgree (P : Nat → Bool) : Option St → Option St → Prop
  | none, none => True
  | some S, some T => AgreeOn P S T
  | _, _ => False

theorem AgreeOn.postEntry {P : Nat → Bool} {S T : St} (h : AgreeOn P S T) (k : Kind) (e : Entry)
    (he : e.nodes.all P = true) : OptAgree P (postEntry k e S) (postEntry k e T) := by
  have hn := nodes_all he
  cases e with
  | copy s d => exact h.copyRange _ _ _ _ _ (hn d.node (by simp [Entry.nodes]))
  | m2m s d => exact h.collectAll s d (hn s.node (by simp [Entry.nodes])) (hn d.node (by simp [Entry.nodes]))
  | r2s cs ct vs sd =>
    have hcs := hn cs.1 (by simp [Entry.nodes])
    have hct := hn ct.1 (by simp [Entry.nodes])
    have hvs := hn vs.1 (by simp [Entry.nodes])
    cases k <;> simp only [MpVerif.C04.postEntry]
    · have h1 := h.setNum cs hcs (T ct)
      rw [h ct hct, h1 vs hvs]
      exact h1.setNum cs hcs _
    · rw [h ct hct]; exact h.setNum cs hcs _
    · rw [h vs hvs]; exact h.setNum cs hcs _
    · rw [h vs hvs, h ct hct]
      cases iisVal (T vs) (T ct) with
      | none => trivial
      | some v => exact h.setNum cs hcs v
    · exact h

theorem agree_runPre {P : Nat → Bool} (k : Kind) (es : List Entry) (hes : ∀ e ∈ es, e.nodes.all P = true) :
    ∀ S T : St, AgreeOn P S T → AgreeOn P (runPre k es S) (runPre k es T) := by
  induction es with
  | nil => intro S T h; exact h
  | cons e B ih =>
    intro S T h
    rw [runPre_cons, runPre_cons]
    exact ih (fun e' he' => hes e' (List.mem_cons_of_mem _ he')) _ _ (h.preEntry k e (hes e (List.mem_cons_self ..)))

theorem agree_runPost {P : Nat → Bool} (k : Kind) (es : List Entry) (hes : ∀ e ∈ es, e.nodes.all P = true) :
    ∀ S T : St, AgreeOn P S T → OptAgree P (runPost k es S) (runPost k es T) := by
  induction es with
  | nil => intro S T h; exact h
  | cons e B ih =>
    intro S T h
    rw [runPost_cons, runPost_cons]
    have hB := ih (fun e' he' => hes e' (List.mem_cons_of_mem _ he')) S T h
    cases h1 : runPost k B S with
    | none =>
      cases h2 : runPost k B T with
      | none => trivial
      | some T1 => rw [h1, h2] at hB; exact hB.elim
    | some S1 =>
      cases h2 : runPost k B T with
      | none => rw [h1, h2] at hB; exact hB.elim
      | some T1 =>
        rw [h1, h2] at hB
        simp only [Option.bind_some]
        exact AgreeOn.postEntry hB k e (hes e (List.mem_cons_self ..))

end MpVerif.C04

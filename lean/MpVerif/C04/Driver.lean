import MpVerif.C04.Model
import MpVerif.C04.Trace
import MpVerif.C04.Arms
import MpVerif.C04.Builder
/-! Line driver for C04.  One op per line; prints one canonical line per op (`bad-op` if not understood).

    graph <nnodes> <size_0> ... <size_{n-1}>     start a new graph (resets entries, bounds, node contents)
    entry copy <sn> <sb> <sl> <dn> <db> <dl>
    entry m2m  <sn> <sb> <sl> <dn> <db> <dl>
    entry r2s <csn> <csi> <ctn> <cti> <vsn> <vsi> <lb> <nlin> (<c> <v>)* <nquad> (<c> <v1> <v2>)*
    bounds <n> (<lb> <ub>)*                      variable bounds of the flat model, `-` = infinite
    wf <sv> <dv> <n>                             -> `wf <inBounds> <wfVars>`
    call <pre|post> <kind> <clampnode|-> <nin> (<node> <len> <v>*)* <nout> <node>*
                                                 -> `ok <node>: v v v | <node>: ...` or `raise`
         node contents persist between calls (each call = `runFromReg prev`: only the registered nodes are cleaned)
    trace <pre|post> <kind> <node> <idx> <nloaded> <node>*   -> symbolic origin of a cell (see Trace.lean)
    round <r> <ismip> <solved> <nint> <0|1>* <nx> <v>*   -> `round <roundCount> <roundStep …>` (mip:round post-processing)
    roundlast <r> <ismip> <solved> <node> <0|1>*        -> the same applied to node <node> of the state the last `call` returned
    wf2 <ndest> <node>*          -> `wf2 <nodesRegistered> <traceWF (zero = not a loaded target node)>`
    arms on | arms report       instrumentation (Arms.lean): count the model arms taken by the following `call`s
    sources <node> <idx> <nloaded> <node>*   -> `sources ok n:i ...` (m2mSourcesRev + srcsUnwritten) | `sources none` | `sources written`
    reach <kind> <unode> <uidx> <tnode> <tidx> <nloaded> <node>*
          -> `reach <reachPost (entries before the first writer of t) u t> <tracePost of t in the remaining entries>`
-/
open MpVerif.C04

def parseRat (s : String) : Option Rat :=
  match s.splitOn "/" with
  | [a] => a.toInt?.map (fun n => (n : Rat))
  | [a, b] => match a.toInt?, b.toNat? with
    | some n, some d => if d = 0 then none else some (mkRat n d)
    | _, _ => none
  | _ => none

def showRat (r : Rat) : String := if r.den = 1 then toString r.num else s!"{r.num}/{r.den}"

def parseKind : String → Option Kind
  | "generic" => some .generic | "sol" => some .sol | "basis" => some .basis
  | "iis" => some .iis | "lazy" => some .lazy | _ => none

def parseDir : String → Option Dir
  | "pre" => some .pre | "post" => some .post | _ => none

structure DState where
  g : Graph := ⟨[], []⟩
  lbs : List (Option Rat) := []
  ubs : List (Option Rat) := []
  prev : St := ⟨fun _ => 0⟩
  arms : Counts := []
  countArms : Bool := false

def nats (l : List String) : Option (List Nat) := l.mapM String.toNat?
def rats (l : List String) : Option (List Rat) := l.mapM parseRat

/-- parse `<node> <len> v*` groups -/
partial def parseInputs : Nat → List String → Option (List (Nat × List Rat) × List String)
  | 0, rest => some ([], rest)
  | k + 1, n :: len :: rest => do
    let n ← n.toNat?
    let len ← len.toNat?
    if rest.length < len then none
    let vs ← rats (rest.take len)
    let (more, rest') ← parseInputs k (rest.drop len)
    pure ((n, vs) :: more, rest')
  | _, _ => none

def parseBound (s : String) : Option (Option Rat) := if s = "-" then some none else (parseRat s).map some

partial def parseBounds : List String → Option (List (Option Rat) × List (Option Rat))
  | [] => some ([], [])
  | a :: b :: rest => do
    let l ← parseBound a
    let u ← parseBound b
    let (ls, us) ← parseBounds rest
    pure (l :: ls, u :: us)
  | _ => none

partial def parseLin : Nat → List String → Option (List (Rat × Nat) × List String)
  | 0, rest => some ([], rest)
  | k + 1, c :: v :: rest => do
    let c ← parseRat c
    let v ← v.toNat?
    let (more, rest') ← parseLin k rest
    pure ((c, v) :: more, rest')
  | _, _ => none

partial def parseQuad : Nat → List String → Option (List (Rat × Nat × Nat) × List String)
  | 0, rest => some ([], rest)
  | k + 1, c :: v1 :: v2 :: rest => do
    let c ← parseRat c
    let v1 ← v1.toNat?
    let v2 ← v2.toNat?
    let (more, rest') ← parseQuad k rest
    pure ((c, v1, v2) :: more, rest')
  | _, _ => none

def handle (st : DState) (toks : List String) : DState × String :=
  match toks with
  | "graph" :: n :: sizes =>
    match n.toNat?, nats sizes with
    | some n, some sz => if sz.length = n then ({ g := ⟨[], sz⟩, arms := st.arms, countArms := st.countArms }, "graph") else (st, "bad-op")
    | _, _ => (st, "bad-op")
  | ["entry", kind, sn, sb, sl, dn, db, dl] =>
    match nats [sn, sb, sl, dn, db, dl] with
    | some [sn, sb, sl, dn, db, dl] =>
      let s : Rng := ⟨sn, sb, sl⟩
      let d : Rng := ⟨dn, db, dl⟩
      if kind = "copy" then ({ st with g := { st.g with entries := st.g.entries ++ [.copy s d] } }, "entry")
      else if kind = "m2m" then ({ st with g := { st.g with entries := st.g.entries ++ [.m2m s d] } }, "entry")
      else (st, "bad-op")
    | _ => (st, "bad-op")
  | "entry" :: "r2s" :: csn :: csi :: ctn :: cti :: vsn :: vsi :: lb :: nlin :: rest =>
    match nats [csn, csi, ctn, cti, vsn, vsi, nlin], parseRat lb with
    | some [csn, csi, ctn, cti, vsn, vsi, nlin], some lb =>
      match parseLin nlin rest with
      | some (lin, nq :: rest') =>
        match nq.toNat? with
        | some nq =>
          match parseQuad nq rest' with
          | some (quad, []) =>
            ({ st with g := { st.g with entries := st.g.entries ++ [.r2s (csn, csi) (ctn, cti) (vsn, vsi) ⟨lin, quad, lb⟩] } }, "entry")
          | _ => (st, "bad-op")
        | none => (st, "bad-op")
      | _ => (st, "bad-op")
    | _, _ => (st, "bad-op")
  | "bounds" :: n :: rest =>
    match n.toNat?, parseBounds rest with
    | some n, some (ls, us) => if ls.length = n then ({ st with lbs := ls, ubs := us }, "bounds") else (st, "bad-op")
    | _, _ => (st, "bad-op")
  | ["wf", sv, dv, n] =>
    match nats [sv, dv, n] with
    | some [sv, dv, n] => (st, s!"wf {if st.g.inBounds then 1 else 0} {if st.g.wfVarsExact sv dv n then 1 else 0}")
    | _ => (st, "bad-op")
  | "call" :: dir :: kind :: clamp :: nin :: rest =>
    match parseDir dir, parseKind kind, nin.toNat? with
    | some dir, some kind, some nin =>
      match parseInputs nin rest with
      | some (inputs, nout :: outs) =>
        match nout.toNat?, nats outs with
        | some nout, some outs =>
          if outs.length ≠ nout then (st, "bad-op") else
          let r := runFromReg st.g st.prev ⟨dir, kind, inputs⟩
          let st := if st.countArms then { st with arms := armsOfCall st.g ⟨dir, kind, inputs⟩ st.arms } else st
          match r with
          | none => (st, "raise")            -- node contents after a raise are unspecified; next call cleans them
          | some S =>
            let clampNode : Option Nat := clamp.toNat?
            let st := match clampNode with
              | some n => if st.countArms then { st with arms := clampArms st.lbs st.ubs (readNode S n (st.g.size n)) st.arms } else st
              | none => st
            let line := outs.map (fun n =>
              let v := readNode S n (st.g.size n)
              let v := if clampNode = some n then clampVec st.lbs st.ubs v else v
              s!"{n}: " ++ " ".intercalate (v.map showRat))
            ({ st with prev := S }, "ok " ++ " | ".intercalate line)
        | _, _ => (st, "bad-op")
      | _ => (st, "bad-op")
    | _, _, _ => (st, "bad-op")
  | "trace" :: dir :: kind :: node :: idx :: nl :: loaded =>
    match parseDir dir, parseKind kind, nats [node, idx, nl], nats loaded with
    | some dir, some kind, some [node, idx, nl], some loaded =>
      if loaded.length ≠ nl then (st, "bad-op") else
      let zero : Cell → Bool := fun c => !loaded.contains c.1
      let o := match dir with
        | .post => tracePost kind zero st.g.entries (node, idx)
        | .pre => tracePre kind zero st.g.entries.reverse (node, idx)
      (st, "trace " ++ (match o with | some o => o.show | none => "none"))
    | _, _, _, _ => (st, "bad-op")
  | "sources" :: tn :: ti :: nl :: loaded =>
    match nats [tn, ti, nl], nats loaded with
    | some [tn, ti, nl], some loaded =>
      if loaded.length ≠ nl then (st, "bad-op") else
      let zero : Cell → Bool := fun c => !loaded.contains c.1
      match m2mSourcesRev zero st.g.entries.reverse (tn, ti) with
      | some us => if srcsUnwritten st.g.entries us then
            (st, "sources ok " ++ " ".intercalate (us.map (fun u => s!"{u.1}:{u.2}")))
          else (st, "sources written")
      | none => (st, "sources none")
    | _, _ => (st, "bad-op")
  | "reach" :: kind :: un :: ui :: tn :: ti :: nl :: loaded =>
    match parseKind kind, nats [un, ui, tn, ti, nl], nats loaded with
    | some kind, some [un, ui, tn, ti, nl], some loaded =>
      if loaded.length ≠ nl then (st, "bad-op") else
      let zero : Cell → Bool := fun c => !loaded.contains c.1
      let t : Cell := (tn, ti)
      let a := st.g.entries.takeWhile (fun e => !e.postWrites t)
      let b := st.g.entries.dropWhile (fun e => !e.postWrites t)
      let o := tracePost kind zero b t
      (st, s!"reach {if reachPost a (un, ui) t then 1 else 0} " ++ (match o with | some o => o.show | none => "none"))
    | _, _, _ => (st, "bad-op")
  | "round" :: r :: ismip :: solved :: nint :: rest =>
    match r.toInt?, ismip.toNat?, solved.toNat?, nint.toNat? with
    | some r, some ismip, some solved, some nint =>
      match nats (rest.take nint), (rest.drop nint) with
      | some bs, nx :: xs =>
        match nx.toNat?, rats xs with
        | some nx, some xs =>
          if xs.length ≠ nx || bs.length ≠ nint then (st, "bad-op") else
          let isInt := bs.map (· != 0)
          let v := roundStep r (ismip != 0) (solved != 0) isInt xs
          (st, s!"round {roundCount isInt xs} " ++ " ".intercalate (v.map showRat))
        | _, _ => (st, "bad-op")
      | _, _ => (st, "bad-op")
    | _, _, _, _ => (st, "bad-op")
  | "roundlast" :: r :: ismip :: solved :: node :: bits =>
    match r.toInt?, nats [ismip, solved, node], nats bits with
    | some r, some [ismip, solved, node], some bs =>
      let isInt := bs.map (· != 0)
      let x := readNode st.prev node (st.g.size node)
      let v := roundStep r (ismip != 0) (solved != 0) isInt x
      (st, s!"round {roundCount isInt x} " ++ " ".intercalate (v.map showRat))
    | _, _, _ => (st, "bad-op")
  | "wf2" :: nd :: dest =>
    match nd.toNat?, nats dest with
    | some nd, some dest =>
      if dest.length ≠ nd then (st, "bad-op") else
      (st, s!"wf2 {if st.g.nodesRegistered then 1 else 0} {if traceWF (fun c => !dest.contains c.1) st.g.entries then 1 else 0}")
    | _, _ => (st, "bad-op")
  | ["arms", "on"] => ({ st with countArms := true }, "arms on")
  | ["arms", "report"] => (st, "arms " ++ " ".intercalate (st.arms.map (fun kv => s!"{kv.1}={kv.2}")))
  | _ => (st, "bad-op")

partial def loop (h out : IO.FS.Stream) (st : DState) : IO Unit := do
  let line ← h.getLine
  if line.isEmpty then return ()
  let toks := (line.trimAscii.toString.splitOn " ").filter (· ≠ "")
  let (st', res) := handle st toks
  out.putStrLn res
  out.flush
  loop h out st'

def main : IO Unit := do
  loop (← IO.getStdin) (← IO.getStdout) {}

/-! Line driver for C04 (stub; replaced when the model is written). -/
def main : IO Unit := pure ()

import MpVerif.C04.Lemmas
import MpVerif.C04.Chains
/-!
# C04 — property theorems

All statements are about the model in `Model.lean` (tied to the real `ValuePresolver` on every run:
the real link graph of every generated conversion is loaded into the compiled model, the
well-formedness hypotheses used below are evaluated on it, and every real pre/postsolve result
is compared with the model's).  They hold for EVERY graph (any number/kind/order of entries), every
vector length and every call history.
-/
namespace MpVerif.C04

/-! ## Primal values / variable suffixes come back exactly (H1–H3 = `Graph.wfVars`) -/

/-- Postsolve of ANY kind (solution, basis, IIS, generic suffix) on ANY graph whose first entry is the
    copy link of the `n` original variables and where no other entry has the variable nodes on its
    source side: original variable `j` receives exactly the solver's value `x[j]`; a shorter solver
    vector is zero-filled, a longer one cut off — whatever the nodes contained before (`prev`). -/
theorem C04_primal (g : Graph) (sv dv n : Nat) (k : Kind) (inputs : List (Nat × List Val)) (x : List Val)
    (prev S' : St) (hwf : g.wfVars sv dv n = true) (hx : inputs.lookup dv = some x)
    (hrun : runFrom g prev ⟨.post, k, inputs⟩ = some S') :
    readNode S' sv n = (List.range n).map (fun j => x.getD j 0) := by
  unfold Graph.wfVars at hwf
  cases hes : g.entries with
  | nil => simp [hes] at hwf
  | cons e rest =>
    cases e with
    | m2m s d => simp [hes] at hwf
    | r2s cs ct vs sd => simp [hes] at hwf
    | copy s d =>
      simp only [hes, Bool.and_eq_true, beq_iff_eq, bne_iff_ne, ne_eq, decide_eq_true_eq, List.all_eq_true,
        Bool.not_eq_eq_eq_not, Bool.not_true] at hwf
      obtain ⟨⟨⟨⟨hs, hd⟩, hne⟩, hn⟩, hrest⟩ := hwf
      subst hs hd
      simp only [runFrom, hes, runPost_cons] at hrun
      cases hB : runPost k rest (loadInto (clean prev) g.size inputs) with
      | none => simp [hB] at hrun
      | some S1 =>
        simp only [hB, Option.bind_some, postEntry, Option.some.injEq] at hrun
        subst hrun
        unfold readNode
        apply List.map_congr_left
        intro j hj
        have hj' : j < n := List.mem_range.mp hj
        have h1 := copyRange_spec S1 dv 0 sv 0 n (fun h => hne h.symm) j hj'
        simp only [Nat.zero_add] at h1
        rw [h1]
        have h2 : S1 (dv, j) = loadInto (clean prev) g.size inputs (dv, j) := by
          apply runPost_frame k rest _ S1 (dv, j) _ hB
          intro e he
          have := (hrest e he).1.2
          exact srcNodes_not_postWrites e dv j this
        rw [h2, loadInto_of_lookup _ _ _ _ _ hx]
        simp only [resized]
        rw [if_pos (by omega)]

/-- the same vector written as "take `n` of the zero-padded solver vector" -/
theorem C04_primal_take (x : List Val) (n : Nat) :
    (List.range n).map (fun j => x.getD j 0) = (x ++ List.replicate n 0).take n := by
  apply List.ext_getElem
  · simp
  · intro i h1 h2
    simp only [List.getElem_map, List.getElem_range, List.getElem_take]
    by_cases hi : i < x.length
    · simp [List.getD_eq_getElem?_getD, List.getElem_append_left hi, hi]
    · have : i - x.length < n := by simp at h1; omega
      simp [List.getD_eq_getElem?_getD, List.getElem_append_right (Nat.le_of_not_lt hi), hi]

/-- Postsolve can only raise for the IIS kind (unknown slack status); all other transfers always return. -/
theorem C04_post_total (g : Graph) (prev : St) (k : Kind) (hk : k ≠ .iis) (inputs : List (Nat × List Val)) :
    ∃ S', runFrom g prev ⟨.post, k, inputs⟩ = some S' := by
  simp only [runFrom]
  exact runPost_total k hk _ _

/-! ## Values sent to the solver land on the images of the original variables -/

/-- Presolve of ANY kind (warm start before clamping, basis, priorities, generic suffix): solver variable
    `j < n` receives exactly the value given for original variable `j` (zero if the given vector is shorter). -/
theorem C04_presolve_vars (g : Graph) (sv dv n : Nat) (k : Kind) (inputs : List (Nat × List Val)) (x : List Val)
    (prev S' : St) (hwf : g.wfVars sv dv n = true) (hsz : n ≤ g.size sv) (hx : inputs.lookup sv = some x)
    (hrun : runFrom g prev ⟨.pre, k, inputs⟩ = some S') :
    readNode S' dv n = (List.range n).map (fun j => x.getD j 0) := by
  unfold Graph.wfVars at hwf
  cases hes : g.entries with
  | nil => simp [hes] at hwf
  | cons e rest =>
    cases e with
    | m2m s d => simp [hes] at hwf
    | r2s cs ct vs sd => simp [hes] at hwf
    | copy s d =>
      simp only [hes, Bool.and_eq_true, beq_iff_eq, bne_iff_ne, ne_eq, decide_eq_true_eq, List.all_eq_true,
        Bool.not_eq_eq_eq_not, Bool.not_true] at hwf
      obtain ⟨⟨⟨⟨hs, hd⟩, hne⟩, hn⟩, hrest⟩ := hwf
      subst hs hd
      simp only [runFrom, hes, runPre_cons, Option.some.injEq] at hrun
      subst hrun
      unfold readNode
      apply List.map_congr_left
      intro j hj
      have hj' : j < n := List.mem_range.mp hj
      rw [runPre_frame k rest _ (dv, j)]
      · simp only [preEntry]
        have h1 := copyRange_spec (loadInto (clean prev) g.size inputs) sv 0 dv 0 n hne j hj'
        simp only [Nat.zero_add] at h1
        rw [h1, loadInto_of_lookup _ _ _ _ _ hx]
        simp only [resized]
        rw [if_pos (by omega)]
      · intro e he
        have := (hrest e he).2 j hj
        simpa using this

/-- `ValuePresolver::PresolveSolution` then moves the warm start into the variable bounds -/
theorem C04_warmstart_clamped (lbs ubs : List (Option Val)) (x : List Val) (j : Nat) (hj : j < x.length) :
    (clampVec lbs ubs x).getD j 0 = clampVal (lbs.getD j none) (ubs.getD j none) (x.getD j 0) := by
  simp [clampVec, List.getD_eq_getElem?_getD, hj]

/-! ## History independence -/

/-- The result of a transfer does not depend on what the value nodes contained before it. -/
theorem C04_history_independent_step (g : Graph) (prev prev' : St) (c : Call) :
    runFrom g prev c = runFrom g prev' c := rfl

/-- For every sequence of pre/postsolve calls of any kinds (including calls that raise) from any initial
    node contents, every call returns what it returns on a fresh presolver. -/
theorem C04_history_independent (g : Graph) (s0 : St) (cs : List Call) :
    session g s0 cs = cs.map (runFrom g ⟨fun _ => 0⟩) := by
  induction cs generalizing s0 with
  | nil => rfl
  | cons c cs ih =>
    simp only [session, List.map_cons]
    rw [ih]
    rfl

/-! ## Frame: nothing is invented -/

/-- A cell no entry writes in a postsolve run keeps the loaded value (zero for non-terminal nodes). -/
theorem C04_post_frame (k : Kind) (es : List Entry) (S S' : St) (c : Cell)
    (hw : ∀ e ∈ es, e.postWrites c = false) (h : runPost k es S = some S') : S' c = S c :=
  runPost_frame k es S S' c hw h

theorem C04_pre_frame (k : Kind) (es : List Entry) (S : St) (c : Cell)
    (hw : ∀ e ∈ es, e.preWrites c = false) : runPre k es S c = S c :=
  runPre_frame k es S c hw

end MpVerif.C04

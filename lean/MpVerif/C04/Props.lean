import MpVerif.C04.Lemmas
import MpVerif.C04.Chains
import MpVerif.C04.Shared
/-!
# C04 — property theorems

All statements are about the model in `Model.lean` (tied to the real `ValuePresolver` on every run:
the real link graph of every generated conversion is loaded into the compiled model, the
well-formedness hypotheses used below are evaluated on it, and every real pre/postsolve result
is compared with the model's).  They hold for EVERY graph (any number/kind/order of entries), every
vector length and every call history.
-/
namespace MpVerif.C04

/-! ## Primal values / variable suffixes come back exactly (H1–H3 = `Graph.wfVars`) -/

/-- Postsolve of ANY kind (solution, basis, IIS, generic suffix) on ANY graph whose first entry is the
    copy link of the `n` original variables and where no other entry has the variable nodes on its
    source side: original variable `j` receives exactly the solver's value `x[j]`; a shorter solver
    vector is zero-filled, a longer one cut off — whatever the nodes contained before (`prev`). -/
theorem C04_primal (g : Graph) (sv dv n : Nat) (k : Kind) (inputs : List (Nat × List Val)) (x : List Val)
    (prev S' : St) (hwf : g.wfVars sv dv n = true) (hx : inputs.lookup dv = some x)
    (hrun : runFrom g prev ⟨.post, k, inputs⟩ = some S') :
    readNode S' sv n = (List.range n).map (fun j => x.getD j 0) := by
  unfold Graph.wfVars at hwf
  cases hes : g.entries with
  | nil => simp [hes] at hwf
  | cons e rest =>
    cases e with
    | m2m s d => simp [hes] at hwf
    | r2s cs ct vs sd => simp [hes] at hwf
    | copy s d =>
      simp only [hes, Bool.and_eq_true, beq_iff_eq, bne_iff_ne, ne_eq, decide_eq_true_eq, List.all_eq_true,
        Bool.not_eq_eq_eq_not, Bool.not_true] at hwf
      obtain ⟨⟨⟨⟨hs, hd⟩, hne⟩, hn⟩, hrest⟩ := hwf
      subst hs hd
      simp only [runFrom, hes, runPost_cons] at hrun
      cases hB : runPost k rest (loadInto (clean prev) g.size inputs) with
      | none => simp [hB] at hrun
      | some S1 =>
        simp only [hB, Option.bind_some, postEntry, Option.some.injEq] at hrun
        subst hrun
        unfold readNode
        apply List.map_congr_left
        intro j hj
        have hj' : j < n := List.mem_range.mp hj
        have h1 := copyRange_spec S1 dv 0 sv 0 n (fun h => hne h.symm) j hj'
        simp only [Nat.zero_add] at h1
        rw [h1]
        have h2 : S1 (dv, j) = loadInto (clean prev) g.size inputs (dv, j) := by
          apply runPost_frame k rest _ S1 (dv, j) _ hB
          intro e he
          have := (hrest e he).1.2
          exact srcNodes_not_postWrites e dv j this
        rw [h2, loadInto_of_lookup _ _ _ _ _ hx]
        simp only [resized]
        rw [if_pos (by omega)]

/-- the same vector written as "take `n` of the zero-padded solver vector" -/
theorem C04_primal_take (x : List Val) (n : Nat) :
    (List.range n).map (fun j => x.getD j 0) = (x ++ List.replicate n 0).take n := by
  apply List.ext_getElem
  · simp
  · intro i h1 h2
    simp only [List.getElem_map, List.getElem_range, List.getElem_take]
    by_cases hi : i < x.length
    · simp [List.getD_eq_getElem?_getD, List.getElem_append_left hi, hi]
    · have : i - x.length < n := by simp at h1; omega
      simp [List.getD_eq_getElem?_getD, List.getElem_append_right (Nat.le_of_not_lt hi), hi]

/-- Postsolve can only raise for the IIS kind (unknown slack status); all other transfers always return. -/
theorem C04_post_total (g : Graph) (prev : St) (k : Kind) (hk : k ≠ .iis) (inputs : List (Nat × List Val)) :
    ∃ S', runFrom g prev ⟨.post, k, inputs⟩ = some S' := by
  simp only [runFrom]
  exact runPost_total k hk _ _

/-! ## Values sent to the solver land on the images of the original variables -/

/-- Presolve of ANY kind (warm start before clamping, basis, priorities, generic suffix): solver variable
    `j < n` receives exactly the value given for original variable `j` (zero if the given vector is shorter). -/
theorem C04_presolve_vars (g : Graph) (sv dv n : Nat) (k : Kind) (inputs : List (Nat × List Val)) (x : List Val)
    (prev S' : St) (hwf : g.wfVars sv dv n = true) (hsz : n ≤ g.size sv) (hx : inputs.lookup sv = some x)
    (hrun : runFrom g prev ⟨.pre, k, inputs⟩ = some S') :
    readNode S' dv n = (List.range n).map (fun j => x.getD j 0) := by
  unfold Graph.wfVars at hwf
  cases hes : g.entries with
  | nil => simp [hes] at hwf
  | cons e rest =>
    cases e with
    | m2m s d => simp [hes] at hwf
    | r2s cs ct vs sd => simp [hes] at hwf
    | copy s d =>
      simp only [hes, Bool.and_eq_true, beq_iff_eq, bne_iff_ne, ne_eq, decide_eq_true_eq, List.all_eq_true,
        Bool.not_eq_eq_eq_not, Bool.not_true] at hwf
      obtain ⟨⟨⟨⟨hs, hd⟩, hne⟩, hn⟩, hrest⟩ := hwf
      subst hs hd
      simp only [runFrom, hes, runPre_cons, Option.some.injEq] at hrun
      subst hrun
      unfold readNode
      apply List.map_congr_left
      intro j hj
      have hj' : j < n := List.mem_range.mp hj
      rw [runPre_frame k rest _ (dv, j)]
      · simp only [preEntry]
        have h1 := copyRange_spec (loadInto (clean prev) g.size inputs) sv 0 dv 0 n hne j hj'
        simp only [Nat.zero_add] at h1
        rw [h1, loadInto_of_lookup _ _ _ _ _ hx]
        simp only [resized]
        rw [if_pos (by omega)]
      · intro e he
        have := (hrest e he).2 j hj
        simpa using this

/-- `ValuePresolver::PresolveSolution` then moves the warm start into the variable bounds -/
theorem C04_warmstart_clamped (lbs ubs : List (Option Val)) (x : List Val) (j : Nat) (hj : j < x.length) :
    (clampVec lbs ubs x).getD j 0 = clampVal (lbs.getD j none) (ubs.getD j none) (x.getD j 0) := by
  simp [clampVec, List.getD_eq_getElem?_getD, hj]

/-! ## Duals, basis statuses, IIS flags, presolve images: the per-graph certificate is sound

`tracePost` / `tracePre` (Trace.lean) are run by the check on the REAL link graph of every conversion, for every
original variable and constraint, and must return the origin the property demands (solver row `r` for a
linear constraint delivered as row `r`; `rev (slack)` for the basis status of a range constraint converted to
equality-plus-slack; …).  The theorems below say that such a certificate determines the transferred value
for EVERY solver answer (all vector lengths) and EVERY history. -/

theorem loaded_zero (prev : St) (sizes : Nat → Nat) (inputs : List (Nat × List Val)) (zero : Cell → Bool)
    (hz : ∀ c, zero c = true → inputs.lookup c.1 = none) :
    ∀ c, zero c = true → loadInto (clean prev) sizes inputs c = 0 := by
  intro c hc
  rw [loadInto_of_not_lookup _ _ _ _ (hz c hc)]
  rfl

/-- Postsolve: if the certificate for cell `c` is `o`, then after ANY postsolve call of kind `k` that returns,
    `c` holds `o` evaluated on the loaded solver vectors. -/
theorem C04_postsolve_origin (g : Graph) (k : Kind) (inputs : List (Nat × List Val)) (prev S' : St)
    (zero : Cell → Bool) (hz : ∀ c, zero c = true → inputs.lookup c.1 = none) (c : Cell) (o : Origin)
    (ht : tracePost k zero g.entries c = some o)
    (hrun : runFrom g prev ⟨.post, k, inputs⟩ = some S') :
    S' c = o.eval (loadInto (clean prev) g.size inputs) :=
  tracePost_sound k zero _ (loaded_zero prev g.size inputs zero hz) g.entries c o S' ht hrun

/-- Presolve: the same for the values handed to the solver (`tracePre` takes the reversed entry list). -/
theorem C04_presolve_origin (g : Graph) (k : Kind) (inputs : List (Nat × List Val)) (prev S' : St)
    (zero : Cell → Bool) (hz : ∀ c, zero c = true → inputs.lookup c.1 = none) (c : Cell) (o : Origin)
    (ht : tracePre k zero g.entries.reverse c = some o)
    (hrun : runFrom g prev ⟨.pre, k, inputs⟩ = some S') :
    S' c = o.eval (loadInto (clean prev) g.size inputs) := by
  simp only [runFrom, Option.some.injEq] at hrun
  subst hrun
  have := tracePre_sound k zero _ (loaded_zero prev g.size inputs zero hz) g.entries.reverse c o ht
  simpa using this

/-- Dual value: a constraint whose certificate (kind `sol`) is solver row `r` of group node `dc` receives exactly
    `pi[r]` (zero if the solver's dual vector is shorter), also when the row is the equality of an
    equality-plus-slack pair (`r2sPostOrigin .sol` ignores the slack). -/
theorem C04_dual (g : Graph) (inputs : List (Nat × List Val)) (prev S' : St) (zero : Cell → Bool)
    (hz : ∀ c, zero c = true → inputs.lookup c.1 = none) (c : Cell) (dc r : Nat) (pi : List Val)
    (ht : tracePost .sol zero g.entries c = some (.init (dc, r)))
    (hpi : inputs.lookup dc = some pi) (hr : r < g.size dc)
    (hrun : runFrom g prev ⟨.post, .sol, inputs⟩ = some S') :
    S' c = pi.getD r 0 := by
  rw [C04_postsolve_origin g .sol inputs prev S' zero hz c _ ht hrun]
  simp [Origin.eval, loadInto_of_lookup _ _ _ _ _ hpi, resized, hr]

/-- Basis status with the slack mapping: certificate `rev (slack variable s)` ⇒ the range constraint receives the
    slack's status with low ↔ upp exchanged (the solver's status of the equality row is forgotten). -/
theorem C04_basis_slack (g : Graph) (inputs : List (Nat × List Val)) (prev S' : St) (zero : Cell → Bool)
    (hz : ∀ c, zero c = true → inputs.lookup c.1 = none) (c : Cell) (dv s : Nat) (varstt : List Val)
    (ht : tracePost .basis zero g.entries c = some (.rev (.init (dv, s))))
    (hv : inputs.lookup dv = some varstt) (hs : s < g.size dv)
    (hrun : runFrom g prev ⟨.post, .basis, inputs⟩ = some S') :
    S' c = revBasis (varstt.getD s 0) := by
  rw [C04_postsolve_origin g .basis inputs prev S' zero hz c _ ht hrun]
  simp [Origin.eval, loadInto_of_lookup _ _ _ _ _ hv, resized, hs]

/-- IIS flag with the slack mapping: slack low(1) ↦ upp(3), upp(3) ↦ low(1), fix(2) ↦ fix(2),
    slack not in the IIS (0) ↦ the flag of the equality row. -/
theorem C04_iis_slack (g : Graph) (inputs : List (Nat × List Val)) (prev S' : St) (zero : Cell → Bool)
    (hz : ∀ c, zero c = true → inputs.lookup c.1 = none) (c : Cell) (dv s dc r : Nat) (iv ic : List Val)
    (ht : tracePost .iis zero g.entries c = some (.iis (.init (dv, s)) (.init (dc, r))))
    (hv : inputs.lookup dv = some iv) (hs : s < g.size dv)
    (hc : inputs.lookup dc = some ic) (hr : r < g.size dc)
    (hrun : runFrom g prev ⟨.post, .iis, inputs⟩ = some S') :
    S' c = (if iv.getD s 0 = 1 then 3 else if iv.getD s 0 = 3 then 1 else if iv.getD s 0 = 2 then 2
            else if iv.getD s 0 = 0 then ic.getD r 0 else 0) := by
  rw [C04_postsolve_origin g .iis inputs prev S' zero hz c _ ht hrun]
  simp only [Origin.eval, loadInto_of_lookup _ _ _ _ _ hv, loadInto_of_lookup _ _ _ _ _ hc, resized, hs, hr, if_true, iisVal]
  generalize iv.getD s 0 = a
  generalize ic.getD r 0 = b
  by_cases h0 : a = 0
  · subst h0; simp
  · by_cases h1 : a = 1
    · subst h1; simp
    · by_cases h3 : a = 3
      · subst h3; simp
      · by_cases h2 : a = 2
        · subst h2; simp
        · simp [h0, h1, h2, h3]

/-- **H4 chain, plain form**: an original constraint linked by a copy entry to an intermediate constraint that a later copy
    entry links to solver row `row`; nobody else writes the two cells after them.  Then for every kind the certificate
    is the solver row itself: dual, basis status, IIS flag, generic suffix of the row, unchanged. -/
theorem C04_chain_copy_copy (k : Kind) (zero : Cell → Bool) (A M T : List Entry) (s1 d1 s2 d2 : Rng) (j1 j2 : Nat)
    (hj1 : j1 < d1.len) (hj2 : j2 < d2.len) (hn1 : s1.node ≠ d1.node) (hn2 : s2.node ≠ d2.node)
    (hmid : (d1.node, d1.beg + j1) = (s2.node, s2.beg + j2))
    (hA : ∀ e ∈ A, e.postWrites (s1.node, s1.beg + j1) = false)
    (hM : ∀ e ∈ M, e.postWrites (d1.node, d1.beg + j1) = false)
    (hT : ∀ e ∈ T, e.postWrites (d2.node, d2.beg + j2) = false) :
    tracePost k zero (A ++ .copy s1 d1 :: (M ++ .copy s2 d2 :: T)) (s1.node, s1.beg + j1)
      = some (.init (d2.node, d2.beg + j2)) := by
  rw [tracePost_skip k zero A _ _ hA, tracePost_copy_head k zero s1 d1 _ j1 hj1 hn1,
      tracePost_skip k zero M _ _ hM, hmid, tracePost_copy_head k zero s2 d2 _ j2 hj2 hn2,
      tracePost_none_written k zero T _ hT]

/-- **H4 chain, slack form**: original constraint —copy→ range constraint `cs` —Range2Slack→ (equality `ct`, slack `vs`),
    `ct` —copy→ solver row; nobody else writes `cs` after the Range2Slack entry, `ct` between it and the final copy,
    the row and the slack variable.  The certificate is the documented slack mapping `r2sPostOrigin`
    (dual: the row's; basis: reversed slack status; IIS: slack flag exchanged, else the row's). -/
theorem C04_chain_copy_slack_copy (k : Kind) (zero : Cell → Bool) (A M N T : List Entry) (s1 d1 s2 d2 : Rng) (j1 j2 : Nat)
    (cs ct vs : Cell) (sd : SlackData)
    (hj1 : j1 < d1.len) (hj2 : j2 < d2.len) (hn1 : s1.node ≠ d1.node) (hn2 : s2.node ≠ d2.node)
    (hcs : (d1.node, d1.beg + j1) = cs) (hct : ct = (s2.node, s2.beg + j2))
    (hzero : zero cs = true) (hdist : r2sDistinct cs ct vs = true)
    (hA : ∀ e ∈ A, e.postWrites (s1.node, s1.beg + j1) = false)
    (hM : ∀ e ∈ M, e.postWrites cs = false)
    (hfresh : ∀ e ∈ N ++ .copy s2 d2 :: T, e.postWrites cs = false)
    (hN : ∀ e ∈ N, e.postWrites ct = false)
    (hT : ∀ e ∈ T, e.postWrites (d2.node, d2.beg + j2) = false)
    (hvs : ∀ e ∈ N ++ .copy s2 d2 :: T, e.postWrites vs = false) :
    tracePost k zero (A ++ .copy s1 d1 :: (M ++ .r2s cs ct vs sd :: (N ++ .copy s2 d2 :: T))) (s1.node, s1.beg + j1)
      = some (r2sPostOrigin k (.init (d2.node, d2.beg + j2)) (.init vs)) := by
  rw [tracePost_skip k zero A _ _ hA, tracePost_copy_head k zero s1 d1 _ j1 hj1 hn1, hcs,
      tracePost_skip k zero M _ _ hM]
  have hw : (Entry.r2s cs ct vs sd).postWrites cs = true := by simp [Entry.postWrites]
  have hall : (N ++ .copy s2 d2 :: T).all (fun e' => !e'.postWrites cs) = true := by
    simp only [List.all_eq_true, Bool.not_eq_eq_eq_not, Bool.not_true]; exact hfresh
  simp only [tracePost, hw, if_true, hzero, hdist, hall, Bool.and_self]
  rw [tracePost_skip k zero N _ _ hN, hct, tracePost_copy_head k zero s2 d2 _ j2 hj2 hn2,
      tracePost_none_written k zero T _ hT, tracePost_none_written k zero _ vs hvs]

/-- **Presolve image, plain chain** (lists in REVERSED registration order, as `tracePre` takes them): the solver row reached
    through two copy entries receives, in every kind (warm-start dual, basis status, lazy flag, generic suffix), exactly the
    value given for the original constraint. -/
theorem C04_prechain_copy_copy (k : Kind) (zero : Cell → Bool) (A M T : List Entry) (s1 d1 s2 d2 : Rng) (j1 j2 : Nat)
    (hj1 : j1 < s1.len) (hj2 : j2 < s2.len) (hn1 : s1.node ≠ d1.node) (hn2 : s2.node ≠ d2.node)
    (hmid : (s2.node, s2.beg + j2) = (d1.node, d1.beg + j1))
    (hT : ∀ e ∈ T, e.preWrites (d2.node, d2.beg + j2) = false)
    (hM : ∀ e ∈ M, e.preWrites (d1.node, d1.beg + j1) = false)
    (hA : ∀ e ∈ A, e.preWrites (s1.node, s1.beg + j1) = false) :
    tracePre k zero (T ++ .copy s2 d2 :: (M ++ .copy s1 d1 :: A)) (d2.node, d2.beg + j2)
      = some (.init (s1.node, s1.beg + j1)) := by
  rw [tracePre_skip k zero T _ _ hT, tracePre_copy_head k zero s2 d2 _ j2 hj2 hn2, hmid,
      tracePre_skip k zero M _ _ hM, tracePre_copy_head k zero s1 d1 _ j1 hj1 hn1,
      tracePre_none_written k zero A _ hA]

/-- **Presolve image, slack chain**: the equality row `ct` of an equality-plus-slack pair receives the original constraint's
    value for warm-start duals, lazy flags and generic suffixes, and the status `equ` (5) for a basis; the slack variable
    receives the reversed basis status (`r2sPreSlackOrigin`). -/
theorem C04_prechain_slack (k : Kind) (zero : Cell → Bool) (A M N : List Entry) (s1 d1 : Rng) (j1 : Nat)
    (cs ct vs : Cell) (sd : SlackData) (c : Cell) (hc : c = ct ∨ c = vs)
    (hj1 : j1 < s1.len) (hn1 : s1.node ≠ d1.node) (hcs : cs = (d1.node, d1.beg + j1))
    (hzero : zero c = true) (hdist : r2sDistinct cs ct vs = true)
    (hN : ∀ e ∈ N, e.preWrites c = false)
    (hfresh : ∀ e ∈ M ++ .copy s1 d1 :: A, e.preWrites c = false)
    (hM : ∀ e ∈ M, e.preWrites cs = false)
    (hA : ∀ e ∈ A, e.preWrites (s1.node, s1.beg + j1) = false) :
    tracePre k zero (N ++ .r2s cs ct vs sd :: (M ++ .copy s1 d1 :: A)) c
      = (if c = ct then some (r2sPreTargetOrigin k (.init (s1.node, s1.beg + j1)))
         else r2sPreSlackOrigin k (.init (s1.node, s1.beg + j1))) := by
  rw [tracePre_skip k zero N _ _ hN]
  have hw : (Entry.r2s cs ct vs sd).preWrites c = true := by
    rcases hc with h | h <;> simp [Entry.preWrites, h]
  have hall : (M ++ .copy s1 d1 :: A).all (fun e' => !e'.preWrites c) = true := by
    simp only [List.all_eq_true, Bool.not_eq_eq_eq_not, Bool.not_true]; exact hfresh
  simp only [tracePre, hw, if_true, hzero, hdist, hall, Bool.and_self]
  rw [tracePre_skip k zero M _ _ hM, hcs, tracePre_copy_head k zero s1 d1 _ j1 hj1 hn1,
      tracePre_none_written k zero A _ hA]

/-- Warm start: the slack variable of a converted range constraint receives the lower slack of the constraint the
    entry carries, at the presolved point (then `clampVec` moves it into `[0, ub-lb]`).  Which constraint the REAL
    converter puts there is checked per run (`rangecon.used` vs `rangecon.own`): before /repo 0119379 it was an unrelated
    linear constraint for quadratic range constraints (finding C04-quadrange-slack-warmstart, fixed). -/
theorem C04_warmstart_slack_entry (S : St) (cs ct vs : Cell) (sd : SlackData) (hd : ct ≠ vs) (h0 : S vs = 0) :
    (preEntry .sol (.r2s cs ct vs sd) S) vs = lowerSlack (S.setNum ct (S cs)) vs.1 sd := by
  simp [preEntry, St.setNum_other _ _ (Ne.symm hd), h0]

/-! ## Items shared by several original items (a functional constraint used by several constraints, …)

The converter links EVERY user of a shared item to it by One2Many entries.  The decidable certificates
`m2mSourcesRev` (who writes the shared item in a presolve run) and `reachPost` (is the user linked to the shared item)
are evaluated on the real graph for every original constraint whose expression contains the shared expression. -/

/-- Presolve (suffixes such as `.funcpieces`, lazy flags, basis, warm-start duals): a solver item `t` that is fed (through
    copies) only by One2Many entries receives `foldl setNumVal 0` = the max among non-zero of the values given for ALL
    linked users, in any kind. -/
theorem C04_shared_presolve_max (g : Graph) (k : Kind) (inputs : List (Nat × List Val)) (prev S' : St)
    (zero : Cell → Bool) (hz : ∀ c, zero c = true → inputs.lookup c.1 = none) (t : Cell) (us : List Cell)
    (h : m2mSourcesRev zero g.entries.reverse t = some us) (hsrc : srcsUnwritten g.entries us = true)
    (hrun : runFrom g prev ⟨.pre, k, inputs⟩ = some S') :
    S' t = (us.map (fun u => loadInto (clean prev) g.size inputs u)).foldl setNumVal 0 := by
  simp only [runFrom, Option.some.injEq] at hrun
  subst hrun
  have hsrc' : ∀ u ∈ us, ∀ e ∈ g.entries.reverse, e.preWrites u = false := by
    intro u hu e he
    simp only [srcsUnwritten, List.all_eq_true, Bool.not_eq_eq_eq_not, Bool.not_true] at hsrc
    exact hsrc u hu e (List.mem_reverse.mp he)
  have := m2mSourcesRev_sound k zero (loadInto (clean prev) g.size inputs)
    (loaded_zero prev g.size inputs zero hz) g.entries.reverse t us h hsrc'
  rw [List.reverse_reverse] at this
  exact this

/-- `foldl setNumVal 0` is the max among the non-zero values: it dominates every non-zero contribution (and is then
    non-zero), and it is one of the contributions or 0. -/
theorem C04_shared_max_spec (vs : List Val) :
    (∀ v ∈ vs, v ≠ 0 → vs.foldl setNumVal 0 ≠ 0 ∧ v ≤ vs.foldl setNumVal 0) ∧
    (vs.foldl setNumVal 0 = 0 ∨ vs.foldl setNumVal 0 ∈ vs) :=
  ⟨fun v hv h => foldSet_mem vs 0 v hv h, foldSet_in vs 0⟩

/-- Postsolve (IIS flags, basis statuses, duals, generic suffixes).  Split the entry list at the first entry that writes the
    shared item `t` in a postsolve run: `A` (registered before, run after) and `B`.  If `B` gives `t` the origin `o`
    (certificate, e.g. the solver's general constraint `r`) and `A` links user `u` to `t` (`reachPost`), then a non-zero
    solver value reaches `u`: it ends non-zero and at least that value (max among non-zero) — for EVERY linked user. -/
theorem C04_shared_postsolve_reaches (g : Graph) (k : Kind) (inputs : List (Nat × List Val)) (prev S' : St)
    (zero : Cell → Bool) (hz : ∀ c, zero c = true → inputs.lookup c.1 = none) (u t : Cell) (o : Origin)
    (hA : reachPost (g.entries.takeWhile (fun e => !e.postWrites t)) u t = true)
    (hB : tracePost k zero (g.entries.dropWhile (fun e => !e.postWrites t)) t = some o)
    (hv : o.eval (loadInto (clean prev) g.size inputs) ≠ 0)
    (hrun : runFrom g prev ⟨.post, k, inputs⟩ = some S') :
    S' u ≠ 0 ∧ o.eval (loadInto (clean prev) g.size inputs) ≤ S' u := by
  simp only [runFrom] at hrun
  rw [← List.takeWhile_append_dropWhile (p := fun e => !e.postWrites t) (l := g.entries), runPost_append] at hrun
  cases hB1 : runPost k (g.entries.dropWhile (fun e => !e.postWrites t)) (loadInto (clean prev) g.size inputs) with
  | none => simp [hB1] at hrun
  | some S1 =>
    simp only [hB1, Option.bind_some] at hrun
    have ht1 := tracePost_sound k zero _ (loaded_zero prev g.size inputs zero hz) _ t o S1 hB hB1
    have hnw : ∀ e ∈ g.entries.takeWhile (fun e => !e.postWrites t), e.postWrites t = false := by
      intro e he
      have := mem_takeWhile_true _ _ e he
      simpa using this
    have := reachPost_sound k S1 _ u t S' hA hnw hrun (by rw [ht1]; exact hv)
    rw [ht1] at this
    exact this

/-- two users of one shared item: nodes 0 src_cons (2 constraints), 1 _sin (1 functional constraint), 2 dest_cons(6) -/
def sharedGraph : Graph :=
  { entries := [.m2m ⟨0, 0, 1⟩ ⟨1, 0, 1⟩, .m2m ⟨0, 1, 1⟩ ⟨1, 0, 1⟩, .copy ⟨1, 0, 1⟩ ⟨2, 0, 1⟩], sizes := [2, 1, 1] }

example : m2mSourcesRev (fun c => c.1 ≠ 0) sharedGraph.entries.reverse (2, 0) = some [(0, 0), (0, 1)] := by decide
example : reachPost (sharedGraph.entries.takeWhile (fun e => !e.postWrites (1, 0))) (0, 1) (1, 0) = true := by decide
example : tracePost .iis (fun c => c.1 ≠ 2) (sharedGraph.entries.dropWhile (fun e => !e.postWrites (1, 0))) (1, 0) = some (.init (2, 0)) := by decide
example : (runFrom sharedGraph ⟨fun _ => 0⟩ ⟨.pre, .generic, [(0, [5, 9])]⟩).map (fun S => readNode S 2 1) = some [9] := by decide
example : (runFrom sharedGraph ⟨fun _ => 0⟩ ⟨.post, .iis, [(2, [4])]⟩).map (fun S => readNode S 0 2) = some [4, 4] := by decide
/-! That EVERY user of a shared item is linked to it is a property of the converter, validated per run (certificates `sources` /
    `reach` + oracle).  It FAILS on the unchanged tree for AMPL defined variables (`ProblemFlattener::VisitCommonExpr`, known finding
    C04-common-expr-reuse-not-linked): the graph then has the shape below, and the model shows what is lost. -/

/-- second user's link missing: `.funcpieces` 5/9 arrives as 5, and the IIS flag of the shared constraint does not reach the second user -/
theorem C04_counterexample_shared_link_missing :
    let g : Graph := { sharedGraph with entries := [.m2m ⟨0, 0, 1⟩ ⟨1, 0, 1⟩, .copy ⟨1, 0, 1⟩ ⟨2, 0, 1⟩] }
    (runFrom g ⟨fun _ => 0⟩ ⟨.pre, .generic, [(0, [5, 9])]⟩).map (fun S => readNode S 2 1) = some [5] ∧
    (runFrom g ⟨fun _ => 0⟩ ⟨.post, .iis, [(2, [4])]⟩).map (fun S => readNode S 0 2) = some [4, 0] := by
  decide

/-- the same model converted with the second user's link missing (seeded change C04-4): the value 9 and the IIS flag are lost -/
example : (runFrom { sharedGraph with entries := [.m2m ⟨0, 0, 1⟩ ⟨1, 0, 1⟩, .copy ⟨1, 0, 1⟩ ⟨2, 0, 1⟩] } ⟨fun _ => 0⟩
    ⟨.pre, .generic, [(0, [5, 9])]⟩).map (fun S => readNode S 2 1) = some [5] := by decide

/-! ### The full-strength IIS statement is false on the code as it exists

    theorem C04_iis_total : ∀ g prev inputs, ∃ S', runFrom g prev ⟨.post, .iis, inputs⟩ = some S'

`RangeCon2Slack::PostsolveIISEntry` raises ("Unknown IIS status for a range constraint slack") when the
solver reports a status other than non/low/fix/upp for a range-slack variable; then NO item receives an IIS
flag.  `C04_post_total` is the proved partial statement (all kinds except IIS); `C04_iis_returns_partial`
the IIS part under the hypothesis; the counterexample is replayed against the real code by the check. -/

/-- the graph of `lb <= body <= ub` converted to `body + s = ub`: nodes 0 src_vars, 1 src_cons, 2 _linrange,
    3 _lineq, 4 dest_vars, 5 dest_cons(3) -/
def exampleGraph : Graph :=
  { entries := [.copy ⟨0, 0, 2⟩ ⟨4, 0, 2⟩, .copy ⟨1, 0, 1⟩ ⟨2, 0, 1⟩,
                .r2s (2, 0) (3, 0) (4, 2) ⟨[(1, 0), (1, 1)], [], 1⟩, .copy ⟨3, 0, 1⟩ ⟨5, 0, 1⟩],
    sizes := [2, 1, 1, 1, 3, 1] }

theorem C04_counterexample_iis_unknown_slack_status :
    runFrom exampleGraph ⟨fun _ => 0⟩ ⟨.post, .iis, [(4, [0, 0, 4]), (5, [1])]⟩ = none := by
  decide

/-- IIS postsolve returns whenever every loaded value is one of non/low/fix/upp … stated for the entry: -/
theorem C04_iis_returns_partial (S : St) (cs ct vs : Cell) (sd : SlackData)
    (h : S vs = 0 ∨ S vs = 1 ∨ S vs = 2 ∨ S vs = 3) : ∃ S', postEntry .iis (.r2s cs ct vs sd) S = some S' := by
  simp only [postEntry, iisVal]
  rcases h with h | h | h | h <;> simp [h]

/-! ### Non-vacuity: the hypotheses hold and the certificates compute on the example graph -/

example : exampleGraph.inBounds = true := by decide
example : exampleGraph.wfVars 0 4 2 = true := by decide
example : tracePost .sol (fun c => c.1 < 4) exampleGraph.entries (1, 0) = some (.init (5, 0)) := by decide
example : tracePost .basis (fun c => c.1 < 4) exampleGraph.entries (1, 0) = some (.rev (.init (4, 2))) := by decide
example : tracePost .iis (fun c => c.1 < 4) exampleGraph.entries (1, 0) = some (.iis (.init (4, 2)) (.init (5, 0))) := by decide
example : tracePre .basis (fun c => 2 ≤ c.1) exampleGraph.entries.reverse (4, 2) = some (.rev (.init (1, 0))) := by decide
example : tracePre .basis (fun c => 2 ≤ c.1) exampleGraph.entries.reverse (5, 0) = some (.const 5) := by decide
example : tracePre .sol (fun c => 2 ≤ c.1) exampleGraph.entries.reverse (5, 0) = some (.init (1, 0)) := by decide
example : (runFrom exampleGraph ⟨fun _ => 7⟩ ⟨.post, .basis, [(4, [1, 3, 4]), (5, [5])]⟩).map
    (fun S => (readNode S 0 2, readNode S 1 1)) = some ([1, 3], [3]) := by decide

/-! ## History independence -/

/-- The result of a transfer does not depend on what the value nodes contained before it. -/
theorem C04_history_independent_step (g : Graph) (prev prev' : St) (c : Call) :
    runFrom g prev c = runFrom g prev' c := rfl

/-- For every sequence of pre/postsolve calls of any kinds (including calls that raise) from any initial
    node contents, every call returns what it returns on a fresh presolver. -/
theorem C04_history_independent (g : Graph) (s0 : St) (cs : List Call) :
    session g s0 cs = cs.map (runFrom g ⟨fun _ => 0⟩) := by
  induction cs generalizing s0 with
  | nil => rfl
  | cons c cs ih =>
    simp only [session, List.map_cons]
    rw [ih]
    rfl

/-! ## Frame: nothing is invented -/

/-- A cell no entry writes in a postsolve run keeps the loaded value (zero for non-terminal nodes). -/
theorem C04_post_frame (k : Kind) (es : List Entry) (S S' : St) (c : Cell)
    (hw : ∀ e ∈ es, e.postWrites c = false) (h : runPost k es S = some S') : S' c = S c :=
  runPost_frame k es S S' c hw h

theorem C04_pre_frame (k : Kind) (es : List Entry) (S : St) (c : Cell)
    (hw : ∀ e ∈ es, e.preWrites c = false) : runPre k es S c = S c :=
  runPre_frame k es S c hw

end MpVerif.C04
